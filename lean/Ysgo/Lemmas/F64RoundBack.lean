import Ysgo.Lemmas.F64Shortest
/-!
# F64 lemma library, part 17: rounding back

Every positive rational `c` inside the rounding interval of a finite non-zero double `x = ±m·2^e`
(`InsideRounding x m e c`: between the midpoints to the neighbouring doubles, the midpoints included exactly when `m` is
even) is rounded to `x` by the two rounding functions of the model: `roundQuot_back` (for `c = n/d`) and
`roundDyadic_back` (for `c = N·2^e0`).

`F64.bits` is an unbounded `Nat`; `decode` reads only the low 64 bits, so `decode` is injective only on *canonical*
patterns (`Canonical x : x.bits < 2^64`). The rounding functions return canonical patterns; the lemmas are stated with
`canon x` (the canonical pattern with the fields of `x`, equal to `x` for canonical `x`: `canon_eq`).
-/
namespace Ysgo
namespace F64

/-- `x` is a 64-bit pattern -/
def Canonical (x : F64) : Prop := x.bits < P64
instance (x : F64) : Decidable (Canonical x) := by unfold Canonical; infer_instance

/-- the 64-bit pattern with the fields of `x` -/
def canon (x : F64) : F64 := pack (signBit x) (expField x) (fracField x)

theorem canon_eq {x : F64} (h : Canonical x) : canon x = x := by
  obtain ⟨b⟩ := x
  unfold Canonical at h
  unfold canon pack signBit expField fracField
  simp only at h ⊢
  congr 1
  unfold P64 at h
  unfold P63 P52
  by_cases hs : b / 9223372036854775808 % 2 = 1
  · simp [hs]; omega
  · simp [hs]; omega

theorem canonical_pack (s : Bool) (E f : ℕ) (hE : E < 2048) (hf : f < P52) : Canonical (pack s E f) := by
  unfold Canonical pack P64 P63 P52 at *
  cases s <;> simp <;> omega

theorem fields_lt (x : F64) : expField x < 2048 ∧ fracField x < P52 :=
  ⟨by unfold expField; exact Nat.mod_lt _ (by omega), by unfold fracField; exact Nat.mod_lt _ (by unfold P52; omega)⟩

theorem canonical_canon (x : F64) : Canonical (canon x) :=
  canonical_pack _ _ _ (fields_lt x).1 (fields_lt x).2

theorem fields_canon (x : F64) :
    expField (canon x) = expField x ∧ fracField (canon x) = fracField x ∧ signBit (canon x) = signBit x :=
  fields_pack _ _ _ (fields_lt x).1 (fields_lt x).2

theorem decode_canon (x : F64) : decode (canon x) = decode x := by
  obtain ⟨h1, h2, h3⟩ := fields_canon x
  unfold decode
  rw [h1, h2, h3]

/-- **`decode` is injective on canonical patterns** -/
theorem eq_of_decode_eq {x y : F64} (hx : Canonical x) (hy : Canonical y) {s m e}
    (h1 : decode x = .fin s m e) (h2 : decode y = .fin s m e) : x = y := by
  have key : ∀ z : F64, decode z = .fin s m e →
      signBit z = s ∧ expField z = (if m < P52 then 0 else (e + 1075).toNat)
        ∧ fracField z = (if m < P52 then m else m - P52) := by
    intro z hz
    have hfr := (fields_lt z).2
    unfold decode at hz
    split at hz
    · split at hz <;> cases hz
    · split at hz
      · rename_i h0
        cases hz
        exact ⟨rfl, by rw [if_pos hfr, h0], by rw [if_pos hfr]⟩
      · rename_i h0
        cases hz
        refine ⟨rfl, ?_, ?_⟩
        · rw [if_neg (by omega)]; omega
        · rw [if_neg (by omega)]; omega
  obtain ⟨a1, a2, a3⟩ := key x h1
  obtain ⟨b1, b2, b3⟩ := key y h2
  rw [← canon_eq hx, ← canon_eq hy]
  unfold canon
  rw [a1, a2, a3, b1, b2, b3]

/-- the fields behind a decoded finite double -/
theorem decode_fin_fields {x : F64} {s m e} (h : decode x = .fin s m e) :
    signBit x = s ∧ fracField x < P52 ∧ expField x < 2047 ∧
      ((expField x = 0 ∧ m = fracField x ∧ e = -1074) ∨
        (0 < expField x ∧ m = fracField x + P52 ∧ e = (expField x : ℤ) - 1075)) := by
  have hfr := (fields_lt x).2
  have hex := (fields_lt x).1
  unfold decode at h
  split at h
  · split at h <;> cases h
  · rename_i hne
    split at h
    · rename_i h0
      cases h
      exact ⟨rfl, hfr, by omega, Or.inl ⟨h0, rfl, rfl⟩⟩
    · rename_i h0
      cases h
      exact ⟨rfl, hfr, by omega, Or.inr ⟨by omega, rfl, rfl⟩⟩

/-- packing the decoded mantissa and exponent gives the canonical pattern back -/
theorem finish_eq_canon {x : F64} {s m e} (h : decode x = .fin s m e) : finish s m e = canon x := by
  obtain ⟨hs, hfr, hex, hc⟩ := decode_fin_fields h
  unfold finish canon
  rw [hs]
  rcases hc with ⟨h0, hm, he⟩ | ⟨h0, hm, he⟩
  · have h53 : ¬ (m = P53) := by unfold P52 P53 at *; omega
    simp only [h53, ↓reduceIte]
    rw [if_pos (by omega), h0, hm]
  · have h53 : ¬ (m = P53) := by unfold P52 P53 at *; omega
    simp only [h53, ↓reduceIte]
    rw [if_neg (by omega), if_neg (by omega)]
    have a : (e + 1075).toNat = expField x := by omega
    have b : m - P52 = fracField x := by omega
    rw [a, b]

/-- the mantissa `2^53` at the exponent below renormalises to the power of two `2^52·2^e` -/
theorem finish_P53 (s : Bool) (e : ℤ) : finish s P53 (e - 1) = finish s P52 e := by
  have h : ¬ (P52 = P53) := by unfold P52 P53; omega
  unfold finish
  simp only [h, if_true, if_false, Int.sub_add_cancel]

theorem finish_P53_eq_canon {x : F64} {s e} (h : decode x = .fin s P52 e) : finish s P53 (e - 1) = canon x := by
  rw [finish_P53]; exact finish_eq_canon h

/-! ### round-half-even returns the integer whose half-open/closed neighbourhood contains the quotient -/

theorem rne_eq_of_near (A B m : ℕ) (hB : 0 < B) (h1 : 2 * (m * B) ≤ 2 * A + B) (h2 : 2 * A ≤ 2 * (m * B) + B)
    (hs : m % 2 = 1 → 2 * (m * B) < 2 * A + B ∧ 2 * A < 2 * (m * B) + B) : rne A B = m := by
  have hdm := Nat.div_add_mod A B
  have hr := Nat.mod_lt A hB
  unfold rne
  simp only []
  generalize A / B = q at *
  generalize A % B = r at *
  rcases Nat.lt_trichotomy q m with hlt | heq | hgt
  · -- q + 1 = m
    by_cases hq1 : q + 1 = m
    · subst hq1
      have e2 : (q + 1) * B = B * q + B := by rw [Nat.add_mul, Nat.one_mul, Nat.mul_comm]
      rw [e2] at h1 h2 hs
      generalize B * q = P at *
      split
      · omega
      · split
        · rfl
        · split
          · exfalso
            have : (q + 1) % 2 = 1 := by omega
            have := hs this
            omega
          · rfl
    · exfalso
      have : (q + 2) * B ≤ m * B := Nat.mul_le_mul_right _ (by omega)
      have e2 : (q + 2) * B = B * q + 2 * B := by rw [Nat.add_mul, Nat.mul_comm]
      rw [e2] at this
      generalize B * q = P at *
      generalize m * B = Q at *
      omega
  · subst heq
    have e1 : q * B = B * q := Nat.mul_comm _ _
    rw [e1] at h1 h2 hs
    generalize B * q = P at *
    split
    · rfl
    · split
      · omega
      · split
        · rfl
        · exfalso
          have : q % 2 = 1 := by omega
          have := hs this
          omega
  · exfalso
    have : (m + 1) * B ≤ q * B := Nat.mul_le_mul_right _ (by omega)
    have e2 : (m + 1) * B = m * B + B := by rw [Nat.add_mul, Nat.one_mul]
    have e1 : q * B = B * q := Nat.mul_comm _ _
    rw [e2, e1] at this
    generalize B * q = P at *
    generalize m * B = Q at *
    omega

/-- the same over ℚ: `A/B = c/t` with `c` within `t/2` of `m·t` (strictly, when `m` is odd) -/
theorem rne_inside (A B m : ℕ) (t c : ℚ) (hB : 0 < B) (ht : 0 < t) (hq : (A : ℚ) * t = c * B)
    (hlo : (m : ℚ) * t - t / 2 ≤ c) (hhi : c ≤ (m : ℚ) * t + t / 2)
    (hs : m % 2 = 1 → (m : ℚ) * t - t / 2 < c ∧ c < (m : ℚ) * t + t / 2) : rne A B = m := by
  have hBq : (0 : ℚ) < B := by exact_mod_cast hB
  have g1 : (2 : ℚ) * (m * B) ≤ 2 * A + B := by
    have h := mul_le_mul_of_nonneg_right hlo (le_of_lt hBq)
    rw [← hq] at h
    have e1 : ((m : ℚ) * t - t / 2) * B = ((m : ℚ) * B - B / 2) * t := by ring
    rw [e1] at h
    have := le_of_mul_le_mul_right h ht
    linarith
  have g2 : (2 : ℚ) * A ≤ 2 * (m * B) + B := by
    have h := mul_le_mul_of_nonneg_right hhi (le_of_lt hBq)
    rw [← hq] at h
    have e1 : ((m : ℚ) * t + t / 2) * B = ((m : ℚ) * B + B / 2) * t := by ring
    rw [e1] at h
    have := le_of_mul_le_mul_right h ht
    linarith
  apply rne_eq_of_near A B m hB (by exact_mod_cast g1) (by exact_mod_cast g2)
  intro hodd
  obtain ⟨s1, s2⟩ := hs hodd
  have g3 : (2 : ℚ) * (m * B) < 2 * A + B := by
    have h := mul_lt_mul_of_pos_right s1 hBq
    rw [← hq] at h
    have e1 : ((m : ℚ) * t - t / 2) * B = ((m : ℚ) * B - B / 2) * t := by ring
    rw [e1] at h
    have := lt_of_mul_lt_mul_right h (le_of_lt ht)
    linarith
  have g4 : (2 : ℚ) * A < 2 * (m * B) + B := by
    have h := mul_lt_mul_of_pos_right s2 hBq
    rw [← hq] at h
    have e1 : ((m : ℚ) * t + t / 2) * B = ((m : ℚ) * B + B / 2) * t := by ring
    rw [e1] at h
    have := lt_of_mul_lt_mul_right h (le_of_lt ht)
    linarith
  exact ⟨by exact_mod_cast g3, by exact_mod_cast g4⟩

/-- the two bounds of `InsideRounding`, and their strictness for odd mantissas -/
theorem inside_bounds {x : F64} {m : ℕ} {e : ℤ} {c : ℚ} (h : InsideRounding x m e c) :
    ((m : ℚ) * 2 ^ e - (if m = P52 ∧ expField x > 1 then (2 : ℚ) ^ (e - 1) else 2 ^ e) / 2 ≤ c
        ∧ c ≤ (m : ℚ) * 2 ^ e + 2 ^ e / 2) ∧
      (m % 2 = 1 →
        (m : ℚ) * 2 ^ e - (if m = P52 ∧ expField x > 1 then (2 : ℚ) ^ (e - 1) else 2 ^ e) / 2 < c
          ∧ c < (m : ℚ) * 2 ^ e + 2 ^ e / 2) := by
  unfold InsideRounding at h
  split at h
  · rename_i hev
    exact ⟨h, fun ho => by omega⟩
  · exact ⟨⟨le_of_lt h.1, le_of_lt h.2⟩, fun _ => h⟩

theorem two_zpow_pred (e : ℤ) : (2 : ℚ) ^ e = 2 * 2 ^ (e - 1) := by
  rw [two_zpow_sub, zpow_one]; ring

theorem two_zpow_52 (e : ℤ) : (2 : ℚ) ^ (52 + e) = (P52 : ℚ) * 2 ^ e := by
  rw [two_zpow_add, P52_cast]; norm_num
theorem two_zpow_53 (e : ℤ) : (2 : ℚ) ^ (53 + e) = (P53 : ℚ) * 2 ^ e := by
  rw [two_zpow_add, P53_cast]; norm_num
theorem two_zpow_51 (e : ℤ) : (2 : ℚ) ^ (51 + e) = (P52 : ℚ) * 2 ^ e / 2 := by
  rw [two_zpow_add, P52_cast]; norm_num; ring

/-- **The arithmetic core of rounding back.** `c = (A/B)·2^ec` lies in the binade `[2^L, 2^(L+1))`,
`ec = max (L-52) (-1074)` is the exponent the rounding functions choose for it, and `c` is inside the rounding interval of
`x = ±m·2^e`: rounding the mantissa half-even and packing gives (the canonical pattern of) `x`. -/
theorem finish_back {x : F64} {s : Bool} {m : ℕ} {e : ℤ} (hd : decode x = .fin s m e) (hm : m ≠ 0)
    (A B : ℕ) (hB : 0 < B) (ec L : ℤ) (c : ℚ) (hq : (A : ℚ) * 2 ^ ec = c * B)
    (hL1 : (2 : ℚ) ^ L ≤ c) (hL2 : c < 2 ^ (L + 1)) (hec : ec = max (L - 52) (-1074))
    (hin : InsideRounding x m e c) : finish s (rne A B) ec = canon x := by
  obtain ⟨hs, hfr, hex, hcase⟩ := decode_fin_fields hd
  obtain ⟨⟨hlo, hhi⟩, hstrict⟩ := inside_bounds hin
  have hT : (0 : ℚ) < 2 ^ e := two_zpow_pos e
  have hT1 : (0 : ℚ) < 2 ^ (e - 1) := two_zpow_pos (e - 1)
  have hTT := two_zpow_pred e
  by_cases hB' : (m = P52 ∧ expField x > 1) ∧ c < (P52 : ℚ) * 2 ^ e
  · -- just below a power of two: the exponent drops by one, the mantissa rounds up to 2^53
    obtain ⟨⟨hm52, hE⟩, hclt⟩ := hB'
    rw [if_pos ⟨hm52, hE⟩] at hlo
    subst hm52
    have he : e = (expField x : ℤ) - 1075 := by
      rcases hcase with ⟨h0, -, -⟩ | ⟨-, -, he⟩
      · omega
      · exact he
    have hLlt : L < 52 + e := by
      have : (2 : ℚ) ^ L < 2 ^ (52 + e) := by rw [two_zpow_52]; exact lt_of_le_of_lt hL1 hclt
      exact (two_zpow_lt_iff _ _).mp this
    have hLge : 51 + e < L + 1 := by
      have : (2 : ℚ) ^ (51 + e) < 2 ^ (L + 1) := by
        rw [two_zpow_51]
        refine lt_of_le_of_lt ?_ hL2
        have : (1 : ℚ) ≤ (P52 : ℚ) := by rw [P52_cast]; norm_num
        nlinarith
      exact (two_zpow_lt_iff _ _).mp this
    have hece : ec = e - 1 := by omega
    subst hece
    have hr : rne A B = P53 := by
      rw [hTT] at hlo hclt
      apply rne_inside A B P53 (2 ^ (e - 1)) c hB hT1 hq
      · have : ((P53 : ℕ) : ℚ) = 2 * (P52 : ℚ) := by rw [P53_cast, P52_cast]; norm_num
        rw [this]; linarith
      · have : ((P53 : ℕ) : ℚ) = 2 * (P52 : ℚ) := by rw [P53_cast, P52_cast]; norm_num
        rw [this]; linarith
      · intro h; exact absurd h (by decide)
    rw [hr]
    exact finish_P53_eq_canon hd
  · -- the main case: same exponent
    have hgap : (if m = P52 ∧ expField x > 1 then (2 : ℚ) ^ (e - 1) else 2 ^ e) ≤ 2 ^ e := by
      split
      · linarith
      · exact le_refl _
    have hece : ec = e := by
      rcases hcase with ⟨h0, hmf, he⟩ | ⟨h0, hmf, he⟩
      · -- subnormal
        have hmq : (m : ℚ) + 1 ≤ (P52 : ℚ) := by
          have : m + 1 ≤ P52 := by omega
          exact_mod_cast this
        have hclt : c < (P52 : ℚ) * 2 ^ e := by nlinarith
        have : (2 : ℚ) ^ L < 2 ^ (52 + e) := by rw [two_zpow_52]; exact lt_of_le_of_lt hL1 hclt
        have := (two_zpow_lt_iff _ _).mp this
        omega
      · -- normal
        have hmq : (m : ℚ) + 1 ≤ (P53 : ℚ) := by
          have : m + 1 ≤ P53 := by unfold P52 P53 at *; omega
          exact_mod_cast this
        have hmq2 : (P52 : ℚ) ≤ (m : ℚ) := by
          have : P52 ≤ m := by omega
          exact_mod_cast this
        have hclt : c < (P53 : ℚ) * 2 ^ e := by nlinarith
        have hL53 : L < 53 + e := by
          have : (2 : ℚ) ^ L < 2 ^ (53 + e) := by rw [two_zpow_53]; exact lt_of_le_of_lt hL1 hclt
          exact (two_zpow_lt_iff _ _).mp this
        by_cases hcge : (P52 : ℚ) * 2 ^ e ≤ c
        · have : (2 : ℚ) ^ (52 + e) < 2 ^ (L + 1) := by rw [two_zpow_52]; exact lt_of_le_of_lt hcge hL2
          have := (two_zpow_lt_iff _ _).mp this
          omega
        · have hclt2 : c < (P52 : ℚ) * 2 ^ e := not_le.mp hcge
          have hnb : ¬ (m = P52 ∧ expField x > 1) := fun h => hB' ⟨h, hclt2⟩
          rw [if_neg hnb] at hlo
          by_cases hm52 : m = P52
          · have hE1 : expField x = 1 := by
              by_contra hne
              exact hnb ⟨hm52, by omega⟩
            have hL51 : 51 + e < L + 1 := by
              have : (2 : ℚ) ^ (51 + e) < 2 ^ (L + 1) := by
                rw [two_zpow_51]
                refine lt_of_le_of_lt ?_ hL2
                have : (1 : ℚ) ≤ (P52 : ℚ) := by rw [P52_cast]; norm_num
                rw [hm52] at hlo
                nlinarith
              exact (two_zpow_lt_iff _ _).mp this
            have hL52 : L < 52 + e := by
              have : (2 : ℚ) ^ L < 2 ^ (52 + e) := by rw [two_zpow_52]; exact lt_of_le_of_lt hL1 hclt2
              exact (two_zpow_lt_iff _ _).mp this
            omega
          · exfalso
            have hmq3 : (P52 : ℚ) + 1 ≤ (m : ℚ) := by
              have : P52 + 1 ≤ m := by omega
              exact_mod_cast this
            nlinarith
    subst hece
    have hr : rne A B = m := by
      apply rne_inside A B m (2 ^ ec) c hB hT hq
      · linarith
      · exact hhi
      · intro hodd
        obtain ⟨s1, s2⟩ := hstrict hodd
        exact ⟨by linarith, s2⟩
    rw [hr]
    exact finish_eq_canon hd

/-! ### the two rounding functions -/

/-- **Rounding back, quotient form**: a quotient inside the rounding interval of `x` is rounded to `x` -/
theorem roundQuot_back {x : F64} {s : Bool} {m : ℕ} {e : ℤ} (hd : decode x = .fin s m e) (hm : m ≠ 0)
    (n d : ℕ) (hn : 0 < n) (hd0 : 0 < d) (hin : InsideRounding x m e ((n : ℚ) / d)) :
    roundQuot s n d = canon x := by
  obtain ⟨hL1, hL2⟩ := ilog2q_spec n d hn hd0
  have hdq : (0 : ℚ) < d := by exact_mod_cast hd0
  rw [roundQuot_eq_finish]
  generalize ilog2q n d = L at *
  have he : (if L - 52 < -1074 then -1074 else L - 52) = max (L - 52) (-1074) := by
    split <;> omega
  rw [he]
  generalize hee : max (L - 52) (-1074) = ec
  by_cases hc : ec ≥ 0
  · rw [if_pos hc]
    exact finish_back hd hm n (d * 2 ^ ec.toNat) (Nat.mul_pos hd0 (Nat.pow_pos (by omega))) ec L _
      (by push_cast; rw [two_zpow_toNat ec hc]; field_simp) hL1 hL2 hee.symm hin
  · rw [if_neg hc]
    exact finish_back hd hm (n * 2 ^ (-ec).toNat) d hd0 ec L _
      (by
        push_cast
        rw [two_zpow_toNat (-ec) (by omega), mul_assoc, ← two_zpow_add]
        simp only [neg_add_cancel, zpow_zero, mul_one]
        field_simp) hL1 hL2 hee.symm hin

/-- **Rounding back, dyadic form**: `N·2^e0` inside the rounding interval of `x` is rounded to `x` -/
theorem roundDyadic_back {x : F64} {s : Bool} {m : ℕ} {e : ℤ} (hd : decode x = .fin s m e) (hm : m ≠ 0)
    (N : ℕ) (e0 : ℤ) (hN : 0 < N) (hin : InsideRounding x m e ((N : ℚ) * 2 ^ e0)) :
    roundDyadic s N e0 = canon x := by
  obtain ⟨hq1, hq2⟩ := log2_bounds_rat N hN
  rw [roundDyadic_eq_finish]
  generalize Nat.log2 N = k at *
  generalize he' : max (e0 + (k : ℤ) - 52) (-1074) = ec
  have h2e : (0 : ℚ) < 2 ^ e0 := two_zpow_pos e0
  have hL1 : (2 : ℚ) ^ (e0 + (k : ℤ)) ≤ (N : ℚ) * 2 ^ e0 := by
    rw [two_zpow_add, zpow_natCast, mul_comm]
    exact mul_le_mul_of_nonneg_right hq1 (le_of_lt h2e)
  have hL2 : (N : ℚ) * 2 ^ e0 < 2 ^ (e0 + (k : ℤ) + 1) := by
    rw [show e0 + (k : ℤ) + 1 = ((k + 1 : ℕ) : ℤ) + e0 by push_cast; ring, two_zpow_add, zpow_natCast]
    exact mul_lt_mul_of_pos_right hq2 h2e
  by_cases hc : e0 ≥ ec
  · rw [if_pos hc]
    obtain ⟨t, ht⟩ : ∃ t : ℕ, e0 = ec + t := ⟨(e0 - ec).toNat, by omega⟩
    have htn : (e0 - ec).toNat = t := by omega
    rw [htn]
    have hM : N * 2 ^ t = rne (N * 2 ^ t * 1) 1 := (rne_mul _ 1 (by omega)).symm
    rw [hM]
    exact finish_back hd hm (N * 2 ^ t * 1) 1 (by omega) ec (e0 + k) _
      (by rw [ht, two_zpow_add, zpow_natCast]; push_cast; ring) hL1 hL2 he'.symm hin
  · rw [if_neg hc]
    exact finish_back hd hm N (2 ^ (ec - e0).toNat) (Nat.pow_pos (by omega)) ec (e0 + k) _
      (by
        push_cast
        rw [two_zpow_toNat _ (by omega), two_zpow_sub]
        field_simp) hL1 hL2 he'.symm hin

/-- **Rounding back** (`round_back`), for a canonical 64-bit pattern `x`: every `c > 0` inside the rounding interval of
`x` — written as a quotient `n/d` or as a dyadic `N·2^e0` (in particular an integer, `e0 = 0`) — rounds to `x` itself -/
theorem round_back {x : F64} (hx : Canonical x) {s : Bool} {m : ℕ} {e : ℤ} (hd : decode x = .fin s m e) (hm : m ≠ 0) :
    (∀ n d : ℕ, 0 < n → 0 < d → InsideRounding x m e ((n : ℚ) / d) → roundQuot s n d = x) ∧
    (∀ (N : ℕ) (e0 : ℤ), 0 < N → InsideRounding x m e ((N : ℚ) * 2 ^ e0) → roundDyadic s N e0 = x) := by
  refine ⟨fun n d hn hd0 hin => ?_, fun N e0 hN hin => ?_⟩
  · rw [roundQuot_back hd hm n d hn hd0 hin, canon_eq hx]
  · rw [roundDyadic_back hd hm N e0 hN hin, canon_eq hx]

end F64
end Ysgo
