import Ysgo.Lemmas.ListenerIds
/-! L3 of `ListenerIds.lean`: a write through a captured pointer adds no identities but those of its payload -/
namespace Ysgo.Listener

/-! ## L3: a write adds no identities but those of its payload -/

mutual
theorem PExpr.ids_modify (k' : Nat) (m' : Mut) :
    ∀ (e : PExpr) (i : Nat), i ∈ (e.modify k' m').ids → i ∈ e.ids ∨ i ∈ m'.ids
  | .lit _, i, h => by simp [PExpr.modify, PExpr.ids] at h
  | .null, i, h => by simp [PExpr.modify, PExpr.ids] at h
  | .hole, i, h => by simp [PExpr.modify, PExpr.ids] at h
  | .var _, i, h => by simp [PExpr.modify, PExpr.ids] at h
  | .call id f args, i, h => by
    have ih := PExpr.idsList_modifyList k' m' args i
    cases m' <;> simp only [PExpr.modify] at h <;> (try split at h) <;>
      simp [PExpr.ids, PExpr.idsList_append, PExpr.idsList, Mut.ids] at h ih ⊢ <;> grind
  | .neg e, i, h => by
    simp only [PExpr.modify, PExpr.ids] at h ⊢
    exact PExpr.ids_modify k' m' e i h
  | .not e, i, h => by
    simp only [PExpr.modify, PExpr.ids] at h ⊢
    exact PExpr.ids_modify k' m' e i h
  | .bin op l r, i, h => by
    simp only [PExpr.modify, PExpr.ids, List.mem_append] at h ⊢
    rcases h with h | h
    · rcases PExpr.ids_modify k' m' l i h with h | h <;> simp [h]
    · rcases PExpr.ids_modify k' m' r i h with h | h <;> simp [h]
theorem PExpr.idsList_modifyList (k' : Nat) (m' : Mut) :
    ∀ (es : List PExpr) (i : Nat), i ∈ PExpr.idsList (PExpr.modifyList k' m' es) → i ∈ PExpr.idsList es ∨ i ∈ m'.ids
  | [], i, h => by simp [PExpr.modifyList, PExpr.idsList] at h
  | e :: es, i, h => by
    simp only [PExpr.modifyList, PExpr.idsList, List.mem_append] at h ⊢
    rcases h with h | h
    · rcases PExpr.ids_modify k' m' e i h with h | h <;> simp [h]
    · rcases PExpr.idsList_modifyList k' m' es i h with h | h <;> simp [h]
end


theorem PElem.idsList_map_modify (k' : Nat) (m' : Mut) (es : List PElem) (i : Nat)
    (h : i ∈ PElem.idsList (es.map (PElem.modify k' m'))) : i ∈ PElem.idsList es ∨ i ∈ m'.ids := by
  induction es with
  | nil => simp [PElem.idsList] at h
  | cons e es ih =>
    simp only [List.map, PElem.idsList, List.mem_append] at h ⊢
    rcases h with h | h
    · cases e with
      | text s => simp [PElem.modify, PElem.ids] at h
      | expr e =>
        simp only [PElem.modify, PElem.ids] at h ⊢
        rcases PExpr.ids_modify k' m' e i h with h | h <;> simp [h]
    · rcases ih h with h | h <;> simp [h]

theorem PText.ids_modify (k' : Nat) (m' : Mut) (hm : m'.isInsert = true) (t : PText) (i : Nat)
    (h : i ∈ (t.modify k' m').ids) : i ∈ t.ids ∨ i ∈ m'.ids := by
  have ih := PElem.idsList_map_modify k' m' t.elems i
  cases m' <;> simp [Mut.isInsert] at hm <;> simp only [PText.modify] at h <;> (try split at h) <;>
    simp [PText.ids, PElem.idsList_append, PElem.idsList, PElem.ids, Mut.ids] at h ih ⊢ <;> grind

theorem optIds_map {α} (f : α → List Nat) (g : α → α) (extra : List Nat)
    (hg : ∀ a i, i ∈ f (g a) → i ∈ f a ∨ i ∈ extra) (o : Option α) (i : Nat) (h : i ∈ optIds f (o.map g)) :
    i ∈ optIds f o ∨ i ∈ extra := by
  cases o with
  | none => simp [optIds] at h
  | some a => exact hg a i (by simpa [optIds] using h)

theorem PLine.ids_modify (k' : Nat) (m' : Mut) (hm : m'.isInsert = true) (l : PLine) (i : Nat)
    (h : i ∈ (l.modify k' m').ids) : i ∈ l.ids ∨ i ∈ m'.ids := by
  simp only [PLine.modify, PLine.ids, List.mem_append] at h ⊢
  rcases h with h | h
  · rcases optIds_map PText.ids _ m'.ids (PText.ids_modify k' m' hm) _ i h with h | h <;> simp [h]
  · rcases optIds_map PExpr.ids _ m'.ids (PExpr.ids_modify k' m') _ i h with h | h <;> simp [h]

theorem optLine_ids_modify (k' : Nat) (m' : Mut) (hm : m'.isInsert = true) (l : Option PLine) (i : Nat)
    (h : i ∈ optIds PLine.ids (l.map (PLine.modify k' m'))) : i ∈ optIds PLine.ids l ∨ i ∈ m'.ids :=
  optIds_map PLine.ids _ m'.ids (PLine.ids_modify k' m' hm) l i h

theorem PCmdEl.idsList_map_modify (k' : Nat) (m' : Mut) (es : List PCmdEl) (i : Nat)
    (h : i ∈ PCmdEl.idsList (es.map (PCmdEl.modify k' m'))) : i ∈ PCmdEl.idsList es ∨ i ∈ m'.ids := by
  induction es with
  | nil => simp [PCmdEl.idsList] at h
  | cons e es ih =>
    simp only [List.map, PCmdEl.idsList, List.mem_append] at h ⊢
    rcases h with h | h
    · cases e with
      | text s => simp [PCmdEl.modify, PCmdEl.ids] at h
      | expr e =>
        simp only [PCmdEl.modify, PCmdEl.ids] at h ⊢
        rcases PExpr.ids_modify k' m' e i h with h | h <;> simp [h]
    · rcases ih h with h | h <;> simp [h]

mutual
theorem PStmt.ids_modify (k' : Nat) (m' : Mut) (hm : m'.isInsert = true) :
    ∀ (s : PStmt) (i : Nat), i ∈ (s.modify k' m').ids → i ∈ s.ids ∨ i ∈ m'.ids
  | .line l, i, h => by
    simp only [PStmt.modify, PStmt.ids] at h ⊢
    exact optLine_ids_modify k' m' hm l i h
  | .opts os, i, h => by
    simp only [PStmt.modify, PStmt.ids] at h ⊢
    exact POpt.idsList_modifyList k' m' hm os i h
  | .set v op e, i, h => by
    simp only [PStmt.modify, PStmt.ids] at h ⊢
    exact PExpr.ids_modify k' m' e i h
  | .jump e, i, h => by
    simp only [PStmt.modify, PStmt.ids] at h ⊢
    exact PExpr.ids_modify k' m' e i h
  | .ifs id cs, i, h => by
    have ih := PClause.idsList_modifyList k' m' hm cs i
    cases m' <;> simp [Mut.isInsert] at hm <;> simp only [PStmt.modify] at h <;> (try split at h) <;>
      simp [PStmt.ids, PClause.idsList_append, PClause.idsList, Mut.ids] at h ih ⊢ <;> grind
  | .cmd id els, i, h => by
    have ih := PCmdEl.idsList_map_modify k' m' els i
    cases m' <;> simp [Mut.isInsert] at hm <;> simp only [PStmt.modify] at h <;> (try split at h) <;>
      simp [PStmt.ids, PCmdEl.idsList_append, PCmdEl.idsList, PCmdEl.ids, Mut.ids] at h ih ⊢ <;> grind
  | .call id f args, i, h => by
    have ih := PExpr.idsList_modifyList k' m' args i
    cases m' <;> simp [Mut.isInsert] at hm <;> simp only [PStmt.modify] at h <;> (try split at h) <;>
      simp [PStmt.ids, PExpr.idsList_append, PExpr.idsList, Mut.ids] at h ih ⊢ <;> grind
  | .declare id v e, i, h => by
    have ih := PExpr.ids_modify k' m' e i
    cases m' <;> simp [Mut.isInsert] at hm <;> simp only [PStmt.modify] at h <;> (try split at h) <;>
      simp [PStmt.ids, Mut.ids] at h ih ⊢ <;> grind
theorem PStmt.idsList_modifyList (k' : Nat) (m' : Mut) (hm : m'.isInsert = true) :
    ∀ (ss : List PStmt) (i : Nat), i ∈ PStmt.idsList (PStmt.modifyList k' m' ss) → i ∈ PStmt.idsList ss ∨ i ∈ m'.ids
  | [], i, h => by simp [PStmt.modifyList, PStmt.idsList] at h
  | s :: ss, i, h => by
    simp only [PStmt.modifyList, PStmt.idsList, List.mem_append] at h ⊢
    rcases h with h | h
    · rcases PStmt.ids_modify k' m' hm s i h with h | h <;> simp [h]
    · rcases PStmt.idsList_modifyList k' m' hm ss i h with h | h <;> simp [h]
theorem POpt.ids_modify (k' : Nat) (m' : Mut) (hm : m'.isInsert = true) :
    ∀ (o : POpt) (i : Nat), i ∈ (o.modify k' m').ids → i ∈ o.ids ∨ i ∈ m'.ids
  | .mk id line body, i, h => by
    have ihl := optLine_ids_modify k' m' hm line i
    have ihb := PStmt.idsList_modifyList k' m' hm body i
    cases m' <;> simp [Mut.isInsert] at hm <;> cases line <;> simp only [POpt.modify] at h <;> (try split at h) <;>
      simp [POpt.ids, PStmt.idsList_append, PStmt.idsList, PStmt.ids, Mut.ids, optIds] at h ihl ihb ⊢ <;> grind
theorem POpt.idsList_modifyList (k' : Nat) (m' : Mut) (hm : m'.isInsert = true) :
    ∀ (os : List POpt) (i : Nat), i ∈ POpt.idsList (POpt.modifyList k' m' os) → i ∈ POpt.idsList os ∨ i ∈ m'.ids
  | [], i, h => by simp [POpt.modifyList, POpt.idsList] at h
  | o :: os, i, h => by
    simp only [POpt.modifyList, POpt.idsList, List.mem_append] at h ⊢
    rcases h with h | h
    · rcases POpt.ids_modify k' m' hm o i h with h | h <;> simp [h]
    · rcases POpt.idsList_modifyList k' m' hm os i h with h | h <;> simp [h]
theorem PClause.ids_modify (k' : Nat) (m' : Mut) (hm : m'.isInsert = true) :
    ∀ (c : PClause) (i : Nat), i ∈ (c.modify k' m').ids → i ∈ c.ids ∨ i ∈ m'.ids
  | .mk id cond body, i, h => by
    have ihc := PExpr.ids_modify k' m' cond i
    have ihb := PStmt.idsList_modifyList k' m' hm body i
    cases m' <;> simp [Mut.isInsert] at hm <;> simp only [PClause.modify] at h <;> (try split at h) <;>
      simp [PClause.ids, PStmt.idsList_append, PStmt.idsList, Mut.ids] at h ihc ihb ⊢ <;> grind
theorem PClause.idsList_modifyList (k' : Nat) (m' : Mut) (hm : m'.isInsert = true) :
    ∀ (cs : List PClause) (i : Nat),
      i ∈ PClause.idsList (PClause.modifyList k' m' cs) → i ∈ PClause.idsList cs ∨ i ∈ m'.ids
  | [], i, h => by simp [PClause.modifyList, PClause.idsList] at h
  | c :: cs, i, h => by
    simp only [PClause.modifyList, PClause.idsList, List.mem_append] at h ⊢
    rcases h with h | h
    · rcases PClause.ids_modify k' m' hm c i h with h | h <;> simp [h]
    · rcases PClause.idsList_modifyList k' m' hm cs i h with h | h <;> simp [h]
end

end Ysgo.Listener
