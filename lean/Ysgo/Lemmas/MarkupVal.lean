import Ysgo.Lemmas.MarkupSim
/-!
# Scanner lemmas for property values (integers, booleans, quoted strings, bare words)

Decimal values are not covered here: they need `F64.parseFloat` = nearest double, which belongs to the `F64` lemmas.
-/
namespace Ysgo.Markup
open Ysgo.Unicode Ysgo.MarkupSpec Ysgo.Generated.Unicode
attribute [local irreducible] Unicode.isLetter Unicode.isDigit Unicode.isSpace Unicode.toLower

/-- what may follow a value inside a marker: white space, then a character that is not white space and not `.`;
directly after the value no identifier character -/
structure Follow (post : List Char) (w : List Char) (d : Char) (l : List Char) : Prop where
  eq : post = w ++ d :: l
  ws : AllSpace w
  nsp : isSpace d = false
  ndot : d ≠ '.'
  nid : w = [] → isIdChar d = false

theorem Follow.head_not_id {post w d l} (h : Follow post w d l) : ∀ x, post.head? = some x → isIdChar x = false := by
  intro x hx
  rw [h.eq] at hx
  cases hw : w with
  | nil => rw [hw] at hx; simp at hx; subst hx; exact h.nid hw
  | cons c cs => rw [hw] at hx; simp at hx; subst hx; exact isSpace_not_id _ (h.ws _ (by rw [hw]; exact List.mem_cons_self))

theorem asciiDigit_isDigit_nat : ∀ n ∈ [48, 49, 50, 51, 52, 53, 54, 55, 56, 57], inRanges digitRanges n = true := by
  decide +kernel

/-- an ASCII digit is a Unicode digit -/
theorem isDigit_of_isDigitC (c : Char) (h : F64.isDigitC c = true) : isDigit c = true := by
  unfold F64.isDigitC at h
  simp only [Bool.and_eq_true, decide_eq_true_eq] at h
  have h1 : 48 ≤ c.toNat := h.1
  have h2 : c.toNat ≤ 57 := h.2
  unfold isDigit
  apply asciiDigit_isDigit_nat
  simp only [List.mem_cons, List.not_mem_nil, or_false]
  omega

theorem isIdChar_of_isDigit (c : Char) (h : isDigit c = true) : isIdChar c = true := by
  simp [isIdChar, h]

def AllDigitC (ds : List Char) : Prop := ∀ c ∈ ds, F64.isDigitC c = true

theorem takeDigitsAux_eq (ds l acc : List Char) (k : Nat) (hd : AllDigitC ds)
    (hl : ∀ x, l.head? = some x → isIdChar x = false) :
    takeDigitsAux (ds ++ l) acc k = (acc ++ ds, l, k + ds.length) := by
  induction ds generalizing acc k with
  | nil =>
    cases l with
    | nil => simp [takeDigitsAux]
    | cons x l' =>
      have : isDigit x = false := by
        cases hx : isDigit x with
        | false => rfl
        | true => have := hl x rfl; rw [isIdChar_of_isDigit x hx] at this; exact absurd this (by simp)
      simp [takeDigitsAux, this]
  | cons a t ih =>
    have ha : isDigit a = true := isDigit_of_isDigitC a (hd a List.mem_cons_self)
    simp only [List.cons_append, takeDigitsAux, ha, if_true]
    rw [ih _ _ (fun c hc => hd c (List.mem_cons_of_mem _ hc))]
    simp only [List.length_cons, List.append_assoc, List.singleton_append]
    congr 2; omega

theorem digitsVal_eq (ds : List Char) : F64.digitsVal ds = Nat.ofDigitChars 10 ds 0 := by
  unfold F64.digitsVal Nat.ofDigitChars
  congr 1
  funext a c
  simp [Nat.mul_comm]

theorem isDigitC_of_isDigit (c : Char) (h : c.isDigit = true) : F64.isDigitC c = true := by
  unfold Char.isDigit at h
  unfold F64.isDigitC
  simp only [Bool.and_eq_true, decide_eq_true_eq] at h ⊢
  exact ⟨by show (48 : Nat) ≤ c.toNat; have := h.1; exact this, by show c.toNat ≤ 57; have := h.2; exact this⟩

/-- the digits an integer is rendered with -/
theorem intDigits (lz n : Nat) : AllDigitC (List.replicate lz '0' ++ natDigits n) ∧
    F64.digitsVal (List.replicate lz '0' ++ natDigits n) = n ∧ (List.replicate lz '0' ++ natDigits n) ≠ [] := by
  refine ⟨?_, ?_, ?_⟩
  · intro c hc
    simp only [List.mem_append, List.mem_replicate] at hc
    rcases hc with ⟨_, rfl⟩ | hc
    · decide
    · exact isDigitC_of_isDigit c (Nat.isDigit_of_mem_toDigits (by decide) (by decide) hc)
  · rw [digitsVal_eq, Nat.ofDigitChars_append, Nat.ofDigitChars_replicate_zero]
    simp only [Nat.mul_zero]
    exact Nat.ofDigitChars_toDigits (by decide) (by decide)
  · intro h
    simp only [List.append_eq_nil_iff] at h
    exact Nat.toDigits_ne_nil h.2

theorem isSpace_quote : isSpace '"' = false := by decide +kernel
theorem isDigit_quote : isDigit '"' = false := by decide +kernel
theorem isIdChar_quote : isIdChar '"' = false := by decide +kernel
theorem isIdChar_dot : isIdChar '.' = false := by decide +kernel

/-- the state after a value and the white space behind it -/
theorem parseValue_int (w0 : List Char) (lz n : Nat) (post w : List Char) (d : Char) (l : List Char) (k p : Nat)
    (hw0 : AllSpace w0) (hf : Follow post w d l) (hn : n < P63) :
    parseValue { rest := w0 ++ renderVal (.int lz n) ++ post, src := k, pos := p } =
      .ok (.int n) { rest := d :: l, src := k + w0.length + (renderVal (.int lz n)).length + w.length, pos := p } := by
  obtain ⟨hds, hval, hne⟩ := intDigits lz n
  simp only [renderVal]
  generalize List.replicate lz '0' ++ natDigits n = ds at hds hval hne
  cases ds with
  | nil => exact absurd rfl hne
  | cons a t =>
    have ha : isDigit a = true := isDigit_of_isDigitC a (hds a List.mem_cons_self)
    have hsp : isSpace a = false := isIdChar_not_space a (isIdChar_of_isDigit a ha)
    have e1 : w0 ++ (a :: t) ++ post = w0 ++ a :: (t ++ post) := by simp
    have e2 : a :: (t ++ post) = [] ++ a :: (t ++ post) := by simp
    have e3 : a :: (t ++ post) = (a :: t) ++ post := by simp
    have hatoi : atoi (a :: t) = some n := by
      unfold atoi
      have : (a :: t).all F64.isDigitC = true := List.all_eq_true.mpr hds
      simp [this, hval, hn]
    simp only [parseValue, bind, P.bind]
    rw [e1, consumeWhitespace_eq w0 a _ k p hw0 hsp]
    simp only [peekRune, List.headD_cons, ha, if_true, parseInteger, parseDigits, bind, P.bind]
    rw [e2, consumeWhitespace_eq [] a _ _ p AllSpace.nil hsp]
    simp only [P.bind]
    rw [e3, takeDigitsAux_eq (a :: t) post [] _ hds hf.head_not_id]
    simp only [List.nil_append, hatoi, pure, P.pure, P.bind]
    rw [hf.eq, expectPeek_eq '.' d w l _ p hf.ws hf.nsp]
    have hd : (d == '.') = false := by simpa using hf.ndot
    simp only [hd, Bool.false_eq_true, if_false, P.pure, List.length_nil, Nat.add_zero]

def escQ (s : List Char) : List Char := s.flatMap fun c => if c = '"' ∨ c = '\\' then ['\\', c] else [c]

theorem strBody_quote (cs acc : List Char) (n : Nat) : strBody ('"' :: cs) acc n = some (acc, cs, n + 1) := by
  rw [strBody.eq_def]; simp
theorem strBody_bs (d : Char) (cs acc : List Char) (n : Nat) :
    strBody ('\\' :: d :: cs) acc n = strBody cs (acc ++ [d]) (n + 2) := by
  rw [strBody.eq_def]; simp
theorem strBody_other (c : Char) (cs acc : List Char) (n : Nat) (h1 : c ≠ '"') (h2 : c ≠ '\\') :
    strBody (c :: cs) acc n = strBody cs (acc ++ [c]) (n + 1) := by
  rw [strBody.eq_def]; simp [h1, h2]

theorem strBody_esc (s post acc : List Char) (k : Nat) :
    strBody (escQ s ++ '"' :: post) acc k = some (acc ++ s, post, k + (escQ s).length + 1) := by
  induction s generalizing acc k with
  | nil => simp [escQ, strBody_quote]
  | cons c cs ih =>
    have hcons : escQ (c :: cs) = (if c = '"' ∨ c = '\\' then ['\\', c] else [c]) ++ escQ cs := by
      simp [escQ]
    rw [hcons]
    by_cases hc : c = '"' ∨ c = '\\'
    · simp only [hc, if_true, List.cons_append, List.nil_append]
      rw [strBody_bs, ih]
      simp only [List.append_assoc, List.singleton_append, List.length_cons, Option.some.injEq, Prod.mk.injEq, true_and]
      omega
    · simp only [hc, if_false, List.cons_append, List.nil_append]
      have h1 : c ≠ '"' := fun e => hc (Or.inl e)
      have h2 : c ≠ '\\' := fun e => hc (Or.inr e)
      rw [strBody_other c _ _ _ h1 h2, ih]
      simp only [List.append_assoc, List.singleton_append, List.length_cons, Option.some.injEq, Prod.mk.injEq, true_and]
      omega

theorem parseValue_quoted (w0 s post : List Char) (k p : Nat) (hw0 : AllSpace w0) :
    parseValue { rest := w0 ++ renderVal (.quoted s) ++ post, src := k, pos := p } =
      .ok (.str (String.ofList s)) { rest := post, src := k + w0.length + (renderVal (.quoted s)).length, pos := p } := by
  have hr : renderVal (.quoted s) = '"' :: (escQ s ++ ['"']) := rfl
  have e1 : w0 ++ renderVal (.quoted s) ++ post = w0 ++ '"' :: (escQ s ++ '"' :: post) := by rw [hr]; simp
  have e2 : '"' :: (escQ s ++ '"' :: post) = [] ++ '"' :: (escQ s ++ '"' :: post) := by simp
  simp only [parseValue, bind, P.bind]
  rw [e1, consumeWhitespace_eq w0 '"' _ k p hw0 isSpace_quote]
  simp only [peekRune, List.headD_cons, isDigit_quote, Bool.false_eq_true, if_false, P.bind]
  rw [e2, expectPeek_eq '"' '"' [] _ _ p AllSpace.nil isSpace_quote]
  simp only [beq_self_eq_true, if_true, parseString, bind, P.bind]
  rw [e2, consumeWhitespace_eq [] '"' _ _ p AllSpace.nil isSpace_quote]
  simp only [readRune, ne_eq, not_true_eq_false, if_false, incSrc, P.bind, strBody_esc, List.nil_append, pure, P.pure,
    hr, List.length_cons, List.length_append, List.length_nil]
  congr 2; omega

theorem lowerStr_ofList (w : List Char) : lowerStr (String.ofList w) = String.ofList (lower w) := by
  simp [lowerStr, lower, String.toList_ofList]

/-- an identifier that does not start with a digit, in value position: `parseID` reads it -/
theorem parseValue_word (w0 : List Char) (a : Char) (t post : List Char) (k p : Nat) (hw0 : AllSpace w0)
    (hid : AllId (a :: t)) (hnd : isDigit a = false) (hpost : ∀ x, post.head? = some x → isIdChar x = false) :
    parseValue { rest := w0 ++ (a :: t) ++ post, src := k, pos := p } =
      .ok (if lower (a :: t) = "true".toList then .bool true else if lower (a :: t) = "false".toList then .bool false
           else .str (String.ofList (a :: t)))
        { rest := post, src := k + w0.length + (a :: t).length, pos := p } := by
  have ha : isIdChar a = true := hid a List.mem_cons_self
  have hsp : isSpace a = false := isIdChar_not_space a ha
  have e1 : w0 ++ (a :: t) ++ post = w0 ++ a :: (t ++ post) := by simp
  have e2 : a :: (t ++ post) = [] ++ a :: (t ++ post) := by simp
  have e3 : a :: (t ++ post) = [] ++ (a :: t) ++ post := by simp
  simp only [parseValue, bind, P.bind]
  rw [e1, consumeWhitespace_eq w0 a _ k p hw0 hsp]
  simp only [peekRune, List.headD_cons, hnd, Bool.false_eq_true, if_false, P.bind]
  rw [e2, expectPeek_eq '"' a [] _ _ p AllSpace.nil hsp]
  simp only [id_ne ha isIdChar_quote, Bool.false_eq_true, if_false, P.bind, List.nil_append]
  rw [e3, parseID_eq [] a t post _ p AllSpace.nil hid hpost]
  simp only [lowerStr_ofList, beq_iff_eq, ofList_eq_lit, pure, P.pure, List.length_nil, Nat.add_zero]
  split
  · rfl
  · split <;> rfl


/-- the value kinds covered by the scanner lemmas: everything but decimals -/
def notDec : SVal → Bool
  | .dec _ _ _ => false
  | _ => true

theorem P63_eq : (2 : Nat) ^ 63 = P63 := by decide

/-- `parseValue` on a rendered value: the typed value; the reader stands at the white space (or a part of it) before the
next non-space character -/
theorem parseValue_render (v : SVal) (val : PVal) (hok : valOk v = true) (hnd : notDec v = true)
    (hval : valOf v = some val) (w0 post w : List Char) (d : Char) (l : List Char) (k p : Nat) (hw0 : AllSpace w0)
    (hf : Follow post w d l) :
    ∃ w2 k2, AllSpace w2 ∧
      parseValue { rest := w0 ++ renderVal v ++ post, src := k, pos := p } =
        .ok val { rest := w2 ++ d :: l, src := k2, pos := p } := by
  cases v with
  | int lz n =>
    simp only [valOf, P63_eq] at hval
    split at hval
    · rename_i hn
      simp only [Option.some.injEq] at hval; subst hval
      exact ⟨[], _, AllSpace.nil, parseValue_int w0 lz n post w d l k p hw0 hf hn⟩
    · simp at hval
  | dec lz n fr => simp [notDec] at hnd
  | quoted s =>
    simp only [valOf, Option.some.injEq] at hval; subst hval
    refine ⟨w, k + w0.length + (renderVal (.quoted s)).length, hf.ws, ?_⟩
    rw [parseValue_quoted w0 s post k p hw0, hf.eq]
  | bool b sp =>
    simp only [valOf, Option.some.injEq] at hval; subst hval
    simp only [valOk, Bool.and_eq_true, Bool.not_eq_true', beq_iff_eq] at hok
    obtain ⟨⟨hid, hdig⟩, hlow⟩ := hok
    obtain ⟨a, t, rfl, hall⟩ := ident_cases hid
    have hnd' : isDigit a = false := by simpa using hdig
    refine ⟨w, k + w0.length + (a :: t).length, hf.ws, ?_⟩
    have := parseValue_word w0 a t post k p hw0 hall hnd' hf.head_not_id
    simp only [renderVal]
    rw [this, hf.eq]
    cases b with
    | true => simp only [if_true] at hlow; simp [hlow]
    | false =>
      simp only [Bool.false_eq_true, if_false] at hlow
      have : lower (a :: t) ≠ "true".toList := by rw [hlow]; decide
      simp [hlow, this]
  | bare wd =>
    simp only [valOf, Option.some.injEq] at hval; subst hval
    simp only [valOk, Bool.and_eq_true, Bool.not_eq_true', bne_iff_ne, ne_eq] at hok
    obtain ⟨⟨⟨hid, hdig⟩, hnt⟩, hnf⟩ := hok
    obtain ⟨a, t, rfl, hall⟩ := ident_cases hid
    have hnd' : isDigit a = false := by simpa using hdig
    refine ⟨w, k + w0.length + (a :: t).length, hf.ws, ?_⟩
    have := parseValue_word w0 a t post k p hw0 hall hnd' hf.head_not_id
    simp only [renderVal]
    rw [this, hf.eq]
    simp only [hnt, hnf, if_false]

end Ysgo.Markup
