import Ysgo.Lemmas.ListenerState
/-!
# Invoking callbacks: frame, commutation and preservation lemmas

* frame (F1): the ghost allocation counter and the function-call slot are neither read nor written by a delivery;
* commutation (F2): a later write to an object the state does not know yet commutes with a delivery — it only reaches the
  delivered payload. This is what makes "hand the object on first, fill it in afterwards" (if statements, clauses,
  commands, declarations, function calls) equal to "build it, then hand it on";
* preservation: a delivery keeps the control part of the state and the bound on identities.
-/
namespace Ysgo.Listener

def Outcome.map {α β} (f : α → β) : Outcome α → Outcome β
  | .ok a => .ok (f a)
  | .panic => .panic
  | .unmodelled => .unmodelled

@[simp] theorem Outcome.map_ok {α β} (f : α → β) (a : α) : (Outcome.ok a).map f = .ok (f a) := rfl
@[simp] theorem Outcome.map_panic {α β} (f : α → β) : (Outcome.panic : Outcome α).map f = .panic := rfl
@[simp] theorem Outcome.map_unmodelled {α β} (f : α → β) : (Outcome.unmodelled : Outcome α).map f = .unmodelled := rfl
@[simp] theorem Outcome.bind_ok {α β} (a : α) (f : α → Outcome β) : (Outcome.ok a).bind f = f a := rfl
@[simp] theorem Outcome.bind_panic {α β} (f : α → Outcome β) : (Outcome.panic : Outcome α).bind f = .panic := rfl
@[simp] theorem Outcome.bind_unmodelled {α β} (f : α → Outcome β) : (Outcome.unmodelled : Outcome α).bind f = .unmodelled := rfl
@[simp] theorem Outcome.bind_eq {α β} (x : Outcome α) (f : α → Outcome β) : (x >>= f) = x.bind f := rfl
@[simp] theorem Outcome.pure_eq {α} (a : α) : (pure a : Outcome α) = .ok a := rfl

theorem Outcome.map_map {α β γ} (f : α → β) (g : β → γ) (x : Outcome α) : (x.map f).map g = x.map (g ∘ f) := by
  cases x <;> rfl

theorem Outcome.map_id' {α} (x : Outcome α) : x.map (fun a => a) = x := by cases x <;> rfl

/-- the ghost part: the allocation counter and the function-call slot -/
def State.ghost (σ : State) (n : Nat) (f : Option FnCb) : State := { σ with next := n, functionCallCallback := f }

/-! ## F1: frame -/

theorem State.modify_ghost (σ : State) (n : Nat) (f : Option FnCb) (k : Nat) (m : Mut) :
    (σ.ghost n f).modify k m = (σ.modify k m).ghost n f := rfl

theorem appendToNode_ghost (s : PStmt) (σ : State) (n : Nat) (f : Option FnCb) :
    appendToNode s (σ.ghost n f) = (appendToNode s σ).map (·.ghost n f) := by
  rcases σ with ⟨nx, al, ns, nd, ln, gs, so, sc, tc, ec, lc, vc, cc, fc, ctc, hc, pc⟩
  cases nd <;> rfl

theorem deliverS_ghost (s : PStmt) (σ : State) (n : Nat) (f : Option FnCb) :
    deliverS s (σ.ghost n f) = (deliverS s σ).map (·.ghost n f) := by
  rcases σ with ⟨nx, al, ns, nd, ln, gs, so, sc, tc, ec, lc, vc, cc, fc, ctc, hc, pc⟩
  cases al
  · rfl
  · cases sc with
    | nil => rfl
    | cons cb r =>
      cases cb with
      | nodeStmt => cases nd <;> rfl
      | optStmt k => rfl
      | clauseStmt k => rfl

theorem deliverL_ghost (l : Option PLine) (σ : State) (n : Nat) (f : Option FnCb) :
    deliverL l (σ.ghost n f) = (deliverL l σ).map (·.ghost n f) := by
  rcases σ with ⟨nx, al, ns, nd, ln, gs, so, sc, tc, ec, lc, vc, cc, fc, ctc, hc, pc⟩
  cases al
  · rfl
  · cases lc with
    | nil => rfl
    | cons cb r =>
      cases cb with
      | nodeLine => cases nd <;> rfl
      | optLine k => rfl
      | clauseLine k => rfl

theorem deliverC_ghost (c : PClause) (σ : State) (n : Nat) (f : Option FnCb) :
    deliverC c (σ.ghost n f) = (deliverC c σ).map (·.ghost n f) := by
  rcases σ with ⟨nx, al, ns, nd, ln, gs, so, sc, tc, ec, lc, vc, cc, fc, ctc, hc, pc⟩
  cases al
  · rfl
  · cases cc with
    | nil => rfl
    | cons cb r => cases cb; rfl

theorem popE_ghost (σ : State) (n : Nat) (f : Option FnCb) : popE (σ.ghost n f) = (popE σ).map (·.ghost n f) := by
  rcases σ with ⟨nx, al, ns, nd, ln, gs, so, sc, tc, ec, lc, vc, cc, fc, ctc, hc, pc⟩
  cases al
  · rfl
  · cases ec <;> rfl

theorem callE_ghost (n : Nat) (f : Option FnCb) :
    ∀ (stk : List ExprCb) (e : PExpr) (σ : State), callE stk e (σ.ghost n f) = (callE stk e σ).map (·.ghost n f)
  | [], _, _ => rfl
  | .lineCond :: _, e, σ => by
    rcases σ with ⟨nx, al, ns, nd, ln, gs, so, sc, tc, ec, lc, vc, cc, fc, ctc, hc, pc⟩
    cases ln <;> rfl
  | .lineElem k :: _, e, σ => rfl
  | .fnArg k :: _, e, σ => rfl
  | .notE :: rest, e, σ => by
    simp only [callE]
    exact callE_ghost n f rest (.not e) { σ with expressionCallbacks := rest }
  | .negE :: rest, e, σ => by
    simp only [callE]
    exact callE_ghost n f rest (.neg e) { σ with expressionCallbacks := rest }
  | .binR op _ l :: rest, e, σ => by
    simp only [callE]
    exact callE_ghost n f rest (.bin op l e) { σ with expressionCallbacks := rest }
  | .binL c :: rest, e, σ => rfl
  | .setE op _ v :: _, e, σ => by
    simp only [callE]
    exact deliverS_ghost _ σ n f
  | .jumpE :: _, e, σ => by
    simp only [callE]
    exact deliverS_ghost _ σ n f
  | .clauseCond k :: _, e, σ => by
    simp only [callE]
    exact popE_ghost (σ.modify k (.clauseCond e)) n f
  | .cmdElem k :: _, e, σ => rfl
  | .declValue k :: _, e, σ => rfl

theorem deliverE_ghost (e : PExpr) (σ : State) (n : Nat) (f : Option FnCb) :
    deliverE e (σ.ghost n f) = (deliverE e σ).map (·.ghost n f) := by
  have h := callE_ghost n f σ.expressionCallbacks e σ
  rcases σ with ⟨nx, al, ns, nd, ln, gs, so, sc, tc, ec, lc, vc, cc, fc, ctc, hc, pc⟩
  cases al
  · rfl
  · exact h


/-! ## F2: commutation with a write to an object the state does not know -/

theorem appendToNode_modify {σ : State} {n k : Nat} (m : Mut) (s : PStmt) (hb : Bounded σ n) (hk : n ≤ k) :
    (appendToNode s σ).map (·.modify k m) = appendToNode (s.modify k m) σ := by
  unfold appendToNode
  cases hn : σ.node with
  | none => rfl
  | some x =>
    have hx : k ∉ PStmt.idsList x.stmts := by
      have := hb.node
      simp only [hn, optIds] at this
      exact this.not_mem hk
    have h0 := State.modify_of_bounded m hb hk
    simp only [Outcome.map_ok]
    congr 1
    have : ({ σ with node := some { x with stmts := x.stmts ++ [s] } } : State).modify k m
        = { σ.modify k m with node := some { x with stmts := PStmt.modifyList k m (x.stmts ++ [s]) } } := rfl
    rw [this, h0, PStmt.modifyList_append, PStmt.modifyList_of_not_mem k m _ hx]
    rfl

theorem deliverS_modify {σ : State} {n k : Nat} (m : Mut) (s : PStmt) (hb : Bounded σ n) (hk : n ≤ k) :
    (deliverS s σ).map (·.modify k m) = deliverS (s.modify k m) σ := by
  unfold deliverS
  split
  · split
    · rfl
    · exact appendToNode_modify m s hb hk
    · next k' r hs =>
      have hk' : k' < n := (hb.stmtCbs (.optStmt k') (by simp [hs])).head
      have hne : k ≠ k' := by omega
      simp [State.modify_modify (k' := k') m (.optStmt s) hb hk hne rfl, Mut.mod]
    · next k' r hs =>
      have hk' : k' < n := (hb.stmtCbs (.clauseStmt k') (by simp [hs])).head
      have hne : k ≠ k' := by omega
      simp [State.modify_modify (k' := k') m (.clauseStmt s) hb hk hne rfl, Mut.mod]
  · rfl

theorem deliverL_modify {σ : State} {n k : Nat} (m : Mut) (l : Option PLine) (hb : Bounded σ n) (hk : n ≤ k) :
    (deliverL l σ).map (·.modify k m) = deliverL (l.map (PLine.modify k m)) σ := by
  unfold deliverL
  split
  · split
    · rfl
    · exact appendToNode_modify m (.line l) hb hk
    · next k' r hs =>
      have hk' : k' < n := (hb.lineCbs (.optLine k') (by simp [hs])).head
      have hne : k ≠ k' := by omega
      simp [State.modify_modify (k' := k') m (.optLine l) hb hk hne rfl, Mut.mod]
    · next k' r hs =>
      have hk' : k' < n := (hb.lineCbs (.clauseLine k') (by simp [hs])).head
      have hne : k ≠ k' := by omega
      simp [State.modify_modify (k' := k') m (.clauseStmt (.line l)) hb hk hne rfl, Mut.mod, PStmt.modify]
  · rfl

theorem deliverC_modify {σ : State} {n k : Nat} (m : Mut) (c : PClause) (hb : Bounded σ n) (hk : n ≤ k) :
    (deliverC c σ).map (·.modify k m) = deliverC (c.modify k m) σ := by
  unfold deliverC
  split
  · split
    · rfl
    · next k' r hs =>
      have hk' : k' < n := (hb.clauseCbs (.ifClause k') (by simp [hs])).head
      have hne : k ≠ k' := by omega
      simp [State.modify_modify (k' := k') m (.ifClause c) hb hk hne rfl, Mut.mod]
  · rfl


theorem Bounded.setExprCbs {σ : State} {n : Nat} (hb : Bounded σ n) (stk : List ExprCb)
    (h : ∀ cb ∈ stk, Below n cb.ids) : Bounded { σ with expressionCallbacks := stk } n :=
  { hb with exprCbs := h }

theorem popE_modify (τ : State) (k : Nat) (m : Mut) : (popE τ).map (·.modify k m) = popE (τ.modify k m) := by
  rcases τ with ⟨nx, al, ns, nd, ln, gs, so, sc, tc, ec, lc, vc, cc, fc, ctc, hc, pc⟩
  cases al
  · rfl
  · cases ec <;> rfl

theorem ExprCb.setLeft_modify (k c : Nat) (m : Mut) (e : PExpr) (cb : ExprCb) (h : k ∉ cb.ids) :
    (cb.setLeft c e).modify k m = cb.setLeft c (e.modify k m) := by
  cases cb <;> simp [ExprCb.setLeft, ExprCb.modify]
  next op c' l =>
    simp only [ExprCb.ids, List.mem_cons, not_or] at h
    by_cases hc : c' = c <;> simp [hc, ExprCb.modify, PExpr.modify_of_not_mem k m l h.2]

theorem callE_modify {n k : Nat} (m : Mut) (hk : n ≤ k) :
    ∀ (stk : List ExprCb) (e : PExpr) (σ : State), σ.expressionCallbacks = stk → Bounded σ n →
      (callE stk e σ).map (·.modify k m) = callE stk (e.modify k m) σ
  | [], _, _, _, _ => rfl
  | .lineCond :: _, e, σ, _, hb => by
    simp only [callE]
    cases hl : σ.lineStatement with
    | none => rfl
    | some l =>
      have hx : k ∉ optIds PText.ids l.text := by
        have := hb.line
        simp only [hl, optIds, PLine.ids] at this
        exact this.left.not_mem hk
      have h0 := State.modify_of_bounded m hb hk
      simp only [Outcome.map_ok]
      congr 1
      have : ({ σ with lineStatement := some { l with cond := some e } } : State).modify k m
          = { σ.modify k m with lineStatement := some { l with text := l.text.map (PText.modify k m),
                                                               cond := some (e.modify k m) } } := rfl
      rw [this, h0, optMap_of_not_mem PText.ids _ k (PText.modify_of_not_mem k m) _ hx]
  | .lineElem k' :: r, e, σ, hs, hb => by
    have hk' : k' < n := (hb.exprCbs (.lineElem k') (by simp [hs])).head
    have hne : k ≠ k' := by omega
    simp [callE, State.modify_modify (k' := k') m (.textExpr e) hb hk hne rfl, Mut.mod]
  | .fnArg k' :: r, e, σ, hs, hb => by
    have hk' : k' < n := (hb.exprCbs (.fnArg k') (by simp [hs])).head
    have hne : k ≠ k' := by omega
    simp [callE, State.modify_modify (k' := k') m (.callArg e) hb hk hne rfl, Mut.mod]
  | .notE :: rest, e, σ, hs, hb => by
    simp only [callE]
    have := callE_modify m hk rest (.not e) { σ with expressionCallbacks := rest } rfl
      (hb.setExprCbs rest fun cb hcb => hb.exprCbs cb (by simp [hs, hcb]))
    simpa [PExpr.modify] using this
  | .negE :: rest, e, σ, hs, hb => by
    simp only [callE]
    have := callE_modify m hk rest (.neg e) { σ with expressionCallbacks := rest } rfl
      (hb.setExprCbs rest fun cb hcb => hb.exprCbs cb (by simp [hs, hcb]))
    simpa [PExpr.modify] using this
  | .binR op c l :: rest, e, σ, hs, hb => by
    simp only [callE]
    have hl : k ∉ l.ids := (hb.exprCbs (.binR op c l) (by simp [hs])).tail.not_mem hk
    have := callE_modify m hk rest (.bin op l e) { σ with expressionCallbacks := rest } rfl
      (hb.setExprCbs rest fun cb hcb => hb.exprCbs cb (by simp [hs, hcb]))
    simpa [PExpr.modify, PExpr.modify_of_not_mem k m l hl] using this
  | .binL c :: rest, e, σ, hs, hb => by
    simp only [callE, Outcome.map_ok]
    congr 1
    have h0 := State.modify_of_bounded m hb hk
    have : ({ σ with expressionCallbacks := rest.map (ExprCb.setLeft c e) } : State).modify k m
        = { σ.modify k m with expressionCallbacks := (rest.map (ExprCb.setLeft c e)).map (ExprCb.modify k m) } := rfl
    have hmap : (rest.map (ExprCb.setLeft c e)).map (ExprCb.modify k m) = rest.map (ExprCb.setLeft c (e.modify k m)) := by
      rw [List.map_map]
      apply List.map_congr_left
      intro cb hcb
      exact ExprCb.setLeft_modify k c m e cb ((hb.exprCbs cb (by simp [hs, hcb])).not_mem hk)
    rw [this, h0, hmap]
  | .setE op c v :: _, e, σ, _, hb => by
    simpa [callE, PStmt.modify] using deliverS_modify m (.set v op e) hb hk
  | .jumpE :: _, e, σ, _, hb => by
    simpa [callE, PStmt.modify] using deliverS_modify m (.jump e) hb hk
  | .clauseCond k' :: r, e, σ, hs, hb => by
    have hk' : k' < n := (hb.exprCbs (.clauseCond k') (by simp [hs])).head
    have hne : k ≠ k' := by omega
    simp only [callE]
    rw [popE_modify, State.modify_modify (k' := k') m (.clauseCond e) hb hk hne rfl]
    rfl
  | .cmdElem k' :: r, e, σ, hs, hb => by
    have hk' : k' < n := (hb.exprCbs (.cmdElem k') (by simp [hs])).head
    have hne : k ≠ k' := by omega
    simp [callE, State.modify_modify (k' := k') m (.cmdExpr e) hb hk hne rfl, Mut.mod]
  | .declValue k' :: r, e, σ, hs, hb => by
    have hk' : k' < n := (hb.exprCbs (.declValue k') (by simp [hs])).head
    have hne : k ≠ k' := by omega
    simp [callE, State.modify_modify (k' := k') m (.declValue e) hb hk hne rfl, Mut.mod]

theorem deliverE_modify {σ : State} {n k : Nat} (m : Mut) (e : PExpr) (hb : Bounded σ n) (hk : n ≤ k) :
    (deliverE e σ).map (·.modify k m) = deliverE (e.modify k m) σ := by
  unfold deliverE
  split
  · exact callE_modify m hk _ e σ rfl hb
  · rfl


/-! ## preservation -/

/-- the control part that no delivery touches (the expression stack is not part of it: unary and binary callbacks pop) -/
structure SameCtl (σ τ : State) : Prop where
  alive : τ.alive = σ.alive
  next : τ.next = σ.next
  stmtCbs : τ.statementCallbacks = σ.statementCallbacks
  lineCbs : τ.lineStatementCallbacks = σ.lineStatementCallbacks
  clauseCbs : τ.clauseCallbacks = σ.clauseCallbacks
  textCb : τ.textCallback = σ.textCallback
  varCb : τ.variableCallback = σ.variableCallback
  fnCb : τ.functionCallCallback = σ.functionCallCallback
  cmdTextCb : τ.commandTextCallback = σ.commandTextCallback
  hashtagCb : τ.hashtagCallback = σ.hashtagCallback
  proto : τ.protoCommandStatement = σ.protoCommandStatement
  line : τ.lineStatement.isNone = σ.lineStatement.isNone

theorem SameCtl.refl (σ : State) : SameCtl σ σ := ⟨rfl, rfl, rfl, rfl, rfl, rfl, rfl, rfl, rfl, rfl, rfl, rfl⟩

theorem SameCtl.trans {σ τ υ : State} (h1 : SameCtl σ τ) (h2 : SameCtl τ υ) : SameCtl σ υ :=
  ⟨h2.alive.trans h1.alive, h2.next.trans h1.next, h2.stmtCbs.trans h1.stmtCbs, h2.lineCbs.trans h1.lineCbs,
   h2.clauseCbs.trans h1.clauseCbs, h2.textCb.trans h1.textCb, h2.varCb.trans h1.varCb, h2.fnCb.trans h1.fnCb,
   h2.cmdTextCb.trans h1.cmdTextCb, h2.hashtagCb.trans h1.hashtagCb, h2.proto.trans h1.proto, h2.line.trans h1.line⟩

theorem SameCtl.modify (σ : State) (k : Nat) (m : Mut) : SameCtl σ (σ.modify k m) :=
  ⟨rfl, rfl, rfl, rfl, rfl, rfl, rfl, rfl, rfl, rfl, rfl, by cases h : σ.lineStatement <;> simp [State.modify, h]⟩

theorem SameCtl.setExprCbs (σ : State) (stk : List ExprCb) : SameCtl σ { σ with expressionCallbacks := stk } :=
  ⟨rfl, rfl, rfl, rfl, rfl, rfl, rfl, rfl, rfl, rfl, rfl, rfl⟩

theorem appendToNode_ok {s : PStmt} {σ τ : State} (h : appendToNode s σ = .ok τ) : SameCtl σ τ := by
  unfold appendToNode at h
  split at h
  · cases h
  · cases h; exact ⟨rfl, rfl, rfl, rfl, rfl, rfl, rfl, rfl, rfl, rfl, rfl, rfl⟩

theorem appendToNode_bounded {s : PStmt} {σ τ : State} {n : Nat} (h : appendToNode s σ = .ok τ) (hb : Bounded σ n)
    (hs : Below n s.ids) : Bounded τ n := by
  unfold appendToNode at h
  split at h
  · cases h
  · next x hx =>
    cases h
    refine { hb with node := ?_ }
    have := hb.node
    simp only [hx, optIds, PNode.ids] at this
    simp only [optIds, PNode.ids, PStmt.idsList_append, PStmt.idsList, List.append_nil]
    exact this.append hs

theorem deliverS_ok {s : PStmt} {σ τ : State} (h : deliverS s σ = .ok τ) : SameCtl σ τ := by
  unfold deliverS at h
  split at h
  · split at h
    · cases h
    · exact appendToNode_ok h
    · cases h; exact SameCtl.modify _ _ _
    · cases h; exact SameCtl.modify _ _ _
  · cases h

theorem deliverS_bounded {s : PStmt} {σ τ : State} {n : Nat} (h : deliverS s σ = .ok τ) (hb : Bounded σ n)
    (hs : Below n s.ids) : Bounded τ n := by
  unfold deliverS at h
  split at h
  · split at h
    · cases h
    · exact appendToNode_bounded h hb hs
    · cases h; exact hb.modify _ _ rfl hs
    · cases h; exact hb.modify _ _ rfl hs
  · cases h

theorem deliverL_ok {l : Option PLine} {σ τ : State} (h : deliverL l σ = .ok τ) : SameCtl σ τ := by
  unfold deliverL at h
  split at h
  · split at h
    · cases h
    · exact appendToNode_ok h
    · cases h; exact SameCtl.modify _ _ _
    · cases h; exact SameCtl.modify _ _ _
  · cases h

theorem deliverL_bounded {l : Option PLine} {σ τ : State} {n : Nat} (h : deliverL l σ = .ok τ) (hb : Bounded σ n)
    (hs : Below n (optIds PLine.ids l)) : Bounded τ n := by
  unfold deliverL at h
  split at h
  · split at h
    · cases h
    · exact appendToNode_bounded h hb (by simpa [PStmt.ids] using hs)
    · cases h; exact hb.modify _ _ rfl hs
    · cases h; exact hb.modify _ _ rfl (by simpa [Mut.ids, PStmt.ids] using hs)
  · cases h

theorem deliverC_ok {c : PClause} {σ τ : State} (h : deliverC c σ = .ok τ) : SameCtl σ τ := by
  unfold deliverC at h
  split at h
  · split at h
    · cases h
    · cases h; exact SameCtl.modify _ _ _
  · cases h

theorem deliverC_bounded {c : PClause} {σ τ : State} {n : Nat} (h : deliverC c σ = .ok τ) (hb : Bounded σ n)
    (hs : Below n c.ids) : Bounded τ n := by
  unfold deliverC at h
  split at h
  · split at h
    · cases h
    · cases h; exact hb.modify _ _ rfl hs
  · cases h

theorem popE_ok {σ τ : State} (h : popE σ = .ok τ) : SameCtl σ τ := by
  unfold popE at h
  split at h
  · split at h
    · cases h
    · cases h; exact SameCtl.setExprCbs _ _
  · cases h

theorem popE_bounded {σ τ : State} {n : Nat} (h : popE σ = .ok τ) (hb : Bounded σ n) : Bounded τ n := by
  unfold popE at h
  split at h
  · split at h
    · cases h
    · next cb r hs =>
      cases h
      exact hb.setExprCbs r fun x hx => hb.exprCbs x (by simp [hs, hx])
  · cases h

theorem ExprCb.ids_setLeft (c : Nat) (e : PExpr) (cb : ExprCb) (i : Nat) (h : i ∈ (cb.setLeft c e).ids) :
    i ∈ cb.ids ∨ i ∈ e.ids := by
  cases cb <;> simp only [ExprCb.setLeft] at h <;> try exact Or.inl h
  split at h
  · simp only [ExprCb.ids, List.mem_cons] at h ⊢
    rcases h with h | h
    · exact Or.inl (Or.inl h)
    · exact Or.inr h
  · exact Or.inl h

theorem callE_ok : ∀ (stk : List ExprCb) (e : PExpr) (σ τ : State), callE stk e σ = .ok τ → SameCtl σ τ
  | [], _, _, _, h => by cases h
  | .lineCond :: _, e, σ, τ, h => by
    simp only [callE] at h
    split at h
    · cases h
    · next l hl =>
      cases h
      exact ⟨rfl, rfl, rfl, rfl, rfl, rfl, rfl, rfl, rfl, rfl, rfl, by simp [hl]⟩
  | .lineElem k :: _, e, σ, τ, h => by cases h; exact SameCtl.modify _ _ _
  | .fnArg k :: _, e, σ, τ, h => by cases h; exact SameCtl.modify _ _ _
  | .notE :: rest, e, σ, τ, h => (SameCtl.setExprCbs σ rest).trans (callE_ok rest _ _ τ h)
  | .negE :: rest, e, σ, τ, h => (SameCtl.setExprCbs σ rest).trans (callE_ok rest _ _ τ h)
  | .binR op _ l :: rest, e, σ, τ, h => (SameCtl.setExprCbs σ rest).trans (callE_ok rest _ _ τ h)
  | .binL c :: rest, e, σ, τ, h => by cases h; exact SameCtl.setExprCbs _ _
  | .setE op _ v :: _, e, σ, τ, h => deliverS_ok h
  | .jumpE :: _, e, σ, τ, h => deliverS_ok h
  | .clauseCond k :: _, e, σ, τ, h => (SameCtl.modify σ k _).trans (popE_ok h)
  | .cmdElem k :: _, e, σ, τ, h => by cases h; exact SameCtl.modify _ _ _
  | .declValue k :: _, e, σ, τ, h => by cases h; exact SameCtl.modify _ _ _

theorem callE_bounded {n : Nat} : ∀ (stk : List ExprCb) (e : PExpr) (σ τ : State), σ.expressionCallbacks = stk →
    callE stk e σ = .ok τ → Bounded σ n → Below n e.ids → Bounded τ n
  | [], _, _, _, _, h, _, _ => by cases h
  | .lineCond :: _, e, σ, τ, _, h, hb, he => by
    simp only [callE] at h
    split at h
    · cases h
    · next l hl =>
      cases h
      refine { hb with line := ?_ }
      have := hb.line
      simp only [hl, optIds, PLine.ids] at this
      simp only [optIds, PLine.ids]
      exact this.left.append he
  | .lineElem k :: _, e, σ, τ, _, h, hb, he => by cases h; exact hb.modify _ _ rfl he
  | .fnArg k :: _, e, σ, τ, _, h, hb, he => by cases h; exact hb.modify _ _ rfl he
  | .notE :: rest, e, σ, τ, hs, h, hb, he =>
    callE_bounded rest _ _ τ rfl h (hb.setExprCbs rest fun cb hcb => hb.exprCbs cb (by simp [hs, hcb]))
      (by simpa [PExpr.ids] using he)
  | .negE :: rest, e, σ, τ, hs, h, hb, he =>
    callE_bounded rest _ _ τ rfl h (hb.setExprCbs rest fun cb hcb => hb.exprCbs cb (by simp [hs, hcb]))
      (by simpa [PExpr.ids] using he)
  | .binR op c l :: rest, e, σ, τ, hs, h, hb, he =>
    callE_bounded rest _ _ τ rfl h (hb.setExprCbs rest fun cb hcb => hb.exprCbs cb (by simp [hs, hcb]))
      (by
        have hl : Below n l.ids := (hb.exprCbs (.binR op c l) (by simp [hs])).tail
        simpa [PExpr.ids] using hl.append he)
  | .binL c :: rest, e, σ, τ, hs, h, hb, he => by
    cases h
    refine hb.setExprCbs _ ?_
    intro cb hcb
    simp only [List.mem_map] at hcb
    obtain ⟨y, hy, rfl⟩ := hcb
    exact below_of_sub (ExprCb.ids_setLeft c e y) (hb.exprCbs y (by simp [hs, hy])) he
  | .setE op _ v :: _, e, σ, τ, _, h, hb, he => deliverS_bounded h hb (by simpa [PStmt.ids] using he)
  | .jumpE :: _, e, σ, τ, _, h, hb, he => deliverS_bounded h hb (by simpa [PStmt.ids] using he)
  | .clauseCond k :: _, e, σ, τ, _, h, hb, he => popE_bounded h (hb.modify _ _ rfl he)
  | .cmdElem k :: _, e, σ, τ, _, h, hb, he => by cases h; exact hb.modify _ _ rfl he
  | .declValue k :: _, e, σ, τ, _, h, hb, he => by cases h; exact hb.modify _ _ rfl he

theorem deliverE_ok {e : PExpr} {σ τ : State} (h : deliverE e σ = .ok τ) : SameCtl σ τ := by
  unfold deliverE at h
  split at h
  · exact callE_ok _ _ _ _ h
  · cases h

theorem deliverE_bounded {e : PExpr} {σ τ : State} {n : Nat} (h : deliverE e σ = .ok τ) (hb : Bounded σ n)
    (he : Below n e.ids) : Bounded τ n := by
  unfold deliverE at h
  split at h
  · exact callE_bounded _ _ _ _ rfl h hb he
  · cases h

end Ysgo.Listener
