import Ysgo.Lemmas.MarkupReplText
/-!
# Replacement markers, part 2: the main loop on `[select … /]`, `[nomarkup]raw[/nomarkup]`, `[plural …]raw[/]` …

* the raw text of an open replacement marker ends where the specification says (`findCloseIdx` on
  `raw ++ close tag ++ rest` is `raw.length` when `noCloseTag name raw`): a match of the close-tag regexp cannot start inside
  the raw text and reach into the close tag, because the `[` of the close tag fits nowhere but at its start;
* `markerStep` on self-closing and open replacement markers;
* `StepSim` for every chunk the specification's grammar (`chunkOk`) allows.
-/
namespace Ysgo.Markup
open Ysgo.Unicode Ysgo.MarkupSpec
attribute [local irreducible] Unicode.isLetter Unicode.isDigit Unicode.isSpace Unicode.toLower

/-! ## Perl white space -/

theorem isPerlSpace_cases (c : Char) (h : isPerlSpace c = true) :
    c = '\t' ∨ c = '\n' ∨ c = '\x0c' ∨ c = '\r' ∨ c = ' ' := by
  simpa [isPerlSpace, or_assoc] using h

/-- Perl `\s` (ASCII) is contained in `unicode.IsSpace` -/
theorem isSpace_of_perl (c : Char) (h : isPerlSpace c = true) : isSpace c = true := by
  rcases isPerlSpace_cases c h with rfl | rfl | rfl | rfl | rfl <;> decide +kernel

theorem isPerlSpace_lbracket : isPerlSpace '[' = false := by decide
theorem isPerlSpace_rbracket : isPerlSpace ']' = false := by decide
theorem isPerlSpace_slash : isPerlSpace '/' = false := by decide

def AllPerl (w : List Char) : Prop := ∀ c ∈ w, isPerlSpace c = true

theorem AllPerl.allSpace {w : List Char} (h : AllPerl w) : AllSpace w := fun c hc => isSpace_of_perl c (h c hc)

theorem allPerl_slot (ws : List (List Char)) (i : Nat) (h : perlWsOk ws = true) : AllPerl (slot ws i) := by
  unfold slot
  simp only [perlWsOk, List.all_eq_true] at h
  intro c hc
  by_cases hi : i < ws.length
  · rw [← List.getElem_eq_getD (h := hi)] at hc
    exact h _ (List.getElem_mem hi) c hc
  · simp only [List.getD_eq_getElem?_getD, List.getElem?_eq_none (Nat.le_of_not_lt hi), Option.getD_none] at hc
    exact absurd hc List.not_mem_nil

theorem wsOk_of_perl (ws : List (List Char)) (h : perlWsOk ws = true) : wsOk ws = true := by
  simp only [perlWsOk, wsOk, List.all_eq_true] at h ⊢
  intro w hw c hc
  exact isSpace_of_perl c (h w hw c hc)

theorem skipPerlWs_eq (l : List Char) : skipPerlWs l = l.dropWhile isPerlSpace := by
  induction l with
  | nil => rfl
  | cons c cs ih =>
    simp only [skipPerlWs, List.dropWhile_cons, ih]

theorem dropWhile_perl_stop (w : List Char) (d : Char) (l : List Char) (hw : AllPerl w) (hd : isPerlSpace d = false) :
    (w ++ d :: l).dropWhile isPerlSpace = d :: l :=
  F64.dropWhile_append_stop _ w d l hw hd

/-- white space is skipped up to the `[`, which stays -/
theorem dropWhile_perl_bracket (l rest : List Char) :
    (l ++ '[' :: rest).dropWhile isPerlSpace = l.dropWhile isPerlSpace ++ '[' :: rest := by
  induction l with
  | nil => simp [isPerlSpace_lbracket]
  | cons c cs ih =>
    simp only [List.cons_append, List.dropWhile_cons]
    split
    · exact ih
    · rfl

/-! ## The close tag of a replacement marker -/

/-- after `[`, white space, `/`, white space: `]`, or the name, white space and `]` -/
def closeRest (name l : List Char) : Bool :=
  l.head? == some ']' || (name.isPrefixOf l && ((l.drop name.length).dropWhile isPerlSpace).head? == some ']')

/-- after `[` and white space: `/` … -/
def closeSlash (name l : List Char) : Bool :=
  match l with
  | [] => false
  | c :: l => c == '/' && closeRest name (l.dropWhile isPerlSpace)

theorem closeTagHere_nil (name : List Char) : closeTagHere name [] = false := rfl

theorem closeTagHere_cons (name : List Char) (c : Char) (l : List Char) :
    closeTagHere name (c :: l) = (c == '[' && closeSlash name (l.dropWhile isPerlSpace)) := by
  by_cases hc : c = '['
  · subst hc
    simp only [closeTagHere, beq_self_eq_true, Bool.true_and]
    cases hd : l.dropWhile isPerlSpace with
    | nil => rfl
    | cons d l2 =>
      by_cases hs : d = '/'
      · subst hs
        simp [closeSlash, closeRest]
      · simp only [closeSlash, show (d == '/') = false by simpa using hs, Bool.false_and]
        split
        · rename_i heq; cases heq; exact absurd rfl hs
        · rfl
  · simp only [show (c == '[') = false by simpa using hc, Bool.false_and]
    unfold closeTagHere
    split
    · rename_i heq; cases heq; exact absurd rfl hc
    · rfl

theorem head_rbracket (l : List Char) : (match l with | ']' :: _ => true | _ => false) = (l.head? == some ']') := by
  cases l with
  | nil => rfl
  | cons c cs =>
    by_cases hc : c = ']'
    · subst hc; simp
    · simp only [List.head?_cons]
      split
      · rename_i heq; cases heq; exact absurd rfl hc
      · simp [hc]

/-- the model's regexp matcher is the specification's close-tag test -/
theorem closeMatchesHere_eq (name l : List Char) : closeMatchesHere name l = closeTagHere name l := by
  cases l with
  | nil => rfl
  | cons c l =>
    rw [closeTagHere_cons]
    by_cases hc : c = '['
    · subst hc
      simp only [closeMatchesHere, beq_self_eq_true, Bool.true_and, skipPerlWs_eq]
      cases hd : l.dropWhile isPerlSpace with
      | nil => rfl
      | cons d l2 =>
        by_cases hs : d = '/'
        · subst hs
          simp only [closeSlash, closeRest, beq_self_eq_true, Bool.true_and]
          congr 1
          · exact head_rbracket _
          · congr 1
            exact head_rbracket _
        · simp only [closeSlash, show (d == '/') = false by simpa using hs, Bool.false_and]
          split
          · rename_i heq; cases heq; exact absurd rfl hs
          · rfl
    · simp only [show (c == '[') = false by simpa using hc, Bool.false_and]
      unfold closeMatchesHere
      split
      · rename_i heq; cases heq; exact absurd rfl hc
      · rfl

theorem isPrefixOf_append_notin (b : Char) (name l rest : List Char) (hn : b ∉ name)
    (h : name.isPrefixOf (l ++ b :: rest) = true) : name.isPrefixOf l = true := by
  induction name generalizing l with
  | nil => simp
  | cons a name ih =>
    cases l with
    | nil =>
      simp only [List.nil_append, List.isPrefixOf, Bool.and_eq_true, beq_iff_eq] at h
      exact absurd h.1 (fun e => hn (by simp [e]))
    | cons y l =>
      simp only [List.cons_append, List.isPrefixOf, Bool.and_eq_true] at h ⊢
      exact ⟨h.1, ih l (fun hm => hn (List.mem_cons_of_mem _ hm)) h.2⟩

theorem isPrefixOf_length {name l : List Char} (h : name.isPrefixOf l = true) : name.length ≤ l.length := by
  rw [List.isPrefixOf_iff_prefix] at h
  exact h.length_le

theorem head_append_bracket (l rest : List Char) (h : (l ++ '[' :: rest).head? == some ']') :
    (l.head? == some ']') = true := by
  cases l with
  | nil => simp at h
  | cons c cs => simpa using h

theorem closeRest_append (name l rest : List Char) (hn : '[' ∉ name) (h : closeRest name (l ++ '[' :: rest) = true) :
    closeRest name l = true := by
  unfold closeRest at h ⊢
  simp only [Bool.or_eq_true, Bool.and_eq_true] at h ⊢
  rcases h with h | ⟨hp, hd⟩
  · exact Or.inl (head_append_bracket l rest h)
  · have hp' := isPrefixOf_append_notin '[' name l rest hn hp
    refine Or.inr ⟨hp', ?_⟩
    rw [List.drop_append_of_le_length (isPrefixOf_length hp'), dropWhile_perl_bracket] at hd
    exact head_append_bracket _ rest hd

theorem closeSlash_append (name l rest : List Char) (hn : '[' ∉ name) (h : closeSlash name (l ++ '[' :: rest) = true) :
    closeSlash name l = true := by
  cases l with
  | nil => simp [closeSlash] at h
  | cons c cs =>
    simp only [List.cons_append, closeSlash, Bool.and_eq_true] at h ⊢
    refine ⟨h.1, ?_⟩
    have := h.2
    rw [dropWhile_perl_bracket] at this
    exact closeRest_append name _ rest hn this

/-- **a match of the close-tag pattern cannot reach from the raw text into the close tag**: if the pattern matches at the
start of `l ++ '[' :: rest` and `l` is not empty, it matches within `l` -/
theorem closeTagHere_append (name l rest : List Char) (hn : '[' ∉ name) (hl : l ≠ [])
    (h : closeTagHere name (l ++ '[' :: rest) = true) : closeTagHere name l = true := by
  cases l with
  | nil => exact absurd rfl hl
  | cons c cs =>
    rw [List.cons_append, closeTagHere_cons, Bool.and_eq_true] at h
    rw [closeTagHere_cons, Bool.and_eq_true]
    refine ⟨h.1, ?_⟩
    have := h.2
    rw [dropWhile_perl_bracket] at this
    exact closeSlash_append name _ rest hn this

/-- the leftmost match of the close-tag regexp in `raw ++ close tag …` is at the end of the raw text -/
theorem findCloseIdx_raw (name raw tagrest : List Char) (hn : '[' ∉ name) (hraw : noCloseTag name raw = true)
    (htag : closeMatchesHere name ('[' :: tagrest) = true) :
    ∀ i, findCloseIdx name (raw ++ '[' :: tagrest) i = some (i + raw.length) := by
  induction raw with
  | nil =>
    intro i
    simp only [List.nil_append, findCloseIdx, htag, if_true, List.length_nil, Nat.add_zero]
  | cons c cs ih =>
    intro i
    simp only [noCloseTag, Bool.and_eq_true, Bool.not_eq_true'] at hraw
    have hno : closeMatchesHere name ((c :: cs) ++ '[' :: tagrest) = false := by
      cases hm : closeMatchesHere name ((c :: cs) ++ '[' :: tagrest) with
      | false => rfl
      | true =>
        rw [closeMatchesHere_eq] at hm
        have := closeTagHere_append name (c :: cs) tagrest hn (by simp) hm
        rw [hraw.1] at this
        exact absurd this (by simp)
    rw [List.cons_append] at hno ⊢
    simp only [findCloseIdx, hno, Bool.false_eq_true, if_false]
    rw [ih hraw.2 (i + 1)]
    simp only [List.length_cons]
    congr 1; omega

theorem identChar_lbracket : identChar '[' = false := by decide +kernel

theorem lbracket_not_in_ident (n : List Char) (h : isIdent n = true) : '[' ∉ n := by
  intro hm
  simp only [isIdent, Bool.and_eq_true, List.all_eq_true] at h
  have := h.2 _ hm
  rw [identChar_lbracket] at this
  exact absurd this (by simp)

theorem identChar_not_perl (c : Char) (h : identChar c = true) : isPerlSpace c = false := by
  cases hp : isPerlSpace c with
  | false => rfl
  | true =>
    have h1 : isIdChar c = true := h
    have := isIdChar_not_space c h1
    rw [isSpace_of_perl c hp] at this
    exact absurd this (by simp)

/-- the rendered close tag without its `[` -/
def closeTagTail (n : List Char) (byName : Bool) (cws : List (List Char)) (R : List Char) : List Char :=
  if byName then slot cws 0 ++ '/' :: (slot cws 1 ++ n ++ slot cws 2 ++ ']' :: R)
  else slot cws 0 ++ '/' :: (slot cws 1 ++ ']' :: R)

theorem renderCloseTag_eq (n : List Char) (byName : Bool) (cws : List (List Char)) (R : List Char) :
    renderCloseTag n byName cws ++ R = '[' :: closeTagTail n byName cws R := by
  cases byName <;> simp [renderCloseTag, closeTagTail]

theorem closeTagTail_length (n : List Char) (byName : Bool) (cws : List (List Char)) (R : List Char) :
    (closeTagTail n byName cws R).length + 1 = (renderCloseTag n byName cws).length + R.length := by
  have := congrArg List.length (renderCloseTag_eq n byName cws R)
  simp only [List.length_append, List.length_cons] at this
  omega

/-- the rendered close tag is matched by the close-tag regexp -/
theorem closeMatchesHere_tag (n : List Char) (byName : Bool) (cws : List (List Char)) (R : List Char)
    (hn : isIdent n = true) (hcws : perlWsOk cws = true) :
    closeMatchesHere n ('[' :: closeTagTail n byName cws R) = true := by
  have h0 := allPerl_slot cws 0 hcws
  have h1 := allPerl_slot cws 1 hcws
  have h2 := allPerl_slot cws 2 hcws
  rw [closeMatchesHere_eq, closeTagHere_cons]
  simp only [beq_self_eq_true, Bool.true_and]
  cases byName with
  | false =>
    simp only [closeTagTail, Bool.false_eq_true, if_false]
    rw [dropWhile_perl_stop _ '/' _ h0 isPerlSpace_slash]
    simp only [closeSlash, beq_self_eq_true, Bool.true_and]
    rw [dropWhile_perl_stop _ ']' _ h1 isPerlSpace_rbracket]
    simp [closeRest]
  | true =>
    obtain ⟨a, t, rfl, hid⟩ := ident_cases hn
    have ha : isPerlSpace a = false := identChar_not_perl a (hid a List.mem_cons_self)
    simp only [closeTagTail, if_true]
    rw [dropWhile_perl_stop _ '/' _ h0 isPerlSpace_slash]
    simp only [closeSlash, beq_self_eq_true, Bool.true_and]
    rw [show slot cws 1 ++ (a :: t) ++ slot cws 2 ++ ']' :: R = slot cws 1 ++ a :: (t ++ slot cws 2 ++ ']' :: R) by simp,
      dropWhile_perl_stop _ a _ h1 ha]
    simp only [closeRest, Bool.or_eq_true, Bool.and_eq_true]
    refine Or.inr ⟨?_, ?_⟩
    · rw [show a :: (t ++ slot cws 2 ++ ']' :: R) = (a :: t) ++ (slot cws 2 ++ ']' :: R) by simp,
        List.isPrefixOf_iff_prefix]
      exact List.prefix_append _ _
    · rw [show a :: (t ++ slot cws 2 ++ ']' :: R) = (a :: t) ++ (slot cws 2 ++ ']' :: R) by simp,
        List.drop_left, dropWhile_perl_stop _ ']' _ h2 isPerlSpace_rbracket]
      simp

/-- `parseRawTextUpToAttributeClose` returns the raw text and leaves the reader at the close tag -/
theorem parseRaw_eq (name : String) (raw tagrest : List Char) (k p : Nat)
    (h : findCloseIdx name.toList (raw ++ '[' :: tagrest) 0 = some raw.length) :
    parseRawTextUpToAttributeClose name { rest := raw ++ '[' :: tagrest, src := k, pos := p } =
      .ok raw { rest := '[' :: tagrest, src := k, pos := p } := by
  have h1 : 0 ≤ raw.length ∧ raw.length ≤ (raw ++ '[' :: tagrest).length := by simp
  have h2 : raw.length ≤ (raw ++ '[' :: tagrest).length ∧ (raw ++ '[' :: tagrest).length ≤ (raw ++ '[' :: tagrest).length := by
    simp
  simp only [parseRawTextUpToAttributeClose, bind, P.bind, readAll, h, sliceP, h1, h2, and_self, if_true, pure, P.pure,
    setReader, List.drop_zero, Nat.sub_zero, List.take_left', List.drop_left']
  simp

/-! ## `markerStep` on replacement markers -/

/-- the parser's decision about the white space after a marker (`isRepl`: its name has a processor); `none`:
`trimwhitespace` is not a boolean -/
def trimDecisionG (hadWs isRepl : Bool) (m : Marker) : Option Bool :=
  if hadWs then
    match getProp m.props "trimwhitespace" with
    | some (.bool b) => some b
    | some _ => none
    | none => some (m.tag == .selfClose && !isRepl)
  else some false

theorem decideTrimG_eq (hadWs isRepl : Bool) (m : Marker) (trim : Bool) (s1 : PS)
    (h : trimDecisionG hadWs isRepl m = some trim) : decideTrim hadWs isRepl m s1 = .ok trim s1 := by
  unfold trimDecisionG at h
  unfold decideTrim
  cases hadWs with
  | false => simp only [Bool.false_eq_true, if_false, Option.some.injEq] at h; subst h; rfl
  | true =>
    simp only [if_true] at h ⊢
    cases hg : getProp m.props "trimwhitespace" with
    | none => simp only [hg, Option.some.injEq] at h; subst h; simp [pure, P.pure]
    | some v =>
      cases v with
      | bool b => simp only [hg, Option.some.injEq] at h; subst h; rfl
      | int _ => simp [hg] at h
      | float _ => simp [hg] at h
      | str _ => simp [hg] at h

theorem trimRuleG_eq (S : St) (st : LoopSt) (m : Marker) (isSelf isRepl : Bool) (hout : st.out = S.out)
    (hlast : isSpace st.last = S.lastWs) (htag : (m.tag == .selfClose) = isSelf) :
    trimRule S isSelf isRepl m.props = trimDecisionG (st.out.length == 0 || isSpace st.last) isRepl m := by
  unfold trimRule trimDecisionG
  rw [lookup_eq_getProp, hout, hlast, htag]
  have : (S.out.isEmpty || S.lastWs) = (S.out.length == 0 || S.lastWs) := by cases S.out <;> simp
  rw [this]
  split
  · split <;> simp_all
  · rfl

/-- a self-closing replacement marker: the processor's text is appended -/
theorem markerStep_replSelf (pfuel : Nat) (st : LoopSt) (s s1 : PS) (m : Marker) (text : String) (trim : Bool)
    (hm : parseAttributeMarker pfuel s = .ok m s1) (hrepl : isReplacement m.name = true) (htag : m.tag = .selfClose)
    (hproc : process m.name m.props = some text)
    (ht : trimDecisionG (s1.pos == 0 || isSpace st.last) true m = some trim) :
    markerStep pfuel st s =
      .ok { out := st.out ++ text.toList, markers := st.markers ++ [m], last := '[' } (afterTrim trim s1) := by
  have hnot : ¬ (m.tag ≠ .opn ∧ m.tag ≠ .selfClose) := by rw [htag]; simp
  have hno : ¬ (m.tag = .opn) := by rw [htag]; decide
  have hp : processReplacementMarker m s1 = .ok text s1 := by
    unfold processReplacementMarker
    rw [if_neg hnot]
    simp only [bind, P.bind, if_neg hno, pure, P.pure, hproc]
  simp only [markerStep, bind, P.bind, hm, getPos, hrepl, if_true, hp, decideTrimG_eq _ _ m trim s1 ht, trimOne_eq, pure,
    P.pure]

theorem afterTrim_bracket (trim : Bool) (l : List Char) (k p : Nat) :
    afterTrim trim { rest := '[' :: l, src := k, pos := p } = { rest := '[' :: l, src := k, pos := p } := by
  simp [afterTrim, startsWithSpace, isSpace_lbracket]

/-- an open replacement marker: the raw text up to the close tag is consumed (uncounted), the processor's text appended;
the reader stands at the close tag, so no white space is dropped whatever `trimwhitespace` says -/
theorem markerStep_replOpen (pfuel : Nat) (st : LoopSt) (s : PS) (m : Marker) (raw tagrest : List Char) (k p : Nat)
    (text : String) (trim : Bool)
    (hm : parseAttributeMarker pfuel s = .ok m { rest := raw ++ '[' :: tagrest, src := k, pos := p })
    (hrepl : isReplacement m.name = true) (htag : m.tag = .opn)
    (hfind : findCloseIdx m.name.toList (raw ++ '[' :: tagrest) 0 = some raw.length)
    (hproc : process m.name (m.props ++ [("contents", PVal.str (String.ofList raw))]) = some text)
    (ht : trimDecisionG (p == 0 || isSpace st.last) true m = some trim) :
    markerStep pfuel st s =
      .ok { out := st.out ++ text.toList, markers := st.markers ++ [m], last := '[' }
        { rest := '[' :: tagrest, src := k, pos := p } := by
  have hnot : ¬ (m.tag ≠ .opn ∧ m.tag ≠ .selfClose) := by rw [htag]; simp
  have hp : processReplacementMarker m { rest := raw ++ '[' :: tagrest, src := k, pos := p } =
      .ok text { rest := '[' :: tagrest, src := k, pos := p } := by
    unfold processReplacementMarker
    rw [if_neg hnot]
    simp only [bind, P.bind, htag, if_true, parseRaw_eq m.name raw tagrest k p hfind, pure, P.pure, hproc]
  simp only [markerStep, bind, P.bind, hm, getPos, hrepl, if_true, hp,
    decideTrimG_eq _ _ m trim _ ht, trimOne_eq, afterTrim_bracket, pure, P.pure]

/-! ## Simulation -/

theorem render_repl (n : List Char) (sh : Option SVal) (ps : List (List Char × SVal)) (ws : List (List Char))
    (raw : List Char) (byName : Bool) (cws : List (List Char)) (R : List Char) :
    renderChunk (.repl n sh ps ws raw byName cws) ++ R =
      '[' :: headText n sh ps ws ']' (raw ++ '[' :: closeTagTail n byName cws R) := by
  rw [← renderCloseTag_eq]
  cases sh <;> simp [renderChunk, renderHead, headText]

theorem lastIndexNamed_append (name : String) (l : List Marker) (m : Marker) (hm : (m.name == name) = true) :
    ∀ k, lastIndexNamed name (l ++ [m]) k = some (k + l.length) := by
  induction l with
  | nil => intro k; simp [lastIndexNamed, hm]
  | cons x xs ih =>
    intro k
    simp only [List.cons_append, lastIndexNamed, ih (k + 1), List.length_cons]
    congr 1; omega

/-- a self-closing replacement marker (`[select value=… … /]`, `[nomarkup/]` …) with any properties -/
theorem stepSim_selfClose_repl (pfuel : Nat) (n : List Char) (sh : Option SVal) (ps : List (List Char × SVal))
    (ws : List (List Char)) (hok : HeadOk n sh ps ws) (hr : isReplName n = true) :
    StepSim pfuel (.selfClose n sh ps ws) := by
  intro S S' R st s hp hinv hstep
  have hrepl : isReplacement (String.ofList n) = true := by rw [isReplacement_ofList]; exact hr
  -- the specification's step
  simp only [stepChunk, bind, Option.bind, hr, if_true] at hstep
  cases hres : resolve n sh ps with
  | none => simp [hres] at hstep
  | some props =>
    simp only [hres] at hstep
    cases htr : trimRule S true true props with
    | none => simp [htr] at hstep
    | some trim =>
      simp only [htr] at hstep
      cases hrp : replacement n props none with
      | none => simp [hrp] at hstep
      | some text =>
        simp only [hrp, pure, Option.some.injEq] at hstep
        obtain ⟨rest, src, pos⟩ := s
        have hrest := hinv.rest
        have hsrc := hinv.src
        rw [render_selfClose] at hrest hsrc
        simp only [startsWithSpace, isSpace_lbracket, Bool.and_false, Bool.false_eq_true, if_false, Nat.add_zero]
          at hrest hsrc
        subst hrest hsrc
        -- the parser's marker
        generalize hw3 : slot ws (renderHead n sh ps ws).2 = w3 at hinv hp
        have hw3s : AllSpace w3 := by rw [← hw3]; exact allSpace_slot ws _ hok.ws
        have hlen := headText_length n sh ps ws '/' (w3 ++ ']' :: R)
        have hl3 : (w3 ++ ']' :: R).length = w3.length + 1 + R.length := by
          simp only [List.length_append, List.length_cons]; omega
        simp only [List.length_cons] at hp
        obtain ⟨f, hf⟩ : ∃ f, pfuel = (f + 1) + ps.length := ⟨pfuel - ps.length - 1, by omega⟩
        obtain ⟨wT, kT, hwT, hhead⟩ := marker_head n sh ps ws '/' (w3 ++ ']' :: R) props S.src st.out.length (f + 1)
          hok.name hok.short hok.props hok.ws (Or.inr rfl) hres
        rw [propsLoop_end_self _ _ f props wT w3 R kT _ hwT hw3s, ← hf] at hhead
        have hcount := (parseAttributeMarker_count pfuel _ _ _ hhead).1
        simp only [] at hcount
        have htd : trimDecisionG (st.out.length == 0 || isSpace st.last) true
            (Marker.mk (String.ofList n) st.out.length S.src props .selfClose) = some trim := by
          rw [← trimRuleG_eq S st _ true true hinv.out hinv.last (by rfl)]
          exact htr
        have hproc : process (String.ofList n) props = some (String.ofList text) := by
          have := process_eq n hr props none
          simp only [contentsProp, List.append_nil, hrp, Option.map_some] at this
          exact this
        have hms := markerStep_replSelf pfuel st _ _ _ (String.ofList text) trim hhead hrepl rfl hproc htd
        refine ⟨1, _, _, ?_, ?_, fun fuel => mainLoop_marker pfuel _ fuel st _ S.src pos _ hms⟩
        · subst hstep
          obtain ⟨opensM, hop, hb⟩ := hinv.build
          have hclen : (renderChunk (.selfClose n sh ps ws)).length + R.length =
              1 + (headText n sh ps ws '/' (w3 ++ ']' :: R)).length := by
            have := congrArg List.length (render_selfClose n sh ps ws R)
            rw [hw3] at this
            simp only [List.length_append, List.length_cons] at this
            omega
          refine ⟨by simp [hinv.out, String.toList_ofList], ?_, ?_, by simp [isSpace_lbracket], ?_⟩
          · simp only [afterTrim]; split <;> rfl
          · simp only [afterTrim]; split <;> simp only [Nat.add_zero] <;> omega
          · refine ⟨opensM, hop, ?_⟩
            intro more
            rw [List.append_assoc, hb]
            simp [buildAttrs, toPropertyMap_eq, hinv.out]
        · simp only [afterTrim]
          split
          · simp only [List.length_cons, List.length_tail]; omega
          · simp only [List.length_cons]; omega

/-- an open replacement marker with its raw text and its close tag (`[/name]` or `[/]`): two iterations of the main loop -/
theorem stepSim_repl (pfuel : Nat) (n : List Char) (sh : Option SVal) (ps : List (List Char × SVal))
    (ws : List (List Char)) (raw : List Char) (byName : Bool) (cws : List (List Char)) (hok : HeadOk n sh ps ws)
    (hr : isReplName n = true) (hraw : noCloseTag n raw = true) (hcws : perlWsOk cws = true) :
    StepSim pfuel (.repl n sh ps ws raw byName cws) := by
  intro S S' R st s hp hinv hstep
  have hrepl : isReplacement (String.ofList n) = true := by rw [isReplacement_ofList]; exact hr
  -- the specification's step
  simp only [stepChunk, bind, Option.bind] at hstep
  cases hres : resolve n sh ps with
  | none => simp [hres] at hstep
  | some props =>
    simp only [hres] at hstep
    cases htr : trimRule S false true props with
    | none => simp [htr] at hstep
    | some trim =>
      simp only [htr] at hstep
      cases hrp : replacement n props (some raw) with
      | none => simp [hrp] at hstep
      | some text =>
        simp only [hrp, pure] at hstep
        obtain ⟨rest, src, pos⟩ := s
        have hrest := hinv.rest
        have hsrc := hinv.src
        rw [render_repl] at hrest hsrc
        simp only [startsWithSpace, isSpace_lbracket, Bool.and_false, Bool.false_eq_true, if_false, Nat.add_zero]
          at hrest hsrc
        subst hrest hsrc
        -- lengths
        have hclen : (renderChunk (.repl n sh ps ws raw byName cws)).length + R.length =
            1 + (headText n sh ps ws ']' (raw ++ '[' :: closeTagTail n byName cws R)).length := by
          have := congrArg List.length (render_repl n sh ps ws raw byName cws R)
          simp only [List.length_append, List.length_cons] at this
          omega
        have htl := closeTagTail_length n byName cws R
        -- the open marker
        have hlen := headText_length n sh ps ws ']' (raw ++ '[' :: closeTagTail n byName cws R)
        simp only [List.length_cons] at hp
        obtain ⟨f, hf⟩ : ∃ f, pfuel = (f + 1) + ps.length := ⟨pfuel - ps.length - 1, by omega⟩
        obtain ⟨wT, kT, hwT, hhead⟩ := marker_head n sh ps ws ']' (raw ++ '[' :: closeTagTail n byName cws R) props S.src
          st.out.length (f + 1) hok.name hok.short hok.props hok.ws (Or.inl rfl) hres
        rw [propsLoop_end_open _ _ f props wT _ kT _ hwT, ← hf] at hhead
        have hcount := (parseAttributeMarker_count pfuel _ _ _ hhead).1
        simp only [List.length_append, List.length_cons] at hcount
        have htd : trimDecisionG (st.out.length == 0 || isSpace st.last) true
            (Marker.mk (String.ofList n) st.out.length S.src props .opn) = some trim := by
          rw [← trimRuleG_eq S st _ false true hinv.out hinv.last (by rfl)]
          exact htr
        have hproc : process (String.ofList n) (props ++ [("contents", PVal.str (String.ofList raw))]) =
            some (String.ofList text) := by
          have := process_eq n hr props (some raw)
          simp only [contentsProp, hrp, Option.map_some] at this
          exact this
        have hfind : findCloseIdx (String.ofList n).toList (raw ++ '[' :: closeTagTail n byName cws R) 0 =
            some raw.length := by
          rw [String.toList_ofList, findCloseIdx_raw n raw _ (lbracket_not_in_ident n hok.name) hraw
            (closeMatchesHere_tag n byName cws R hok.name hcws) 0]
          simp
        have hms1 := markerStep_replOpen pfuel st _ _ raw _ _ _ (String.ofList text) trim hhead hrepl rfl hfind hproc htd
        have hrun1 := fun fuel => mainLoop_marker pfuel _ fuel st _ S.src pos _ hms1
        -- the close tag
        have hc0 := (allPerl_slot cws 0 hcws).allSpace
        have hc1 := (allPerl_slot cws 1 hcws).allSpace
        have hc2 := (allPerl_slot cws 2 hcws).allSpace
        obtain ⟨opensM, hop, hb⟩ := hinv.build
        cases byName with
        | true =>
          simp only [if_true, Option.some.injEq] at hstep
          obtain ⟨a, t, hat, hid⟩ := ident_cases hok.name
          have hm2 := marker_close (slot cws 0) (slot cws 1) a t (slot cws 2) R (kT + wT.length + 1)
            (st.out ++ (String.ofList text).toList).length pfuel hc0 hc1 hc2 hid
          have hms2 := markerStep_close pfuel
            { out := st.out ++ (String.ofList text).toList,
              markers := st.markers ++ [Marker.mk (String.ofList n) st.out.length S.src props .opn], last := '[' }
            _ _ _ hm2 rfl rfl
          have htail : closeTagTail n true cws R = slot cws 0 ++ '/' :: (slot cws 1 ++ (a :: t) ++ slot cws 2 ++ ']' :: R) := by
            simp [closeTagTail, hat]
          have hrun2 := fun fuel => mainLoop_marker pfuel _ fuel _ _ (kT + wT.length + 1) st.out.length _ hms2
          have htailLen := congrArg List.length htail
          simp only [List.length_append, List.length_cons] at htailLen hlen
          refine ⟨2, ?st', ?s', ?hinv, ?hlen, ?hrun⟩
          case hrun =>
            intro fuel
            rw [show fuel + 2 = (fuel + 1) + 1 by omega, hrun1, htail, hrun2]
          case hinv =>
            subst hstep
            refine ⟨by simp [hinv.out, String.toList_ofList], by simp, ?_, by simp [isSpace_lbracket], ?_⟩
            · simp only [Bool.false_and, Bool.false_eq_true, if_false, Nat.add_zero, List.length_cons]
              omega
            · refine ⟨opensM, hop, ?_⟩
              intro more
              rw [List.append_assoc, List.append_assoc, hb]
              have hli := lastIndexNamed_append (String.ofList (a :: t)) opensM
                (Marker.mk (String.ofList n) st.out.length S.src props .opn) (by simp [hat]) 0
              simp only [List.cons_append, List.nil_append, buildAttrs, hli, Nat.zero_add,
                List.getElem?_concat_length, List.eraseIdx_append_of_length_le (Nat.le_refl _), Nat.sub_self,
                List.eraseIdx_cons_zero, List.append_nil]
              simp [attrOf, closeAttr, toPropertyMap_eq, hinv.out, String.toList_ofList, hat]
          case hlen => simp only [List.length_cons]; omega
        | false =>
          simp only [Bool.false_eq_true, if_false, Option.some.injEq] at hstep
          have hm2 := marker_closeAll (slot cws 0) (slot cws 1) R (kT + wT.length + 1)
            (st.out ++ (String.ofList text).toList).length pfuel hc0 hc1
          have hms2 := markerStep_simple pfuel
            { out := st.out ++ (String.ofList text).toList,
              markers := st.markers ++ [Marker.mk (String.ofList n) st.out.length S.src props .opn], last := '[' }
            _ _ _ hm2 rfl (show isReplacement "" = false by decide)
          simp only [show (Tag.closeAll == Tag.selfClose) = false by decide, Bool.and_false, afterTrim, Bool.false_and,
            Bool.false_eq_true, if_false] at hms2
          have htail : closeTagTail n false cws R = slot cws 0 ++ '/' :: (slot cws 1 ++ ']' :: R) := by
            simp [closeTagTail]
          have hrun2 := fun fuel => mainLoop_marker pfuel _ fuel _ _ (kT + wT.length + 1) st.out.length _ hms2
          have htailLen := congrArg List.length htail
          simp only [List.length_append, List.length_cons] at htailLen hlen
          refine ⟨2, ?st2', ?s2', ?hinv2, ?hlen2, ?hrun2⟩
          case hrun2 =>
            intro fuel
            rw [show fuel + 2 = (fuel + 1) + 1 by omega, hrun1, htail, hrun2]
          case hinv2 =>
            subst hstep
            refine ⟨by simp [hinv.out, String.toList_ofList], by simp, ?_, by simp [isSpace_lbracket], ?_⟩
            · simp only [Bool.false_and, Bool.false_eq_true, if_false, Nat.add_zero, List.length_cons]
              omega
            · refine ⟨[], rfl, ?_⟩
              intro more
              rw [List.append_assoc, List.append_assoc, hb]
              simp only [List.cons_append, List.nil_append, buildAttrs, ← hop, List.map_append, List.map_map,
                List.map_cons, List.map_nil]
              congr 2
              · congr 1
                · apply List.map_congr_left
                  intro o _
                  simp [attrOf_eq, hinv.out, String.toList_ofList]
                · simp [attrOf, closeAttr, toPropertyMap_eq, hinv.out, String.toList_ofList]
          case hlen2 => simp only [List.length_cons]; omega

/-- every chunk of the specification's grammar is simulated -/
theorem stepSim_all (pfuel : Nat) (c : Chunk) (h : chunkOk c = true) : StepSim (pfuel + 1) c := by
  cases c with
  | text t =>
    apply stepSim_text
    simp only [chunkOk, List.all_eq_true, Bool.and_eq_true, decide_eq_true_eq] at h
    exact h
  | escOpen => exact stepSim_esc _ _ (Or.inl rfl)
  | escClose => exact stepSim_esc _ _ (Or.inr rfl)
  | opn n sh ps ws =>
    simp only [chunkOk, Bool.and_eq_true, Bool.not_eq_true'] at h
    exact stepSim_opn_props _ n sh ps ws (headOk_of n sh ps ws h.1) h.2
  | selfClose n sh ps ws =>
    simp only [chunkOk] at h
    cases hr : isReplName n with
    | false => exact stepSim_selfClose_props _ n sh ps ws (headOk_of n sh ps ws h) hr
    | true => exact stepSim_selfClose_repl _ n sh ps ws (headOk_of n sh ps ws h) hr
  | close n ws =>
    simp only [chunkOk, Bool.and_eq_true] at h
    exact stepSim_close (pfuel + 1) n ws h.1 h.2
  | closeAll ws =>
    simp only [chunkOk] at h
    exact stepSim_closeAll (pfuel + 1) ws h
  | repl n sh ps ws raw byName cws =>
    simp only [chunkOk, Bool.and_eq_true] at h
    exact stepSim_repl _ n sh ps ws raw byName cws (headOk_of n sh ps ws h.1.1.1) h.1.1.2 h.1.2 h.2

end Ysgo.Markup
