import Ysgo.Spec.Translate
import Ysgo.Lemmas.ListenerDeliver
/-!
# Typed syntax of grammar-conforming expression trees

`CExpr` / `CValue` / `CCall` are the productions `expression`, `value`, `function_call` of YarnSpinnerParser.g4 as data;
`toPT` writes such a term as a parse tree (`tx : Nat → String` supplies the texts of the tokens nobody reads). A parse
tree conforms to the grammar iff it is the image of a well-formed term (`Props/C01Listener.lean`). `tr` is the structural
translation on the typed syntax; `Translate.expr (toPT e) = some (tr e)`.
-/
namespace Ysgo.Listener
open Ysgo

/-- texts of the tokens whose text is irrelevant -/
abbrev Tx := Nat → String

/-- the five binary productions -/
inductive BinKind | mul | add | cmp | eq | log
deriving DecidableEq, Repr

def BinKind.ctx : BinKind → Ctx
  | .mul => .expMultDivMod | .add => .expAddSub | .cmp => .expComparison | .eq => .expEquality | .log => .expAndOrXor

/-- the operator tokens a production admits -/
def BinKind.op : BinKind → Tk → Option BinOp
  | .mul => Translate.mulOp | .add => Translate.addOp | .cmp => Translate.cmpOp | .eq => Translate.eqOp
  | .log => Translate.logOp

mutual
inductive CExpr where
  | parens (tx : Tx) (e : CExpr)                              -- '(' expression ')'
  | neg (tx : Tx) (e : CExpr)                                 -- '-' expression
  | not (tx : Tx) (e : CExpr)                                 -- OPERATOR_LOGICAL_NOT expression
  | bin (k : BinKind) (t : Tk) (tx : Tx) (l r : CExpr)        -- expression op expression
  | value (v : CValue)
inductive CValue where
  | num (s : String) | tru (tx : Tx) | fls (tx : Tx) | var (s : String) | str (s : String) | null (tx : Tx)
  | call (c : CCall)
inductive CCall where
  /-- `FUNC_ID '(' expression? (COMMA expression)* ')'`; `lead`: the first argument is written without a comma -/
  | mk (f : String) (tx : Tx) (lead : Bool) (args : List CExpr)
end

/-! ### as parse trees -/

mutual
def CExpr.toPT : CExpr → PT
  | .parens tx e => .rule .expParens [.tok .lparen (tx 0), e.toPT, .tok .rparen (tx 1)]
  | .neg tx e => .rule .expNegative [.tok .opSub (tx 0), e.toPT]
  | .not tx e => .rule .expNot [.tok .opNot (tx 0), e.toPT]
  | .bin k t tx l r => .rule k.ctx [l.toPT, .tok t (tx 0), r.toPT]
  | .value v => .rule .expValue [v.toPT]
def CValue.toPT : CValue → PT
  | .num s => .rule .valueNumber [.tok .number s]
  | .tru tx => .rule .valueTrue [.tok .keywordTrue (tx 0)]
  | .fls tx => .rule .valueFalse [.tok .keywordFalse (tx 0)]
  | .var s => .rule .valueVar [.rule .variable [.tok .varId s]]
  | .str s => .rule .valueString [.tok .string s]
  | .null tx => .rule .valueNull [.tok .keywordNull (tx 0)]
  | .call c => .rule .valueFunc [c.toPT]
def CCall.toPT : CCall → PT
  | .mk f tx true (a :: rest) =>
    .rule .functionCall (.tok .funcId f :: .tok .lparen (tx 0) :: a.toPT :: CExpr.moreArgsPT tx 2 rest)
  | .mk f tx _ args => .rule .functionCall (.tok .funcId f :: .tok .lparen (tx 0) :: CExpr.moreArgsPT tx 2 args)
/-- `(COMMA expression)* ')'`, the comma before the `j`-th expression having text `tx j` -/
def CExpr.moreArgsPT (tx : Tx) : Nat → List CExpr → List PT
  | _, [] => [.tok .rparen (tx 1)]
  | j, a :: rest => .tok .comma (tx j) :: a.toPT :: CExpr.moreArgsPT tx (j + 1) rest
end

/-! ### token texts as the lexer guarantees them (the part the listener relies on) -/

/-- VAR_ID is `'$' ID`, HASHTAG is `'#'`: the first character is one byte long -/
def asciiHead (s : String) : Bool :=
  match s.toList with
  | c :: _ => c.toNat < 128
  | [] => false

/-- STRING starts and ends with `"` -/
def quoted (s : String) : Bool :=
  match s.toList with
  | c :: r => (match r.getLast? with
      | some d => c.toNat < 128 && d.toNat < 128
      | none => false)
  | [] => false

/-- NUMBER is `INT | INT '.' INT` (and lies in the modelled domain of `strconv.ParseFloat`, which every such text does) -/
def numberText (s : String) : Bool :=
  CmdArgs.numberBody s.toList && (match F64.parseFloat s with | .unmodelled => false | _ => true)

mutual
def CExpr.WF : CExpr → Prop
  | .parens _ e => e.WF
  | .neg _ e => e.WF
  | .not _ e => e.WF
  | .bin k t _ l r => (k.op t).isSome ∧ l.WF ∧ r.WF
  | .value v => v.WF
def CValue.WF : CValue → Prop
  | .num s => numberText s = true
  | .var s => asciiHead s = true
  | .str s => quoted s = true
  | .call c => c.WF
  | _ => True
def CCall.WF : CCall → Prop
  | .mk _ _ _ args => CExpr.WFList args
def CExpr.WFList : List CExpr → Prop
  | [] => True
  | a :: rest => a.WF ∧ CExpr.WFList rest
end

/-! ### the structural translation on the typed syntax -/

def numberValue (s : String) : F64 :=
  match F64.parseFloat s with
  | .val x => x
  | _ => F64.inf false

mutual
def CExpr.tr : CExpr → Expr
  | .parens _ e => e.tr
  | .neg _ e => .neg e.tr
  | .not _ e => .not e.tr
  | .bin k t _ l r => .bin ((k.op t).getD .add) l.tr r.tr
  | .value v => v.tr
def CValue.tr : CValue → Expr
  | .num s => .lit (.num (numberValue s))
  | .tru _ => .lit (.bool true)
  | .fls _ => .lit (.bool false)
  | .var s => .var (Translate.tail1 s)
  | .str s => .lit (.str (Translate.middle s))
  | .null _ => .null
  | .call c => c.tr
def CCall.tr : CCall → Expr
  | .mk f _ _ args => .call f (CExpr.trList args)
def CExpr.trList : List CExpr → List Expr
  | [] => []
  | a :: rest => a.tr :: CExpr.trList rest
end

theorem number_of_numberText {s : String} (h : numberText s = true) : Translate.number s = some (numberValue s) := by
  unfold numberText at h
  unfold Translate.number numberValue
  cases hp : F64.parseFloat s <;> simp_all

theorem BinKind.translate_bin (k : BinKind) (t : Tk) (a : String) (l r : PT) :
    Translate.expr (.rule k.ctx [l, .tok t a, r]) = Translate.bin (k.op t) (Translate.expr l) (Translate.expr r) := by
  cases k <;> simp [BinKind.ctx, BinKind.op, Translate.expr]

def PT.isRule : PT → Bool
  | .rule _ _ => true
  | _ => false

theorem CExpr.isRule_toPT (e : CExpr) : e.toPT.isRule = true := by
  cases e <;> simp [CExpr.toPT, PT.isRule]

theorem CValue.isRule_toPT (v : CValue) : v.toPT.isRule = true := by
  cases v <;> simp [CValue.toPT, PT.isRule]

theorem Translate.args_rule (t : PT) (rest : List PT) (h : t.isRule = true) :
    Translate.args (t :: rest) = Translate.ocons (Translate.expr t) (Translate.moreArgs rest) := by
  cases t with
  | rule c cs => simp [Translate.args]
  | tok _ _ => simp [PT.isRule] at h
  | err => simp [PT.isRule] at h

mutual
theorem CExpr.translate : ∀ e : CExpr, e.WF → Translate.expr e.toPT = some e.tr
  | .parens tx e, h => by
    simp only [CExpr.WF] at h
    simp [CExpr.toPT, Translate.expr, CExpr.tr, CExpr.translate e h]
  | .neg tx e, h => by
    simp only [CExpr.WF] at h
    simp [CExpr.toPT, Translate.expr, CExpr.tr, CExpr.translate e h]
  | .not tx e, h => by
    simp only [CExpr.WF] at h
    simp [CExpr.toPT, Translate.expr, CExpr.tr, CExpr.translate e h]
  | .bin k t tx l r, h => by
    simp only [CExpr.WF] at h
    obtain ⟨op, hop⟩ := Option.isSome_iff_exists.1 h.1
    simp [CExpr.toPT, BinKind.translate_bin, CExpr.tr, CExpr.translate l h.2.1, CExpr.translate r h.2.2, hop,
      Translate.bin]
  | .value v, h => by
    simp only [CExpr.WF] at h
    simp [CExpr.toPT, Translate.expr, CExpr.tr, CValue.translate v h]
theorem CValue.translate : ∀ v : CValue, v.WF → Translate.value v.toPT = some v.tr
  | .num s, h => by
    simp only [CValue.WF] at h
    simp [CValue.toPT, Translate.value, CValue.tr, number_of_numberText h]
  | .tru tx, _ => by simp [CValue.toPT, Translate.value, CValue.tr]
  | .fls tx, _ => by simp [CValue.toPT, Translate.value, CValue.tr]
  | .var s, _ => by simp [CValue.toPT, Translate.value, CValue.tr]
  | .str s, _ => by simp [CValue.toPT, Translate.value, CValue.tr]
  | .null tx, _ => by simp [CValue.toPT, Translate.value, CValue.tr]
  | .call c, h => by
    simp only [CValue.WF] at h
    have := CCall.translate c h
    cases c with
    | mk f tx lead args =>
      cases lead <;> cases args <;>
        simp_all [CValue.toPT, CCall.toPT, Translate.value, Translate.functionCall, CValue.tr, CCall.tr]
theorem CCall.translate : ∀ c : CCall, c.WF →
    Translate.functionCall c.toPT = some (match c with | .mk f _ _ args => (f, CExpr.trList args))
  | .mk f tx true (a :: rest), h => by
    simp only [CCall.WF, CExpr.WFList] at h
    simp [CCall.toPT, Translate.functionCall, Translate.args_rule _ _ a.isRule_toPT, CExpr.translate a h.1,
      CExpr.translate_moreArgs tx 2 rest h.2, CExpr.trList, Translate.ocons]
  | .mk f tx true [], h => by
    simp [CCall.toPT, Translate.functionCall, CExpr.moreArgsPT, Translate.args, CExpr.trList]
  | .mk f tx false args, h => by
    simp only [CCall.WF] at h
    have := CExpr.translate_moreArgs tx 2 args h
    cases args with
    | nil => simp [CCall.toPT, Translate.functionCall, CExpr.moreArgsPT, Translate.args, CExpr.trList]
    | cons a rest =>
      simp only [CExpr.moreArgsPT, Translate.moreArgs] at this
      simp [CCall.toPT, Translate.functionCall, CExpr.moreArgsPT, Translate.args, this]
theorem CExpr.translate_moreArgs (tx : Tx) : ∀ (j : Nat) (args : List CExpr), CExpr.WFList args →
    Translate.moreArgs (CExpr.moreArgsPT tx j args) = some (CExpr.trList args)
  | _, [], _ => by simp [CExpr.moreArgsPT, Translate.moreArgs, CExpr.trList]
  | j, a :: rest, h => by
    simp only [CExpr.WFList] at h
    simp [CExpr.moreArgsPT, Translate.moreArgs, CExpr.translate a h.1, CExpr.translate_moreArgs tx (j + 1) rest h.2,
      CExpr.trList, Translate.ocons]
end

end Ysgo.Listener
