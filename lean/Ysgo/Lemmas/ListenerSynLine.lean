import Ysgo.Lemmas.ListenerExpr
/-!
# Typed syntax of grammar-conforming line statements

`line_statement : line_formatted_text line_condition? hashtag* NEWLINE`,
`line_formatted_text : ( TEXT+ | '{' expression '}' )+`, `hashtag : HASHTAG HASHTAG_TEXT`,
`line_condition : '<<' 'if' expression '>>'`.
-/
namespace Ysgo.Listener
open Ysgo

inductive CElem where
  | text (s : String)                -- a TEXT token
  | expr (tx : Tx) (e : CExpr)       -- '{' expression '}'

structure CLine where
  elems : List CElem
  cond : Option (Tx × CExpr)
  /-- the texts of HASHTAG and of HASHTAG_TEXT -/
  tags : List (String × String)
  /-- the text of NEWLINE -/
  nl : String

def CElem.toPTs : CElem → List PT
  | .text s => [.tok .text s]
  | .expr tx e => [.tok .expressionStart (tx 0), e.toPT, .tok .expressionEnd (tx 1)]

def CElem.toPTsList : List CElem → List PT
  | [] => []
  | e :: es => e.toPTs ++ CElem.toPTsList es

def condPTs : Option (Tx × CExpr) → List PT
  | none => []
  | some (tx, c) =>
    [.rule .lineCondition [.tok .commandStart (tx 0), .tok .commandIf (tx 1), c.toPT, .tok .commandEnd (tx 2)]]

def tagPT (t : String × String) : PT := .rule .hashtag [.tok .hashtag t.1, .tok .hashtagText t.2]

def CLine.toPT (l : CLine) : PT :=
  .rule .lineStatement
    (.rule .lineFormattedText (CElem.toPTsList l.elems) :: (condPTs l.cond ++ (l.tags.map tagPT ++ [.tok .newline l.nl])))

/-- HASHTAG is `#`: exactly one character, one byte long -/
def oneAscii (s : String) : Bool :=
  match s.toList with
  | [c] => c.toNat < 128
  | _ => false

def CElem.WF : CElem → Prop
  | .text s => s ≠ ""                       -- the lexer produces no empty token
  | .expr _ e => e.WF

def CElem.WFList : List CElem → Prop
  | [] => True
  | e :: es => e.WF ∧ CElem.WFList es

structure CLine.WF (l : CLine) : Prop where
  nonempty : l.elems ≠ []
  elems : CElem.WFList l.elems
  cond : ∀ tx c, l.cond = some (tx, c) → c.WF
  tags : ∀ t ∈ l.tags, oneAscii t.1 = true

/-! ### the structural translation -/

def CElem.trList : List CElem → List (String ⊕ Expr)
  | [] => []
  | .text s :: es => Translate.consText s (CElem.trList es)
  | .expr _ e :: es => .inr e.tr :: CElem.trList es

def CLine.tr (l : CLine) : LineSpec :=
  { elems := CElem.trList l.elems, cond := l.cond.map fun p => p.2.tr, tags := l.tags.map (·.2) }

theorem CElem.translate_list : ∀ es : List CElem, CElem.WFList es →
    Translate.elems (CElem.toPTsList es) = some (CElem.trList es)
  | [], _ => by simp [CElem.toPTsList, Translate.elems, CElem.trList]
  | .text s :: es, h => by
    simp only [CElem.WFList] at h
    simp [CElem.toPTsList, CElem.toPTs, Translate.elems, CElem.trList, CElem.translate_list es h.2]
  | .expr tx e :: es, h => by
    simp only [CElem.WFList, CElem.WF] at h
    simp [CElem.toPTsList, CElem.toPTs, Translate.elems, CElem.trList, CElem.translate_list es h.2,
      CExpr.translate e h.1, Translate.ocons]

theorem translate_tags (nl : String) : ∀ ts : List (String × String),
    Translate.tags (ts.map tagPT ++ [.tok .newline nl]) = some (ts.map (·.2))
  | [] => by simp [Translate.tags]
  | t :: ts => by simp [tagPT, Translate.tags, translate_tags nl ts]

theorem tags_head_not_cond (nl : String) (ts : List (String × String)) :
    ∀ els, Translate.lineStatement (.rule .lineStatement (.rule .lineFormattedText els :: (ts.map tagPT ++ [.tok .newline nl])))
      = Translate.mkLine (Translate.elems els) (some none) (Translate.tags (ts.map tagPT ++ [.tok .newline nl])) := by
  intro els
  cases ts with
  | nil => simp [Translate.lineStatement]
  | cons t ts => simp [tagPT, Translate.lineStatement]

theorem CLine.translate (l : CLine) (h : l.WF) : Translate.lineStatement l.toPT = some l.tr := by
  rcases l with ⟨els, cond, tags, nl⟩
  cases cond with
  | none =>
    simp only [CLine.toPT, condPTs, List.nil_append]
    rw [tags_head_not_cond]
    simp [CElem.translate_list els h.elems, translate_tags, CLine.tr, Translate.mkLine]
  | some p =>
    obtain ⟨tx, c⟩ := p
    simp [CLine.toPT, condPTs, Translate.lineStatement, CElem.translate_list els h.elems, translate_tags, CLine.tr,
      CExpr.translate c (h.cond tx c rfl), Translate.mkLine]

end Ysgo.Listener
