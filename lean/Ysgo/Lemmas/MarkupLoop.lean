import Ysgo.Lemmas.MarkupSafe
/-! # Markup model: the main loop keeps marker positions ordered, does not panic and does not run out of fuel -/
namespace Ysgo.Markup
attribute [local irreducible] Unicode.isLetter Unicode.isDigit Unicode.isSpace Unicode.toLower

def Res.Sat {α : Type} (r : Res α) (Q : α → PS → Prop) : Prop :=
  match r with
  | .ok a s => Q a s
  | .err _ => True
  | .panic _ => False
  | .oof _ => False

/-- marker positions never decrease and never exceed the number of emitted characters -/
def MarkersOk (st : LoopSt) : Prop :=
  st.markers.Pairwise (fun a b => a.position ≤ b.position) ∧ ∀ m ∈ st.markers, m.position ≤ st.out.length

theorem MarkersOk.grow {st : LoopSt} (h : MarkersOk st) (t : List Char) (l : Char) :
    MarkersOk { st with out := st.out ++ t, last := l } := by
  refine ⟨h.1, fun m hm => ?_⟩
  have := h.2 m hm
  simp only [List.length_append]; omega

theorem MarkersOk.step {st : LoopSt} (h : MarkersOk st) (m : Marker) (t : List Char) (hm : m.position = st.out.length) :
    MarkersOk { out := st.out ++ t, markers := st.markers ++ [m], last := '[' } := by
  constructor
  · simp only [List.pairwise_append, List.pairwise_cons, List.not_mem_nil, false_imp_iff, implies_true,
      List.Pairwise.nil, and_self, List.mem_singleton, true_and]
    refine ⟨h.1, fun a ha b hb => ?_⟩
    subst hb
    have := h.2 a ha; omega
  · intro a ha
    simp only [List.mem_append, List.mem_singleton] at ha
    simp only [List.length_append]
    rcases ha with ha | ha
    · have := h.2 a ha; omega
    · subst ha; omega

/-- the main loop with enough fuel does not panic, does not run out of fuel, and maintains every predicate on the loop
state that survives appending text and appending a marker positioned at the end of the text -/
theorem mainLoop_inv (I : LoopSt → Prop)
    (hgrow : ∀ (st : LoopSt) (t : List Char) (l : Char), I st → I { st with out := st.out ++ t, last := l })
    (hstep : ∀ (st : LoopSt) (m : Marker) (t : List Char), I st → m.position = st.out.length →
      I { out := st.out ++ t, markers := st.markers ++ [m], last := '[' })
    (pfuel : Nat) : ∀ fuel st s, s.rest.length < fuel → s.rest.length < pfuel → I st →
    (mainLoop pfuel fuel st s).Sat (fun st' _ => I st') := by
  intro fuel
  induction fuel with
  | zero => intro st s h; exact absurd h (Nat.not_lt_zero _)
  | succ f ih =>
    intro st s hf hp hok
    unfold mainLoop
    simp only [bind, P.bind, readRune]
    cases hrest : s.rest with
    | nil => simpa [pure, P.pure, Res.Sat] using hok
    | cons c cs =>
      rw [hrest] at hf hp
      simp only [List.length_cons] at hf hp
      simp only [peekRune, P.bind]
      split
      · -- escaped bracket
        simp only [P.bind, readRune]
        cases cs with
        | nil => simp [fail, Res.Sat]
        | cons b cs' =>
          simp only [incSrc, P.bind]
          simp only [List.length_cons] at hf hp
          exact ih _ _ (by simp only []; omega) (by simp only []; omega) (hgrow st [b] st.last hok)
      · split
        · -- marker
          simp only [P.bind, setPos]
          have hs := safe_markerStep pfuel st { rest := cs, src := s.src, pos := st.out.length } (by simp only []; omega)
          cases hms : markerStep pfuel st { rest := cs, src := s.src, pos := st.out.length } with
          | ok st' s2 =>
            simp only [hms] at hs ⊢
            obtain ⟨hlen, _, m, t, hm, rfl⟩ := hs
            have hlen : s2.rest.length ≤ cs.length := hlen
            exact ih _ _ (by omega) (by omega) (hstep st m t hok hm)
          | err _ => simp only [Res.Sat]
          | panic _ => simp only [hms] at hs
          | oof _ => simp only [hms] at hs
        · simp only [incSrc, P.bind]
          exact ih _ _ (by simp only []; omega) (by simp only []; omega) (hgrow st [c] c hok)

theorem mainLoop_safe (pfuel : Nat) : ∀ fuel st s, s.rest.length < fuel → s.rest.length < pfuel → MarkersOk st →
    (mainLoop pfuel fuel st s).Sat (fun st' _ => MarkersOk st') :=
  mainLoop_inv MarkersOk (fun _ t l h => h.grow t l) (fun _ m t h hm => h.step m t hm) pfuel

/-- the markers collected so far stay a prefix of the final marker list -/
theorem mainLoop_prefix (pfuel : Nat) (base : List Marker) : ∀ fuel st s, s.rest.length < fuel → s.rest.length < pfuel →
    (∃ more, st.markers = base ++ more) →
    (mainLoop pfuel fuel st s).Sat (fun st' _ => ∃ more, st'.markers = base ++ more) :=
  mainLoop_inv (fun st => ∃ more, st.markers = base ++ more) (fun _ _ _ h => h)
    (fun _ m _ h _ => by obtain ⟨more, hm⟩ := h; exact ⟨more ++ [m], by simp [hm]⟩) pfuel

end Ysgo.Markup
