import Ysgo.Lemmas.ListenerItems
/-!
# Statements with their identities

`pS s n`: the statements a conforming `statement` tree stands for, as the listener builds them when the allocation counter
stands at `n` (one identity per if statement, clause, option, command, declaration, function call, line text and per
pair of closures sharing a variable). Erasing the identities gives the structural translation (`reify_pSList`).
-/
namespace Ysgo.Listener
open Ysgo

def CCmdEl.cnt : CCmdEl → Nat
  | .text _ => 0
  | .expr _ e => e.cnt

def CCmdEl.cntList : List CCmdEl → Nat
  | [] => 0
  | e :: es => e.cnt + CCmdEl.cntList es

def CCmdEl.pList : List CCmdEl → Nat → List PCmdEl
  | [], _ => []
  | .text s :: es, n => .text s :: CCmdEl.pList es n
  | .expr _ e :: es, n => .expr (e.pE n) :: CCmdEl.pList es (n + e.cnt)

mutual
def CStmt.cnt : CStmt → Nat
  | .line l => l.cnt
  | .ifs _ c body rest => 2 + c.cnt + CStmt.cntList body + rest.cnt
  | .opts os _ => COpt.cntList os
  | .block _ ss => CStmt.cntList ss
  | .set _ _ _ e => 1 + e.cnt
  | .call _ c => c.cnt
  | .cmd _ els => 1 + CCmdEl.cntList els
  | .declare _ _ x _ => 1 + x.cnt
  | .jumpId _ _ => 0
  | .jumpExpr _ e => e.cnt
def CStmt.cntList : List CStmt → Nat
  | [] => 0
  | s :: ss => s.cnt + CStmt.cntList ss
def CClauses.cnt : CClauses → Nat
  | .endif _ => 0
  | .elseif _ c body rest => 1 + c.cnt + CStmt.cntList body + rest.cnt
  | .else_ _ body => 1 + CStmt.cntList body
def COpt.cnt : COpt → Nat
  | .plain _ l => 1 + l.cnt
  | .withBody _ l ss => 1 + l.cnt + CStmt.cntList ss
def COpt.cntList : List COpt → Nat
  | [] => 0
  | o :: os => o.cnt + COpt.cntList os
end

mutual
def CStmt.pS : CStmt → Nat → List PStmt
  | .line l, n => [.line (some (l.pL n))]
  | .ifs _ c body rest, n =>
    [.ifs n (.mk (n + 1) (c.pE (n + 2)) (CStmt.pSList body (n + 2 + c.cnt)) ::
      rest.pC (n + 2 + c.cnt + CStmt.cntList body))]
  | .opts os _, n => [.opts (COpt.pOList os n)]
  | .block _ ss, n => CStmt.pSList ss n
  | .set _ v t e, n => [.set (Translate.tail1 v) ((Translate.setOp t).getD .set) (e.pE (n + 1))]
  | .call _ (.mk f _ _ args), n => [.call n f (CExpr.pEList args (n + 1))]
  | .cmd _ els, n => [.cmd n (rearrangeEls (CCmdEl.pList els (n + 1)))]
  | .declare _ v x _, n => [.declare n (Translate.tail1 v) (x.pE (n + 1))]
  | .jumpId _ dest, _ => [.jump (.lit (.str dest))]
  | .jumpExpr _ e, n => [.jump (e.pE n)]
def CStmt.pSList : List CStmt → Nat → List PStmt
  | [], _ => []
  | s :: ss, n => s.pS n ++ CStmt.pSList ss (n + s.cnt)
def CClauses.pC : CClauses → Nat → List PClause
  | .endif _, _ => []
  | .elseif _ c body rest, n =>
    .mk n (c.pE (n + 1)) (CStmt.pSList body (n + 1 + c.cnt)) :: rest.pC (n + 1 + c.cnt + CStmt.cntList body)
  | .else_ _ body, n => [.mk n (.lit (.bool true)) (CStmt.pSList body (n + 1))]
def COpt.pO : COpt → Nat → POpt
  | .plain _ l, n => .mk n (some (l.pL (n + 1))) []
  | .withBody _ l ss, n => .mk n (some (l.pL (n + 1))) (CStmt.pSList ss (n + 1 + l.cnt))
def COpt.pOList : List COpt → Nat → List POpt
  | [], _ => []
  | o :: os, n => o.pO n :: COpt.pOList os (n + o.cnt)
end

/-! ### the identities lie in the allocated range -/

theorem CCmdEl.ids_pList : ∀ (els : List CCmdEl) (n : Nat),
    Within n (n + CCmdEl.cntList els) (PCmdEl.idsList (CCmdEl.pList els n))
  | [], n => by simp [CCmdEl.pList, PCmdEl.idsList, Within.nil]
  | .text s :: es, n => by
    simpa [CCmdEl.pList, PCmdEl.idsList, PCmdEl.ids, CCmdEl.cntList, CCmdEl.cnt] using CCmdEl.ids_pList es n
  | .expr _ e :: es, n => by
    simp only [CCmdEl.pList, PCmdEl.idsList, PCmdEl.ids, CCmdEl.cntList, CCmdEl.cnt]
    exact ((CExpr.ids_pE e n).mono (Nat.le_refl _) (by omega)).append
      ((CCmdEl.ids_pList es (n + e.cnt)).mono (by omega) (by omega))

theorem ids_split (acc : List Char) : PCmdEl.idsList ((CmdArgs.split acc).map PCmdEl.ofArg) = [] := by
  unfold CmdArgs.split
  induction CmdArgs.fields acc with
  | nil => rfl
  | cons w ws ih => simpa [PCmdEl.idsList, PCmdEl.ids, PExpr.ids, PCmdEl.ofArg] using ih

theorem ids_rearrangeAux : ∀ (els : List PCmdEl) (acc : List Char),
    PCmdEl.idsList ((CmdArgs.rearrangeAux (els.map PCmdEl.toElem) acc).map PCmdEl.ofArg) = PCmdEl.idsList els
  | [], acc => by simpa [CmdArgs.rearrangeAux, PCmdEl.idsList] using ids_split acc
  | .text s :: rest, acc => by
    simp only [List.map, PCmdEl.toElem, CmdArgs.rearrangeAux]
    split
    · simp only [List.map_append, List.map, PCmdEl.idsList_append, PCmdEl.idsList, PCmdEl.ids, ids_split,
        List.nil_append, PCmdEl.ofArg]
      exact ids_rearrangeAux rest []
    · simpa [PCmdEl.idsList, PCmdEl.ids] using ids_rearrangeAux rest (acc ++ s.toList)
  | .expr e :: rest, acc => by
    simp only [List.map, PCmdEl.toElem, CmdArgs.rearrangeAux, List.map_append, PCmdEl.idsList_append, PCmdEl.idsList,
      PCmdEl.ids, ids_split, List.nil_append, PCmdEl.ofArg]
    rw [ids_rearrangeAux rest []]

theorem ids_rearrangeEls (els : List PCmdEl) : PCmdEl.idsList (rearrangeEls els) = PCmdEl.idsList els :=
  ids_rearrangeAux els []

mutual
theorem CStmt.ids_pS : ∀ (s : CStmt) (n : Nat), Within n (n + s.cnt) (PStmt.idsList (s.pS n))
  | .line l, n => by
    simpa [CStmt.pS, CStmt.cnt, PStmt.idsList, PStmt.ids, optIds] using CLine.ids_pL l n
  | .ifs _ c body rest, n => by
    simp only [CStmt.pS, CStmt.cnt, PStmt.idsList, PStmt.ids, PClause.idsList, PClause.ids, List.append_nil]
    refine Within.cons (by omega) (Within.append (Within.cons (by omega) (Within.append ?_ ?_)) ?_)
    · exact (CExpr.ids_pE c (n + 2)).mono (by omega) (by omega)
    · exact (CStmt.ids_pSList body _).mono (by omega) (by omega)
    · exact (CClauses.ids_pC rest _).mono (by omega) (by omega)
  | .opts os _, n => by
    simpa [CStmt.pS, CStmt.cnt, PStmt.idsList, PStmt.ids] using COpt.ids_pOList os n
  | .block _ ss, n => by simpa [CStmt.pS, CStmt.cnt] using CStmt.ids_pSList ss n
  | .set _ v t e, n => by
    simp only [CStmt.pS, CStmt.cnt, PStmt.idsList, PStmt.ids, List.append_nil]
    exact (CExpr.ids_pE e (n + 1)).mono (by omega) (by omega)
  | .call _ (.mk f _ _ args), n => by
    simp only [CStmt.pS, CStmt.cnt, CCall.cnt, PStmt.idsList, PStmt.ids, List.append_nil]
    exact Within.cons (by omega) ((CExpr.ids_pEList args (n + 1)).mono (by omega) (by omega))
  | .cmd _ els, n => by
    simp only [CStmt.pS, CStmt.cnt, PStmt.idsList, PStmt.ids, List.append_nil, ids_rearrangeEls]
    exact Within.cons (by omega) ((CCmdEl.ids_pList els (n + 1)).mono (by omega) (by omega))
  | .declare _ v x _, n => by
    simp only [CStmt.pS, CStmt.cnt, PStmt.idsList, PStmt.ids, List.append_nil]
    exact Within.cons (by omega) ((CValue.ids_pE x (n + 1)).mono (by omega) (by omega))
  | .jumpId _ dest, n => by simp [CStmt.pS, PStmt.idsList, PStmt.ids, PExpr.ids, Within.nil]
  | .jumpExpr _ e, n => by
    simpa [CStmt.pS, CStmt.cnt, PStmt.idsList, PStmt.ids] using CExpr.ids_pE e n
theorem CStmt.ids_pSList : ∀ (ss : List CStmt) (n : Nat),
    Within n (n + CStmt.cntList ss) (PStmt.idsList (CStmt.pSList ss n))
  | [], n => by simp [CStmt.pSList, PStmt.idsList, Within.nil]
  | s :: ss, n => by
    simp only [CStmt.pSList, CStmt.cntList, PStmt.idsList_append]
    exact ((CStmt.ids_pS s n).mono (Nat.le_refl _) (by omega)).append
      ((CStmt.ids_pSList ss (n + s.cnt)).mono (by omega) (by omega))
theorem CClauses.ids_pC : ∀ (r : CClauses) (n : Nat), Within n (n + r.cnt) (PClause.idsList (r.pC n))
  | .endif _, n => by simp [CClauses.pC, PClause.idsList, Within.nil]
  | .elseif _ c body rest, n => by
    simp only [CClauses.pC, CClauses.cnt, PClause.idsList, PClause.ids]
    refine Within.append (Within.cons (by omega) (Within.append ?_ ?_)) ?_
    · exact (CExpr.ids_pE c (n + 1)).mono (by omega) (by omega)
    · exact (CStmt.ids_pSList body _).mono (by omega) (by omega)
    · exact (CClauses.ids_pC rest _).mono (by omega) (by omega)
  | .else_ _ body, n => by
    simp only [CClauses.pC, CClauses.cnt, PClause.idsList, PClause.ids, PExpr.ids, List.nil_append, List.append_nil]
    exact Within.cons (by omega) ((CStmt.ids_pSList body (n + 1)).mono (by omega) (by omega))
theorem COpt.ids_pO : ∀ (o : COpt) (n : Nat), Within n (n + o.cnt) (o.pO n).ids
  | .plain _ l, n => by
    simp only [COpt.pO, COpt.cnt, POpt.ids, optIds, PStmt.idsList, List.append_nil]
    exact Within.cons (by omega) ((CLine.ids_pL l (n + 1)).mono (by omega) (by omega))
  | .withBody _ l ss, n => by
    simp only [COpt.pO, COpt.cnt, POpt.ids, optIds]
    exact Within.cons (by omega) (((CLine.ids_pL l (n + 1)).mono (by omega) (by omega)).append
      ((CStmt.ids_pSList ss _).mono (by omega) (by omega)))
theorem COpt.ids_pOList : ∀ (os : List COpt) (n : Nat), Within n (n + COpt.cntList os) (POpt.idsList (COpt.pOList os n))
  | [], n => by simp [COpt.pOList, POpt.idsList, Within.nil]
  | o :: os, n => by
    simp only [COpt.pOList, COpt.cntList, POpt.idsList]
    exact ((COpt.ids_pO o n).mono (Nat.le_refl _) (by omega)).append
      ((COpt.ids_pOList os (n + o.cnt)).mono (by omega) (by omega))
end


/-! ### erasing the identities gives the structural translation -/

theorem argsExprs_append : ∀ (a b : List (CmdArgs.Arg Expr)), argsExprs (a ++ b) = argsExprs a ++ argsExprs b
  | [], b => rfl
  | .word v :: a, b => by simp [argsExprs, argsExprs_append a b]
  | .expr e :: a, b => by simp [argsExprs, argsExprs_append a b]
  | .hole :: a, b => by simp [argsExprs, argsExprs_append a b]

theorem reify_split (acc : List Char) (X : List PCmdEl) :
    reifyCmdEls ((CmdArgs.split acc).map PCmdEl.ofArg ++ X)
      = (reifyCmdEls X).map (argsExprs (CmdArgs.split acc) ++ ·) := by
  unfold CmdArgs.split
  induction CmdArgs.fields acc with
  | nil => cases h : reifyCmdEls X <;> simp [argsExprs, h]
  | cons w ws ih =>
    simp only [List.map, List.cons_append, PCmdEl.ofArg, reifyCmdEls, PExpr.reify, argsExprs]
    rw [ih]
    cases h : reifyCmdEls X <;> simp [h]

/-- the command elements under construction and the translated ones, element by element -/
inductive CmdRel : List PCmdEl → List (CmdArgs.Elem Expr) → Prop
  | nil : CmdRel [] []
  | text (s : String) {a b} : s ≠ "" → CmdRel a b → CmdRel (.text s :: a) (.text s.toList :: b)
  | expr {p : PExpr} {e : Expr} {a b} : p.reify = some e → CmdRel a b → CmdRel (.expr p :: a) (.expr e :: b)

theorem reify_rearrangeAux : ∀ {L : List PCmdEl} {L' : List (CmdArgs.Elem Expr)}, CmdRel L L' → ∀ acc : List Char,
    reifyCmdEls ((CmdArgs.rearrangeAux (L.map PCmdEl.toElem) acc).map PCmdEl.ofArg)
      = some (argsExprs (CmdArgs.rearrangeAux L' acc))
  | _, _, .nil, acc => by
    simpa [CmdArgs.rearrangeAux, reifyCmdEls] using reify_split acc []
  | _, _, .text s hs h, acc => by
    have : s.toList.isEmpty = false := by
      have := toList_ne_nil hs
      cases hl : s.toList <;> simp_all
    simp only [List.map, PCmdEl.toElem, CmdArgs.rearrangeAux, this]
    exact reify_rearrangeAux h _
  | _, _, .expr (p := p) (e := e) hp h, acc => by
    simp only [List.map, PCmdEl.toElem, CmdArgs.rearrangeAux, List.map_append, PCmdEl.ofArg]
    rw [reify_split]
    simp only [reifyCmdEls, hp, reify_rearrangeAux h [], argsExprs_append, argsExprs]
    simp

theorem CCmdEl.cmdRel : ∀ (els : List CCmdEl) (n : Nat), CCmdEl.WFList els →
    CmdRel (CCmdEl.pList els n) (CCmdEl.trList els)
  | [], _, _ => .nil
  | .text s :: es, n, h => by
    simp only [CCmdEl.WFList, CCmdEl.WF] at h
    exact .text s h.1 (CCmdEl.cmdRel es n h.2)
  | .expr _ e :: es, n, h => by
    simp only [CCmdEl.WFList] at h
    exact .expr (CExpr.reify_pE e n) (CCmdEl.cmdRel es _ h.2)

theorem reifyList_append : ∀ (a b : List PStmt),
    PStmt.reifyList (a ++ b) = Translate.oapp (PStmt.reifyList a) (PStmt.reifyList b)
  | [], b => by cases h : PStmt.reifyList b <;> simp [PStmt.reifyList, Translate.oapp, h]
  | s :: a, b => by
    simp only [List.cons_append, PStmt.reifyList, reifyList_append a b]
    cases s.reify <;> cases PStmt.reifyList a <;> cases PStmt.reifyList b <;> simp [Translate.oapp]

mutual
theorem CStmt.reify_pS : ∀ (s : CStmt) (n : Nat), s.WF → PStmt.reifyList (s.pS n) = some s.tr
  | .line l, n, h => by
    simp only [CStmt.WF] at h
    simp [CStmt.pS, PStmt.reifyList, PStmt.reify, CLine.reify_pL l h, CStmt.tr]
  | .ifs _ c body rest, n, h => by
    simp only [CStmt.WF] at h
    simp [CStmt.pS, PStmt.reifyList, PStmt.reify, PClause.reifyList, CExpr.reify_pE, CStmt.reify_pSList body _ h.2.1,
      CClauses.reify_pC rest _ h.2.2, CStmt.tr]
  | .opts os _, n, h => by
    simp only [CStmt.WF] at h
    simp [CStmt.pS, PStmt.reifyList, PStmt.reify, COpt.reify_pOList os n h.2, CStmt.tr]
  | .block _ ss, n, h => by
    simp only [CStmt.WF] at h
    simpa [CStmt.pS, CStmt.tr] using CStmt.reify_pSList ss n h
  | .set _ v t e, n, h => by simp [CStmt.pS, PStmt.reifyList, PStmt.reify, CExpr.reify_pE, CStmt.tr]
  | .call _ (.mk f _ _ args), n, h => by
    simp [CStmt.pS, PStmt.reifyList, PStmt.reify, CExpr.reify_pEList, CStmt.tr]
  | .cmd _ els, n, h => by
    simp only [CStmt.WF] at h
    have := reify_rearrangeAux (CCmdEl.cmdRel els (n + 1) h) []
    simp [CStmt.pS, PStmt.reifyList, PStmt.reify, rearrangeEls, CmdArgs.rearrange, this, CStmt.tr]
  | .declare _ v x _, n, h => by simp [CStmt.pS, PStmt.reifyList, PStmt.reify, CValue.reify_pE, CStmt.tr]
  | .jumpId _ dest, n, _ => by simp [CStmt.pS, PStmt.reifyList, PStmt.reify, PExpr.reify, CStmt.tr]
  | .jumpExpr _ e, n, h => by simp [CStmt.pS, PStmt.reifyList, PStmt.reify, CExpr.reify_pE, CStmt.tr]
theorem CStmt.reify_pSList : ∀ (ss : List CStmt) (n : Nat), CStmt.WFList ss →
    PStmt.reifyList (CStmt.pSList ss n) = some (CStmt.trList ss)
  | [], n, _ => by simp [CStmt.pSList, PStmt.reifyList, CStmt.trList]
  | s :: ss, n, h => by
    simp only [CStmt.WFList] at h
    simp only [CStmt.pSList, CStmt.trList]
    rw [reifyList_append, CStmt.reify_pS s n h.1, CStmt.reify_pSList ss _ h.2]
    rfl
theorem CClauses.reify_pC : ∀ (r : CClauses) (n : Nat), r.WF → PClause.reifyList (r.pC n) = some r.tr
  | .endif _, n, _ => by simp [CClauses.pC, PClause.reifyList, CClauses.tr]
  | .elseif _ c body rest, n, h => by
    simp only [CClauses.WF] at h
    simp [CClauses.pC, PClause.reifyList, CExpr.reify_pE, CStmt.reify_pSList body _ h.2.1,
      CClauses.reify_pC rest _ h.2.2, CClauses.tr]
  | .else_ _ body, n, h => by
    simp only [CClauses.WF] at h
    simp [CClauses.pC, PClause.reifyList, PExpr.reify, CStmt.reify_pSList body _ h, CClauses.tr]
theorem COpt.reify_pOList : ∀ (os : List COpt) (n : Nat), COpt.WFList os →
    POpt.reifyList (COpt.pOList os n) = some (COpt.trList os)
  | [], n, _ => by simp [COpt.pOList, POpt.reifyList, COpt.trList]
  | .plain _ l :: os, n, h => by
    simp only [COpt.WFList, COpt.WF] at h
    simp [COpt.pOList, COpt.pO, POpt.reifyList, reifyOptLine, CLine.reify_pL l h.1, PStmt.reifyList,
      COpt.reify_pOList os _ h.2, COpt.trList]
  | .withBody _ l ss :: os, n, h => by
    simp only [COpt.WFList, COpt.WF] at h
    simp [COpt.pOList, COpt.pO, POpt.reifyList, reifyOptLine, CLine.reify_pL l h.1.1,
      CStmt.reify_pSList ss _ h.1.2, COpt.reify_pOList os _ h.2, COpt.trList]
end


end Ysgo.Listener
