import Ysgo.Model.NextToken
import Ysgo.Lemmas.Queue
import Ysgo.Lemmas.Stack
import Ysgo.Lemmas.IndentLit
/-!
# `NextToken` call by call: the invariant and what one call does

`Inv s q st bs`: the state `s` of the lexer is a well-shaped ring buffer holding exactly the tokens `q` (oldest
first, none of them `nil`), the slice `indents` is the list `st` reversed (`st` has the top first, as in
`Indent.lean`), `hitEOF` is `false` and the base lexer still has `bs` to deliver.

From such a state one `NextToken` call neither panics nor returns `nil`: `checkNextToken` appends the non-empty
list `(stepSpec st bs).1` to the queue, and the call returns the head of the result (`nextToken_spec`).
-/
namespace Ysgo.NextToken
open Ysgo.Container
open Ysgo.Indent (LineInfo)

structure Inv (s : State) (q : List Tok) (st : List Nat) (bs : List BaseTok) : Prop where
  shape : Queue.Shape s.pending
  abs : Queue.abs s.pending = q.map some
  stack : s.indents = st.reverse
  hit : s.hitEOF = false
  base : s.base = bs

theorem inv_init (bs : List BaseTok) : Inv (init bs) [] [] bs :=
  ⟨Queue.empty_shape, by simp [init, Queue.abs_empty], rfl, rfl, rfl⟩

theorem inv_enqueue {s q st bs} (h : Inv s q st bs) (t : Tok) : Inv (enqueue s t) (q ++ [t]) st bs := by
  obtain ⟨ha, hs⟩ := Queue.enqueue_abs s.pending (some t) h.shape
  exact ⟨hs, by simp [enqueue, ha, h.abs], h.stack, h.hit, h.base⟩

theorem inv_setIndents {s q st bs} (h : Inv s q st bs) (st' : List Nat) :
    Inv { s with indents := st'.reverse } q st' bs :=
  ⟨h.shape, h.abs, rfl, h.hit, h.base⟩

theorem inv_setBase {s q st bs} (h : Inv s q st bs) (bs' : List BaseTok) :
    Inv { s with base := bs' } q st bs' :=
  ⟨h.shape, h.abs, h.stack, h.hit, rfl⟩

theorem peekOr0_reverse (st : List Nat) : peekOr0 (st.reverse : Stack.Stack Nat) = .ok (st.headD 0) := by
  have := Indent.peekOr0_reverse st
  simpa [peekOr0, Indent.peekOr0] using this

theorem size_reverse (st : List Nat) : Stack.size (st.reverse : Stack.Stack Nat) = st.length := by
  simp [Stack.size]

/-! ## the two loops -/

theorem dedentLoop_spec (cur : Nat) : ∀ (st : List Nat) (fuel : Nat) (s : State) (q : List Tok) (bs : List BaseTok),
    Inv s q st bs → st.length + 1 ≤ fuel →
    ∃ s', dedentLoop fuel cur (st.headD 0) s = .ok s' ∧
      Inv s' (q ++ (popWhile cur st).2) (popWhile cur st).1 bs := by
  intro st
  induction st with
  | nil =>
    intro fuel s q bs h hf
    cases fuel with
    | zero => omega
    | succ fuel => exact ⟨s, by simp [dedentLoop], by simpa [popWhile] using h⟩
  | cons top st ih =>
    intro fuel s q bs h hf
    cases fuel with
    | zero => omega
    | succ fuel =>
      simp only [List.length_cons] at hf
      by_cases hlt : cur < top
      · have h1 : Inv (insertToken { s with indents := st.reverse } (.dedent top)) (q ++ [.dedent top]) st bs :=
          inv_enqueue (inv_setIndents h st) _
        obtain ⟨s', e, hi⟩ := ih fuel _ _ bs h1 (by omega)
        refine ⟨s', ?_, ?_⟩
        · have hs : s.indents = (top :: st).reverse := h.stack
          have hp : peekOr0 (insertToken { s with indents := st.reverse } (.dedent top)).indents
              = .ok (st.headD 0) := by
            simp only [insertToken, enqueue]; exact peekOr0_reverse st
          simp only [dedentLoop, List.headD_cons, hlt, ↓reduceIte, hs, Indent.pop_reverse_cons, hp]
          exact e
        · simpa [popWhile, hlt, List.append_assoc] using hi
      · exact ⟨s, by simp [dedentLoop, hlt], by simpa [popWhile, hlt] using h⟩

theorem eofLoop_spec : ∀ (st : List Nat) (fuel : Nat) (s : State) (q : List Tok) (bs : List BaseTok),
    Inv s q st bs → st.length + 1 ≤ fuel →
    ∃ s', eofLoop fuel s = .ok s' ∧ Inv s' (q ++ st.map .dedent) [] bs := by
  intro st
  induction st with
  | nil =>
    intro fuel s q bs h hf
    cases fuel with
    | zero => omega
    | succ fuel =>
      have hs : s.indents = ([] : List Nat) := by simpa using h.stack
      exact ⟨s, by simp [eofLoop, hs, Stack.size], by simpa using h⟩
  | cons top st ih =>
    intro fuel s q bs h hf
    cases fuel with
    | zero => omega
    | succ fuel =>
      simp only [List.length_cons] at hf
      have h1 : Inv (insertToken { s with indents := st.reverse } (.dedent top)) (q ++ [.dedent top]) st bs :=
        inv_enqueue (inv_setIndents h st) _
      obtain ⟨s', e, hi⟩ := ih fuel _ _ bs h1 (by omega)
      refine ⟨s', ?_, by simpa [List.append_assoc] using hi⟩
      have hs : s.indents = (top :: st).reverse := h.stack
      have hsz : Stack.size ((top :: st).reverse : Stack.Stack Nat) > 0 := by
        rw [size_reverse]; simp
      simp only [eofLoop, hs, hsz, ↓reduceIte, Indent.pop_reverse_cons]
      exact e

/-! ## the handlers -/

theorem handleNewLineToken_spec {s q st bs} (h : Inv s q st bs) (li : LineInfo) :
    ∃ s', handleNewLineToken s li = .ok s' ∧
      Inv s' (q ++ (newlineToks st li).2) (newlineToks st li).1 bs := by
  have h1 : Inv (enqueue s (.nl li)) (q ++ [.nl li]) st bs := inv_enqueue h _
  have hst : (enqueue s (.nl li)).indents = st.reverse := h1.stack
  unfold handleNewLineToken newlineToks
  by_cases hn : li.noise = true
  · exact ⟨enqueue s (.nl li), by simp [hn], by simpa [hn] using h1⟩
  · simp only [hn, Bool.false_eq_true, ↓reduceIte, hst, peekOr0_reverse]
    by_cases hgt : li.width > st.headD 0
    · simp only [hgt, ↓reduceIte]
      refine ⟨_, rfl, ?_⟩
      have h2 := inv_enqueue (inv_setIndents h1 (li.width :: st)) (.indent li.width)
      simpa [insertToken, Stack.push, hst, List.append_assoc] using h2
    · simp only [hgt, ↓reduceIte]
      by_cases hlt : li.width < st.headD 0
      · simp only [hlt, ↓reduceIte]
        obtain ⟨s', e, hi⟩ := dedentLoop_spec li.width st (Stack.size (st.reverse : Stack.Stack Nat) + 1) _ _ bs h1
          (by rw [size_reverse]; omega)
        exact ⟨s', e, by simpa [List.append_assoc] using hi⟩
      · simp only [hlt, ↓reduceIte]
        exact ⟨_, rfl, h1⟩

theorem handleEndOfFileToken_spec {s q st bs} (h : Inv s q st bs) :
    ∃ s', handleEndOfFileToken s = .ok s' ∧ Inv s' (q ++ eofToks st) [] bs := by
  have hs : s.indents = st.reverse := h.stack
  obtain ⟨s1, e, hi⟩ := eofLoop_spec st (Stack.size s.indents + 1) s q bs h (by rw [hs, size_reverse]; omega)
  refine ⟨enqueue s1 .eof, by simp [handleEndOfFileToken, e], ?_⟩
  have := inv_enqueue hi .eof
  simpa [eofToks, List.append_assoc] using this

theorem checkNextToken_spec {s q st bs} (h : Inv s q st bs) :
    ∃ s', checkNextToken s = .ok s' ∧
      Inv s' (q ++ (stepSpec st bs).1) (stepSpec st bs).2.1 (stepSpec st bs).2.2 := by
  have hb : s.base = bs := h.base
  unfold checkNextToken
  rw [hb]
  match bs with
  | [] =>
    simp only [baseNext, stepSpec]
    exact handleEndOfFileToken_spec (inv_setBase h [])
  | .eof :: bs' =>
    simp only [baseNext, stepSpec]
    exact handleEndOfFileToken_spec (inv_setBase h bs')
  | .other p :: bs' =>
    simp only [baseNext, stepSpec]
    exact ⟨_, rfl, inv_enqueue (inv_setBase h bs') _⟩
  | .nl li :: bs' =>
    simp only [baseNext, stepSpec]
    exact handleNewLineToken_spec (inv_setBase h bs') li

theorem newlineToks_ne_nil (st : List Nat) (li : LineInfo) : (newlineToks st li).2 ≠ [] := by
  unfold newlineToks
  by_cases hn : li.noise = true
  · simp only [hn, ↓reduceIte]; simp
  · simp only [hn, Bool.false_eq_true, ↓reduceIte]
    by_cases hgt : li.width > st.headD 0
    · simp only [hgt, ↓reduceIte]; simp
    · simp only [hgt, ↓reduceIte]
      by_cases hlt : li.width < st.headD 0
      · simp only [hlt, ↓reduceIte]; simp
      · simp only [hlt, ↓reduceIte]; simp

theorem stepSpec_ne_nil (st : List Nat) (bs : List BaseTok) : (stepSpec st bs).1 ≠ [] := by
  match bs with
  | [] => simp [stepSpec, eofToks]
  | .eof :: _ => simp [stepSpec, eofToks]
  | .other _ :: _ => simp [stepSpec]
  | .nl li :: _ => simpa [stepSpec] using newlineToks_ne_nil st li

/-! ## delivery -/

theorem size_pending {s q st bs} (h : Inv s q st bs) : Queue.size s.pending = q.length := by
  rw [Queue.size_eq _ h.shape, h.abs, List.length_map]

theorem deliver_spec {s t r st bs} (h : Inv s (t :: r) st bs) :
    ∃ s', deliver s = .ok (some t, s') ∧ Inv s' r st bs := by
  have hd := Queue.dequeue_abs s.pending h.shape
  unfold deliver
  cases hq : Queue.dequeue s.pending with
  | panic =>
    rw [hq] at hd
    simp only at hd
    rw [h.abs] at hd
    simp at hd
  | ok p =>
    obtain ⟨x, q'⟩ := p
    rw [hq] at hd
    obtain ⟨ha, hs⟩ := hd
    rw [h.abs, List.map_cons, List.cons.injEq] at ha
    obtain ⟨hx, hr⟩ := ha
    subst hx
    exact ⟨_, rfl, ⟨hs, hr.symm, h.stack, h.hit, h.base⟩⟩

/-- one `NextToken` call from a state satisfying the invariant: no panic, no `nil`; the token returned is the
oldest of the queue extended by what `checkNextToken` enqueues -/
theorem nextToken_spec {s q st bs t r} (h : Inv s q st bs) (e : q ++ (stepSpec st bs).1 = t :: r) :
    ∃ s', nextToken s = .ok (some t, s') ∧ Inv s' r (stepSpec st bs).2.1 (stepSpec st bs).2.2 := by
  obtain ⟨s1, e1, h1⟩ := checkNextToken_spec h
  rw [e] at h1
  obtain ⟨s2, e2, h2⟩ := deliver_spec h1
  refine ⟨s2, ?_, h2⟩
  have hsz : Queue.size s1.pending > 0 := by rw [size_pending h1]; simp
  simp only [nextToken, h.hit, Bool.false_and, Bool.false_eq_true, ↓reduceIte, e1, hsz, e2]

theorem nextToken_total {s q st bs} (h : Inv s q st bs) :
    ∃ t s' r, nextToken s = .ok (some t, s') ∧ q ++ (stepSpec st bs).1 = t :: r ∧
      Inv s' r (stepSpec st bs).2.1 (stepSpec st bs).2.2 := by
  cases e : q ++ (stepSpec st bs).1 with
  | nil =>
    have := stepSpec_ne_nil st bs
    simp at e
    exact absurd e.2 this
  | cons t r =>
    obtain ⟨s', e1, h1⟩ := nextToken_spec h e
    exact ⟨t, s', r, e1, rfl, h1⟩

end Ysgo.NextToken
