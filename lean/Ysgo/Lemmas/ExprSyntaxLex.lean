import Ysgo.Model.ExprSyntax
/-!
# The ExpressionMode scanner on printed tokens

`lexOne_spell`: a well-formed token written in any of its spellings, followed by a character that cannot extend it,
is read back as that token. `lexTo_text`: hence a whole token list written with single spaces lexes back.
-/
namespace Ysgo
namespace ExprSyntax

/-! ## takeWhile / dropWhile across a boundary -/

/-- `rest` is empty or starts with a character on which `p` fails -/
def StopsAt (p : Char → Bool) (rest : List Char) : Prop := ∀ c r, rest = c :: r → p c = false

theorem takeWhile_append_stop {p : Char → Bool} : ∀ (a rest : List Char), a.all p = true → StopsAt p rest →
    (a ++ rest).takeWhile p = a
  | [], rest, _, hr => by
    cases rest with
    | nil => rfl
    | cons c r => simp [hr c r rfl]
  | x :: a, rest, ha, hr => by
    simp only [List.all_cons, Bool.and_eq_true] at ha
    simp [ha.1, takeWhile_append_stop a rest ha.2 hr]

theorem dropWhile_append_stop {p : Char → Bool} : ∀ (a rest : List Char), a.all p = true → StopsAt p rest →
    (a ++ rest).dropWhile p = rest
  | [], rest, _, hr => by
    cases rest with
    | nil => rfl
    | cons c r => simp [hr c r rfl]
  | x :: a, rest, ha, hr => by
    simp only [List.all_cons, Bool.and_eq_true] at ha
    simp [ha.1, dropWhile_append_stop a rest ha.2 hr]

/-! ## character classes -/

theorem isIdHead_not_digit (c : Char) (h : isIdHead c = true) : isDigit c = false := by
  cases hd : isDigit c with
  | false => rfl
  | true =>
    exfalso
    simp only [isDigit, Bool.and_eq_true, decide_eq_true_eq] at hd
    simp only [isIdHead, inRanges, idHeadRanges, List.any_cons, List.any_nil, Bool.or_false, Bool.or_eq_true,
      Bool.and_eq_true, decide_eq_true_eq] at h
    omega

theorem isIdHead_isIdChar (c : Char) (h : isIdHead c = true) : isIdChar c = true := by simp [isIdChar, h]
theorem isDigit_isIdChar (c : Char) (h : isDigit c = true) : isIdChar c = true := by simp [isIdChar, h]

/-! ## one token -/

theorem lexOne_idHead (c : Char) (r : List Char) (h : isIdHead c = true) :
    lexOne (c :: r) = some (.tok (wordTok (c :: r.takeWhile isIdChar)), r.dropWhile isIdChar) := by
  rw [lexOne]
  · simp [h, isIdHead_not_digit c h]
  all_goals (intros; subst_vars; revert h; decide)

theorem lexOne_digit (c : Char) (r : List Char) (h : isDigit c = true) :
    lexOne (c :: r) = some (.tok (.num (scanNumber (c :: r)).1), (scanNumber (c :: r)).2) := by
  rw [lexOne]
  · simp [h]
  all_goals (intros; subst_vars; revert h; decide)

theorem okNext_word {h : Char} {t : Str} {c : Char} (hh : isIdHead h = true ∨ h = '$' ∨ isDigit h = true)
    (hok : okNext (h :: t) c = true) : isIdChar c = false ∧ c ≠ '.' := by
  have : (isIdHead h || h = '$' || isDigit h) = true := by
    rcases hh with hh | hh | hh <;> simp [hh]
  simp only [okNext, this, ↓reduceIte, Bool.and_eq_true, Bool.not_eq_true', bne_iff_ne, ne_eq] at hok
  exact hok

/-- a maximal identifier-shaped word followed by something that cannot extend it -/
theorem lexOne_word (w : Str) (hw : isIdent w = true) (rest : List Char)
    (hok : ∀ c r, rest = c :: r → okNext w c = true) :
    lexOne (w ++ rest) = some (.tok (wordTok w), rest) := by
  cases w with
  | nil => simp [isIdent] at hw
  | cons c r =>
    simp only [isIdent, Bool.and_eq_true] at hw
    have hstop : StopsAt isIdChar rest := fun x y e => (okNext_word (Or.inl hw.1) (hok x y e)).1
    rw [List.cons_append, lexOne_idHead c _ hw.1, takeWhile_append_stop r rest hw.2 hstop,
      dropWhile_append_stop r rest hw.2 hstop]

theorem scanStr_body : ∀ (raw rest : List Char), isStrBody raw = true →
    scanStr (raw ++ '"' :: rest) = some (raw, rest)
  | [], rest, _ => by simp [scanStr]
  | ['\\'], rest, h => by simp [isStrBody] at h
  | '\\' :: c :: r, rest, h => by
    simp only [isStrBody, Bool.and_eq_true, Bool.or_eq_true, decide_eq_true_eq] at h
    have ih := scanStr_body r rest h.2
    simp only [List.cons_append, scanStr, h.1, ↓reduceIte, ih]
  | c :: r, rest, h => by
    by_cases hb : c = '\\'
    · subst hb
      cases r with
      | nil => simp [isStrBody] at h
      | cons c' r' =>
        simp only [isStrBody, Bool.and_eq_true, Bool.or_eq_true, decide_eq_true_eq] at h
        have ih := scanStr_body r' rest h.2
        simp only [List.cons_append, scanStr, h.1, ↓reduceIte, ih]
    · have h' : (c ≠ '"' ∧ c ≠ '\n' ∧ c ≠ '\r') ∧ isStrBody r = true := by
        rw [isStrBody] at h
        · simp only [Bool.and_eq_true, Bool.not_eq_true', Bool.or_eq_false_iff, decide_eq_false_iff_not] at h
          exact ⟨⟨h.1.1.1.1, h.1.1.2, h.1.2⟩, h.2⟩
        · intro c' r' e _; exact hb e
      have ih := scanStr_body r rest h'.2
      rw [List.cons_append, scanStr]
      · simp [hb, h'.1.2.1, h'.1.2.2, ih]
      · intro e; exact h'.1.1 e
      · intro c' r' e _; exact hb e

theorem all_takeWhile (p : Char → Bool) : ∀ l : List Char, (l.takeWhile p).all p = true
  | [] => rfl
  | x :: l => by
    by_cases hx : p x = true
    · simp [List.takeWhile, hx, all_takeWhile p l]
    · simp [List.takeWhile, hx]

/-- the two shapes of a NUMBER literal -/
theorem isNumberText_cases (t : Str) (h : isNumberText t = true) :
    ∃ ip, ip ≠ [] ∧ ip.all isDigit = true ∧
      (t = ip ∨ ∃ fp, fp ≠ [] ∧ fp.all isDigit = true ∧ t = ip ++ '.' :: fp) := by
  have hsplit : t.takeWhile isDigit ++ t.dropWhile isDigit = t := List.takeWhile_append_dropWhile
  refine ⟨t.takeWhile isDigit, ?_, all_takeWhile _ _, ?_⟩
  · unfold isNumberText at h
    intro he
    split at h <;> simp_all
  · unfold isNumberText at h
    split at h
    · rename_i heq
      left
      rw [heq, List.append_nil] at hsplit
      exact hsplit.symm
    · rename_i fp heq
      right
      simp only [Bool.and_eq_true, Bool.not_eq_true', List.isEmpty_eq_false_iff] at h
      exact ⟨fp, h.1.2, h.2, by rw [← heq]; exact hsplit.symm⟩
    · simp at h

theorem scanNumber_text (t rest : List Char) (ht : isNumberText t = true)
    (hstop : ∀ c r, rest = c :: r → isDigit c = false ∧ c ≠ '.') :
    scanNumber (t ++ rest) = (t, rest) := by
  obtain ⟨ip, hne, hall, hcase⟩ := isNumberText_cases t ht
  have hstopD : StopsAt isDigit rest := fun c r e => (hstop c r e).1
  rcases hcase with rfl | ⟨fp, hfne, hfall, rfl⟩
  · unfold scanNumber
    simp only [takeWhile_append_stop _ rest hall hstopD, dropWhile_append_stop _ rest hall hstopD]
    split
    · exact absurd rfl ((hstop _ _ rfl).2)
    · rfl
  · unfold scanNumber
    have hdot : StopsAt isDigit ('.' :: fp ++ rest) := fun c r e => by
      simp only [List.cons_append, List.cons.injEq] at e
      rw [← e.1]; decide
    have h1 : (ip ++ '.' :: fp ++ rest).takeWhile isDigit = ip := by
      rw [List.append_assoc]; exact takeWhile_append_stop _ _ hall hdot
    have h2 : (ip ++ '.' :: fp ++ rest).dropWhile isDigit = '.' :: fp ++ rest := by
      rw [List.append_assoc]; exact dropWhile_append_stop _ _ hall hdot
    simp only [h1, h2]
    cases fp with
    | nil => exact absurd rfl hfne
    | cons d fp' =>
      have hd : isDigit d = true := by simp only [List.all_cons, Bool.and_eq_true] at hfall; exact hfall.1
      simp only [List.cons_append, hd, ↓reduceIte]
      have h3 : (d :: (fp' ++ rest)).takeWhile isDigit = d :: fp' := by
        rw [← List.cons_append]; exact takeWhile_append_stop _ _ hfall hstopD
      have h4 : (d :: (fp' ++ rest)).dropWhile isDigit = rest := by
        rw [← List.cons_append]; exact dropWhile_append_stop _ _ hfall hstopD
      rw [h3, h4]

theorem isNumberText_head (t : Str) (ht : isNumberText t = true) : ∃ d r, t = d :: r ∧ isDigit d = true := by
  obtain ⟨ip, hne, hall, hcase⟩ := isNumberText_cases t ht
  cases ip with
  | nil => exact absurd rfl hne
  | cons d ip' =>
    simp only [List.all_cons, Bool.and_eq_true] at hall
    rcases hcase with rfl | ⟨fp, _, _, rfl⟩
    · exact ⟨d, ip', rfl, hall.1⟩
    · exact ⟨d, ip' ++ '.' :: fp, rfl, hall.1⟩

theorem okNext_sym (h c : Char) (h1 : (isIdHead h || h = '$' || isDigit h) = false)
    (h2 : (h = '<' || h = '>' || h = '=' || h = '!' || h = '+' || h = '-' || h = '*' || h = '/' || h = '%') = true)
    (hok : okNext [h] c = true) : c ≠ '=' ∧ c ≠ '>' := by
  simp only [okNext, h1, h2, List.isEmpty_nil, Bool.and_self, ↓reduceIte, Bool.false_eq_true, Bool.and_eq_true,
    bne_iff_ne, ne_eq] at hok
  exact hok

theorem lexOne_kw (w : Str) (t : Tok) (hw : isIdent w = true) (ht : wordTok w = t) (rest : List Char)
    (hok : ∀ c r, rest = c :: r → okNext w c = true) : lexOne (w ++ rest) = some (.tok t, rest) := by
  rw [lexOne_word w hw rest hok, ht]

/-- a well-formed token in any of its spellings, followed by nothing or by a character that may follow it,
    is read back as that token -/
theorem lexOne_spell (t : Tok) (hwf : t.wf = true) (s : Str) (hs : s ∈ spell t) (rest : List Char)
    (hok : ∀ c r, rest = c :: r → okNext s c = true) : lexOne (s ++ rest) = some (.tok t, rest) := by
  cases t with
  | num text =>
    simp only [spell, List.mem_singleton] at hs
    subst hs
    simp only [Tok.wf] at hwf
    obtain ⟨d, r, rfl, hd⟩ := isNumberText_head s hwf
    have hstop : ∀ c r', rest = c :: r' → isDigit c = false ∧ c ≠ '.' := fun c r' e => by
      have := okNext_word (Or.inr (Or.inr hd)) (hok c r' e)
      refine ⟨?_, this.2⟩
      cases hdc : isDigit c with
      | false => rfl
      | true => rw [isDigit_isIdChar c hdc] at this; exact absurd this.1 (by simp)
    rw [List.cons_append, lexOne_digit d _ hd, ← List.cons_append, scanNumber_text _ rest hwf hstop]
  | str raw =>
    simp only [spell, List.mem_singleton] at hs
    subst hs
    simp only [Tok.wf] at hwf
    simp [lexOne, scanStr_body raw rest hwf]
  | var n =>
    simp only [spell, List.mem_singleton] at hs
    subst hs
    simp only [Tok.wf] at hwf
    cases n with
    | nil => simp [isIdent] at hwf
    | cons c r =>
      simp only [isIdent, Bool.and_eq_true] at hwf
      have hstop : StopsAt isIdChar rest := fun x y e => (okNext_word (Or.inr (Or.inl rfl)) (hok x y e)).1
      simp only [List.cons_append, lexOne, hwf.1, ↓reduceIte, takeWhile_append_stop r rest hwf.2 hstop,
        dropWhile_append_stop r rest hwf.2 hstop]
  | fid n =>
    simp only [spell, List.mem_singleton] at hs
    subst hs
    simp only [Tok.wf, Bool.and_eq_true, Option.isNone_iff_eq_none] at hwf
    exact lexOne_kw _ _ hwf.1 (by simp [wordTok, hwf.2]) rest hok
  | kwTrue => simp only [spell, List.mem_singleton] at hs; subst hs; exact lexOne_kw _ _ (by decide) (by decide) rest hok
  | kwFalse => simp only [spell, List.mem_singleton] at hs; subst hs; exact lexOne_kw _ _ (by decide) (by decide) rest hok
  | kwNull => simp only [spell, List.mem_singleton] at hs; subst hs; exact lexOne_kw _ _ (by decide) (by decide) rest hok
  | kwAs => simp only [spell, List.mem_singleton] at hs; subst hs; exact lexOne_kw _ _ (by decide) (by decide) rest hok
  | lp => simp only [spell, List.mem_singleton] at hs; subst hs; simp [lexOne]
  | rp => simp only [spell, List.mem_singleton] at hs; subst hs; simp [lexOne]
  | comma => simp only [spell, List.mem_singleton] at hs; subst hs; simp [lexOne]
  | dot => simp only [spell, List.mem_singleton] at hs; subst hs; simp [lexOne]
  | addEq => simp only [spell, List.mem_singleton] at hs; subst hs; simp [lexOne]
  | subEq => simp only [spell, List.mem_singleton] at hs; subst hs; simp [lexOne]
  | mulEq => simp only [spell, List.mem_singleton] at hs; subst hs; simp [lexOne]
  | divEq => simp only [spell, List.mem_singleton] at hs; subst hs; simp [lexOne]
  | modEq => simp only [spell, List.mem_singleton] at hs; subst hs; simp [lexOne]
  | not =>
    simp only [spell, List.mem_cons, List.not_mem_nil, or_false] at hs
    rcases hs with rfl | rfl
    · exact lexOne_kw _ _ (by decide) (by decide) rest hok
    · cases rest with
      | nil => simp [lexOne]
      | cons c r =>
        have hc := okNext_sym '!' c (by decide) (by decide) (hok c r rfl)
        show lexOne ('!' :: c :: r) = _
        rw [lexOne]
        all_goals (intro r' e; cases e; first | exact hc.1 rfl | exact hc.2 rfl)
  | assign =>
    simp only [spell, List.mem_cons, List.not_mem_nil, or_false] at hs
    rcases hs with rfl | rfl
    · cases rest with
      | nil => simp [lexOne]
      | cons c r =>
        have hc := okNext_sym '=' c (by decide) (by decide) (hok c r rfl)
        show lexOne ('=' :: c :: r) = _
        rw [lexOne]
        all_goals (intro r' e; cases e; first | exact hc.1 rfl | exact hc.2 rfl)
    · exact lexOne_kw _ _ (by decide) (by decide) rest hok
  | op o =>
    cases o with
    | mul =>
      simp only [spell, BinOp.spell, List.mem_singleton] at hs; subst hs
      cases rest with
      | nil => simp [lexOne]
      | cons c r =>
        have hc := okNext_sym '*' c (by decide) (by decide) (hok c r rfl)
        show lexOne ('*' :: c :: r) = _
        rw [lexOne]
        all_goals (intro r' e; cases e; first | exact hc.1 rfl | exact hc.2 rfl)
    | div =>
      simp only [spell, BinOp.spell, List.mem_singleton] at hs; subst hs
      cases rest with
      | nil => simp [lexOne]
      | cons c r =>
        have hc := okNext_sym '/' c (by decide) (by decide) (hok c r rfl)
        show lexOne ('/' :: c :: r) = _
        rw [lexOne]
        all_goals (intro r' e; cases e; first | exact hc.1 rfl | exact hc.2 rfl)
    | mod =>
      simp only [spell, BinOp.spell, List.mem_singleton] at hs; subst hs
      cases rest with
      | nil => simp [lexOne]
      | cons c r =>
        have hc := okNext_sym '%' c (by decide) (by decide) (hok c r rfl)
        show lexOne ('%' :: c :: r) = _
        rw [lexOne]
        all_goals (intro r' e; cases e; first | exact hc.1 rfl | exact hc.2 rfl)
    | add =>
      simp only [spell, BinOp.spell, List.mem_singleton] at hs; subst hs
      cases rest with
      | nil => simp [lexOne]
      | cons c r =>
        have hc := okNext_sym '+' c (by decide) (by decide) (hok c r rfl)
        show lexOne ('+' :: c :: r) = _
        rw [lexOne]
        all_goals (intro r' e; cases e; first | exact hc.1 rfl | exact hc.2 rfl)
    | sub =>
      simp only [spell, BinOp.spell, List.mem_singleton] at hs; subst hs
      cases rest with
      | nil => simp [lexOne]
      | cons c r =>
        have hc := okNext_sym '-' c (by decide) (by decide) (hok c r rfl)
        show lexOne ('-' :: c :: r) = _
        rw [lexOne]
        all_goals (intro r' e; cases e; first | exact hc.1 rfl | exact hc.2 rfl)
    | le =>
      simp only [spell, BinOp.spell, List.mem_cons, List.not_mem_nil, or_false] at hs
      rcases hs with rfl | rfl
      · simp [lexOne]
      · exact lexOne_kw _ _ (by decide) (by decide) rest hok
    | ge =>
      simp only [spell, BinOp.spell, List.mem_cons, List.not_mem_nil, or_false] at hs
      rcases hs with rfl | rfl
      · simp [lexOne]
      · exact lexOne_kw _ _ (by decide) (by decide) rest hok
    | lt =>
      simp only [spell, BinOp.spell, List.mem_cons, List.not_mem_nil, or_false] at hs
      rcases hs with rfl | rfl
      · cases rest with
        | nil => simp [lexOne]
        | cons c r =>
          have hc := okNext_sym '<' c (by decide) (by decide) (hok c r rfl)
          show lexOne ('<' :: c :: r) = _
          rw [lexOne]
          all_goals (intro r' e; cases e; first | exact hc.1 rfl | exact hc.2 rfl)
      · exact lexOne_kw _ _ (by decide) (by decide) rest hok
    | gt =>
      simp only [spell, BinOp.spell, List.mem_cons, List.not_mem_nil, or_false] at hs
      rcases hs with rfl | rfl
      · cases rest with
        | nil => simp [lexOne]
        | cons c r =>
          have hc := okNext_sym '>' c (by decide) (by decide) (hok c r rfl)
          show lexOne ('>' :: c :: r) = _
          rw [lexOne]
          all_goals (intro r' e; cases e; first | exact hc.1 rfl | exact hc.2 rfl)
      · exact lexOne_kw _ _ (by decide) (by decide) rest hok
    | eq =>
      simp only [spell, BinOp.spell, List.mem_cons, List.not_mem_nil, or_false] at hs
      rcases hs with rfl | rfl | rfl
      · simp [lexOne]
      · exact lexOne_kw _ _ (by decide) (by decide) rest hok
      · exact lexOne_kw _ _ (by decide) (by decide) rest hok
    | ne =>
      simp only [spell, BinOp.spell, List.mem_cons, List.not_mem_nil, or_false] at hs
      rcases hs with rfl | rfl
      · simp [lexOne]
      · exact lexOne_kw _ _ (by decide) (by decide) rest hok
    | and =>
      simp only [spell, BinOp.spell, List.mem_cons, List.not_mem_nil, or_false] at hs
      rcases hs with rfl | rfl
      · exact lexOne_kw _ _ (by decide) (by decide) rest hok
      · simp [lexOne]
    | or =>
      simp only [spell, BinOp.spell, List.mem_cons, List.not_mem_nil, or_false] at hs
      rcases hs with rfl | rfl
      · exact lexOne_kw _ _ (by decide) (by decide) rest hok
      · simp [lexOne]
    | xor =>
      simp only [spell, BinOp.spell, List.mem_cons, List.not_mem_nil, or_false] at hs
      rcases hs with rfl | rfl
      · exact lexOne_kw _ _ (by decide) (by decide) rest hok
      · simp [lexOne]

/-! ## whole token lists -/

theorem isIdHead_not_ws (c : Char) (h : isIdHead c = true) : isWs c = false := by
  cases hw : isWs c with
  | false => rfl
  | true =>
    simp only [isWs, Bool.or_eq_true, decide_eq_true_eq] at hw
    rcases hw with rfl | rfl <;> revert h <;> decide

theorem isDigit_not_ws (c : Char) (h : isDigit c = true) : isWs c = false := by
  cases hw : isWs c with
  | false => rfl
  | true =>
    simp only [isWs, Bool.or_eq_true, decide_eq_true_eq] at hw
    rcases hw with rfl | rfl <;> revert h <;> decide

/-- no spelling is empty or starts with white space -/
theorem spell_head (t : Tok) (hwf : t.wf = true) (s : Str) (hs : s ∈ spell t) :
    ∃ c r, s = c :: r ∧ isWs c = false := by
  cases t with
  | num text =>
    simp only [spell, List.mem_singleton] at hs
    subst hs
    obtain ⟨d, r, rfl, hd⟩ := isNumberText_head s hwf
    exact ⟨d, r, rfl, isDigit_not_ws d hd⟩
  | str raw => simp only [spell, List.mem_singleton] at hs; subst hs; exact ⟨_, _, rfl, by decide⟩
  | var n => simp only [spell, List.mem_singleton] at hs; subst hs; exact ⟨_, _, rfl, by decide⟩
  | fid n =>
    simp only [spell, List.mem_singleton] at hs
    subst hs
    simp only [Tok.wf, Bool.and_eq_true] at hwf
    cases s with
    | nil => simp [isIdent] at hwf
    | cons c r =>
      simp only [isIdent, Bool.and_eq_true] at hwf
      exact ⟨c, r, rfl, isIdHead_not_ws c hwf.1.1⟩
  | op o =>
    cases o <;> simp only [spell, BinOp.spell, List.mem_cons, List.not_mem_nil, or_false] at hs <;>
      (first | (rcases hs with rfl | rfl | rfl <;> exact ⟨_, _, rfl, by decide⟩)
             | (rcases hs with rfl | rfl <;> exact ⟨_, _, rfl, by decide⟩)
             | (subst hs; exact ⟨_, _, rfl, by decide⟩))
  | not | assign =>
    simp only [spell, List.mem_cons, List.not_mem_nil, or_false] at hs
    rcases hs with rfl | rfl <;> exact ⟨_, _, rfl, by decide⟩
  | kwTrue | kwFalse | kwNull | kwAs | lp | rp | comma | dot | addEq | subEq | mulEq | divEq | modEq =>
    simp only [spell, List.mem_singleton] at hs; subst hs; exact ⟨_, _, rfl, by decide⟩

/-- hidden white space costs one unit of fuel per character -/
theorem lexTo_skip_ws : ∀ (gap rest : List Char) (f : Nat), gap.all isWs = true →
    lexTo (f + gap.length) (gap ++ rest) = lexTo f rest
  | [], rest, f, _ => rfl
  | c :: gap, rest, f, h => by
    simp only [List.all_cons, Bool.and_eq_true] at h
    have : f + (c :: gap).length = (f + gap.length) + 1 := by simp only [List.length_cons]; omega
    rw [this, List.cons_append, lexTo]
    simp only [h.1, ↓reduceIte]
    exact lexTo_skip_ws gap rest f h.2

/-- well-formed payload, a spelling of the token, a gap of blanks and tabs, and whatever character comes next may
    follow the spelling; `tail` is what follows the whole list -/
def WOk (tail : List Char) : List Written → Prop
  | [] => True
  | w :: ws => w.tok.wf = true ∧ w.sp ∈ spell w.tok ∧ w.gap.all isWs = true ∧
      (∀ c r, w.gap ++ (wtext ws ++ tail) = c :: r → okNext w.sp c = true) ∧ WOk tail ws

/-- lexing written tokens gives the tokens, then continues on what follows -/
theorem lexTo_wtext (tail : List Char) : ∀ (ws : List Written) (f : Nat), WOk tail ws →
    (wtext ws ++ tail).length + 1 ≤ f →
    ∃ f', tail.length + 1 ≤ f' ∧
      lexTo f (wtext ws ++ tail) =
        match lexTo f' tail with
        | some (ts, s, r) => some (ws.map (·.tok) ++ ts, s, r)
        | none => none
  | [], f, _, hf => ⟨f, by simpa [wtext] using hf, by
      simp only [wtext, List.nil_append, List.map_nil]
      cases lexTo f tail with
      | none => rfl
      | some p => rfl⟩
  | w :: ws, f, hok, hf => by
    obtain ⟨hwf, hsp, hgap, hnext, hrest⟩ := hok
    obtain ⟨c, r, hc, hws⟩ := spell_head w.tok hwf w.sp hsp
    have hlen : (wtext (w :: ws) ++ tail).length = w.sp.length + w.gap.length + (wtext ws ++ tail).length := by
      simp [wtext, List.length_append]; omega
    have hsplen : w.sp.length ≥ 1 := by rw [hc]; simp
    -- fuel: one unit for the token, one per gap character, the rest for the remainder
    obtain ⟨g, hg⟩ : ∃ g, f = (g + w.gap.length) + 1 := ⟨f - 1 - w.gap.length, by omega⟩
    have hgf : (wtext ws ++ tail).length + 1 ≤ g := by omega
    obtain ⟨f', hf', ih⟩ := lexTo_wtext tail ws g hrest hgf
    refine ⟨f', hf', ?_⟩
    have hone : lexOne (w.sp ++ (w.gap ++ (wtext ws ++ tail))) = some (.tok w.tok, w.gap ++ (wtext ws ++ tail)) :=
      lexOne_spell w.tok hwf w.sp hsp _ hnext
    have htext : wtext (w :: ws) ++ tail = c :: (r ++ (w.gap ++ (wtext ws ++ tail))) := by
      simp [wtext, hc, List.append_assoc]
    rw [hg, htext, lexTo]
    simp only [hws, Bool.false_eq_true, ↓reduceIte]
    rw [← List.cons_append, ← hc, hone]
    simp only
    rw [lexTo_skip_ws w.gap _ g hgap, ih]
    cases lexTo f' tail with
    | none => rfl
    | some p => rfl

theorem lexExpr_wtext (ws : List Written) (h : WOk [] ws) : lexExpr (wtext ws) = some (ws.map (·.tok)) := by
  obtain ⟨f', hf', heq⟩ := lexTo_wtext [] ws ((wtext ws).length + 1) h (by simp)
  have h0 : lexTo f' [] = some ([], .eof, []) := by
    cases f' with
    | zero => simp at hf'
    | succ n => rfl
  simp only [List.append_nil, h0] at heq
  simp [lexExpr, heq]

theorem lexTo_wtext_brace (ws : List Written) (rest : List Char) (h : WOk ('}' :: rest) ws) (f : Nat)
    (hf : (wtext ws ++ '}' :: rest).length + 1 ≤ f) :
    lexTo f (wtext ws ++ '}' :: rest) = some (ws.map (·.tok), .brace, rest) := by
  obtain ⟨f', hf', heq⟩ := lexTo_wtext ('}' :: rest) ws f h hf
  have h0 : lexTo f' ('}' :: rest) = some ([], .brace, rest) := by
    cases f' with
    | zero => simp at hf'
    | succ n => simp [lexTo, isWs, lexOne]
  rw [heq, h0]
  simp

theorem lexTo_wtext_cmdEnd (ws : List Written) (rest : List Char) (h : WOk ('>' :: '>' :: rest) ws) (f : Nat)
    (hf : (wtext ws ++ '>' :: '>' :: rest).length + 1 ≤ f) :
    lexTo f (wtext ws ++ '>' :: '>' :: rest) = some (ws.map (·.tok), .cmdEnd, rest) := by
  obtain ⟨f', hf', heq⟩ := lexTo_wtext ('>' :: '>' :: rest) ws f h hf
  have h0 : lexTo f' ('>' :: '>' :: rest) = some ([], .cmdEnd, rest) := by
    cases f' with
    | zero => simp at hf'
    | succ n => simp [lexTo, isWs, lexOne]
  rw [heq, h0]
  simp

/-! ### single spaces between the tokens -/

theorem okNext_of_not_idChar (s : Str) (c : Char) (h1 : isIdChar c = false) (h2 : c ≠ '.') (h3 : c ≠ '=')
    (h4 : c ≠ '>') : okNext s c = true := by
  cases s with
  | nil => rfl
  | cons h t =>
    simp only [okNext]
    split
    · simp [h1, h2]
    · split
      · simp [h3, h4]
      · rfl

theorem okNext_space (s : Str) : okNext s ' ' = true :=
  okNext_of_not_idChar s ' ' (by decide) (by decide) (by decide) (by decide)
theorem okNext_tab (s : Str) : okNext s '\t' = true :=
  okNext_of_not_idChar s '\t' (by decide) (by decide) (by decide) (by decide)
theorem okNext_brace (s : Str) : okNext s '}' = true :=
  okNext_of_not_idChar s '}' (by decide) (by decide) (by decide) (by decide)

/-- spelled tokens as written tokens: a single space after each, `last` after the last one -/
def spaced (last : Str) : List (Tok × Str) → List Written
  | [] => []
  | [p] => [⟨p.1, p.2, last⟩]
  | p :: q :: l => ⟨p.1, p.2, [' ']⟩ :: spaced last (q :: l)

theorem spaced_tok (last : Str) : ∀ l : List (Tok × Str), (spaced last l).map (·.tok) = l.map (·.1)
  | [] => rfl
  | [p] => rfl
  | p :: q :: l => by simp [spaced, spaced_tok last (q :: l)]

theorem wtext_spaced_nil : ∀ l : List (Tok × Str), wtext (spaced [] l) = joinSp (l.map (·.2))
  | [] => rfl
  | [p] => by simp [spaced, wtext, joinSp]
  | p :: q :: l => by
    have := wtext_spaced_nil (q :: l)
    simp only [List.map_cons] at this
    simp [spaced, wtext, joinSp, this]

theorem WOk_spaced (tail : List Char) (last : Str) (hlast : last.all isWs = true)
    (htail : ∀ s c r, last ++ tail = c :: r → okNext s c = true) :
    ∀ l : List (Tok × Str), (∀ p ∈ l, p.1.wf = true ∧ p.2 ∈ spell p.1) → WOk tail (spaced last l)
  | [], _ => trivial
  | [p], h => by
    have hp := h p (by simp)
    exact ⟨hp.1, hp.2, hlast, fun c r e => htail _ c r (by simpa [wtext] using e), trivial⟩
  | p :: q :: l, h => by
    have hp := h p (by simp)
    refine ⟨hp.1, hp.2, (by simp [isWs]), fun c r e => ?_, WOk_spaced tail last hlast htail (q :: l)
      (fun x hx => h x (List.mem_cons_of_mem _ hx))⟩
    simp only [List.cons_append, List.nil_append, List.cons.injEq] at e
    rw [← e.1]
    exact okNext_space _

/-- C02.5 `lex_print`: well-formed tokens written in ANY of their spellings with single spaces between them
    lex back to the same tokens -/
theorem lex_print (l : List (Tok × Str)) (h : ∀ p ∈ l, p.1.wf = true ∧ p.2 ∈ spell p.1) :
    lexExpr (joinSp (l.map (·.2))) = some (l.map (·.1)) := by
  have hok := WOk_spaced [] [] rfl (fun s c r e => by simp at e) l h
  rw [← wtext_spaced_nil, lexExpr_wtext _ hok, spaced_tok]

/-! ## The fuel of the scanner is never the reason for a failure -/

theorem length_dropWhile_le (p : Char → Bool) : ∀ l : List Char, (l.dropWhile p).length ≤ l.length
  | [] => Nat.le_refl _
  | x :: l => by
    by_cases hx : p x = true
    · simp only [List.dropWhile_cons, hx, ↓reduceIte, List.length_cons]
      exact Nat.le_succ_of_le (length_dropWhile_le p l)
    · simp [hx]

theorem scanStr_shorter : ∀ (cs : List Char) (s r : List Char), scanStr cs = some (s, r) → r.length < cs.length := by
  intro cs
  induction cs using scanStr.induct with
  | case1 => intro s r h; simp [scanStr] at h
  | case2 r0 =>
    intro s r h
    simp only [scanStr, Option.some.injEq, Prod.mk.injEq] at h
    rw [← h.2]; simp
  | case3 c r0 hc s' r' heq ih =>
    intro s r h
    simp only [scanStr, hc, ↓reduceIte, heq, Option.some.injEq, Prod.mk.injEq] at h
    have := ih s' r' heq
    rw [← h.2]; simp only [List.length_cons]; omega
  | case4 c r0 hc heq =>
    intro s r h
    simp [scanStr, hc, heq] at h
  | case5 c r0 hc =>
    intro s r h
    simp [scanStr, hc] at h
  | case6 c r0 hn1 hn2 hc =>
    intro s r h
    rw [scanStr] at h
    · simp [hc] at h
    · exact hn1
    · exact hn2
  | case7 c r0 hn1 hn2 hc s' r' heq ih =>
    intro s r h
    rw [scanStr] at h
    · simp only [hc, ↓reduceIte, heq, Option.some.injEq, Prod.mk.injEq] at h
      have := ih s' r' heq
      rw [← h.2]; simp only [List.length_cons]; omega
    · exact hn1
    · exact hn2
  | case8 c r0 hn1 hn2 hc heq =>
    intro s r h
    rw [scanStr] at h
    · simp [hc, heq] at h
    · exact hn1
    · exact hn2

theorem scanNumber_shorter (c : Char) (r : List Char) (hc : isDigit c = true) :
    (scanNumber (c :: r)).2.length ≤ r.length := by
  have hd : (c :: r).dropWhile isDigit = r.dropWhile isDigit := by simp [hc]
  have hle := length_dropWhile_le isDigit r
  unfold scanNumber
  simp only [hd]
  split
  · rename_i d r' heq
    split
    · have h2 := length_dropWhile_le isDigit (d :: r')
      have : (r.dropWhile isDigit).length = (d :: r').length + 1 := by rw [heq]; simp
      simp only at h2 ⊢
      omega
    · exact hle
  · exact hle

/-- every token consumes at least one character -/
theorem lexOne_shorter (cs : List Char) (lx : Lexeme) (r : List Char) (h : lexOne cs = some (lx, r)) :
    r.length < cs.length := by
  unfold lexOne at h
  split at h
  all_goals try (simp only [Option.some.injEq, Prod.mk.injEq] at h; rw [← h.2]; simp only [List.length_cons]; omega)
  · simp at h
  · rename_i r0
    cases hs : scanStr r0 with
    | none => simp [hs] at h
    | some p =>
      obtain ⟨s', r'⟩ := p
      simp only [hs, Option.some.injEq, Prod.mk.injEq] at h
      have := scanStr_shorter r0 s' r' hs
      rw [← h.2]; simp only [List.length_cons]; omega
  · rename_i c r0
    split at h
    · simp only [Option.some.injEq, Prod.mk.injEq] at h
      have := length_dropWhile_le isIdChar r0
      rw [← h.2]; simp only [List.length_cons]; omega
    · simp at h
  · rename_i c r0 _ _ _ _ _ _ _ _ _ _ _ _ _ _ _ _ _ _ _ _ _ _ _ _ _ _ _ _ _
    split at h
    · rename_i hd
      simp only [Option.some.injEq, Prod.mk.injEq] at h
      have := scanNumber_shorter c r0 hd
      rw [← h.2]; simp only [List.length_cons]; omega
    · split at h
      · simp only [Option.some.injEq, Prod.mk.injEq] at h
        have := length_dropWhile_le isIdChar r0
        rw [← h.2]; simp only [List.length_cons]; omega
      · simp at h

/-- beyond one unit per character (plus one) more fuel changes nothing -/
theorem lexTo_fuel : ∀ (n : Nat) (cs : List Char) (f g : Nat), cs.length ≤ n → n + 1 ≤ f → n + 1 ≤ g →
    lexTo f cs = lexTo g cs
  | n, [], f, g, _, hf, hg => by
    obtain ⟨f', rfl⟩ : ∃ f', f = f' + 1 := ⟨f - 1, by omega⟩
    obtain ⟨g', rfl⟩ : ∃ g', g = g' + 1 := ⟨g - 1, by omega⟩
    rfl
  | 0, c :: cs, _, _, hn, _, _ => by simp at hn
  | n + 1, c :: cs, f, g, hn, hf, hg => by
    obtain ⟨f', rfl⟩ : ∃ f', f = f' + 1 := ⟨f - 1, by omega⟩
    obtain ⟨g', rfl⟩ : ∃ g', g = g' + 1 := ⟨g - 1, by omega⟩
    simp only [List.length_cons] at hn
    simp only [lexTo]
    split
    · exact lexTo_fuel n cs f' g' (by omega) (by omega) (by omega)
    · cases hl : lexOne (c :: cs) with
      | none => rfl
      | some p =>
        obtain ⟨lx, r⟩ := p
        have hr := lexOne_shorter _ _ _ hl
        simp only [List.length_cons] at hr
        cases lx with
        | tok t => simp only [lexTo_fuel n r f' g' (by omega) (by omega) (by omega)]
        | exprEnd => rfl
        | cmdEnd => rfl

/-- `lexExpr` fails only on a lexer error, never for lack of fuel: any larger fuel gives the same answer -/
theorem lexExpr_fuel_free (cs : List Char) (f : Nat) (hf : cs.length + 1 ≤ f) :
    lexTo f cs = lexTo (cs.length + 1) cs :=
  lexTo_fuel cs.length cs f (cs.length + 1) (Nat.le_refl _) hf (Nat.le_refl _)

end ExprSyntax
end Ysgo
