import Ysgo.Lemmas.NextToken
import Ysgo.Lemmas.Indent
/-!
# The sequence of `NextToken` calls: what the parser receives is `expected`, and `expected` projects to `Indent.lex`

* `pullGo_eof_in_sight`: once the queue extended by the tokens of the next `checkNextToken` contains an `EOF`,
  the calls deliver the tokens in front of it, then it, whatever else gets enqueued behind it in the meantime
  (every further call runs `checkNextToken` again: the base lexer answers `EOF` again and a further `EOF` token
  is enqueued — the parser never sees those).
* `pullGo_expected`: before that, the queue `q` (without `EOF`) is followed by `expected st bs`.
* `Reach`: the states reachable from `init base` by `NextToken` calls; all satisfy `Inv`.
* projections of `expected` to `Indent.lexFrom` and to the ordinary tokens; its length.
-/
namespace Ysgo.NextToken
open Ysgo.Container
open Ysgo.Indent (LineInfo)

/-! ## no `EOF` among the tokens of a NEWLINE or an ordinary token -/

theorem popWhile_no_eof (w : Nat) (st : List Nat) : ∀ t ∈ (popWhile w st).2, t ≠ .eof := by
  induction st with
  | nil => simp [popWhile]
  | cons top st ih =>
    unfold popWhile
    by_cases hlt : w < top
    · simp only [hlt, ↓reduceIte, List.mem_cons]
      rintro t (rfl | ht)
      · simp
      · exact ih t ht
    · simp [hlt]

theorem newlineToks_no_eof (st : List Nat) (li : LineInfo) : ∀ t ∈ (newlineToks st li).2, t ≠ .eof := by
  unfold newlineToks
  by_cases hn : li.noise = true
  · simp only [hn, ↓reduceIte]; simp
  · simp only [hn, Bool.false_eq_true, ↓reduceIte]
    by_cases hgt : li.width > st.headD 0
    · simp only [hgt, ↓reduceIte]; simp
    · simp only [hgt, ↓reduceIte]
      by_cases hlt : li.width < st.headD 0
      · simp only [hlt, ↓reduceIte, List.mem_cons]
        rintro t (rfl | ht)
        · simp
        · exact popWhile_no_eof _ _ t ht
      · simp only [hlt, ↓reduceIte]; simp

/-! ## the calls -/

/-- an `EOF` is in sight: the queue, extended by what the next `checkNextToken` enqueues, is `pre ++ EOF :: post`
with no `EOF` in `pre`. Then `|pre| + 1` calls deliver `pre` and the `EOF`. -/
theorem pullGo_eof_in_sight : ∀ (pre post : List Tok) (fuel : Nat) (s : State) (q : List Tok) (st : List Nat)
    (bs : List BaseTok), Inv s q st bs → q ++ (stepSpec st bs).1 = pre ++ .eof :: post →
    (∀ t ∈ pre, t ≠ .eof) → pre.length + 1 ≤ fuel → pullGo fuel s = (pre ++ [.eof], .eof) := by
  intro pre
  induction pre with
  | nil =>
    intro post fuel s q st bs h e _ hf
    cases fuel with
    | zero => omega
    | succ fuel =>
      obtain ⟨s', e1, _⟩ := nextToken_spec h (by simpa using e)
      simp [pullGo, e1]
  | cons p pre ih =>
    intro post fuel s q st bs h e hpre hf
    cases fuel with
    | zero => omega
    | succ fuel =>
      simp only [List.length_cons] at hf
      obtain ⟨s', e1, h1⟩ := nextToken_spec h (by simpa using e)
      have hp : p ≠ .eof := hpre p (by simp)
      have := ih (post ++ (stepSpec (stepSpec st bs).2.1 (stepSpec st bs).2.2).1) fuel s' _ _ _ h1 (by simp)
        (fun t ht => hpre t (by simp [ht])) (by omega)
      simp [pullGo, e1, hp, this]

/-- one call that consumes a base token which is not `EOF` -/
theorem pullGo_step {s : State} {q : List Tok} {st : List Nat} {bs : List BaseTok} {E : List Tok} {fuel : Nat}
    (h : Inv s q st bs) (hq : ∀ t ∈ q, t ≠ .eof) (ht : ∀ t ∈ (stepSpec st bs).1, t ≠ .eof)
    (ih : ∀ (s' : State) (r : List Tok) (f : Nat), Inv s' r (stepSpec st bs).2.1 (stepSpec st bs).2.2 →
      (∀ t ∈ r, t ≠ .eof) → r.length + E.length ≤ f → pullGo f s' = (r ++ E, .eof))
    (hf : q.length + ((stepSpec st bs).1.length + E.length) ≤ fuel) :
    pullGo fuel s = (q ++ ((stepSpec st bs).1 ++ E), .eof) := by
  obtain ⟨t, s', r, e1, e, h1⟩ := nextToken_total h
  have hlen : q.length + (stepSpec st bs).1.length = r.length + 1 := by
    have := congrArg List.length e
    simpa using this
  have hall : ∀ x ∈ t :: r, x ≠ .eof := by
    rw [← e]
    intro x hx
    rcases List.mem_append.mp hx with hx | hx
    · exact hq x hx
    · exact ht x hx
  have htne : t ≠ .eof := hall t (by simp)
  cases fuel with
  | zero => omega
  | succ fuel =>
    have := ih s' r fuel h1 (fun x hx => hall x (by simp [hx])) (by omega)
    simp only [pullGo, e1, htne, ↓reduceIte, this]
    rw [← List.append_assoc, e]
    simp

/-- from a state whose queue `q` holds no `EOF`: the calls deliver `q`, then `expected st bs`, and stop at its
`EOF`; `|q| + |expected st bs|` calls are needed -/
theorem pullGo_expected : ∀ (bs : List BaseTok) (st : List Nat) (q : List Tok) (s : State) (fuel : Nat),
    Inv s q st bs → (∀ t ∈ q, t ≠ .eof) → q.length + (expected st bs).length ≤ fuel →
    pullGo fuel s = (q ++ expected st bs, .eof) := by
  intro bs
  induction bs with
  | nil =>
    intro st q s fuel h hq hf
    have := pullGo_eof_in_sight (q ++ st.map .dedent) [] fuel s q st [] h (by simp [stepSpec, eofToks])
      (by
        intro t ht
        rcases List.mem_append.mp ht with ht | ht
        · exact hq t ht
        · simp only [List.mem_map] at ht
          obtain ⟨_, _, rfl⟩ := ht
          simp)
      (by simp [expected, eofToks] at hf ⊢; omega)
    simpa [expected, eofToks] using this
  | cons b bs ih =>
    intro st q s fuel h hq hf
    match b with
    | .eof =>
      have := pullGo_eof_in_sight (q ++ st.map .dedent) [] fuel s q st (.eof :: bs) h (by simp [stepSpec, eofToks])
        (by
          intro t ht
          rcases List.mem_append.mp ht with ht | ht
          · exact hq t ht
          · simp only [List.mem_map] at ht
            obtain ⟨_, _, rfl⟩ := ht
            simp)
        (by simp [expected, eofToks] at hf ⊢; omega)
      simpa [expected, eofToks] using this
    | .other p =>
      have := pullGo_step (E := expected st bs) (fuel := fuel) h hq (by simp [stepSpec])
        (fun s' r f h' hr hf' => ih st r s' f h' hr hf') (by simp [stepSpec, expected] at hf ⊢; omega)
      simpa [stepSpec, expected] using this
    | .nl li =>
      have := pullGo_step (E := expected (newlineToks st li).1 bs) (fuel := fuel) h hq
        (by simpa [stepSpec] using newlineToks_no_eof st li)
        (fun s' r f h' hr hf' => ih _ r s' f h' hr hf') (by simp [stepSpec, expected] at hf ⊢; omega)
      simpa [stepSpec, expected] using this

/-! ## reachable states -/

/-- the states the lexer goes through when `NextToken` is called again and again (for ever, whatever the calls
return — a panic ends the sequence) -/
inductive Reach (base : List BaseTok) : State → Prop
  | init : Reach base (init base)
  | step {s s' : State} {r : Option Tok} : Reach base s → nextToken s = .ok (r, s') → Reach base s'

theorem reach_inv {base : List BaseTok} {s : State} (h : Reach base s) : ∃ q st bs, Inv s q st bs := by
  induction h with
  | init => exact ⟨[], [], base, inv_init base⟩
  | step _ e ih =>
    obtain ⟨q, st, bs, hi⟩ := ih
    obtain ⟨t, s1, r, e1, _, h1⟩ := nextToken_total hi
    rw [e1] at e
    injection e with e
    injection e with _ e
    subst e
    exact ⟨_, _, _, h1⟩

theorem reach_states (base : List BaseTok) : ∀ (n : Nat) (s : State), Reach base s →
    ∀ s' ∈ states n s, Reach base s' := by
  intro n
  induction n with
  | zero =>
    intro s h s' hs'
    simp only [states, List.mem_singleton] at hs'
    subst hs'; exact h
  | succ n ih =>
    intro s h s' hs'
    simp only [states, List.mem_cons] at hs'
    rcases hs' with rfl | hs'
    · exact h
    · cases e : nextToken s with
      | panic => rw [e] at hs'; simp at hs'
      | ok p =>
        obtain ⟨r, s1⟩ := p
        rw [e] at hs'
        exact ih s1 (.step h e) s' hs'

/-! ## projections of `expected` -/

theorem popWhile_kind (w : Nat) (st : List Nat) :
    (popWhile w st).1 = (Indent.popWhile w st).1 ∧
    (popWhile w st).2.filterMap kind = (Indent.popWhile w st).2 := by
  induction st with
  | nil => simp [popWhile, Indent.popWhile]
  | cons top st ih =>
    unfold popWhile Indent.popWhile
    by_cases hlt : w < top
    · simp [hlt, ih.1, ih.2, kind]
    · simp [hlt]

theorem newlineToks_kind (st : List Nat) (li : LineInfo) :
    (newlineToks st li).1 = (Indent.handleNewline st li).1 ∧
    (newlineToks st li).2.filterMap kind = (Indent.handleNewline st li).2 := by
  unfold newlineToks Indent.handleNewline
  by_cases hn : li.noise = true
  · simp only [hn, ↓reduceIte]; simp [kind]
  · simp only [hn, Bool.false_eq_true, ↓reduceIte]
    by_cases hgt : li.width > st.headD 0
    · simp only [hgt, ↓reduceIte]; simp [kind]
    · simp only [hgt, ↓reduceIte]
      by_cases hlt : li.width < st.headD 0
      · simp only [hlt, ↓reduceIte]
        exact ⟨(popWhile_kind _ _).1, by simp [kind, (popWhile_kind li.width st).2]⟩
      · simp only [hlt, ↓reduceIte]; simp [kind]

theorem eofToks_kind (st : List Nat) : (eofToks st).filterMap kind = Indent.handleEOF st := by
  induction st with
  | nil => simp [eofToks, Indent.handleEOF, kind]
  | cons a st ih =>
    simp only [eofToks, Indent.handleEOF, List.map_cons, List.cons_append] at ih ⊢
    simp [kind, ih]

/-- projected to the token kinds, `expected` is the enqueue order `Indent.lexFrom` computes from the NEWLINE tokens -/
theorem expected_kind : ∀ (bs : List BaseTok) (st : List Nat),
    (expected st bs).filterMap kind = Indent.lexFrom st (infos bs) := by
  intro bs
  induction bs with
  | nil => intro st; simpa [expected, infos, Indent.lexFrom] using eofToks_kind st
  | cons b bs ih =>
    intro st
    match b with
    | .eof => simpa [expected, infos, Indent.lexFrom] using eofToks_kind st
    | .other p =>
      show List.filterMap kind (Tok.other p :: expected st bs) = _
      rw [List.filterMap_cons]
      exact ih st
    | .nl li =>
      simp only [expected, infos, Indent.lexFrom, List.filterMap_append, ih, (newlineToks_kind st li).2,
        (newlineToks_kind st li).1]

theorem eofToks_payload (st : List Nat) : ∀ t ∈ eofToks st, payload t = none := by
  intro t ht
  simp only [eofToks, List.mem_append, List.mem_map, List.mem_singleton] at ht
  rcases ht with ⟨_, _, rfl⟩ | rfl <;> rfl

theorem popWhile_payload (w : Nat) (st : List Nat) : ∀ t ∈ (popWhile w st).2, payload t = none := by
  induction st with
  | nil => simp [popWhile]
  | cons top st ih =>
    unfold popWhile
    by_cases hlt : w < top
    · simp only [hlt, ↓reduceIte, List.mem_cons]
      rintro t (rfl | ht)
      · rfl
      · exact ih t ht
    · simp [hlt]

theorem newlineToks_payload (st : List Nat) (li : LineInfo) : ∀ t ∈ (newlineToks st li).2, payload t = none := by
  unfold newlineToks
  by_cases hn : li.noise = true
  · simp only [hn, ↓reduceIte, List.mem_singleton]; rintro t rfl; rfl
  · simp only [hn, Bool.false_eq_true, ↓reduceIte]
    by_cases hgt : li.width > st.headD 0
    · simp only [hgt, ↓reduceIte, List.mem_cons, List.not_mem_nil, or_false]
      rintro t (rfl | rfl) <;> rfl
    · simp only [hgt, ↓reduceIte]
      by_cases hlt : li.width < st.headD 0
      · simp only [hlt, ↓reduceIte, List.mem_cons]
        rintro t (rfl | ht)
        · rfl
        · exact popWhile_payload _ _ t ht
      · simp only [hlt, ↓reduceIte, List.mem_singleton]; rintro t rfl; rfl

/-- the ordinary tokens are delivered unchanged, all of them, in their order -/
theorem expected_payload : ∀ (bs : List BaseTok) (st : List Nat),
    (expected st bs).filterMap payload = payloads bs := by
  intro bs
  induction bs with
  | nil => intro st; exact List.filterMap_eq_nil_iff.mpr (eofToks_payload st)
  | cons b bs ih =>
    intro st
    match b with
    | .eof => exact List.filterMap_eq_nil_iff.mpr (eofToks_payload st)
    | .other p =>
      show List.filterMap payload (Tok.other p :: expected st bs) = p :: payloads bs
      rw [List.filterMap_cons]
      exact congrArg (p :: ·) (ih st)
    | .nl li =>
      simp only [expected, payloads, List.filterMap_append, ih,
        List.filterMap_eq_nil_iff.mpr (newlineToks_payload st li), List.nil_append]

/-- the sequence ends with its only `EOF` -/
theorem expected_eof : ∀ (bs : List BaseTok) (st : List Nat),
    ∃ body, expected st bs = body ++ [.eof] ∧ .eof ∉ body := by
  intro bs
  induction bs with
  | nil => intro st; exact ⟨st.map .dedent, rfl, by simp⟩
  | cons b bs ih =>
    intro st
    match b with
    | .eof => exact ⟨st.map .dedent, rfl, by simp⟩
    | .other p =>
      obtain ⟨body, e, hb⟩ := ih st
      exact ⟨.other p :: body, by simp [expected, e], by simp [hb]⟩
    | .nl li =>
      obtain ⟨body, e, hb⟩ := ih (newlineToks st li).1
      refine ⟨(newlineToks st li).2 ++ body, by simp [expected, e], ?_⟩
      intro hm
      rcases List.mem_append.mp hm with hm | hm
      · exact newlineToks_no_eof st li _ hm rfl
      · exact hb hm

/-! ## how many calls -/

theorem popWhile_length (w : Nat) (st : List Nat) :
    (popWhile w st).2.length + (popWhile w st).1.length = st.length := by
  induction st with
  | nil => simp [popWhile]
  | cons top st ih =>
    unfold popWhile
    by_cases hlt : w < top
    · simp only [hlt, ↓reduceIte, List.length_cons]; omega
    · simp [hlt]

theorem newlineToks_length (st : List Nat) (li : LineInfo) :
    (newlineToks st li).2.length + (newlineToks st li).1.length ≤ st.length + 3 := by
  unfold newlineToks
  by_cases hn : li.noise = true
  · simp only [hn, ↓reduceIte, List.length_cons, List.length_nil]; omega
  · simp only [hn, Bool.false_eq_true, ↓reduceIte]
    by_cases hgt : li.width > st.headD 0
    · simp only [hgt, ↓reduceIte, List.length_cons, List.length_nil]; omega
    · simp only [hgt, ↓reduceIte]
      by_cases hlt : li.width < st.headD 0
      · simp only [hlt, ↓reduceIte, List.length_cons]
        have := popWhile_length li.width st
        omega
      · simp only [hlt, ↓reduceIte, List.length_cons, List.length_nil]; omega

/-- at most three delivered tokens per base token (itself, an INDENT and the DEDENT closing it), one DEDENT per
level open at the start, and the `EOF` -/
theorem expected_length : ∀ (bs : List BaseTok) (st : List Nat),
    (expected st bs).length ≤ 3 * bs.length + st.length + 1 := by
  intro bs
  induction bs with
  | nil => intro st; simp [expected, eofToks]
  | cons b bs ih =>
    intro st
    match b with
    | .eof => simp [expected, eofToks] <;> omega
    | .other p =>
      have := ih st
      simp only [expected, List.length_cons]; omega
    | .nl li =>
      have := ih (newlineToks st li).1
      have := newlineToks_length st li
      simp only [expected, List.length_append, List.length_cons]; omega

/-! ## counting on the delivered tokens = counting on their kinds -/

theorem count_kind (k : Indent.Tok) (p : List Tok) :
    (p.filterMap kind).count k = p.countP (fun t => kind t = some k) := by
  induction p with
  | nil => simp
  | cons t p ih =>
    cases hk : kind t with
    | none => simp [hk, ih]
    | some k' =>
      by_cases e : k' = k
      · subst e; simp [hk, ih]
      · simp [hk, ih, e]

end Ysgo.NextToken
