import Ysgo.Lemmas.F64Round
/-!
# F64 lemma library, part 6 (core only): `parseFloat (itoa i) = ofInt i` for `|i| < 2^53`

The decimal digit string of an integer parses back to the double of that integer: digit-list round trip
(`Nat.ofDigitChars_ten_toDigits` of core) through the modelled `strconv.ParseFloat`.
-/
namespace Ysgo
namespace F64

theorem isDigitC_eq (c : Char) : isDigitC c = c.isDigit := by
  unfold isDigitC Char.isDigit
  simp [Char.le_def, UInt32.le_iff_toNat_le]

theorem takeWhile_all {α} (p : α → Bool) : ∀ (l : List α), (∀ c ∈ l, p c = true) → l.takeWhile p = l
  | [], _ => rfl
  | a :: l, h => by
    rw [List.takeWhile_cons, if_pos (h a (by simp)), takeWhile_all p l (fun c hc => h c (by simp [hc]))]

theorem dropWhile_all {α} (p : α → Bool) : ∀ (l : List α), (∀ c ∈ l, p c = true) → l.dropWhile p = []
  | [], _ => rfl
  | a :: l, h => by
    rw [List.dropWhile_cons, if_pos (h a (by simp)), dropWhile_all p l (fun c hc => h c (by simp [hc]))]

theorem digitsVal_eq (ds : List Char) : digitsVal ds = Nat.ofDigitChars 10 ds 0 := by
  unfold digitsVal Nat.ofDigitChars
  congr 1
  funext a c
  rw [Nat.mul_comm]; rfl

theorem digitsVal_toDigits (n : Nat) : digitsVal (Nat.toDigits 10 n) = n := by
  rw [digitsVal_eq, Nat.ofDigitChars_ten_toDigits]

theorem digit_facts {c : Char} (h : isDigitC c = true) :
    c ≠ '+' ∧ c ≠ '-' ∧ c ≠ '_' ∧ c ≠ 'x' ∧ c ≠ 'i' ∧ c ≠ 'n' ∧ lowerAscii c = c := by
  refine ⟨?_, ?_, ?_, ?_, ?_, ?_, ?_⟩
  · rintro rfl; exact absurd h (by decide)
  · rintro rfl; exact absurd h (by decide)
  · rintro rfl; exact absurd h (by decide)
  · rintro rfl; exact absurd h (by decide)
  · rintro rfl; exact absurd h (by decide)
  · rintro rfl; exact absurd h (by decide)
  · unfold lowerAscii
    unfold isDigitC at h
    simp only [Bool.and_eq_true, decide_eq_true_eq] at h
    rw [if_neg]
    rintro ⟨h1, h2⟩
    have := h.2
    simp only [Char.le_def, UInt32.le_iff_toNat_le] at *
    simp at *
    omega

/-- the digit loop of `parseFloat` on a pure digit string: zero mantissa -/
theorem go_digits_zero (neg : Bool) (ds : List Char) (hd : ∀ c ∈ ds, isDigitC c = true) (hne : ds ≠ [])
    (h0 : digitsVal ds = 0) : parseFloat.go neg ds = .val (zero neg) := by
  have h1 : ds.takeWhile isDigitC = ds := takeWhile_all _ _ hd
  have h2 : ds.dropWhile isDigitC = [] := dropWhile_all _ _ hd
  unfold parseFloat.go
  simp only [h1, h2]
  have hemp : ¬ (ds.isEmpty = true ∧ ([] : List Char).isEmpty = true) := by
    intro h; exact hne (List.isEmpty_iff.mp h.1)
  rw [if_neg hemp]
  simp only [List.append_nil]
  rw [if_pos h0]

/-- the digit loop of `parseFloat` on a pure digit string: non-zero mantissa, finite result -/
theorem go_digits_pos (neg : Bool) (ds : List Char) (hd : ∀ c ∈ ds, isDigitC c = true) (hne : ds ≠ [])
    (hl : ds.length ≤ 400) (h0 : digitsVal ds ≠ 0) {s m e}
    (hfin : decode (roundDyadic neg (digitsVal ds) 0) = .fin s m e) :
    parseFloat.go neg ds = .val (roundDyadic neg (digitsVal ds) 0) := by
  have h1 : ds.takeWhile isDigitC = ds := takeWhile_all _ _ hd
  have h2 : ds.dropWhile isDigitC = [] := dropWhile_all _ _ hd
  unfold parseFloat.go
  simp only [h1, h2]
  have hemp : ¬ (ds.isEmpty = true ∧ ([] : List Char).isEmpty = true) := by
    intro h; exact hne (List.isEmpty_iff.mp h.1)
  rw [if_neg hemp]
  simp only [List.append_nil, List.length_nil, Int.natCast_zero, Int.sub_zero, Int.zero_add]
  rw [if_neg h0, if_neg (by omega), if_neg (by omega)]
  simp only [ge_iff_le, Int.le_refl, ↓reduceIte, Int.toNat_zero, Nat.pow_zero, Nat.mul_one]
  rw [hfin]

theorem parseSpecial_digits_neg (c : Char) (t : List Char) (hc : isDigitC c = true) :
    parseSpecial ('-' :: c :: t) = none := by
  obtain ⟨h1, h2, h3, h4, h5, h6, h7⟩ := digit_facts hc
  unfold parseSpecial
  simp only [List.map_cons, h7]
  have : lowerAscii '-' = '-' := by decide
  rw [this]
  simp [h5]

theorem parseSpecial_digits (c : Char) (t : List Char) (hc : isDigitC c = true) :
    parseSpecial (c :: t) = none := by
  obtain ⟨h1, h2, h3, h4, h5, h6, h7⟩ := digit_facts hc
  unfold parseSpecial
  simp only [List.map_cons, h7]
  split
  · rename_i heq; cases heq; exact absurd rfl h1
  · rename_i heq; cases heq; exact absurd rfl h2
  · simp [h5, h6]

theorem any_underscore_digits (ds : List Char) (hd : ∀ c ∈ ds, isDigitC c = true) :
    ds.any (fun c => decide (c = '_')) = false := by
  rw [List.any_eq_false]
  intro c hc
  have := (digit_facts (hd c hc)).2.2.1
  simpa using this

/-- a non-empty digit string, optionally preceded by `-`, goes to the digit loop -/
theorem parseFloat_digits (sign : Bool) (ds : List Char) (hd : ∀ c ∈ ds, isDigitC c = true) (hne : ds ≠ []) :
    parseFloat (String.ofList (if sign then '-' :: ds else ds)) = parseFloat.go sign ds := by
  obtain ⟨c, t, rfl⟩ := List.exists_cons_of_ne_nil hne
  have hc : isDigitC c = true := hd c (by simp)
  obtain ⟨h1, h2, h3, h4, h5, h6, h7⟩ := digit_facts hc
  have hany := any_underscore_digits (c :: t) hd
  unfold parseFloat
  simp only [String.toList_ofList]
  cases sign
  · simp only [Bool.false_eq_true, ↓reduceIte]
    rw [if_neg (by rw [hany]; simp), parseSpecial_digits c t hc]
    simp only []
    split
    · rename_i x tail heq
      split at heq
      · rename_i h; cases h; exact absurd rfl h1
      · rename_i h; cases h; exact absurd rfl h2
      · simp only [] at heq
        cases heq
        have hx : isDigitC x = true := hd x (by simp)
        obtain ⟨-, -, -, g4, -, -, g7⟩ := digit_facts hx
        rw [g7, if_neg g4]
    · split
      · rename_i h; cases h; exact absurd rfl h1
      · rename_i h; cases h; exact absurd rfl h2
      · rfl
  · simp only [↓reduceIte]
    have hany' : ('-' :: c :: t).any (fun c => decide (c = '_')) = false := by
      rw [List.any_cons, hany]; decide
    rw [if_neg (by rw [hany']; simp), parseSpecial_digits_neg c t hc]
    simp only []
    split
    · rename_i x tail heq
      cases heq
      have hx : isDigitC x = true := hd x (by simp)
      obtain ⟨-, -, -, g4, -, -, g7⟩ := digit_facts hx
      rw [g7, if_neg g4]
    · rfl

theorem itoa_eq (i : Int) :
    itoa i = String.ofList (if decide (i < 0) then '-' :: Nat.toDigits 10 i.natAbs else Nat.toDigits 10 i.natAbs) := by
  unfold itoa
  by_cases h : i < 0
  · simp only [h, ↓reduceIte, decide_true]
    rw [Nat.toString_eq_ofList_toDigits, ← String.ofList_append]
    rfl
  · simp only [h, ↓reduceIte, decide_false, Bool.false_eq_true]
    rw [Nat.toString_eq_ofList_toDigits]

/-- **Printing an integer in decimal and parsing it back gives the double of that integer.** -/
theorem parseFloat_itoa (i : Int) (h : i.natAbs < P53) : parseFloat (itoa i) = .val (ofInt i) := by
  have hd : ∀ c ∈ Nat.toDigits 10 i.natAbs, isDigitC c = true := by
    intro c hc
    rw [isDigitC_eq]
    exact Nat.isDigit_of_mem_toDigits (by decide) (by decide) hc
  have hne : Nat.toDigits 10 i.natAbs ≠ [] := Nat.toDigits_ne_nil
  have hl : (Nat.toDigits 10 i.natAbs).length ≤ 400 := by
    have : (Nat.toDigits 10 i.natAbs).length ≤ 16 :=
      (Nat.length_toDigits_le_iff (by decide) (by decide)).mpr (by unfold P53 at h; omega)
    omega
  rw [itoa_eq, parseFloat_digits _ _ hd hne]
  by_cases hi : i = 0
  · subst hi
    rw [go_digits_zero _ _ hd hne (by rw [digitsVal_toDigits]; rfl)]
    rfl
  · obtain ⟨u, -, hu, -⟩ := decode_ofInt_small i hi h
    have hofInt : ofInt i = roundDyadic (decide (i < 0)) i.natAbs 0 := by
      unfold ofInt; rw [if_neg hi]
    rw [hofInt] at hu ⊢
    have h0 : digitsVal (Nat.toDigits 10 i.natAbs) ≠ 0 := by rw [digitsVal_toDigits]; omega
    have := go_digits_pos (decide (i < 0)) _ hd hne hl h0 (by rw [digitsVal_toDigits]; exact hu)
    rw [this, digitsVal_toDigits]

end F64
end Ysgo
