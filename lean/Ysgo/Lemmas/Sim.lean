import Ysgo.Spec.Flat
/-! helper lemmas for the refinement of the stack-of-queues machine to the flat semantics -/
namespace Ysgo
set_option linter.unusedSimpArgs false

theorem drop_of_getElem? {α} (l : List α) (i : Nat) (a : α) (h : l[i]? = some a) :
    l.drop i = a :: l.drop (i+1) := by
  have hi : i < l.length := by
    rcases Nat.lt_or_ge i l.length with h' | h'
    · exact h'
    · simp [List.getElem?_eq_none h'] at h
  rw [List.drop_eq_getElem_cons hi]
  simp [List.getElem?_eq_getElem hi] at h
  rw [h]

theorem drop_of_none {α} (l : List α) (i : Nat) (h : l[i]? = none) : l.drop i = [] := by
  simp at h; simp [List.drop_eq_nil_iff, h]

theorem applyCtl_abs (ctl : Ctl) (st : List SQ) :
    ((applyCtlR ctl st).map SQ.rest).flatten = applyCtlS ctl ((st.map SQ.rest).flatten) := by
  cases ctl <;> simp [applyCtlR, applyCtlS, SQ.rest]

section
variable {σ π μ : Type}

/-- every micro step stutters (pops an exhausted queue) or is exactly the flat step, effects included -/
theorem micro_sim (env : Env σ) (mk : Markup π μ) (p : Program) (r : R σ π) (c : Nat) :
    ((r.micro env mk p c).2 = none ∧ (r.micro env mk p c).1.abs = { r.abs with d := (poll (μ := μ) r.d).1 }) ∨
    ((r.micro env mk p c).1.abs, (r.micro env mk p c).2) = r.abs.step env mk p c := by
  unfold R.micro Flat.step
  simp only [R.abs]
  cases hp : poll (μ := μ) r.d with
  | mk d o =>
    cases o with
    | some out => right; simp
    | none =>
      simp only
      cases hw : r.waiting with
      | some bodies =>
        cases hb : bodies[c]? with
        | none => right; simp [hb]
        | some b =>
          right
          by_cases hl : b = []
          · simp [hb, hl]
          · simp [hb, hl, SQ.rest]
      | none =>
        cases hs : r.stack with
        | nil => right; simp [hs]
        | cons q rest =>
          cases hq : q.stmts[q.ptr]? with
          | none => left; simp [hq, hp, hw, hs, SQ.rest, drop_of_none _ _ hq]
          | some st =>
            right
            have hd := drop_of_getElem? _ _ _ hq
            have hac := fun ctl => applyCtl_abs ctl ({ stmts := q.stmts, ptr := q.ptr + 1 } :: rest)
            simp only [List.map_cons, List.flatten_cons, SQ.rest] at hac
            simp only [List.map_cons, List.flatten_cons, SQ.rest, hd, hq, List.cons_append, hac]
            rfl

end
end Ysgo

namespace Ysgo
set_option linter.unusedSimpArgs false
section
variable {σ π μ : Type}

/-- polling is idempotent when it lets `Next` continue -/
theorem poll_idem (d d' : Data σ π) (h : poll (μ := μ) d = (d', none)) : poll (μ := μ) d' = (d', none) := by
  unfold poll at h ⊢
  cases hp : d.pending with
  | none => simp [hp] at h; subst h; simp [hp]
  | some m =>
    cases m with
    | none => simp [hp] at h
    | some failed =>
      cases failed with
      | true => simp [hp] at h
      | false => simp [hp] at h; subst h; simp

/-- a flat step from the polled state is the flat step itself -/
theorem step_polled (env : Env σ) (mk : Markup π μ) (p : Program) (s : Flat σ π) (c : Nat) (d' : Data σ π)
    (h : poll (μ := μ) s.d = (d', none)) :
    ({ s with d := d' } : Flat σ π).step env mk p c = s.step env mk p c := by
  have h' := poll_idem (μ := μ) s.d d' h
  unfold Flat.step
  simp only [h, h']

/-- C01.1 lifted to `Next`: whatever `Next` of the machine returns, `Next` of the flat semantics returns from the
abstraction of the state, and the resulting states correspond -/
theorem next_refines_flat (env : Env σ) (mk : Markup π μ) (p : Program) :
    ∀ (f : Nat) (r r' : R σ π) (c : Nat) (o : Outcome (Elem μ)),
      r.next env mk p f c = (r', .out o) → ∃ f', r.abs.next env mk p f' c = (r'.abs, .out o)
  | 0, r, r', c, o, h => by simp [R.next] at h
  | f + 1, r, r', c, o, h => by
    unfold R.next at h
    have hsim := micro_sim env mk p r c
    cases hm : r.micro env mk p c with
    | mk r1 o1 =>
      rw [hm] at h hsim
      cases o1 with
      | some out =>
        simp only [Prod.mk.injEq, NextRes.out.injEq] at h
        obtain ⟨h1, h2⟩ := h
        subst h1 h2
        rcases hsim with ⟨hn, _⟩ | hr
        · simp at hn
        · refine ⟨1, ?_⟩
          simp only at hr
          unfold Flat.next
          rw [← hr]
      | none =>
        simp only at h
        obtain ⟨f', hf'⟩ := next_refines_flat env mk p f r1 r' c o h
        rcases hsim with ⟨_, ha⟩ | hr
        · -- stutter: the abstraction only changed by the poll
          simp only at ha
          cases f' with
          | zero => simp [Flat.next] at hf'
          | succ f'' =>
            refine ⟨f'' + 1, ?_⟩
            have hpoll : ∃ d', poll (μ := μ) r.d = (d', none) := by
              unfold R.micro at hm
              cases hp : poll (μ := μ) r.d with
              | mk d o2 =>
                cases o2 with
                | none => exact ⟨d, rfl⟩
                | some out => simp [hp] at hm
            obtain ⟨d', hd'⟩ := hpoll
            rw [ha] at hf'
            unfold Flat.next at hf' ⊢
            have : (poll (μ := μ) r.d).1 = d' := by rw [hd']
            rw [this] at hf'
            have hs := step_polled env mk p r.abs c d' (by simpa [R.abs] using hd')
            rw [hs] at hf'
            exact hf'
        · refine ⟨f' + 1, ?_⟩
          simp only at hr
          unfold Flat.next
          rw [← hr]
          simpa using hf'

end
end Ysgo
