import Ysgo.Lemmas.F64ToInt
import Ysgo.Lemmas.F64Conv
/-!
# F64 lemma library, part 15: `display` (Value.ToString on numbers) on every double

Extends `F64Conv` (doubles below 2^52) to all doubles: integer-valued doubles in the int64 range print as that integer,
integer-valued doubles outside it and all non-integral doubles go to `fmtG`.
-/
namespace Ysgo
namespace F64

/-- every finite double of magnitude at least 2^52 is an integer -/
theorem isInt_of_not_lt52 {x : F64} (hf : Finite x) (h : ¬ Lt52 x) : IsInt (val x) := by
  obtain ⟨s, m, e, hd, -, -, he, -⟩ := decode_ge52 hf h
  refine ⟨snum s (m * 2 ^ e.toNat), ?_⟩
  rw [val_of_decode hd, snum_cast]
  unfold fval
  push_cast
  rw [two_zpow_toNat e he]; ring

theorem lt52_of_not_isInt {x : F64} (hf : Finite x) (h : ¬ IsInt (val x)) : Lt52 x := by
  by_contra hn
  exact h (isInt_of_not_lt52 hf hn)

/-- converting the integer value of a double back to a double returns that value (also above 2^53, where
`float64(i)` rounds in general: this `i` is a double already) -/
theorem ofInt_of_val {x : F64} (hx : Finite x) (z : ℤ) (hz : (z : ℚ) = val x) :
    Finite (ofInt z) ∧ val (ofInt z) = val x := by
  by_cases h0 : z = 0
  · subst h0
    have : ofInt 0 = zero false := by unfold ofInt; simp
    rw [this, val_zero, ← hz]
    exact ⟨finite_zero _, by simp⟩
  · unfold ofInt
    rw [if_neg h0]
    have hr : Representable ((z.natAbs : ℚ) * 2 ^ (0 : ℤ)) := by
      apply (representable_val hx).of_abs_eq
      rw [zpow_zero, mul_one, ← hz, Nat.cast_natAbs, Int.cast_abs, abs_abs]
    obtain ⟨hf, hv⟩ := roundDyadic_val (decide (z < 0)) z.natAbs 0 (by omega) hr
    refine ⟨hf, ?_⟩
    rw [hv, zpow_zero, mul_one, sgn_natAbs, hz]

theorem P63_castZ : (((P63 : ℕ) : ℤ) : ℚ) = 2 ^ 63 := by norm_num [P63]

/-- `float64(math.MinInt64)` is exactly `-2^63` -/
theorem ofInt_minInt : Finite (ofInt (-(P63 : ℤ))) ∧ val (ofInt (-(P63 : ℤ))) = -(2 ^ 63) := by
  have h0 : -(P63 : ℤ) ≠ 0 := by unfold P63; omega
  unfold ofInt
  rw [if_neg h0]
  have hna : (-(P63 : ℤ)).natAbs = P63 := by omega
  have hr : Representable (((-(P63 : ℤ)).natAbs : ℚ) * 2 ^ (0 : ℤ)) := by
    rw [hna, zpow_zero, mul_one, P63_cast]
    exact representable_two_pow 63 (by omega)
  obtain ⟨hf, hv⟩ := roundDyadic_val (decide (-(P63 : ℤ) < 0)) (-(P63 : ℤ)).natAbs 0 (by omega) hr
  refine ⟨hf, ?_⟩
  rw [hv, zpow_zero, mul_one, sgn_natAbs]
  push_cast
  rw [P63_cast]

/-- integer-valued doubles in the int64 range: `Itoa(int(n))` -/
theorem display_int {x : F64} (hx : Finite x) (z : ℤ) (hz : (z : ℚ) = val x)
    (hlo : -(P63 : ℤ) ≤ z) (hhi : z < (P63 : ℤ)) : display x = itoa z := by
  have ht : toInt64 x = z := by
    rw [toInt64_of_isInt hx z hz]
    unfold sat64
    rw [if_neg (by omega)]
  obtain ⟨of, ov⟩ := ofInt_of_val hx z hz
  have : eq x (ofInt z) = true := (eq_iff_val hx of).mpr ov.symm
  unfold display
  simp only [ht, this, ↓reduceIte]

/-- integer-valued doubles outside the int64 range: `int(n)` is `-2^63`, the comparison fails, `fmt.Sprint` -/
theorem display_int_big {x : F64} (hx : Finite x) (z : ℤ) (hz : (z : ℚ) = val x)
    (hbig : z ≥ (P63 : ℤ) ∨ z < -(P63 : ℤ)) : display x = fmtG x := by
  have ht : toInt64 x = -(P63 : ℤ) := by
    rw [toInt64_of_isInt hx z hz]
    unfold sat64
    rw [if_pos hbig]
  obtain ⟨of, ov⟩ := ofInt_minInt
  have : ¬ (eq x (ofInt (-(P63 : ℤ))) = true) := by
    rw [eq_iff_val hx of, ov, ← hz]
    intro h
    have : (z : ℚ) = ((-(P63 : ℤ) : ℤ) : ℚ) := by rw [h]; push_cast; rw [P63_cast]
    have : z = -(P63 : ℤ) := by exact_mod_cast this
    unfold P63 at *
    omega
  unfold display
  simp only [ht, this, Bool.false_eq_true, ↓reduceIte]

/-- non-integral doubles: `fmt.Sprint` -/
theorem display_nonint {x : F64} (hx : Finite x) (h : ¬ IsInt (val x)) : display x = fmtG x :=
  display_of_not_isInt (lt52_of_not_isInt hx h) h

end F64
end Ysgo
