import Ysgo.Lemmas.ListenerSynLine
import Ysgo.Lemmas.ListenerExprWalk
/-!
# The listener on line statements (sub-language (b))

`CLine.walk_eq`: walking a conforming `line_statement` from an idle state (no single-slot callback set, no line statement
under construction) is the same as calling the line statement callback on top of its stack once, with the complete line:
text elements in order (adjacent TEXT tokens merged by the text callback), the condition, the tags.
-/
namespace Ysgo.Listener
open Ysgo

/-- between two statements: every single-slot callback is nil, no line statement is under construction -/
structure Idle (σ : State) : Prop where
  alive : σ.alive = true
  varCb : σ.variableCallback = none
  fnCb : σ.functionCallCallback = none
  textCb : σ.textCallback = none
  cmdTextCb : σ.commandTextCallback = none
  hashtagCb : σ.hashtagCallback = false
  line : σ.lineStatement = none
  proto : σ.protoCommandStatement = none

theorem Idle.of_sameCtl {σ τ : State} (hi : Idle σ) (h : SameCtl σ τ) : Idle τ where
  alive := h.alive.trans hi.alive
  varCb := h.varCb.trans hi.varCb
  fnCb := h.fnCb.trans hi.fnCb
  textCb := h.textCb.trans hi.textCb
  cmdTextCb := h.cmdTextCb.trans hi.cmdTextCb
  hashtagCb := h.hashtagCb.trans hi.hashtagCb
  line := by
    have := h.line
    rw [hi.line] at this
    simpa using this
  proto := h.proto.trans hi.proto

theorem walkList_append : ∀ (a b : List PT) (σ : State), walkList (a ++ b) σ = (walkList a σ).bind (walkList b)
  | [], b, σ => by simp
  | t :: a, b, σ => by
    simp only [List.cons_append, walkList_cons, Outcome.bind_assoc]
    congr 1
    funext τ
    exact walkList_append a b τ

/-! ### identities, the line with its identities -/

def CElem.cnt : CElem → Nat
  | .text _ => 0
  | .expr _ e => e.cnt

def CElem.cntList : List CElem → Nat
  | [] => 0
  | e :: es => e.cnt + CElem.cntList es

def CElem.hasCall : CElem → Bool
  | .text _ => false
  | .expr _ e => e.hasCall

def CElem.hasCallList : List CElem → Bool
  | [] => false
  | e :: es => e.hasCall || CElem.hasCallList es

/-- the text callback / the element callback applied to what has been built so far -/
def CElem.pStep (acc : List PElem) (n : Nat) : CElem → List PElem
  | .text s => appendText acc s
  | .expr _ e => acc ++ [.expr (e.pE n)]

def CElem.pFold : List CElem → List PElem → Nat → List PElem
  | [], acc, _ => acc
  | e :: es, acc, n => CElem.pFold es (CElem.pStep acc n e) (n + e.cnt)

def condCnt : Option (Tx × CExpr) → Nat
  | none => 0
  | some p => p.2.cnt

def CLine.cnt (l : CLine) : Nat := 1 + CElem.cntList l.elems + condCnt l.cond

def CLine.pL (l : CLine) (n : Nat) : PLine :=
  { text := some ⟨n, CElem.pFold l.elems [] (n + 1)⟩
    cond := l.cond.map fun p => p.2.pE (n + 1 + CElem.cntList l.elems)
    tags := l.tags.map (·.2) }

/-! ### the states of a line statement walk -/

/-- the listener state inside a line statement that started in `σ` -/
def lineState (σ : State) (l : PLine) (stk : List ExprCb) (tcb : Option Nat) (hash : Bool) (n : Nat)
    (fcb : Option FnCb) : State :=
  ((((σ.withLine (some l)).withHash hash).withText tcb).withE stk).ghost n fcb

@[simp] theorem lineState_next (σ : State) (l : PLine) (stk : List ExprCb) (tcb : Option Nat) (hash : Bool) (n : Nat) (fcb : Option FnCb) : (lineState σ l stk tcb hash n fcb).next = n := rfl
@[simp] theorem lineState_alive (σ : State) (l : PLine) (stk : List ExprCb) (tcb : Option Nat) (hash : Bool) (n : Nat) (fcb : Option FnCb) : (lineState σ l stk tcb hash n fcb).alive = σ.alive := rfl
@[simp] theorem lineState_nodes (σ : State) (l : PLine) (stk : List ExprCb) (tcb : Option Nat) (hash : Bool) (n : Nat) (fcb : Option FnCb) : (lineState σ l stk tcb hash n fcb).nodes = σ.nodes := rfl
@[simp] theorem lineState_node (σ : State) (l : PLine) (stk : List ExprCb) (tcb : Option Nat) (hash : Bool) (n : Nat) (fcb : Option FnCb) : (lineState σ l stk tcb hash n fcb).node = σ.node := rfl
@[simp] theorem lineState_lineStatement (σ : State) (l : PLine) (stk : List ExprCb) (tcb : Option Nat) (hash : Bool) (n : Nat) (fcb : Option FnCb) : (lineState σ l stk tcb hash n fcb).lineStatement = some l := rfl
@[simp] theorem lineState_shortcutOptionStatements (σ : State) (l : PLine) (stk : List ExprCb) (tcb : Option Nat) (hash : Bool) (n : Nat) (fcb : Option FnCb) : (lineState σ l stk tcb hash n fcb).shortcutOptionStatements = σ.shortcutOptionStatements := rfl
@[simp] theorem lineState_shortcutOptions (σ : State) (l : PLine) (stk : List ExprCb) (tcb : Option Nat) (hash : Bool) (n : Nat) (fcb : Option FnCb) : (lineState σ l stk tcb hash n fcb).shortcutOptions = σ.shortcutOptions := rfl
@[simp] theorem lineState_statementCallbacks (σ : State) (l : PLine) (stk : List ExprCb) (tcb : Option Nat) (hash : Bool) (n : Nat) (fcb : Option FnCb) : (lineState σ l stk tcb hash n fcb).statementCallbacks = σ.statementCallbacks := rfl
@[simp] theorem lineState_textCallback (σ : State) (l : PLine) (stk : List ExprCb) (tcb : Option Nat) (hash : Bool) (n : Nat) (fcb : Option FnCb) : (lineState σ l stk tcb hash n fcb).textCallback = tcb := rfl
@[simp] theorem lineState_expressionCallbacks (σ : State) (l : PLine) (stk : List ExprCb) (tcb : Option Nat) (hash : Bool) (n : Nat) (fcb : Option FnCb) : (lineState σ l stk tcb hash n fcb).expressionCallbacks = stk := rfl
@[simp] theorem lineState_lineStatementCallbacks (σ : State) (l : PLine) (stk : List ExprCb) (tcb : Option Nat) (hash : Bool) (n : Nat) (fcb : Option FnCb) : (lineState σ l stk tcb hash n fcb).lineStatementCallbacks = σ.lineStatementCallbacks := rfl
@[simp] theorem lineState_variableCallback (σ : State) (l : PLine) (stk : List ExprCb) (tcb : Option Nat) (hash : Bool) (n : Nat) (fcb : Option FnCb) : (lineState σ l stk tcb hash n fcb).variableCallback = σ.variableCallback := rfl
@[simp] theorem lineState_clauseCallbacks (σ : State) (l : PLine) (stk : List ExprCb) (tcb : Option Nat) (hash : Bool) (n : Nat) (fcb : Option FnCb) : (lineState σ l stk tcb hash n fcb).clauseCallbacks = σ.clauseCallbacks := rfl
@[simp] theorem lineState_functionCallCallback (σ : State) (l : PLine) (stk : List ExprCb) (tcb : Option Nat) (hash : Bool) (n : Nat) (fcb : Option FnCb) : (lineState σ l stk tcb hash n fcb).functionCallCallback = fcb := rfl
@[simp] theorem lineState_commandTextCallback (σ : State) (l : PLine) (stk : List ExprCb) (tcb : Option Nat) (hash : Bool) (n : Nat) (fcb : Option FnCb) : (lineState σ l stk tcb hash n fcb).commandTextCallback = σ.commandTextCallback := rfl
@[simp] theorem lineState_hashtagCallback (σ : State) (l : PLine) (stk : List ExprCb) (tcb : Option Nat) (hash : Bool) (n : Nat) (fcb : Option FnCb) : (lineState σ l stk tcb hash n fcb).hashtagCallback = hash := rfl
@[simp] theorem lineState_protoCommandStatement (σ : State) (l : PLine) (stk : List ExprCb) (tcb : Option Nat) (hash : Bool) (n : Nat) (fcb : Option FnCb) : (lineState σ l stk tcb hash n fcb).protoCommandStatement = σ.protoCommandStatement := rfl

theorem lineState_modify {σ : State} {b k : Nat} (m : Mut) (hb : Bounded σ b) (hk : b ≤ k) (l : PLine)
    (stk : List ExprCb) (hstk : stk.map (ExprCb.modify k m) = stk) (tcb : Option Nat) (hash : Bool) (n : Nat)
    (fcb : Option FnCb) :
    (lineState σ l stk tcb hash n fcb).modify k m = lineState σ (l.modify k m) stk tcb hash n fcb := by
  have h0 := State.modify_of_bounded m hb hk
  have : (lineState σ l stk tcb hash n fcb).modify k m
      = lineState (σ.modify k m) (l.modify k m) (stk.map (ExprCb.modify k m)) tcb hash n fcb := rfl
  rw [this, h0, hstk]

theorem appendText_ids (acc : List PElem) (s : String) : PElem.idsList (appendText acc s) = PElem.idsList acc := by
  unfold appendText
  rcases List.eq_nil_or_concat acc with rfl | ⟨init, x, rfl⟩
  · simp [PElem.idsList, PElem.ids]
  · cases x with
    | text t =>
      by_cases ht : t = ""
      · simp [ht, PElem.idsList_append, PElem.idsList, PElem.ids]
      · simp [ht, PElem.idsList_append, PElem.idsList, PElem.ids]
    | expr e => simp [PElem.idsList_append, PElem.idsList, PElem.ids]


theorem Bounded.lineState {σ : State} {n : Nat} (hb : Bounded σ n) (l : PLine) (hl : Below n l.ids) (stk : List ExprCb)
    (hstk : ∀ cb ∈ stk, Below n cb.ids) (tcb : Option Nat) (htcb : ∀ k, tcb = some k → k < n) (hash : Bool) (n' : Nat)
    (fcb : Option FnCb) : Bounded (lineState σ l stk tcb hash n' fcb) n :=
  ⟨hb.nodes, hb.node, (hl : Below n (optIds PLine.ids (some l))), hb.groups, hb.options, hb.stmtCbs, hstk, hb.lineCbs,
   hb.clauseCbs, htcb, hb.varCb, hb.cmdTextCb, hb.proto⟩

/-- the expression stack inside `line_formatted_text` -/
def stkT (k : Nat) (E : List ExprCb) : List ExprCb := .lineElem k :: .lineCond :: E

theorem stkT_modify {σ : State} {b k : Nat} (m : Mut) (hb : Bounded σ b) (hk : b ≤ k) (k' : Nat) :
    (stkT k' σ.expressionCallbacks).map (ExprCb.modify k m) = stkT k' σ.expressionCallbacks := by
  simp only [stkT, List.map, ExprCb.modify]
  rw [map_eq_self _ _ fun cb hcb => ExprCb.modify_of_not_mem k m cb ((hb.exprCbs cb hcb).not_mem hk)]

theorem stkT_below {σ : State} {b n k : Nat} (hb : Bounded σ b) (hbn : b ≤ n) (hk : k < n) :
    ∀ cb ∈ stkT k σ.expressionCallbacks, Below n cb.ids := by
  intro cb hcb
  simp only [stkT, List.mem_cons] at hcb
  rcases hcb with rfl | rfl | hcb
  · exact Below.cons hk (Below.nil _)
  · exact Below.nil _
  · exact (hb.exprCbs cb hcb).mono hbn

/-- the line while its text is being collected -/
def textLine (k : Nat) (acc : List PElem) : PLine := { text := some ⟨k, acc⟩ }

theorem textLine_ids (k : Nat) (acc : List PElem) : (textLine k acc).ids = k :: PElem.idsList acc := by
  simp [textLine, PLine.ids, optIds, PText.ids]

theorem textLine_modify_text (k : Nat) (acc : List PElem) (s : String) (h : k ∉ PElem.idsList acc) :
    (textLine k acc).modify k (.textText s) = textLine k (appendText acc s) := by
  simp [textLine, PLine.modify, PText.modify, PElem.map_modify_of_not_mem k _ acc h]

theorem textLine_modify_expr (k : Nat) (acc : List PElem) (e : PExpr) (h : k ∉ PElem.idsList acc) :
    (textLine k acc).modify k (.textExpr e) = textLine k (acc ++ [.expr e]) := by
  simp [textLine, PLine.modify, PText.modify, PElem.map_modify_of_not_mem k _ acc h]

theorem walk_elems {σ : State} {b k : Nat} (hb : Bounded σ b) (hk : b ≤ k) (hal : σ.alive = true)
    (hv : σ.variableCallback = none) : ∀ (es : List CElem), CElem.WFList es → ∀ (acc : List PElem) (n : Nat)
      (fcb : Option FnCb), k < n → Below n (PElem.idsList acc) → k ∉ PElem.idsList acc →
    walkList (CElem.toPTsList es)
        (lineState σ (textLine k acc) (stkT k σ.expressionCallbacks) (some k) true n fcb)
      = .ok (lineState σ (textLine k (CElem.pFold es acc n)) (stkT k σ.expressionCallbacks) (some k) true
          (n + CElem.cntList es) (clearIf (CElem.hasCallList es) fcb))
  | [], _, acc, n, fcb, _, _, _ => by
    simp [CElem.toPTsList, CElem.pFold, CElem.cntList, CElem.hasCallList, clearIf]
  | .text s :: es, hw, acc, n, fcb, hkn, hacc, hka => by
    simp only [CElem.WFList] at hw
    simp only [CElem.toPTsList, CElem.toPTs, List.cons_append, List.nil_append, walkList_cons, walk_tok]
    have h1 : visitTerminal .text s (lineState σ (textLine k acc) (stkT k σ.expressionCallbacks) (some k) true n fcb)
        = .ok (lineState σ (textLine k (appendText acc s)) (stkT k σ.expressionCallbacks) (some k) true n fcb) := by
      show Outcome.ok ((lineState σ (textLine k acc) (stkT k σ.expressionCallbacks) (some k) true n fcb).modify k
        (.textText s)) = _
      rw [lineState_modify _ hb hk _ _ (stkT_modify _ hb hk k), textLine_modify_text k acc s hka]
    rw [h1]
    simp only [Outcome.bind_ok]
    rw [walk_elems hb hk hal hv es hw.2 (appendText acc s) n fcb hkn (by rw [appendText_ids]; exact hacc)
      (by rw [appendText_ids]; exact hka)]
    simp [CElem.pFold, CElem.pStep, CElem.cntList, CElem.cnt, CElem.hasCallList, CElem.hasCall]
  | .expr tx e :: es, hw, acc, n, fcb, hkn, hacc, hka => by
    simp only [CElem.WFList, CElem.WF] at hw
    simp only [CElem.toPTsList, CElem.toPTs, List.cons_append, List.nil_append, walkList_cons, walk_tok, visitTerminal,
      Outcome.bind_ok]
    have hbχ : Bounded (lineState σ (textLine k acc) (stkT k σ.expressionCallbacks) (some k) true n fcb) n :=
      (hb.mono (by omega)).lineState _ (by rw [textLine_ids]; exact Below.cons hkn hacc) _
        (stkT_below hb (by omega) hkn) _ (fun k' hk' => by cases hk'; exact hkn) _ _ _
    rw [CExpr.spec e hw.1 (lineState σ (textLine k acc) (stkT k σ.expressionCallbacks) (some k) true n fcb) hal hv hbχ,
      deliverE_alive _ (lineState σ (textLine k acc) (stkT k σ.expressionCallbacks) (some k) true n fcb) hal]
    have h1 : callE (lineState σ (textLine k acc) (stkT k σ.expressionCallbacks) (some k) true n fcb).expressionCallbacks
        (e.pE n) (lineState σ (textLine k acc) (stkT k σ.expressionCallbacks) (some k) true n fcb)
        = .ok (lineState σ (textLine k (acc ++ [.expr (e.pE n)])) (stkT k σ.expressionCallbacks) (some k) true n fcb) := by
      show Outcome.ok ((lineState σ (textLine k acc) (stkT k σ.expressionCallbacks) (some k) true n fcb).modify k
        (.textExpr (e.pE n))) = _
      rw [lineState_modify _ hb hk _ _ (stkT_modify _ hb hk k), textLine_modify_expr k acc _ hka]
    have hn : (lineState σ (textLine k acc) (stkT k σ.expressionCallbacks) (some k) true n fcb).next = n := rfl
    have hf : (lineState σ (textLine k acc) (stkT k σ.expressionCallbacks) (some k) true n fcb).functionCallCallback
        = fcb := rfl
    rw [hn, hf, h1]
    simp only [Outcome.map_ok, Outcome.bind_ok]
    have hids := CExpr.ids_pE e n
    have h2 : (lineState σ (textLine k (acc ++ [.expr (e.pE n)])) (stkT k σ.expressionCallbacks) (some k) true n
        fcb).ghost (n + e.cnt) (clearIf e.hasCall fcb)
        = lineState σ (textLine k (acc ++ [.expr (e.pE n)])) (stkT k σ.expressionCallbacks) (some k) true (n + e.cnt)
            (clearIf e.hasCall fcb) := rfl
    rw [h2]
    simp only [walkList_cons, walk_tok, visitTerminal, Outcome.bind_ok]
    rw [walk_elems hb hk hal hv es hw.2 _ (n + e.cnt) _ (by omega)
      (by
        rw [PElem.idsList_append]
        exact (hacc.mono (by omega)).append (by simpa [PElem.idsList, PElem.ids] using hids.below))
      (by
        rw [PElem.idsList_append]
        simp only [List.mem_append, not_or]
        exact ⟨hka, by simpa [PElem.idsList, PElem.ids] using hids.not_mem hkn⟩)]
    simp [CElem.pFold, CElem.pStep, CElem.cntList, CElem.cnt, CElem.hasCallList, CElem.hasCall, clearIf_clearIf,
      Nat.add_assoc]



theorem pFold_ids : ∀ (es : List CElem) (acc : List PElem) (n lo : Nat), lo ≤ n → Within lo n (PElem.idsList acc) →
    Within lo (n + CElem.cntList es) (PElem.idsList (CElem.pFold es acc n))
  | [], acc, n, lo, _, h => by simpa [CElem.pFold, CElem.cntList] using h
  | .text s :: es, acc, n, lo, hlo, h => by
    have := pFold_ids es (appendText acc s) n lo hlo (by rw [appendText_ids]; exact h)
    simpa [CElem.pFold, CElem.pStep, CElem.cntList, CElem.cnt] using this
  | .expr tx e :: es, acc, n, lo, hlo, h => by
    have := pFold_ids es (acc ++ [.expr (e.pE n)]) (n + e.cnt) lo (by omega) (by
      rw [PElem.idsList_append]
      exact (h.mono (Nat.le_refl _) (by omega)).append
        (by simpa [PElem.idsList, PElem.ids] using (CExpr.ids_pE e n).mono hlo (Nat.le_refl _)))
    simpa [CElem.pFold, CElem.pStep, CElem.cntList, CElem.cnt, Nat.add_assoc] using this

theorem enter_lineStatement (cs : List PT) (σ : State) :
    enter .lineStatement cs σ = pushE .lineCond ((σ.withLine (some {})).withHash true) := rfl

theorem enter_lineFormattedText (cs : List PT) (σ : State) (l : PLine) (h : σ.lineStatement = some l) :
    enter .lineFormattedText cs σ
      = pushE (.lineElem σ.next)
          (((σ.withNext (σ.next + 1)).withLine (some { l with text := some ⟨σ.next, []⟩ })).withText (some σ.next)) := by
  simp only [enter, State.alloc, h]
  rfl

theorem exit_lineFormattedText (σ : State) : exit .lineFormattedText σ = popE (σ.withText none) := rfl

theorem exit_lineStatement (σ : State) :
    exit .lineStatement σ = (popE (σ.withHash false)).bind fun σ =>
      (deliverL σ.lineStatement σ).bind fun σ => .ok (σ.withLine none) := rfl

/-- `line_formatted_text` -/
theorem walk_formattedText {σ : State} (hi : Idle σ) (hb : Bounded σ σ.next) (es : List CElem) (hw : CElem.WFList es) :
    walk (.rule .lineFormattedText (CElem.toPTsList es))
        (lineState σ {} (.lineCond :: σ.expressionCallbacks) none true σ.next none)
      = .ok (lineState σ (textLine σ.next (CElem.pFold es [] (σ.next + 1))) (.lineCond :: σ.expressionCallbacks) none true
          (σ.next + 1 + CElem.cntList es) none) := by
  have hal : σ.alive = true := hi.alive
  rw [walk_rule, enter_lineFormattedText _ _ {} rfl]
  simp only [lineState_next, pushE_alive, hal, State.withText_alive, State.withLine_alive, State.withNext_alive,
    lineState_alive, Outcome.bind_ok]
  have h1 : ((((lineState σ {} (.lineCond :: σ.expressionCallbacks) none true σ.next none).withNext (σ.next + 1)).withLine
      (some { ({} : PLine) with text := some ⟨σ.next, []⟩ })).withText (some σ.next)).withE (.lineElem σ.next ::
        ((((lineState σ {} (.lineCond :: σ.expressionCallbacks) none true σ.next none).withNext (σ.next + 1)).withLine
      (some { ({} : PLine) with text := some ⟨σ.next, []⟩ })).withText (some σ.next)).expressionCallbacks)
      = lineState σ (textLine σ.next []) (stkT σ.next σ.expressionCallbacks) (some σ.next) true (σ.next + 1) none := by
    rfl
  rw [h1, walk_elems hb (Nat.le_refl _) hal hi.varCb es hw [] (σ.next + 1) none (Nat.lt_succ_self _)
    (by simp [PElem.idsList, Below.nil]) (by simp [PElem.idsList])]
  simp only [Outcome.bind_ok, exit_lineFormattedText]
  rw [popE_cons _ (.lineElem σ.next) (.lineCond :: σ.expressionCallbacks) ?_ ?_]
  · simp only [clearIf_none]
    rfl
  · exact hal
  · rfl



theorem dropFirstByte_tag (h t : String) (hh : oneAscii h = true) : dropFirstByte (h ++ t) = .ok t := by
  unfold oneAscii at hh
  unfold dropFirstByte
  cases hl : h.toList with
  | nil => simp [hl] at hh
  | cons c r =>
    cases r with
    | cons _ _ => simp [hl] at hh
    | nil =>
      simp only [hl] at hh
      have : (h ++ t).toList = c :: t.toList := by simp [String.toList_append, hl]
      simp_all

theorem ctxText_tag (h t : String) : ctxText [.tok .hashtag h, .tok .hashtagText t] = .ok (h ++ t) := by
  simp [ctxText, getText.go, getText]

theorem walk_tags {σ : State} (stk : List ExprCb) (n : Nat) (fcb : Option FnCb) :
    ∀ (ts : List (String × String)), (∀ t ∈ ts, oneAscii t.1 = true) → ∀ (l : PLine),
    walkList (ts.map tagPT) (lineState σ l stk none true n fcb)
      = .ok (lineState σ { l with tags := l.tags ++ ts.map (·.2) } stk none true n fcb)
  | [], _, l => by simp
  | t :: ts, h, l => by
    simp only [List.map, walkList_cons, tagPT, walk_rule, walk_tok, visitTerminal, Outcome.bind_ok]
    have h1 : enter .hashtag [.tok .hashtag t.1, .tok .hashtagText t.2] (lineState σ l stk none true n fcb)
        = .ok (lineState σ { l with tags := l.tags ++ [t.2] } stk none true n fcb) := by
      simp only [enter, ctxText_tag, dropFirstByte_tag _ _ (h t (by simp)), Outcome.bind_eq, Outcome.bind_ok,
        lineState_hashtagCallback, lineState_lineStatement, if_true]
      rfl
    rw [h1]
    simp only [Outcome.bind_ok, walkList_nil, exit]
    rw [walk_tags stk n fcb ts (fun t' ht' => h t' (by simp [ht'])) _]
    simp [List.append_assoc]

theorem deliverL_withLine (l : Option PLine) (σ : State) (x : Option PLine) :
    (deliverL l (σ.withLine x)).map (·.withLine none) = (deliverL l σ).map (·.withLine none) := by
  rcases σ with ⟨nx, al, ns, nd, ln, gs, so, sc, tc, ec, lc, vc, cc, fc, ctc, hc, pc⟩
  cases al
  · rfl
  · cases lc with
    | nil => rfl
    | cons cb r =>
      cases cb with
      | nodeLine => cases nd <;> rfl
      | optLine k => rfl
      | clauseLine k => rfl

theorem withLine_none_of_sameCtl {σ τ : State} (h : SameCtl σ τ) (hl : σ.lineStatement = none) : τ.withLine none = τ := by
  have := h.line
  rw [hl] at this
  have h2 : τ.lineStatement = none := by simpa using this
  rw [← h2]
  rfl

theorem deliverL_map_withLine_none (l : Option PLine) (σ : State) (hl : σ.lineStatement = none) :
    (deliverL l σ).map (·.withLine none) = deliverL l σ := by
  cases h : deliverL l σ with
  | ok τ => simp [withLine_none_of_sameCtl (deliverL_ok h) hl]
  | panic => rfl
  | unmodelled => rfl



theorem lineState_of_idle {σ : State} (hi : Idle σ) (l : PLine) (hash : Bool) (stk : List ExprCb) :
    ((σ.withLine (some l)).withHash hash).withE stk = lineState σ l stk none hash σ.next none := by
  have h1 := hi.textCb
  have h2 := hi.fnCb
  rcases σ with ⟨nx, al, ns, nd, ln, gs, so, sc, tc, ec, lc, vc, cc, fc, ctc, hc, pc⟩
  simp only at h1 h2
  subst h1 h2
  rfl

/-- the `line_condition?` part -/
theorem walk_cond {σ : State} (hi : Idle σ) (hb : Bounded σ σ.next) (k n : Nat) (els : List PElem) (hk : k < n)
    (hels : Below n (PElem.idsList els)) (hkσ : σ.next ≤ n) :
    ∀ (cond : Option (Tx × CExpr)), (∀ tx c, cond = some (tx, c) → c.WF) →
    walkList (condPTs cond) (lineState σ (textLine k els) (.lineCond :: σ.expressionCallbacks) none true n none)
      = .ok (lineState σ { text := some ⟨k, els⟩, cond := cond.map fun p => p.2.pE n }
          (.lineCond :: σ.expressionCallbacks) none true (n + condCnt cond) none)
  | none, _ => by simp [condPTs, condCnt, textLine]
  | some (tx, c), h => by
    simp only [condPTs, walkList_cons, walk_rule, walk_tok, visitTerminal, Outcome.bind_ok, walkList_nil]
    have hen : ∀ cs τ, enter .lineCondition cs τ = .ok τ := fun _ _ => rfl
    have hex : ∀ τ, exit .lineCondition τ = .ok τ := fun _ => rfl
    rw [hen]
    simp only [Outcome.bind_ok]
    have hbχ : Bounded (lineState σ (textLine k els) (.lineCond :: σ.expressionCallbacks) none true n none) n :=
      (hb.mono hkσ).lineState _ (by rw [textLine_ids]; exact Below.cons hk hels) _
        (fun cb hcb => by
          rcases List.mem_cons.1 hcb with rfl | hcb
          · exact Below.nil _
          · exact (hb.exprCbs cb hcb).mono hkσ) _ (fun _ h => by cases h) _ _ _
    rw [CExpr.spec c (h tx c rfl)
      (lineState σ (textLine k els) (.lineCond :: σ.expressionCallbacks) none true n none) hi.alive hi.varCb hbχ]
    rw [deliverE_alive _ (lineState σ (textLine k els) (.lineCond :: σ.expressionCallbacks) none true n none) hi.alive]
    simp only [lineState_expressionCallbacks, lineState_next, lineState_functionCallCallback, clearIf_none]
    have h1 : callE (.lineCond :: σ.expressionCallbacks) (c.pE n)
        (lineState σ (textLine k els) (.lineCond :: σ.expressionCallbacks) none true n none)
        = .ok (lineState σ { text := some ⟨k, els⟩, cond := some (c.pE n) }
            (.lineCond :: σ.expressionCallbacks) none true n none) := rfl
    rw [h1]
    simp only [Outcome.map_ok, Outcome.bind_ok, hex, condCnt, Option.map]
    rfl

theorem lineState_final {σ : State} (hi : Idle σ) (l : PLine) (stk : List ExprCb) (n : Nat) :
    ((lineState σ l stk none true n none).withHash false).withE σ.expressionCallbacks
      = (σ.withLine (some l)).ghost n none := by
  have h1 := hi.textCb
  have h2 := hi.hashtagCb
  rcases σ with ⟨nx, al, ns, nd, ln, gs, so, sc, tc, ec, lc, vc, cc, fc, ctc, hc, pc⟩
  simp only at h1 h2
  subst h1 h2
  rfl

theorem Outcome.bind_ok_comp {α β} (x : Outcome α) (f : α → β) : (x.bind fun a => .ok (f a)) = x.map f := by
  cases x <;> rfl

theorem CLine.walk_eq (l : CLine) (h : l.WF) (σ : State) (hi : Idle σ) (hb : Bounded σ σ.next) :
    walk l.toPT σ = (deliverL (some (l.pL σ.next)) σ).map (·.ghost (σ.next + l.cnt) none) := by
  have hal := hi.alive
  rw [CLine.toPT, walk_rule, enter_lineStatement, pushE_alive _ ((σ.withLine (some {})).withHash true) hal]
  simp only [Outcome.bind_ok, State.withHash_expressionCallbacks, State.withLine_expressionCallbacks]
  rw [lineState_of_idle hi, walkList_cons, walk_formattedText hi hb l.elems h.elems]
  simp only [Outcome.bind_ok]
  rw [walkList_append]
  have hids := pFold_ids l.elems [] (σ.next + 1) (σ.next + 1) (Nat.le_refl _) (by simp [PElem.idsList, Within.nil])
  rw [walk_cond hi hb σ.next (σ.next + 1 + CElem.cntList l.elems) _ (by omega) hids.below (by omega) l.cond h.cond]
  simp only [Outcome.bind_ok]
  rw [walkList_append, walk_tags _ _ _ l.tags h.tags]
  simp only [Outcome.bind_ok, walkList_cons, walk_tok, visitTerminal, walkList_nil, exit_lineStatement, List.nil_append]
  rw [popE_cons _ .lineCond σ.expressionCallbacks ?_ ?_]
  rotate_left
  · exact hal
  · rfl
  simp only [Outcome.bind_ok]
  rw [lineState_final hi]
  have hn : σ.next + 1 + CElem.cntList l.elems + condCnt l.cond = σ.next + l.cnt := by
    simp only [CLine.cnt]; omega
  rw [hn]
  show ((deliverL (some (l.pL σ.next)) ((σ.withLine (some (l.pL σ.next))).ghost (σ.next + l.cnt) none)).bind _) = _
  rw [deliverL_ghost, Outcome.bind_ok_comp, Outcome.map_map]
  have : ((fun τ : State => τ.withLine none) ∘ fun τ : State => τ.ghost (σ.next + l.cnt) none)
      = (fun τ : State => τ.ghost (σ.next + l.cnt) none) ∘ fun τ : State => τ.withLine none := rfl
  rw [this, ← Outcome.map_map, deliverL_withLine, deliverL_map_withLine_none _ _ hi.line]



/-- a text in front of elements under construction: the right-to-left reading of "adjacent texts are one element" -/
def consTextP (s : String) : List PElem → List PElem
  | .text t :: r => .text (s ++ t) :: r
  | r => .text s :: r

/-- the elements of a line, read right to left -/
def CElem.specList : List CElem → Nat → List PElem
  | [], _ => []
  | .text s :: es, n => consTextP s (CElem.specList es n)
  | .expr _ e :: es, n => .expr (e.pE n) :: CElem.specList es (n + e.cnt)

/-- what has been built, followed by what is still to come -/
def joinP (a b : List PElem) : List PElem :=
  match a.getLast?, b with
  | some (.text s), .text t :: r => a.dropLast ++ .text (s ++ t) :: r
  | _, _ => a ++ b

def TextsNonempty (l : List PElem) : Prop := ∀ s, PElem.text s ∈ l → s ≠ ""

theorem joinP_nil_left (b : List PElem) : joinP [] b = b := by simp [joinP]
theorem joinP_nil_right (a : List PElem) : joinP a [] = a := by
  unfold joinP
  split <;> simp_all

theorem joinP_appendText (a : List PElem) (s : String) (X : List PElem) (ha : TextsNonempty a) :
    joinP (appendText a s) X = joinP a (consTextP s X) := by
  rcases List.eq_nil_or_concat a with rfl | ⟨init, x, rfl⟩
  · cases X with
    | nil => simp [appendText, joinP, consTextP]
    | cons y r => cases y <;> simp [appendText, joinP, consTextP]
  · cases x with
    | expr e =>
      cases X with
      | nil => simp [appendText, joinP, consTextP]
      | cons y r => cases y <;> simp [appendText, joinP, consTextP]
    | text t0 =>
      have ht0 : t0 ≠ "" := ha t0 (by simp)
      cases X with
      | nil => simp [appendText, joinP, consTextP, ht0]
      | cons y r => cases y <;> simp [appendText, joinP, consTextP, ht0, String.append_assoc]

theorem joinP_append_expr (a : List PElem) (e : PExpr) (X : List PElem) :
    joinP (a ++ [.expr e]) X = joinP a (.expr e :: X) := by
  have h2 : joinP a (.expr e :: X) = a ++ .expr e :: X := by
    unfold joinP
    split <;> simp_all
  rw [h2]
  unfold joinP
  split
  · next heq =>
    simp at heq
  · rw [List.append_assoc]; rfl

theorem append_ne_empty (a b : String) (h : a ≠ "") : a ++ b ≠ "" := by
  intro hab
  apply h
  have := congrArg String.length hab
  simp only [String.length_append, String.length_empty] at this
  have h0 : a.length = 0 := by omega
  exact String.length_eq_zero_iff.1 h0

theorem textsNonempty_appendText (a : List PElem) (s : String) (ha : TextsNonempty a) (hs : s ≠ "") :
    TextsNonempty (appendText a s) := by
  intro t ht
  rcases List.eq_nil_or_concat a with rfl | ⟨init, x, rfl⟩
  · simp [appendText] at ht
    exact ht ▸ hs
  · cases x with
    | expr e =>
      simp [appendText] at ht
      rcases ht with ht | ht
      · exact ha t (by simp [ht])
      · exact ht ▸ hs
    | text t0 =>
      have ht0 : t0 ≠ "" := ha t0 (by simp)
      simp [appendText, ht0] at ht
      rcases ht with ht | ht
      · exact ha t (by simp [ht])
      · exact ht ▸ append_ne_empty t0 s ht0

theorem pFold_eq_join : ∀ (es : List CElem), CElem.WFList es → ∀ (acc : List PElem) (n : Nat), TextsNonempty acc →
    CElem.pFold es acc n = joinP acc (CElem.specList es n)
  | [], _, acc, n, _ => by simp [CElem.pFold, CElem.specList, joinP_nil_right]
  | .text s :: es, hw, acc, n, ha => by
    simp only [CElem.WFList, CElem.WF] at hw
    simp only [CElem.pFold, CElem.pStep, CElem.cnt, Nat.add_zero, CElem.specList]
    rw [pFold_eq_join es hw.2 _ n (textsNonempty_appendText acc s ha hw.1), joinP_appendText acc s _ ha]
  | .expr tx e :: es, hw, acc, n, ha => by
    simp only [CElem.WFList, CElem.WF] at hw
    simp only [CElem.pFold, CElem.pStep, CElem.cnt, CElem.specList]
    rw [pFold_eq_join es hw.2 _ (n + e.cnt) (by
      intro t ht
      simp at ht
      exact ha t ht), joinP_append_expr]



theorem reifyElems_consTextP (s : String) (l : List PElem) :
    reifyElems (consTextP s l) = (reifyElems l).map (Translate.consText s) := by
  cases l with
  | nil => simp [consTextP, reifyElems, PElem.reify, Translate.consText]
  | cons x r =>
    cases x with
    | text t =>
      simp only [consTextP, reifyElems, PElem.reify]
      cases reifyElems r <;> simp [Translate.consText]
    | expr e =>
      simp only [consTextP, reifyElems, PElem.reify]
      cases e.reify <;> cases reifyElems r <;> simp [Translate.consText]

theorem reify_specList : ∀ (es : List CElem) (n : Nat), reifyElems (CElem.specList es n) = some (CElem.trList es)
  | [], _ => by simp [CElem.specList, reifyElems, CElem.trList]
  | .text s :: es, n => by
    simp [CElem.specList, reifyElems_consTextP, reify_specList es n, CElem.trList]
  | .expr tx e :: es, n => by
    simp [CElem.specList, reifyElems, PElem.reify, CExpr.reify_pE, reify_specList es, CElem.trList]

theorem CLine.reify_pL (l : CLine) (h : l.WF) (n : Nat) : (l.pL n).reify = some l.tr := by
  have h1 : CElem.pFold l.elems [] (n + 1) = CElem.specList l.elems (n + 1) := by
    rw [pFold_eq_join l.elems h.elems [] (n + 1) (fun s hs => by simp at hs), joinP_nil_left]
  unfold CLine.pL PLine.reify
  simp only [h1, reify_specList]
  cases hc : l.cond with
  | none => simp [CLine.tr, hc]
  | some p => simp [CLine.tr, hc, CExpr.reify_pE]

theorem CLine.ids_pL (l : CLine) (n : Nat) : Within n (n + l.cnt) (l.pL n).ids := by
  have hids := pFold_ids l.elems [] (n + 1) (n + 1) (Nat.le_refl _) (by simp [PElem.idsList, Within.nil])
  unfold CLine.pL CLine.cnt
  simp only [PLine.ids, optIds, PText.ids]
  refine Within.append (Within.cons (by omega) (hids.mono (by omega) (by omega))) ?_
  cases hc : l.cond with
  | none => simp [Within.nil]
  | some p =>
    simp only [Option.map, condCnt]
    exact (CExpr.ids_pE p.2 _).mono (by omega) (by omega)



end Ysgo.Listener
