import Ysgo.Model.Runner
/-!
# Fuel: the well-formedness predicate `Productive`, nested sizes and the explicit fuel bound (core only, executable)

`Next` of `runner.go` calls itself (tail call) after every statement that yields nothing, so a script that can loop
without ever presenting a line or an option group (a node consisting of `<<jump A>>` only) never returns in Go; in the
model this is "every fuel is exhausted". `Productive` excludes such scripts: the body of every node starts with a
statement that always produces an output (a line or an option group). The generators of the framework only produce
programs whose nodes start with a line (`NodesStartWithLine`), which is the special case used everywhere.

The measure that bounds the number of iterations of `micro` inside one `Next` is the *nested size* of what is left on
the stack of queues: every statement counts 1 plus, for every option body / if-clause body it contains, 1 + the nested
size of that body; every queue on the stack counts 1 more (it has to be popped).
-/
namespace Ysgo.Fuel
open Ysgo

/-! ### nested sizes -/
mutual
/-- a statement with everything nested in it: 1 + Σ over its option bodies / clause bodies of (1 + size of the body) -/
def stmtSize : Stmt → Nat
  | .opts os => 1 + optsSize os
  | .ifs cs => 1 + ifsSize cs
  | _ => 1
/-- the nested size of a list of statements -/
def bodySize : List Stmt → Nat
  | [] => 0
  | s :: ss => stmtSize s + bodySize ss
def optsSize : List (LineSpec × List Stmt) → Nat
  | [] => 0
  | o :: os => (1 + bodySize o.2) + optsSize os
def ifsSize : List (Expr × List Stmt) → Nat
  | [] => 0
  | c :: cs => (1 + bodySize c.2) + ifsSize cs
end

/-- the bodies of the option group a choice is expected for: 1 + Σ (1 + size of the body) -/
def bodiesSize : List (List Stmt) → Nat
  | [] => 0
  | b :: bs => (1 + bodySize b) + bodiesSize bs

def waitSize : Option (List (List Stmt)) → Nat
  | none => 0
  | some bodies => 1 + bodiesSize bodies

/-- what is left on the stack: every queue counts 1 + the nested size of its unread statements -/
def stackSize : List SQ → Nat
  | [] => 0
  | q :: qs => (1 + bodySize q.rest) + stackSize qs

/-- the measure of a runner state: strictly decreased by every iteration of `Next` that yields nothing and is not a jump -/
def msr {σ π : Type} (r : R σ π) : Nat := stackSize r.stack + waitSize r.waiting

/-- the explicit fuel bound for one call of `Next` from the state `r` (any state whatsoever) -/
def bound {σ π : Type} (r : R σ π) : Nat := msr r + 2

/-- the largest node: `1 + nested size of the body`, maximised over the nodes -/
def maxNode : Program → Nat
  | [] => 0
  | n :: ns => Nat.max (1 + bodySize n.body) (maxNode ns)

/-- the fuel bound for a call of `Next` from any state reachable from `R.init` / `R.restore`: it depends on the program only -/
def progBound (p : Program) : Nat := maxNode p + 2

/-! ### the predicate -/

/-- does the statement always produce an output (element or error) when executed? lines and option groups do -/
def yields : Stmt → Bool
  | .line _ => true
  | .opts _ => true
  | _ => false

/-- the body starts with a statement that always produces an output -/
def startsYielding : List Stmt → Bool
  | s :: _ => yields s
  | [] => false

/-- `Productive p`: the body of every node starts with a yielding statement (a line or an option group); hence every
cycle of the jump graph passes through a yielding statement and `Next` always returns. Decidable (a `Bool`). -/
def Productive (p : Program) : Bool := p.all (fun n => startsYielding n.body)

/-- what the generators guarantee: the body of every node starts with a line -/
def NodesStartWithLine (p : Program) : Prop := ∀ n ∈ p, ∃ l rest, n.body = .line l :: rest

/-! ### two example programs (used by the non-vacuity examples of `Props/C01Fuel.lean`) -/

/-- two nodes in a jump cycle A → B → A, each starting with a line: productive -/
def cycleAB : Program :=
  [ { title := "A", body := [.line { elems := [.inl "a"] }, .jump (.lit (.str "B"))] },
    { title := "B", body := [.line { elems := [.inl "b"] }, .jump (.lit (.str "A"))] } ]

/-- the only node consists of `<<jump A>>`: not productive, `Next` never returns -/
def loopA : Program := [{ title := "A", body := [.jump (.lit (.str "A"))] }]

end Ysgo.Fuel
