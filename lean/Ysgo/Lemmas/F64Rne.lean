import Ysgo.Lemmas.F64Round
/-!
# F64 lemma library, part 8 (core only): round-half-even bounds and the common tail of `roundDyadic` / `roundQuot`
-/
namespace Ysgo
namespace F64

/-- `rne N D` is within half a unit of `N / D`, scaled by `D`: `2·|rne·D − N| ≤ D` -/
theorem rne_bound (N D : Nat) (hD : 0 < D) :
    2 * (rne N D * D) ≤ 2 * N + D ∧ 2 * N ≤ 2 * (rne N D * D) + D := by
  have hdm := Nat.div_add_mod N D
  have hr := Nat.mod_lt N hD
  unfold rne
  simp only []
  generalize N / D = q at *
  generalize N % D = r at *
  have e1 : q * D = D * q := Nat.mul_comm _ _
  have e2 : (q + 1) * D = D * q + D := by rw [Nat.add_mul, Nat.one_mul, e1]
  generalize D * q = P at *
  split
  · rw [e1]; omega
  · split
    · rw [e2]; omega
    · split
      · rw [e1]; omega
      · rw [e2]; omega

theorem rne_ge (N D a : Nat) (hD : 0 < D) (h : a * D ≤ N) : a ≤ rne N D := by
  have hq : a ≤ N / D := (Nat.le_div_iff_mul_le hD).mpr h
  unfold rne
  simp only []
  generalize N / D = q at *
  split
  · exact hq
  · split
    · omega
    · split <;> omega

theorem rne_le (N D b : Nat) (hD : 0 < D) (h : N ≤ b * D) : rne N D ≤ b := by
  have hdm := Nat.div_add_mod N D
  have hr := Nat.mod_lt N hD
  have hq : N / D ≤ b := by
    calc N / D ≤ b * D / D := Nat.div_le_div_right h
      _ = b := Nat.mul_div_cancel b hD
  rcases Nat.lt_or_ge (N / D) b with hlt | hge
  · -- q + 1 ≤ b
    unfold rne
    simp only []
    generalize N / D = q at *
    split
    · omega
    · split
      · omega
      · split <;> omega
  · -- q = b, so r = 0 and the result is q
    have hqb : N / D = b := by omega
    have hr0 : N % D = 0 := by
      have : b * D = D * b := Nat.mul_comm _ _
      rw [hqb] at hdm
      omega
    unfold rne
    simp only []
    rw [hr0, hqb]
    simp [hD]

/-- the common tail of `roundDyadic` and `roundQuot`: renormalise a mantissa `m ≤ 2^53` at exponent `e` and pack -/
def finish (s : Bool) (m : Nat) (e : Int) : F64 :=
  let m' := if m = P53 then P52 else m
  let e'' := if m = P53 then e + 1 else e
  if m' < P52 then pack s 0 m'
  else if e'' + 1075 ≥ 2047 then inf s else pack s (e'' + 1075).toNat (m' - P52)

theorem roundDyadic_eq_finish (s : Bool) (N : Nat) (e : Int) :
    roundDyadic s N e =
      finish s (if e ≥ max (e + (Nat.log2 N : Int) - 52) (-1074)
          then N * 2 ^ (e - max (e + (Nat.log2 N : Int) - 52) (-1074)).toNat
          else rne N (2 ^ (max (e + (Nat.log2 N : Int) - 52) (-1074) - e).toNat))
        (max (e + (Nat.log2 N : Int) - 52) (-1074)) := rfl

theorem roundQuot_eq_finish (s : Bool) (n d : Nat) :
    roundQuot s n d =
      finish s (if (if ilog2q n d - 52 < -1074 then -1074 else ilog2q n d - 52) ≥ 0
          then rne n (d * 2 ^ (if ilog2q n d - 52 < -1074 then -1074 else ilog2q n d - 52).toNat)
          else rne (n * 2 ^ (-(if ilog2q n d - 52 < -1074 then -1074 else ilog2q n d - 52)).toNat) d)
        (if ilog2q n d - 52 < -1074 then -1074 else ilog2q n d - 52) := rfl

/-- the packed result has the value `m·2^e` (possibly renormalised as `2^52·2^(e+1)`) -/
theorem decode_finish (s : Bool) (m : Nat) (e : Int) (hm : m ≤ P53) (hlo : P52 ≤ m ∨ e = -1074)
    (he1 : -1074 ≤ e) (he2 : e ≤ 970) :
    ∃ M E, decode (finish s m e) = .fin s M E ∧ ((M = m ∧ E = e) ∨ (m = P53 ∧ M = P52 ∧ E = e + 1)) := by
  unfold finish
  by_cases h53 : m = P53
  · subst h53
    simp only [↓reduceIte]
    rw [if_neg (by omega), if_neg (by omega)]
    refine ⟨P52, e + 1, ?_, Or.inr ⟨trivial, rfl, rfl⟩⟩
    rw [decode_pack_norm s _ _ (by omega) (by omega) (by unfold P52; omega)]
    congr 1 <;> omega
  · simp only [h53, ↓reduceIte]
    by_cases hsub : m < P52
    · rw [if_pos hsub]
      have he : e = -1074 := by omega
      exact ⟨m, e, by rw [decode_pack_sub s m hsub, he], Or.inl ⟨rfl, rfl⟩⟩
    · rw [if_neg hsub, if_neg (by omega)]
      refine ⟨m, e, ?_, Or.inl ⟨rfl, rfl⟩⟩
      rw [decode_pack_norm s _ _ (by omega) (by omega) (by unfold P52 P53 at *; omega)]
      congr 1 <;> omega

end F64
end Ysgo
