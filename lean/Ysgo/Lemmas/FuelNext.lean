import Ysgo.Lemmas.FuelWf
/-!
# Fuel: from one iteration to `Next` — the induction on the fuel, and the invariants along `Next`
-/
namespace Ysgo.Fuel
open Ysgo
set_option linter.unusedSimpArgs false

section
variable {σ π μ : Type}

/-- a call of `Next` from the state right after a successful jump returns at its first iteration -/
theorem next_jumped (env : Env σ) (mk : Markup π μ) (p : Program) (hp : Productive p = true) (r : R σ π) (c : Nat)
    (hj : Jumped p r.stack r.waiting) (f : Nat) : (r.next env mk p (f + 1) c).2 ≠ .fuel := by
  have h := step_jumped_yields hp hj (micro_step env mk p r c)
  unfold R.next
  cases hm : r.micro env mk p c with
  | mk r1 o1 =>
    rw [hm] at h
    cases o1 with
    | some out => simp
    | none => exact absurd rfl h

/-- the induction: fuel `msr r + 2` is enough -/
theorem next_fuel_aux (env : Env σ) (mk : Markup π μ) (p : Program) (hp : Productive p = true) (c : Nat) :
    ∀ (f : Nat) (r : R σ π), msr r + 2 ≤ f → (r.next env mk p f c).2 ≠ .fuel
  | 0, r, h => by omega
  | f + 1, r, h => by
    have hs := micro_step env mk p r c
    unfold R.next
    cases hm : r.micro env mk p c with
    | mk r1 o1 =>
      rw [hm] at hs
      cases o1 with
      | some out => simp
      | none =>
        simp only at hs ⊢
        rcases step_silent_measure hs with hlt | hj
        · exact next_fuel_aux env mk p hp c f r1 (by unfold msr at h ⊢; omega)
        · cases f with
          | zero => omega
          | succ f' => exact next_jumped env mk p hp r1 c hj f'

/-! ### the invariants along `micro` and `next` -/

theorem micro_wf (env : Env σ) (mk : Markup π μ) (p : Program) (r : R σ π) (c : Nat) (h : Wf p r) :
    Wf p (r.micro env mk p c).1 := by
  obtain ⟨h1, h2⟩ := step_wf (micro_step env mk p r c) h.stack h.waiting
  exact ⟨h1, h2⟩

theorem micro_reach (env : Env σ) (mk : Markup π μ) (p : Program) (r : R σ π) (c : Nat) (h : Reach p r) :
    Reach p (r.micro env mk p c).1 := by
  obtain ⟨h1, h2⟩ := step_reach (micro_step env mk p r c) h.chain h.waiting
  exact ⟨h1, h2⟩

theorem next_wf (env : Env σ) (mk : Markup π μ) (p : Program) (c : Nat) :
    ∀ (f : Nat) (r : R σ π), Wf p r → Wf p (r.next env mk p f c).1
  | 0, r, h => by simpa [R.next] using h
  | f + 1, r, h => by
    have h1 := micro_wf env mk p r c h
    unfold R.next
    cases hm : r.micro env mk p c with
    | mk r1 o1 =>
      rw [hm] at h1
      cases o1 with
      | some out => exact h1
      | none => exact next_wf env mk p c f r1 h1

theorem next_reach (env : Env σ) (mk : Markup π μ) (p : Program) (c : Nat) :
    ∀ (f : Nat) (r : R σ π), Reach p r → Reach p (r.next env mk p f c).1
  | 0, r, h => by simpa [R.next] using h
  | f + 1, r, h => by
    have h1 := micro_reach env mk p r c h
    unfold R.next
    cases hm : r.micro env mk p c with
    | mk r1 o1 =>
      rw [hm] at h1
      cases o1 with
      | some out => exact h1
      | none => exact next_reach env mk p c f r1 h1

end

/-! ### a whole session -/
section
variable {σ π μ : Type}

/-- successive calls of `Next`, one per element of `cs` (the argument of each call), every call with fuel `f`:
the results in order -/
def session (env : Env σ) (mk : Markup π μ) (p : Program) (f : Nat) : R σ π → List Nat → List (NextRes μ)
  | _, [] => []
  | r, c :: cs => (r.next env mk p f c).2 :: session env mk p f (r.next env mk p f c).1 cs

theorem session_no_fuel (env : Env σ) (mk : Markup π μ) (p : Program) (hp : Productive p = true) :
    ∀ (cs : List Nat) (r : R σ π), Reach p r → ∀ x, x ∈ session env mk p (progBound p) r cs → x ≠ .fuel
  | [], r, h, x, hx => by cases hx
  | c :: cs, r, h, x, hx => by
    simp only [session, List.mem_cons] at hx
    rcases hx with hx | hx
    · rw [hx]
      have := reach_msr h
      exact next_fuel_aux env mk p hp c (progBound p) r (by unfold progBound; omega)
    · exact session_no_fuel env mk p hp cs _ (next_reach env mk p c _ r h) x hx

end

/-! ### the initial states -/
section
variable {σ π : Type}

theorem init_reach (p : Program) (store : Store) (w : W σ) (ms : π) (r : R σ π) (h : R.init p store w ms = some r) :
    Reach p r := by
  unfold R.init at h
  cases p with
  | nil => cases h
  | cons n ns =>
    simp only [Option.some.injEq] at h
    subst h
    exact ⟨.root n List.mem_cons_self 0, by intro b hb; cases hb⟩

theorem restore_reach (p : Program) (r0 r : R σ π) (s : Snapshot) (h : R.restore p r0 s = some r) : Reach p r := by
  unfold R.restore at h
  split at h
  · cases h
  · rename_i n hf
    simp only [Option.some.injEq] at h
    subst h
    exact ⟨.root n (find_mem hf) 0, by intro b hb; cases hb⟩

end
end Ysgo.Fuel
