import Ysgo.Lemmas.ListenerStmtWalk
/-!
# The listener on statements that contain statements (sub-language (c)): blocks, option groups, if statements

An option is built on the option-group stack and handed on when the group ends: its state is explicit (`oState`).
An if statement and its clauses are handed on when they are entered and filled in afterwards: the invariant is
`deliverS (the statement built so far) σ = ok τ` for the state `τ` the listener's data is in.
-/
namespace Ysgo.Listener
open Ysgo

theorem CStmt.spec_block (tx : Tx) (ss : List CStmt) (h : StmtsSpec ss) : (CStmt.block tx ss).Spec := by
  intro σ hi hb
  simp only [CStmt.toPT, CStmt.pS, CStmt.cnt]
  rw [walk_rule, enter_statement]
  simp only [Outcome.bind_ok, walkList_cons, walk_tok, visitTerminal, walkList_append, h σ hi hb]
  rw [Outcome.bind_id_of _ (walkList _) (fun τ => by simp [walkList_cons, walk_tok, visitTerminal]),
    Outcome.bind_id_of _ _ exit_statement]

/-! ### option groups -/

/-- between two options of a group that started in `σ`: `g` are the options built so far -/
def gState (σ : State) (g : List POpt) (n : Nat) : State :=
  (σ.withGroups (g :: σ.shortcutOptionStatements)).ghost n none

/-- inside the option `o` (the last one of the group) with identity `k` -/
def oState (σ : State) (g : List POpt) (o : POpt) (k n : Nat) : State :=
  (((σ.withGroups ((g ++ [o]) :: σ.shortcutOptionStatements)).withL (.optLine k :: σ.lineStatementCallbacks)).withS
    (.optStmt k :: σ.statementCallbacks)).ghost n none

theorem oState_modify {σ : State} {b k : Nat} (hb : Bounded σ b) (hk : b ≤ k) (g : List POpt) (hg : k ∉ POpt.idsList g)
    (o : POpt) (k' n : Nat) (m : Mut) :
    (oState σ g o k' n).modify k m = oState σ g (o.modify k m) k' n := by
  have h0 := State.modify_of_bounded m hb hk
  have : (oState σ g o k' n).modify k m
      = (((( σ.modify k m).withGroups ((POpt.modifyList k m (g ++ [o])) ::
          (σ.modify k m).shortcutOptionStatements)).withL (.optLine k' :: σ.lineStatementCallbacks)).withS
          (.optStmt k' :: σ.statementCallbacks)).ghost n none := rfl
  rw [this, h0, POpt.modifyList_append, POpt.modifyList_of_not_mem k m g hg]
  rfl

theorem Idle.oState {σ : State} (hi : Idle σ) (g : List POpt) (o : POpt) (k n : Nat) : Idle (oState σ g o k n) :=
  ⟨hi.alive, hi.varCb, rfl, hi.textCb, hi.cmdTextCb, hi.hashtagCb, hi.line, hi.proto⟩

theorem Bounded.oState {σ : State} {n : Nat} (hb : Bounded σ n) (g : List POpt) (hg : Below n (POpt.idsList g))
    (o : POpt) (ho : Below n o.ids) (k : Nat) (hk : k < n) (n' : Nat) : Bounded (oState σ g o k n') n :=
  ⟨hb.nodes, hb.node, hb.line,
   (fun x hx => by
      rcases List.mem_cons.1 hx with rfl | hx
      · rw [POpt.idsList_append]
        exact hg.append (by simpa [POpt.idsList] using ho)
      · exact hb.groups x hx),
   hb.options,
   (fun cb hcb => by
      rcases List.mem_cons.1 hcb with rfl | hcb
      · exact Below.cons hk (Below.nil _)
      · exact hb.stmtCbs cb hcb),
   hb.exprCbs,
   (fun cb hcb => by
      rcases List.mem_cons.1 hcb with rfl | hcb
      · exact Below.cons hk (Below.nil _)
      · exact hb.lineCbs cb hcb),
   hb.clauseCbs, hb.textCb, hb.varCb, hb.cmdTextCb, hb.proto⟩

/-- statements delivered into the body of the option under construction (whose line is set) -/
theorem deliverItems_oState {σ : State} {b k : Nat} (hi : Idle σ) (hb : Bounded σ b) (hk : b ≤ k) (g : List POpt)
    (hg : k ∉ POpt.idsList g) (l : PLine) (hl : k ∉ l.ids) (n : Nat) :
    ∀ (items body : List PStmt), k ∉ PStmt.idsList body → k ∉ PStmt.idsList items →
      deliverItems items (oState σ g (.mk k (some l) body) k n) = .ok (oState σ g (.mk k (some l) (body ++ items)) k n)
  | [], body, _, _ => by simp [deliverItems]
  | s :: items, body, hbody, hitems => by
    simp only [PStmt.idsList, List.mem_append, not_or] at hitems
    have hstep : deliverItem s (oState σ g (.mk k (some l) body) k n)
        = .ok (oState σ g (.mk k (some l) (body ++ [s])) k n) := by
      have hline : (some l).map (PLine.modify k (.optStmt s)) = some l := by
        simp [PLine.modify_of_not_mem k _ l hl]
      cases s with
      | line x =>
        show deliverL x _ = _
        unfold deliverL
        rw [if_pos (show (oState σ g (.mk k (some l) body) k n).alive = true from hi.alive)]
        show Outcome.ok ((oState σ g (.mk k (some l) body) k n).modify k (.optLine x)) = _
        rw [oState_modify hb hk g hg]
        simp [POpt.modify, PLine.modify_of_not_mem k _ l hl, PStmt.modifyList_of_not_mem k _ body hbody]
      | _ =>
        show deliverS _ _ = _
        unfold deliverS
        rw [if_pos (show (oState σ g (.mk k (some l) body) k n).alive = true from hi.alive)]
        show Outcome.ok ((oState σ g (.mk k (some l) body) k n).modify k (.optStmt _)) = _
        rw [oState_modify hb hk g hg]
        simp [POpt.modify, PLine.modify_of_not_mem k _ l hl, PStmt.modifyList_of_not_mem k _ body hbody]
    simp only [deliverItems, hstep, Outcome.bind_ok]
    rw [deliverItems_oState hi hb hk g hg l hl n items (body ++ [s])
      (by simp [PStmt.idsList_append, PStmt.idsList, hbody, hitems.1]) hitems.2]
    simp [List.append_assoc]


theorem enter_shortcutOption (cs : List PT) (σ : State) (g : List POpt) (n : Nat) (hal : σ.alive = true) :
    enter .shortcutOption cs (gState σ g n) = .ok (oState σ g (.mk n none []) n (n + 1)) := by
  rcases σ with ⟨nx, al, ns, nd, ln, gs, so, sc, tc, ec, lc, vc, cc, fc, ctc, hc, pc⟩
  simp only at hal
  subst hal
  rfl

theorem exit_shortcutOption (σ : State) (g : List POpt) (o : POpt) (k n : Nat) (hal : σ.alive = true) :
    exit .shortcutOption (oState σ g o k n) = .ok (gState σ (g ++ [o]) n) := by
  have h0 : exit .shortcutOption (oState σ g o k n) = (popL (oState σ g o k n)).bind popS := rfl
  rw [h0, popL_cons (oState σ g o k n) (.optLine k) σ.lineStatementCallbacks hal rfl]
  simp only [Outcome.bind_ok]
  rw [popS_cons ((oState σ g o k n).withL σ.lineStatementCallbacks) (.optStmt k) σ.statementCallbacks hal rfl]
  rfl

theorem COpt.walk_eq (o : COpt) (hline : ∀ tx l, (o = .plain tx l ∨ ∃ ss, o = .withBody tx l ss) → l.WF)
    (hbody : ∀ tx l ss, o = .withBody tx l ss → StmtsSpec ss) {σ : State} {b : Nat} (hi : Idle σ) (hb : Bounded σ b)
    (g : List POpt) (n : Nat) (hbn : b ≤ n) (hg : Below n (POpt.idsList g)) :
    walk o.toPT (gState σ g n) = .ok (gState σ (g ++ [o.pO n]) (n + o.cnt)) := by
  have hal := hi.alive
  have hgk : n ∉ POpt.idsList g := hg.not_mem (Nat.le_refl _)
  -- the line of the option, common to both forms
  have hlineStep : ∀ (l : CLine), l.WF →
      walk l.toPT (oState σ g (.mk n none []) n (n + 1))
        = .ok (oState σ g (.mk n (some (l.pL (n + 1))) []) n (n + 1 + l.cnt)) := by
    intro l hl
    have hbχ : Bounded (oState σ g (.mk n none []) n (n + 1)) (n + 1) :=
      (hb.mono (by omega)).oState g (hg.mono (Nat.le_succ _)) _
        (by simp [POpt.ids, optIds, PStmt.idsList, Below.cons, Below.nil]) n (Nat.lt_succ_self _) _
    rw [CLine.walk_eq l hl _ (hi.oState g _ n (n + 1)) hbχ]
    unfold deliverL
    rw [if_pos (show (oState σ g (.mk n none []) n (n + 1)).alive = true from hal)]
    show (Outcome.ok ((oState σ g (.mk n none []) n (n + 1)).modify n (.optLine (some (l.pL (n + 1)))))).map _ = _
    rw [oState_modify hb hbn g hgk]
    simp only [Outcome.map_ok, POpt.modify, Option.map, PStmt.modifyList, if_true]
    rfl
  cases o with
  | plain tx l =>
    have hl := hline tx l (Or.inl rfl)
    simp only [COpt.toPT, walk_rule, enter_shortcutOption _ σ g n hal, Outcome.bind_ok, walkList_cons, walk_tok,
      visitTerminal, hlineStep l hl, walkList_nil, exit_shortcutOption σ g _ n _ hal, COpt.pO, COpt.cnt]
    rw [Nat.add_assoc]
  | withBody tx l ss =>
    have hl := hline tx l (Or.inr ⟨ss, rfl⟩)
    have hss := hbody tx l ss rfl
    simp only [COpt.toPT, walk_rule, enter_shortcutOption _ σ g n hal, Outcome.bind_ok, walkList_cons, walk_tok,
      visitTerminal, hlineStep l hl, walkList_append, COpt.pO, COpt.cnt]
    have hlids := CLine.ids_pL l (n + 1)
    have hbχ : Bounded (oState σ g (.mk n (some (l.pL (n + 1))) []) n (n + 1 + l.cnt)) (n + 1 + l.cnt) :=
      (hb.mono (by omega)).oState g (hg.mono (by omega)) _
        (by
          simp only [POpt.ids, optIds, PStmt.idsList, List.append_nil]
          exact Below.cons (by omega) hlids.below) n (by omega) _
    rw [hss _ (hi.oState g _ n _) hbχ]
    have hn : (oState σ g (.mk n (some (l.pL (n + 1))) []) n (n + 1 + l.cnt)).next = n + 1 + l.cnt := rfl
    rw [hn, deliverItems_oState hi hb hbn g hgk _ (hlids.not_mem (Nat.lt_succ_self _)) _ _ []
      (by simp [PStmt.idsList]) ((CStmt.ids_pSList ss _).not_mem (by omega))]
    simp only [Outcome.map_ok, Outcome.bind_ok, walkList_cons, walk_tok, visitTerminal, walkList_nil, List.nil_append]
    have hg2 : (oState σ g (.mk n (some (l.pL (n + 1))) (CStmt.pSList ss (n + 1 + l.cnt))) n (n + 1 + l.cnt)).ghost
        (n + 1 + l.cnt + CStmt.cntList ss) none
        = oState σ g (.mk n (some (l.pL (n + 1))) (CStmt.pSList ss (n + 1 + l.cnt))) n
            (n + 1 + l.cnt + CStmt.cntList ss) := rfl
    rw [hg2, exit_shortcutOption σ g _ n _ hal]
    simp only [Nat.add_assoc]


/-- what the mutual induction supplies for an option: its line is well-formed, its body satisfies the list lemma -/
def COpt.Ok : COpt → Prop
  | .plain _ l => l.WF
  | .withBody _ l ss => l.WF ∧ StmtsSpec ss

theorem COpt.walk_eq' (o : COpt) (ho : o.Ok) {σ : State} {b : Nat} (hi : Idle σ) (hb : Bounded σ b)
    (g : List POpt) (n : Nat) (hbn : b ≤ n) (hg : Below n (POpt.idsList g)) :
    walk o.toPT (gState σ g n) = .ok (gState σ (g ++ [o.pO n]) (n + o.cnt)) := by
  refine COpt.walk_eq o ?_ ?_ hi hb g n hbn hg
  · intro tx l h
    rcases h with rfl | ⟨ss, rfl⟩
    · exact ho
    · exact ho.1
  · intro tx l ss h
    subst h
    exact ho.2

theorem walk_opts {σ : State} {b : Nat} (hi : Idle σ) (hb : Bounded σ b) : ∀ (os : List COpt), (∀ o ∈ os, o.Ok) →
    ∀ (g : List POpt) (n : Nat), b ≤ n → Below n (POpt.idsList g) →
      walkList (COpt.toPTs os) (gState σ g n) = .ok (gState σ (g ++ COpt.pOList os n) (n + COpt.cntList os))
  | [], _, g, n, _, _ => by simp [COpt.toPTs, COpt.pOList, COpt.cntList]
  | o :: os, h, g, n, hbn, hg => by
    simp only [COpt.toPTs, walkList_cons]
    rw [COpt.walk_eq' o (h o (by simp)) hi hb g n hbn hg]
    simp only [Outcome.bind_ok]
    rw [walk_opts hi hb os (fun o' ho' => h o' (by simp [ho'])) (g ++ [o.pO n]) (n + o.cnt) (by omega) (by
      rw [POpt.idsList_append]
      exact (hg.mono (by omega)).append (by simpa [POpt.idsList] using (COpt.ids_pO o n).below))]
    simp [COpt.pOList, COpt.cntList, List.append_assoc, Nat.add_assoc]

theorem enter_shortcutOptionStatement (cs : List PT) (σ : State) (hi : Idle σ) :
    enter .shortcutOptionStatement cs σ = .ok (gState σ [] σ.next) := by
  have h1 := hi.alive
  have h2 := hi.fnCb
  rcases σ with ⟨nx, al, ns, nd, ln, gs, so, sc, tc, ec, lc, vc, cc, fc, ctc, hc, pc⟩
  simp only at h1 h2
  subst h1 h2
  rfl

theorem exit_shortcutOptionStatement (σ : State) (g : List POpt) (n : Nat) (hal : σ.alive = true) :
    exit .shortcutOptionStatement (gState σ g n) = deliverS (.opts g) (σ.ghost n none) := by
  rcases σ with ⟨nx, al, ns, nd, ln, gs, so, sc, tc, ec, lc, vc, cc, fc, ctc, hc, pc⟩
  simp only at hal
  subst hal
  rfl

theorem blankPT_walk (blank : Option String) (χ : State) : walkList (blankPT blank) χ = .ok χ := by
  cases blank <;> simp [blankPT, walkList_cons, walk_tok, visitTerminal]

theorem CStmt.spec_opts (os : List COpt) (blank : Option String) (h : ∀ o ∈ os, o.Ok) : (CStmt.opts os blank).Spec := by
  intro σ hi hb
  simp only [CStmt.toPT, walk_statement_single, CStmt.pS, CStmt.cnt]
  rw [deliverItems_single _ _ (by intro l h; cases h), walk_rule, enter_shortcutOptionStatement _ σ hi]
  simp only [Outcome.bind_ok, walkList_append]
  rw [walk_opts hi hb os h [] σ.next (Nat.le_refl _) (by simp [POpt.idsList, Below.nil])]
  simp only [Outcome.bind_ok, blankPT_walk, List.nil_append]
  rw [exit_shortcutOptionStatement σ _ _ hi.alive, deliverS_ghost]



/-! ### if statements -/

/-- between two clauses of if statement `k`, whose object lives in `τ` -/
def ifState (τ : State) (k n : Nat) : State := (τ.withC (.ifClause k :: τ.clauseCallbacks)).ghost n none

/-- inside the body of clause `c` -/
def bodyState (τ : State) (k c n : Nat) : State :=
  (((τ.withC (.ifClause k :: τ.clauseCallbacks)).withS (.clauseStmt c :: τ.statementCallbacks)).withL
    (.clauseLine c :: τ.lineStatementCallbacks)).ghost n none

/-- while the condition of clause `c` is walked -/
def condState (τ : State) (k c n : Nat) : State :=
  (bodyState τ k c n).withE (.clauseCond c :: τ.expressionCallbacks)

theorem bodyState_modify (τ : State) (k c n j : Nat) (m : Mut) :
    (bodyState τ k c n).modify j m = bodyState (τ.modify j m) k c n := rfl

theorem condState_modify (τ : State) (k c n j : Nat) (m : Mut) :
    (condState τ k c n).modify j m = condState (τ.modify j m) k c n := rfl

theorem Idle.bodyState {τ : State} (hi : Idle τ) (k c n : Nat) : Idle (bodyState τ k c n) :=
  ⟨hi.alive, hi.varCb, rfl, hi.textCb, hi.cmdTextCb, hi.hashtagCb, hi.line, hi.proto⟩

theorem Bounded.bodyState {τ : State} {n : Nat} (hb : Bounded τ n) (k c : Nat) (hk : k < n) (hc : c < n) (n' : Nat) :
    Bounded (bodyState τ k c n') n :=
  ⟨hb.nodes, hb.node, hb.line, hb.groups, hb.options,
   (fun cb hcb => by
      rcases List.mem_cons.1 hcb with rfl | hcb
      · exact Below.cons hc (Below.nil _)
      · exact hb.stmtCbs cb hcb),
   hb.exprCbs,
   (fun cb hcb => by
      rcases List.mem_cons.1 hcb with rfl | hcb
      · exact Below.cons hc (Below.nil _)
      · exact hb.lineCbs cb hcb),
   (fun cb hcb => by
      rcases List.mem_cons.1 hcb with rfl | hcb
      · exact Below.cons hk (Below.nil _)
      · exact hb.clauseCbs cb hcb),
   hb.textCb, hb.varCb, hb.cmdTextCb, hb.proto⟩

theorem Bounded.condState {τ : State} {n : Nat} (hb : Bounded τ n) (k c : Nat) (hk : k < n) (hc : c < n) (n' : Nat) :
    Bounded (condState τ k c n') n :=
  (hb.bodyState k c hk hc n').withE _ fun cb hcb => by
    rcases List.mem_cons.1 hcb with rfl | hcb
    · exact Below.cons hc (Below.nil _)
    · exact hb.exprCbs cb hcb

theorem ifs_modify_clauseStmt (k c : Nat) (cs : List PClause) (cond : PExpr) (body : List PStmt) (s : PStmt)
    (hcs : c ∉ PClause.idsList cs) (hcond : c ∉ cond.ids) (hbody : c ∉ PStmt.idsList body) :
    (PStmt.ifs k (cs ++ [.mk c cond body])).modify c (.clauseStmt s) = .ifs k (cs ++ [.mk c cond (body ++ [s])]) := by
  simp [PStmt.modify, PClause.modifyList_append, PClause.modifyList, PClause.modify,
    PClause.modifyList_of_not_mem c _ cs hcs, PExpr.modify_of_not_mem c _ cond hcond,
    PStmt.modifyList_of_not_mem c _ body hbody]

theorem ifs_modify_clauseCond (k c : Nat) (cs : List PClause) (cond e : PExpr) (body : List PStmt)
    (hcs : c ∉ PClause.idsList cs) (hbody : c ∉ PStmt.idsList body) :
    (PStmt.ifs k (cs ++ [.mk c cond body])).modify c (.clauseCond e) = .ifs k (cs ++ [.mk c e body]) := by
  simp [PStmt.modify, PClause.modifyList_append, PClause.modifyList, PClause.modify,
    PClause.modifyList_of_not_mem c _ cs hcs, PStmt.modifyList_of_not_mem c _ body hbody]

theorem ifs_modify_ifClause (k : Nat) (cs : List PClause) (cl : PClause) (hcs : k ∉ PClause.idsList cs) :
    (PStmt.ifs k cs).modify k (.ifClause cl) = .ifs k (cs ++ [cl]) := by
  simp [PStmt.modify, PClause.modifyList_of_not_mem k _ cs hcs]

/-- statements delivered into the body of clause `c` -/
theorem deliverItems_bodyState {σ : State} {b k c : Nat} (hi : Idle σ) (hb : Bounded σ b) (hbc : b ≤ c)
    (cs : List PClause) (hcs : c ∉ PClause.idsList cs) (cond : PExpr) (hcond : c ∉ cond.ids) (n : Nat) :
    ∀ (items body : List PStmt) (τ : State), deliverS (.ifs k (cs ++ [.mk c cond body])) σ = .ok τ →
      c ∉ PStmt.idsList body → c ∉ PStmt.idsList items →
      ∃ τ', deliverItems items (bodyState τ k c n) = .ok (bodyState τ' k c n) ∧
        deliverS (.ifs k (cs ++ [.mk c cond (body ++ items)])) σ = .ok τ'
  | [], body, τ, hτ, _, _ => ⟨τ, rfl, by simpa using hτ⟩
  | s :: items, body, τ, hτ, hbody, hitems => by
    simp only [PStmt.idsList, List.mem_append, not_or] at hitems
    have hal : τ.alive = true := (deliverS_ok hτ).alive.trans hi.alive
    have hstep : deliverItem s (bodyState τ k c n) = .ok (bodyState (τ.modify c (.clauseStmt s)) k c n) := by
      cases s with
      | line x =>
        show deliverL x _ = _
        unfold deliverL
        rw [if_pos (show (bodyState τ k c n).alive = true from hal)]
        rfl
      | _ =>
        show deliverS _ _ = _
        unfold deliverS
        rw [if_pos (show (bodyState τ k c n).alive = true from hal)]
        rfl
    have hτ1 : deliverS (.ifs k (cs ++ [.mk c cond (body ++ [s])])) σ = .ok (τ.modify c (.clauseStmt s)) := by
      have := deliverS_modify (.clauseStmt s) (.ifs k (cs ++ [.mk c cond body])) hb hbc
      rw [hτ, ifs_modify_clauseStmt k c cs cond body s hcs hcond hbody] at this
      exact this.symm
    obtain ⟨τ', h1, h2⟩ := deliverItems_bodyState hi hb hbc cs hcs cond hcond n items (body ++ [s]) _ hτ1
      (by simp [PStmt.idsList_append, PStmt.idsList, hbody, hitems.1]) hitems.2
    refine ⟨τ', ?_, by simpa [List.append_assoc] using h2⟩
    simp only [deliverItems, hstep, Outcome.bind_ok, h1]


/-- the statements of a clause body -/
theorem walk_clauseBody {σ : State} {b k c : Nat} (hi : Idle σ) (hb : Bounded σ b) (hbk : b ≤ k) (hkc : k < c)
    (cs : List PClause) (cond : PExpr) (ss : List CStmt) (hss : StmtsSpec ss) (τ : State) (n : Nat) (hcn : c < n)
    (hτ : deliverS (.ifs k (cs ++ [.mk c cond []])) σ = .ok τ) (hcsb : Below c (PClause.idsList cs))
    (hcond : Within (c + 1) n cond.ids) :
    ∃ τ', walkList (CStmt.toPTs ss) (bodyState τ k c n) = .ok (bodyState τ' k c (n + CStmt.cntList ss)) ∧
      deliverS (.ifs k (cs ++ [.mk c cond (CStmt.pSList ss n)])) σ = .ok τ' := by
  have hs := deliverS_ok hτ
  have hbτ : Bounded τ n := deliverS_bounded hτ (hb.mono (by omega)) (by
    simp only [PStmt.ids, PClause.idsList_append, PClause.idsList, PClause.ids, PStmt.idsList, List.append_nil]
    exact Below.cons (by omega) ((hcsb.mono (by omega)).append (Below.cons hcn hcond.below)))
  have hsp := hss (bodyState τ k c n) ((hi.of_sameCtl hs).bodyState k c n) (hbτ.bodyState k c (by omega) hcn n)
  have hn : (bodyState τ k c n).next = n := rfl
  rw [hn] at hsp
  obtain ⟨τ', h1, h2⟩ := deliverItems_bodyState (k := k) hi hb (by omega) cs (hcsb.not_mem (Nat.le_refl _)) cond
    (hcond.not_mem (Nat.lt_succ_self _)) n (CStmt.pSList ss n) [] τ hτ (by simp [PStmt.idsList])
    ((CStmt.ids_pSList ss n).not_mem hcn)
  refine ⟨τ', ?_, by simpa using h2⟩
  rw [hsp, h1]
  rfl

theorem enterClause_cond (τ : State) (k n : Nat) (hal : τ.alive = true) :
    enterClause true (ifState τ k n) = .ok (condState (τ.modify k (.ifClause (.mk n .hole []))) k n (n + 1)) := by
  rcases τ with ⟨nx, al, ns, nd, ln, gs, so, sc, tc, ec, lc, vc, cc, fc, ctc, hc, pc⟩
  simp only at hal
  subst hal
  rfl

theorem enterClause_else (τ : State) (k n : Nat) (hal : τ.alive = true) :
    enterClause false (ifState τ k n)
      = .ok (bodyState (τ.modify k (.ifClause (.mk n (.lit (.bool true)) []))) k n (n + 1)) := by
  rcases τ with ⟨nx, al, ns, nd, ln, gs, so, sc, tc, ec, lc, vc, cc, fc, ctc, hc, pc⟩
  simp only at hal
  subst hal
  rfl

theorem exitClause_bodyState (τ : State) (k c n : Nat) (hal : τ.alive = true) :
    exitClause (bodyState τ k c n) = .ok (ifState τ k n) := by
  rcases τ with ⟨nx, al, ns, nd, ln, gs, so, sc, tc, ec, lc, vc, cc, fc, ctc, hc, pc⟩
  simp only at hal
  subst hal
  rfl

theorem popE_condState (τ : State) (k c n : Nat) (hal : τ.alive = true) :
    popE (condState τ k c n) = .ok (bodyState τ k c n) := by
  rcases τ with ⟨nx, al, ns, nd, ln, gs, so, sc, tc, ec, lc, vc, cc, fc, ctc, hc, pc⟩
  simp only at hal
  subst hal
  rfl

/-- `'<<' ('if' | 'elseif') expression '>>' statement*` as a clause of if statement `k` -/
theorem walk_condClause {σ : State} {b k : Nat} (hi : Idle σ) (hb : Bounded σ b) (hbk : b ≤ k) (ctx : Ctx)
    (hen : ∀ cs χ, enter ctx cs χ = enterClause true χ) (hex : ∀ χ, exit ctx χ = exitClause χ) (t0 t1 t2 : PT)
    (ht0 : ∀ χ, walk t0 χ = .ok χ) (ht1 : ∀ χ, walk t1 χ = .ok χ) (ht2 : ∀ χ, walk t2 χ = .ok χ)
    (cond : CExpr) (hcond : cond.WF) (ss : List CStmt) (hss : StmtsSpec ss) (cs : List PClause) (τ : State) (n : Nat)
    (hkn : k < n) (hτ : deliverS (.ifs k cs) σ = .ok τ) (hcsb : Below n (PClause.idsList cs))
    (hkcs : k ∉ PClause.idsList cs) :
    ∃ τ', walk (.rule ctx (t0 :: t1 :: cond.toPT :: t2 :: CStmt.toPTs ss)) (ifState τ k n)
        = .ok (ifState τ' k (n + 1 + cond.cnt + CStmt.cntList ss)) ∧
      deliverS (.ifs k (cs ++ [.mk n (cond.pE (n + 1)) (CStmt.pSList ss (n + 1 + cond.cnt))])) σ = .ok τ' := by
  have hs := deliverS_ok hτ
  have hal : τ.alive = true := hs.alive.trans hi.alive
  -- the clause is handed to the if statement
  let τ₁ := τ.modify k (.ifClause (.mk n .hole []))
  have hτ1 : deliverS (.ifs k (cs ++ [.mk n .hole []])) σ = .ok τ₁ := by
    have := deliverS_modify (.ifClause (.mk n .hole [])) (.ifs k cs) hb hbk
    rw [hτ, ifs_modify_ifClause k cs _ hkcs] at this
    exact this.symm
  have hs1 := deliverS_ok hτ1
  have hal1 : τ₁.alive = true := hs1.alive.trans hi.alive
  have hb1 : Bounded τ₁ (n + 1) := deliverS_bounded hτ1 (hb.mono (by omega)) (by
    simp only [PStmt.ids, PClause.idsList_append, PClause.idsList, PClause.ids, PStmt.idsList, PExpr.ids,
      List.append_nil, List.nil_append]
    exact Below.cons (by omega) ((hcsb.mono (by omega)).append (Below.cons (by omega) (Below.nil _))))
  -- the condition
  have hcids := CExpr.ids_pE cond (n + 1)
  let τ₂ := τ₁.modify n (.clauseCond (cond.pE (n + 1)))
  have hτ2 : deliverS (.ifs k (cs ++ [.mk n (cond.pE (n + 1)) []])) σ = .ok τ₂ := by
    have := deliverS_modify (.clauseCond (cond.pE (n + 1))) (.ifs k (cs ++ [.mk n .hole []])) hb (by omega : b ≤ n)
    rw [hτ1, ifs_modify_clauseCond k n cs _ _ [] (hcsb.not_mem (Nat.le_refl _)) (by simp [PStmt.idsList])] at this
    exact this.symm
  have hal2 : τ₂.alive = true := (deliverS_ok hτ2).alive.trans hi.alive
  have hcondw : walk cond.toPT (condState τ₁ k n (n + 1)) = .ok (bodyState τ₂ k n (n + 1 + cond.cnt)) := by
    rw [CExpr.spec cond hcond (condState τ₁ k n (n + 1)) hal1 (hs1.varCb.trans hi.varCb)
      (hb1.condState k n (by omega) (Nat.lt_succ_self _) _), deliverE_alive _ (condState τ₁ k n (n + 1)) hal1]
    have hc : callE (condState τ₁ k n (n + 1)).expressionCallbacks (cond.pE (condState τ₁ k n (n + 1)).next)
        (condState τ₁ k n (n + 1)) = popE (condState τ₂ k n (n + 1)) := rfl
    rw [hc, popE_condState _ _ _ _ hal2]
    simp only [Outcome.map_ok]
    rw [show (condState τ₁ k n (n + 1)).functionCallCallback = none from rfl, clearIf_none]
    rfl
  -- the body
  obtain ⟨τ', h1, h2⟩ := walk_clauseBody hi hb hbk hkn cs (cond.pE (n + 1)) ss hss τ₂ (n + 1 + cond.cnt) (by omega) hτ2
    hcsb hcids
  refine ⟨τ', ?_, h2⟩
  rw [walk_rule, hen, enterClause_cond τ k n hal]
  simp only [Outcome.bind_ok, walkList_cons, ht0, ht1]
  show ((walk cond.toPT (condState τ₁ k n (n + 1))).bind _).bind _ = _
  rw [hcondw]
  simp only [Outcome.bind_ok, walkList_cons, ht2, h1, hex]
  exact exitClause_bodyState τ' k n _ ((deliverS_ok h2).alive.trans hi.alive)


/-- `'<<' 'else' '>>' statement*` as the last clause of if statement `k` -/
theorem walk_elseClause {σ : State} {b k : Nat} (hi : Idle σ) (hb : Bounded σ b) (hbk : b ≤ k) (tx : Tx)
    (ss : List CStmt) (hss : StmtsSpec ss) (cs : List PClause) (τ : State) (n : Nat)
    (hkn : k < n) (hτ : deliverS (.ifs k cs) σ = .ok τ) (hcsb : Below n (PClause.idsList cs))
    (hkcs : k ∉ PClause.idsList cs) :
    ∃ τ', walk (.rule .elseClause (.tok .commandStart (tx 0) :: .tok .commandElse (tx 1) :: .tok .commandEnd (tx 2) ::
          CStmt.toPTs ss)) (ifState τ k n)
        = .ok (ifState τ' k (n + 1 + CStmt.cntList ss)) ∧
      deliverS (.ifs k (cs ++ [.mk n (.lit (.bool true)) (CStmt.pSList ss (n + 1))])) σ = .ok τ' := by
  have hs := deliverS_ok hτ
  have hal : τ.alive = true := hs.alive.trans hi.alive
  let τ₁ := τ.modify k (.ifClause (.mk n (.lit (.bool true)) []))
  have hτ1 : deliverS (.ifs k (cs ++ [.mk n (.lit (.bool true)) []])) σ = .ok τ₁ := by
    have := deliverS_modify (.ifClause (.mk n (.lit (.bool true)) [])) (.ifs k cs) hb hbk
    rw [hτ, ifs_modify_ifClause k cs _ hkcs] at this
    exact this.symm
  obtain ⟨τ', h1, h2⟩ := walk_clauseBody hi hb hbk hkn cs (.lit (.bool true)) ss hss τ₁ (n + 1) (by omega) hτ1 hcsb
    (by simp [PExpr.ids, Within.nil])
  refine ⟨τ', ?_, h2⟩
  have hen : ∀ cs χ, enter .elseClause cs χ = enterClause false χ := fun _ _ => rfl
  have hex : ∀ χ, exit .elseClause χ = exitClause χ := fun _ => rfl
  rw [walk_rule, hen, enterClause_else τ k n hal]
  simp only [Outcome.bind_ok, walkList_cons, walk_tok, visitTerminal]
  show (walkList (CStmt.toPTs ss) (bodyState τ₁ k n (n + 1))).bind _ = _
  rw [h1]
  simp only [Outcome.bind_ok, hex]
  exact exitClause_bodyState τ' k n _ ((deliverS_ok h2).alive.trans hi.alive)

/-- what the mutual induction supplies for a clause chain: conditions are well-formed, bodies satisfy the list lemma -/
def CClauses.Ok : CClauses → Prop
  | .endif _ => True
  | .elseif _ c body rest => c.WF ∧ StmtsSpec body ∧ rest.Ok
  | .else_ _ body => StmtsSpec body

/-- `else_if_clause* else_clause? '<<' 'endif' '>>'` -/
theorem walk_clauses {σ : State} {b k : Nat} (hi : Idle σ) (hb : Bounded σ b) (hbk : b ≤ k) :
    ∀ (r : CClauses), r.Ok → ∀ (cs : List PClause) (τ : State) (n : Nat), k < n → deliverS (.ifs k cs) σ = .ok τ →
      Below n (PClause.idsList cs) → k ∉ PClause.idsList cs →
      ∃ τ', walkList r.toPTs (ifState τ k n) = .ok (ifState τ' k (n + r.cnt)) ∧
        deliverS (.ifs k (cs ++ r.pC n)) σ = .ok τ'
  | .endif tx, _, cs, τ, n, _, hτ, _, _ =>
    ⟨τ, by simp [CClauses.toPTs, walkList_cons, walk_tok, visitTerminal, CClauses.cnt], by simpa [CClauses.pC] using hτ⟩
  | .elseif tx c body rest, hok, cs, τ, n, hkn, hτ, hcsb, hkcs => by
    simp only [CClauses.Ok] at hok
    obtain ⟨τ₁, h1, h2⟩ := walk_condClause hi hb hbk .elseIfClause (fun _ _ => rfl) (fun _ => rfl)
      (.tok .commandStart (tx 0)) (.tok .commandElseif (tx 1)) (.tok .commandEnd (tx 2)) (fun _ => rfl) (fun _ => rfl)
      (fun _ => rfl) c hok.1 body hok.2.1 cs τ n hkn hτ hcsb hkcs
    have hcl := CClauses.ids_pC (.elseif tx c body rest) n
    have hnew : Within n (n + 1 + c.cnt + CStmt.cntList body)
        (PClause.mk n (c.pE (n + 1)) (CStmt.pSList body (n + 1 + c.cnt))).ids := by
      simp only [PClause.ids]
      exact Within.cons (by omega) (((CExpr.ids_pE c (n + 1)).mono (by omega) (by omega)).append
        ((CStmt.ids_pSList body _).mono (by omega) (Nat.le_refl _)))
    obtain ⟨τ', h3, h4⟩ := walk_clauses hi hb hbk rest hok.2.2
      (cs ++ [.mk n (c.pE (n + 1)) (CStmt.pSList body (n + 1 + c.cnt))]) τ₁ (n + 1 + c.cnt + CStmt.cntList body)
      (by omega) h2
      (by
        rw [PClause.idsList_append]
        exact (hcsb.mono (by omega)).append (by simpa [PClause.idsList] using hnew.below))
      (by
        rw [PClause.idsList_append]
        simp only [List.mem_append, not_or]
        exact ⟨hkcs, by simpa [PClause.idsList] using hnew.not_mem hkn⟩)
    refine ⟨τ', ?_, by simpa [CClauses.pC, List.append_assoc] using h4⟩
    simp only [CClauses.toPTs, walkList_cons, h1, Outcome.bind_ok, h3, CClauses.cnt]
    simp [Nat.add_assoc]
  | .else_ tx body, hok, cs, τ, n, hkn, hτ, hcsb, hkcs => by
    simp only [CClauses.Ok] at hok
    obtain ⟨τ', h1, h2⟩ := walk_elseClause hi hb hbk tx body hok cs τ n hkn hτ hcsb hkcs
    refine ⟨τ', ?_, by simpa [CClauses.pC] using h2⟩
    simp only [CClauses.toPTs, walkList_cons, h1, Outcome.bind_ok, walk_tok, visitTerminal, walkList_nil, CClauses.cnt]
    simp [Nat.add_assoc]

theorem enter_ifStatement (cs : List PT) (σ : State) :
    enter .ifStatement cs σ = (deliverS (.ifs σ.next []) (σ.withNext (σ.next + 1))).bind (pushC (.ifClause σ.next)) := by
  simp only [enter, State.alloc, Outcome.bind_eq]
  rfl

theorem exit_ifStatement : exit .ifStatement = popC := rfl

theorem popC_ifState (τ : State) (k n : Nat) (hal : τ.alive = true) : popC (ifState τ k n) = .ok (τ.ghost n none) := by
  rcases τ with ⟨nx, al, ns, nd, ln, gs, so, sc, tc, ec, lc, vc, cc, fc, ctc, hc, pc⟩
  simp only at hal
  subst hal
  rfl

theorem CStmt.spec_ifs (tx : Tx) (c : CExpr) (body : List CStmt) (rest : CClauses) (hc : c.WF) (hbody : StmtsSpec body)
    (hrest : rest.Ok) : (CStmt.ifs tx c body rest).Spec := by
  intro σ hi hb
  let k := σ.next
  simp only [CStmt.toPT, walk_statement_single, CStmt.pS, CStmt.cnt]
  rw [deliverItems_single _ _ (by intro l h; cases h), walk_rule, enter_ifStatement, withNext_eq_ghost hi,
    deliverS_ghost, Outcome.bind_map]
  cases hd : deliverS (.ifs k []) σ with
  | panic =>
    rw [deliverS_panic_indep _ _ σ hd]
    rfl
  | unmodelled => exact absurd hd (deliverS_not_unmodelled _ _)
  | ok τ₀ =>
    have hal : τ₀.alive = true := (deliverS_ok hd).alive.trans hi.alive
    simp only [Outcome.bind_ok]
    rw [pushC_alive _ (τ₀.ghost (k + 1) none) hal]
    simp only [Outcome.bind_ok]
    rw [show (τ₀.ghost (k + 1) none).withC (.ifClause σ.next :: (τ₀.ghost (k + 1) none).clauseCallbacks)
        = ifState τ₀ k (k + 1) from rfl]
    obtain ⟨τ₁, h1, h2⟩ := walk_condClause hi hb (Nat.le_refl k) .ifClause (fun _ _ => rfl) (fun _ => rfl)
      (.tok .commandStart (tx 0)) (.tok .commandIf (tx 1)) (.tok .commandEnd (tx 2)) (fun _ => rfl) (fun _ => rfl)
      (fun _ => rfl) c hc body hbody [] τ₀ (k + 1) (Nat.lt_succ_self _) hd (by simp [PClause.idsList, Below.nil])
      (by simp [PClause.idsList])
    have hnew : Within (k + 1) (k + 1 + 1 + c.cnt + CStmt.cntList body)
        (PClause.mk (k + 1) (c.pE (k + 1 + 1)) (CStmt.pSList body (k + 1 + 1 + c.cnt))).ids := by
      simp only [PClause.ids]
      exact Within.cons (by omega) (((CExpr.ids_pE c (k + 1 + 1)).mono (by omega) (by omega)).append
        ((CStmt.ids_pSList body _).mono (by omega) (Nat.le_refl _)))
    obtain ⟨τ', h3, h4⟩ := walk_clauses hi hb (Nat.le_refl k) rest hrest _ τ₁ (k + 1 + 1 + c.cnt + CStmt.cntList body)
      (by omega) h2 (by simpa [PClause.idsList] using hnew.below)
      (by simpa [PClause.idsList] using hnew.not_mem (Nat.lt_succ_self k))
    simp only [walkList_cons, h1, Outcome.bind_ok, h3, exit_ifStatement]
    rw [popC_ifState _ _ _ ((deliverS_ok h4).alive.trans hi.alive)]
    have e1 : k + 1 + 1 = k + 2 := rfl
    simp only [List.nil_append, e1, List.singleton_append] at h4
    show _ = Outcome.map _ (deliverS (.ifs k (.mk (k + 1) (c.pE (k + 2)) (pSList body (k + 2 + c.cnt)) ::
      rest.pC (k + 2 + c.cnt + cntList body))) σ)
    rw [h4]
    simp only [Outcome.map_ok]
    congr 1
    show State.ghost _ _ none = State.ghost _ _ none
    congr 1
    omega


/-! ### all statements -/

mutual
theorem CStmt.spec : ∀ s : CStmt, s.WF → s.Spec
  | .line l, h => CStmt.spec_line l (by simpa [CStmt.WF] using h)
  | .ifs tx c body rest, h => by
    simp only [CStmt.WF] at h
    exact CStmt.spec_ifs tx c body rest h.1 (CStmt.specList body h.2.1) (CClauses.ok rest h.2.2)
  | .opts os blank, h => by
    simp only [CStmt.WF] at h
    exact CStmt.spec_opts os blank (COpt.okList os h.2)
  | .block tx ss, h => CStmt.spec_block tx ss (CStmt.specList ss (by simpa [CStmt.WF] using h))
  | .set tx v t e, h => by
    simp only [CStmt.WF] at h
    exact CStmt.spec_set tx v t e h.1 h.2.1 h.2.2
  | .call tx (.mk f tx' lead args), h =>
    CStmt.spec_call tx f tx' lead args (CExpr.specList args (by simpa [CStmt.WF, CCall.WF] using h))
  | .cmd tx els, h => CStmt.spec_cmd tx els (by simpa [CStmt.WF] using h)
  | .declare tx v x as, h => by
    simp only [CStmt.WF] at h
    exact CStmt.spec_declare tx v x as h.1 h.2
  | .jumpId tx dest, _ => CStmt.spec_jumpId tx dest
  | .jumpExpr tx e, h => CStmt.spec_jumpExpr tx e (by simpa [CStmt.WF] using h)
theorem CStmt.specList : ∀ ss : List CStmt, CStmt.WFList ss → StmtsSpec ss
  | [], _ => stmtsSpec_nil
  | s :: ss, h =>
    stmtsSpec_cons s ss (CStmt.spec s ((by simpa [CStmt.WFList] using h : s.WF ∧ CStmt.WFList ss).1))
      (CStmt.specList ss ((by simpa [CStmt.WFList] using h : s.WF ∧ CStmt.WFList ss).2))
theorem CClauses.ok : ∀ r : CClauses, r.WF → r.Ok
  | .endif _, _ => trivial
  | .elseif tx c body rest, h => by
    simp only [CClauses.WF] at h
    exact ⟨h.1, CStmt.specList body h.2.1, CClauses.ok rest h.2.2⟩
  | .else_ tx body, h => CStmt.specList body (by simpa [CClauses.WF] using h)
theorem COpt.okList : ∀ os : List COpt, COpt.WFList os → ∀ o ∈ os, o.Ok
  | [], _, o, ho => by simp at ho
  | .plain tx l :: os, h, o, ho =>
    (List.mem_cons.1 ho).elim (fun e => e ▸ ((by simpa [COpt.WFList, COpt.WF] using h : l.WF ∧ COpt.WFList os).1))
      (fun ho' => COpt.okList os ((by simpa [COpt.WFList, COpt.WF] using h : l.WF ∧ COpt.WFList os).2) o ho')
  | .withBody tx l ss :: os, h, o, ho =>
    (List.mem_cons.1 ho).elim
      (fun e => e ▸ (⟨((by simpa [COpt.WFList, COpt.WF] using h : (l.WF ∧ CStmt.WFList ss) ∧ COpt.WFList os).1).1,
        CStmt.specList ss ((by simpa [COpt.WFList, COpt.WF] using h : (l.WF ∧ CStmt.WFList ss) ∧ COpt.WFList os).1).2⟩ :
          (COpt.withBody tx l ss).Ok))
      (fun ho' => COpt.okList os
        ((by simpa [COpt.WFList, COpt.WF] using h : (l.WF ∧ CStmt.WFList ss) ∧ COpt.WFList os).2) o ho')
end

end Ysgo.Listener
