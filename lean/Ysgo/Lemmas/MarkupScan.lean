import Ysgo.Lemmas.MarkupChars
/-!
# Scanner lemmas: what the marker scanners do on rendered markers (used by C13)
-/
namespace Ysgo.Markup
open Ysgo.Unicode
attribute [local irreducible] Unicode.isLetter Unicode.isDigit Unicode.isSpace Unicode.toLower

def AllSpace (w : List Char) : Prop := ∀ c ∈ w, isSpace c = true
def AllId (n : List Char) : Prop := ∀ c ∈ n, isIdChar c = true

theorem skipWsAux_append (w l : List Char) (k : Nat) (hw : AllSpace w) :
    skipWsAux (w ++ l) k = skipWsAux l (k + w.length) := by
  induction w generalizing k with
  | nil => simp
  | cons c cs ih =>
    have hc : isSpace c = true := hw c List.mem_cons_self
    simp only [List.cons_append, skipWsAux, hc, if_true]
    rw [ih _ (fun d hd => hw d (List.mem_cons_of_mem _ hd))]
    simp only [List.length_cons]
    congr 1; omega

theorem skipWsAux_stop (c : Char) (l : List Char) (k : Nat) (h : isSpace c = false) :
    skipWsAux (c :: l) k = (c :: l, k) := by
  simp [skipWsAux, h]

theorem consumeWhitespace_eq (w : List Char) (d : Char) (l : List Char) (k p : Nat) (hw : AllSpace w)
    (hd : isSpace d = false) :
    consumeWhitespace { rest := w ++ d :: l, src := k, pos := p } = .ok () { rest := d :: l, src := k + w.length, pos := p } := by
  simp only [consumeWhitespace, skipWsAux_append w _ k hw, skipWsAux_stop d l _ hd]

theorem parseRune_eq (r : Char) (w l : List Char) (k p : Nat) (hw : AllSpace w) (hr : isSpace r = false) :
    parseRune r { rest := w ++ r :: l, src := k, pos := p } = .ok () { rest := l, src := k + w.length + 1, pos := p } := by
  simp only [parseRune, bind, P.bind, consumeWhitespace_eq w r l k p hw hr, readRune, ne_eq, not_true_eq_false,
    if_false, incSrc]

theorem expectPeek_eq (r d : Char) (w l : List Char) (k p : Nat) (hw : AllSpace w) (hd : isSpace d = false) :
    expectPeek r { rest := w ++ d :: l, src := k, pos := p } =
      .ok (d == r) { rest := d :: l, src := k + w.length, pos := p } := by
  simp only [expectPeek, bind, P.bind, consumeWhitespace_eq w d l k p hw hd, peekRune, List.headD_cons, pure, P.pure]

theorem takeIdAux_eq (n l acc : List Char) (k : Nat) (hn : AllId n)
    (hl : ∀ d, l.head? = some d → isIdChar d = false) :
    takeIdAux (n ++ l) acc k = (acc ++ n, l, k + n.length) := by
  induction n generalizing acc k with
  | nil =>
    cases l with
    | nil => simp [takeIdAux]
    | cons d l' => simp [takeIdAux, hl d rfl]
  | cons a t ih =>
    have ha : isIdChar a = true := hn a List.mem_cons_self
    simp only [List.cons_append, takeIdAux, ha, if_true]
    rw [ih _ _ (fun c hc => hn c (List.mem_cons_of_mem _ hc))]
    simp only [List.length_cons, List.append_assoc, List.singleton_append]
    congr 2; omega

/-- `parseID` on white space, an identifier, then something that cannot continue it -/
theorem parseID_eq (w : List Char) (a : Char) (t l : List Char) (k p : Nat)
    (hw : AllSpace w) (hn : AllId (a :: t)) (hl : ∀ d, l.head? = some d → isIdChar d = false) :
    parseID { rest := w ++ (a :: t) ++ l, src := k, pos := p } =
      .ok (String.ofList (a :: t)) { rest := l, src := k + w.length + (a :: t).length, pos := p } := by
  have ha : isIdChar a = true := hn a List.mem_cons_self
  have hsp : isSpace a = false := isIdChar_not_space a ha
  have ht : AllId t := fun c hc => hn c (List.mem_cons_of_mem _ hc)
  have e : w ++ (a :: t) ++ l = w ++ a :: (t ++ l) := by simp
  rw [e]
  simp only [parseID, bind, P.bind, consumeWhitespace_eq w a _ k p hw hsp, readRune, incSrc, ha, if_true, takeId,
    takeIdAux_eq t l [] _ ht hl, pure, P.pure, List.nil_append, List.length_cons]
  congr 2; omega

theorem head_ws_then (w : List Char) (d : Char) (R : List Char) (hw : AllSpace w) (hd : isIdChar d = false) :
    ∀ x, (w ++ d :: R).head? = some x → isIdChar x = false := by
  intro x hx
  cases w with
  | nil => simp at hx; subst hx; exact hd
  | cons c cs => simp at hx; subst hx; exact isSpace_not_id _ (hw _ List.mem_cons_self)

theorem id_ne {a c : Char} (ha : isIdChar a = true) (hc : isIdChar c = false) : (a == c) = false := by
  cases h : a == c with
  | false => rfl
  | true => simp only [beq_iff_eq] at h; subst h; rw [ha] at hc; exact absurd hc (by simp)

theorem AllSpace.nil : AllSpace [] := fun _ h => absurd h List.not_mem_nil

/-- `[ w0 name w1 ]` -/
theorem marker_open (w0 : List Char) (a : Char) (t w1 R : List Char) (k p fuel : Nat)
    (hw0 : AllSpace w0) (hw1 : AllSpace w1) (hn : AllId (a :: t)) :
    parseAttributeMarker (fuel + 1) { rest := w0 ++ (a :: t) ++ w1 ++ ']' :: R, src := k, pos := p } =
      .ok { name := String.ofList (a :: t), position := p, sourcePosition := k, props := [], tag := .opn }
          { rest := R, src := k + 1 + w0.length + (a :: t).length + w1.length + 1, pos := p } := by
  have ha : isIdChar a = true := hn a List.mem_cons_self
  have hsp : isSpace a = false := isIdChar_not_space a ha
  have e1 : w0 ++ (a :: t) ++ w1 ++ ']' :: R = w0 ++ a :: (t ++ w1 ++ ']' :: R) := by simp
  have e2 : a :: (t ++ w1 ++ ']' :: R) = [] ++ (a :: t) ++ (w1 ++ ']' :: R) := by simp
  simp only [parseAttributeMarker, bind, P.bind, getSrc, incSrc]
  rw [e1, expectPeek_eq '/' a w0 _ (k + 1) p hw0 hsp]
  simp only [id_ne ha isIdChar_slash, Bool.false_eq_true, if_false, P.bind]
  rw [e2, parseID_eq [] a t _ _ p AllSpace.nil hn (head_ws_then w1 ']' R hw1 isIdChar_rbracket)]
  simp only [P.bind]
  rw [expectPeek_eq '=' ']' w1 R _ p hw1 isSpace_rbracket]
  simp only [show (']' == '=') = false by decide, Bool.false_eq_true, if_false, propsLoop, bind, P.bind]
  rw [show (']' :: R) = [] ++ ']' :: R by simp, consumeWhitespace_eq [] ']' R _ p AllSpace.nil isSpace_rbracket]
  simp only [peekRune, List.headD_cons, if_true, P.bind]
  rw [show (']' :: R) = [] ++ ']' :: R by simp, parseRune_eq ']' [] R _ p AllSpace.nil isSpace_rbracket]
  simp only [getPos, pure, P.pure, List.length_nil, List.length_cons, Nat.add_zero]

/-- `[ w0 name w1 / w2 ]` -/
theorem marker_selfClose (w0 : List Char) (a : Char) (t w1 w2 R : List Char) (k p fuel : Nat)
    (hw0 : AllSpace w0) (hw1 : AllSpace w1) (hw2 : AllSpace w2) (hn : AllId (a :: t)) :
    parseAttributeMarker (fuel + 1) { rest := w0 ++ (a :: t) ++ w1 ++ '/' :: (w2 ++ ']' :: R), src := k, pos := p } =
      .ok { name := String.ofList (a :: t), position := p, sourcePosition := k, props := [], tag := .selfClose }
          { rest := R, src := k + 1 + w0.length + (a :: t).length + w1.length + 1 + w2.length + 1, pos := p } := by
  have ha : isIdChar a = true := hn a List.mem_cons_self
  have hsp : isSpace a = false := isIdChar_not_space a ha
  have e1 : w0 ++ (a :: t) ++ w1 ++ '/' :: (w2 ++ ']' :: R) = w0 ++ a :: (t ++ w1 ++ '/' :: (w2 ++ ']' :: R)) := by simp
  have e2 : a :: (t ++ w1 ++ '/' :: (w2 ++ ']' :: R)) = [] ++ (a :: t) ++ (w1 ++ '/' :: (w2 ++ ']' :: R)) := by simp
  simp only [parseAttributeMarker, bind, P.bind, getSrc, incSrc]
  rw [e1, expectPeek_eq '/' a w0 _ (k + 1) p hw0 hsp]
  simp only [id_ne ha isIdChar_slash, Bool.false_eq_true, if_false, P.bind]
  rw [e2, parseID_eq [] a t _ _ p AllSpace.nil hn (head_ws_then w1 '/' _ hw1 isIdChar_slash)]
  simp only [P.bind]
  rw [expectPeek_eq '=' '/' w1 _ _ p hw1 isSpace_slash]
  simp only [show ('/' == '=') = false by decide, Bool.false_eq_true, if_false, propsLoop, bind, P.bind]
  rw [show ('/' :: (w2 ++ ']' :: R)) = [] ++ '/' :: (w2 ++ ']' :: R) by simp,
    consumeWhitespace_eq [] '/' _ _ p AllSpace.nil isSpace_slash]
  simp only [peekRune, List.headD_cons, show ¬ ('/' = ']') by decide, if_false, if_true, P.bind]
  rw [show ('/' :: (w2 ++ ']' :: R)) = [] ++ '/' :: (w2 ++ ']' :: R) by simp,
    parseRune_eq '/' [] _ _ p AllSpace.nil isSpace_slash]
  simp only [P.bind]
  rw [parseRune_eq ']' w2 R _ p hw2 isSpace_rbracket]
  simp only [getPos, pure, P.pure, List.length_nil, List.length_cons, Nat.add_zero]

/-- `[ w0 / w1 name w2 ]` -/
theorem marker_close (w0 w1 : List Char) (a : Char) (t w2 R : List Char) (k p fuel : Nat)
    (hw0 : AllSpace w0) (hw1 : AllSpace w1) (hw2 : AllSpace w2) (hn : AllId (a :: t)) :
    parseAttributeMarker fuel { rest := w0 ++ '/' :: (w1 ++ (a :: t) ++ w2 ++ ']' :: R), src := k, pos := p } =
      .ok { name := String.ofList (a :: t), position := p, sourcePosition := k, props := [], tag := .close }
          { rest := R, src := k + 1 + w0.length + 1 + w1.length + (a :: t).length + w2.length + 1, pos := p } := by
  have ha : isIdChar a = true := hn a List.mem_cons_self
  have hsp : isSpace a = false := isIdChar_not_space a ha
  have e1 : w1 ++ (a :: t) ++ w2 ++ ']' :: R = w1 ++ a :: (t ++ w2 ++ ']' :: R) := by simp
  have e2 : a :: (t ++ w2 ++ ']' :: R) = [] ++ (a :: t) ++ (w2 ++ ']' :: R) := by simp
  simp only [parseAttributeMarker, bind, P.bind, getSrc, incSrc]
  rw [expectPeek_eq '/' '/' w0 _ (k + 1) p hw0 isSpace_slash]
  simp only [beq_self_eq_true, if_true, P.bind]
  rw [show ('/' :: (w1 ++ (a :: t) ++ w2 ++ ']' :: R)) = [] ++ '/' :: (w1 ++ (a :: t) ++ w2 ++ ']' :: R) by simp,
    parseRune_eq '/' [] _ _ p AllSpace.nil isSpace_slash]
  simp only [P.bind]
  rw [e1, expectPeek_eq ']' a w1 _ _ p hw1 hsp]
  simp only [id_ne ha isIdChar_rbracket, Bool.false_eq_true, if_false, P.bind]
  rw [e2, parseID_eq [] a t _ _ p AllSpace.nil hn (head_ws_then w2 ']' R hw2 isIdChar_rbracket)]
  simp only [P.bind]
  rw [parseRune_eq ']' w2 R _ p hw2 isSpace_rbracket]
  simp only [getPos, pure, P.pure, List.length_nil, List.length_cons, Nat.add_zero]

/-- `[ w0 / w1 ]` -/
theorem marker_closeAll (w0 w1 R : List Char) (k p fuel : Nat) (hw0 : AllSpace w0) (hw1 : AllSpace w1) :
    parseAttributeMarker fuel { rest := w0 ++ '/' :: (w1 ++ ']' :: R), src := k, pos := p } =
      .ok { name := "", position := p, sourcePosition := k, props := [], tag := .closeAll }
          { rest := R, src := k + 1 + w0.length + 1 + w1.length + 1, pos := p } := by
  simp only [parseAttributeMarker, bind, P.bind, getSrc, incSrc]
  rw [expectPeek_eq '/' '/' w0 _ (k + 1) p hw0 isSpace_slash]
  simp only [beq_self_eq_true, if_true, P.bind]
  rw [show ('/' :: (w1 ++ ']' :: R)) = [] ++ '/' :: (w1 ++ ']' :: R) by simp,
    parseRune_eq '/' [] _ _ p AllSpace.nil isSpace_slash]
  simp only [P.bind]
  rw [expectPeek_eq ']' ']' w1 R _ p hw1 isSpace_rbracket]
  simp only [beq_self_eq_true, if_true, P.bind]
  rw [show (']' :: R) = [] ++ ']' :: R by simp, parseRune_eq ']' [] R _ p AllSpace.nil isSpace_rbracket]
  simp only [getPos, pure, P.pure, List.length_nil, List.length_cons, Nat.add_zero]

end Ysgo.Markup
