import Ysgo.Lemmas.MarkupDec
import Ysgo.Lemmas.MarkupCount
/-!
# Scanner lemmas for markers with properties (every value kind) and the shorthand `[name=value]`
-/
namespace Ysgo.Markup
open Ysgo.Unicode Ysgo.MarkupSpec
attribute [local irreducible] Unicode.isLetter Unicode.isDigit Unicode.isSpace Unicode.toLower

theorem isSpace_blank : isSpace ' ' = true := by decide +kernel
theorem isSpace_equals : isSpace '=' = false := by decide +kernel

/-- the white space in front of the rendered properties (or of the end of the marker when there are none) -/
def propsLead (ps : List (List Char × SVal)) (ws : List (List Char)) (i : Nat) (tailW : List Char) : List Char :=
  match ps with
  | [] => tailW
  | _ :: _ => ' ' :: slot ws i

/-- the rendered properties and the end of the marker `d :: l` without the white space in front -/
def propsBody : List (List Char × SVal) → List (List Char) → Nat → List Char → Char → List Char → List Char
  | [], _, _, _, d, l => d :: l
  | (k, v) :: ps, ws, i, tailW, d, l =>
    k ++ slot ws (i + 1) ++ '=' :: slot ws (i + 2) ++ renderVal v ++ propsLead ps ws (i + 3) tailW ++
      propsBody ps ws (i + 3) tailW d l

theorem renderProps_split (ps : List (List Char × SVal)) (ws : List (List Char)) (i : Nat) (tailW : List Char) (d : Char)
    (l : List Char) :
    (renderProps ps ws i).1 ++ tailW ++ d :: l = propsLead ps ws i tailW ++ propsBody ps ws i tailW d l := by
  induction ps generalizing i with
  | nil => simp [renderProps, propsLead, propsBody]
  | cons q ps ih =>
    obtain ⟨k, v⟩ := q
    have := ih (i + 3)
    simp only [renderProps, propsLead, propsBody, List.cons_append, List.append_assoc] at this ⊢
    rw [this]

/-- the end of a marker: `]` or `/` -/
def IsEnd (d : Char) : Prop := d = ']' ∨ d = '/'

theorem IsEnd.nsp {d : Char} (h : IsEnd d) : isSpace d = false := by
  rcases h with rfl | rfl
  · exact isSpace_rbracket
  · exact isSpace_slash
theorem IsEnd.nid {d : Char} (h : IsEnd d) : isIdChar d = false := by
  rcases h with rfl | rfl
  · exact isIdChar_rbracket
  · exact isIdChar_slash
theorem IsEnd.ndot {d : Char} (h : IsEnd d) : d ≠ '.' := by
  rcases h with rfl | rfl <;> decide
theorem IsEnd.neq {d : Char} (h : IsEnd d) : (d == '=') = false := by
  rcases h with rfl | rfl <;> decide

/-- the properties of a well-formed marker -/
def PropsOk (ps : List (List Char × SVal)) : Prop := ∀ q ∈ ps, isIdent q.1 = true ∧ valOk q.2 = true

/-- what follows a value inside the property list -/
theorem follow_props (ps : List (List Char × SVal)) (ws : List (List Char)) (i : Nat) (tailW : List Char) (d : Char)
    (l : List Char) (hps : PropsOk ps) (hws : wsOk ws = true) (htw : AllSpace tailW) (hd : IsEnd d) :
    ∃ w d' l', Follow (propsLead ps ws i tailW ++ propsBody ps ws i tailW d l) w d' l' ∧
      d' :: l' = propsBody ps ws i tailW d l := by
  cases ps with
  | nil => exact ⟨tailW, d, l, ⟨rfl, htw, hd.nsp, hd.ndot, fun _ => hd.nid⟩, rfl⟩
  | cons q ps =>
    obtain ⟨k, v⟩ := q
    obtain ⟨a, t, rfl, hid⟩ := ident_cases (hps (k, v) List.mem_cons_self).1
    have ha : isIdChar a = true := hid a List.mem_cons_self
    refine ⟨' ' :: slot ws i, a, t ++ slot ws (i + 1) ++ '=' :: slot ws (i + 2) ++ renderVal v ++
      propsLead ps ws (i + 3) tailW ++ propsBody ps ws (i + 3) tailW d l, ⟨?_, ?_, isIdChar_not_space a ha, ?_, ?_⟩, ?_⟩
    · simp [propsLead, propsBody]
    · intro c hc
      simp only [List.mem_cons] at hc
      rcases hc with rfl | hc
      · exact isSpace_blank
      · exact allSpace_slot ws i hws c hc
    · intro e; subst e; rw [isIdChar_dot] at ha; exact absurd ha (by simp)
    · intro e; simp at e
    · simp [propsBody]

theorem propsBody_head (ps : List (List Char × SVal)) (ws : List (List Char)) (i : Nat) (tailW : List Char) (d : Char)
    (l : List Char) (hps : PropsOk ps) (hd : IsEnd d) :
    ∃ x r, propsBody ps ws i tailW d l = x :: r ∧ isSpace x = false ∧ (x == '=') = false := by
  cases ps with
  | nil => exact ⟨d, l, rfl, hd.nsp, hd.neq⟩
  | cons q ps =>
    obtain ⟨k, v⟩ := q
    obtain ⟨a, t, rfl, hid⟩ := ident_cases (hps (k, v) List.mem_cons_self).1
    have ha : isIdChar a = true := hid a List.mem_cons_self
    exact ⟨a, t ++ slot ws (i + 1) ++ '=' :: slot ws (i + 2) ++ renderVal v ++ propsLead ps ws (i + 3) tailW ++
      propsBody ps ws (i + 3) tailW d l, by simp [propsBody], isIdChar_not_space a ha, id_ne ha isIdChar_eq⟩

/-- the property loop on rendered properties: every property is read and typed -/
theorem propsLoop_props (nm : String) (src0 : Nat) (ws : List (List Char)) (hws : wsOk ws = true) (tailW : List Char)
    (htw : AllSpace tailW) (d : Char) (hd : IsEnd d) (l : List Char) (p fuel : Nat) :
    ∀ (ps : List (List Char × SVal)) (i : Nat) (resolved acc : List (String × PVal)) (wAny : List Char) (k : Nat),
      resolveProps ps = some resolved → PropsOk ps → AllSpace wAny →
      ∃ wT kT, AllSpace wT ∧
        propsLoop nm src0 (fuel + ps.length) acc { rest := wAny ++ propsBody ps ws i tailW d l, src := k, pos := p } =
          propsLoop nm src0 fuel (acc ++ resolved) { rest := wT ++ d :: l, src := kT, pos := p } := by
  intro ps
  induction ps with
  | nil =>
    intro i resolved acc wAny k hres _ hwa
    simp only [resolveProps, Option.some.injEq] at hres
    subst hres
    exact ⟨wAny, k, hwa, by simp [propsBody]⟩
  | cons q ps ih =>
    intro i resolved acc wAny k hres hps hwa
    obtain ⟨key, v⟩ := q
    have hq := hps (key, v) List.mem_cons_self
    have hps' : PropsOk ps := fun q hq => hps q (List.mem_cons_of_mem _ hq)
    -- the resolved values
    simp only [resolveProps] at hres
    cases hv : valOf v with
    | none => simp [hv] at hres
    | some x =>
      cases hr : resolveProps ps with
      | none => simp [hv, hr] at hres
      | some r =>
        simp only [hv, hr, Option.some.injEq] at hres
        subst hres
        obtain ⟨a, t, rfl, hid⟩ := ident_cases hq.1
        have ha : isIdChar a = true := hid a List.mem_cons_self
        have hsp : isSpace a = false := isIdChar_not_space a ha
        obtain ⟨w, d', l', hfol, hbody⟩ := follow_props ps ws (i + 3) tailW d l hps' hws htw hd
        -- shape of the input
        have e1 : wAny ++ propsBody ((a :: t, v) :: ps) ws i tailW d l =
            wAny ++ a :: (t ++ (slot ws (i + 1) ++ '=' :: (slot ws (i + 2) ++ renderVal v ++
              (propsLead ps ws (i + 3) tailW ++ propsBody ps ws (i + 3) tailW d l)))) := by
          simp [propsBody]
        have e2 : a :: (t ++ (slot ws (i + 1) ++ '=' :: (slot ws (i + 2) ++ renderVal v ++
              (propsLead ps ws (i + 3) tailW ++ propsBody ps ws (i + 3) tailW d l)))) =
            [] ++ (a :: t) ++ (slot ws (i + 1) ++ '=' :: (slot ws (i + 2) ++ renderVal v ++
              (propsLead ps ws (i + 3) tailW ++ propsBody ps ws (i + 3) tailW d l))) := by simp
        obtain ⟨w2, k2, hw2, hpv⟩ := parseValue_render_all v x hq.2 hv (slot ws (i + 2))
          (propsLead ps ws (i + 3) tailW ++ propsBody ps ws (i + 3) tailW d l) w d' l'
          (k + wAny.length + (a :: t).length + (slot ws (i + 1)).length + 1) p (allSpace_slot ws (i + 2) hws) hfol
        obtain ⟨wT, kT, hwT, hih⟩ := ih (i + 3) r (acc ++ [(String.ofList (a :: t), x)]) w2 k2 hr hps' hw2
        refine ⟨wT, kT, hwT, ?_⟩
        rw [show fuel + ((a :: t, v) :: ps).length = (fuel + ps.length) + 1 by simp only [List.length_cons]; omega]
        simp only [propsLoop, bind, P.bind]
        rw [e1, consumeWhitespace_eq wAny a _ k p hwa hsp]
        simp only [peekRune, List.headD_cons]
        have h1 : ¬ a = ']' := fun e => by subst e; rw [isIdChar_rbracket] at ha; exact absurd ha (by simp)
        have h2 : ¬ a = '/' := fun e => by subst e; rw [isIdChar_slash] at ha; exact absurd ha (by simp)
        simp only [h1, h2, if_false, P.bind]
        rw [e2, parseID_eq [] a t _ _ p AllSpace.nil hid
          (head_ws_then (slot ws (i + 1)) '=' _ (allSpace_slot ws (i + 1) hws) isIdChar_eq)]
        simp only [P.bind]
        rw [parseRune_eq '=' (slot ws (i + 1)) _ _ p (allSpace_slot ws (i + 1) hws) isSpace_equals]
        simp only [P.bind, List.length_nil, Nat.add_zero]
        rw [hpv]
        simp only []
        rw [hbody, hih]
        simp

theorem propsLoop_end_open (nm : String) (src0 fuel : Nat) (acc : List (String × PVal)) (wT R : List Char) (k p : Nat)
    (hwT : AllSpace wT) :
    propsLoop nm src0 (fuel + 1) acc { rest := wT ++ ']' :: R, src := k, pos := p } =
      .ok { name := nm, position := p, sourcePosition := src0, props := acc, tag := .opn }
        { rest := R, src := k + wT.length + 1, pos := p } := by
  simp only [propsLoop, bind, P.bind]
  rw [consumeWhitespace_eq wT ']' R k p hwT isSpace_rbracket]
  simp only [peekRune, List.headD_cons, if_true, P.bind]
  rw [show (']' :: R) = [] ++ ']' :: R by simp, parseRune_eq ']' [] R _ p AllSpace.nil isSpace_rbracket]
  simp only [getPos, pure, P.pure, List.length_nil, Nat.add_zero]

theorem propsLoop_end_self (nm : String) (src0 fuel : Nat) (acc : List (String × PVal)) (wT w3 R : List Char) (k p : Nat)
    (hwT : AllSpace wT) (hw3 : AllSpace w3) :
    propsLoop nm src0 (fuel + 1) acc { rest := wT ++ '/' :: (w3 ++ ']' :: R), src := k, pos := p } =
      .ok { name := nm, position := p, sourcePosition := src0, props := acc, tag := .selfClose }
        { rest := R, src := k + wT.length + 1 + w3.length + 1, pos := p } := by
  simp only [propsLoop, bind, P.bind]
  rw [consumeWhitespace_eq wT '/' _ k p hwT isSpace_slash]
  simp only [peekRune, List.headD_cons, show ¬ ('/' = ']') by decide, if_false, if_true, P.bind]
  rw [show ('/' :: (w3 ++ ']' :: R)) = [] ++ '/' :: (w3 ++ ']' :: R) by simp,
    parseRune_eq '/' [] _ _ p AllSpace.nil isSpace_slash]
  simp only [P.bind]
  rw [parseRune_eq ']' w3 R _ p hw3 isSpace_rbracket]
  simp only [getPos, pure, P.pure, List.length_nil, Nat.add_zero]

/-- the text of a marker head after the `[`: `w0 name (w1 = w2 value)? props tailW d l` -/
def headText (n : List Char) (sh : Option SVal) (ps : List (List Char × SVal)) (ws : List (List Char))
    (d : Char) (l : List Char) : List Char :=
  match sh with
  | none => slot ws 0 ++ n ++ ((renderProps ps ws 1).1 ++ slot ws (renderProps ps ws 1).2 ++ d :: l)
  | some v => slot ws 0 ++ n ++ (slot ws 1 ++ '=' :: (slot ws 2 ++ renderVal v ++
      ((renderProps ps ws 3).1 ++ slot ws (renderProps ps ws 3).2 ++ d :: l)))

/-- the head of a marker: the name, the shorthand value and the properties are read; the property loop is left at the end
of the marker -/
theorem marker_head (n : List Char) (sh : Option SVal) (ps : List (List Char × SVal)) (ws : List (List Char))
    (d : Char) (l : List Char) (props : List (String × PVal)) (k p fuel : Nat)
    (hn : isIdent n = true) (hsh : ∀ v, sh = some v → valOk v = true) (hps : PropsOk ps)
    (hws : wsOk ws = true) (hd : IsEnd d) (hres : resolve n sh ps = some props) :
    ∃ wT kT, AllSpace wT ∧
      parseAttributeMarker (fuel + ps.length) { rest := headText n sh ps ws d l, src := k, pos := p } =
        propsLoop (String.ofList n) k fuel props { rest := wT ++ d :: l, src := kT, pos := p } := by
  obtain ⟨a, t, rfl, hid⟩ := ident_cases hn
  have ha : isIdChar a = true := hid a List.mem_cons_self
  have hsp : isSpace a = false := isIdChar_not_space a ha
  cases sh with
  | none =>
    simp only [resolve, List.nil_append] at hres
    have htw := allSpace_slot ws (renderProps ps ws 1).2 hws
    have hsplit := renderProps_split ps ws 1 (slot ws (renderProps ps ws 1).2) d l
    obtain ⟨x, r, hx, hxsp, hxeq⟩ := propsBody_head ps ws 1 (slot ws (renderProps ps ws 1).2) d l hps hd
    obtain ⟨wT, kT, hwT, hloop⟩ := propsLoop_props (String.ofList (a :: t)) k ws hws _ htw d hd l p fuel ps 1 props []
      [] (k + 1 + (slot ws 0).length + (a :: t).length + (propsLead ps ws 1 (slot ws (renderProps ps ws 1).2)).length)
      hres hps AllSpace.nil
    refine ⟨wT, kT, hwT, ?_⟩
    have hlead : AllSpace (propsLead ps ws 1 (slot ws (renderProps ps ws 1).2)) := by
      cases ps with
      | nil => exact htw
      | cons q ps =>
        intro c hc
        simp only [propsLead, List.mem_cons] at hc
        rcases hc with rfl | hc
        · exact isSpace_blank
        · exact allSpace_slot ws 1 hws c hc
    have hnotid : ∀ y, (propsLead ps ws 1 (slot ws (renderProps ps ws 1).2) ++
        propsBody ps ws 1 (slot ws (renderProps ps ws 1).2) d l).head? = some y → isIdChar y = false := by
      obtain ⟨w, d', l', hfol, _⟩ := follow_props ps ws 1 (slot ws (renderProps ps ws 1).2) d l hps hws htw hd
      exact hfol.head_not_id
    simp only [headText, hsplit]
    have e1 : slot ws 0 ++ (a :: t) ++ (propsLead ps ws 1 (slot ws (renderProps ps ws 1).2) ++
        propsBody ps ws 1 (slot ws (renderProps ps ws 1).2) d l) =
        slot ws 0 ++ a :: (t ++ (propsLead ps ws 1 (slot ws (renderProps ps ws 1).2) ++
        propsBody ps ws 1 (slot ws (renderProps ps ws 1).2) d l)) := by simp
    have e2 : a :: (t ++ (propsLead ps ws 1 (slot ws (renderProps ps ws 1).2) ++
        propsBody ps ws 1 (slot ws (renderProps ps ws 1).2) d l)) =
        [] ++ (a :: t) ++ (propsLead ps ws 1 (slot ws (renderProps ps ws 1).2) ++
        propsBody ps ws 1 (slot ws (renderProps ps ws 1).2) d l) := by simp
    simp only [parseAttributeMarker, bind, P.bind, getSrc, incSrc]
    rw [e1, expectPeek_eq '/' a (slot ws 0) _ (k + 1) p (allSpace_slot ws 0 hws) hsp]
    simp only [id_ne ha isIdChar_slash, Bool.false_eq_true, if_false, P.bind]
    rw [e2, parseID_eq [] a t _ _ p AllSpace.nil hid hnotid]
    simp only [P.bind, List.length_nil, Nat.add_zero]
    rw [hx, expectPeek_eq '=' x _ r _ p hlead hxsp]
    simp only [hxeq, Bool.false_eq_true, if_false]
    rw [← hx]
    have := hloop
    simp only [List.nil_append] at this
    exact this
  | some v =>
    have hvok := hsh v rfl
    simp only [resolve, List.singleton_append, resolveProps] at hres
    cases hv : valOf v with
    | none => simp [hv] at hres
    | some x =>
      cases hr : resolveProps ps with
      | none => simp [hv, hr] at hres
      | some r =>
        simp only [hv, hr, Option.some.injEq] at hres
        subst hres
        have htw := allSpace_slot ws (renderProps ps ws 3).2 hws
        have hsplit := renderProps_split ps ws 3 (slot ws (renderProps ps ws 3).2) d l
        obtain ⟨w, d', l', hfol, hbody⟩ := follow_props ps ws 3 (slot ws (renderProps ps ws 3).2) d l hps hws htw hd
        obtain ⟨w2, k2, hw2, hpv⟩ := parseValue_render_all v x hvok hv (slot ws 2)
          (propsLead ps ws 3 (slot ws (renderProps ps ws 3).2) ++ propsBody ps ws 3 (slot ws (renderProps ps ws 3).2) d l)
          w d' l' (k + 1 + (slot ws 0).length + (a :: t).length + (slot ws 1).length + 1) p (allSpace_slot ws 2 hws) hfol
        obtain ⟨wT, kT, hwT, hloop⟩ := propsLoop_props (String.ofList (a :: t)) k ws hws _ htw d hd l p fuel ps 3 r
          [(String.ofList (a :: t), x)] w2 k2 hr hps hw2
        refine ⟨wT, kT, hwT, ?_⟩
        simp only [headText]
        rw [show (renderProps ps ws 3).1 ++ slot ws (renderProps ps ws 3).2 ++ d :: l =
          propsLead ps ws 3 (slot ws (renderProps ps ws 3).2) ++ propsBody ps ws 3 (slot ws (renderProps ps ws 3).2) d l
          from hsplit]
        generalize hpost : propsLead ps ws 3 (slot ws (renderProps ps ws 3).2) ++
          propsBody ps ws 3 (slot ws (renderProps ps ws 3).2) d l = post at hpv ⊢
        have e1 : slot ws 0 ++ (a :: t) ++ (slot ws 1 ++ '=' :: (slot ws 2 ++ renderVal v ++ post)) =
            slot ws 0 ++ a :: (t ++ (slot ws 1 ++ '=' :: (slot ws 2 ++ renderVal v ++ post))) := by simp
        have e2 : a :: (t ++ (slot ws 1 ++ '=' :: (slot ws 2 ++ renderVal v ++ post))) =
            [] ++ (a :: t) ++ (slot ws 1 ++ '=' :: (slot ws 2 ++ renderVal v ++ post)) := by simp
        simp only [parseAttributeMarker, bind, P.bind, getSrc, incSrc]
        rw [e1, expectPeek_eq '/' a (slot ws 0) _ (k + 1) p (allSpace_slot ws 0 hws) hsp]
        simp only [id_ne ha isIdChar_slash, Bool.false_eq_true, if_false, P.bind]
        rw [e2, parseID_eq [] a t _ _ p AllSpace.nil hid
          (head_ws_then (slot ws 1) '=' _ (allSpace_slot ws 1 hws) isIdChar_eq)]
        simp only [P.bind, List.length_nil, Nat.add_zero]
        rw [expectPeek_eq '=' '=' (slot ws 1) _ _ p (allSpace_slot ws 1 hws) isSpace_equals]
        simp only [beq_self_eq_true, if_true, P.bind]
        rw [show ('=' :: (slot ws 2 ++ renderVal v ++ post)) = [] ++ '=' :: (slot ws 2 ++ renderVal v ++ post) by simp,
          parseRune_eq '=' [] _ _ p AllSpace.nil isSpace_equals]
        simp only [P.bind, List.length_nil, Nat.add_zero]
        rw [hpv]
        simp only []
        rw [hbody, hloop]
        rfl
end Ysgo.Markup
