import Ysgo.Model.Chan
/-!
# Channel-level mailbox: lemmas about single channels, and frame lemmas of the system's operations
-/
namespace Ysgo.Chan

/-! ### one channel -/
namespace Chan

/-- the runtime's invariant: senders are parked only while the buffer is full -/
def WF (c : Chan) : Prop := c.sendq ≠ [] → c.cap ≤ c.buf.length

theorem recvNB_val (c : Chan) : c.recvNB.val = c.avail := by
  unfold recvNB avail
  split <;> simp_all
  split <;> simp_all

theorem poll_cases (p : Poll) (c : Chan) : (c.poll p).val = none ∨ c.poll p = c.recvNB := by
  cases p
  · right; rfl
  · unfold poll recvLen
    cases c.buf with
    | nil => left; rfl
    | cons a r => right; rfl

theorem poll_select_val (c : Chan) : (c.poll .selectDefault).val = c.avail := recvNB_val c

theorem recvNB_chan_of_none (c : Chan) (h : c.recvNB.val = none) : c.recvNB.chan = c := by
  unfold recvNB at *
  split <;> simp_all
  split <;> simp_all

/-- nothing available: the channel is open with nothing in it -/
theorem avail_none_iff (c : Chan) : c.avail = none ↔ c.buf = [] ∧ c.sendq = [] ∧ c.closed = false := by
  unfold avail
  split <;> simp_all

theorem send_of_avail_none {c : Chan} (g : Nat) (w : Val) (h : c.avail = none) :
    ∃ c', (c.send g w = .sent c' ∨ c.send g w = .parked c') ∧ c'.avail = some w ∧ c'.cap = c.cap := by
  obtain ⟨hb, hq, hc⟩ := (avail_none_iff c).1 h
  unfold send
  simp only [hc, Bool.false_eq_true, if_false, hb, List.length_nil, List.nil_append, hq]
  by_cases hcap : 0 < c.cap
  · simp [hcap, avail]
  · simp [hcap, avail]

theorem close_of_avail_none {c : Chan} (h : c.avail = none) :
    ∃ c', c.close = .closed c' ∧ c'.avail = some false ∧ c'.cap = c.cap := by
  obtain ⟨hb, hq, hc⟩ := (avail_none_iff c).1 h
  unfold close
  simp [hc, hq, avail, hb]

/-- what is available first stays available first whatever is sent afterwards -/
theorem avail_send {c c' : Chan} {g : Nat} {v w : Val} (hwf : c.WF) (h : c.avail = some v)
    (hs : c.send g w = .sent c' ∨ c.send g w = .parked c') : c'.avail = some v := by
  unfold send at hs
  unfold WF at hwf
  unfold avail at *
  by_cases hc : c.closed = true
  · simp [hc] at hs
  · simp only [hc, Bool.false_eq_true, if_false] at hs
    by_cases hl : c.buf.length < c.cap
    · simp only [hl, if_true] at hs
      have hq : c.sendq = [] := by
        cases hq : c.sendq with
        | nil => rfl
        | cons a q => exact absurd (hwf (by simp [hq])) (by omega)
      rcases hs with hs | hs
      · injection hs with hs
        subst hs
        cases hb : c.buf with
        | nil => simp [hb, hq, hc] at h
        | cons a r => simp_all
      · cases hs
    · simp only [hl, if_false] at hs
      rcases hs with hs | hs
      · cases hs
      · injection hs with hs
        subst hs
        cases hb : c.buf with
        | nil =>
          cases hq : c.sendq with
          | nil => simp [hb, hq, hc] at h
          | cons a q => simp_all
        | cons a r => simp_all

/-- … or when the channel is closed afterwards -/
theorem avail_close {c c' : Chan} {v : Val} (h : c.avail = some v) (hs : c.close = .closed c') : c'.avail = some v := by
  unfold close at hs
  by_cases hc : c.closed = true
  · simp [hc] at hs
  · simp only [hc, Bool.false_eq_true, if_false] at hs
    cases hq : c.sendq with
    | cons a q => simp [hq] at hs
    | nil =>
      simp only [hq] at hs
      injection hs with hs
      subst hs
      unfold avail at *
      cases hb : c.buf with
      | nil => simp [hb, hq, hc] at h
      | cons a r => simp_all

theorem wf_send {c c' : Chan} {g : Nat} {w : Val} (hwf : c.WF)
    (hs : c.send g w = .sent c' ∨ c.send g w = .parked c') : c'.WF := by
  unfold send at hs
  unfold WF at *
  by_cases hc : c.closed = true
  · simp [hc] at hs
  · simp only [hc, Bool.false_eq_true, if_false] at hs
    by_cases hl : c.buf.length < c.cap
    · simp only [hl, if_true] at hs
      rcases hs with hs | hs
      · injection hs with hs
        subst hs
        intro hq
        exact absurd (hwf hq) (by omega)
      · cases hs
    · simp only [hl, if_false] at hs
      rcases hs with hs | hs
      · cases hs
      · injection hs with hs
        subst hs
        intro _
        simp only
        omega

theorem wf_close {c c' : Chan} (hwf : c.WF) (hs : c.close = .closed c') : c'.WF := by
  unfold close at hs
  unfold WF at *
  have _ := hwf
  split at hs
  · cases hs
  · split at hs
    · injection hs with hs
      subst hs
      simp_all
    · cases hs

theorem wf_recvNB {c : Chan} (hwf : c.WF) : c.recvNB.chan.WF := by
  unfold recvNB
  unfold WF at *
  split
  · rename_i hb hq
    simp only [List.length_append, List.length_cons, List.length_nil]
    intro _
    have := hwf (by simp [hq])
    simp [hb] at this
    omega
  · rename_i hb hq
    simp [hq]
  · rename_i hb hq
    intro _
    have := hwf (by simp [hq])
    simp only [hb, List.length_nil] at *
    omega
  · split <;> exact hwf

theorem wf_poll (p : Poll) {c : Chan} (hwf : c.WF) : (c.poll p).chan.WF := by
  rcases poll_cases p c with h | h
  · cases p
    · exact wf_recvNB hwf
    · unfold poll recvLen at *
      cases hb : c.buf with
      | nil => exact hwf
      | cons a r => exact wf_recvNB hwf
  · rw [h]; exact wf_recvNB hwf

theorem wf_fresh (n : Nat) (b : List Val) (cl : Bool) : ({ cap := n, buf := b, closed := cl } : Chan).WF := by
  simp [WF]

end Chan

/-! ### list helpers -/

theorem get_set_cases {α : Type} {l : List α} {i j : Nat} {a b : α} (h : (l.set i a)[j]? = some b) :
    (j = i ∧ b = a ∧ i < l.length) ∨ (j ≠ i ∧ l[j]? = some b) := by
  rw [List.getElem?_set] at h
  by_cases hij : i = j
  · subst hij
    by_cases hl : i < l.length
    · simp [hl] at h
      exact Or.inl ⟨rfl, h.symm, hl⟩
    · simp [hl] at h
  · simp [hij] at h
    exact Or.inr ⟨fun e => hij e.symm, h⟩

theorem lt_of_get {α : Type} {l : List α} {i : Nat} {a : α} (h : l[i]? = some a) : i < l.length := by
  rcases Nat.lt_or_ge i l.length with hl | hl
  · exact hl
  · rw [List.getElem?_eq_none hl] at h; cases h

theorem drop_cons {α : Type} {l : List α} {n : Nat} {a : α} {r : List α} (h : l.drop n = a :: r) :
    l[n]? = some a ∧ l.drop (n + 1) = r := by
  have hn : n < l.length := by
    rcases Nat.lt_or_ge n l.length with hl | hl
    · exact hl
    · rw [List.drop_eq_nil_of_le hl] at h; cases h
  rw [List.drop_eq_getElem_cons hn] at h
  injection h with h1 h2
  exact ⟨by rw [List.getElem?_eq_getElem hn, h1], h2⟩

/-! ### goroutine state transformations -/
namespace G

theorem wake_chan (x : G) : x.wake.chan = x.chan ∨ x.wake.chan = none := by
  cases x <;> simp [wake, chan]

theorem wake_libActive (x : G) : x.wake.libActive = x.libActive := by
  cases x <;> simp [wake, libActive]

theorem wake_not_libParked (x : G) (ch : Nat) : x.wake ≠ .libParked ch := by
  cases x <;> simp [wake]

theorem libActive_chan {x : G} {ch : Nat} (h : x.libActive = some ch) : x.chan = some ch := by
  cases x <;> simp_all [libActive, chan]

end G

namespace Sys

/-! ### frame lemmas for `goCore` -/

theorem goCore_heap_length (heap : List Chan) (gs : List G) (g : Nat) : (goCore heap gs g).1.length = heap.length := by
  unfold goCore
  split <;> try rfl
  all_goals (split <;> try rfl)
  all_goals (split <;> simp)

theorem goCore_gs_length (heap : List Chan) (gs : List G) (g : Nat) : (goCore heap gs g).2.1.length = gs.length := by
  unfold goCore
  split <;> try simp
  all_goals (split <;> try rfl)
  all_goals (split <;> simp)

theorem goCore_gs_other (heap : List Chan) (gs : List G) {g g' : Nat} (h : g' ≠ g) :
    (goCore heap gs g).2.1[g']? = gs[g']? := by
  have hne : g ≠ g' := fun e => h e.symm
  unfold goCore
  split <;> try simp [List.getElem?_set_ne hne]
  all_goals (split <;> try rfl)
  all_goals (split <;> simp [List.getElem?_set_ne hne])

/-- a step of goroutine `g` touches no channel but the one `g` works on -/
theorem goCore_heap_other (heap : List Chan) (gs : List G) {g ch : Nat}
    (h : ∀ x, gs[g]? = some x → x.chan ≠ some ch) : (goCore heap gs g).1[ch]? = heap[ch]? := by
  unfold goCore
  split <;> try rfl
  all_goals (rename_i hx; have hne := h _ hx; simp only [G.chan, ne_eq, Option.some.injEq] at hne)
  all_goals (split <;> try rfl)
  all_goals (split <;> try rfl)
  all_goals (exact List.getElem?_set_ne hne)

end Sys
end Ysgo.Chan
