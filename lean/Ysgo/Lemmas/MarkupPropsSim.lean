import Ysgo.Lemmas.MarkupProps
/-!
# Simulation of open and self-closing markers with properties
-/
namespace Ysgo.Markup
open Ysgo.Unicode Ysgo.MarkupSpec
attribute [local irreducible] Unicode.isLetter Unicode.isDigit Unicode.isSpace Unicode.toLower

theorem lookup_eq_getProp (ps : List (String × PVal)) (k : String) : lookup ps k = getProp ps k := by
  induction ps with
  | nil => rfl
  | cons q r ih =>
    obtain ⟨k', v⟩ := q
    simp only [getProp] at ih
    simp only [lookup, getProp, List.find?_cons]
    cases h : (k' == k) with
    | true => simp
    | false => simp only [Bool.false_eq_true, if_false, ih]

theorem renderProps_length (ps : List (List Char × SVal)) (ws : List (List Char)) (i : Nat) :
    ps.length ≤ (renderProps ps ws i).1.length := by
  induction ps generalizing i with
  | nil => simp [renderProps]
  | cons q ps ih =>
    obtain ⟨k, v⟩ := q
    have := ih (i + 3)
    simp only [renderProps, List.length_cons, List.length_append]
    omega

theorem headText_length (n : List Char) (sh : Option SVal) (ps : List (List Char × SVal)) (ws : List (List Char))
    (d : Char) (l : List Char) : ps.length + 1 + l.length ≤ (headText n sh ps ws d l).length := by
  cases sh with
  | none =>
    have := renderProps_length ps ws 1
    simp only [headText, List.length_append, List.length_cons]; omega
  | some v =>
    have := renderProps_length ps ws 3
    simp only [headText, List.length_append, List.length_cons]; omega

theorem render_opn (n : List Char) (sh : Option SVal) (ps : List (List Char × SVal)) (ws : List (List Char))
    (R : List Char) : renderChunk (.opn n sh ps ws) ++ R = '[' :: headText n sh ps ws ']' R := by
  cases sh <;> simp [renderChunk, renderHead, headText]

theorem render_selfClose (n : List Char) (sh : Option SVal) (ps : List (List Char × SVal)) (ws : List (List Char))
    (R : List Char) :
    renderChunk (.selfClose n sh ps ws) ++ R =
      '[' :: headText n sh ps ws '/' (slot ws (renderHead n sh ps ws).2 ++ ']' :: R) := by
  cases sh <;> simp [renderChunk, renderHead, headText]

/-- the conditions on an open or self-closing marker with properties -/
structure HeadOk (n : List Char) (sh : Option SVal) (ps : List (List Char × SVal)) (ws : List (List Char)) : Prop where
  name : isIdent n = true
  short : ∀ v, sh = some v → valOk v = true
  props : PropsOk ps
  ws : wsOk ws = true

theorem trimRule_eq (S : St) (st : LoopSt) (m : Marker) (isSelf : Bool) (hout : st.out = S.out)
    (hlast : isSpace st.last = S.lastWs) (htag : (m.tag == .selfClose) = isSelf) :
    trimRule S isSelf false m.props = trimDecision (st.out.length == 0 || isSpace st.last) m := by
  unfold trimRule trimDecision
  rw [lookup_eq_getProp, hout, hlast, htag]
  have : (S.out.isEmpty || S.lastWs) = (S.out.length == 0 || S.lastWs) := by cases S.out <;> simp
  rw [this]
  split
  · split <;> simp_all
  · rfl

theorem stepSim_opn_props (pfuel : Nat) (n : List Char) (sh : Option SVal) (ps : List (List Char × SVal))
    (ws : List (List Char)) (hok : HeadOk n sh ps ws) (hnr : isReplName n = false) : StepSim pfuel (.opn n sh ps ws) := by
  intro S S' R st s hp hinv hstep
  have hrepl : isReplacement (String.ofList n) = false := by rw [isReplacement_ofList]; exact hnr
  -- the specification's step
  simp only [stepChunk, bind, Option.bind] at hstep
  cases hres : resolve n sh ps with
  | none => simp [hres] at hstep
  | some props =>
    simp only [hres] at hstep
    cases htr : trimRule S false false props with
    | none => simp [htr] at hstep
    | some trim =>
      simp only [htr, pure, Option.some.injEq] at hstep
      obtain ⟨rest, src, pos⟩ := s
      have hrest := hinv.rest
      have hsrc := hinv.src
      rw [render_opn] at hrest hsrc
      simp only [startsWithSpace, isSpace_lbracket, Bool.and_false, Bool.false_eq_true, if_false, Nat.add_zero] at hrest hsrc
      subst hrest hsrc
      -- the parser's marker
      have hlen := headText_length n sh ps ws ']' R
      simp only [List.length_cons] at hp
      obtain ⟨f, hf⟩ : ∃ f, pfuel = (f + 1) + ps.length := ⟨pfuel - ps.length - 1, by omega⟩
      obtain ⟨wT, kT, hwT, hhead⟩ := marker_head n sh ps ws ']' R props S.src st.out.length (f + 1) hok.name hok.short
        hok.props hok.ws (Or.inl rfl) hres
      rw [propsLoop_end_open _ _ f props wT R kT _ hwT, ← hf] at hhead
      have hcount := (parseAttributeMarker_count pfuel _ _ _ hhead).1
      simp only [] at hcount
      have htd : trimDecision (st.out.length == 0 || isSpace st.last)
          { name := String.ofList n, position := st.out.length, sourcePosition := S.src, props := props, tag := .opn } =
          some trim := by
        rw [← trimRule_eq S st _ false hinv.out hinv.last (by rfl)]
        exact htr
      have hms := markerStep_general pfuel st _ _ _ trim hhead hrepl htd
      refine ⟨1, _, _, ?_, ?_, fun fuel => mainLoop_marker pfuel _ fuel st _ S.src pos _ hms⟩
      · subst hstep
        obtain ⟨opensM, hop, hb⟩ := hinv.build
        have hclen : (renderChunk (.opn n sh ps ws)).length + R.length = 1 + (headText n sh ps ws ']' R).length := by
          have := congrArg List.length (render_opn n sh ps ws R)
          simp only [List.length_append, List.length_cons] at this
          omega
        refine ⟨hinv.out, ?_, ?_, by simp [isSpace_lbracket], ?_⟩
        · simp only [afterTrim]; split <;> rfl
        · simp only [afterTrim]; split <;> simp only [Nat.add_zero] <;> omega
        · refine ⟨opensM ++ [Marker.mk (String.ofList n) st.out.length S.src props .opn], ?_, ?_⟩
          · simp [hop, toOpen, hinv.out]
          · intro more
            rw [List.append_assoc, hb]
            simp [buildAttrs]
      · simp only [afterTrim]
        split
        · simp only [List.length_cons, List.length_tail]; omega
        · simp only [List.length_cons]; omega


theorem stepSim_selfClose_props (pfuel : Nat) (n : List Char) (sh : Option SVal) (ps : List (List Char × SVal))
    (ws : List (List Char)) (hok : HeadOk n sh ps ws) (hnr : isReplName n = false) : StepSim pfuel (.selfClose n sh ps ws) := by
  intro S S' R st s hp hinv hstep
  have hrepl : isReplacement (String.ofList n) = false := by rw [isReplacement_ofList]; exact hnr
  -- the specification's step
  simp only [stepChunk, bind, Option.bind, hnr, Bool.false_eq_true, if_false] at hstep
  cases hres : resolve n sh ps with
  | none => simp [hres] at hstep
  | some props =>
    simp only [hres] at hstep
    cases htr : trimRule S true false props with
    | none => simp [htr] at hstep
    | some trim =>
      simp only [htr, pure, Option.some.injEq] at hstep
      obtain ⟨rest, src, pos⟩ := s
      have hrest := hinv.rest
      have hsrc := hinv.src
      rw [render_selfClose] at hrest hsrc
      simp only [startsWithSpace, isSpace_lbracket, Bool.and_false, Bool.false_eq_true, if_false, Nat.add_zero] at hrest hsrc
      subst hrest hsrc
      -- the parser's marker
      generalize hw3 : slot ws (renderHead n sh ps ws).2 = w3 at hinv hp
      have hw3s : AllSpace w3 := by rw [← hw3]; exact allSpace_slot ws _ hok.ws
      have hlen := headText_length n sh ps ws '/' (w3 ++ ']' :: R)
      have hl3 : (w3 ++ ']' :: R).length = w3.length + 1 + R.length := by simp only [List.length_append, List.length_cons]; omega
      simp only [List.length_cons] at hp
      obtain ⟨f, hf⟩ : ∃ f, pfuel = (f + 1) + ps.length := ⟨pfuel - ps.length - 1, by omega⟩
      obtain ⟨wT, kT, hwT, hhead⟩ := marker_head n sh ps ws '/' (w3 ++ ']' :: R) props S.src st.out.length (f + 1)
        hok.name hok.short hok.props hok.ws (Or.inr rfl) hres
      rw [propsLoop_end_self _ _ f props wT w3 R kT _ hwT hw3s, ← hf] at hhead
      have hcount := (parseAttributeMarker_count pfuel _ _ _ hhead).1
      simp only [] at hcount
      have htd : trimDecision (st.out.length == 0 || isSpace st.last)
          (Marker.mk (String.ofList n) st.out.length S.src props .selfClose) = some trim := by
        rw [← trimRule_eq S st _ true hinv.out hinv.last (by rfl)]
        exact htr
      have hms := markerStep_general pfuel st _ _ _ trim hhead hrepl htd
      refine ⟨1, _, _, ?_, ?_, fun fuel => mainLoop_marker pfuel _ fuel st _ S.src pos _ hms⟩
      · subst hstep
        obtain ⟨opensM, hop, hb⟩ := hinv.build
        have hclen : (renderChunk (.selfClose n sh ps ws)).length + R.length =
            1 + (headText n sh ps ws '/' (w3 ++ ']' :: R)).length := by
          have := congrArg List.length (render_selfClose n sh ps ws R)
          rw [hw3] at this
          simp only [List.length_append, List.length_cons] at this
          omega
        refine ⟨by simp [hinv.out], ?_, ?_, by simp [isSpace_lbracket], ?_⟩
        · simp only [afterTrim]; split <;> rfl
        · simp only [afterTrim]; split <;> simp only [Nat.add_zero] <;> omega
        · refine ⟨opensM, hop, ?_⟩
          intro more
          rw [List.append_assoc, hb]
          simp [buildAttrs, toPropertyMap_eq, hinv.out]
      · simp only [afterTrim]
        split
        · simp only [List.length_cons, List.length_tail]; omega
        · simp only [List.length_cons]; omega

/-- the chunk kinds of theorem `parse_render_props`: the core kinds, and open / self-closing markers with a shorthand
value and any number of properties whose values are integers, booleans, quoted strings or bare words (no decimals),
names without processor -/
def isPropsChunk (c : Chunk) : Bool :=
  chunkOk c && (match c with
    | .text _ | .escOpen | .escClose | .closeAll _ => true
    | .opn _ sh ps _ => ((sh.map notDec).getD true) && ps.all (fun q => notDec q.2)
    | .selfClose n sh ps _ => !isReplName n && ((sh.map notDec).getD true) && ps.all (fun q => notDec q.2)
    | .close n _ => !isReplName n
    | .repl _ _ _ _ _ _ _ => false)

theorem headOk_of (n : List Char) (sh : Option SVal) (ps : List (List Char × SVal)) (ws : List (List Char))
    (h1 : headOk n sh ps ws = true) : HeadOk n sh ps ws := by
  simp only [headOk, Bool.and_eq_true, List.all_eq_true] at h1
  refine ⟨h1.1.1.1, ?_, ?_, h1.2⟩
  · intro v hv; subst hv
    simpa using h1.1.1.2
  · intro q hq
    exact ⟨(h1.1.2 q hq).1, (h1.1.2 q hq).2⟩

theorem stepSim_props (pfuel : Nat) (c : Chunk) (h : isPropsChunk c = true) : StepSim (pfuel + 1) c := by
  unfold isPropsChunk at h
  cases c with
  | text t =>
    apply stepSim_text
    simp only [chunkOk, Bool.and_true, List.all_eq_true, Bool.and_eq_true, decide_eq_true_eq] at h
    exact h
  | escOpen => exact stepSim_esc _ _ (Or.inl rfl)
  | escClose => exact stepSim_esc _ _ (Or.inr rfl)
  | opn n sh ps ws =>
    simp only [chunkOk, Bool.and_eq_true, Bool.not_eq_true'] at h
    exact stepSim_opn_props _ n sh ps ws (headOk_of n sh ps ws h.1.1) h.1.2
  | selfClose n sh ps ws =>
    simp only [chunkOk, Bool.and_eq_true, Bool.not_eq_true'] at h
    exact stepSim_selfClose_props _ n sh ps ws (headOk_of n sh ps ws h.1) h.2.1.1
  | close n ws =>
    simp only [chunkOk, Bool.and_eq_true, Bool.not_eq_true'] at h
    exact stepSim_close (pfuel + 1) n ws h.1.1 h.1.2
  | closeAll ws =>
    simp only [chunkOk, Bool.and_true] at h
    exact stepSim_closeAll (pfuel + 1) ws h
  | repl n sh ps ws raw byName cws => simp at h

end Ysgo.Markup
