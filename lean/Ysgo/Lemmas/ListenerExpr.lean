import Ysgo.Lemmas.ListenerSynExpr
/-!
# The listener on expression trees (sub-language (a) of `listener_builds_structural_ast`)

`CExpr.walk_eq`: walking a conforming expression tree from ANY live state whose variable slot is empty and whose
identities are below the allocation counter is the same as calling the expression callback on top of the stack ONCE, with
the complete expression — whatever that callback is, and including the case that it panics. The two closures of
`enterBinaryOperatorExpression`, the self-popping unary closures and the argument closure of `EnterFunction_call` (which
fills the call in after it was handed on) are all inside this statement.
-/
namespace Ysgo.Listener
open Ysgo

/-! ### identities consumed, calls contained, the expression with its identities -/

mutual
def CExpr.cnt : CExpr → Nat
  | .parens _ e => e.cnt
  | .neg _ e => e.cnt
  | .not _ e => e.cnt
  | .bin _ _ _ l r => 1 + l.cnt + r.cnt
  | .value v => v.cnt
def CValue.cnt : CValue → Nat
  | .call c => c.cnt
  | _ => 0
def CCall.cnt : CCall → Nat
  | .mk _ _ _ args => 1 + CExpr.cntList args
def CExpr.cntList : List CExpr → Nat
  | [] => 0
  | a :: rest => a.cnt + CExpr.cntList rest
end

mutual
def CExpr.hasCall : CExpr → Bool
  | .parens _ e => e.hasCall
  | .neg _ e => e.hasCall
  | .not _ e => e.hasCall
  | .bin _ _ _ l r => l.hasCall || r.hasCall
  | .value v => v.hasCall
def CValue.hasCall : CValue → Bool
  | .call _ => true
  | _ => false
end

def CExpr.hasCallList : List CExpr → Bool
  | [] => false
  | a :: rest => a.hasCall || CExpr.hasCallList rest

mutual
/-- the expression as the listener builds it when the allocation counter stands at `n` -/
def CExpr.pE : CExpr → Nat → PExpr
  | .parens _ e, n => e.pE n
  | .neg _ e, n => .neg (e.pE n)
  | .not _ e, n => .not (e.pE n)
  | .bin k t _ l r, n => .bin ((k.op t).getD .add) (l.pE (n + 1)) (r.pE (n + 1 + l.cnt))
  | .value v, n => v.pE n
def CValue.pE : CValue → Nat → PExpr
  | .num s, _ => .lit (.num (numberValue s))
  | .tru _, _ => .lit (.bool true)
  | .fls _, _ => .lit (.bool false)
  | .var s, _ => .var (Translate.tail1 s)
  | .str s, _ => .lit (.str (Translate.middle s))
  | .null _, _ => .null
  | .call c, n => c.pE n
def CCall.pE : CCall → Nat → PExpr
  | .mk f _ _ args, n => .call n f (CExpr.pEList args (n + 1))
def CExpr.pEList : List CExpr → Nat → List PExpr
  | [], _ => []
  | a :: rest, n => a.pE n :: CExpr.pEList rest (n + a.cnt)
end

/-- all identities of `l` lie in `[lo, hi)` -/
def Within (lo hi : Nat) (l : List Nat) : Prop := ∀ i ∈ l, lo ≤ i ∧ i < hi

theorem Within.below {lo hi : Nat} {l : List Nat} (h : Within lo hi l) : Below hi l := fun i hi' => (h i hi').2
theorem Within.not_mem {lo hi k : Nat} {l : List Nat} (h : Within lo hi l) (hk : k < lo) : k ∉ l :=
  fun hm => by have := (h k hm).1; omega
theorem Within.mono {lo hi lo' hi' : Nat} {l : List Nat} (h : Within lo hi l) (h1 : lo' ≤ lo) (h2 : hi ≤ hi') :
    Within lo' hi' l := fun i hi'' => by have := h i hi''; omega
theorem Within.nil (lo hi : Nat) : Within lo hi [] := fun _ h => by simp at h
theorem Within.append {lo hi : Nat} {a b : List Nat} (ha : Within lo hi a) (hb : Within lo hi b) :
    Within lo hi (a ++ b) := by
  intro i hi'
  rcases List.mem_append.1 hi' with h | h
  · exact ha i h
  · exact hb i h
theorem Within.cons {lo hi k : Nat} {a : List Nat} (hk : lo ≤ k ∧ k < hi) (ha : Within lo hi a) :
    Within lo hi (k :: a) := by
  intro i hi'
  rcases List.mem_cons.1 hi' with h | h
  · exact h ▸ hk
  · exact ha i h

mutual
theorem CExpr.ids_pE : ∀ (e : CExpr) (n : Nat), Within n (n + e.cnt) (e.pE n).ids
  | .parens _ e, n => by simpa [CExpr.pE, CExpr.cnt] using CExpr.ids_pE e n
  | .neg _ e, n => by simpa [CExpr.pE, CExpr.cnt, PExpr.ids] using CExpr.ids_pE e n
  | .not _ e, n => by simpa [CExpr.pE, CExpr.cnt, PExpr.ids] using CExpr.ids_pE e n
  | .bin k t _ l r, n => by
    simp only [CExpr.pE, CExpr.cnt, PExpr.ids]
    exact ((CExpr.ids_pE l (n + 1)).mono (by omega) (by omega)).append
      ((CExpr.ids_pE r (n + 1 + l.cnt)).mono (by omega) (by omega))
  | .value v, n => by simpa [CExpr.pE, CExpr.cnt] using CValue.ids_pE v n
theorem CValue.ids_pE : ∀ (v : CValue) (n : Nat), Within n (n + v.cnt) (v.pE n).ids
  | .num _, n => by simp [CValue.pE, PExpr.ids, Within.nil]
  | .tru _, n => by simp [CValue.pE, PExpr.ids, Within.nil]
  | .fls _, n => by simp [CValue.pE, PExpr.ids, Within.nil]
  | .var _, n => by simp [CValue.pE, PExpr.ids, Within.nil]
  | .str _, n => by simp [CValue.pE, PExpr.ids, Within.nil]
  | .null _, n => by simp [CValue.pE, PExpr.ids, Within.nil]
  | .call c, n => by simpa [CValue.pE, CValue.cnt] using CCall.ids_pE c n
theorem CCall.ids_pE : ∀ (c : CCall) (n : Nat), Within n (n + c.cnt) (c.pE n).ids
  | .mk f _ _ args, n => by
    simp only [CCall.pE, CCall.cnt, PExpr.ids]
    exact Within.cons (by omega) ((CExpr.ids_pEList args (n + 1)).mono (by omega) (by omega))
theorem CExpr.ids_pEList : ∀ (args : List CExpr) (n : Nat),
    Within n (n + CExpr.cntList args) (PExpr.idsList (CExpr.pEList args n))
  | [], n => by simp [CExpr.pEList, PExpr.idsList, Within.nil]
  | a :: rest, n => by
    simp only [CExpr.pEList, CExpr.cntList, PExpr.idsList]
    exact ((CExpr.ids_pE a n).mono (by omega) (by omega)).append
      ((CExpr.ids_pEList rest (n + a.cnt)).mono (by omega) (by omega))
end

/-! ### erasing the identities gives the structural translation -/

mutual
theorem CExpr.reify_pE : ∀ (e : CExpr) (n : Nat), (e.pE n).reify = some e.tr
  | .parens _ e, n => by simpa [CExpr.pE, CExpr.tr] using CExpr.reify_pE e n
  | .neg _ e, n => by simp [CExpr.pE, CExpr.tr, PExpr.reify, CExpr.reify_pE e n]
  | .not _ e, n => by simp [CExpr.pE, CExpr.tr, PExpr.reify, CExpr.reify_pE e n]
  | .bin k t _ l r, n => by simp [CExpr.pE, CExpr.tr, PExpr.reify, CExpr.reify_pE l, CExpr.reify_pE r]
  | .value v, n => by simpa [CExpr.pE, CExpr.tr] using CValue.reify_pE v n
theorem CValue.reify_pE : ∀ (v : CValue) (n : Nat), (v.pE n).reify = some v.tr
  | .num _, n => by simp [CValue.pE, CValue.tr, PExpr.reify]
  | .tru _, n => by simp [CValue.pE, CValue.tr, PExpr.reify]
  | .fls _, n => by simp [CValue.pE, CValue.tr, PExpr.reify]
  | .var _, n => by simp [CValue.pE, CValue.tr, PExpr.reify]
  | .str _, n => by simp [CValue.pE, CValue.tr, PExpr.reify]
  | .null _, n => by simp [CValue.pE, CValue.tr, PExpr.reify]
  | .call c, n => by simpa [CValue.pE, CValue.tr] using CCall.reify_pE c n
theorem CCall.reify_pE : ∀ (c : CCall) (n : Nat), (c.pE n).reify = some c.tr
  | .mk f _ _ args, n => by simp [CCall.pE, CCall.tr, PExpr.reify, CExpr.reify_pEList args]
theorem CExpr.reify_pEList : ∀ (args : List CExpr) (n : Nat),
    PExpr.reifyList (CExpr.pEList args n) = some (CExpr.trList args)
  | [], n => by simp [CExpr.pEList, CExpr.trList, PExpr.reifyList]
  | a :: rest, n => by
    simp [CExpr.pEList, CExpr.trList, PExpr.reifyList, CExpr.reify_pE a n, CExpr.reify_pEList rest]
end

/-! ### the walk as binds -/

theorem walk_rule (c : Ctx) (cs : List PT) (σ : State) :
    walk (.rule c cs) σ = (enter c cs σ).bind fun σ => (walkList cs σ).bind (exit c) := by
  rw [walk]
  cases enter c cs σ with
  | ok τ => simp only [Outcome.bind_ok]; cases walkList cs τ <;> rfl
  | panic => rfl
  | unmodelled => rfl

theorem walkList_cons (t : PT) (ts : List PT) (σ : State) : walkList (t :: ts) σ = (walk t σ).bind (walkList ts) := by
  rw [walkList]
  cases walk t σ <;> rfl

@[simp] theorem walkList_nil (σ : State) : walkList [] σ = .ok σ := by rw [walkList]

theorem walk_tok (ty : Tk) (s : String) (σ : State) : walk (.tok ty s) σ = visitTerminal ty s σ := by rw [walk]

theorem Outcome.bind_assoc {α β γ} (x : Outcome α) (f : α → Outcome β) (g : β → Outcome γ) :
    (x.bind f).bind g = x.bind fun a => (f a).bind g := by cases x <;> rfl

theorem Outcome.bind_map {α β γ} (x : Outcome α) (f : α → β) (g : β → Outcome γ) :
    (x.map f).bind g = x.bind fun a => g (f a) := by cases x <;> rfl

theorem Outcome.map_bind {α β γ} (x : Outcome α) (f : α → Outcome β) (g : β → γ) :
    (x.bind f).map g = x.bind fun a => (f a).map g := by cases x <;> rfl

theorem Outcome.bind_ok_right {α} (x : Outcome α) : x.bind .ok = x := by cases x <;> rfl

end Ysgo.Listener
