import Ysgo.Lemmas.FuelExec
import Ysgo.Lemmas.Sim
/-!
# Fuel: the control skeleton of one iteration of `Next`, and the decrease of the measure

`Step` describes what `R.micro` does to the stack of queues and to the `waiting` field, with the data part hidden; all
later arguments (measure, invariants) are case analyses over `Step` and never unfold `R.micro` again.
-/
namespace Ysgo.Fuel
open Ysgo
set_option linter.unusedSimpArgs false

section
variable {σ π μ : Type}

/-- the `waiting` field written by an executed statement -/
def waitAfter (out : Option (Outcome (Elem μ))) (st : Stmt) : Option (List (List Stmt)) :=
  match out, isOpts st with
  | some (.ok _), some bodies => some bodies
  | _, _ => none

/-- the control skeleton of `R.micro`: (stack, waiting) before, (stack, waiting) after, output -/
inductive Step (env : Env σ) (mk : Markup π μ) (p : Program) (c : Nat) :
    List SQ → Option (List (List Stmt)) → List SQ → Option (List (List Stmt)) → Option (Outcome (Elem μ)) → Prop
  | poll (s w out) : Step env mk p c s w s w (some out)
  | badChoice (s bodies) (h : bodies[c]? = none) : Step env mk p c s (some bodies) s (some bodies) (some (.panic .index))
  | choose (s bodies b) (h : bodies[c]? = some b) (hb : b.length ≠ 0) : Step env mk p c s (some bodies) (⟨b, 0⟩ :: s) none none
  | chooseEmpty (s bodies b) (h : bodies[c]? = some b) (hb : ¬ b.length ≠ 0) : Step env mk p c s (some bodies) s none none
  | ended : Step env mk p c [] none [] none (some (.ok .ended))
  | pop (q rest) (h : q.stmts[q.ptr]? = none) : Step env mk p c (q :: rest) none rest none none
  | exec (q rest st) (d d' : Data σ π) (ctl out) (h : q.stmts[q.ptr]? = some st) (he : exec env mk p d st = (d', ctl, out)) :
      Step env mk p c (q :: rest) none (applyCtlR ctl ({ q with ptr := q.ptr + 1 } :: rest)) (waitAfter out st) out

theorem micro_step (env : Env σ) (mk : Markup π μ) (p : Program) (r : R σ π) (c : Nat) :
    Step env mk p c r.stack r.waiting (r.micro env mk p c).1.stack (r.micro env mk p c).1.waiting (r.micro env mk p c).2 := by
  unfold R.micro
  cases hp : poll (μ := μ) r.d with
  | mk d o =>
    cases o with
    | some out => exact .poll _ _ _
    | none =>
      simp only
      cases hw : r.waiting with
      | some bodies =>
        simp only
        cases hb : bodies[c]? with
        | none => exact .badChoice _ _ hb
        | some b =>
          simp only
          split
          · rename_i hl; exact .choose _ _ b hb hl
          · rename_i hl; exact .chooseEmpty _ _ b hb hl
      | none =>
        simp only
        cases hs : r.stack with
        | nil => exact .ended
        | cons q rest =>
          simp only
          cases hq : q.stmts[q.ptr]? with
          | none => exact .pop _ _ hq
          | some st =>
            simp only
            cases he : exec env mk p d st with
            | mk d' co =>
              obtain ⟨ctl, out⟩ := co
              exact .exec q rest st d d' ctl out hq he

/-! ### the measure -/

theorem rest_of_none (q : SQ) (h : q.stmts[q.ptr]? = none) : q.rest = [] := drop_of_none _ _ h

theorem rest_of_some (q : SQ) (st : Stmt) (h : q.stmts[q.ptr]? = some st) :
    q.rest = st :: SQ.rest { q with ptr := q.ptr + 1 } := drop_of_getElem? _ _ _ h

theorem mem_of_getElem?' {α} {l : List α} {i : Nat} {a : α} (h : l[i]? = some a) : a ∈ l := List.mem_of_getElem? h

/-- the state right after a successful jump: the stack is exactly the body of a node of the program, untouched -/
def Jumped (p : Program) (s : List SQ) (w : Option (List (List Stmt))) : Prop :=
  w = none ∧ ∃ n, n ∈ p ∧ s = [⟨n.body, 0⟩]

/-- every iteration of `Next` without output strictly decreases the measure, or is a successful jump -/
theorem step_silent_measure {env : Env σ} {mk : Markup π μ} {p : Program} {c : Nat} {s s' : List SQ}
    {w w' : Option (List (List Stmt))} (h : Step env mk p c s w s' w' none) :
    stackSize s' + waitSize w' < stackSize s + waitSize w ∨ Jumped p s' w' := by
  cases h with
  | choose _ bodies b hb hl =>
    left
    have := bodiesSize_mem (mem_of_getElem?' hb)
    simp only [stackSize, waitSize, SQ.rest, List.drop_zero]
    omega
  | chooseEmpty _ bodies b hb hl =>
    left
    simp only [waitSize]
    omega
  | pop q rest hq =>
    left
    simp only [stackSize, waitSize]
    omega
  | exec q rest st d d' ctl _ hq he =>
    have hc := exec_ctl env mk p d d' st ctl none he
    have hr := rest_of_some q st hq
    have hw : waitAfter (μ := μ) none st = none := by simp [waitAfter]
    rw [hw]
    cases hc with
    | next o =>
      left
      have := stmtSize_pos st
      simp only [applyCtlR, stackSize, hr, bodySize, waitSize]
      omega
    | push cs cnd b hst hm =>
      left
      have := ifsSize_mem hm
      subst hst
      have hb0 : SQ.rest ⟨b, 0⟩ = b := rfl
      simp only [applyCtlR, stackSize, hr, hb0, bodySize, waitSize, stmtSize] at this ⊢
      omega
    | goto n hn =>
      right
      exact ⟨rfl, n, hn, rfl⟩

/-- after a successful jump into a productive program the very next iteration produces an output -/
theorem step_jumped_yields {env : Env σ} {mk : Markup π μ} {p : Program} (hp : Productive p = true) {c : Nat}
    {s s' : List SQ} {w w' : Option (List (List Stmt))} {o : Option (Outcome (Elem μ))} (hj : Jumped p s w)
    (h : Step env mk p c s w s' w' o) : o ≠ none := by
  obtain ⟨hw, n, hn, hs⟩ := hj
  subst hw hs
  have hy := Productive.of_mem hp hn
  cases h with
  | poll => simp
  | pop q rest hq =>
    cases hb : n.body with
    | nil => simp [hb, startsYielding] at hy
    | cons a l => simp [hb] at hq
  | exec q rest st d d' ctl out hq he =>
    cases hb : n.body with
    | nil => simp [hb, startsYielding] at hy
    | cons a l =>
      simp only [hb, List.getElem?_cons_zero, Option.some.injEq] at hq
      subst hq
      simp only [hb, startsYielding] at hy
      have := exec_yields env mk p d a hy
      rw [he] at this
      exact this

end
end Ysgo.Fuel
