import Ysgo.Model.ExprSyntax
/-! # Fuel lemmas for the expression parser: monotonicity, and a bound that always suffices -/
namespace Ysgo
namespace ExprSyntax

theorem pUnary_mono_aux (f : Nat)
    (ihL : ∀ k ts r, pLevel f k ts = some r → pLevel (f + 1) k ts = some r)
    (ihU : ∀ ts r, pUnary f ts = some r → pUnary (f + 1) ts = some r)
    (ihR : ∀ ts r, pRest f ts = some r → pRest (f + 1) ts = some r)
    (ts : List Tok) (r : Expr × List Tok) (h : pUnary (f + 1) ts = some r) : pUnary (f + 1 + 1) ts = some r := by
  unfold pUnary at h ⊢
  split at h
  · simp at h
  · rename_i f' ts' heq; cases heq
    cases hu : pUnary f ts' with
    | none => simp [hu] at h
    | some p => obtain ⟨e, r'⟩ := p; rw [hu] at h; simp only [ihU _ _ hu]; exact h
  · rename_i f' ts' heq; cases heq
    cases hu : pUnary f ts' with
    | none => simp [hu] at h
    | some p => obtain ⟨e, r'⟩ := p; rw [hu] at h; simp only [ihU _ _ hu]; exact h
  · rename_i f' ts' heq; cases heq
    cases hu : pLevel f 1 ts' with
    | none => simp [hu] at h
    | some p => obtain ⟨e, r'⟩ := p; rw [hu] at h; simp only [ihL _ _ _ hu]; exact h
  · exact h
  · exact h
  · exact h
  · exact h
  · exact h
  · exact h
  · rename_i f' n ts' heq; cases heq
    split at h
    · exact h
    · rename_i ts''
      cases hu : pRest f (Tok.comma :: ts'') with
      | none => simp [hu] at h
      | some p => obtain ⟨e, r'⟩ := p; rw [hu] at h; simp only [ihR _ _ hu]; exact h
    · cases hu : pLevel f 1 ts' with
      | none => simp [hu] at h
      | some p =>
        obtain ⟨e, r'⟩ := p
        rw [hu] at h
        simp only [ihL _ _ _ hu]
        simp only at h
        cases hr : pRest f r' with
        | none => simp [hr] at h
        | some q => obtain ⟨es, r''⟩ := q; rw [hr] at h; simp only [ihR _ _ hr]; exact h
  · simp at h

theorem mono_step : ∀ f : Nat,
    (∀ k ts r, pLevel f k ts = some r → pLevel (f + 1) k ts = some r) ∧
    (∀ k l ts r, pLoop f k l ts = some r → pLoop (f + 1) k l ts = some r) ∧
    (∀ ts r, pUnary f ts = some r → pUnary (f + 1) ts = some r) ∧
    (∀ ts r, pRest f ts = some r → pRest (f + 1) ts = some r) := by
  intro f
  induction f with
  | zero => refine ⟨?_, ?_, ?_, ?_⟩ <;> intros <;> simp_all [pLevel, pLoop, pUnary, pRest]
  | succ f ih =>
    obtain ⟨ihL, ihP, ihU, ihR⟩ := ih
    refine ⟨?_, ?_, pUnary_mono_aux f ihL ihU ihR, ?_⟩
    · intro k ts r h
      rw [pLevel] at h ⊢
      by_cases hk : k ≥ 6
      · simp only [hk, ↓reduceIte] at h ⊢; exact ihU _ _ h
      · simp only [hk, ↓reduceIte] at h ⊢
        cases hl : pLevel f (k + 1) ts with
        | none => simp [hl] at h
        | some p =>
          obtain ⟨l, r'⟩ := p
          rw [hl] at h
          rw [ihL _ _ _ hl]
          exact ihP _ _ _ _ h
    · intro k l ts r h
      cases ts with
      | nil => simpa [pLoop] using h
      | cons t ts =>
        rw [pLoop] at h ⊢
        cases hb : binOf t with
        | none => simpa [hb] using h
        | some o =>
          simp only [hb] at h ⊢
          by_cases hlv : lvl o = k
          · simp only [hlv, ↓reduceIte] at h ⊢
            cases hr : pLevel f (k + 1) ts with
            | none => simp [hr] at h
            | some p =>
              obtain ⟨rhs, r'⟩ := p
              rw [hr] at h
              rw [ihL _ _ _ hr]
              exact ihP _ _ _ _ h
          · simpa [hlv] using h
    · intro ts r h
      unfold pRest at h ⊢
      split at h
      · simp at h
      · exact h
      · rename_i f' ts' heq; cases heq
        cases hu : pLevel f 1 ts' with
        | none => simp [hu] at h
        | some p =>
          obtain ⟨e, r'⟩ := p
          rw [hu] at h
          simp only [ihL _ _ _ hu]
          simp only at h
          cases hr : pRest f r' with
          | none => simp [hr] at h
          | some q => obtain ⟨es, r''⟩ := q; rw [hr] at h; simp only [ihR _ _ hr]; exact h
      · simp at h

theorem mono_level {f f' k ts r} (h : pLevel f k ts = some r) (hf : f ≤ f') : pLevel f' k ts = some r := by
  induction hf with
  | refl => exact h
  | step _ ih => exact (mono_step _).1 _ _ _ ih
theorem mono_loop {f f' k l ts r} (h : pLoop f k l ts = some r) (hf : f ≤ f') : pLoop f' k l ts = some r := by
  induction hf with
  | refl => exact h
  | step _ ih => exact (mono_step _).2.1 _ _ _ _ ih
theorem mono_unary {f f' ts r} (h : pUnary f ts = some r) (hf : f ≤ f') : pUnary f' ts = some r := by
  induction hf with
  | refl => exact h
  | step _ ih => exact (mono_step _).2.2.1 _ _ ih
theorem mono_rest {f f' ts r} (h : pRest f ts = some r) (hf : f ≤ f') : pRest f' ts = some r := by
  induction hf with
  | refl => exact h
  | step _ ih => exact (mono_step _).2.2.2 _ _ ih

/-! ## A fuel bound: 7 units per consumed token (+ the levels still to descend) always suffice -/

def BLevel (f : Nat) : Prop := ∀ k ts e rest, pLevel f k ts = some (e, rest) →
  ∃ n, 1 ≤ n ∧ ts.length = rest.length + n ∧ pLevel (7 * n + 1 + (6 - k)) k ts = some (e, rest)
def BLoop (f : Nat) : Prop := ∀ k l ts e rest, pLoop f k l ts = some (e, rest) →
  ∃ n, ts.length = rest.length + n ∧ pLoop (7 * n + 1) k l ts = some (e, rest)
def BUnary (f : Nat) : Prop := ∀ ts e rest, pUnary f ts = some (e, rest) →
  ∃ n, 1 ≤ n ∧ ts.length = rest.length + n ∧ pUnary (7 * n) ts = some (e, rest)
def BRest (f : Nat) : Prop := ∀ ts es rest, pRest f ts = some (es, rest) →
  ∃ n, 1 ≤ n ∧ ts.length = rest.length + n ∧ pRest (7 * n) ts = some (es, rest)

theorem bLevel_step (f : Nat) (ihL : BLevel f) (ihP : BLoop f) (ihU : BUnary f) : BLevel (f + 1) := by
  intro k ts e rest h
  rw [pLevel] at h
  by_cases hk : k ≥ 6
  · simp only [hk, ↓reduceIte] at h
    obtain ⟨n, hn1, hlen, hu⟩ := ihU _ _ _ h
    refine ⟨n, hn1, hlen, ?_⟩
    have : 7 * n + 1 + (6 - k) = 7 * n + 1 := by omega
    rw [this, pLevel]
    simp only [hk, ↓reduceIte]
    exact hu
  · simp only [hk, ↓reduceIte] at h
    cases hl : pLevel f (k + 1) ts with
    | none => simp [hl] at h
    | some p =>
      obtain ⟨l, r1⟩ := p
      rw [hl] at h
      obtain ⟨n1, hn1, hlen1, h1⟩ := ihL _ _ _ _ hl
      obtain ⟨n2, hlen2, h2⟩ := ihP _ _ _ _ _ h
      refine ⟨n1 + n2, by omega, by omega, ?_⟩
      have : 7 * (n1 + n2) + 1 + (6 - k) = (7 * (n1 + n2) + (6 - k)) + 1 := by omega
      rw [this, pLevel]
      simp only [hk, ↓reduceIte]
      rw [mono_level h1 (by omega)]
      exact mono_loop h2 (by omega)

theorem bLoop_step (f : Nat) (ihL : BLevel f) (ihP : BLoop f) : BLoop (f + 1) := by
  intro k l ts e rest h
  cases ts with
  | nil =>
    simp only [pLoop, Option.some.injEq, Prod.mk.injEq] at h
    obtain ⟨rfl, rfl⟩ := h
    exact ⟨0, by simp, by simp [pLoop]⟩
  | cons t ts =>
    rw [pLoop] at h
    cases hb : binOf t with
    | none =>
      simp only [hb, Option.some.injEq, Prod.mk.injEq] at h
      obtain ⟨rfl, rfl⟩ := h
      exact ⟨0, by simp, by simp [pLoop, hb]⟩
    | some o =>
      simp only [hb] at h
      by_cases hlv : lvl o = k
      · simp only [hlv, ↓reduceIte] at h
        cases hr : pLevel f (k + 1) ts with
        | none => simp [hr] at h
        | some p =>
          obtain ⟨rhs, r1⟩ := p
          rw [hr] at h
          obtain ⟨n1, hn1, hlen1, h1⟩ := ihL _ _ _ _ hr
          obtain ⟨n2, hlen2, h2⟩ := ihP _ _ _ _ _ h
          refine ⟨1 + n1 + n2, by simp only [List.length_cons]; omega, ?_⟩
          have : 7 * (1 + n1 + n2) + 1 = (7 * (1 + n1 + n2)) + 1 := rfl
          rw [this, pLoop]
          simp only [hb, hlv, ↓reduceIte]
          rw [mono_level h1 (by omega)]
          exact mono_loop h2 (by omega)
      · simp only [hlv, ↓reduceIte, Option.some.injEq, Prod.mk.injEq] at h
        obtain ⟨rfl, rfl⟩ := h
        exact ⟨0, by simp, by simp [pLoop, hb, hlv]⟩

theorem bRest_step (f : Nat) (ihL : BLevel f) (ihR : BRest f) : BRest (f + 1) := by
  intro ts es rest h
  unfold pRest at h
  split at h
  · simp at h
  · simp only [Option.some.injEq, Prod.mk.injEq] at h
    obtain ⟨rfl, rfl⟩ := h
    exact ⟨1, by omega, by simp, by simp [pRest]⟩
  · rename_i f' ts' heq; cases heq
    cases hu : pLevel f 1 ts' with
    | none => simp [hu] at h
    | some p =>
      obtain ⟨e, r1⟩ := p
      rw [hu] at h
      simp only at h
      cases hr : pRest f r1 with
      | none => simp [hr] at h
      | some q =>
        obtain ⟨es', r2⟩ := q
        rw [hr] at h
        simp only [Option.some.injEq, Prod.mk.injEq] at h
        obtain ⟨rfl, rfl⟩ := h
        obtain ⟨n1, hn1, hlen1, h1⟩ := ihL _ _ _ _ hu
        obtain ⟨n2, hn2, hlen2, h2⟩ := ihR _ _ _ hr
        refine ⟨1 + n1 + n2, by omega, by simp only [List.length_cons]; omega, ?_⟩
        have : 7 * (1 + n1 + n2) = (7 * (n1 + n2) + 6) + 1 := by omega
        rw [this, pRest]
        rw [mono_level h1 (by omega)]
        simp only
        rw [mono_rest h2 (by omega)]
  · simp at h

theorem bUnary_step (f : Nat) (ihL : BLevel f) (ihU : BUnary f) (ihR : BRest f) : BUnary (f + 1) := by
  intro ts e rest h
  unfold pUnary at h
  split at h
  · simp at h
  · rename_i f' ts' heq; cases heq
    cases hu : pUnary f ts' with
    | none => simp [hu] at h
    | some p =>
      obtain ⟨e', r'⟩ := p
      rw [hu] at h
      simp only [Option.some.injEq, Prod.mk.injEq] at h
      obtain ⟨rfl, rfl⟩ := h
      obtain ⟨n, hn, hlen, h1⟩ := ihU _ _ _ hu
      refine ⟨n + 1, by omega, by simp only [List.length_cons]; omega, ?_⟩
      have : 7 * (n + 1) = (7 * n + 6) + 1 := by omega
      rw [this, pUnary, mono_unary h1 (by omega)]
  · rename_i f' ts' heq; cases heq
    cases hu : pUnary f ts' with
    | none => simp [hu] at h
    | some p =>
      obtain ⟨e', r'⟩ := p
      rw [hu] at h
      simp only [Option.some.injEq, Prod.mk.injEq] at h
      obtain ⟨rfl, rfl⟩ := h
      obtain ⟨n, hn, hlen, h1⟩ := ihU _ _ _ hu
      refine ⟨n + 1, by omega, by simp only [List.length_cons]; omega, ?_⟩
      have : 7 * (n + 1) = (7 * n + 6) + 1 := by omega
      rw [this, pUnary, mono_unary h1 (by omega)]
  · rename_i f' ts' heq; cases heq
    cases hu : pLevel f 1 ts' with
    | none => simp [hu] at h
    | some p =>
      obtain ⟨e', r'⟩ := p
      rw [hu] at h
      cases r' with
      | nil => simp at h
      | cons t r'' =>
        cases t <;> simp only [Option.some.injEq, Prod.mk.injEq, reduceCtorEq] at h
        obtain ⟨rfl, rfl⟩ := h
        obtain ⟨n, hn, hlen, h1⟩ := ihL _ _ _ _ hu
        refine ⟨n + 2, by omega, by simp only [List.length_cons] at hlen ⊢; omega, ?_⟩
        have : 7 * (n + 2) = (7 * n + 13) + 1 := by omega
        rw [this, pUnary, mono_level h1 (by omega)]
  all_goals try (
    simp only [Option.some.injEq, Prod.mk.injEq] at h
    obtain ⟨rfl, rfl⟩ := h
    exact ⟨1, by omega, by simp, by simp [pUnary]⟩)
  · rename_i f' n ts' heq; cases heq
    split at h
    · simp only [Option.some.injEq, Prod.mk.injEq] at h
      obtain ⟨rfl, rfl⟩ := h
      exact ⟨3, by omega, by simp, by simp [pUnary]⟩
    · rename_i ts''
      cases hu : pRest f (Tok.comma :: ts'') with
      | none => simp [hu] at h
      | some p =>
        obtain ⟨es, r'⟩ := p
        rw [hu] at h
        simp only [Option.some.injEq, Prod.mk.injEq] at h
        obtain ⟨rfl, rfl⟩ := h
        obtain ⟨m, hm, hlen, h1⟩ := ihR _ _ _ hu
        refine ⟨m + 2, by omega, by simp only [List.length_cons] at hlen ⊢; omega, ?_⟩
        have : 7 * (m + 2) = (7 * m + 13) + 1 := by omega
        rw [this, pUnary]
        rw [mono_rest h1 (by omega)]
    · rename_i hn1 hn2
      cases hu : pLevel f 1 ts' with
      | none => simp [hu] at h
      | some p =>
        obtain ⟨e', r1⟩ := p
        rw [hu] at h
        simp only at h
        cases hr : pRest f r1 with
        | none => simp [hr] at h
        | some q =>
          obtain ⟨es, r2⟩ := q
          rw [hr] at h
          simp only [Option.some.injEq, Prod.mk.injEq] at h
          obtain ⟨rfl, rfl⟩ := h
          obtain ⟨n1, hn1', hlen1, h1⟩ := ihL _ _ _ _ hu
          obtain ⟨n2, hn2', hlen2, h2⟩ := ihR _ _ _ hr
          refine ⟨n1 + n2 + 2, by omega, by simp only [List.length_cons]; omega, ?_⟩
          have : 7 * (n1 + n2 + 2) = (7 * (n1 + n2) + 13) + 1 := by omega
          rw [this, pUnary]
          · rw [mono_level h1 (by omega)]
            simp only
            rw [mono_rest h2 (by omega)]
          · exact hn1
          · exact hn2
  · simp at h

theorem bound_all : ∀ f : Nat, BLevel f ∧ BLoop f ∧ BUnary f ∧ BRest f := by
  intro f
  induction f with
  | zero =>
    refine ⟨?_, ?_, ?_, ?_⟩
    · intro k ts e rest h; simp [pLevel] at h
    · intro k l ts e rest h; simp [pLoop] at h
    · intro ts e rest h; simp [pUnary] at h
    · intro ts es rest h; simp [pRest] at h
  | succ f ih =>
    obtain ⟨ihL, ihP, ihU, ihR⟩ := ih
    exact ⟨bLevel_step f ihL ihP ihU, bLoop_step f ihL ihP, bUnary_step f ihL ihU ihR, bRest_step f ihL ihR⟩

/-- whatever some fuel can parse, `parseFuel` can: the fuel of `parseExpr` is never the reason for a failure -/
theorem fuel_enough {f ts e rest} (h : pLevel f 1 ts = some (e, rest)) :
    pLevel (parseFuel ts) 1 ts = some (e, rest) := by
  obtain ⟨n, _, hlen, hb⟩ := (bound_all f).1 _ _ _ _ h
  exact mono_level hb (by unfold parseFuel; omega)

/-- `parseExpr` is the fuel-free relation "some fuel parses all of `ts` to `e`" -/
theorem parseExpr_iff (ts : List Tok) (e : Expr) :
    parseExpr ts = some e ↔ ∃ f, pLevel f 1 ts = some (e, []) := by
  constructor
  · intro h
    unfold parseExpr at h
    split at h
    · rename_i e' heq
      simp only [Option.some.injEq] at h
      subst h
      exact ⟨_, heq⟩
    · simp at h
  · rintro ⟨f, h⟩
    unfold parseExpr
    rw [fuel_enough h]

end ExprSyntax
end Ysgo
