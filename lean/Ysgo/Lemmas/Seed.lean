import Ysgo.Spec.Seed
/-! helper lemmas for the seed theorems (C05.2 / C09.3) -/
namespace Ysgo.Seed

theorem wrap_range (i : Int) : -9223372036854775808 ≤ wrap i ∧ wrap i < 9223372036854775808 := by
  unfold wrap; omega

theorem wrap_mod (i : Int) : wrap i % 18446744073709551616 = i % 18446744073709551616 := by
  unfold wrap; omega

theorem wrap_congr (a b : Int) (h : a % 18446744073709551616 = b % 18446744073709551616) : wrap a = wrap b := by
  unfold wrap; omega

theorem wrap_of_range (i : Int) (h : -9223372036854775808 ≤ i ∧ i < 9223372036854775808) : wrap i = i := by
  unfold wrap; omega

theorem digit_isSome_iff (c : Char) : (digit c).isSome ↔ IsSeedChar c := by
  unfold digit IsSeedChar
  by_cases h1 : '0' ≤ c ∧ c ≤ '9'
  · simp [h1]
  · by_cases h2 : 'a' ≤ c ∧ c ≤ 'z'
    · simp [h1, h2]
    · simp [h1, h2]

theorem digit_lt (c : Char) (v : Nat) (h : digit c = some v) : v < 36 := by
  unfold digit at h
  by_cases h1 : '0' ≤ c ∧ c ≤ '9'
  · simp [h1] at h
    have : c.toNat ≤ 57 := h1.2
    omega
  · by_cases h2 : 'a' ≤ c ∧ c ≤ 'z'
    · simp [h1, h2] at h
      have : c.toNat ≤ 122 := h2.2
      omega
    · simp [h1, h2] at h

/-- the loop invariant: the int64 accumulator is congruent to the unbounded value, and stays in range -/
theorem go_spec : ∀ (s : List Char) (acc : Int) (n : Nat),
    acc % 18446744073709551616 = (n : Int) % 18446744073709551616 →
    (go s acc = none ↔ base36From s n = none) ∧
    (∀ r, go s acc = some r → ∃ m, base36From s n = some m ∧ r % 18446744073709551616 = (m : Int) % 18446744073709551616)
  | [], acc, n, h => by simp [go, base36From]; exact h
  | c :: cs, acc, n, h => by
    cases hd : digit c with
    | none => simp [go, base36From, hd]
    | some v =>
      simp only [go, base36From, hd]
      have h' : wrap (36 * acc + v) % 18446744073709551616 = ((36 * n + v : Nat) : Int) % 18446744073709551616 := by
        rw [wrap_mod]; push_cast; omega
      exact go_spec cs _ _ h'

theorem go_range : ∀ (s : List Char) (acc r : Int),
    (-9223372036854775808 ≤ acc ∧ acc < 9223372036854775808) → go s acc = some r →
    -9223372036854775808 ≤ r ∧ r < 9223372036854775808
  | [], acc, r, h, hr => by simp [go] at hr; subst hr; exact h
  | c :: cs, acc, r, h, hr => by
    cases hd : digit c with
    | none => simp [go, hd] at hr
    | some v =>
      simp only [go, hd] at hr
      exact go_range cs _ r (wrap_range _) hr

theorem base36From_isSome_iff : ∀ (s : List Char) (n : Nat), (base36From s n).isSome ↔ ∀ c ∈ s, IsSeedChar c
  | [], n => by simp [base36From]
  | c :: cs, n => by
    cases hd : digit c with
    | none =>
      have : ¬ IsSeedChar c := by rw [← digit_isSome_iff, hd]; simp
      simp [base36From, hd, this]
    | some v =>
      have : IsSeedChar c := by rw [← digit_isSome_iff, hd]; simp
      simp [base36From, hd, this, base36From_isSome_iff cs]

end Ysgo.Seed
