import Ysgo.Lemmas.F64Quot
/-!
# F64 lemma library, part 12: rounding is monotone with respect to representable bounds

`Faithful q x`: `x` is finite and no representable number lies strictly between `q` and `val x` — so every representable
lower (upper) bound of the exact value `q` is a lower (upper) bound of the rounded value, and a representable `q` is
returned exactly. `roundDyadic_total`, `roundQuot_total`, `mul_total`, `div_total`, `ofNat_faithful`: every rounding
operation either overflows to the infinity of the right sign (only when the exact magnitude is at least `2^1023`) or
returns a faithful result with the right sign bit. No overflow hypothesis is needed.
-/
namespace Ysgo
namespace F64

/-- `x` is finite and is a monotone rounding of `q` -/
def Faithful (q : ℚ) (x : F64) : Prop :=
  Finite x ∧ ∀ a : ℚ, Representable a → (a ≤ q → a ≤ val x) ∧ (q ≤ a → val x ≤ a)

theorem Faithful.finite {q : ℚ} {x : F64} (h : Faithful q x) : Finite x := h.1
theorem Faithful.lower {q a : ℚ} {x : F64} (h : Faithful q x) (ha : Representable a) (hle : a ≤ q) : a ≤ val x :=
  (h.2 a ha).1 hle
theorem Faithful.upper {q a : ℚ} {x : F64} (h : Faithful q x) (ha : Representable a) (hle : q ≤ a) : val x ≤ a :=
  (h.2 a ha).2 hle
/-- a representable value is returned exactly -/
theorem Faithful.exact {q : ℚ} {x : F64} (h : Faithful q x) (hq : Representable q) : val x = q :=
  le_antisymm (h.upper hq le_rfl) (h.lower hq le_rfl)

/-- magnitude form: `r` is on the same side as `q` of every non-negative representable number -/
def MagBounds (q r : ℚ) : Prop :=
  ∀ (n : ℕ) (g : ℤ), n < P53 → -1074 ≤ g →
    ((n : ℚ) * 2 ^ g ≤ q → (n : ℚ) * 2 ^ g ≤ r) ∧ (q ≤ (n : ℚ) * 2 ^ g → r ≤ (n : ℚ) * 2 ^ g)

theorem faithful_of_mag (s : Bool) (q r : ℚ) (hq : 0 < q) (hr : 0 ≤ r) (H : MagBounds q r) {x : F64}
    (hf : Finite x) (hv : val x = sgn s * r) : Faithful (sgn s * q) x := by
  refine ⟨hf, ?_⟩
  intro a ha
  obtain ⟨n, g, hn, hg, -, habs⟩ := ha
  have Hn := H n g hn hg
  rw [← habs] at Hn
  rw [hv]
  cases s
  · simp only [sgn, Bool.false_eq_true, ↓reduceIte, one_mul]
    constructor
    · intro h
      rcases le_or_gt a 0 with h0 | h0
      · linarith
      · rw [abs_of_pos h0] at Hn; exact Hn.1 h
    · intro h
      have h0 : 0 < a := lt_of_lt_of_le hq h
      rw [abs_of_pos h0] at Hn; exact Hn.2 h
  · simp only [sgn, ↓reduceIte, neg_mul, one_mul]
    constructor
    · intro h
      have h0 : a < 0 := by linarith
      rw [abs_of_neg h0] at Hn
      have := Hn.2 (by linarith)
      linarith
    · intro h
      rcases le_or_gt 0 a with h0 | h0
      · linarith
      · rw [abs_of_neg h0] at Hn
        have := Hn.1 (by linarith)
        linarith

/-- the arithmetic core: rounding `A / B` half-even to an integer mantissa at the exponent `e = max (L-52) (-1074)` of the
binade `[2^L, 2^(L+1))` of `q = (A/B)·2^e` is monotone with respect to all representable magnitudes -/
theorem rne_mag (A B : ℕ) (e L : ℤ) (q : ℚ) (hB : 0 < B)
    (hq : (A : ℚ) * 2 ^ e = q * B) (hL1 : (2 : ℚ) ^ L ≤ q) (hL2 : q < 2 ^ (L + 1))
    (he : e = max (L - 52) (-1074)) :
    rne A B ≤ P53 ∧ (P52 ≤ rne A B ∨ e = -1074) ∧ MagBounds q ((rne A B : ℚ) * 2 ^ e) := by
  have hBq : (0 : ℚ) < B := by exact_mod_cast hB
  have h2e : (0 : ℚ) < 2 ^ e := two_zpow_pos e
  have hA : (A : ℚ) = q * B / 2 ^ e := by rw [← hq]; field_simp
  have hmle : rne A B ≤ P53 := by
    apply rne_le _ _ _ hB
    have : (A : ℚ) ≤ ((P53 * B : ℕ) : ℚ) := by
      push_cast
      rw [hA, P53_cast, div_le_iff₀ h2e]
      have : q ≤ 2 ^ (53 : ℕ) * 2 ^ e := by
        apply le_trans (le_of_lt hL2)
        rw [← zpow_natCast, ← two_zpow_add, two_zpow_le_iff]
        push_cast; omega
      calc q * B ≤ (2 ^ (53 : ℕ) * 2 ^ e) * B := mul_le_mul_of_nonneg_right this (le_of_lt hBq)
        _ = 2 ^ 53 * B * 2 ^ e := by ring
    exact_mod_cast this
  have hlo : P52 ≤ rne A B ∨ e = -1074 := by
    by_cases hn : e = -1074
    · exact Or.inr hn
    · left
      apply rne_ge _ _ _ hB
      have : ((P52 * B : ℕ) : ℚ) ≤ (A : ℚ) := by
        push_cast
        rw [hA, P52_cast, le_div_iff₀ h2e]
        have : (2 : ℚ) ^ (52 : ℕ) * 2 ^ e ≤ q := by
          apply le_trans _ hL1
          rw [← zpow_natCast, ← two_zpow_add, two_zpow_le_iff]
          push_cast; omega
        calc (2 : ℚ) ^ 52 * B * 2 ^ e = (2 ^ (52 : ℕ) * 2 ^ e) * B := by ring
          _ ≤ q * B := mul_le_mul_of_nonneg_right this (le_of_lt hBq)
      exact_mod_cast this
  refine ⟨hmle, hlo, ?_⟩
  intro n g hn hg
  rcases le_or_gt e g with hc | hc
  · -- the bound is an integer multiple of 2^e
    obtain ⟨t, ht⟩ : ∃ t : ℕ, g = e + t := ⟨(g - e).toNat, by omega⟩
    have hb : (n : ℚ) * 2 ^ g = ((n * 2 ^ t : ℕ) : ℚ) * 2 ^ e := by
      rw [ht, two_zpow_add, zpow_natCast]; push_cast; ring
    rw [hb]
    generalize n * 2 ^ t = K
    constructor
    · intro h
      have h1 : ((K * B : ℕ) : ℚ) ≤ A := by
        push_cast
        rw [hA, le_div_iff₀ h2e]
        calc (K : ℚ) * B * 2 ^ e = ((K : ℚ) * 2 ^ e) * B := by ring
          _ ≤ q * B := mul_le_mul_of_nonneg_right h (le_of_lt hBq)
      have h2 : K ≤ rne A B := rne_ge A B K hB (by exact_mod_cast h1)
      exact mul_le_mul_of_nonneg_right (by exact_mod_cast h2) (le_of_lt h2e)
    · intro h
      have h1 : (A : ℚ) ≤ ((K * B : ℕ) : ℚ) := by
        push_cast
        rw [hA, div_le_iff₀ h2e]
        calc q * B ≤ ((K : ℚ) * 2 ^ e) * B := mul_le_mul_of_nonneg_right h (le_of_lt hBq)
          _ = (K : ℚ) * B * 2 ^ e := by ring
      have h2 : rne A B ≤ K := rne_le A B K hB (by exact_mod_cast h1)
      exact mul_le_mul_of_nonneg_right (by exact_mod_cast h2) (le_of_lt h2e)
  · -- a bound with a finer exponent lies below the binade of q
    have he' : e = L - 52 := by omega
    have hP : P52 ≤ rne A B := by
      rcases hlo with h | h
      · exact h
      · omega
    have hn' : (n : ℚ) < 2 ^ (53 : ℤ) := by
      have : (n : ℚ) < ((P53 : ℕ) : ℚ) := by exact_mod_cast hn
      rw [P53_cast] at this
      exact_mod_cast this
    have hb : (n : ℚ) * 2 ^ g < 2 ^ L := by
      calc (n : ℚ) * 2 ^ g < 2 ^ (53 : ℤ) * 2 ^ g := mul_lt_mul_of_pos_right hn' (two_zpow_pos g)
        _ = 2 ^ (53 + g) := (two_zpow_add _ _).symm
        _ ≤ 2 ^ L := by rw [two_zpow_le_iff]; omega
    have hr : (2 : ℚ) ^ L ≤ (rne A B : ℚ) * 2 ^ e := by
      have h52 : (2 : ℚ) ^ (52 : ℤ) ≤ (rne A B : ℚ) := by
        have : ((P52 : ℕ) : ℚ) ≤ (rne A B : ℚ) := by exact_mod_cast hP
        rw [P52_cast] at this
        exact_mod_cast this
      calc (2 : ℚ) ^ L = 2 ^ (52 : ℤ) * 2 ^ e := by rw [← two_zpow_add]; congr 1; omega
        _ ≤ (rne A B : ℚ) * 2 ^ e := mul_le_mul_of_nonneg_right h52 (le_of_lt h2e)
    constructor
    · intro _; linarith
    · intro h; linarith

/-! ### the packing step, without an overflow hypothesis -/

theorem decode_inf (s : Bool) : decode (inf s) = .inf s := by
  obtain ⟨he, hf, hs⟩ := fields_pack s 2047 0 (by omega) (by unfold P52; omega)
  unfold decode inf
  rw [he, hf, hs]
  simp

theorem signBit_of_decode {x : F64} {s m e} (h : decode x = .fin s m e) : signBit x = s := by
  unfold decode at h
  split at h
  · split at h <;> cases h
  · split at h <;> (cases h; rfl)

theorem signBit_zero (s : Bool) : signBit (zero s) = s := signBit_of_decode (decode_zero s)

theorem signBit_finish (s : Bool) (m : ℕ) (e : ℤ) (hm : m ≤ P53) : signBit (finish s m e) = s := by
  unfold finish
  by_cases h53 : m = P53
  · simp only [h53, ↓reduceIte]
    rw [if_neg (by omega)]
    split
    · exact (fields_pack s 2047 0 (by omega) (by unfold P52; omega)).2.2
    · exact (fields_pack s _ _ (by omega) (by unfold P52; omega)).2.2
  · simp only [h53, ↓reduceIte]
    split
    · rename_i h; exact (fields_pack s 0 _ (by omega) h).2.2
    · split
      · exact (fields_pack s 2047 0 (by omega) (by unfold P52; omega)).2.2
      · exact (fields_pack s _ _ (by omega) (by unfold P52 P53 at *; omega)).2.2

/-- the packed result is the infinity (only from `2^1024` on) or has the value `m·2^e` -/
theorem finish_cases (s : Bool) (m : ℕ) (e : ℤ) (hm : m ≤ P53) (hlo : P52 ≤ m ∨ e = -1074) (he1 : -1074 ≤ e) :
    (finish s m e = inf s ∧ (2 : ℚ) ^ (1024 : ℤ) ≤ (m : ℚ) * 2 ^ e) ∨
    (Finite (finish s m e) ∧ val (finish s m e) = sgn s * (m : ℚ) * 2 ^ e) := by
  by_cases he2 : e ≤ 970
  · exact Or.inr (val_finish s m e hm hlo he1 he2)
  have hP : P52 ≤ m := by
    rcases hlo with h | h
    · exact h
    · omega
  have h52 : (2 : ℚ) ^ (52 : ℤ) ≤ (m : ℚ) := by
    have : ((P52 : ℕ) : ℚ) ≤ (m : ℚ) := by exact_mod_cast hP
    rw [P52_cast] at this
    exact_mod_cast this
  by_cases h53 : m = P53
  · left
    subst h53
    refine ⟨?_, ?_⟩
    · unfold finish
      simp only [↓reduceIte]
      rw [if_neg (by omega), if_pos (by omega)]
    · rw [P53_cast]
      calc (2 : ℚ) ^ (1024 : ℤ) ≤ 2 ^ (53 + e) := by rw [two_zpow_le_iff]; omega
        _ = 2 ^ (53 : ℤ) * 2 ^ e := two_zpow_add _ _
        _ = 2 ^ 53 * 2 ^ e := by norm_num
  · by_cases he3 : e ≤ 971
    · right
      have he : e = 971 := by omega
      subst he
      have hd : decode (finish s m 971) = .fin s m 971 := by
        unfold finish
        simp only [h53, ↓reduceIte]
        rw [if_neg (by omega), if_neg (by omega)]
        rw [decode_pack_norm s _ _ (by omega) (by omega) (by unfold P52 P53 at *; omega)]
        congr 1; omega
      exact ⟨finite_of_decode hd, by rw [val_of_decode hd]; rfl⟩
    · left
      refine ⟨?_, ?_⟩
      · unfold finish
        simp only [h53, ↓reduceIte]
        rw [if_neg (by omega), if_pos (by omega)]
      · calc (2 : ℚ) ^ (1024 : ℤ) ≤ 2 ^ (52 + e) := by rw [two_zpow_le_iff]; omega
          _ = 2 ^ (52 : ℤ) * 2 ^ e := two_zpow_add _ _
          _ ≤ (m : ℚ) * 2 ^ e := mul_le_mul_of_nonneg_right h52 (le_of_lt (two_zpow_pos e))

theorem finish_total (s : Bool) (m : ℕ) (e : ℤ) (q : ℚ) (hm : m ≤ P53) (hlo : P52 ≤ m ∨ e = -1074)
    (he1 : -1074 ≤ e) (hq : 0 < q) (H : MagBounds q ((m : ℚ) * 2 ^ e)) :
    (finish s m e = inf s ∧ (2 : ℚ) ^ (1023 : ℤ) ≤ q) ∨
    (signBit (finish s m e) = s ∧ Faithful (sgn s * q) (finish s m e)) := by
  rcases finish_cases s m e hm hlo he1 with ⟨hinf, hbig⟩ | ⟨hf, hv⟩
  · left
    refine ⟨hinf, ?_⟩
    by_contra hlt
    have h1 := (H 1 1023 (by unfold P53; omega) (by omega)).2 (by rw [Nat.cast_one, one_mul]; linarith)
    have h2 : (2 : ℚ) ^ (1023 : ℤ) < 2 ^ (1024 : ℤ) := by rw [two_zpow_lt_iff]; omega
    rw [Nat.cast_one, one_mul] at h1
    exact absurd (le_trans hbig h1) (not_le.mpr h2)
  · right
    refine ⟨signBit_finish s m e hm, ?_⟩
    exact faithful_of_mag s q _ hq (by positivity) H hf (by rw [hv]; ring)

/-! ### `roundDyadic`, `roundQuot` -/

theorem roundDyadic_total (s : Bool) (N : ℕ) (e : ℤ) (hN : 0 < N) :
    (roundDyadic s N e = inf s ∧ (2 : ℚ) ^ (1023 : ℤ) ≤ (N : ℚ) * 2 ^ e) ∨
    (signBit (roundDyadic s N e) = s ∧ Faithful (sgn s * ((N : ℚ) * 2 ^ e)) (roundDyadic s N e)) := by
  obtain ⟨hq1, hq2⟩ := log2_bounds_rat N hN
  have hk1 : 2 ^ Nat.log2 N ≤ N := Nat.log2_self_le (by omega)
  have hk2 : N < 2 ^ (Nat.log2 N + 1) := Nat.lt_log2_self
  rw [roundDyadic_eq_finish]
  generalize Nat.log2 N = k at *
  generalize he' : max (e + (k : ℤ) - 52) (-1074) = e'
  have h2e : (0 : ℚ) < 2 ^ e := two_zpow_pos e
  have key : ∀ m : ℕ,
      m = (if e ≥ e' then N * 2 ^ (e - e').toNat else rne N (2 ^ (e' - e).toNat)) →
      m ≤ P53 ∧ (P52 ≤ m ∨ e' = -1074) ∧ MagBounds ((N : ℚ) * 2 ^ e) ((m : ℚ) * 2 ^ e') := by
    intro m hm
    by_cases hc : e ≥ e'
    · rw [if_pos hc] at hm
      obtain ⟨t, ht⟩ : ∃ t : ℕ, e = e' + t := ⟨(e - e').toNat, by omega⟩
      have htn : (e - e').toNat = t := by omega
      rw [htn] at hm
      refine ⟨?_, ?_, ?_⟩
      · have : m < P53 := by
          rw [hm]
          calc N * 2 ^ t < 2 ^ (k + 1) * 2 ^ t := Nat.mul_lt_mul_of_pos_right hk2 (Nat.pow_pos (by omega))
            _ = 2 ^ (k + 1 + t) := by rw [← Nat.pow_add]
            _ ≤ 2 ^ 53 := Nat.pow_le_pow_right (by omega) (by omega)
            _ = P53 := pow53
        omega
      · by_cases hn : e' = -1074
        · exact Or.inr hn
        · left
          have htk : k + t = 52 := by omega
          rw [hm]
          calc P52 = 2 ^ (k + t) := by rw [htk, pow52]
            _ = 2 ^ k * 2 ^ t := Nat.pow_add _ _ _
            _ ≤ N * 2 ^ t := Nat.mul_le_mul_right _ hk1
      · have : (m : ℚ) * 2 ^ e' = (N : ℚ) * 2 ^ e := by
          rw [hm, ht, two_zpow_add, zpow_natCast]; push_cast; ring
        rw [this]
        intro n g _ _
        exact ⟨id, id⟩
    · rw [if_neg hc] at hm
      rw [hm]
      apply rne_mag N (2 ^ (e' - e).toNat) e' (e + k) ((N : ℚ) * 2 ^ e) (Nat.pow_pos (by omega))
      · push_cast
        rw [two_zpow_toNat _ (by omega), two_zpow_sub]
        field_simp
      · rw [two_zpow_add, zpow_natCast, mul_comm]
        exact mul_le_mul_of_nonneg_right hq1 (le_of_lt h2e)
      · rw [show e + (k : ℤ) + 1 = ((k + 1 : ℕ) : ℤ) + e by push_cast; ring, two_zpow_add, zpow_natCast]
        exact mul_lt_mul_of_pos_right hq2 h2e
      · exact he'.symm
  obtain ⟨hm, hlo, H⟩ := key _ rfl
  exact finish_total s _ e' _ hm hlo (by omega) (by positivity) H

theorem roundQuot_total (s : Bool) (n d : ℕ) (hn : 0 < n) (hd : 0 < d) :
    (roundQuot s n d = inf s ∧ (2 : ℚ) ^ (1023 : ℤ) ≤ (n : ℚ) / d) ∨
    (signBit (roundQuot s n d) = s ∧ Faithful (sgn s * ((n : ℚ) / d)) (roundQuot s n d)) := by
  obtain ⟨hL1, hL2⟩ := ilog2q_spec n d hn hd
  have hdq : (0 : ℚ) < d := by exact_mod_cast hd
  have hnq : (0 : ℚ) < n := by exact_mod_cast hn
  rw [roundQuot_eq_finish]
  generalize ilog2q n d = L at *
  have he : (if L - 52 < -1074 then -1074 else L - 52) = max (L - 52) (-1074) := by
    split <;> omega
  rw [he]
  generalize hee : max (L - 52) (-1074) = e
  by_cases hc : e ≥ 0
  · rw [if_pos hc]
    obtain ⟨hm, hlo, H⟩ := rne_mag n (d * 2 ^ e.toNat) e L ((n : ℚ) / d)
      (Nat.mul_pos hd (Nat.pow_pos (by omega)))
      (by push_cast; rw [two_zpow_toNat e hc]; field_simp) hL1 hL2 hee.symm
    exact finish_total s _ e _ hm hlo (by omega) (by positivity) H
  · rw [if_neg hc]
    obtain ⟨hm, hlo, H⟩ := rne_mag (n * 2 ^ (-e).toNat) d e L ((n : ℚ) / d) hd
      (by
        push_cast
        rw [two_zpow_toNat (-e) (by omega), mul_assoc, ← two_zpow_add]
        simp only [neg_add_cancel, zpow_zero, mul_one]
        field_simp) hL1 hL2 hee.symm
    exact finish_total s _ e _ hm hlo (by omega) (by positivity) H

/-! ### conversions and arithmetic -/

theorem faithful_zero (s : Bool) : Faithful 0 (zero s) := by
  refine ⟨finite_zero s, ?_⟩
  intro a _
  rw [val_zero]
  exact ⟨id, id⟩

/-- `float64(n)` for a natural number below 2^1023: sign bit clear, monotone -/
theorem ofNat_faithful (n : ℕ) (h : (n : ℚ) < 2 ^ (1023 : ℤ)) :
    signBit (ofNat n) = false ∧ Faithful (n : ℚ) (ofNat n) := by
  unfold ofNat
  by_cases h0 : n = 0
  · rw [if_pos h0, h0]
    exact ⟨signBit_zero false, by simpa using faithful_zero false⟩
  · rw [if_neg h0]
    rcases roundDyadic_total false n 0 (by omega) with ⟨-, hbig⟩ | ⟨hs, hf⟩
    · rw [zpow_zero, mul_one] at hbig; linarith
    · refine ⟨hs, ?_⟩
      simpa [sgn] using hf

theorem ofNat_val (n : ℕ) (h : Representable (n : ℚ)) (hlt : (n : ℚ) < 2 ^ (1023 : ℤ)) :
    Finite (ofNat n) ∧ signBit (ofNat n) = false ∧ val (ofNat n) = (n : ℚ) := by
  obtain ⟨hs, hf⟩ := ofNat_faithful n hlt
  exact ⟨hf.finite, hs, hf.exact h⟩

theorem abs_eq_sgn_mul (s : Bool) (r : ℚ) (hr : 0 ≤ r) : |sgn s * r| = r := by
  rw [abs_mul, abs_sgn, one_mul, abs_of_nonneg hr]

/-- **Floating-point multiplication is monotone**: overflow to the correctly signed infinity (only for exact products
of magnitude at least `2^1023`) or a faithful result with the sign bit of the exact product -/
theorem mul_total {x y : F64} (hx : Finite x) (hy : Finite y) :
    (mul x y = inf (signBit x != signBit y) ∧ (2 : ℚ) ^ (1023 : ℤ) ≤ |val x * val y|) ∨
    (signBit (mul x y) = (signBit x != signBit y) ∧ Faithful (val x * val y) (mul x y)) := by
  obtain ⟨a, m1, e1, hdx, -⟩ := decode_finite hx
  obtain ⟨b, m2, e2, hdy, -⟩ := decode_finite hy
  rw [signBit_of_decode hdx, signBit_of_decode hdy]
  have hprod : val x * val y = sgn (a != b) * (((m1 * m2 : ℕ) : ℚ) * 2 ^ (e1 + e2)) := by
    rw [val_of_decode hdx, val_of_decode hdy, sgn_xor, two_zpow_add]
    unfold fval; push_cast; ring
  unfold mul
  rw [hdx, hdy]
  simp only []
  by_cases h0 : m1 * m2 = 0
  · rw [if_pos h0]
    right
    have hz : val x * val y = 0 := by rw [hprod, h0]; simp
    rw [hz]
    exact ⟨signBit_zero _, faithful_zero _⟩
  · rw [if_neg h0]
    have hN : 0 < m1 * m2 := Nat.pos_of_ne_zero h0
    rw [hprod, abs_eq_sgn_mul _ _ (by positivity)]
    exact roundDyadic_total (a != b) (m1 * m2) (e1 + e2) hN

/-- **Floating-point division by a non-zero finite number is monotone** -/
theorem div_total {x y : F64} (hx : Finite x) (hy : Finite y) (hy0 : val y ≠ 0) :
    (div x y = inf (signBit x != signBit y) ∧ (2 : ℚ) ^ (1023 : ℤ) ≤ |val x / val y|) ∨
    (signBit (div x y) = (signBit x != signBit y) ∧ Faithful (val x / val y) (div x y)) := by
  obtain ⟨a, m1, e1, hdx, -⟩ := decode_finite hx
  obtain ⟨b, m2, e2, hdy, -⟩ := decode_finite hy
  rw [signBit_of_decode hdx, signBit_of_decode hdy]
  have hm2 : m2 ≠ 0 := by rw [val_of_decode hdy, Ne, fval_eq_zero_iff] at hy0; exact hy0
  by_cases hm1 : m1 = 0
  · right
    have hx0 : val x = 0 := by rw [val_of_decode hdx, fval_eq_zero_iff]; exact hm1
    have : div x y = zero (a != b) := by
      unfold div
      rw [hdx, hdy]
      simp only []
      rw [if_neg hm2, if_pos hm1]
    rw [this, hx0, zero_div]
    exact ⟨signBit_zero _, faithful_zero _⟩
  have hm1q : (0 : ℚ) < m1 := by exact_mod_cast Nat.pos_of_ne_zero hm1
  have hm2q : (0 : ℚ) < m2 := by exact_mod_cast Nat.pos_of_ne_zero hm2
  generalize hn : m1 * 2 ^ (e1 - min e1 e2).toNat = n
  generalize hd : m2 * 2 ^ (e2 - min e1 e2).toNat = d
  have hn0 : 0 < n := by rw [← hn]; exact Nat.mul_pos (Nat.pos_of_ne_zero hm1) (Nat.pow_pos (by omega))
  have hd0 : 0 < d := by rw [← hd]; exact Nat.mul_pos (Nat.pos_of_ne_zero hm2) (Nat.pow_pos (by omega))
  have hquot : (n : ℚ) / d = (m1 : ℚ) * 2 ^ e1 / (m2 * 2 ^ e2) := by
    rw [← hn, ← hd]
    push_cast
    rw [two_zpow_toNat _ (by omega), two_zpow_toNat _ (by omega), two_zpow_sub, two_zpow_sub]
    have := two_zpow_pos (min e1 e2)
    field_simp
  have hval : val x / val y = sgn (a != b) * ((n : ℚ) / d) := by
    rw [hquot, val_of_decode hdx, val_of_decode hdy, sgn_xor]
    unfold fval
    have hs : sgn b ≠ 0 := by cases b <;> simp [sgn]
    have h1 : sgn b * sgn b = 1 := sgn_sq b
    have := two_zpow_pos e2
    field_simp
    rw [pow_two, h1, mul_one]
  have hdiv : div x y = roundQuot (a != b) n d := by
    unfold div
    rw [hdx, hdy]
    simp only []
    rw [if_neg hm2, if_neg hm1, hn, hd]
  rw [hdiv, hval, abs_eq_sgn_mul _ _ (by positivity)]
  exact roundQuot_total (a != b) n d hn0 hd0

/-- a finite double with the sign bit clear is non-negative; with the sign bit set, non-positive -/
theorem val_nonneg_of_signBit {x : F64} (hx : Finite x) (hs : signBit x = false) : 0 ≤ val x := by
  obtain ⟨a, m, e, hd, -⟩ := decode_finite hx
  rw [signBit_of_decode hd] at hs
  subst hs
  rw [val_of_decode hd]
  unfold fval sgn
  simp only [Bool.false_eq_true, ↓reduceIte, one_mul]
  positivity

theorem signBit_of_pos {x : F64} (hx : Finite x) (h : 0 < val x) : signBit x = false := by
  obtain ⟨a, m, e, hd, -⟩ := decode_finite hx
  rw [signBit_of_decode hd]
  rw [val_of_decode hd] at h
  cases a
  · rfl
  · exfalso
    unfold fval sgn at h
    simp only [↓reduceIte, neg_mul, one_mul] at h
    have : (0 : ℚ) ≤ (m : ℚ) * 2 ^ e := by positivity
    linarith

/-! ### small facts about powers of two -/

theorem P63_cast : ((P63 : ℕ) : ℚ) = 2 ^ 63 := by norm_num [P63]

theorem representable_two_pow (k : ℕ) (hk : k < 1024) : Representable ((2 : ℚ) ^ k) := by
  refine ⟨1, k, by unfold P53; omega, by omega, ?_, ?_⟩
  · have : Nat.log2 1 = 0 := by decide
    rw [this]; omega
  · rw [abs_of_pos (by positivity), Nat.cast_one, one_mul, zpow_natCast]

theorem representable_one : Representable (1 : ℚ) := by
  simpa using representable_two_pow 0 (by omega)

theorem two_pow_lt_big (k : ℕ) (hk : k < 1023) : (2 : ℚ) ^ k < 2 ^ (1023 : ℤ) := by
  rw [← zpow_natCast, two_zpow_lt_iff]; omega

end F64
end Ysgo
