import Ysgo.Lemmas.F64Quot
import Ysgo.Lemmas.F64Num
/-!
# F64 lemma library, part 11: `round_places`

`pow10 n` is exact for `0 ≤ n ≤ 8`; `round` on every finite double; the error analysis of
`math.Round(x * 10^n) / 10^n` (one rounded multiplication, an exact integer rounding, one rounded division).
-/
namespace Ysgo
namespace F64

/-- `math.Pow10(n)` is exactly `10^n` for `n = 0 … 8` -/
theorem pow10_val : ∀ n : ℕ, n ≤ 8 → Finite (pow10 (n : ℤ)) ∧ val (pow10 (n : ℤ)) = (10 : ℚ) ^ n
  | 0, _ => by
    have h : decode (pow10 ((0 : ℕ) : ℤ)) = .fin false 4503599627370496 (-52) := by decide
    exact ⟨finite_of_decode h, by rw [val_of_decode h]; norm_num [fval, sgn]⟩
  | 1, _ => by
    have h : decode (pow10 ((1 : ℕ) : ℤ)) = .fin false 5629499534213120 (-49) := by decide
    exact ⟨finite_of_decode h, by rw [val_of_decode h]; norm_num [fval, sgn]⟩
  | 2, _ => by
    have h : decode (pow10 ((2 : ℕ) : ℤ)) = .fin false 7036874417766400 (-46) := by decide
    exact ⟨finite_of_decode h, by rw [val_of_decode h]; norm_num [fval, sgn]⟩
  | 3, _ => by
    have h : decode (pow10 ((3 : ℕ) : ℤ)) = .fin false 8796093022208000 (-43) := by decide
    exact ⟨finite_of_decode h, by rw [val_of_decode h]; norm_num [fval, sgn]⟩
  | 4, _ => by
    have h : decode (pow10 ((4 : ℕ) : ℤ)) = .fin false 5497558138880000 (-39) := by decide
    exact ⟨finite_of_decode h, by rw [val_of_decode h]; norm_num [fval, sgn]⟩
  | 5, _ => by
    have h : decode (pow10 ((5 : ℕ) : ℤ)) = .fin false 6871947673600000 (-36) := by decide
    exact ⟨finite_of_decode h, by rw [val_of_decode h]; norm_num [fval, sgn]⟩
  | 6, _ => by
    have h : decode (pow10 ((6 : ℕ) : ℤ)) = .fin false 8589934592000000 (-33) := by decide
    exact ⟨finite_of_decode h, by rw [val_of_decode h]; norm_num [fval, sgn]⟩
  | 7, _ => by
    have h : decode (pow10 ((7 : ℕ) : ℤ)) = .fin false 5368709120000000 (-29) := by decide
    exact ⟨finite_of_decode h, by rw [val_of_decode h]; norm_num [fval, sgn]⟩
  | 8, _ => by
    have h : decode (pow10 ((8 : ℕ) : ℤ)) = .fin false 6710886400000000 (-26) := by decide
    exact ⟨finite_of_decode h, by rw [val_of_decode h]; norm_num [fval, sgn]⟩
  | n + 9, h => by omega

/-- `round` of any finite double is an integer-valued double within 1/2 (a double with exponent ≥ 0 is returned
unchanged) -/
theorem round_spec_fin {y : F64} (h : Finite y) :
    ∃ R : ℤ, Finite (round y) ∧ val (round y) = (R : ℚ) ∧ |(R : ℚ) - val y| ≤ 1 / 2 := by
  obtain ⟨s, m, e, hd, -⟩ := decode_finite h
  by_cases he : e < 0
  · obtain ⟨R, h1, h2, h3, -⟩ := round_spec (lt52_of_decode hd he)
    exact ⟨R, h1, h2, h3⟩
  · have hr : round y = y := by
      unfold round integral
      rw [hd]
      simp only []
      rw [if_pos (by omega)]
    rw [hr]
    refine ⟨snum s m * (2 ^ e.toNat : ℕ), h, ?_, ?_⟩
    · rw [val_of_decode hd]
      unfold fval
      push_cast
      rw [snum_cast, two_zpow_toNat e (by omega)]
    · have : ((snum s m * (2 ^ e.toNat : ℕ) : ℤ) : ℚ) = val y := by
        rw [val_of_decode hd]
        unfold fval
        push_cast
        rw [snum_cast, two_zpow_toNat e (by omega)]
      rw [this, sub_self, abs_zero]; norm_num

/-- the error analysis of `round(x·T)/T` in exact arithmetic: one rounding `y ≈ x·T`, an integer `R` within 1/2 of `y`,
one rounding `z ≈ R/T`, each rounding with relative error `u` (absolute `tiny` for the first) -/
theorem places_bound (x T y R z u tiny : ℚ) (hT : 1 ≤ T) (hu0 : 0 ≤ u) (hu1 : u ≤ 1 / 2)
    (ht : tiny ≤ u)
    (hy : |y - x * T| ≤ max (|x * T| * u) tiny) (hR : |R - y| ≤ 1 / 2) (hz : |z - R / T| ≤ |R / T| * u) :
    |z - x| ≤ 1 / (2 * T) + 4 * u * max |x| (1 / T) := by
  have hT0 : 0 < T := by linarith
  have hM1 : |x| ≤ max |x| (1 / T) := le_max_left _ _
  have hM2 : 1 / T ≤ max |x| (1 / T) := le_max_right _ _
  generalize max |x| (1 / T) = M at *
  have hM0 : 0 ≤ M := le_trans (abs_nonneg x) hM1
  have hMT : 1 ≤ M * T := by
    have := mul_le_mul_of_nonneg_right hM2 (le_of_lt hT0)
    rwa [one_div, inv_mul_cancel₀ (ne_of_gt hT0)] at this
  have hW0 : 0 ≤ u * (M * T) := mul_nonneg hu0 (by linarith)
  have hxT : |x * T| = |x| * T := by rw [abs_mul, abs_of_pos hT0]
  have h1 : |x| * T * u ≤ u * (M * T) := by
    have := mul_le_mul_of_nonneg_right (mul_le_mul_of_nonneg_right hM1 (le_of_lt hT0)) hu0
    linarith
  have h2 : u ≤ u * (M * T) := by
    have := mul_le_mul_of_nonneg_left hMT hu0
    linarith
  have hδ : max (|x * T| * u) tiny ≤ u * (M * T) := by
    rw [hxT]; exact max_le h1 (le_trans ht h2)
  generalize max (|x * T| * u) tiny = δ at *
  have hδ0 : 0 ≤ δ := le_trans (abs_nonneg _) hy
  have h3 : δ * u ≤ u * (M * T) / 2 := by
    have := mul_le_mul hδ hu1 hu0 hW0
    linarith
  have hRx : |R - x * T| ≤ 1 / 2 + δ := by
    have : R - x * T = (R - y) + (y - x * T) := by ring
    rw [this]
    exact le_trans (abs_add_le _ _) (by linarith)
  have hRabs : |R| ≤ |x| * T + 1 / 2 + δ := by
    have : R = (R - x * T) + x * T := by ring
    rw [this]
    refine le_trans (abs_add_le _ _) ?_
    rw [hxT]; linarith
  have h4 : |R / T - x| ≤ (1 / 2 + δ) / T := by
    have : R / T - x = (R - x * T) / T := by field_simp
    rw [this, abs_div, abs_of_pos hT0]
    exact div_le_div_of_nonneg_right hRx (le_of_lt hT0)
  have h5 : |R / T| * u ≤ (|x| * T + 1 / 2 + δ) * u / T := by
    rw [abs_div, abs_of_pos hT0, div_mul_eq_mul_div]
    exact div_le_div_of_nonneg_right (mul_le_mul_of_nonneg_right hRabs hu0) (le_of_lt hT0)
  have h6 : |z - x| ≤ ((|x| * T + 1 / 2 + δ) * u + (1 / 2 + δ)) / T := by
    have : z - x = (z - R / T) + (R / T - x) := by ring
    rw [this, add_div]
    exact le_trans (abs_add_le _ _) (by linarith)
  have h7 : (|x| * T + 1 / 2 + δ) * u + (1 / 2 + δ) ≤ 1 / 2 + 4 * (u * (M * T)) := by
    have : (|x| * T + 1 / 2 + δ) * u = |x| * T * u + u / 2 + δ * u := by ring
    rw [this]; linarith
  refine le_trans h6 ?_
  have : 1 / (2 * T) + 4 * u * M = (1 / 2 + 4 * (u * (M * T))) / T := by field_simp
  rw [this]
  exact div_le_div_of_nonneg_right h7 (le_of_lt hT0)

end F64

namespace Num
open F64

/-- **`round_places x n` for `|x| < 2^52`, `0 ≤ n ≤ 8`**: within half a unit of the n-th decimal place, up to the
representation slack `4·2^-53·max(|x|, 10^-n)` of the rounded multiplication and division -/
theorem roundPlaces_spec {x : F64} (h : Lt52 x) (n : ℕ) (hn : n ≤ 8) :
    Finite (roundPlaces x (n : ℤ)) ∧
      |val (roundPlaces x (n : ℤ)) - val x|
        ≤ 1 / (2 * (10 : ℚ) ^ n) + 4 * 2 ^ (-53 : ℤ) * max |val x| (1 / (10 : ℚ) ^ n) := by
  obtain ⟨tf, tv⟩ := pow10_val n hn
  have hxf := h.finite
  have hx52 := (lt52_iff_val hxf).mp h
  have hT1 : (1 : ℚ) ≤ (10 : ℚ) ^ n := one_le_pow₀ (by norm_num)
  have hT27 : (10 : ℚ) ^ n ≤ 2 ^ 27 := by
    calc (10 : ℚ) ^ n ≤ 10 ^ 8 := pow_le_pow_right₀ (by norm_num) hn
      _ ≤ 2 ^ 27 := by norm_num
  have hT0 : (0 : ℚ) < (10 : ℚ) ^ n := by positivity
  have hu1 : (2 : ℚ) ^ (-53 : ℤ) ≤ 1 := by
    rw [show (1 : ℚ) = 2 ^ (0 : ℤ) by simp, two_zpow_le_iff]; norm_num
  have hu2 : (2 : ℚ) ^ (-53 : ℤ) ≤ 1 / 2 := by
    rw [show (1 : ℚ) / 2 = 2 ^ (-1 : ℤ) by norm_num, two_zpow_le_iff]; norm_num
  have htiny : (2 : ℚ) ^ (-1075 : ℤ) ≤ 2 ^ (-53 : ℤ) := by rw [two_zpow_le_iff]; norm_num
  have hu0 : (0 : ℚ) < 2 ^ (-53 : ℤ) := two_zpow_pos _
  have h81 : (2 : ℚ) ^ (81 : ℕ) < 2 ^ (1023 : ℤ) := by
    rw [← zpow_natCast, two_zpow_lt_iff]; norm_num
  -- the product x·10^n
  have hprod : |val x * val (pow10 (n : ℤ))| < 2 ^ (79 : ℕ) := by
    rw [tv, abs_mul, abs_of_pos hT0]
    calc |val x| * (10 : ℚ) ^ n < 2 ^ 52 * 2 ^ 27 := by
          apply mul_lt_mul hx52 hT27 hT0 (by positivity)
      _ = 2 ^ 79 := by norm_num
  have hprod' : |val x * val (pow10 (n : ℤ))| < 2 ^ (1023 : ℤ) := by
    apply lt_trans hprod
    apply lt_trans _ h81
    norm_num
  obtain ⟨yf, ye⟩ := mul_err hxf tf hprod'
  obtain ⟨R, rf, rv, re⟩ := round_spec_fin yf
  -- magnitude of the rounded product and of R
  have hδ : max (|val x * val (pow10 (n : ℤ))| * 2 ^ (-53 : ℤ)) (2 ^ (-1075 : ℤ))
      ≤ |val x * val (pow10 (n : ℤ))| + 1 := by
    apply max_le
    · have := mul_le_mul_of_nonneg_left hu1 (abs_nonneg (val x * val (pow10 (n : ℤ))))
      linarith
    · have := abs_nonneg (val x * val (pow10 (n : ℤ)))
      linarith [le_trans htiny hu1]
  have hyabs : |val (F64.mul x (pow10 (n : ℤ)))| ≤ 2 * |val x * val (pow10 (n : ℤ))| + 1 := by
    have : val (F64.mul x (pow10 (n : ℤ)))
        = (val (F64.mul x (pow10 (n : ℤ))) - val x * val (pow10 (n : ℤ))) + val x * val (pow10 (n : ℤ)) := by
      ring
    rw [this]
    refine le_trans (abs_add_le _ _) ?_
    linarith
  have hRabs : |(R : ℚ)| ≤ 2 ^ (81 : ℕ) := by
    have : (R : ℚ) = ((R : ℚ) - val (F64.mul x (pow10 (n : ℤ)))) + val (F64.mul x (pow10 (n : ℤ))) := by ring
    rw [this]
    refine le_trans (abs_add_le _ _) ?_
    have : (2 : ℚ) ^ (81 : ℕ) = 2 * 2 ^ (79 : ℕ) + 2 * 2 ^ (79 : ℕ) := by norm_num
    have : (2 : ℚ) ≤ 2 * 2 ^ (79 : ℕ) := by norm_num
    linarith
  -- the division
  have hz : Finite (F64.div (F64.round (F64.mul x (pow10 (n : ℤ)))) (pow10 (n : ℤ))) ∧
      |val (F64.div (F64.round (F64.mul x (pow10 (n : ℤ)))) (pow10 (n : ℤ))) - (R : ℚ) / (10 : ℚ) ^ n|
        ≤ |(R : ℚ) / (10 : ℚ) ^ n| * 2 ^ (-53 : ℤ) := by
    by_cases hR0 : R = 0
    · obtain ⟨zf, zv⟩ := div_zero_num rf tf (by rw [rv, hR0]; simp) (by rw [tv]; exact ne_of_gt hT0)
      refine ⟨zf, ?_⟩
      rw [zv, hR0]; simp
    · have hRq : (R : ℚ) ≠ 0 := by exact_mod_cast hR0
      have hR1 : (1 : ℚ) ≤ |(R : ℚ)| := by
        have : 1 ≤ |R| := Int.one_le_abs hR0
        exact_mod_cast this
      have hqabs : |(R : ℚ) / (10 : ℚ) ^ n| = |(R : ℚ)| / (10 : ℚ) ^ n := by
        rw [abs_div, abs_of_pos hT0]
      have hqov : |val (F64.round (F64.mul x (pow10 (n : ℤ)))) / val (pow10 (n : ℤ))| < 2 ^ (1023 : ℤ) := by
        rw [rv, tv, hqabs]
        apply lt_of_le_of_lt _ h81
        apply le_trans _ hRabs
        exact div_le_self (abs_nonneg _) hT1
      obtain ⟨zf, ze⟩ := div_err rf tf (by rw [rv]; exact hRq) (by rw [tv]; exact ne_of_gt hT0) hqov
      refine ⟨zf, ?_⟩
      rw [rv, tv] at ze
      refine le_trans ze (max_le (le_refl _) ?_)
      -- 2^-1075 ≤ |R / 10^n|·2^-53 because |R / 10^n| ≥ 2^-27
      have hq27 : (2 : ℚ) ^ (-27 : ℤ) ≤ |(R : ℚ) / (10 : ℚ) ^ n| := by
        rw [hqabs, le_div_iff₀ hT0]
        have : (2 : ℚ) ^ (-27 : ℤ) * (10 : ℚ) ^ n ≤ 2 ^ (-27 : ℤ) * 2 ^ 27 :=
          mul_le_mul_of_nonneg_left hT27 (le_of_lt (two_zpow_pos _))
        have h1 : (2 : ℚ) ^ (-27 : ℤ) * 2 ^ 27 = 1 := by norm_num
        linarith
      calc (2 : ℚ) ^ (-1075 : ℤ) ≤ 2 ^ (-27 : ℤ) * 2 ^ (-53 : ℤ) := by
            rw [← two_zpow_add, two_zpow_le_iff]; norm_num
        _ ≤ |(R : ℚ) / (10 : ℚ) ^ n| * 2 ^ (-53 : ℤ) := mul_le_mul_of_nonneg_right hq27 (le_of_lt hu0)
  obtain ⟨zf, ze⟩ := hz
  unfold roundPlaces
  simp only []
  refine ⟨zf, ?_⟩
  rw [tv] at ye
  exact places_bound (val x) ((10 : ℚ) ^ n) _ (R : ℚ) _ (2 ^ (-53 : ℤ)) (2 ^ (-1075 : ℤ)) hT1
    (le_of_lt hu0) hu2 htiny ye re ze

end Num
end Ysgo
