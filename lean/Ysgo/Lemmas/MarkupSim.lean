import Ysgo.Lemmas.MarkupScan
import Ysgo.Spec.MarkupSpec
/-!
# Simulation of the chunk-level specification by the main loop (core chunk kinds)
-/
namespace Ysgo.Markup
open Ysgo.Unicode Ysgo.MarkupSpec
attribute [local irreducible] Unicode.isLetter Unicode.isDigit Unicode.isSpace Unicode.toLower

/-- `cs` followed by `R` is copied by the main loop: no `[`, and no `\` directly before a bracket -/
def PlainChars : List Char → List Char → Prop
  | [], _ => True
  | c :: cs, R => c ≠ '[' ∧ (c = '\\' → (cs ++ R).head? ≠ some '[' ∧ (cs ++ R).head? ≠ some ']') ∧ PlainChars cs R

theorem getLast?_getD_cons (c d : Char) (cs : List Char) : (c :: cs).getLast?.getD d = cs.getLast?.getD c := by
  cases cs with
  | nil => simp
  | cons e es =>
    rw [List.getLast?_cons_cons]
    cases h : (e :: es).getLast? with
    | none => simp at h
    | some x => simp

/-- the main loop copies plain characters one by one -/
theorem mainLoop_plain (pfuel : Nat) (cs R : List Char) (hp : PlainChars cs R) :
    ∀ (fuel : Nat) (st : LoopSt) (k p : Nat),
      mainLoop pfuel (fuel + cs.length) st { rest := cs ++ R, src := k, pos := p } =
        mainLoop pfuel fuel { st with out := st.out ++ cs, last := cs.getLast?.getD st.last }
          { rest := R, src := k + cs.length, pos := p } := by
  induction cs with
  | nil => intro fuel st k p; simp
  | cons c cs ih =>
    intro fuel st k p
    obtain ⟨h1, h2, h3⟩ := hp
    have hesc : ¬ (c = '\\' ∧ ((cs ++ R).headD (Char.ofNat 0) = '[' ∨ (cs ++ R).headD (Char.ofNat 0) = ']')) := by
      rintro ⟨hc, hb⟩
      obtain ⟨ha, hb'⟩ := h2 hc
      cases hl : cs ++ R with
      | nil => rw [hl] at hb; simp at hb
      | cons d ds =>
        rw [hl] at hb ha hb'
        simp at hb ha hb'
        rcases hb with hb | hb
        · exact ha hb
        · exact hb' hb
    have e : fuel + (c :: cs).length = (fuel + cs.length) + 1 := by simp only [List.length_cons]; omega
    rw [e]
    simp only [mainLoop, bind, P.bind, readRune, List.cons_append, peekRune, hesc, if_false, h1, incSrc]
    rw [ih h3]
    simp only [List.append_assoc, List.singleton_append, List.length_cons, getLast?_getD_cons]
    congr 2; omega

/-- an escaped bracket -/
theorem mainLoop_esc (pfuel : Nat) (b : Char) (hb : b = '[' ∨ b = ']') (R : List Char) (fuel : Nat) (st : LoopSt) (k p : Nat) :
    mainLoop pfuel (fuel + 1) st { rest := '\\' :: b :: R, src := k, pos := p } =
      mainLoop pfuel fuel { st with out := st.out ++ [b] } { rest := R, src := k + 1, pos := p } := by
  simp only [mainLoop, bind, P.bind, readRune, peekRune, List.headD_cons, hb, and_self, if_true, incSrc]

/-- a marker: the `[` is read, `position` is set, `markerStep` runs -/
theorem mainLoop_marker (pfuel : Nat) (R : List Char) (fuel : Nat) (st st' : LoopSt) (k p : Nat) (s' : PS)
    (h : markerStep pfuel st { rest := R, src := k, pos := st.out.length } = .ok st' s') :
    mainLoop pfuel (fuel + 1) st { rest := '[' :: R, src := k, pos := p } = mainLoop pfuel fuel st' s' := by
  simp only [mainLoop, bind, P.bind, readRune, peekRune, show ¬ ('[' = '\\') by decide, false_and, if_false, if_true,
    setPos, h]

def startsWithSpace (l : List Char) : Bool :=
  match l with
  | c :: _ => isSpace c
  | [] => false

/-- the reader after the optional removal of one white space character -/
def afterTrim (trim : Bool) (s : PS) : PS :=
  if trim && startsWithSpace s.rest then { s with rest := s.rest.tail, src := s.src + 1 } else s

theorem trimOne_eq (trim : Bool) (s1 : PS) : trimOne trim s1 = .ok () (afterTrim trim s1) := by
  simp only [trimOne, bind, P.bind, peekRune]
  cases htr : trim with
  | false => simp [afterTrim, pure, P.pure]
  | true =>
    cases hr : s1.rest with
    | nil => simp [afterTrim, hr, startsWithSpace, isSpace_nul, pure, P.pure]
    | cons c cs =>
      cases hc : isSpace c with
      | false => simp [afterTrim, hr, startsWithSpace, hc, pure, P.pure]
      | true => simp [afterTrim, hr, startsWithSpace, hc, readRune, incSrc, P.bind]

/-- the parser's decision about the white space after a marker without processor; `none`: `trimwhitespace` is not a
boolean -/
def trimDecision (hadWs : Bool) (m : Marker) : Option Bool :=
  if hadWs then
    match getProp m.props "trimwhitespace" with
    | some (.bool b) => some b
    | some _ => none
    | none => some (m.tag == .selfClose)
  else some false

theorem decideTrim_eq (hadWs : Bool) (m : Marker) (trim : Bool) (s1 : PS) (h : trimDecision hadWs m = some trim) :
    decideTrim hadWs false m s1 = .ok trim s1 := by
  unfold trimDecision at h
  unfold decideTrim
  cases hadWs with
  | false => simp only [Bool.false_eq_true, if_false, Option.some.injEq] at h; subst h; rfl
  | true =>
    simp only [if_true] at h ⊢
    cases hg : getProp m.props "trimwhitespace" with
    | none => simp only [hg, Option.some.injEq] at h; subst h; simp [pure, P.pure]
    | some v =>
      cases v with
      | bool b => simp only [hg, Option.some.injEq] at h; subst h; rfl
      | int _ => simp [hg] at h
      | float _ => simp [hg] at h
      | str _ => simp [hg] at h

/-- `markerStep` for a marker whose name has no processor -/
theorem markerStep_general (pfuel : Nat) (st : LoopSt) (s s1 : PS) (m : Marker) (trim : Bool)
    (hm : parseAttributeMarker pfuel s = .ok m s1) (hrepl : isReplacement m.name = false)
    (ht : trimDecision (s1.pos == 0 || isSpace st.last) m = some trim) :
    markerStep pfuel st s =
      .ok { out := st.out, markers := st.markers ++ [m], last := '[' } (afterTrim trim s1) := by
  simp only [markerStep, bind, P.bind, hm, getPos, hrepl, Bool.false_eq_true, if_false, pure, P.pure,
    decideTrim_eq _ m trim s1 ht, trimOne_eq]
  simp

/-- `markerStep` for a marker without properties whose name has no processor -/
theorem markerStep_simple (pfuel : Nat) (st : LoopSt) (s s1 : PS) (m : Marker)
    (hm : parseAttributeMarker pfuel s = .ok m s1) (hprops : m.props = []) (hrepl : isReplacement m.name = false) :
    markerStep pfuel st s =
      .ok { out := st.out, markers := st.markers ++ [m], last := '[' }
        (afterTrim ((s1.pos == 0 || isSpace st.last) && m.tag == .selfClose) s1) := by
  apply markerStep_general pfuel st s s1 m _ hm hrepl
  unfold trimDecision
  simp only [hprops, getProp, List.find?_nil, Option.map_none]
  cases (s1.pos == 0 || isSpace st.last) <;> simp

/-- `markerStep` for a close marker, whatever its name: a processor (`[/nomarkup]`, `[/select]` …) has nothing to do on
a close marker and returns the empty text; a marker without properties that is not self-closing never trims -/
theorem markerStep_close (pfuel : Nat) (st : LoopSt) (s s1 : PS) (m : Marker)
    (hm : parseAttributeMarker pfuel s = .ok m s1) (hprops : m.props = []) (htag : m.tag = .close) :
    markerStep pfuel st s = .ok { out := st.out, markers := st.markers ++ [m], last := '[' } s1 := by
  cases hrepl : isReplacement m.name with
  | false =>
    have := markerStep_simple pfuel st s s1 m hm hprops hrepl
    simpa [htag, afterTrim] using this
  | true =>
    have hnot : m.tag ≠ .opn ∧ m.tag ≠ .selfClose := by rw [htag]; exact ⟨by decide, by decide⟩
    have hget : getProp m.props "trimwhitespace" = none := by rw [hprops]; rfl
    have hsc : (m.tag == Tag.selfClose) = false := by rw [htag]; decide
    have hproc : processReplacementMarker m s1 = .ok "" s1 := by
      unfold processReplacementMarker
      rw [if_pos hnot]; rfl
    simp only [markerStep, bind, P.bind, hm, getPos, hrepl, if_true, hproc, pure,
      P.pure, decideTrim, hget, hsc, Bool.false_and]
    cases (s1.pos == 0 || isSpace st.last) <;> simp [trimOne_eq, afterTrim, P.pure]

theorem isReplacement_ofList (n : List Char) : isReplacement (String.ofList n) = isReplName n := by
  simp only [isReplacement, isReplName, replNames, List.contains_cons, List.contains_nil, Bool.or_false]
  have h : ∀ s : String, (String.ofList n == s) = (n == s.toList) := by
    intro s
    rw [Bool.eq_iff_iff]
    simp only [beq_iff_eq]
    exact ofList_eq_lit n s
  simp only [h, Bool.or_assoc]

theorem toPropertyMap_eq (ps : List (String × PVal)) : toPropertyMap ps = asMap ps := by
  have h : ∀ k v m, mapInsert k v m = putProp k v m := by
    intro k v m
    induction m with
    | nil => rfl
    | cons p r ih => obtain ⟨k', v'⟩ := p; simp only [mapInsert, putProp, ih]
  unfold toPropertyMap asMap
  congr 1
  funext m p
  exact h _ _ _

/-! ## The invariant -/

def toOpen (m : Marker) : Open := { name := m.name, pos := m.position, src := m.sourcePosition, props := m.props }

/-- parser state `(st, s)` and specification state `S` agree when `R` is the source still to be processed by the
specification (the parser may already have dropped one white space character of it) -/
structure Inv (S : St) (R : List Char) (st : LoopSt) (s : PS) : Prop where
  out : st.out = S.out
  rest : s.rest = if S.trimNext && startsWithSpace R then R.tail else R
  src : s.src = S.src + (if S.trimNext && startsWithSpace R then 1 else 0)
  last : isSpace st.last = S.lastWs
  build : ∃ opensM : List Marker, opensM.map toOpen = S.opens ∧
      ∀ more, buildAttrs (st.markers ++ more) [] [] = buildAttrs more opensM S.attrs

/-- the chunk is simulated: `n` iterations of the main loop take the parser from a state that agrees with `S` to one that
agrees with `S'` -/
def StepSim (pfuel : Nat) (c : Chunk) : Prop :=
  ∀ (S S' : St) (R : List Char) (st : LoopSt) (s : PS), s.rest.length < pfuel →
    Inv S (renderChunk c ++ R) st s → stepChunk S c = some S' →
    ∃ (n : Nat) (st' : LoopSt) (s' : PS), Inv S' R st' s' ∧ n + s'.rest.length ≤ s.rest.length ∧
      ∀ fuel, mainLoop pfuel (fuel + n) st s = mainLoop pfuel fuel st' s'

theorem plainChars_of_text (t R : List Char) (h : ∀ c ∈ t, c ≠ '[' ∧ c ≠ '\\') : PlainChars t R := by
  induction t with
  | nil => trivial
  | cons c cs ih =>
    refine ⟨(h c List.mem_cons_self).1, fun hc => absurd hc (h c List.mem_cons_self).2, ?_⟩
    exact ih (fun d hd => h d (List.mem_cons_of_mem _ hd))

theorem stepSim_text_aux (pfuel : Nat) (S : St) (R kept : List Char) (st : LoopSt) (src pos len : Nat)
    (hk : PlainChars kept R) (hout : st.out = S.out) (hlast : isSpace st.last = S.lastWs)
    (hbuild : ∃ opensM : List Marker, opensM.map toOpen = S.opens ∧
      ∀ more, buildAttrs (st.markers ++ more) [] [] = buildAttrs more opensM S.attrs)
    (hsrc : src + kept.length = S.src + len) :
    ∃ (n : Nat) (st' : LoopSt) (s' : PS),
      Inv { S with out := S.out ++ kept, src := S.src + len,
                   lastWs := (kept.getLast?.map isSpace).getD S.lastWs, trimNext := false }
        R st' s' ∧
      n + s'.rest.length ≤ (kept ++ R).length ∧
      ∀ fuel, mainLoop pfuel (fuel + n) st { rest := kept ++ R, src := src, pos := pos } = mainLoop pfuel fuel st' s' := by
  refine ⟨kept.length, { st with out := st.out ++ kept, last := kept.getLast?.getD st.last },
    { rest := R, src := src + kept.length, pos := pos }, ?_, ?_, ?_⟩
  · refine ⟨?_, ?_, ?_, ?_, hbuild⟩
    · simp only [hout]
    · simp
    · simp only [Bool.false_and, Bool.false_eq_true, if_false, Nat.add_zero]
      exact hsrc
    · simp only
      cases kept.getLast? with
      | none => simpa using hlast
      | some d => simp
  · simp only [List.length_append]; omega
  · intro fuel
    exact mainLoop_plain pfuel kept R hk fuel st src pos

theorem stepSim_text (pfuel : Nat) (t : List Char) (ht : ∀ c ∈ t, c ≠ '[' ∧ c ≠ '\\') : StepSim pfuel (.text t) := by
  intro S S' R st s _ hinv hstep
  cases t with
  | nil =>
    simp only [stepChunk, Option.some.injEq] at hstep
    subst hstep
    exact ⟨0, st, s, by simpa [renderChunk] using hinv, by omega, fun fuel => rfl⟩
  | cons c cs =>
    simp only [stepChunk, Option.some.injEq] at hstep
    obtain ⟨rest, src, pos⟩ := s
    have hrest := hinv.rest
    have hsrc := hinv.src
    simp only [renderChunk, List.cons_append, startsWithSpace, List.tail_cons] at hrest hsrc
    by_cases hb : (S.trimNext && isSpace c) = true
    · simp only [hb, if_true] at hrest hsrc hstep
      have hk : PlainChars cs R :=
        plainChars_of_text cs R (fun d hd => ht d (List.mem_cons_of_mem _ hd))
      have := stepSim_text_aux pfuel S R cs st src pos (renderChunk (Chunk.text (c :: cs))).length hk hinv.out hinv.last
        hinv.build (by rw [hsrc]; simp only [renderChunk, List.length_cons]; omega)
      rw [hstep, ← hrest] at this
      exact this
    · have hb' : (S.trimNext && isSpace c) = false := by simpa using hb
      simp only [hb', Bool.false_eq_true, if_false] at hrest hsrc hstep
      have hk : PlainChars (c :: cs) R := plainChars_of_text (c :: cs) R ht
      have := stepSim_text_aux pfuel S R (c :: cs) st src pos (renderChunk (Chunk.text (c :: cs))).length hk hinv.out
        hinv.last hinv.build (by rw [hsrc]; simp only [renderChunk, List.length_cons]; omega)
      rw [hstep, List.cons_append, ← hrest] at this
      exact this

theorem stepSim_esc (pfuel : Nat) (c : Chunk) (hc : c = .escOpen ∨ c = .escClose) : StepSim pfuel c := by
  intro S S' R st s _ hinv hstep
  obtain ⟨rest, src, pos⟩ := s
  have hrest := hinv.rest
  have hsrc := hinv.src
  rcases hc with rfl | rfl
  · simp only [stepChunk, Option.some.injEq] at hstep
    simp only [renderChunk, List.cons_append, startsWithSpace, isSpace_backslash, Bool.and_false, Bool.false_eq_true,
      if_false, List.nil_append, Nat.add_zero] at hrest hsrc
    subst hstep hrest hsrc
    refine ⟨1, { st with out := st.out ++ ['['] }, { rest := R, src := S.src + 1, pos := pos }, ?_, ?_, ?_⟩
    · exact ⟨by simp only [hinv.out], by simp, by simp, hinv.last, hinv.build⟩
    · simp only [List.length_cons]; omega
    · intro fuel; exact mainLoop_esc pfuel '[' (Or.inl rfl) R fuel st S.src pos
  · simp only [stepChunk, Option.some.injEq] at hstep
    simp only [renderChunk, List.cons_append, startsWithSpace, isSpace_backslash, Bool.and_false, Bool.false_eq_true,
      if_false, List.nil_append, Nat.add_zero] at hrest hsrc
    subst hstep hrest hsrc
    refine ⟨1, { st with out := st.out ++ [']'] }, { rest := R, src := S.src + 1, pos := pos }, ?_, ?_, ?_⟩
    · exact ⟨by simp only [hinv.out], by simp, by simp, hinv.last, hinv.build⟩
    · simp only [List.length_cons]; omega
    · intro fuel; exact mainLoop_esc pfuel ']' (Or.inr rfl) R fuel st S.src pos

theorem ident_cases {n : List Char} (h : isIdent n = true) : ∃ a t, n = a :: t ∧ AllId (a :: t) := by
  cases n with
  | nil => simp [isIdent] at h
  | cons a t =>
    refine ⟨a, t, rfl, ?_⟩
    simp only [isIdent, List.isEmpty_cons, Bool.not_false, Bool.true_and, List.all_eq_true] at h
    exact h

theorem allSpace_slot (ws : List (List Char)) (i : Nat) (h : wsOk ws = true) : AllSpace (slot ws i) := by
  unfold slot
  simp only [wsOk, List.all_eq_true] at h
  intro c hc
  by_cases hi : i < ws.length
  · rw [← List.getElem_eq_getD (h := hi)] at hc
    exact h _ (List.getElem_mem hi) c hc
  · simp only [List.getD_eq_getElem?_getD, List.getElem?_eq_none (Nat.le_of_not_lt hi), Option.getD_none] at hc
    exact absurd hc List.not_mem_nil

theorem removeLast_name (n : String) (l : List Open) (o : Open) (os : List Open)
    (h : removeLast n l = some (o, os)) : o.name = n := by
  induction l generalizing o os with
  | nil => simp [removeLast] at h
  | cons x xs ih =>
    unfold removeLast at h
    split at h
    · rename_i f os' hf
      simp only [Option.some.injEq, Prod.mk.injEq] at h
      rw [← h.1]; exact ih _ _ hf
    · split at h
      · rename_i hx
        simp only [Option.some.injEq, Prod.mk.injEq] at h
        rw [← h.1]; simpa using hx
      · simp at h

theorem removeLast_map (n : String) (ms : List Marker) :
    ∀ k, (lastIndexNamed n ms k = none → removeLast n (ms.map toOpen) = none) ∧
      (∀ j, lastIndexNamed n ms k = some j → ∃ i, ∃ h : i < ms.length, j = k + i ∧
        removeLast n (ms.map toOpen) = some (toOpen ms[i], (ms.eraseIdx i).map toOpen)) := by
  induction ms with
  | nil => intro k; simp [lastIndexNamed, removeLast]
  | cons m ms ih =>
    intro k
    have ih' := ih (k + 1)
    constructor
    · intro h
      unfold lastIndexNamed at h
      cases hl : lastIndexNamed n ms (k + 1) with
      | some j => simp [hl] at h
      | none =>
        simp only [hl] at h
        have hm : (m.name == n) = false := by
          cases hm : m.name == n with
          | false => rfl
          | true => simp [hm] at h
        simp [List.map_cons, removeLast, ih'.1 hl, toOpen, hm]
    · intro j h
      unfold lastIndexNamed at h
      cases hl : lastIndexNamed n ms (k + 1) with
      | some j' =>
        simp only [hl, Option.some.injEq] at h
        subst h
        obtain ⟨i, hi, hj, hr⟩ := ih'.2 j' hl
        refine ⟨i + 1, by simp only [List.length_cons]; omega, by omega, ?_⟩
        simp [List.map_cons, removeLast, hr]
      | none =>
        simp only [hl] at h
        cases hm : m.name == n with
        | false => simp [hm] at h
        | true =>
          simp only [hm, if_true, Option.some.injEq] at h
          subst h
          refine ⟨0, by simp, by omega, ?_⟩
          simp [List.map_cons, removeLast, ih'.1 hl, toOpen, hm]

theorem stepSim_opn (pfuel : Nat) (n : List Char) (ws : List (List Char)) (hn : isIdent n = true)
    (hr : isReplName n = false) (hws : wsOk ws = true) : StepSim (pfuel + 1) (.opn n none [] ws) := by
  intro S S' R st s _ hinv hstep
  simp [stepChunk, resolve, resolveProps, trimRule, lookup] at hstep
  have hrepl : isReplacement (String.ofList n) = false := by rw [isReplacement_ofList]; exact hr
  obtain ⟨a, t, rfl, hid⟩ := ident_cases hn
  have hw0 := allSpace_slot ws 0 hws
  have hw1 := allSpace_slot ws 1 hws
  have hrender : renderChunk (.opn (a :: t) none [] ws) ++ R = '[' :: (slot ws 0 ++ (a :: t) ++ slot ws 1 ++ ']' :: R) := by
    simp [renderChunk, renderHead, renderProps]
  have hlen : (renderChunk (.opn (a :: t) none [] ws)).length = 1 + (slot ws 0).length + (a :: t).length + (slot ws 1).length + 1 := by
    simp [renderChunk, renderHead, renderProps]; omega
  obtain ⟨rest, src, pos⟩ := s
  have hrest := hinv.rest
  have hsrc := hinv.src
  rw [hrender] at hrest hsrc
  simp only [startsWithSpace, isSpace_lbracket, Bool.and_false, Bool.false_eq_true, if_false, Nat.add_zero] at hrest hsrc
  subst hrest hsrc
  have hm := marker_open (slot ws 0) a t (slot ws 1) R S.src st.out.length pfuel hw0 hw1 hid
  have hms := markerStep_simple (pfuel + 1) st _ _ _ hm rfl hrepl
  simp only [show (Tag.opn == Tag.selfClose) = false by decide, Bool.and_false, afterTrim, Bool.false_and,
    Bool.false_eq_true, if_false] at hms
  refine ⟨1, _, _, ?_, ?_, fun fuel => mainLoop_marker (pfuel + 1) _ fuel st _ S.src pos _ hms⟩
  · subst hstep
    obtain ⟨opensM, hop, hb⟩ := hinv.build
    refine ⟨hinv.out, by simp, ?_, by simp [isSpace_lbracket], ?_⟩
    · simp only [Bool.false_and, Bool.false_eq_true, if_false, Nat.add_zero, hlen]; omega
    · refine ⟨opensM ++ [{ name := String.ofList (a :: t), position := st.out.length, sourcePosition := S.src, props := [], tag := .opn }], ?_, ?_⟩
      · simp [hop, toOpen, hinv.out]
      · intro more
        rw [List.append_assoc, hb]
        simp [buildAttrs]
  · simp only [List.length_cons, List.length_append]; omega

theorem stepSim_selfClose (pfuel : Nat) (n : List Char) (ws : List (List Char)) (hn : isIdent n = true)
    (hr : isReplName n = false) (hws : wsOk ws = true) : StepSim (pfuel + 1) (.selfClose n none [] ws) := by
  intro S S' R st s _ hinv hstep
  simp [stepChunk, resolve, resolveProps, trimRule, lookup, hr, asMap] at hstep
  have hrepl : isReplacement (String.ofList n) = false := by rw [isReplacement_ofList]; exact hr
  obtain ⟨a, t, rfl, hid⟩ := ident_cases hn
  have hw0 := allSpace_slot ws 0 hws
  have hw1 := allSpace_slot ws 1 hws
  have hw2 := allSpace_slot ws 2 hws
  have hrender : renderChunk (.selfClose (a :: t) none [] ws) ++ R =
      '[' :: (slot ws 0 ++ (a :: t) ++ slot ws 1 ++ '/' :: (slot ws 2 ++ ']' :: R)) := by
    simp [renderChunk, renderHead, renderProps]
  have hlen : (renderChunk (.selfClose (a :: t) none [] ws)).length =
      1 + (slot ws 0).length + (a :: t).length + (slot ws 1).length + 1 + (slot ws 2).length + 1 := by
    simp [renderChunk, renderHead, renderProps]; omega
  obtain ⟨rest, src, pos⟩ := s
  have hrest := hinv.rest
  have hsrc := hinv.src
  rw [hrender] at hrest hsrc
  simp only [startsWithSpace, isSpace_lbracket, Bool.and_false, Bool.false_eq_true, if_false, Nat.add_zero] at hrest hsrc
  subst hrest hsrc
  have hm := marker_selfClose (slot ws 0) a t (slot ws 1) (slot ws 2) R S.src st.out.length pfuel hw0 hw1 hw2 hid
  have hms := markerStep_simple (pfuel + 1) st _ _ _ hm rfl hrepl
  simp only [show (Tag.selfClose == Tag.selfClose) = true by decide, Bool.and_true] at hms
  have htrim : (if S.out = [] ∨ S.lastWs = true then some true else some false) =
      some (st.out.length == 0 || isSpace st.last) := by
    rw [hinv.out, hinv.last]; cases S.out <;> cases S.lastWs <;> simp
  rw [htrim] at hstep
  simp only [Option.bind_some, Option.some.injEq] at hstep
  refine ⟨1, _, _, ?_, ?_, fun fuel => mainLoop_marker (pfuel + 1) _ fuel st _ S.src pos _ hms⟩
  · subst hstep
    obtain ⟨opensM, hop, hb⟩ := hinv.build
    refine ⟨hinv.out, ?_, ?_, by simp [isSpace_lbracket], ?_⟩
    · simp only [afterTrim]; split <;> rfl
    · simp only [afterTrim, hlen]; split <;> simp only [Nat.add_zero] <;> omega
    · refine ⟨opensM, hop, ?_⟩
      intro more
      rw [List.append_assoc, hb]
      simp [buildAttrs, toPropertyMap, hinv.out]
  · simp only [afterTrim]
    split
    · simp only [List.length_cons, List.length_append, List.length_tail]; omega
    · simp only [List.length_cons, List.length_append]; omega

theorem attrOf_eq (o : Marker) (p : Nat) : attrOf o o.name p = closeAttr (toOpen o) p := by
  simp [attrOf, closeAttr, toOpen, toPropertyMap_eq]

theorem stepSim_close (pfuel : Nat) (n : List Char) (ws : List (List Char)) (hn : isIdent n = true)
    (hws : wsOk ws = true) : StepSim pfuel (.close n ws) := by
  intro S S' R st s _ hinv hstep
  simp only [stepChunk, bind, Option.bind] at hstep
  cases hrl : removeLast (String.ofList n) S.opens with
  | none => simp [hrl] at hstep
  | some p =>
    obtain ⟨o, os⟩ := p
    simp only [hrl, pure, Option.some.injEq] at hstep
    obtain ⟨a, t, rfl, hid⟩ := ident_cases hn
    have hw0 := allSpace_slot ws 0 hws
    have hw1 := allSpace_slot ws 1 hws
    have hw2 := allSpace_slot ws 2 hws
    have hrender : renderChunk (.close (a :: t) ws) ++ R =
        '[' :: (slot ws 0 ++ '/' :: (slot ws 1 ++ (a :: t) ++ slot ws 2 ++ ']' :: R)) := by
      simp [renderChunk, renderCloseTag]
    have hlen : (renderChunk (.close (a :: t) ws)).length =
        1 + (slot ws 0).length + 1 + (slot ws 1).length + (a :: t).length + (slot ws 2).length + 1 := by
      simp [renderChunk, renderCloseTag]; omega
    obtain ⟨rest, src, pos⟩ := s
    have hrest := hinv.rest
    have hsrc := hinv.src
    rw [hrender] at hrest hsrc
    simp only [startsWithSpace, isSpace_lbracket, Bool.and_false, Bool.false_eq_true, if_false, Nat.add_zero] at hrest hsrc
    subst hrest hsrc
    have hm := marker_close (slot ws 0) (slot ws 1) a t (slot ws 2) R S.src st.out.length pfuel hw0 hw1 hw2 hid
    have hms := markerStep_close pfuel st _ _ _ hm rfl rfl
    refine ⟨1, _, _, ?_, ?_, fun fuel => mainLoop_marker pfuel _ fuel st _ S.src pos _ hms⟩
    · subst hstep
      obtain ⟨opensM, hop, hb⟩ := hinv.build
      rw [← hop] at hrl
      have hrm := removeLast_map (String.ofList (a :: t)) opensM 0
      cases hli : lastIndexNamed (String.ofList (a :: t)) opensM 0 with
      | none => rw [hrm.1 hli] at hrl; simp at hrl
      | some j =>
        obtain ⟨i, hi, hj, hre⟩ := hrm.2 j hli
        rw [hre] at hrl
        simp only [Option.some.injEq, Prod.mk.injEq] at hrl
        have hji : j = i := by omega
        subst hji
        have hname : opensM[j].name = String.ofList (a :: t) := by
          have := removeLast_name _ _ _ _ hre
          simpa [toOpen] using this
        refine ⟨hinv.out, by simp, ?_, by simp [isSpace_lbracket], ?_⟩
        · simp only [Bool.false_and, Bool.false_eq_true, if_false, Nat.add_zero, hlen]; omega
        · refine ⟨opensM.eraseIdx j, hrl.2, ?_⟩
          intro more
          rw [List.append_assoc, hb]
          simp only [List.singleton_append, buildAttrs, hli, List.getElem?_eq_getElem hi]
          rw [← hname, attrOf_eq, hrl.1, hinv.out]
    · simp only [List.length_cons, List.length_append]; omega

theorem stepSim_closeAll (pfuel : Nat) (ws : List (List Char)) (hws : wsOk ws = true) : StepSim pfuel (.closeAll ws) := by
  intro S S' R st s _ hinv hstep
  simp only [stepChunk, pure, Option.some.injEq] at hstep
  have hw0 := allSpace_slot ws 0 hws
  have hw1 := allSpace_slot ws 1 hws
  have hrender : renderChunk (.closeAll ws) ++ R = '[' :: (slot ws 0 ++ '/' :: (slot ws 1 ++ ']' :: R)) := by
    simp [renderChunk, renderCloseTag]
  have hlen : (renderChunk (.closeAll ws)).length = 1 + (slot ws 0).length + 1 + (slot ws 1).length + 1 := by
    simp [renderChunk, renderCloseTag]; omega
  obtain ⟨rest, src, pos⟩ := s
  have hrest := hinv.rest
  have hsrc := hinv.src
  rw [hrender] at hrest hsrc
  simp only [startsWithSpace, isSpace_lbracket, Bool.and_false, Bool.false_eq_true, if_false, Nat.add_zero] at hrest hsrc
  subst hrest hsrc
  have hm := marker_closeAll (slot ws 0) (slot ws 1) R S.src st.out.length pfuel hw0 hw1
  have hms := markerStep_simple pfuel st _ _ _ hm rfl (show isReplacement "" = false by decide)
  simp only [show (Tag.closeAll == Tag.selfClose) = false by decide, Bool.and_false, afterTrim, Bool.false_and,
    Bool.false_eq_true, if_false] at hms
  refine ⟨1, _, _, ?_, ?_, fun fuel => mainLoop_marker pfuel _ fuel st _ S.src pos _ hms⟩
  · subst hstep
    obtain ⟨opensM, hop, hb⟩ := hinv.build
    refine ⟨hinv.out, by simp, ?_, by simp [isSpace_lbracket], ?_⟩
    · simp only [Bool.false_and, Bool.false_eq_true, if_false, Nat.add_zero, hlen]; omega
    · refine ⟨[], rfl, ?_⟩
      intro more
      rw [List.append_assoc, hb]
      simp only [List.singleton_append, buildAttrs, ← hop, List.map_map, hinv.out]
      congr 2
      apply List.map_congr_left
      intro o _
      exact attrOf_eq o _
  · simp only [List.length_cons, List.length_append]; omega

/-! ## The fold over the chunk list -/

/-- the chunk kinds of theorem `parse_render_core`: text, escaped brackets, and markers without properties whose name has
no processor, each well-formed in the sense of the specification -/
def isCore (c : Chunk) : Bool :=
  chunkOk c && (match c with
    | .text _ | .escOpen | .escClose | .closeAll _ => true
    | .opn _ none [] _ => true
    | .selfClose n none [] _ => !isReplName n
    | .close n _ => !isReplName n
    | _ => false)

theorem stepSim_core (pfuel : Nat) (c : Chunk) (h : isCore c = true) : StepSim (pfuel + 1) c := by
  unfold isCore at h
  cases c with
  | text t =>
    apply stepSim_text
    simp only [chunkOk, Bool.and_true, List.all_eq_true, Bool.and_eq_true, decide_eq_true_eq] at h
    exact h
  | escOpen => exact stepSim_esc _ _ (Or.inl rfl)
  | escClose => exact stepSim_esc _ _ (Or.inr rfl)
  | opn n sh ps ws =>
    cases sh with
    | some v => simp at h
    | none =>
      cases ps with
      | cons p r => simp at h
      | nil =>
        simp only [chunkOk, headOk, Bool.and_true, Bool.and_eq_true, Bool.not_eq_true', Option.map_none,
          Option.getD_none, List.all_nil] at h
        exact stepSim_opn pfuel n ws h.1.1 h.2 h.1.2
  | selfClose n sh ps ws =>
    cases sh with
    | some v => simp at h
    | none =>
      cases ps with
      | cons p r => simp at h
      | nil =>
        simp only [chunkOk, headOk, Bool.and_true, Bool.and_eq_true, Bool.not_eq_true', Option.map_none,
          Option.getD_none, List.all_nil] at h
        exact stepSim_selfClose pfuel n ws h.1.1 h.2 h.1.2
  | close n ws =>
    simp only [chunkOk, Bool.and_eq_true, Bool.not_eq_true'] at h
    exact stepSim_close (pfuel + 1) n ws h.1.1 h.1.2
  | closeAll ws =>
    simp only [chunkOk, Bool.and_true] at h
    exact stepSim_closeAll (pfuel + 1) ws h
  | repl n sh ps ws raw byName cws => simp at h

theorem render_cons (c : Chunk) (cs : List Chunk) : render (c :: cs) = renderChunk c ++ render cs := by
  simp [render]

/-- the main loop simulates the fold of `stepChunk` over a list of chunks each of which is simulated -/
theorem sim_fold_gen (pfuel : Nat) : ∀ (cs : List Chunk) (S S' : St) (st : LoopSt) (s : PS),
    (∀ c ∈ cs, StepSim pfuel c) → s.rest.length < pfuel → Inv S (render cs) st s → cs.foldlM stepChunk S = some S' →
    ∃ (n : Nat) (st' : LoopSt) (s' : PS), Inv S' [] st' s' ∧ n ≤ s.rest.length ∧
      ∀ fuel, mainLoop pfuel (fuel + 1 + n) st s = .ok st' s' := by
  intro cs
  induction cs with
  | nil =>
    intro S S' st s _ _ hinv hfold
    simp only [List.foldlM_nil, pure, Option.some.injEq] at hfold
    subst hfold
    refine ⟨0, st, s, by simpa [render] using hinv, by omega, ?_⟩
    intro fuel
    have hr := hinv.rest
    simp only [render, List.flatMap_nil, List.tail_nil, ite_self] at hr
    simp only [mainLoop, bind, P.bind, readRune, hr, pure, P.pure]
  | cons c cs ih =>
    intro S S' st s hsim hp hinv hfold
    simp only [List.foldlM_cons, bind, Option.bind] at hfold
    cases hstep : stepChunk S c with
    | none => simp [hstep] at hfold
    | some S1 =>
      simp only [hstep] at hfold
      rw [render_cons] at hinv
      obtain ⟨n1, st1, s1, hinv1, hlen1, hrun1⟩ :=
        hsim c List.mem_cons_self S S1 (render cs) st s hp hinv hstep
      obtain ⟨n2, st2, s2, hinv2, hlen2, hrun2⟩ :=
        ih S1 S' st1 s1 (fun d hd => hsim d (List.mem_cons_of_mem _ hd)) (by omega) hinv1 hfold
      refine ⟨n2 + n1, st2, s2, hinv2, by omega, ?_⟩
      intro fuel
      rw [show fuel + 1 + (n2 + n1) = (fuel + 1 + n2) + n1 by omega, hrun1, hrun2]

/-- the main loop simulates the fold of `stepChunk` over a list of core chunks -/
theorem sim_fold (pfuel : Nat) (cs : List Chunk) (S S' : St) (st : LoopSt) (s : PS)
    (hc : ∀ c ∈ cs, isCore c = true) (hp : s.rest.length < pfuel + 1) (hinv : Inv S (render cs) st s)
    (hfold : cs.foldlM stepChunk S = some S') :
    ∃ (n : Nat) (st' : LoopSt) (s' : PS), Inv S' [] st' s' ∧ n ≤ s.rest.length ∧
      ∀ fuel, mainLoop (pfuel + 1) (fuel + 1 + n) st s = .ok st' s' :=
  sim_fold_gen (pfuel + 1) cs S S' st s (fun c h => stepSim_core pfuel c (hc c h)) hp hinv hfold

end Ysgo.Markup
