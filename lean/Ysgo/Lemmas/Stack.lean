import Ysgo.Model.Stack
import Ysgo.Spec.Fifo
/-!
# Lemmas for C20.2: the slice stack refines the list (`abs s = s.reverse`, newest first)
-/
namespace Ysgo.Stack
open Ysgo.Container

variable {α : Type} [Inhabited α]

/-- the abstraction: newest element first -/
def abs (s : Stack α) : List α := s.reverse

omit [Inhabited α] in
theorem eq_nil_or_concat (s : List α) : s = [] ∨ ∃ t a, s = t ++ [a] := by
  induction s with
  | nil => exact .inl rfl
  | cons b s ih =>
    rcases ih with rfl | ⟨t, a, rfl⟩
    · exact .inr ⟨[], b, rfl⟩
    · exact .inr ⟨b :: t, a, rfl⟩

theorem getD_concat_last (t : List α) (a : α) : (t ++ [a]).getD ((t ++ [a]).length - 1) default = a := by
  simp [List.getD]

omit [Inhabited α] in
theorem take_concat_last (t : List α) (a : α) : (t ++ [a]).take ((t ++ [a]).length - 1) = t := by
  simp

theorem pop_abs (s : Stack α) :
    match pop s with
    | .panic => abs s = []
    | .ok (r, s') => abs s = r :: abs s' := by
  rcases eq_nil_or_concat s with rfl | ⟨t, a, rfl⟩
  · simp [pop, abs]
  · have h0 : (t ++ [a]).length ≠ 0 := by simp
    simp only [pop, h0, ↓reduceIte, getD_concat_last, take_concat_last]
    simp [abs]

theorem peek_abs (s : Stack α) :
    match peek s with
    | .panic => abs s = []
    | .ok r => ∃ t, abs s = r :: t := by
  rcases eq_nil_or_concat s with rfl | ⟨t, a, rfl⟩
  · simp [peek, abs]
  · have h0 : (t ++ [a]).length ≠ 0 := by simp
    simp only [peek, h0, ↓reduceIte, getD_concat_last]
    exact ⟨t.reverse, by simp [abs]⟩

/-- one operation on the slice = the same operation on the list -/
theorem step_sim (s : Stack α) (op : Op α) :
    (step s op).1 = (Lifo.step (abs s) op).1 ∧ abs (step s op).2 = (Lifo.step (abs s) op).2 := by
  cases op with
  | push x => simp [step, Lifo.step, push, abs]
  | pushAll xs => simp [step, Lifo.step, pushAll, abs]
  | pop =>
    have hd := pop_abs s
    cases hq : pop s with
    | panic =>
      rw [hq] at hd
      simp only at hd
      simp [step, Lifo.step, hq, hd]
    | ok p =>
      obtain ⟨r, s1⟩ := p
      rw [hq] at hd
      simp only at hd
      simp [step, Lifo.step, hq, hd]
  | peek =>
    have hp := peek_abs s
    cases hq : peek s with
    | panic =>
      rw [hq] at hp
      simp only at hp
      simp [step, Lifo.step, hq, hp]
    | ok r =>
      rw [hq] at hp
      obtain ⟨t, ht⟩ := hp
      simp [step, Lifo.step, hq, ht]
  | size => simp [step, Lifo.step, size, abs]
  | clear => simp [step, Lifo.step, clear, abs]

omit [Inhabited α] in
theorem size_abs (s : Stack α) : size s = (abs s).length := by simp [size, abs]

theorem run_sim (ops : List (Op α)) : ∀ s : Stack α, run s ops = Lifo.run (abs s) ops := by
  induction ops with
  | nil => intro s; rfl
  | cons op ops ih =>
    intro s
    obtain ⟨h1, h2⟩ := step_sim s op
    simp only [run, Lifo.run]
    rw [ih, h1, ← h2, size_abs]

end Ysgo.Stack
