import Ysgo.Lemmas.ListenerUpd
/-! stack operations of the listener on a live state, in terms of the named updates -/
namespace Ysgo.Listener

theorem pushS_alive (cb : StmtCb) (σ : State) (ha : σ.alive = true) :
    pushS cb σ = .ok (σ.withS (cb :: σ.statementCallbacks)) := by
  unfold pushS; rw [if_pos ha]; rfl
theorem pushL_alive (cb : LineCb) (σ : State) (ha : σ.alive = true) :
    pushL cb σ = .ok (σ.withL (cb :: σ.lineStatementCallbacks)) := by
  unfold pushL; rw [if_pos ha]; rfl
theorem pushC_alive (cb : ClauseCb) (σ : State) (ha : σ.alive = true) :
    pushC cb σ = .ok (σ.withC (cb :: σ.clauseCallbacks)) := by
  unfold pushC; rw [if_pos ha]; rfl

theorem popE_cons (σ : State) (cb : ExprCb) (r : List ExprCb) (ha : σ.alive = true)
    (h : σ.expressionCallbacks = cb :: r) : popE σ = .ok (σ.withE r) := by
  unfold popE; rw [if_pos ha, h]; rfl
theorem popS_cons (σ : State) (cb : StmtCb) (r : List StmtCb) (ha : σ.alive = true)
    (h : σ.statementCallbacks = cb :: r) : popS σ = .ok (σ.withS r) := by
  unfold popS; rw [if_pos ha, h]; rfl
theorem popL_cons (σ : State) (cb : LineCb) (r : List LineCb) (ha : σ.alive = true)
    (h : σ.lineStatementCallbacks = cb :: r) : popL σ = .ok (σ.withL r) := by
  unfold popL; rw [if_pos ha, h]; rfl
theorem popC_cons (σ : State) (cb : ClauseCb) (r : List ClauseCb) (ha : σ.alive = true)
    (h : σ.clauseCallbacks = cb :: r) : popC σ = .ok (σ.withC r) := by
  unfold popC; rw [if_pos ha, h]; rfl

end Ysgo.Listener
