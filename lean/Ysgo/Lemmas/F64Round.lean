import Ysgo.Lemmas.F64Basic
/-!
# F64 lemma library, part 2 (core only): `roundDyadic` is exact on representable values

`roundDyadic_exact`: a value `±n·2^t·2^e` with `n < 2^53`, `e + t ≥ -1074` and no overflow is returned unchanged
(as `n·2^u · 2^(e+t-u)`); corollaries: `ofInt` of `|i| < 2^53`.
-/
namespace Ysgo
namespace F64

theorem rne_mul (a D : Nat) (hD : 0 < D) : rne (a * D) D = a := by
  unfold rne
  have h1 : a * D / D = a := Nat.mul_div_cancel a hD
  have h2 : a * D % D = 0 := Nat.mul_mod_left a D
  simp only [h1, h2]
  simp [hD]

theorem log2_mul_pow (n s : Nat) (hn : n ≠ 0) : Nat.log2 (n * 2 ^ s) = Nat.log2 n + s := by
  have hpos : n * 2 ^ s ≠ 0 := Nat.mul_ne_zero hn (Nat.pos_iff_ne_zero.mp (Nat.pow_pos (by omega)))
  have h1 : 2 ^ Nat.log2 n ≤ n := Nat.log2_self_le hn
  have h2 : n < 2 ^ (Nat.log2 n + 1) := Nat.lt_log2_self
  apply Nat.le_antisymm
  · have : Nat.log2 (n * 2 ^ s) < Nat.log2 n + s + 1 := by
      rw [Nat.log2_lt hpos]
      calc n * 2 ^ s < 2 ^ (Nat.log2 n + 1) * 2 ^ s := Nat.mul_lt_mul_of_pos_right h2 (Nat.pow_pos (by omega))
        _ = 2 ^ (Nat.log2 n + s + 1) := by rw [← Nat.pow_add]; congr 1; omega
    omega
  · rw [Nat.le_log2 hpos]
    calc 2 ^ (Nat.log2 n + s) = 2 ^ Nat.log2 n * 2 ^ s := Nat.pow_add _ _ _
      _ ≤ n * 2 ^ s := Nat.mul_le_mul_right _ h1

theorem log2_le_52 {n : Nat} (h : n < P53) : Nat.log2 n ≤ 52 := by
  by_cases hn : n = 0
  · subst hn; simp [Nat.log2_zero]
  have hk1 : 2 ^ Nat.log2 n ≤ n := Nat.log2_self_le hn
  rcases Nat.lt_or_ge 52 (Nat.log2 n) with h' | h'
  · have : 2 ^ 53 ≤ 2 ^ Nat.log2 n := Nat.pow_le_pow_right (by omega) h'
    rw [pow53] at this; omega
  · exact h'

/-- the alignment step of `roundDyadic` is exact when the target exponent does not exceed that of the odd part -/
theorem align_exact (n t : Nat) (e e' : Int) (h : e' ≤ e + t) :
    (if e ≥ e' then n * 2 ^ t * 2 ^ (e - e').toNat else rne (n * 2 ^ t) (2 ^ (e' - e).toNat))
      = n * 2 ^ (e + t - e').toNat := by
  split
  · rename_i hc
    rw [Nat.mul_assoc, ← Nat.pow_add]
    congr 2; omega
  · rename_i hc
    have : n * 2 ^ t = n * 2 ^ (e + t - e').toNat * 2 ^ (e' - e).toNat := by
      rw [Nat.mul_assoc, ← Nat.pow_add]; congr 2; omega
    rw [this]
    exact rne_mul _ _ (Nat.pow_pos (by omega))

/-- **Exactness of the rounding function.** `±(n·2^t)·2^e` with `n < 2^53`, exponent of the `n`-form at least -1074,
and below the overflow threshold, is returned exactly: the result decodes to `±(n·2^u)·2^(e+t-u)`, normalised. -/
theorem roundDyadic_exact (neg : Bool) (n t : Nat) (e : Int) (hn : 0 < n) (h : n < P53)
    (hlo : -1074 ≤ e + t) (hhi : e + t + (Nat.log2 n : Int) < 1024) :
    ∃ u : Nat, decode (roundDyadic neg (n * 2 ^ t) e) = .fin neg (n * 2 ^ u) (e + t - u)
      ∧ n * 2 ^ u < P53 ∧ (P52 ≤ n * 2 ^ u ∨ e + t - (u : Int) = -1074) := by
  have hn0 : n ≠ 0 := by omega
  have hj1 : 2 ^ Nat.log2 n ≤ n := Nat.log2_self_le hn0
  have hj2 : n < 2 ^ (Nat.log2 n + 1) := Nat.lt_log2_self
  have hj : Nat.log2 n ≤ 52 := log2_le_52 h
  unfold roundDyadic
  rw [log2_mul_pow n t hn0]
  generalize hjj : Nat.log2 n = j at *
  by_cases hc : -1074 ≤ e + t + (j : Int) - 52
  · -- normal result: u = 52 - j
    have he' : max (e + ((j + t : Nat) : Int) - 52) (-1074) = e + t + (j : Int) - 52 := by
      push_cast; omega
    simp only [he']
    rw [align_exact n t e _ (by omega)]
    have hu : (e + (t : Int) - (e + t + (j : Int) - 52)).toNat = 52 - j := by omega
    rw [hu]
    have hm1 : P52 ≤ n * 2 ^ (52 - j) := by
      calc P52 = 2 ^ j * 2 ^ (52 - j) := by
                rw [← Nat.pow_add, show j + (52 - j) = 52 by omega, pow52]
        _ ≤ n * 2 ^ (52 - j) := Nat.mul_le_mul_right _ hj1
    have hm2 : n * 2 ^ (52 - j) < P53 := by
      calc n * 2 ^ (52 - j) < 2 ^ (j + 1) * 2 ^ (52 - j) :=
                Nat.mul_lt_mul_of_pos_right hj2 (Nat.pow_pos (by omega))
        _ = P53 := by rw [← Nat.pow_add, show j + 1 + (52 - j) = 53 by omega, pow53]
    refine ⟨52 - j, ?_, hm2, Or.inl hm1⟩
    generalize n * 2 ^ (52 - j) = M at *
    have hne : ¬ (M = P53) := by omega
    have hnl : ¬ (M < P52) := by omega
    simp only [hne, ↓reduceIte, hnl]
    have hexp : ¬ (e + t + (j : Int) - 52 + 1075 ≥ 2047) := by omega
    simp only [hexp, ↓reduceIte]
    rw [decode_pack_norm neg _ _ (by omega) (by omega) (by unfold P52 P53 at *; omega)]
    have e1 : M - P52 + P52 = M := Nat.sub_add_cancel hm1
    rw [e1]
    congr 1
    omega
  · -- subnormal result: exponent -1074, u = e + t + 1074
    have he' : max (e + ((j + t : Nat) : Int) - 52) (-1074) = -1074 := by
      push_cast; omega
    simp only [he']
    rw [align_exact n t e _ (by omega)]
    generalize hu : (e + (t : Int) - (-1074)).toNat = u
    have hm2 : n * 2 ^ u < P52 := by
      calc n * 2 ^ u < 2 ^ (j + 1) * 2 ^ u :=
                Nat.mul_lt_mul_of_pos_right hj2 (Nat.pow_pos (by omega))
        _ = 2 ^ (j + 1 + u) := by rw [← Nat.pow_add]
        _ ≤ 2 ^ 52 := Nat.pow_le_pow_right (by omega) (by omega)
        _ = P52 := pow52
    refine ⟨u, ?_, by unfold P52 P53 at *; omega, Or.inr (by omega)⟩
    generalize n * 2 ^ u = M at *
    have hne : ¬ (M = P53) := by unfold P52 P53 at *; omega
    simp only [hne, ↓reduceIte, hm2]
    rw [decode_pack_sub neg _ hm2]
    congr 1
    omega

/-- every integer of magnitude below 2^53 converts exactly -/
theorem decode_ofInt_small (i : Int) (hi : i ≠ 0) (h : i.natAbs < P53) :
    ∃ u : Nat, u ≤ 52 ∧ decode (ofInt i) = .fin (decide (i < 0)) (i.natAbs * 2 ^ u) (-(u : Int))
      ∧ i.natAbs * 2 ^ u < P53 := by
  unfold ofInt
  rw [if_neg hi]
  have hl := log2_le_52 h
  obtain ⟨u, hu, hlt, hnorm⟩ := roundDyadic_exact (decide (i < 0)) i.natAbs 0 0 (by omega) h (by omega) (by omega)
  simp only [Nat.pow_zero, Nat.mul_one] at hu
  have hu52 : u ≤ 52 := by
    rcases Nat.lt_or_ge 52 u with h' | h'
    · have h2 : 2 ^ 53 ≤ 2 ^ u := Nat.pow_le_pow_right (by omega) h'
      rw [pow53] at h2
      have h3 : 1 * 2 ^ u ≤ i.natAbs * 2 ^ u := Nat.mul_le_mul_right _ (by omega)
      omega
    · exact h'
  refine ⟨u, hu52, ?_, hlt⟩
  rw [hu]
  congr 1
  omega

end F64
end Ysgo
