import Ysgo.Lemmas.ListenerIds3
/-!
# Identities in the listener state

`Bounded σ n`: every object identity that occurs anywhere in the state — in the data under construction, as the target
of a callback on a stack or in a slot — is below `n`. With `n = σ.next` this is the freshness invariant of the walk:
`alloc` returns an identity nothing refers to yet. The three facts of `ListenerIds.lean` lifted to states.
-/
namespace Ysgo.Listener

def PNode.ids (n : PNode) : List Nat := PStmt.idsList n.stmts

def ExprCb.ids : ExprCb → List Nat
  | .lineElem k => [k]
  | .fnArg k => [k]
  | .binR _ c l => c :: l.ids
  | .binL c => [c]
  | .setE _ c _ => [c]
  | .clauseCond k => [k]
  | .cmdElem k => [k]
  | .declValue k => [k]
  | _ => []

def StmtCb.ids : StmtCb → List Nat
  | .nodeStmt => []
  | .optStmt k => [k]
  | .clauseStmt k => [k]

def LineCb.ids : LineCb → List Nat
  | .nodeLine => []
  | .optLine k => [k]
  | .clauseLine k => [k]

def ClauseCb.ids : ClauseCb → List Nat
  | .ifClause k => [k]

def VarCb.ids : VarCb → List Nat
  | .setVar c => [c]
  | .declVar k => [k]

/-- all identities of `l` are below `n` -/
def Below (n : Nat) (l : List Nat) : Prop := ∀ i ∈ l, i < n

theorem Below.mono {n n' : Nat} {l : List Nat} (h : Below n l) (hn : n ≤ n') : Below n' l :=
  fun i hi => Nat.lt_of_lt_of_le (h i hi) hn

theorem Below.not_mem {n k : Nat} {l : List Nat} (h : Below n l) (hk : n ≤ k) : k ∉ l :=
  fun hm => Nat.lt_irrefl k (Nat.lt_of_lt_of_le (h k hm) hk)

theorem Below.nil (n : Nat) : Below n [] := fun _ h => by simp at h

theorem Below.append {n : Nat} {a b : List Nat} (ha : Below n a) (hb : Below n b) : Below n (a ++ b) := by
  intro i hi
  rcases List.mem_append.1 hi with h | h
  · exact ha i h
  · exact hb i h

theorem Below.left {n : Nat} {a b : List Nat} (h : Below n (a ++ b)) : Below n a :=
  fun i hi => h i (List.mem_append.2 (Or.inl hi))

theorem Below.right {n : Nat} {a b : List Nat} (h : Below n (a ++ b)) : Below n b :=
  fun i hi => h i (List.mem_append.2 (Or.inr hi))

theorem Below.cons {n k : Nat} {a : List Nat} (hk : k < n) (ha : Below n a) : Below n (k :: a) := by
  intro i hi
  rcases List.mem_cons.1 hi with h | h
  · exact h ▸ hk
  · exact ha i h

theorem Below.head {n k : Nat} {a : List Nat} (h : Below n (k :: a)) : k < n := h k (by simp)
theorem Below.tail {n k : Nat} {a : List Nat} (h : Below n (k :: a)) : Below n a := fun i hi => h i (by simp [hi])

structure Bounded (σ : State) (n : Nat) : Prop where
  nodes : ∀ x ∈ σ.nodes, Below n x.ids
  node : Below n (optIds PNode.ids σ.node)
  line : Below n (optIds PLine.ids σ.lineStatement)
  groups : ∀ g ∈ σ.shortcutOptionStatements, Below n (POpt.idsList g)
  options : Below n (POpt.idsList σ.shortcutOptions)
  stmtCbs : ∀ cb ∈ σ.statementCallbacks, Below n cb.ids
  exprCbs : ∀ cb ∈ σ.expressionCallbacks, Below n cb.ids
  lineCbs : ∀ cb ∈ σ.lineStatementCallbacks, Below n cb.ids
  clauseCbs : ∀ cb ∈ σ.clauseCallbacks, Below n cb.ids
  textCb : ∀ k, σ.textCallback = some k → k < n
  varCb : Below n (optIds VarCb.ids σ.variableCallback)
  cmdTextCb : ∀ k, σ.commandTextCallback = some k → k < n
  proto : ∀ k, σ.protoCommandStatement = some k → k < n

theorem Bounded.mono {σ : State} {n n' : Nat} (h : Bounded σ n) (hn : n ≤ n') : Bounded σ n' where
  nodes := fun x hx => (h.nodes x hx).mono hn
  node := h.node.mono hn
  line := h.line.mono hn
  groups := fun g hg => (h.groups g hg).mono hn
  options := h.options.mono hn
  stmtCbs := fun x hx => (h.stmtCbs x hx).mono hn
  exprCbs := fun x hx => (h.exprCbs x hx).mono hn
  lineCbs := fun x hx => (h.lineCbs x hx).mono hn
  clauseCbs := fun x hx => (h.clauseCbs x hx).mono hn
  textCb := fun k hk => Nat.lt_of_lt_of_le (h.textCb k hk) hn
  varCb := h.varCb.mono hn
  cmdTextCb := fun k hk => Nat.lt_of_lt_of_le (h.cmdTextCb k hk) hn
  proto := fun k hk => Nat.lt_of_lt_of_le (h.proto k hk) hn

/-! ## L1 -/

theorem PNode.modify_of_not_mem (k : Nat) (m : Mut) (x : PNode) (h : k ∉ x.ids) : x.modify k m = x := by
  simp [PNode.modify, PStmt.modifyList_of_not_mem k m x.stmts h]

theorem ExprCb.modify_of_not_mem (k : Nat) (m : Mut) (cb : ExprCb) (h : k ∉ cb.ids) : cb.modify k m = cb := by
  cases cb <;> simp [ExprCb.modify]
  simp only [ExprCb.ids, List.mem_cons, not_or] at h
  exact PExpr.modify_of_not_mem k m _ h.2

theorem map_eq_self {α} (f : α → α) (l : List α) (h : ∀ x ∈ l, f x = x) : l.map f = l := by
  induction l with
  | nil => rfl
  | cons x xs ih => simp [h x (by simp), ih (fun y hy => h y (by simp [hy]))]

theorem State.modify_of_bounded {σ : State} {n k : Nat} (m : Mut) (hb : Bounded σ n) (hk : n ≤ k) : σ.modify k m = σ := by
  have h1 : σ.nodes.map (PNode.modify k m) = σ.nodes :=
    map_eq_self _ _ fun x hx => PNode.modify_of_not_mem k m x ((hb.nodes x hx).not_mem hk)
  have h2 : σ.node.map (PNode.modify k m) = σ.node :=
    optMap_of_not_mem PNode.ids _ k (PNode.modify_of_not_mem k m) _ (hb.node.not_mem hk)
  have h3 : σ.lineStatement.map (PLine.modify k m) = σ.lineStatement :=
    optLine_modify_of_not_mem k m _ (hb.line.not_mem hk)
  have h4 : σ.shortcutOptionStatements.map (POpt.modifyList k m) = σ.shortcutOptionStatements :=
    map_eq_self _ _ fun g hg => POpt.modifyList_of_not_mem k m g ((hb.groups g hg).not_mem hk)
  have h5 : POpt.modifyList k m σ.shortcutOptions = σ.shortcutOptions :=
    POpt.modifyList_of_not_mem k m _ (hb.options.not_mem hk)
  have h6 : σ.expressionCallbacks.map (ExprCb.modify k m) = σ.expressionCallbacks :=
    map_eq_self _ _ fun cb hcb => ExprCb.modify_of_not_mem k m cb ((hb.exprCbs cb hcb).not_mem hk)
  simp [State.modify, h1, h2, h3, h4, h5, h6]

/-! ## L2 -/

theorem PNode.modify_modify (k k' : Nat) (m m' : Mut) (hk : k ≠ k') (hm : m'.isInsert = true) (x : PNode)
    (h : k ∉ x.ids) : (x.modify k' m').modify k m = x.modify k' (m'.mod k m) := by
  simp [PNode.modify, PStmt.modifyList_modifyList k k' m m' hk hm x.stmts h]

theorem ExprCb.modify_modify (k k' : Nat) (m m' : Mut) (hk : k ≠ k') (cb : ExprCb) (h : k ∉ cb.ids) :
    (cb.modify k' m').modify k m = cb.modify k' (m'.mod k m) := by
  cases cb <;> simp [ExprCb.modify]
  simp only [ExprCb.ids, List.mem_cons, not_or] at h
  exact PExpr.modify_modify k k' m m' hk _ h.2

theorem map_map_eq {α} (f g h : α → α) (l : List α) (hh : ∀ x ∈ l, f (g x) = h x) : (l.map g).map f = l.map h := by
  induction l with
  | nil => rfl
  | cons x xs ih => simp [hh x (by simp), ih (fun y hy => hh y (by simp [hy]))]

theorem State.modify_modify {σ : State} {n k k' : Nat} (m m' : Mut) (hb : Bounded σ n) (hk : n ≤ k) (hkk : k ≠ k')
    (hm : m'.isInsert = true) : (σ.modify k' m').modify k m = σ.modify k' (m'.mod k m) := by
  have h1 : (σ.nodes.map (PNode.modify k' m')).map (PNode.modify k m) = σ.nodes.map (PNode.modify k' (m'.mod k m)) :=
    map_map_eq _ _ _ _ fun x hx => PNode.modify_modify k k' m m' hkk hm x ((hb.nodes x hx).not_mem hk)
  have h2 : (σ.node.map (PNode.modify k' m')).map (PNode.modify k m) = σ.node.map (PNode.modify k' (m'.mod k m)) :=
    optMap_modify_modify PNode.ids _ _ _ k (PNode.modify_modify k k' m m' hkk hm) _ (hb.node.not_mem hk)
  have h3 := optLine_modify_modify k k' m m' hkk hm σ.lineStatement (hb.line.not_mem hk)
  have h4 : (σ.shortcutOptionStatements.map (POpt.modifyList k' m')).map (POpt.modifyList k m)
      = σ.shortcutOptionStatements.map (POpt.modifyList k' (m'.mod k m)) :=
    map_map_eq _ _ _ _ fun g hg => POpt.modifyList_modifyList k k' m m' hkk hm g ((hb.groups g hg).not_mem hk)
  have h5 := POpt.modifyList_modifyList k k' m m' hkk hm σ.shortcutOptions (hb.options.not_mem hk)
  have h6 : (σ.expressionCallbacks.map (ExprCb.modify k' m')).map (ExprCb.modify k m)
      = σ.expressionCallbacks.map (ExprCb.modify k' (m'.mod k m)) :=
    map_map_eq _ _ _ _ fun cb hcb => ExprCb.modify_modify k k' m m' hkk cb ((hb.exprCbs cb hcb).not_mem hk)
  simp only [State.modify, h1, h2, h3, h4, h5, h6]

/-! ## L3 -/

theorem below_of_sub {n : Nat} {a b c : List Nat} (h : ∀ i, i ∈ a → i ∈ b ∨ i ∈ c) (hb : Below n b) (hc : Below n c) :
    Below n a := by
  intro i hi
  rcases h i hi with h | h
  · exact hb i h
  · exact hc i h

theorem ExprCb.ids_modify (k' : Nat) (m' : Mut) (cb : ExprCb) (i : Nat) (h : i ∈ (cb.modify k' m').ids) :
    i ∈ cb.ids ∨ i ∈ m'.ids := by
  cases cb <;> simp only [ExprCb.modify] at h <;> try exact Or.inl h
  simp only [ExprCb.ids, List.mem_cons] at h ⊢
  rcases h with h | h
  · exact Or.inl (Or.inl h)
  · rcases PExpr.ids_modify k' m' _ i h with h | h
    · exact Or.inl (Or.inr h)
    · exact Or.inr h

theorem Bounded.modify {σ : State} {n : Nat} (k' : Nat) (m' : Mut) (hb : Bounded σ n) (hm : m'.isInsert = true)
    (hp : Below n m'.ids) : Bounded (σ.modify k' m') n where
  nodes := by
    intro x hx
    simp only [State.modify, List.mem_map] at hx
    obtain ⟨y, hy, rfl⟩ := hx
    exact below_of_sub (PStmt.idsList_modifyList k' m' hm y.stmts) (hb.nodes y hy) hp
  node := by
    cases hn : σ.node with
    | none => simp [State.modify, hn, optIds, Below.nil]
    | some y =>
      have := hb.node
      simp only [hn, optIds] at this
      simp only [State.modify, hn, Option.map, optIds]
      exact below_of_sub (PStmt.idsList_modifyList k' m' hm y.stmts) this hp
  line := below_of_sub (optLine_ids_modify k' m' hm σ.lineStatement) hb.line hp
  groups := by
    intro g hg
    simp only [State.modify, List.mem_map] at hg
    obtain ⟨y, hy, rfl⟩ := hg
    exact below_of_sub (POpt.idsList_modifyList k' m' hm y) (hb.groups y hy) hp
  options := below_of_sub (POpt.idsList_modifyList k' m' hm σ.shortcutOptions) hb.options hp
  stmtCbs := hb.stmtCbs
  exprCbs := by
    intro cb hcb
    simp only [State.modify, List.mem_map] at hcb
    obtain ⟨y, hy, rfl⟩ := hcb
    exact below_of_sub (ExprCb.ids_modify k' m' y) (hb.exprCbs y hy) hp
  lineCbs := hb.lineCbs
  clauseCbs := hb.clauseCbs
  textCb := hb.textCb
  varCb := hb.varCb
  cmdTextCb := hb.cmdTextCb
  proto := hb.proto

end Ysgo.Listener
