import Ysgo.Model.LineLex
import Ysgo.Lemmas.ExprSyntaxLex
/-! # LineLex: the scanner on rendered line descriptions (helper lemmas for C04.4) -/
namespace Ysgo
namespace LineLex
open ExprSyntax

/-- `HASHTAG_TEXT`: non-empty, no blank, tab, line end, `#`, `$`, `<` -/
def TagOk (t : Str) : Prop := t ≠ [] ∧ t.all isTagChar = true

/-- an unescaped character is plain text at its position: not `\`, `#`, `{` (nor a line end), and `<` / `/` are not
    doubled (`next` is the character written after it) -/
def okPlain (c : Char) (next : Option Char) : Prop :=
  c ≠ '\\' ∧ c ≠ '#' ∧ c ≠ '{' ∧ c ≠ '\n' ∧ c ≠ '\r' ∧ (c = '<' → next ≠ some '<') ∧ (c = '/' → next ≠ some '/')

/-- the pieces are legal in front of the text `T` -/
def ItemsOk (T : List Char) : List Item → Prop
  | [] => True
  | .ch c true :: r => escapable c = true ∧ ItemsOk T r
  | .ch c false :: r => okPlain c (renderItems r ++ T).head? ∧ ItemsOk T r
  | .bracket _ :: r => ItemsOk T r
  | .expr ws e :: r =>
    WOk ('}' :: (renderItems r ++ T)) ws ∧ parseExpr (ws.map (·.tok)) = some e ∧ ItemsOk T r

theorem skipWs_nonws (c : Char) (cs : List Char) (h : isWs c = false) : skipWs (c :: cs) = c :: cs := by
  simp [skipWs, h]

theorem isTagChar_not_ws (c : Char) (h : isTagChar c = true) : isWs c = false := by
  cases hw : isWs c with
  | false => rfl
  | true =>
    simp only [isWs, Bool.or_eq_true, decide_eq_true_eq] at hw
    rcases hw with rfl | rfl <;> revert h <;> decide

/-! ## the tail: condition, tags, comment -/

theorem tailMode_comment (comment : Option Str) (f : Nat) (hf : 1 ≤ f) :
    tailMode f (renderComment comment) = some (none, []) := by
  obtain ⟨g, rfl⟩ : ∃ g, f = g + 1 := ⟨f - 1, by omega⟩
  cases comment with
  | none => simp [renderComment, tailMode]
  | some c => simp [renderComment, tailMode, isWs]

theorem tailMode_tags (comment : Option Str) : ∀ (tags : List Str) (f : Nat), (∀ t ∈ tags, TagOk t) →
    (renderTags comment tags).length + 1 ≤ f → tailMode f (renderTags comment tags) = some (none, tags)
  | [], f, _, hf => tailMode_comment comment f (by omega)
  | t :: ts, f, hok, hf => by
    obtain ⟨hne, hall⟩ := hok t (by simp)
    cases t with
    | nil => exact absurd rfl hne
    | cons c t' =>
      have hc : isTagChar c = true := by simp only [List.all_cons, Bool.and_eq_true] at hall; exact hall.1
      simp only [renderTags, List.length_cons, List.length_append] at hf
      obtain ⟨g, rfl⟩ : ∃ g, f = (g + 1) + 1 := ⟨f - 2, by omega⟩
      have ih := tailMode_tags comment ts g (fun x hx => hok x (List.mem_cons_of_mem _ hx)) (by omega)
      have hstop : StopsAt isTagChar (' ' :: renderTags comment ts) := fun x y e => by
        simp only [List.cons.injEq] at e; rw [← e.1]; decide
      have htw : ((c :: t') ++ ' ' :: renderTags comment ts).takeWhile isTagChar = c :: t' :=
        takeWhile_append_stop _ _ hall hstop
      have hdw : ((c :: t') ++ ' ' :: renderTags comment ts).dropWhile isTagChar = ' ' :: renderTags comment ts :=
        dropWhile_append_stop _ _ hall hstop
      simp only [renderTags, tailMode]
      have h1 : isWs '#' = false := by decide
      simp only [h1, Bool.false_eq_true, ↓reduceIte, List.cons_append,
        skipWs_nonws c _ (isTagChar_not_ws c hc)]
      rw [← List.cons_append, htw, hdw]
      simp only [tailMode, show isWs ' ' = true by decide, ↓reduceIte, ih]
      simp

theorem exprUpTo_written (stop : Stop) (ws : List Written) (e : Expr) (tail rest : List Char)
    (hlex : lexTo ((wtext ws ++ tail).length + 1) (wtext ws ++ tail) = some (ws.map (·.tok), stop, rest))
    (hparse : parseExpr (ws.map (·.tok)) = some e) :
    exprUpTo stop (wtext ws ++ tail) = some (e, rest) := by
  unfold exprUpTo
  rw [hlex]
  simp [hparse]

theorem tailMode_cond (ws : List Written) (e : Expr) (rest : List Char) (tags : List Str)
    (hws : WOk ('>' :: '>' :: rest) ws) (hparse : parseExpr (ws.map (·.tok)) = some e)
    (hrest : ∀ f, rest.length + 1 ≤ f → tailMode f rest = some (none, tags))
    (f : Nat) (hf : (renderCond rest (some (ws, e))).length + 1 ≤ f) :
    tailMode f (renderCond rest (some (ws, e))) = some (some e, tags) := by
  simp only [renderCond, List.length_cons, List.length_append] at hf
  obtain ⟨g, rfl⟩ : ∃ g, f = g + 1 := ⟨f - 1, by omega⟩
  have hx := exprUpTo_written .cmdEnd ws e ('>' :: '>' :: rest) rest
    (lexTo_wtext_cmdEnd ws rest hws _ (Nat.le_refl _)) hparse
  simp only [renderCond, tailMode]
  simp only [show isWs '<' = false by decide, Bool.false_eq_true, ↓reduceIte, List.head?_cons, List.tail_cons,
    skipWs_nonws 'i' _ (by decide)]
  simp only [show ('<' = '/') = False by decide, false_and, ↓reduceIte, show ('<' = '#') = False by decide,
    true_and, show isWhiteSpaceProp ' ' = true by decide, hx, hrest g (by omega)]

/-- the description's tail is legal: condition tokens well-formed and parse to the condition, tags are HASHTAG_TEXTs -/
def TailOk (d : Desc) : Prop :=
  (∀ t ∈ d.tags, TagOk t) ∧
  match d.cond with
  | none => True
  | some (ws, e) => WOk ('>' :: '>' :: renderTags d.comment d.tags) ws ∧ parseExpr (ws.map (·.tok)) = some e

/-- text mode on the tail of a line: no elements, the condition, the tags -/
theorem textMode_tail (d : Desc) (hok : TailOk d) (f : Nat) (hf : (renderTail d).length + 1 ≤ f) :
    textMode f (renderTail d) = some { elems := [], cond := d.cond.map (·.2), tags := d.tags } := by
  obtain ⟨htags, hcond⟩ := hok
  obtain ⟨g, rfl⟩ : ∃ g, f = g + 1 := ⟨f - 1, by omega⟩
  unfold renderTail at hf ⊢
  cases hc : d.cond with
  | some p =>
    obtain ⟨ws, e⟩ := p
    rw [hc] at hcond hf
    have ht := tailMode_cond ws e (renderTags d.comment d.tags) d.tags hcond.1 hcond.2
      (fun f' hf' => tailMode_tags d.comment d.tags f' htags hf') (g + 1) hf
    simp only [renderCond] at ht ⊢
    simp only [textMode, show ('<' = '\\') = False by decide, ↓reduceIte, List.head?_cons, and_self, or_true, ht,
      Option.map_some]
  | none =>
    rw [hc] at hf
    simp only [renderCond] at hf ⊢
    cases htg : d.tags with
    | cons t ts =>
      rw [htg] at hf htags
      have ht := tailMode_tags d.comment (t :: ts) (g + 1) htags hf
      simp only [renderTags] at ht ⊢
      simp only [textMode, show ('#' = '\\') = False by decide, ↓reduceIte, true_or, ht, Option.map_none]
    | nil =>
      simp only [renderTags]
      cases d.comment with
      | none => simp [renderComment, textMode]
      | some c =>
        simp only [renderComment, textMode, show ('/' = '\\') = False by decide, ↓reduceIte,
          show ('/' = '#') = False by decide, show ('/' = '<') = False by decide, false_and, or_self,
          show ('/' = '{') = False by decide, List.head?_cons, and_self, Option.map_none]

theorem escapable_not_bracket (c : Char) (h : escapable c = true) : ¬ (c = '[' ∨ c = ']') := by
  rintro (rfl | rfl) <;> revert h <;> decide

/-- text mode reads the pieces and continues with what follows them -/
theorem textMode_items (T : List Char) (P : Parts) (hT : ∀ f, T.length + 1 ≤ f → textMode f T = some P) :
    ∀ (items : List Item), ItemsOk T items → ∀ f, (renderItems items ++ T).length + 1 ≤ f →
      textMode f (renderItems items ++ T) = some (itemsParts items P)
  | [], _, f, hf => by simpa [renderItems, itemsParts] using hT f (by simpa [renderItems] using hf)
  | .ch c true :: r, hok, f, hf => by
    obtain ⟨hesc, hr⟩ := hok
    simp only [renderItems, List.cons_append, List.length_cons] at hf
    obtain ⟨g, rfl⟩ : ∃ g, f = g + 1 := ⟨f - 1, by omega⟩
    have ih := textMode_items T P hT r hr g (by omega)
    simp only [renderItems, List.cons_append, textMode, ↓reduceIte, escapable_not_bracket c hesc, hesc, ih,
      Option.map_some, itemsParts]
  | .ch c false :: r, hok, f, hf => by
    obtain ⟨⟨h1, h2, h3, _, _, h6, h7⟩, hr⟩ := hok
    simp only [renderItems, List.cons_append, List.length_cons] at hf
    obtain ⟨g, rfl⟩ : ∃ g, f = g + 1 := ⟨f - 1, by omega⟩
    have ih := textMode_items T P hT r hr g (by omega)
    have hlt : ¬ (c = '<' ∧ (renderItems r ++ T).head? = some '<') := fun h => h6 h.1 h.2
    have hsl : ¬ (c = '/' ∧ (renderItems r ++ T).head? = some '/') := fun h => h7 h.1 h.2
    simp only [renderItems, List.cons_append, textMode, h1, h2, h3, hlt, hsl, or_self, ↓reduceIte, ih,
      Option.map_some, itemsParts]
  | .bracket false :: r, hok, f, hf => by
    simp only [renderItems, List.cons_append, List.length_cons] at hf
    obtain ⟨g, rfl⟩ : ∃ g, f = g + 1 := ⟨f - 1, by omega⟩
    have ih := textMode_items T P hT r hok g (by omega)
    simp only [renderItems, List.cons_append, textMode, ↓reduceIte, true_or, ih, Option.map_some, itemsParts]
  | .bracket true :: r, hok, f, hf => by
    simp only [renderItems, List.cons_append, List.length_cons] at hf
    obtain ⟨g, rfl⟩ : ∃ g, f = g + 1 := ⟨f - 1, by omega⟩
    have ih := textMode_items T P hT r hok g (by omega)
    simp only [renderItems, List.cons_append, textMode, ↓reduceIte, or_true, ih, Option.map_some, itemsParts]
  | .expr ws e :: r, hok, f, hf => by
    obtain ⟨hws, hparse, hr⟩ := hok
    simp only [renderItems, List.cons_append, List.append_assoc, List.length_cons, List.length_append] at hf
    obtain ⟨g, rfl⟩ : ∃ g, f = g + 1 := ⟨f - 1, by omega⟩
    have ih := textMode_items T P hT r hr g (by simp only [List.length_append]; omega)
    have hx := exprUpTo_written .brace ws e ('}' :: (renderItems r ++ T)) (renderItems r ++ T)
      (lexTo_wtext_brace ws _ hws _ (Nat.le_refl _)) hparse
    simp only [renderItems, List.cons_append, List.append_assoc, textMode,
      show ('{' = '\\') = False by decide, show ('{' = '#') = False by decide, show ('{' = '<') = False by decide,
      false_and, or_self, ↓reduceIte, hx, ih, Option.map_some, itemsParts]

/-- the first piece may start a line statement: not `\[`, and an unescaped first character is no white space
    (it would be indentation), does not start `->` or `===` (`<<`, `//`, `#`, `{` are excluded by `okPlain`) -/
def FirstOk (T : List Char) : List Item → Prop
  | [] => False
  | .ch _ true :: _ => True
  | .ch c false :: r => isWs c = false ∧ ¬ (c = '-' ∧ (renderItems r ++ T).head? = some '>') ∧
      ¬ (c = '=' ∧ ∃ rest, renderItems r ++ T = '=' :: '=' :: rest)
  | .bracket _ :: _ => False
  | .expr _ _ :: _ => True

theorem firstChar_items (T : List Char) (P : Parts) (hT : ∀ f, T.length + 1 ≤ f → textMode f T = some P)
    (items : List Item) (hok : ItemsOk T items) (hfirst : FirstOk T items) (arrow : Bool) :
    firstChar arrow (renderItems items ++ T) = .line ⟨arrow, itemsParts items P⟩ := by
  cases items with
  | nil => exact absurd hfirst (by simp [FirstOk])
  | cons it r =>
    cases it with
    | bracket b => exact absurd hfirst (by simp [FirstOk])
    | ch c esc =>
      cases esc with
      | true =>
        obtain ⟨hesc, hr⟩ := hok
        have ih := textMode_items T P hT r hr ((renderItems (.ch c true :: r) ++ T).length + 2)
          (by simp only [renderItems, List.cons_append, List.length_cons]; omega)
        simp only [renderItems, List.cons_append, firstChar, hesc, ↓reduceIte] at ih ⊢
        rw [ih]
        simp [itemsParts]
      | false =>
        obtain ⟨⟨h1, h2, h3, _, _, h6, h7⟩, hr⟩ := hok
        obtain ⟨_, hf2, hf3⟩ := hfirst
        have ih := textMode_items T P hT r hr ((renderItems (.ch c false :: r) ++ T).length + 2)
          (by simp only [renderItems, List.cons_append, List.length_cons]; omega)
        simp only [renderItems, List.cons_append] at ih ⊢
        unfold firstChar
        simp only
        split
        · rename_i heq; cases heq
        · rename_i heq
          simp only [List.cons.injEq] at heq
          exact absurd (by rw [heq.2]; rfl) (h7 heq.1)
        · rename_i heq
          simp only [List.cons.injEq] at heq
          exact absurd ⟨heq.1, _, heq.2⟩ hf3
        · rename_i heq
          simp only [List.cons.injEq] at heq
          exact absurd (by rw [heq.2]; rfl) (h6 heq.1)
        · rename_i heq
          simp only [List.cons.injEq] at heq
          exact absurd ⟨heq.1, by rw [heq.2]; rfl⟩ hf2
        · rename_i heq
          simp only [List.cons.injEq] at heq
          exact absurd heq.1 h2
        · rename_i heq
          simp only [List.cons.injEq] at heq
          exact absurd heq.1 h1
        · rename_i heq
          simp only [List.cons.injEq] at heq
          exact absurd heq.1 h1
        · rename_i heq
          simp only [List.cons.injEq] at heq
          exact absurd heq.1 h3
        · rename_i heq
          simp only [List.cons.injEq] at heq
          rw [← heq.1, ← heq.2, ih]
          simp [itemsParts]
    | expr ws e =>
      obtain ⟨hws, hparse, hr⟩ := hok
      have ih := textMode_items T P hT r hr ((renderItems (.expr ws e :: r) ++ T).length + 2)
        (by simp only [renderItems, List.cons_append, List.append_assoc, List.length_cons, List.length_append]; omega)
      have hx := exprUpTo_written .brace ws e ('}' :: (renderItems r ++ T)) (renderItems r ++ T)
        (lexTo_wtext_brace ws _ hws _ (Nat.le_refl _)) hparse
      simp only [renderItems, List.cons_append, List.append_assoc, firstChar, hx] at ih ⊢
      rw [ih]
      simp [itemsParts]

/-- a legal description: the pieces are legal in front of the tail, the first may start a line, the tail is legal -/
def Valid (d : Desc) : Prop :=
  ItemsOk (renderTail d) d.items ∧ FirstOk (renderTail d) d.items ∧ TailOk d

/-- the rendered line starts with a character that is neither indentation nor the beginning of `->` -/
theorem render_head (T : List Char) (items : List Item) (hfirst : FirstOk T items) :
    ∃ x r, renderItems items ++ T = x :: r ∧ isWs x = false ∧ ¬ (x = '-' ∧ r.head? = some '>') := by
  cases items with
  | nil => exact absurd hfirst (by simp [FirstOk])
  | cons it r =>
    cases it with
    | bracket b => exact absurd hfirst (by simp [FirstOk])
    | ch c esc =>
      cases esc with
      | true => exact ⟨'\\', c :: (renderItems r ++ T), by simp [renderItems], by decide, by simp⟩
      | false => exact ⟨c, renderItems r ++ T, by simp [renderItems], hfirst.1, hfirst.2.1⟩
    | expr ws e =>
      exact ⟨'{', wtext ws ++ '}' :: (renderItems r ++ T), by simp [renderItems], by decide, by simp⟩

theorem skipWs_gap : ∀ (gap : List Char) (x : Char) (r : List Char), gap.all isWs = true → isWs x = false →
    skipWs (gap ++ x :: r) = x :: r
  | [], x, r, _, hx => skipWs_nonws x r hx
  | g :: gap, x, r, hg, hx => by
    simp only [List.all_cons, Bool.and_eq_true] at hg
    simp [skipWs, hg.1, skipWs_gap gap x r hg.2 hx]

theorem lexLine_valid (d : Desc) (hv : Valid d) : lexLine (render d) = .line ⟨false, expected d⟩ := by
  obtain ⟨hitems, hfirst, htail⟩ := hv
  obtain ⟨x, r, hxr, hws, harrow⟩ := render_head _ _ hfirst
  have hfc := firstChar_items (renderTail d) _ (fun f hf => textMode_tail d htail f hf) d.items hitems hfirst false
  unfold render at *
  unfold lexLine
  rw [hxr] at hfc ⊢
  simp only [List.takeWhile_cons, hws, Bool.false_eq_true, ↓reduceIte, List.any_nil, Bool.and_self,
    skipWs_nonws x r hws]
  split
  · rename_i heq
    simp only [List.cons.injEq] at heq
    exact absurd ⟨heq.1, by rw [heq.2]; rfl⟩ harrow
  · rw [hfc]
    rfl

theorem lexLine_valid_option (d : Desc) (hv : Valid d) (gap : List Char) (hgap : gap.all isWs = true) :
    lexLine ('-' :: '>' :: (gap ++ render d)) = .line ⟨true, expected d⟩ := by
  obtain ⟨hitems, hfirst, htail⟩ := hv
  obtain ⟨x, r, hxr, hws, harrow⟩ := render_head _ _ hfirst
  have hfc := firstChar_items (renderTail d) _ (fun f hf => textMode_tail d htail f hf) d.items hitems hfirst true
  unfold render at *
  unfold lexLine
  rw [hxr] at hfc ⊢
  simp only [List.takeWhile_cons, show isWs '-' = false by decide, Bool.false_eq_true, ↓reduceIte, List.any_nil,
    Bool.and_self, skipWs_nonws '-' _ (by decide), skipWs_gap gap x r hgap hws, hfc]
  rfl

end LineLex
end Ysgo
