import Ysgo.Lemmas.F64Val
import Ysgo.Model.NumBuiltins
/-!
# F64 lemma library, part 5: specifications of `floor ceil trunc round` and of the built-ins composed from them,
over exact values, for doubles of magnitude below 2^52
-/
namespace Ysgo
namespace F64

/-- an integer-valued rational -/
def IsInt (q : ℚ) : Prop := ∃ z : ℤ, q = (z : ℚ)

theorem snum_cast (s : Bool) (m : ℕ) : ((snum s m : ℤ) : ℚ) = sgn s * (m : ℚ) := by
  unfold snum sgn; cases s <;> simp

theorem snum_natAbs (s : Bool) (m : ℕ) : (snum s m).natAbs = m := by
  unfold snum; cases s <;> simp

private theorem cast_pow2 (k : ℕ) : (((2 ^ k : ℕ) : ℤ) : ℚ) = (2 : ℚ) ^ k := by push_cast; rfl

theorem floor_spec {x : F64} (h : Lt52 x) :
    ∃ F : ℤ, Finite (floor x) ∧ val (floor x) = (F : ℚ) ∧ (F : ℚ) ≤ val x ∧ val x < (F : ℚ) + 1
      ∧ F.natAbs ≤ P52 := by
  obtain ⟨s, m, k, hd, hm, hk1, hk2⟩ := decode_lt52 h
  have hsm := floorInt_small s m k hm (by omega)
  obtain ⟨hf, hv⟩ := integral_val floorInt (by omega) hd (by unfold P52 P53 at *; omega)
  obtain ⟨c1, c2⟩ := floorInt_contract s m k
  refine ⟨floorInt s m k, hf, hv, ?_, ?_, hsm⟩
  · rw [val_eq_snum_div hd, le_div_iff₀ (by positivity), ← cast_pow2]
    exact_mod_cast c1
  · rw [val_eq_snum_div hd, div_lt_iff₀ (by positivity), ← cast_pow2]
    exact_mod_cast c2

theorem ceil_spec {x : F64} (h : Lt52 x) :
    ∃ C : ℤ, Finite (ceil x) ∧ val (ceil x) = (C : ℚ) ∧ (C : ℚ) - 1 < val x ∧ val x ≤ (C : ℚ)
      ∧ C.natAbs ≤ P52 := by
  obtain ⟨s, m, k, hd, hm, hk1, hk2⟩ := decode_lt52 h
  have hsm := ceilInt_small s m k hm (by omega)
  obtain ⟨hf, hv⟩ := integral_val ceilInt (by omega) hd (by unfold P52 P53 at *; omega)
  obtain ⟨c1, c2⟩ := ceilInt_contract s m k
  refine ⟨ceilInt s m k, hf, hv, ?_, ?_, hsm⟩
  · rw [val_eq_snum_div hd, lt_div_iff₀ (by positivity), ← cast_pow2]
    exact_mod_cast c1
  · rw [val_eq_snum_div hd, div_le_iff₀ (by positivity), ← cast_pow2]
    exact_mod_cast c2

/-- `trunc x` is `sign(x)·⌊|x|⌋`; `r = |x| − ⌊|x|⌋` scaled by `2^k` is what `decimal` returns -/
theorem trunc_spec {x : F64} (h : Lt52 x) :
    ∃ (s : Bool) (q r k : ℕ), Finite (trunc x) ∧ val (trunc x) = sgn s * (q : ℚ)
      ∧ val x = sgn s * ((q : ℚ) + (r : ℚ) / 2 ^ k) ∧ (r : ℚ) < 2 ^ k ∧ r < P53 ∧ k ≤ 1074 ∧ q ≤ P52 := by
  obtain ⟨s, m, k, hd, hm, hk1, hk2⟩ := decode_lt52 h
  have hsm := truncInt_small s m k hm (by omega)
  obtain ⟨hf, hv⟩ := integral_val truncInt (by omega) hd (by unfold P52 P53 at *; omega)
  obtain ⟨c1, -, -⟩ := truncInt_contract s m k
  have hd0 : 0 < 2 ^ k := Nat.pow_pos (by omega)
  have hdm := Nat.div_add_mod m (2 ^ k)
  have hr := Nat.mod_lt m hd0
  have hrm : m % 2 ^ k ≤ m := Nat.mod_le _ _
  refine ⟨s, m / 2 ^ k, m % 2 ^ k, k, hf, ?_, ?_, ?_, by omega, hk2, ?_⟩
  · exact hv.trans (by rw [c1, snum_cast])
  · rw [val_eq_snum_div hd, snum_cast]
    have : (m : ℚ) = 2 ^ k * ((m / 2 ^ k : ℕ) : ℚ) + ((m % 2 ^ k : ℕ) : ℚ) := by exact_mod_cast hdm.symm
    rw [this]
    field_simp
  · exact_mod_cast hr
  · rw [c1, snum_natAbs] at hsm
    exact hsm

theorem round_spec {x : F64} (h : Lt52 x) :
    ∃ R : ℤ, Finite (round x) ∧ val (round x) = (R : ℚ) ∧ |(R : ℚ) - val x| ≤ 1 / 2 ∧ R.natAbs ≤ P52 := by
  obtain ⟨s, m, k, hd, hm, hk1, hk2⟩ := decode_lt52 h
  have hsm := roundInt_small s m k hm (by omega)
  obtain ⟨hf, hv⟩ := integral_val roundInt (by omega) hd (by unfold P52 P53 at *; omega)
  obtain ⟨c1, c2⟩ := roundInt_contract s m k
  refine ⟨roundInt s m k, hf, hv, ?_, hsm⟩
  have hD : (0 : ℚ) < 2 ^ k := by positivity
  have c1' : 2 * ((roundInt s m k : ℚ) * 2 ^ k - (snum s m : ℚ)) ≤ 2 ^ k := by
    rw [← cast_pow2]; exact_mod_cast c1
  have c2' : -((2 : ℚ) ^ k) ≤ 2 * ((roundInt s m k : ℚ) * 2 ^ k - (snum s m : ℚ)) := by
    rw [← cast_pow2]; exact_mod_cast c2
  rw [val_eq_snum_div hd, abs_le]
  constructor
  · rw [le_sub_iff_add_le, ← le_sub_iff_add_le', div_le_iff₀ hD]
    linarith
  · rw [sub_le_iff_le_add, ← sub_le_iff_le_add', le_div_iff₀ hD]
    linarith

end F64

/-! ### the built-ins of base_functions.go -/
namespace Num
open F64

theorem one_val : Finite one ∧ val one = 1 := by
  have := ofInt_val 1 (by unfold P53; decide)
  simpa [one] using this

/-- `inc x = floor x + 1` is computed exactly -/
theorem inc_spec {x : F64} (h : Lt52 x) :
    ∃ F : ℤ, Finite (inc x) ∧ val (inc x) = (F : ℚ) + 1 ∧ val (F64.floor x) = (F : ℚ)
      ∧ (F : ℚ) ≤ val x ∧ val x < (F : ℚ) + 1 := by
  obtain ⟨F, hf, hv, h1, h2, hs⟩ := floor_spec h
  obtain ⟨of, ov⟩ := one_val
  have hr : Representable (val (F64.floor x) + val one) := by
    rw [hv, ov]
    have : ((F : ℚ) + 1) = ((F + 1 : ℤ) : ℚ) := by push_cast; rfl
    rw [this]
    apply representable_int
    unfold P52 P53 at *; omega
  obtain ⟨af, av⟩ := add_val hf of hr
  refine ⟨F, af, ?_, hv, h1, h2⟩
  unfold inc; rw [av, hv, ov]

/-- `dec x = ceil x - 1` is computed exactly -/
theorem dec_spec {x : F64} (h : Lt52 x) :
    ∃ C : ℤ, Finite (dec x) ∧ val (dec x) = (C : ℚ) - 1 ∧ val (F64.ceil x) = (C : ℚ)
      ∧ (C : ℚ) - 1 < val x ∧ val x ≤ (C : ℚ) := by
  obtain ⟨C, hf, hv, h1, h2, hs⟩ := ceil_spec h
  obtain ⟨of, ov⟩ := one_val
  have hr : Representable (val (F64.ceil x) - val one) := by
    rw [hv, ov]
    have : ((C : ℚ) - 1) = ((C - 1 : ℤ) : ℚ) := by push_cast; rfl
    rw [this]
    apply representable_int
    unfold P52 P53 at *; omega
  obtain ⟨af, av⟩ := sub_val hf of hr
  refine ⟨C, af, ?_, hv, h1, h2⟩
  unfold dec; rw [av, hv, ov]

/-- `decimal x = x - trunc x` is computed exactly, and so is `integer x + decimal x` -/
theorem decimal_spec {x : F64} (h : Lt52 x) :
    Finite (decimal x) ∧ val (decimal x) = val x - val (integer x)
      ∧ Finite (F64.add (integer x) (decimal x)) ∧ val (F64.add (integer x) (decimal x)) = val x := by
  obtain ⟨s, q, r, k, hf, hv, hx, hr, hr53, hk, hq⟩ := trunc_spec h
  have hxf := h.finite
  have hrep : Representable (val x - val (F64.trunc x)) := by
    apply representable_dyadic _ r k hr53 hk
    rw [hv, hx]
    have : sgn s * ((q : ℚ) + (r : ℚ) / 2 ^ k) - sgn s * (q : ℚ) = sgn s * ((r : ℚ) / 2 ^ k) := by ring
    rw [this, abs_mul, abs_sgn, one_mul, abs_of_nonneg (by positivity)]
  obtain ⟨df, dv⟩ := sub_val hxf hf hrep
  have hrep2 : Representable (val (F64.trunc x) + val (F64.sub x (F64.trunc x))) := by
    rw [dv]
    have : val (F64.trunc x) + (val x - val (F64.trunc x)) = val x := by ring
    rw [this]
    exact representable_val hxf
  obtain ⟨af, av⟩ := add_val hf df hrep2
  refine ⟨df, dv, af, ?_⟩
  unfold integer decimal
  rw [av, dv]; ring

end Num
end Ysgo
