import Ysgo.Lemmas.ListenerStmt
/-!
# The listener on statements (sub-languages (c) and (d))

`CStmt.Spec s`: walking the conforming `statement` tree of `s` from an idle state is `deliverItems` of the statements it
stands for. This file: the statement-list lemma and the statements that contain no statements (jump, set, declare, call,
command, line); `ListenerNestWalk.lean`: blocks, if statements and option groups.
-/
namespace Ysgo.Listener
open Ysgo

def CStmt.Spec (s : CStmt) : Prop :=
  ∀ σ : State, Idle σ → Bounded σ σ.next →
    walk s.toPT σ = (deliverItems (s.pS σ.next) σ).map (·.ghost (σ.next + s.cnt) none)

def StmtsSpec (ss : List CStmt) : Prop :=
  ∀ σ : State, Idle σ → Bounded σ σ.next →
    walkList (CStmt.toPTs ss) σ = (deliverItems (CStmt.pSList ss σ.next) σ).map (·.ghost (σ.next + CStmt.cntList ss) none)

theorem Idle.ghost {σ : State} (hi : Idle σ) (n : Nat) : Idle (σ.ghost n none) :=
  ⟨hi.alive, hi.varCb, rfl, hi.textCb, hi.cmdTextCb, hi.hashtagCb, hi.line, hi.proto⟩

theorem ghost_idle_self {σ τ : State} (hi : Idle σ) (h : SameCtl σ τ) : τ.ghost σ.next none = τ := by
  have := ghost_self_of_sameCtl h
  rwa [hi.fnCb] at this

/-- an outcome all of whose results keep the control part is unchanged by resetting the ghost part of an idle state -/
theorem map_ghost_idle {σ : State} (hi : Idle σ) (X : Outcome State) (h : ∀ τ, X = .ok τ → SameCtl σ τ) :
    X.map (·.ghost σ.next none) = X := by
  cases X with
  | ok τ => simp [ghost_idle_self hi (h τ rfl)]
  | panic => rfl
  | unmodelled => rfl

/-! ### statement lists -/

theorem stmtsSpec_nil : StmtsSpec [] := by
  intro σ hi _
  simp only [CStmt.toPTs, walkList_nil, CStmt.pSList, deliverItems, CStmt.cntList, Nat.add_zero, Outcome.map_ok]
  rw [ghost_idle_self hi (SameCtl.refl σ)]

theorem stmtsSpec_cons (s : CStmt) (ss : List CStmt) (hs : s.Spec) (hss : StmtsSpec ss) : StmtsSpec (s :: ss) := by
  intro σ hi hb
  simp only [CStmt.toPTs, walkList_cons, CStmt.pSList, CStmt.cntList, deliverItems_append]
  rw [hs σ hi hb, Outcome.bind_map, Outcome.map_bind]
  cases hd : deliverItems (s.pS σ.next) σ with
  | panic => rfl
  | unmodelled => rfl
  | ok τ =>
    have hsc := deliverItems_ok hd
    have hiτ : Idle (τ.ghost (σ.next + s.cnt) none) := (hi.of_sameCtl hsc).ghost _
    have hbτ : Bounded (τ.ghost (σ.next + s.cnt) none) (σ.next + s.cnt) :=
      Bounded.ghost (deliverItems_bounded hd (hb.mono (by omega)) (CStmt.ids_pS s σ.next).below) _ _
    simp only [Outcome.bind_ok]
    rw [hss _ hiτ hbτ]
    simp only [State.ghost_next, deliverItems_ghost, Outcome.map_map]
    congr 1
    funext υ
    simp [Function.comp, Nat.add_assoc]

theorem stmtsSpec_of : ∀ ss : List CStmt, (∀ s ∈ ss, s.Spec) → StmtsSpec ss
  | [], _ => stmtsSpec_nil
  | s :: ss, h => stmtsSpec_cons s ss (h s (by simp)) (stmtsSpec_of ss fun t ht => h t (by simp [ht]))

/-! ### the `statement` wrapper -/

theorem enter_statement (cs : List PT) (σ : State) : enter .statement cs σ = .ok σ := rfl
theorem exit_statement (σ : State) : exit .statement σ = .ok σ := rfl

theorem walk_statement_single (t : PT) (σ : State) : walk (.rule .statement [t]) σ = walk t σ := by
  rw [walk_rule, enter_statement]
  simp only [Outcome.bind_ok, walkList_cons, walkList_nil]
  rw [Outcome.bind_id_of _ (walkList []) (fun a => walkList_nil a), Outcome.bind_id_of _ _ exit_statement]

/-- one statement delivered through the statement callback -/
theorem deliverItems_single (s : PStmt) (σ : State) (h : ∀ l, s ≠ .line l) :
    deliverItems [s] σ = deliverS s σ := by
  simp only [deliverItems]
  rw [Outcome.bind_id_of _ _ (fun a => rfl)]
  cases s <;> first | rfl | exact absurd rfl (h _)

theorem CStmt.spec_line (l : CLine) (h : l.WF) : (CStmt.line l).Spec := by
  intro σ hi hb
  simp only [CStmt.toPT, walk_statement_single, CStmt.pS, CStmt.cnt, deliverItems, deliverItem]
  rw [CLine.walk_eq l h σ hi hb, Outcome.bind_id_of _ _ (fun a => rfl)]


theorem CStmt.spec_jumpId (tx : Tx) (dest : String) : (CStmt.jumpId tx dest).Spec := by
  intro σ hi _
  simp only [CStmt.toPT, walk_statement_single, CStmt.pS, CStmt.cnt, Nat.add_zero]
  rw [deliverItems_single _ _ (by intro l h; cases h), walk_rule]
  have hen : enter .jumpToNodeName [.tok .commandStart (tx 0), .tok .commandJump (tx 1), .tok .id dest,
      .tok .commandEnd (tx 2)] σ = deliverS (.jump (.lit (.str dest))) σ := rfl
  rw [hen, Outcome.bind_id_of _ _ (fun τ => by
    simp only [walkList_cons, walk_tok, visitTerminal, Outcome.bind_ok, walkList_nil]
    rfl)]
  exact (map_ghost_idle hi _ fun τ h => deliverS_ok h).symm

/-- delivering below a pushed expression callback that holds no expression -/
theorem deliverS_withE_cons (s : PStmt) (σ : State) (cb : ExprCb) (hcb : ∀ k m, cb.modify k m = cb) :
    deliverS s (σ.withE (cb :: σ.expressionCallbacks))
      = (deliverS s σ).map fun τ => τ.withE (cb :: τ.expressionCallbacks) := by
  rcases σ with ⟨nx, al, ns, nd, ln, gs, so, sc, tc, ec, lc, vc, cc, fc, ctc, hc, pc⟩
  cases al
  · rfl
  · cases sc with
    | nil => rfl
    | cons c r =>
      cases c with
      | nodeStmt => cases nd <;> rfl
      | optStmt k =>
        simp only [deliverS, State.withE, if_true, Outcome.map_ok, State.modify, List.map, hcb]
      | clauseStmt k =>
        simp only [deliverS, State.withE, if_true, Outcome.map_ok, State.modify, List.map, hcb]

theorem enter_jumpToExpression (cs : List PT) (σ : State) : enter .jumpToExpression cs σ = pushE .jumpE σ := rfl
theorem exit_jumpToExpression : exit .jumpToExpression = popE := rfl

theorem popE_withE_cons (τ : State) (cb : ExprCb) (ha : τ.alive = true) :
    popE (τ.withE (cb :: τ.expressionCallbacks)) = .ok τ := by
  rw [popE_cons (τ.withE (cb :: τ.expressionCallbacks)) cb τ.expressionCallbacks ha rfl]
  rfl

/-- an expression walked below a pushed callback that turns it into a statement (`<<jump {e}>>`, `<<set $v = e>>`) -/
theorem walk_expr_deliverS (e : CExpr) (he : e.WF) (σ : State) (hi : Idle σ) (hb : Bounded σ σ.next) (cb : ExprCb)
    (mk : PExpr → PStmt) (hcb : ∀ k m, cb.modify k m = cb) (hcall : ∀ S x χ, callE (cb :: S) x χ = deliverS (mk x) χ)
    (hcbb : Below σ.next cb.ids) :
    (walk e.toPT (σ.withE (cb :: σ.expressionCallbacks))).bind popE
      = (deliverS (mk (e.pE σ.next)) σ).map (·.ghost (σ.next + e.cnt) none) := by
  rw [CExpr.spec e he (σ.withE (cb :: σ.expressionCallbacks)) hi.alive hi.varCb (hb.pushE cb hcbb),
    deliverE_alive _ (σ.withE (cb :: σ.expressionCallbacks)) hi.alive]
  simp only [State.withE_expressionCallbacks, State.withE_next, State.withE_functionCallCallback, hi.fnCb, clearIf_none]
  rw [hcall, deliverS_withE_cons _ _ _ hcb, Outcome.map_map, Outcome.bind_map]
  cases hd : deliverS (mk (e.pE σ.next)) σ with
  | panic => rfl
  | unmodelled => rfl
  | ok τ =>
    simp only [Outcome.bind_ok, Function.comp, Outcome.map_ok]
    exact popE_withE_cons (τ.ghost (σ.next + e.cnt) none) _ ((deliverS_ok hd).alive.trans hi.alive)

theorem CStmt.spec_jumpExpr (tx : Tx) (e : CExpr) (h : e.WF) : (CStmt.jumpExpr tx e).Spec := by
  intro σ hi hb
  simp only [CStmt.toPT, walk_statement_single, CStmt.pS, CStmt.cnt]
  rw [deliverItems_single _ _ (by intro l h; cases h), walk_rule, enter_jumpToExpression, pushE_alive _ σ hi.alive]
  simp only [Outcome.bind_ok, walkList_cons, walk_tok, visitTerminal, walkList_nil, exit_jumpToExpression]
  rw [Outcome.bind_id_of _ (walkList _) (fun τ => by simp [walkList_cons, walk_tok, visitTerminal])]
  exact walk_expr_deliverS e h σ hi hb .jumpE .jump (fun _ _ => rfl) (fun _ _ _ => rfl) (Below.nil _)


theorem inplaceOperator_of_setOp (t : Tk) (op : AssignOp) (h : Translate.setOp t = some op) : inplaceOperator t = some op := by
  cases t <;> simp_all [Translate.setOp, inplaceOperator]

theorem visitTerminal_setOp (t : Tk) (s : String) (σ : State) (h : (Translate.setOp t).isSome) :
    visitTerminal t s σ = .ok σ := by
  cases t <;> simp_all [Translate.setOp, visitTerminal]

theorem ExprCb.setVarName_of_not_mem (c : Nat) (v : String) (cb : ExprCb) (h : c ∉ cb.ids) : cb.setVarName c v = cb := by
  cases cb <;> simp [ExprCb.setVarName]
  next op c' v' =>
    simp only [ExprCb.ids, List.mem_cons, List.not_mem_nil, or_false] at h
    intro hc
    exact absurd hc.symm h

theorem withNext_eq_ghost {σ : State} (hi : Idle σ) (n : Nat) : σ.withNext n = σ.ghost n none := by
  have := hi.fnCb
  rcases σ with ⟨nx, al, ns, nd, ln, gs, so, sc, tc, ec, lc, vc, cc, fc, ctc, hc, pc⟩
  simp only at this
  subst this
  rfl

theorem withVar_none_of_idle {σ : State} (hi : Idle σ) : σ.withVar none = σ := by
  have := hi.varCb
  rcases σ with ⟨nx, al, ns, nd, ln, gs, so, sc, tc, ec, lc, vc, cc, fc, ctc, hc, pc⟩
  simp only at this
  subst this
  rfl

theorem exit_setStatement : exit .setStatement = popE := rfl

theorem enter_setStatement (a b c : PT) (t : Tk) (s : String) (rest : List PT) (op : AssignOp) (σ : State)
    (hop : inplaceOperator t = some op) :
    enter .setStatement (a :: b :: c :: .tok t s :: rest) σ
      = pushE (.setE op σ.next "") ((σ.withNext (σ.next + 1)).withVar (some (.setVar σ.next))) := by
  simp only [enter, hop, State.alloc]
  rfl

/-- the `variable` child of a set statement -/
theorem walk_setVariable (v : String) (hv : asciiHead v = true) (op : AssignOp) (σ : State) (hi : Idle σ)
    (hb : Bounded σ σ.next) :
    walk (.rule .variable [.tok .varId v])
        (((σ.withNext (σ.next + 1)).withVar (some (.setVar σ.next))).withE (.setE op σ.next "" :: σ.expressionCallbacks))
      = .ok ((σ.withNext (σ.next + 1)).withE (.setE op σ.next (Translate.tail1 v) :: σ.expressionCallbacks)) := by
  rw [walk_rule]
  have hen : enter .variable [.tok .varId v]
      (((σ.withNext (σ.next + 1)).withVar (some (.setVar σ.next))).withE (.setE op σ.next "" :: σ.expressionCallbacks))
      = .ok ((((σ.withNext (σ.next + 1)).withVar (some (.setVar σ.next))).withE
          ((ExprCb.setE op σ.next "" :: σ.expressionCallbacks).map (ExprCb.setVarName σ.next (Translate.tail1 v)))).withVar
            none) := by
    simp only [enter, State.withE_variableCallback, State.withVar_variableCallback, ctxText_single,
      dropFirstByte_of_asciiHead hv, Outcome.bind_eq, Outcome.bind_ok]
    rfl
  rw [hen]
  simp only [Outcome.bind_ok, walkList_cons, walk_tok, visitTerminal, walkList_nil, exit, List.map, ExprCb.setVarName,
    if_true]
  rw [map_eq_self _ _ fun cb hcb => ExprCb.setVarName_of_not_mem σ.next _ cb ((hb.exprCbs cb hcb).not_mem (Nat.le_refl _))]
  congr 1
  have : ((((σ.withNext (σ.next + 1)).withVar (some (.setVar σ.next))).withE
      (.setE op σ.next (Translate.tail1 v) :: σ.expressionCallbacks)).withVar none)
      = ((σ.withVar none).withNext (σ.next + 1)).withE (.setE op σ.next (Translate.tail1 v) :: σ.expressionCallbacks) := rfl
  rw [this, withVar_none_of_idle hi]

theorem Idle.withNext {σ : State} (hi : Idle σ) (n : Nat) : Idle (σ.withNext n) :=
  ⟨hi.alive, hi.varCb, hi.fnCb, hi.textCb, hi.cmdTextCb, hi.hashtagCb, hi.line, hi.proto⟩

theorem CStmt.spec_set (tx : Tx) (v : String) (t : Tk) (e : CExpr) (hv : asciiHead v = true)
    (hop : (Translate.setOp t).isSome) (he : e.WF) : (CStmt.set tx v t e).Spec := by
  intro σ hi hb
  obtain ⟨op, hop'⟩ := Option.isSome_iff_exists.1 hop
  simp only [CStmt.toPT, walk_statement_single, CStmt.pS, CStmt.cnt, hop', Option.getD_some]
  rw [deliverItems_single _ _ (by intro l h; cases h), walk_rule,
    enter_setStatement _ _ _ _ _ _ op σ (inplaceOperator_of_setOp t op hop'),
    pushE_alive _ ((σ.withNext (σ.next + 1)).withVar (some (.setVar σ.next))) hi.alive]
  simp only [Outcome.bind_ok, walkList_cons, walk_tok, visitTerminal, State.withVar_expressionCallbacks,
    State.withNext_expressionCallbacks]
  rw [walk_setVariable v hv op σ hi hb]
  simp only [Outcome.bind_ok, walkList_cons, walk_tok, visitTerminal_setOp t _ _ hop, exit_setStatement]
  rw [Outcome.bind_id_of _ (walkList _) (fun τ => by simp [walkList_cons, walk_tok, visitTerminal])]
  have hw := walk_expr_deliverS e he (σ.withNext (σ.next + 1)) (hi.withNext _) ((hb.mono (Nat.le_succ _)).withNext _)
    (.setE op σ.next (Translate.tail1 v)) (fun x => .set (Translate.tail1 v) op x) (fun _ _ => rfl) (fun _ _ _ => rfl)
    (Below.cons (Nat.lt_succ_self _) (Below.nil _))
  simp only [State.withNext_expressionCallbacks, State.withNext_next] at hw
  rw [hw, withNext_eq_ghost hi, deliverS_ghost, Outcome.map_map]
  congr 1
  funext τ
  simp [Function.comp, Nat.add_assoc]



/-- writes to a statement that has already been handed on = handing on the written statement -/
theorem deliverS_chain {σ : State} {n k : Nat} (hb : Bounded σ n) (hk : n ≤ k) : ∀ (ms : List Mut) (X : PStmt),
    (deliverS X σ).map (fun τ => ms.foldl (fun τ m => τ.modify k m) τ)
      = deliverS (ms.foldl (fun X m => X.modify k m) X) σ
  | [], X => by simp [Outcome.map_id']
  | m :: ms, X => by
    have h1 : (fun τ : State => (m :: ms).foldl (fun τ m => τ.modify k m) τ)
        = (fun τ => ms.foldl (fun τ m => τ.modify k m) τ) ∘ (fun τ => τ.modify k m) := rfl
    rw [h1, ← Outcome.map_map, deliverS_modify m X hb hk, deliverS_chain hb hk ms (X.modify k m)]
    rfl

theorem enter_declareStatement (cs : List PT) (σ : State) :
    enter .declareStatement cs σ
      = (deliverS (.declare σ.next "" .hole) (σ.withNext (σ.next + 1))).bind fun τ =>
          (pushE (.declValue σ.next) τ).bind fun τ => .ok (τ.withVar (some (.declVar σ.next))) := by
  simp only [enter, State.alloc, Outcome.bind_eq]
  rfl

theorem exit_declareStatement : exit .declareStatement = popE := rfl

/-- the state inside a declare statement whose object `k` lives in `τ` -/
def declState (τ : State) (k : Nat) (vcb : Option VarCb) (n : Nat) (fcb : Option FnCb) : State :=
  ((τ.withE (.declValue k :: τ.expressionCallbacks)).withVar vcb).ghost n fcb

@[simp] theorem declState_next (τ : State) (k : Nat) (vcb : Option VarCb) (n : Nat) (fcb : Option FnCb) :
    (declState τ k vcb n fcb).next = n := rfl
@[simp] theorem declState_functionCallCallback (τ : State) (k : Nat) (vcb : Option VarCb) (n : Nat) (fcb : Option FnCb) :
    (declState τ k vcb n fcb).functionCallCallback = fcb := rfl

theorem declState_modify (τ : State) (k : Nat) (vcb : Option VarCb) (n : Nat) (fcb : Option FnCb) (m : Mut) :
    (declState τ k vcb n fcb).modify k m = declState (τ.modify k m) k vcb n fcb := rfl

theorem Bounded.declState {τ : State} {n k : Nat} (hb : Bounded τ n) (hk : k < n) (vcb : Option VarCb)
    (hv : Below n (optIds VarCb.ids vcb)) (n' : Nat) (fcb : Option FnCb) : Bounded (declState τ k vcb n' fcb) n :=
  ⟨hb.nodes, hb.node, hb.line, hb.groups, hb.options, hb.stmtCbs,
   (fun cb hcb => by
      rcases List.mem_cons.1 hcb with rfl | hcb
      · exact Below.cons hk (Below.nil _)
      · exact hb.exprCbs cb hcb),
   hb.lineCbs, hb.clauseCbs, hb.textCb, hv, hb.cmdTextCb, hb.proto⟩

theorem popE_declState (τ : State) (k : Nat) (vcb : Option VarCb) (n : Nat) (fcb : Option FnCb) (ha : τ.alive = true) :
    popE (declState τ k vcb n fcb) = .ok ((τ.withVar vcb).ghost n fcb) := by
  rw [popE_cons (declState τ k vcb n fcb) (.declValue k) τ.expressionCallbacks ha rfl]
  rfl

theorem declareTail_walk (tx : Tx) (as : Bool) (χ : State) : walkList (declareTail tx as) χ = .ok χ := by
  cases as <;> simp [declareTail, walkList_cons, walk_tok, visitTerminal]

theorem CStmt.spec_declare (tx : Tx) (v : String) (x : CValue) (as : Bool) (hv : asciiHead v = true) (hx : x.WF) :
    (CStmt.declare tx v x as).Spec := by
  intro σ hi hb
  let k := σ.next
  simp only [CStmt.toPT, walk_statement_single, CStmt.pS, CStmt.cnt]
  rw [deliverItems_single _ _ (by intro l h; cases h), walk_rule, enter_declareStatement, withNext_eq_ghost hi,
    deliverS_ghost, Outcome.bind_map]
  have hchain := deliverS_chain (σ := σ) (n := k) (k := k) hb (Nat.le_refl _)
    [.declVar (Translate.tail1 v), .declValue (x.pE (k + 1))] (.declare k "" .hole)
  have hX : ([Mut.declVar (Translate.tail1 v), .declValue (x.pE (k + 1))].foldl (fun X m => PStmt.modify k m X)
      (.declare k "" .hole)) = .declare k (Translate.tail1 v) (x.pE (k + 1)) := by
    simp [List.foldl, PStmt.modify, PExpr.modify]
  rw [hX] at hchain
  rw [← hchain]
  cases hd : deliverS (.declare k "" .hole) σ with
  | panic => rfl
  | unmodelled => rfl
  | ok τ₀ =>
    have hs := deliverS_ok hd
    have hal : τ₀.alive = true := hs.alive.trans hi.alive
    have hb0 : Bounded τ₀ (k + 1) := deliverS_bounded hd (hb.mono (Nat.le_succ _))
      (by simp [PStmt.ids, PExpr.ids, Below.cons, Below.nil])
    simp only [Outcome.bind_ok, Outcome.map_ok, List.foldl]
    rw [pushE_alive _ (τ₀.ghost (k + 1) none) hal]
    simp only [Outcome.bind_ok]
    have h0 : ((τ₀.ghost (k + 1) none).withE (.declValue σ.next :: (τ₀.ghost (k + 1) none).expressionCallbacks)).withVar
        (some (.declVar σ.next)) = declState τ₀ k (some (.declVar k)) (k + 1) none := rfl
    rw [h0]
    simp only [walkList_cons, walk_tok, visitTerminal, Outcome.bind_ok]
    -- the variable
    have hvar : walk (.rule .variable [.tok .varId v]) (declState τ₀ k (some (.declVar k)) (k + 1) none)
        = .ok (declState (τ₀.modify k (.declVar (Translate.tail1 v))) k none (k + 1) none) := by
      rw [walk_rule]
      have hen : enter .variable [.tok .varId v] (declState τ₀ k (some (.declVar k)) (k + 1) none)
          = .ok (((declState τ₀ k (some (.declVar k)) (k + 1) none).modify k (.declVar (Translate.tail1 v))).withVar
              none) := by
        simp only [enter, ctxText_single, dropFirstByte_of_asciiHead hv, Outcome.bind_eq, Outcome.bind_ok]
        rfl
      rw [hen]
      simp only [Outcome.bind_ok, walkList_cons, walk_tok, visitTerminal, walkList_nil, exit]
      rfl
    rw [hvar]
    simp only [Outcome.bind_ok]
    -- the value
    let τ₁ := τ₀.modify k (.declVar (Translate.tail1 v))
    have hd1 : deliverS (.declare k (Translate.tail1 v) .hole) σ = .ok τ₁ := by
      have := deliverS_modify (.declVar (Translate.tail1 v)) (.declare k "" .hole) hb (Nat.le_refl k)
      rw [hd] at this
      simpa [PStmt.modify, PExpr.modify] using this.symm
    have hs1 : SameCtl σ τ₁ := deliverS_ok hd1
    have hb1 : Bounded τ₁ (k + 1) := deliverS_bounded hd1 (hb.mono (Nat.le_succ _))
      (by simp [PStmt.ids, PExpr.ids, Below.cons, Below.nil])
    have hbχ : Bounded (declState τ₁ k none (k + 1) none) (k + 1) :=
      hb1.declState (Nat.lt_succ_self _) none (Below.nil _) _ _
    simp only [walkList_cons, walk_tok, visitTerminal, Outcome.bind_ok]
    rw [CValue.spec x hx (declState τ₁ k none (k + 1) none) hal rfl hbχ,
      deliverE_alive _ (declState τ₁ k none (k + 1) none) hal]
    have hc : callE (declState τ₁ k none (k + 1) none).expressionCallbacks (x.pE (declState τ₁ k none (k + 1) none).next)
        (declState τ₁ k none (k + 1) none)
        = .ok (declState (τ₁.modify k (.declValue (x.pE (k + 1)))) k none (k + 1) none) := rfl
    rw [hc]
    simp only [Outcome.map_ok, Outcome.bind_ok, declareTail_walk, exit_declareStatement, clearIf_none]
    have hg : ∀ τ : State, (declState τ k none (k + 1) none).ghost (k + 1 + x.cnt) none
        = declState τ k none (k + 1 + x.cnt) none := fun _ => rfl
    simp only [declState_next, declState_functionCallCallback, clearIf_none]
    rw [hg, popE_declState (τ₁.modify k (.declValue (x.pE (k + 1)))) _ _ _ _ hal]
    have hv2 : (τ₁.modify k (.declValue (x.pE (k + 1)))).variableCallback = none := hs1.varCb.trans hi.varCb
    congr 1
    have : ∀ τ : State, τ.variableCallback = none → τ.withVar none = τ := by
      intro τ h
      rw [← h]
      rfl
    rw [this _ hv2]
    show State.ghost _ (k + 1 + x.cnt) none = State.ghost _ (k + (1 + x.cnt)) none
    rw [Nat.add_assoc]



theorem foldl_callArg_stmt (k : Nat) (f : String) : ∀ (as done : List PExpr), k ∉ PExpr.idsList done →
    k ∉ PExpr.idsList as →
    as.foldl (fun X a => PStmt.modify k (.callArg a) X) (.call k f done) = .call k f (done ++ as)
  | [], done, _, _ => by simp
  | a :: rest, done, hd, ha => by
    simp only [PExpr.idsList, List.mem_append, not_or] at ha
    simp only [List.foldl, PStmt.modify, PExpr.modifyList_of_not_mem k _ done hd, if_true]
    rw [foldl_callArg_stmt k f rest (done ++ [a]) (by simp [PExpr.idsList_append, PExpr.idsList, hd, ha.1]) ha.2]
    simp

theorem enter_callStatement (cs : List PT) (σ : State) : enter .callStatement cs σ = .ok (σ.withFn (some .callStmt)) := rfl
theorem exit_callStatement (σ : State) : exit .callStatement σ = .ok (σ.withFn none) := rfl

theorem CStmt.spec_call (tx : Tx) (f : String) (tx' : Tx) (lead : Bool) (args : List CExpr)
    (ih : ∀ a ∈ args, a.Spec) : (CStmt.call tx (.mk f tx' lead args)).Spec := by
  intro σ hi hb
  let k := σ.next
  obtain ⟨cs, hcs, hf⟩ := funcId_toPT f tx' lead args
  simp only [CStmt.toPT, walk_statement_single, CStmt.pS, CStmt.cnt, CCall.cnt]
  rw [deliverItems_single _ _ (by intro l h; cases h), walk_rule, enter_callStatement]
  simp only [Outcome.bind_ok, walkList_cons, walk_tok, visitTerminal, hcs, walk_rule, enter_functionCall cs f _ hf,
    State.withFn_next, walkList_nil]
  have hD : deliverF k f ((σ.withFn (some .callStmt)).withNext (k + 1))
      = (deliverS (.call k f []) σ).map (·.ghost (k + 1) (some .callStmt)) := by
    rw [← deliverS_ghost]
    rfl
  show ((((deliverF k f ((σ.withFn (some .callStmt)).withNext (k + 1))).bind _).bind _).bind _).bind _ = _
  rw [hD]
  have hchain := deliverS_chain (σ := σ) (n := k) (k := k) hb (Nat.le_refl _)
    ((CExpr.pEList args (k + 1)).map Mut.callArg) (.call k f [])
  simp only [List.foldl_map] at hchain
  rw [foldl_callArg_stmt k f _ [] (by simp [PExpr.idsList])
    ((CExpr.ids_pEList args (k + 1)).not_mem (Nat.lt_succ_self _)), List.nil_append] at hchain
  rw [← hchain]
  cases hd : deliverS (.call k f []) σ with
  | panic => rfl
  | unmodelled => rfl
  | ok τ₀ =>
    have hs := deliverS_ok hd
    have hal : τ₀.alive = true := hs.alive.trans hi.alive
    have hv0 : τ₀.variableCallback = none := hs.varCb.trans hi.varCb
    have hb0 : Bounded τ₀ (k + 1) := deliverS_bounded hd (hb.mono (Nat.le_succ _))
      (by simp [PStmt.ids, PExpr.idsList, Below.cons, Below.nil])
    simp only [Outcome.map_ok, Outcome.bind_ok]
    rw [pushE_alive _ (τ₀.ghost (k + 1) (some .callStmt)) hal]
    simp only [Outcome.bind_ok]
    rw [show (τ₀.ghost (k + 1) (some .callStmt)).withE
        (ExprCb.fnArg σ.next :: (τ₀.ghost (k + 1) (some .callStmt)).expressionCallbacks)
        = argState τ₀ k (k + 1) (some .callStmt) from rfl]
    rw [walk_callChildren f tx' lead args ih k τ₀ (k + 1) (some .callStmt) hal hv0 hb0 (Nat.lt_succ_self _) cs hcs]
    simp only [Outcome.bind_ok, exit_functionCall]
    rw [popE_argState _ _ _ _ (by rw [foldl_modify_alive]; exact hal)]
    simp only [Outcome.bind_ok, walkList_cons, walk_tok, visitTerminal, walkList_nil, exit_callStatement]
    rw [show k + 1 + CExpr.cntList args = σ.next + (1 + CExpr.cntList args) from Nat.add_assoc _ _ _]
    rfl



/-- whether the statement callback can be called does not depend on the statement -/
theorem deliverS_panic_indep (X X' : PStmt) (σ : State) (h : deliverS X σ = .panic) : deliverS X' σ = .panic := by
  rcases σ with ⟨nx, al, ns, nd, ln, gs, so, sc, tc, ec, lc, vc, cc, fc, ctc, hc, pc⟩
  cases al
  · rfl
  · cases sc with
    | nil => rfl
    | cons c r =>
      cases c with
      | nodeStmt => cases nd <;> simp_all [deliverS, appendToNode]
      | optStmt k => simp [deliverS] at h
      | clauseStmt k => simp [deliverS] at h

theorem deliverS_not_unmodelled (X : PStmt) (σ : State) : deliverS X σ ≠ .unmodelled := by
  rcases σ with ⟨nx, al, ns, nd, ln, gs, so, sc, tc, ec, lc, vc, cc, fc, ctc, hc, pc⟩
  cases al
  · simp [deliverS]
  · cases sc with
    | nil => simp [deliverS]
    | cons c r =>
      cases c with
      | nodeStmt => cases nd <;> simp [deliverS, appendToNode]
      | optStmt k => simp [deliverS]
      | clauseStmt k => simp [deliverS]

theorem deliverS_withCmdText (s : PStmt) (σ : State) (x : Option Nat) :
    deliverS s (σ.withCmdText x) = (deliverS s σ).map (·.withCmdText x) := by
  rcases σ with ⟨nx, al, ns, nd, ln, gs, so, sc, tc, ec, lc, vc, cc, fc, ctc, hc, pc⟩
  cases al
  · rfl
  · cases sc with
    | nil => rfl
    | cons c r =>
      cases c with
      | nodeStmt => cases nd <;> rfl
      | optStmt k => rfl
      | clauseStmt k => rfl

/-- the state inside a command statement whose object `k` lives in `τ` -/
def cmdState (τ : State) (k n : Nat) (fcb : Option FnCb) : State :=
  (((τ.withCmdText (some k)).withE (.cmdElem k :: τ.expressionCallbacks)).withProto (some k)).ghost n fcb

@[simp] theorem cmdState_next (τ : State) (k n : Nat) (fcb : Option FnCb) : (cmdState τ k n fcb).next = n := rfl
@[simp] theorem cmdState_functionCallCallback (τ : State) (k n : Nat) (fcb : Option FnCb) :
    (cmdState τ k n fcb).functionCallCallback = fcb := rfl

theorem Bounded.cmdState {τ : State} {n k : Nat} (hb : Bounded τ n) (hk : k < n) (n' : Nat) (fcb : Option FnCb) :
    Bounded (cmdState τ k n' fcb) n :=
  ⟨hb.nodes, hb.node, hb.line, hb.groups, hb.options, hb.stmtCbs,
   (fun cb hcb => by
      rcases List.mem_cons.1 hcb with rfl | hcb
      · exact Below.cons hk (Below.nil _)
      · exact hb.exprCbs cb hcb),
   hb.lineCbs, hb.clauseCbs, hb.textCb, hb.varCb, (fun k' h => by cases h; exact hk), (fun k' h => by cases h; exact hk)⟩

def CCmdEl.hasCallList : List CCmdEl → Bool
  | [] => false
  | .text _ :: es => CCmdEl.hasCallList es
  | .expr _ e :: es => e.hasCall || CCmdEl.hasCallList es

theorem cmd_modify_text (k : Nat) (els : List PCmdEl) (s : String) (h : k ∉ PCmdEl.idsList els) :
    (PStmt.cmd k els).modify k (.cmdText s) = .cmd k (els ++ [.text s]) := by
  simp [PStmt.modify, PCmdEl.map_modify_of_not_mem k _ els h]

theorem cmd_modify_expr (k : Nat) (els : List PCmdEl) (e : PExpr) (h : k ∉ PCmdEl.idsList els) :
    (PStmt.cmd k els).modify k (.cmdExpr e) = .cmd k (els ++ [.expr e]) := by
  simp [PStmt.modify, PCmdEl.map_modify_of_not_mem k _ els h]

theorem cmd_modify_rearrange (k : Nat) (els : List PCmdEl) (h : k ∉ PCmdEl.idsList els) :
    (PStmt.cmd k els).modify k .cmdRearrange = .cmd k (rearrangeEls els) := by
  simp [PStmt.modify, PCmdEl.map_modify_of_not_mem k _ els h]

theorem walk_cmdElems {σ₀ : State} {k : Nat} (hi : Idle σ₀) (hb0 : Bounded σ₀ k) :
    ∀ (els : List CCmdEl), CCmdEl.WFList els → ∀ (elsP : List PCmdEl) (τ : State) (n : Nat) (fcb : Option FnCb),
      deliverS (.cmd k elsP) σ₀ = .ok τ → k < n → Below n (PCmdEl.idsList elsP) → k ∉ PCmdEl.idsList elsP →
      ∃ τ', walkList (CCmdEl.toPTsList els) (cmdState τ k n fcb)
          = .ok (cmdState τ' k (n + CCmdEl.cntList els) (clearIf (CCmdEl.hasCallList els) fcb)) ∧
        deliverS (.cmd k (elsP ++ CCmdEl.pList els n)) σ₀ = .ok τ'
  | [], _, elsP, τ, n, fcb, hτ, _, _, _ => by
    refine ⟨τ, ?_, by simpa [CCmdEl.pList] using hτ⟩
    simp [CCmdEl.toPTsList, CCmdEl.cntList, CCmdEl.hasCallList, clearIf]
  | .text s :: es, hw, elsP, τ, n, fcb, hτ, hkn, hbel, hk => by
    simp only [CCmdEl.WFList] at hw
    have hτ1 : deliverS (.cmd k (elsP ++ [.text s])) σ₀ = .ok (τ.modify k (.cmdText s)) := by
      have := deliverS_modify (.cmdText s) (.cmd k elsP) hb0 (Nat.le_refl k)
      rw [hτ, cmd_modify_text k elsP s hk] at this
      exact this.symm
    obtain ⟨τ', h1, h2⟩ := walk_cmdElems hi hb0 es hw.2 (elsP ++ [.text s]) _ n fcb hτ1 hkn
      (by simpa [PCmdEl.idsList_append, PCmdEl.idsList, PCmdEl.ids] using hbel)
      (by simpa [PCmdEl.idsList_append, PCmdEl.idsList, PCmdEl.ids] using hk)
    refine ⟨τ', ?_, by simpa [CCmdEl.pList, List.append_assoc] using h2⟩
    simp only [CCmdEl.toPTsList, CCmdEl.toPTs, List.cons_append, List.nil_append, walkList_cons, walk_tok]
    have hv : visitTerminal .commandText s (cmdState τ k n fcb) = .ok (cmdState (τ.modify k (.cmdText s)) k n fcb) := rfl
    rw [hv]
    simpa [CCmdEl.cntList, CCmdEl.cnt, CCmdEl.hasCallList] using h1
  | .expr tx e :: es, hw, elsP, τ, n, fcb, hτ, hkn, hbel, hk => by
    simp only [CCmdEl.WFList, CCmdEl.WF] at hw
    have hs := deliverS_ok hτ
    have hal : τ.alive = true := hs.alive.trans hi.alive
    have hbτ : Bounded τ n := deliverS_bounded hτ (hb0.mono (by omega))
      (by simpa [PStmt.ids] using Below.cons hkn hbel)
    have hids := CExpr.ids_pE e n
    have hτ1 : deliverS (.cmd k (elsP ++ [.expr (e.pE n)])) σ₀ = .ok (τ.modify k (.cmdExpr (e.pE n))) := by
      have := deliverS_modify (.cmdExpr (e.pE n)) (.cmd k elsP) hb0 (Nat.le_refl k)
      rw [hτ, cmd_modify_expr k elsP _ hk] at this
      exact this.symm
    obtain ⟨τ', h1, h2⟩ := walk_cmdElems hi hb0 es hw.2 (elsP ++ [.expr (e.pE n)]) _ (n + e.cnt)
      (clearIf e.hasCall fcb) hτ1 (by omega)
      (by
        rw [PCmdEl.idsList_append]
        exact (hbel.mono (by omega)).append (by simpa [PCmdEl.idsList, PCmdEl.ids] using hids.below))
      (by
        rw [PCmdEl.idsList_append]
        simp only [List.mem_append, not_or]
        exact ⟨hk, by simpa [PCmdEl.idsList, PCmdEl.ids] using hids.not_mem hkn⟩)
    refine ⟨τ', ?_, by simpa [CCmdEl.pList, List.append_assoc] using h2⟩
    simp only [CCmdEl.toPTsList, CCmdEl.toPTs, List.cons_append, List.nil_append, walkList_cons, walk_tok, visitTerminal,
      Outcome.bind_ok]
    rw [CExpr.spec e hw.1 (cmdState τ k n fcb) hal (hs.varCb.trans hi.varCb) (hbτ.cmdState hkn _ _),
      deliverE_alive _ (cmdState τ k n fcb) hal]
    have hc : callE (cmdState τ k n fcb).expressionCallbacks (e.pE (cmdState τ k n fcb).next) (cmdState τ k n fcb)
        = .ok (cmdState (τ.modify k (.cmdExpr (e.pE n))) k n fcb) := rfl
    rw [hc]
    simp only [Outcome.map_ok, Outcome.bind_ok, cmdState_next, cmdState_functionCallCallback]
    have hg : (cmdState (τ.modify k (.cmdExpr (e.pE n))) k n fcb).ghost (n + e.cnt) (clearIf e.hasCall fcb)
        = cmdState (τ.modify k (.cmdExpr (e.pE n))) k (n + e.cnt) (clearIf e.hasCall fcb) := rfl
    rw [hg]
    simp only [walkList_cons, walk_tok, visitTerminal, Outcome.bind_ok]
    rw [h1]
    simp [CCmdEl.cntList, CCmdEl.cnt, CCmdEl.hasCallList, clearIf_clearIf, Nat.add_assoc]


theorem enter_commandStatement (cs : List PT) (σ : State) :
    enter .commandStatement cs σ
      = (pushE (.cmdElem σ.next) ((σ.withNext (σ.next + 1)).withCmdText (some σ.next))).bind fun τ =>
          (deliverS (.cmd σ.next []) τ).bind fun τ => .ok (τ.withProto (some σ.next)) := by
  simp only [enter, State.alloc, Outcome.bind_eq]
  rfl

theorem exit_commandStatement (σ : State) :
    exit .commandStatement σ = (popE (σ.withCmdText none)).bind fun σ =>
      match σ.protoCommandStatement with
      | none => .panic
      | some k => .ok ((σ.modify k .cmdRearrange).withProto none) := rfl

theorem walk_commandFormattedText (cs : List PT) (χ : State) :
    walk (.rule .commandFormattedText cs) χ = walkList cs χ := by
  rw [walk_rule]
  have h1 : enter .commandFormattedText cs χ = .ok χ := rfl
  rw [h1]
  simp only [Outcome.bind_ok]
  exact Outcome.bind_id_of _ _ (fun _ => rfl)

theorem CStmt.spec_cmd (tx : Tx) (els : List CCmdEl) (hw : CCmdEl.WFList els) : (CStmt.cmd tx els).Spec := by
  intro σ hi hb
  let k := σ.next
  simp only [CStmt.toPT, walk_statement_single, CStmt.pS, CStmt.cnt]
  rw [deliverItems_single _ _ (by intro l h; cases h), walk_rule, enter_commandStatement,
    pushE_alive _ ((σ.withNext (σ.next + 1)).withCmdText (some σ.next)) hi.alive]
  simp only [Outcome.bind_ok, State.withCmdText_expressionCallbacks, State.withNext_expressionCallbacks]
  have hD : deliverS (.cmd k []) (((σ.withNext (k + 1)).withCmdText (some k)).withE (.cmdElem k :: σ.expressionCallbacks))
      = (deliverS (.cmd k []) σ).map fun τ =>
          ((τ.withCmdText (some k)).withE (.cmdElem k :: τ.expressionCallbacks)).ghost (k + 1) none := by
    have h1 : ((σ.withNext (k + 1)).withCmdText (some k)).withE (.cmdElem k :: σ.expressionCallbacks)
        = ((σ.withNext (k + 1)).withCmdText (some k)).withE
            (.cmdElem k :: ((σ.withNext (k + 1)).withCmdText (some k)).expressionCallbacks) := rfl
    rw [h1, deliverS_withE_cons _ _ _ (fun _ _ => rfl), deliverS_withCmdText, withNext_eq_ghost hi, deliverS_ghost,
      Outcome.map_map, Outcome.map_map]
    rfl
  rw [hD]
  cases hd : deliverS (.cmd k []) σ with
  | panic =>
    rw [deliverS_panic_indep _ _ σ hd]
    rfl
  | unmodelled => exact absurd hd (deliverS_not_unmodelled _ _)
  | ok τ₀ =>
    have hs := deliverS_ok hd
    have hal : τ₀.alive = true := hs.alive.trans hi.alive
    simp only [Outcome.map_ok, Outcome.bind_ok]
    rw [show (((τ₀.withCmdText (some k)).withE (.cmdElem k :: τ₀.expressionCallbacks)).ghost (k + 1) none).withProto
        (some σ.next) = cmdState τ₀ k (k + 1) none from rfl]
    simp only [walkList_cons, walk_tok, visitTerminal, Outcome.bind_ok, walk_commandFormattedText, walkList_nil]
    obtain ⟨τ', h1, h2⟩ := walk_cmdElems hi hb els hw [] τ₀ (k + 1) none hd (Nat.lt_succ_self _)
      (by simp [PCmdEl.idsList, Below.nil]) (by simp [PCmdEl.idsList])
    rw [h1]
    simp only [Outcome.bind_ok, List.nil_append, clearIf_none, walkList_cons, walk_tok, visitTerminal, walkList_nil,
      exit_commandStatement] at h2 ⊢
    have hs' := deliverS_ok h2
    have hal' : τ'.alive = true := hs'.alive.trans hi.alive
    rw [popE_cons ((cmdState τ' k (k + 1 + CCmdEl.cntList els) none).withCmdText none) (.cmdElem k)
      τ'.expressionCallbacks hal' rfl]
    simp only [Outcome.bind_ok]
    have hproto : (((cmdState τ' k (k + 1 + CCmdEl.cntList els) none).withCmdText none).withE
        τ'.expressionCallbacks).protoCommandStatement = some k := rfl
    rw [hproto]
    have hids := CCmdEl.ids_pList els (k + 1)
    have h3 : deliverS (.cmd k (rearrangeEls (CCmdEl.pList els (k + 1)))) σ = .ok (τ'.modify k .cmdRearrange) := by
      have := deliverS_modify .cmdRearrange (.cmd k (CCmdEl.pList els (k + 1))) hb (Nat.le_refl k)
      rw [h2, cmd_modify_rearrange k _ (hids.not_mem (Nat.lt_succ_self _))] at this
      exact this.symm
    rw [h3]
    have hs3 := deliverS_ok h3
    simp only [Outcome.map_ok]
    congr 1
    have hc : (τ'.modify k .cmdRearrange).commandTextCallback = none := hs3.cmdTextCb.trans hi.cmdTextCb
    have hp : (τ'.modify k .cmdRearrange).protoCommandStatement = none := hs3.proto.trans hi.proto
    have : ((((cmdState τ' k (k + 1 + CCmdEl.cntList els) none).withCmdText none).withE
        τ'.expressionCallbacks).modify k .cmdRearrange).withProto none
        = (((τ'.modify k .cmdRearrange).withCmdText none).withProto none).ghost (k + 1 + CCmdEl.cntList els) none := rfl
    rw [this]
    have e1 : ∀ τ : State, τ.commandTextCallback = none → τ.withCmdText none = τ := by
      intro τ h; rw [← h]; rfl
    have e2 : ∀ τ : State, τ.protoCommandStatement = none → τ.withProto none = τ := by
      intro τ h; rw [← h]; rfl
    rw [e1 _ hc, e2 _ hp, Nat.add_assoc]


end Ysgo.Listener
