import Ysgo.Lemmas.ListenerDeliver
/-!
# Named single-field updates of the listener state, with their projection lemmas

`{ σ with f := x }` elaborates to a 17-field structure literal; the named updates keep proof terms readable. Generated
mechanically: one definition per field that the walk assigns, one `rfl` lemma per (update, field) pair.
-/
namespace Ysgo.Listener

def State.withNext (σ : State) (x : Nat) : State := { σ with next := x }
def State.withNodes (σ : State) (x : List PNode) : State := { σ with nodes := x }
def State.withNode (σ : State) (x : Option PNode) : State := { σ with node := x }
def State.withLine (σ : State) (x : Option PLine) : State := { σ with lineStatement := x }
def State.withGroups (σ : State) (x : List (List POpt)) : State := { σ with shortcutOptionStatements := x }
def State.withS (σ : State) (x : List StmtCb) : State := { σ with statementCallbacks := x }
def State.withText (σ : State) (x : Option Nat) : State := { σ with textCallback := x }
def State.withE (σ : State) (x : List ExprCb) : State := { σ with expressionCallbacks := x }
def State.withL (σ : State) (x : List LineCb) : State := { σ with lineStatementCallbacks := x }
def State.withVar (σ : State) (x : Option VarCb) : State := { σ with variableCallback := x }
def State.withC (σ : State) (x : List ClauseCb) : State := { σ with clauseCallbacks := x }
def State.withFn (σ : State) (x : Option FnCb) : State := { σ with functionCallCallback := x }
def State.withCmdText (σ : State) (x : Option Nat) : State := { σ with commandTextCallback := x }
def State.withHash (σ : State) (x : Bool) : State := { σ with hashtagCallback := x }
def State.withProto (σ : State) (x : Option Nat) : State := { σ with protoCommandStatement := x }

@[simp] theorem State.withNext_next (σ : State) (x : Nat) : (σ.withNext x).next = x := rfl
@[simp] theorem State.withNext_alive (σ : State) (x : Nat) : (σ.withNext x).alive = σ.alive := rfl
@[simp] theorem State.withNext_nodes (σ : State) (x : Nat) : (σ.withNext x).nodes = σ.nodes := rfl
@[simp] theorem State.withNext_node (σ : State) (x : Nat) : (σ.withNext x).node = σ.node := rfl
@[simp] theorem State.withNext_lineStatement (σ : State) (x : Nat) : (σ.withNext x).lineStatement = σ.lineStatement := rfl
@[simp] theorem State.withNext_shortcutOptionStatements (σ : State) (x : Nat) : (σ.withNext x).shortcutOptionStatements = σ.shortcutOptionStatements := rfl
@[simp] theorem State.withNext_shortcutOptions (σ : State) (x : Nat) : (σ.withNext x).shortcutOptions = σ.shortcutOptions := rfl
@[simp] theorem State.withNext_statementCallbacks (σ : State) (x : Nat) : (σ.withNext x).statementCallbacks = σ.statementCallbacks := rfl
@[simp] theorem State.withNext_textCallback (σ : State) (x : Nat) : (σ.withNext x).textCallback = σ.textCallback := rfl
@[simp] theorem State.withNext_expressionCallbacks (σ : State) (x : Nat) : (σ.withNext x).expressionCallbacks = σ.expressionCallbacks := rfl
@[simp] theorem State.withNext_lineStatementCallbacks (σ : State) (x : Nat) : (σ.withNext x).lineStatementCallbacks = σ.lineStatementCallbacks := rfl
@[simp] theorem State.withNext_variableCallback (σ : State) (x : Nat) : (σ.withNext x).variableCallback = σ.variableCallback := rfl
@[simp] theorem State.withNext_clauseCallbacks (σ : State) (x : Nat) : (σ.withNext x).clauseCallbacks = σ.clauseCallbacks := rfl
@[simp] theorem State.withNext_functionCallCallback (σ : State) (x : Nat) : (σ.withNext x).functionCallCallback = σ.functionCallCallback := rfl
@[simp] theorem State.withNext_commandTextCallback (σ : State) (x : Nat) : (σ.withNext x).commandTextCallback = σ.commandTextCallback := rfl
@[simp] theorem State.withNext_hashtagCallback (σ : State) (x : Nat) : (σ.withNext x).hashtagCallback = σ.hashtagCallback := rfl
@[simp] theorem State.withNext_protoCommandStatement (σ : State) (x : Nat) : (σ.withNext x).protoCommandStatement = σ.protoCommandStatement := rfl
@[simp] theorem State.withNext_self (σ : State) : σ.withNext σ.next = σ := rfl
@[simp] theorem State.withNext_withNext (σ : State) (x y : Nat) : (σ.withNext x).withNext y = σ.withNext y := rfl

@[simp] theorem State.withNodes_next (σ : State) (x : List PNode) : (σ.withNodes x).next = σ.next := rfl
@[simp] theorem State.withNodes_alive (σ : State) (x : List PNode) : (σ.withNodes x).alive = σ.alive := rfl
@[simp] theorem State.withNodes_nodes (σ : State) (x : List PNode) : (σ.withNodes x).nodes = x := rfl
@[simp] theorem State.withNodes_node (σ : State) (x : List PNode) : (σ.withNodes x).node = σ.node := rfl
@[simp] theorem State.withNodes_lineStatement (σ : State) (x : List PNode) : (σ.withNodes x).lineStatement = σ.lineStatement := rfl
@[simp] theorem State.withNodes_shortcutOptionStatements (σ : State) (x : List PNode) : (σ.withNodes x).shortcutOptionStatements = σ.shortcutOptionStatements := rfl
@[simp] theorem State.withNodes_shortcutOptions (σ : State) (x : List PNode) : (σ.withNodes x).shortcutOptions = σ.shortcutOptions := rfl
@[simp] theorem State.withNodes_statementCallbacks (σ : State) (x : List PNode) : (σ.withNodes x).statementCallbacks = σ.statementCallbacks := rfl
@[simp] theorem State.withNodes_textCallback (σ : State) (x : List PNode) : (σ.withNodes x).textCallback = σ.textCallback := rfl
@[simp] theorem State.withNodes_expressionCallbacks (σ : State) (x : List PNode) : (σ.withNodes x).expressionCallbacks = σ.expressionCallbacks := rfl
@[simp] theorem State.withNodes_lineStatementCallbacks (σ : State) (x : List PNode) : (σ.withNodes x).lineStatementCallbacks = σ.lineStatementCallbacks := rfl
@[simp] theorem State.withNodes_variableCallback (σ : State) (x : List PNode) : (σ.withNodes x).variableCallback = σ.variableCallback := rfl
@[simp] theorem State.withNodes_clauseCallbacks (σ : State) (x : List PNode) : (σ.withNodes x).clauseCallbacks = σ.clauseCallbacks := rfl
@[simp] theorem State.withNodes_functionCallCallback (σ : State) (x : List PNode) : (σ.withNodes x).functionCallCallback = σ.functionCallCallback := rfl
@[simp] theorem State.withNodes_commandTextCallback (σ : State) (x : List PNode) : (σ.withNodes x).commandTextCallback = σ.commandTextCallback := rfl
@[simp] theorem State.withNodes_hashtagCallback (σ : State) (x : List PNode) : (σ.withNodes x).hashtagCallback = σ.hashtagCallback := rfl
@[simp] theorem State.withNodes_protoCommandStatement (σ : State) (x : List PNode) : (σ.withNodes x).protoCommandStatement = σ.protoCommandStatement := rfl
@[simp] theorem State.withNodes_self (σ : State) : σ.withNodes σ.nodes = σ := rfl
@[simp] theorem State.withNodes_withNodes (σ : State) (x y : List PNode) : (σ.withNodes x).withNodes y = σ.withNodes y := rfl

@[simp] theorem State.withNode_next (σ : State) (x : Option PNode) : (σ.withNode x).next = σ.next := rfl
@[simp] theorem State.withNode_alive (σ : State) (x : Option PNode) : (σ.withNode x).alive = σ.alive := rfl
@[simp] theorem State.withNode_nodes (σ : State) (x : Option PNode) : (σ.withNode x).nodes = σ.nodes := rfl
@[simp] theorem State.withNode_node (σ : State) (x : Option PNode) : (σ.withNode x).node = x := rfl
@[simp] theorem State.withNode_lineStatement (σ : State) (x : Option PNode) : (σ.withNode x).lineStatement = σ.lineStatement := rfl
@[simp] theorem State.withNode_shortcutOptionStatements (σ : State) (x : Option PNode) : (σ.withNode x).shortcutOptionStatements = σ.shortcutOptionStatements := rfl
@[simp] theorem State.withNode_shortcutOptions (σ : State) (x : Option PNode) : (σ.withNode x).shortcutOptions = σ.shortcutOptions := rfl
@[simp] theorem State.withNode_statementCallbacks (σ : State) (x : Option PNode) : (σ.withNode x).statementCallbacks = σ.statementCallbacks := rfl
@[simp] theorem State.withNode_textCallback (σ : State) (x : Option PNode) : (σ.withNode x).textCallback = σ.textCallback := rfl
@[simp] theorem State.withNode_expressionCallbacks (σ : State) (x : Option PNode) : (σ.withNode x).expressionCallbacks = σ.expressionCallbacks := rfl
@[simp] theorem State.withNode_lineStatementCallbacks (σ : State) (x : Option PNode) : (σ.withNode x).lineStatementCallbacks = σ.lineStatementCallbacks := rfl
@[simp] theorem State.withNode_variableCallback (σ : State) (x : Option PNode) : (σ.withNode x).variableCallback = σ.variableCallback := rfl
@[simp] theorem State.withNode_clauseCallbacks (σ : State) (x : Option PNode) : (σ.withNode x).clauseCallbacks = σ.clauseCallbacks := rfl
@[simp] theorem State.withNode_functionCallCallback (σ : State) (x : Option PNode) : (σ.withNode x).functionCallCallback = σ.functionCallCallback := rfl
@[simp] theorem State.withNode_commandTextCallback (σ : State) (x : Option PNode) : (σ.withNode x).commandTextCallback = σ.commandTextCallback := rfl
@[simp] theorem State.withNode_hashtagCallback (σ : State) (x : Option PNode) : (σ.withNode x).hashtagCallback = σ.hashtagCallback := rfl
@[simp] theorem State.withNode_protoCommandStatement (σ : State) (x : Option PNode) : (σ.withNode x).protoCommandStatement = σ.protoCommandStatement := rfl
@[simp] theorem State.withNode_self (σ : State) : σ.withNode σ.node = σ := rfl
@[simp] theorem State.withNode_withNode (σ : State) (x y : Option PNode) : (σ.withNode x).withNode y = σ.withNode y := rfl

@[simp] theorem State.withLine_next (σ : State) (x : Option PLine) : (σ.withLine x).next = σ.next := rfl
@[simp] theorem State.withLine_alive (σ : State) (x : Option PLine) : (σ.withLine x).alive = σ.alive := rfl
@[simp] theorem State.withLine_nodes (σ : State) (x : Option PLine) : (σ.withLine x).nodes = σ.nodes := rfl
@[simp] theorem State.withLine_node (σ : State) (x : Option PLine) : (σ.withLine x).node = σ.node := rfl
@[simp] theorem State.withLine_lineStatement (σ : State) (x : Option PLine) : (σ.withLine x).lineStatement = x := rfl
@[simp] theorem State.withLine_shortcutOptionStatements (σ : State) (x : Option PLine) : (σ.withLine x).shortcutOptionStatements = σ.shortcutOptionStatements := rfl
@[simp] theorem State.withLine_shortcutOptions (σ : State) (x : Option PLine) : (σ.withLine x).shortcutOptions = σ.shortcutOptions := rfl
@[simp] theorem State.withLine_statementCallbacks (σ : State) (x : Option PLine) : (σ.withLine x).statementCallbacks = σ.statementCallbacks := rfl
@[simp] theorem State.withLine_textCallback (σ : State) (x : Option PLine) : (σ.withLine x).textCallback = σ.textCallback := rfl
@[simp] theorem State.withLine_expressionCallbacks (σ : State) (x : Option PLine) : (σ.withLine x).expressionCallbacks = σ.expressionCallbacks := rfl
@[simp] theorem State.withLine_lineStatementCallbacks (σ : State) (x : Option PLine) : (σ.withLine x).lineStatementCallbacks = σ.lineStatementCallbacks := rfl
@[simp] theorem State.withLine_variableCallback (σ : State) (x : Option PLine) : (σ.withLine x).variableCallback = σ.variableCallback := rfl
@[simp] theorem State.withLine_clauseCallbacks (σ : State) (x : Option PLine) : (σ.withLine x).clauseCallbacks = σ.clauseCallbacks := rfl
@[simp] theorem State.withLine_functionCallCallback (σ : State) (x : Option PLine) : (σ.withLine x).functionCallCallback = σ.functionCallCallback := rfl
@[simp] theorem State.withLine_commandTextCallback (σ : State) (x : Option PLine) : (σ.withLine x).commandTextCallback = σ.commandTextCallback := rfl
@[simp] theorem State.withLine_hashtagCallback (σ : State) (x : Option PLine) : (σ.withLine x).hashtagCallback = σ.hashtagCallback := rfl
@[simp] theorem State.withLine_protoCommandStatement (σ : State) (x : Option PLine) : (σ.withLine x).protoCommandStatement = σ.protoCommandStatement := rfl
@[simp] theorem State.withLine_self (σ : State) : σ.withLine σ.lineStatement = σ := rfl
@[simp] theorem State.withLine_withLine (σ : State) (x y : Option PLine) : (σ.withLine x).withLine y = σ.withLine y := rfl

@[simp] theorem State.withGroups_next (σ : State) (x : List (List POpt)) : (σ.withGroups x).next = σ.next := rfl
@[simp] theorem State.withGroups_alive (σ : State) (x : List (List POpt)) : (σ.withGroups x).alive = σ.alive := rfl
@[simp] theorem State.withGroups_nodes (σ : State) (x : List (List POpt)) : (σ.withGroups x).nodes = σ.nodes := rfl
@[simp] theorem State.withGroups_node (σ : State) (x : List (List POpt)) : (σ.withGroups x).node = σ.node := rfl
@[simp] theorem State.withGroups_lineStatement (σ : State) (x : List (List POpt)) : (σ.withGroups x).lineStatement = σ.lineStatement := rfl
@[simp] theorem State.withGroups_shortcutOptionStatements (σ : State) (x : List (List POpt)) : (σ.withGroups x).shortcutOptionStatements = x := rfl
@[simp] theorem State.withGroups_shortcutOptions (σ : State) (x : List (List POpt)) : (σ.withGroups x).shortcutOptions = σ.shortcutOptions := rfl
@[simp] theorem State.withGroups_statementCallbacks (σ : State) (x : List (List POpt)) : (σ.withGroups x).statementCallbacks = σ.statementCallbacks := rfl
@[simp] theorem State.withGroups_textCallback (σ : State) (x : List (List POpt)) : (σ.withGroups x).textCallback = σ.textCallback := rfl
@[simp] theorem State.withGroups_expressionCallbacks (σ : State) (x : List (List POpt)) : (σ.withGroups x).expressionCallbacks = σ.expressionCallbacks := rfl
@[simp] theorem State.withGroups_lineStatementCallbacks (σ : State) (x : List (List POpt)) : (σ.withGroups x).lineStatementCallbacks = σ.lineStatementCallbacks := rfl
@[simp] theorem State.withGroups_variableCallback (σ : State) (x : List (List POpt)) : (σ.withGroups x).variableCallback = σ.variableCallback := rfl
@[simp] theorem State.withGroups_clauseCallbacks (σ : State) (x : List (List POpt)) : (σ.withGroups x).clauseCallbacks = σ.clauseCallbacks := rfl
@[simp] theorem State.withGroups_functionCallCallback (σ : State) (x : List (List POpt)) : (σ.withGroups x).functionCallCallback = σ.functionCallCallback := rfl
@[simp] theorem State.withGroups_commandTextCallback (σ : State) (x : List (List POpt)) : (σ.withGroups x).commandTextCallback = σ.commandTextCallback := rfl
@[simp] theorem State.withGroups_hashtagCallback (σ : State) (x : List (List POpt)) : (σ.withGroups x).hashtagCallback = σ.hashtagCallback := rfl
@[simp] theorem State.withGroups_protoCommandStatement (σ : State) (x : List (List POpt)) : (σ.withGroups x).protoCommandStatement = σ.protoCommandStatement := rfl
@[simp] theorem State.withGroups_self (σ : State) : σ.withGroups σ.shortcutOptionStatements = σ := rfl
@[simp] theorem State.withGroups_withGroups (σ : State) (x y : List (List POpt)) : (σ.withGroups x).withGroups y = σ.withGroups y := rfl

@[simp] theorem State.withS_next (σ : State) (x : List StmtCb) : (σ.withS x).next = σ.next := rfl
@[simp] theorem State.withS_alive (σ : State) (x : List StmtCb) : (σ.withS x).alive = σ.alive := rfl
@[simp] theorem State.withS_nodes (σ : State) (x : List StmtCb) : (σ.withS x).nodes = σ.nodes := rfl
@[simp] theorem State.withS_node (σ : State) (x : List StmtCb) : (σ.withS x).node = σ.node := rfl
@[simp] theorem State.withS_lineStatement (σ : State) (x : List StmtCb) : (σ.withS x).lineStatement = σ.lineStatement := rfl
@[simp] theorem State.withS_shortcutOptionStatements (σ : State) (x : List StmtCb) : (σ.withS x).shortcutOptionStatements = σ.shortcutOptionStatements := rfl
@[simp] theorem State.withS_shortcutOptions (σ : State) (x : List StmtCb) : (σ.withS x).shortcutOptions = σ.shortcutOptions := rfl
@[simp] theorem State.withS_statementCallbacks (σ : State) (x : List StmtCb) : (σ.withS x).statementCallbacks = x := rfl
@[simp] theorem State.withS_textCallback (σ : State) (x : List StmtCb) : (σ.withS x).textCallback = σ.textCallback := rfl
@[simp] theorem State.withS_expressionCallbacks (σ : State) (x : List StmtCb) : (σ.withS x).expressionCallbacks = σ.expressionCallbacks := rfl
@[simp] theorem State.withS_lineStatementCallbacks (σ : State) (x : List StmtCb) : (σ.withS x).lineStatementCallbacks = σ.lineStatementCallbacks := rfl
@[simp] theorem State.withS_variableCallback (σ : State) (x : List StmtCb) : (σ.withS x).variableCallback = σ.variableCallback := rfl
@[simp] theorem State.withS_clauseCallbacks (σ : State) (x : List StmtCb) : (σ.withS x).clauseCallbacks = σ.clauseCallbacks := rfl
@[simp] theorem State.withS_functionCallCallback (σ : State) (x : List StmtCb) : (σ.withS x).functionCallCallback = σ.functionCallCallback := rfl
@[simp] theorem State.withS_commandTextCallback (σ : State) (x : List StmtCb) : (σ.withS x).commandTextCallback = σ.commandTextCallback := rfl
@[simp] theorem State.withS_hashtagCallback (σ : State) (x : List StmtCb) : (σ.withS x).hashtagCallback = σ.hashtagCallback := rfl
@[simp] theorem State.withS_protoCommandStatement (σ : State) (x : List StmtCb) : (σ.withS x).protoCommandStatement = σ.protoCommandStatement := rfl
@[simp] theorem State.withS_self (σ : State) : σ.withS σ.statementCallbacks = σ := rfl
@[simp] theorem State.withS_withS (σ : State) (x y : List StmtCb) : (σ.withS x).withS y = σ.withS y := rfl

@[simp] theorem State.withText_next (σ : State) (x : Option Nat) : (σ.withText x).next = σ.next := rfl
@[simp] theorem State.withText_alive (σ : State) (x : Option Nat) : (σ.withText x).alive = σ.alive := rfl
@[simp] theorem State.withText_nodes (σ : State) (x : Option Nat) : (σ.withText x).nodes = σ.nodes := rfl
@[simp] theorem State.withText_node (σ : State) (x : Option Nat) : (σ.withText x).node = σ.node := rfl
@[simp] theorem State.withText_lineStatement (σ : State) (x : Option Nat) : (σ.withText x).lineStatement = σ.lineStatement := rfl
@[simp] theorem State.withText_shortcutOptionStatements (σ : State) (x : Option Nat) : (σ.withText x).shortcutOptionStatements = σ.shortcutOptionStatements := rfl
@[simp] theorem State.withText_shortcutOptions (σ : State) (x : Option Nat) : (σ.withText x).shortcutOptions = σ.shortcutOptions := rfl
@[simp] theorem State.withText_statementCallbacks (σ : State) (x : Option Nat) : (σ.withText x).statementCallbacks = σ.statementCallbacks := rfl
@[simp] theorem State.withText_textCallback (σ : State) (x : Option Nat) : (σ.withText x).textCallback = x := rfl
@[simp] theorem State.withText_expressionCallbacks (σ : State) (x : Option Nat) : (σ.withText x).expressionCallbacks = σ.expressionCallbacks := rfl
@[simp] theorem State.withText_lineStatementCallbacks (σ : State) (x : Option Nat) : (σ.withText x).lineStatementCallbacks = σ.lineStatementCallbacks := rfl
@[simp] theorem State.withText_variableCallback (σ : State) (x : Option Nat) : (σ.withText x).variableCallback = σ.variableCallback := rfl
@[simp] theorem State.withText_clauseCallbacks (σ : State) (x : Option Nat) : (σ.withText x).clauseCallbacks = σ.clauseCallbacks := rfl
@[simp] theorem State.withText_functionCallCallback (σ : State) (x : Option Nat) : (σ.withText x).functionCallCallback = σ.functionCallCallback := rfl
@[simp] theorem State.withText_commandTextCallback (σ : State) (x : Option Nat) : (σ.withText x).commandTextCallback = σ.commandTextCallback := rfl
@[simp] theorem State.withText_hashtagCallback (σ : State) (x : Option Nat) : (σ.withText x).hashtagCallback = σ.hashtagCallback := rfl
@[simp] theorem State.withText_protoCommandStatement (σ : State) (x : Option Nat) : (σ.withText x).protoCommandStatement = σ.protoCommandStatement := rfl
@[simp] theorem State.withText_self (σ : State) : σ.withText σ.textCallback = σ := rfl
@[simp] theorem State.withText_withText (σ : State) (x y : Option Nat) : (σ.withText x).withText y = σ.withText y := rfl

@[simp] theorem State.withE_next (σ : State) (x : List ExprCb) : (σ.withE x).next = σ.next := rfl
@[simp] theorem State.withE_alive (σ : State) (x : List ExprCb) : (σ.withE x).alive = σ.alive := rfl
@[simp] theorem State.withE_nodes (σ : State) (x : List ExprCb) : (σ.withE x).nodes = σ.nodes := rfl
@[simp] theorem State.withE_node (σ : State) (x : List ExprCb) : (σ.withE x).node = σ.node := rfl
@[simp] theorem State.withE_lineStatement (σ : State) (x : List ExprCb) : (σ.withE x).lineStatement = σ.lineStatement := rfl
@[simp] theorem State.withE_shortcutOptionStatements (σ : State) (x : List ExprCb) : (σ.withE x).shortcutOptionStatements = σ.shortcutOptionStatements := rfl
@[simp] theorem State.withE_shortcutOptions (σ : State) (x : List ExprCb) : (σ.withE x).shortcutOptions = σ.shortcutOptions := rfl
@[simp] theorem State.withE_statementCallbacks (σ : State) (x : List ExprCb) : (σ.withE x).statementCallbacks = σ.statementCallbacks := rfl
@[simp] theorem State.withE_textCallback (σ : State) (x : List ExprCb) : (σ.withE x).textCallback = σ.textCallback := rfl
@[simp] theorem State.withE_expressionCallbacks (σ : State) (x : List ExprCb) : (σ.withE x).expressionCallbacks = x := rfl
@[simp] theorem State.withE_lineStatementCallbacks (σ : State) (x : List ExprCb) : (σ.withE x).lineStatementCallbacks = σ.lineStatementCallbacks := rfl
@[simp] theorem State.withE_variableCallback (σ : State) (x : List ExprCb) : (σ.withE x).variableCallback = σ.variableCallback := rfl
@[simp] theorem State.withE_clauseCallbacks (σ : State) (x : List ExprCb) : (σ.withE x).clauseCallbacks = σ.clauseCallbacks := rfl
@[simp] theorem State.withE_functionCallCallback (σ : State) (x : List ExprCb) : (σ.withE x).functionCallCallback = σ.functionCallCallback := rfl
@[simp] theorem State.withE_commandTextCallback (σ : State) (x : List ExprCb) : (σ.withE x).commandTextCallback = σ.commandTextCallback := rfl
@[simp] theorem State.withE_hashtagCallback (σ : State) (x : List ExprCb) : (σ.withE x).hashtagCallback = σ.hashtagCallback := rfl
@[simp] theorem State.withE_protoCommandStatement (σ : State) (x : List ExprCb) : (σ.withE x).protoCommandStatement = σ.protoCommandStatement := rfl
@[simp] theorem State.withE_self (σ : State) : σ.withE σ.expressionCallbacks = σ := rfl
@[simp] theorem State.withE_withE (σ : State) (x y : List ExprCb) : (σ.withE x).withE y = σ.withE y := rfl

@[simp] theorem State.withL_next (σ : State) (x : List LineCb) : (σ.withL x).next = σ.next := rfl
@[simp] theorem State.withL_alive (σ : State) (x : List LineCb) : (σ.withL x).alive = σ.alive := rfl
@[simp] theorem State.withL_nodes (σ : State) (x : List LineCb) : (σ.withL x).nodes = σ.nodes := rfl
@[simp] theorem State.withL_node (σ : State) (x : List LineCb) : (σ.withL x).node = σ.node := rfl
@[simp] theorem State.withL_lineStatement (σ : State) (x : List LineCb) : (σ.withL x).lineStatement = σ.lineStatement := rfl
@[simp] theorem State.withL_shortcutOptionStatements (σ : State) (x : List LineCb) : (σ.withL x).shortcutOptionStatements = σ.shortcutOptionStatements := rfl
@[simp] theorem State.withL_shortcutOptions (σ : State) (x : List LineCb) : (σ.withL x).shortcutOptions = σ.shortcutOptions := rfl
@[simp] theorem State.withL_statementCallbacks (σ : State) (x : List LineCb) : (σ.withL x).statementCallbacks = σ.statementCallbacks := rfl
@[simp] theorem State.withL_textCallback (σ : State) (x : List LineCb) : (σ.withL x).textCallback = σ.textCallback := rfl
@[simp] theorem State.withL_expressionCallbacks (σ : State) (x : List LineCb) : (σ.withL x).expressionCallbacks = σ.expressionCallbacks := rfl
@[simp] theorem State.withL_lineStatementCallbacks (σ : State) (x : List LineCb) : (σ.withL x).lineStatementCallbacks = x := rfl
@[simp] theorem State.withL_variableCallback (σ : State) (x : List LineCb) : (σ.withL x).variableCallback = σ.variableCallback := rfl
@[simp] theorem State.withL_clauseCallbacks (σ : State) (x : List LineCb) : (σ.withL x).clauseCallbacks = σ.clauseCallbacks := rfl
@[simp] theorem State.withL_functionCallCallback (σ : State) (x : List LineCb) : (σ.withL x).functionCallCallback = σ.functionCallCallback := rfl
@[simp] theorem State.withL_commandTextCallback (σ : State) (x : List LineCb) : (σ.withL x).commandTextCallback = σ.commandTextCallback := rfl
@[simp] theorem State.withL_hashtagCallback (σ : State) (x : List LineCb) : (σ.withL x).hashtagCallback = σ.hashtagCallback := rfl
@[simp] theorem State.withL_protoCommandStatement (σ : State) (x : List LineCb) : (σ.withL x).protoCommandStatement = σ.protoCommandStatement := rfl
@[simp] theorem State.withL_self (σ : State) : σ.withL σ.lineStatementCallbacks = σ := rfl
@[simp] theorem State.withL_withL (σ : State) (x y : List LineCb) : (σ.withL x).withL y = σ.withL y := rfl

@[simp] theorem State.withVar_next (σ : State) (x : Option VarCb) : (σ.withVar x).next = σ.next := rfl
@[simp] theorem State.withVar_alive (σ : State) (x : Option VarCb) : (σ.withVar x).alive = σ.alive := rfl
@[simp] theorem State.withVar_nodes (σ : State) (x : Option VarCb) : (σ.withVar x).nodes = σ.nodes := rfl
@[simp] theorem State.withVar_node (σ : State) (x : Option VarCb) : (σ.withVar x).node = σ.node := rfl
@[simp] theorem State.withVar_lineStatement (σ : State) (x : Option VarCb) : (σ.withVar x).lineStatement = σ.lineStatement := rfl
@[simp] theorem State.withVar_shortcutOptionStatements (σ : State) (x : Option VarCb) : (σ.withVar x).shortcutOptionStatements = σ.shortcutOptionStatements := rfl
@[simp] theorem State.withVar_shortcutOptions (σ : State) (x : Option VarCb) : (σ.withVar x).shortcutOptions = σ.shortcutOptions := rfl
@[simp] theorem State.withVar_statementCallbacks (σ : State) (x : Option VarCb) : (σ.withVar x).statementCallbacks = σ.statementCallbacks := rfl
@[simp] theorem State.withVar_textCallback (σ : State) (x : Option VarCb) : (σ.withVar x).textCallback = σ.textCallback := rfl
@[simp] theorem State.withVar_expressionCallbacks (σ : State) (x : Option VarCb) : (σ.withVar x).expressionCallbacks = σ.expressionCallbacks := rfl
@[simp] theorem State.withVar_lineStatementCallbacks (σ : State) (x : Option VarCb) : (σ.withVar x).lineStatementCallbacks = σ.lineStatementCallbacks := rfl
@[simp] theorem State.withVar_variableCallback (σ : State) (x : Option VarCb) : (σ.withVar x).variableCallback = x := rfl
@[simp] theorem State.withVar_clauseCallbacks (σ : State) (x : Option VarCb) : (σ.withVar x).clauseCallbacks = σ.clauseCallbacks := rfl
@[simp] theorem State.withVar_functionCallCallback (σ : State) (x : Option VarCb) : (σ.withVar x).functionCallCallback = σ.functionCallCallback := rfl
@[simp] theorem State.withVar_commandTextCallback (σ : State) (x : Option VarCb) : (σ.withVar x).commandTextCallback = σ.commandTextCallback := rfl
@[simp] theorem State.withVar_hashtagCallback (σ : State) (x : Option VarCb) : (σ.withVar x).hashtagCallback = σ.hashtagCallback := rfl
@[simp] theorem State.withVar_protoCommandStatement (σ : State) (x : Option VarCb) : (σ.withVar x).protoCommandStatement = σ.protoCommandStatement := rfl
@[simp] theorem State.withVar_self (σ : State) : σ.withVar σ.variableCallback = σ := rfl
@[simp] theorem State.withVar_withVar (σ : State) (x y : Option VarCb) : (σ.withVar x).withVar y = σ.withVar y := rfl

@[simp] theorem State.withC_next (σ : State) (x : List ClauseCb) : (σ.withC x).next = σ.next := rfl
@[simp] theorem State.withC_alive (σ : State) (x : List ClauseCb) : (σ.withC x).alive = σ.alive := rfl
@[simp] theorem State.withC_nodes (σ : State) (x : List ClauseCb) : (σ.withC x).nodes = σ.nodes := rfl
@[simp] theorem State.withC_node (σ : State) (x : List ClauseCb) : (σ.withC x).node = σ.node := rfl
@[simp] theorem State.withC_lineStatement (σ : State) (x : List ClauseCb) : (σ.withC x).lineStatement = σ.lineStatement := rfl
@[simp] theorem State.withC_shortcutOptionStatements (σ : State) (x : List ClauseCb) : (σ.withC x).shortcutOptionStatements = σ.shortcutOptionStatements := rfl
@[simp] theorem State.withC_shortcutOptions (σ : State) (x : List ClauseCb) : (σ.withC x).shortcutOptions = σ.shortcutOptions := rfl
@[simp] theorem State.withC_statementCallbacks (σ : State) (x : List ClauseCb) : (σ.withC x).statementCallbacks = σ.statementCallbacks := rfl
@[simp] theorem State.withC_textCallback (σ : State) (x : List ClauseCb) : (σ.withC x).textCallback = σ.textCallback := rfl
@[simp] theorem State.withC_expressionCallbacks (σ : State) (x : List ClauseCb) : (σ.withC x).expressionCallbacks = σ.expressionCallbacks := rfl
@[simp] theorem State.withC_lineStatementCallbacks (σ : State) (x : List ClauseCb) : (σ.withC x).lineStatementCallbacks = σ.lineStatementCallbacks := rfl
@[simp] theorem State.withC_variableCallback (σ : State) (x : List ClauseCb) : (σ.withC x).variableCallback = σ.variableCallback := rfl
@[simp] theorem State.withC_clauseCallbacks (σ : State) (x : List ClauseCb) : (σ.withC x).clauseCallbacks = x := rfl
@[simp] theorem State.withC_functionCallCallback (σ : State) (x : List ClauseCb) : (σ.withC x).functionCallCallback = σ.functionCallCallback := rfl
@[simp] theorem State.withC_commandTextCallback (σ : State) (x : List ClauseCb) : (σ.withC x).commandTextCallback = σ.commandTextCallback := rfl
@[simp] theorem State.withC_hashtagCallback (σ : State) (x : List ClauseCb) : (σ.withC x).hashtagCallback = σ.hashtagCallback := rfl
@[simp] theorem State.withC_protoCommandStatement (σ : State) (x : List ClauseCb) : (σ.withC x).protoCommandStatement = σ.protoCommandStatement := rfl
@[simp] theorem State.withC_self (σ : State) : σ.withC σ.clauseCallbacks = σ := rfl
@[simp] theorem State.withC_withC (σ : State) (x y : List ClauseCb) : (σ.withC x).withC y = σ.withC y := rfl

@[simp] theorem State.withFn_next (σ : State) (x : Option FnCb) : (σ.withFn x).next = σ.next := rfl
@[simp] theorem State.withFn_alive (σ : State) (x : Option FnCb) : (σ.withFn x).alive = σ.alive := rfl
@[simp] theorem State.withFn_nodes (σ : State) (x : Option FnCb) : (σ.withFn x).nodes = σ.nodes := rfl
@[simp] theorem State.withFn_node (σ : State) (x : Option FnCb) : (σ.withFn x).node = σ.node := rfl
@[simp] theorem State.withFn_lineStatement (σ : State) (x : Option FnCb) : (σ.withFn x).lineStatement = σ.lineStatement := rfl
@[simp] theorem State.withFn_shortcutOptionStatements (σ : State) (x : Option FnCb) : (σ.withFn x).shortcutOptionStatements = σ.shortcutOptionStatements := rfl
@[simp] theorem State.withFn_shortcutOptions (σ : State) (x : Option FnCb) : (σ.withFn x).shortcutOptions = σ.shortcutOptions := rfl
@[simp] theorem State.withFn_statementCallbacks (σ : State) (x : Option FnCb) : (σ.withFn x).statementCallbacks = σ.statementCallbacks := rfl
@[simp] theorem State.withFn_textCallback (σ : State) (x : Option FnCb) : (σ.withFn x).textCallback = σ.textCallback := rfl
@[simp] theorem State.withFn_expressionCallbacks (σ : State) (x : Option FnCb) : (σ.withFn x).expressionCallbacks = σ.expressionCallbacks := rfl
@[simp] theorem State.withFn_lineStatementCallbacks (σ : State) (x : Option FnCb) : (σ.withFn x).lineStatementCallbacks = σ.lineStatementCallbacks := rfl
@[simp] theorem State.withFn_variableCallback (σ : State) (x : Option FnCb) : (σ.withFn x).variableCallback = σ.variableCallback := rfl
@[simp] theorem State.withFn_clauseCallbacks (σ : State) (x : Option FnCb) : (σ.withFn x).clauseCallbacks = σ.clauseCallbacks := rfl
@[simp] theorem State.withFn_functionCallCallback (σ : State) (x : Option FnCb) : (σ.withFn x).functionCallCallback = x := rfl
@[simp] theorem State.withFn_commandTextCallback (σ : State) (x : Option FnCb) : (σ.withFn x).commandTextCallback = σ.commandTextCallback := rfl
@[simp] theorem State.withFn_hashtagCallback (σ : State) (x : Option FnCb) : (σ.withFn x).hashtagCallback = σ.hashtagCallback := rfl
@[simp] theorem State.withFn_protoCommandStatement (σ : State) (x : Option FnCb) : (σ.withFn x).protoCommandStatement = σ.protoCommandStatement := rfl
@[simp] theorem State.withFn_self (σ : State) : σ.withFn σ.functionCallCallback = σ := rfl
@[simp] theorem State.withFn_withFn (σ : State) (x y : Option FnCb) : (σ.withFn x).withFn y = σ.withFn y := rfl

@[simp] theorem State.withCmdText_next (σ : State) (x : Option Nat) : (σ.withCmdText x).next = σ.next := rfl
@[simp] theorem State.withCmdText_alive (σ : State) (x : Option Nat) : (σ.withCmdText x).alive = σ.alive := rfl
@[simp] theorem State.withCmdText_nodes (σ : State) (x : Option Nat) : (σ.withCmdText x).nodes = σ.nodes := rfl
@[simp] theorem State.withCmdText_node (σ : State) (x : Option Nat) : (σ.withCmdText x).node = σ.node := rfl
@[simp] theorem State.withCmdText_lineStatement (σ : State) (x : Option Nat) : (σ.withCmdText x).lineStatement = σ.lineStatement := rfl
@[simp] theorem State.withCmdText_shortcutOptionStatements (σ : State) (x : Option Nat) : (σ.withCmdText x).shortcutOptionStatements = σ.shortcutOptionStatements := rfl
@[simp] theorem State.withCmdText_shortcutOptions (σ : State) (x : Option Nat) : (σ.withCmdText x).shortcutOptions = σ.shortcutOptions := rfl
@[simp] theorem State.withCmdText_statementCallbacks (σ : State) (x : Option Nat) : (σ.withCmdText x).statementCallbacks = σ.statementCallbacks := rfl
@[simp] theorem State.withCmdText_textCallback (σ : State) (x : Option Nat) : (σ.withCmdText x).textCallback = σ.textCallback := rfl
@[simp] theorem State.withCmdText_expressionCallbacks (σ : State) (x : Option Nat) : (σ.withCmdText x).expressionCallbacks = σ.expressionCallbacks := rfl
@[simp] theorem State.withCmdText_lineStatementCallbacks (σ : State) (x : Option Nat) : (σ.withCmdText x).lineStatementCallbacks = σ.lineStatementCallbacks := rfl
@[simp] theorem State.withCmdText_variableCallback (σ : State) (x : Option Nat) : (σ.withCmdText x).variableCallback = σ.variableCallback := rfl
@[simp] theorem State.withCmdText_clauseCallbacks (σ : State) (x : Option Nat) : (σ.withCmdText x).clauseCallbacks = σ.clauseCallbacks := rfl
@[simp] theorem State.withCmdText_functionCallCallback (σ : State) (x : Option Nat) : (σ.withCmdText x).functionCallCallback = σ.functionCallCallback := rfl
@[simp] theorem State.withCmdText_commandTextCallback (σ : State) (x : Option Nat) : (σ.withCmdText x).commandTextCallback = x := rfl
@[simp] theorem State.withCmdText_hashtagCallback (σ : State) (x : Option Nat) : (σ.withCmdText x).hashtagCallback = σ.hashtagCallback := rfl
@[simp] theorem State.withCmdText_protoCommandStatement (σ : State) (x : Option Nat) : (σ.withCmdText x).protoCommandStatement = σ.protoCommandStatement := rfl
@[simp] theorem State.withCmdText_self (σ : State) : σ.withCmdText σ.commandTextCallback = σ := rfl
@[simp] theorem State.withCmdText_withCmdText (σ : State) (x y : Option Nat) : (σ.withCmdText x).withCmdText y = σ.withCmdText y := rfl

@[simp] theorem State.withHash_next (σ : State) (x : Bool) : (σ.withHash x).next = σ.next := rfl
@[simp] theorem State.withHash_alive (σ : State) (x : Bool) : (σ.withHash x).alive = σ.alive := rfl
@[simp] theorem State.withHash_nodes (σ : State) (x : Bool) : (σ.withHash x).nodes = σ.nodes := rfl
@[simp] theorem State.withHash_node (σ : State) (x : Bool) : (σ.withHash x).node = σ.node := rfl
@[simp] theorem State.withHash_lineStatement (σ : State) (x : Bool) : (σ.withHash x).lineStatement = σ.lineStatement := rfl
@[simp] theorem State.withHash_shortcutOptionStatements (σ : State) (x : Bool) : (σ.withHash x).shortcutOptionStatements = σ.shortcutOptionStatements := rfl
@[simp] theorem State.withHash_shortcutOptions (σ : State) (x : Bool) : (σ.withHash x).shortcutOptions = σ.shortcutOptions := rfl
@[simp] theorem State.withHash_statementCallbacks (σ : State) (x : Bool) : (σ.withHash x).statementCallbacks = σ.statementCallbacks := rfl
@[simp] theorem State.withHash_textCallback (σ : State) (x : Bool) : (σ.withHash x).textCallback = σ.textCallback := rfl
@[simp] theorem State.withHash_expressionCallbacks (σ : State) (x : Bool) : (σ.withHash x).expressionCallbacks = σ.expressionCallbacks := rfl
@[simp] theorem State.withHash_lineStatementCallbacks (σ : State) (x : Bool) : (σ.withHash x).lineStatementCallbacks = σ.lineStatementCallbacks := rfl
@[simp] theorem State.withHash_variableCallback (σ : State) (x : Bool) : (σ.withHash x).variableCallback = σ.variableCallback := rfl
@[simp] theorem State.withHash_clauseCallbacks (σ : State) (x : Bool) : (σ.withHash x).clauseCallbacks = σ.clauseCallbacks := rfl
@[simp] theorem State.withHash_functionCallCallback (σ : State) (x : Bool) : (σ.withHash x).functionCallCallback = σ.functionCallCallback := rfl
@[simp] theorem State.withHash_commandTextCallback (σ : State) (x : Bool) : (σ.withHash x).commandTextCallback = σ.commandTextCallback := rfl
@[simp] theorem State.withHash_hashtagCallback (σ : State) (x : Bool) : (σ.withHash x).hashtagCallback = x := rfl
@[simp] theorem State.withHash_protoCommandStatement (σ : State) (x : Bool) : (σ.withHash x).protoCommandStatement = σ.protoCommandStatement := rfl
@[simp] theorem State.withHash_self (σ : State) : σ.withHash σ.hashtagCallback = σ := rfl
@[simp] theorem State.withHash_withHash (σ : State) (x y : Bool) : (σ.withHash x).withHash y = σ.withHash y := rfl

@[simp] theorem State.withProto_next (σ : State) (x : Option Nat) : (σ.withProto x).next = σ.next := rfl
@[simp] theorem State.withProto_alive (σ : State) (x : Option Nat) : (σ.withProto x).alive = σ.alive := rfl
@[simp] theorem State.withProto_nodes (σ : State) (x : Option Nat) : (σ.withProto x).nodes = σ.nodes := rfl
@[simp] theorem State.withProto_node (σ : State) (x : Option Nat) : (σ.withProto x).node = σ.node := rfl
@[simp] theorem State.withProto_lineStatement (σ : State) (x : Option Nat) : (σ.withProto x).lineStatement = σ.lineStatement := rfl
@[simp] theorem State.withProto_shortcutOptionStatements (σ : State) (x : Option Nat) : (σ.withProto x).shortcutOptionStatements = σ.shortcutOptionStatements := rfl
@[simp] theorem State.withProto_shortcutOptions (σ : State) (x : Option Nat) : (σ.withProto x).shortcutOptions = σ.shortcutOptions := rfl
@[simp] theorem State.withProto_statementCallbacks (σ : State) (x : Option Nat) : (σ.withProto x).statementCallbacks = σ.statementCallbacks := rfl
@[simp] theorem State.withProto_textCallback (σ : State) (x : Option Nat) : (σ.withProto x).textCallback = σ.textCallback := rfl
@[simp] theorem State.withProto_expressionCallbacks (σ : State) (x : Option Nat) : (σ.withProto x).expressionCallbacks = σ.expressionCallbacks := rfl
@[simp] theorem State.withProto_lineStatementCallbacks (σ : State) (x : Option Nat) : (σ.withProto x).lineStatementCallbacks = σ.lineStatementCallbacks := rfl
@[simp] theorem State.withProto_variableCallback (σ : State) (x : Option Nat) : (σ.withProto x).variableCallback = σ.variableCallback := rfl
@[simp] theorem State.withProto_clauseCallbacks (σ : State) (x : Option Nat) : (σ.withProto x).clauseCallbacks = σ.clauseCallbacks := rfl
@[simp] theorem State.withProto_functionCallCallback (σ : State) (x : Option Nat) : (σ.withProto x).functionCallCallback = σ.functionCallCallback := rfl
@[simp] theorem State.withProto_commandTextCallback (σ : State) (x : Option Nat) : (σ.withProto x).commandTextCallback = σ.commandTextCallback := rfl
@[simp] theorem State.withProto_hashtagCallback (σ : State) (x : Option Nat) : (σ.withProto x).hashtagCallback = σ.hashtagCallback := rfl
@[simp] theorem State.withProto_protoCommandStatement (σ : State) (x : Option Nat) : (σ.withProto x).protoCommandStatement = x := rfl
@[simp] theorem State.withProto_self (σ : State) : σ.withProto σ.protoCommandStatement = σ := rfl
@[simp] theorem State.withProto_withProto (σ : State) (x y : Option Nat) : (σ.withProto x).withProto y = σ.withProto y := rfl

@[simp] theorem State.ghost_next (σ : State) (n : Nat) (f : Option FnCb) : (σ.ghost n f).next = n := rfl
@[simp] theorem State.ghost_alive (σ : State) (n : Nat) (f : Option FnCb) : (σ.ghost n f).alive = σ.alive := rfl
@[simp] theorem State.ghost_nodes (σ : State) (n : Nat) (f : Option FnCb) : (σ.ghost n f).nodes = σ.nodes := rfl
@[simp] theorem State.ghost_node (σ : State) (n : Nat) (f : Option FnCb) : (σ.ghost n f).node = σ.node := rfl
@[simp] theorem State.ghost_lineStatement (σ : State) (n : Nat) (f : Option FnCb) : (σ.ghost n f).lineStatement = σ.lineStatement := rfl
@[simp] theorem State.ghost_shortcutOptionStatements (σ : State) (n : Nat) (f : Option FnCb) : (σ.ghost n f).shortcutOptionStatements = σ.shortcutOptionStatements := rfl
@[simp] theorem State.ghost_shortcutOptions (σ : State) (n : Nat) (f : Option FnCb) : (σ.ghost n f).shortcutOptions = σ.shortcutOptions := rfl
@[simp] theorem State.ghost_statementCallbacks (σ : State) (n : Nat) (f : Option FnCb) : (σ.ghost n f).statementCallbacks = σ.statementCallbacks := rfl
@[simp] theorem State.ghost_textCallback (σ : State) (n : Nat) (f : Option FnCb) : (σ.ghost n f).textCallback = σ.textCallback := rfl
@[simp] theorem State.ghost_expressionCallbacks (σ : State) (n : Nat) (f : Option FnCb) : (σ.ghost n f).expressionCallbacks = σ.expressionCallbacks := rfl
@[simp] theorem State.ghost_lineStatementCallbacks (σ : State) (n : Nat) (f : Option FnCb) : (σ.ghost n f).lineStatementCallbacks = σ.lineStatementCallbacks := rfl
@[simp] theorem State.ghost_variableCallback (σ : State) (n : Nat) (f : Option FnCb) : (σ.ghost n f).variableCallback = σ.variableCallback := rfl
@[simp] theorem State.ghost_clauseCallbacks (σ : State) (n : Nat) (f : Option FnCb) : (σ.ghost n f).clauseCallbacks = σ.clauseCallbacks := rfl
@[simp] theorem State.ghost_functionCallCallback (σ : State) (n : Nat) (f : Option FnCb) : (σ.ghost n f).functionCallCallback = f := rfl
@[simp] theorem State.ghost_commandTextCallback (σ : State) (n : Nat) (f : Option FnCb) : (σ.ghost n f).commandTextCallback = σ.commandTextCallback := rfl
@[simp] theorem State.ghost_hashtagCallback (σ : State) (n : Nat) (f : Option FnCb) : (σ.ghost n f).hashtagCallback = σ.hashtagCallback := rfl
@[simp] theorem State.ghost_protoCommandStatement (σ : State) (n : Nat) (f : Option FnCb) : (σ.ghost n f).protoCommandStatement = σ.protoCommandStatement := rfl
@[simp] theorem State.ghost_ghost (σ : State) (n n' : Nat) (f f' : Option FnCb) : (σ.ghost n f).ghost n' f' = σ.ghost n' f' := rfl
theorem State.ghost_self (σ : State) : σ.ghost σ.next σ.functionCallCallback = σ := rfl

@[simp] theorem State.modify_next (σ : State) (k : Nat) (m : Mut) : (σ.modify k m).next = σ.next := rfl
@[simp] theorem State.modify_alive (σ : State) (k : Nat) (m : Mut) : (σ.modify k m).alive = σ.alive := rfl
@[simp] theorem State.modify_statementCallbacks (σ : State) (k : Nat) (m : Mut) : (σ.modify k m).statementCallbacks = σ.statementCallbacks := rfl
@[simp] theorem State.modify_textCallback (σ : State) (k : Nat) (m : Mut) : (σ.modify k m).textCallback = σ.textCallback := rfl
@[simp] theorem State.modify_lineStatementCallbacks (σ : State) (k : Nat) (m : Mut) : (σ.modify k m).lineStatementCallbacks = σ.lineStatementCallbacks := rfl
@[simp] theorem State.modify_variableCallback (σ : State) (k : Nat) (m : Mut) : (σ.modify k m).variableCallback = σ.variableCallback := rfl
@[simp] theorem State.modify_clauseCallbacks (σ : State) (k : Nat) (m : Mut) : (σ.modify k m).clauseCallbacks = σ.clauseCallbacks := rfl
@[simp] theorem State.modify_functionCallCallback (σ : State) (k : Nat) (m : Mut) : (σ.modify k m).functionCallCallback = σ.functionCallCallback := rfl
@[simp] theorem State.modify_commandTextCallback (σ : State) (k : Nat) (m : Mut) : (σ.modify k m).commandTextCallback = σ.commandTextCallback := rfl
@[simp] theorem State.modify_hashtagCallback (σ : State) (k : Nat) (m : Mut) : (σ.modify k m).hashtagCallback = σ.hashtagCallback := rfl
@[simp] theorem State.modify_protoCommandStatement (σ : State) (k : Nat) (m : Mut) : (σ.modify k m).protoCommandStatement = σ.protoCommandStatement := rfl
@[simp] theorem State.modify_nodes (σ : State) (k : Nat) (m : Mut) : (σ.modify k m).nodes = σ.nodes.map (PNode.modify k m) := rfl
@[simp] theorem State.modify_node (σ : State) (k : Nat) (m : Mut) : (σ.modify k m).node = σ.node.map (PNode.modify k m) := rfl
@[simp] theorem State.modify_lineStatement (σ : State) (k : Nat) (m : Mut) : (σ.modify k m).lineStatement = σ.lineStatement.map (PLine.modify k m) := rfl
@[simp] theorem State.modify_shortcutOptionStatements (σ : State) (k : Nat) (m : Mut) : (σ.modify k m).shortcutOptionStatements = σ.shortcutOptionStatements.map (POpt.modifyList k m) := rfl
@[simp] theorem State.modify_shortcutOptions (σ : State) (k : Nat) (m : Mut) : (σ.modify k m).shortcutOptions = POpt.modifyList k m σ.shortcutOptions := rfl
@[simp] theorem State.modify_expressionCallbacks (σ : State) (k : Nat) (m : Mut) : (σ.modify k m).expressionCallbacks = σ.expressionCallbacks.map (ExprCb.modify k m) := rfl

theorem State.modify_withNext (σ : State) (x : Nat) (k : Nat) (m : Mut) : (σ.withNext x).modify k m = (σ.modify k m).withNext x := rfl
theorem State.modify_withS (σ : State) (x : List StmtCb) (k : Nat) (m : Mut) : (σ.withS x).modify k m = (σ.modify k m).withS x := rfl
theorem State.modify_withText (σ : State) (x : Option Nat) (k : Nat) (m : Mut) : (σ.withText x).modify k m = (σ.modify k m).withText x := rfl
theorem State.modify_withL (σ : State) (x : List LineCb) (k : Nat) (m : Mut) : (σ.withL x).modify k m = (σ.modify k m).withL x := rfl
theorem State.modify_withVar (σ : State) (x : Option VarCb) (k : Nat) (m : Mut) : (σ.withVar x).modify k m = (σ.modify k m).withVar x := rfl
theorem State.modify_withC (σ : State) (x : List ClauseCb) (k : Nat) (m : Mut) : (σ.withC x).modify k m = (σ.modify k m).withC x := rfl
theorem State.modify_withFn (σ : State) (x : Option FnCb) (k : Nat) (m : Mut) : (σ.withFn x).modify k m = (σ.modify k m).withFn x := rfl
theorem State.modify_withCmdText (σ : State) (x : Option Nat) (k : Nat) (m : Mut) : (σ.withCmdText x).modify k m = (σ.modify k m).withCmdText x := rfl
theorem State.modify_withHash (σ : State) (x : Bool) (k : Nat) (m : Mut) : (σ.withHash x).modify k m = (σ.modify k m).withHash x := rfl
theorem State.modify_withProto (σ : State) (x : Option Nat) (k : Nat) (m : Mut) : (σ.withProto x).modify k m = (σ.modify k m).withProto x := rfl
theorem State.modify_withE (σ : State) (x : List ExprCb) (k : Nat) (m : Mut) : (σ.withE x).modify k m = (σ.modify k m).withE (x.map (ExprCb.modify k m)) := rfl
theorem State.modify_withLine (σ : State) (x : Option PLine) (k : Nat) (m : Mut) : (σ.withLine x).modify k m = (σ.modify k m).withLine (x.map (PLine.modify k m)) := rfl
theorem State.modify_withNode (σ : State) (x : Option PNode) (k : Nat) (m : Mut) : (σ.withNode x).modify k m = (σ.modify k m).withNode (x.map (PNode.modify k m)) := rfl
theorem State.modify_withGroups (σ : State) (x : List (List POpt)) (k : Nat) (m : Mut) : (σ.withGroups x).modify k m = (σ.modify k m).withGroups (x.map (POpt.modifyList k m)) := rfl
theorem State.modify_withNodes (σ : State) (x : List PNode) (k : Nat) (m : Mut) : (σ.withNodes x).modify k m = (σ.modify k m).withNodes (x.map (PNode.modify k m)) := rfl

theorem State.ext' {σ τ : State}
    (h_next : σ.next = τ.next)
    (h_alive : σ.alive = τ.alive)
    (h_nodes : σ.nodes = τ.nodes)
    (h_node : σ.node = τ.node)
    (h_lineStatement : σ.lineStatement = τ.lineStatement)
    (h_shortcutOptionStatements : σ.shortcutOptionStatements = τ.shortcutOptionStatements)
    (h_shortcutOptions : σ.shortcutOptions = τ.shortcutOptions)
    (h_statementCallbacks : σ.statementCallbacks = τ.statementCallbacks)
    (h_textCallback : σ.textCallback = τ.textCallback)
    (h_expressionCallbacks : σ.expressionCallbacks = τ.expressionCallbacks)
    (h_lineStatementCallbacks : σ.lineStatementCallbacks = τ.lineStatementCallbacks)
    (h_variableCallback : σ.variableCallback = τ.variableCallback)
    (h_clauseCallbacks : σ.clauseCallbacks = τ.clauseCallbacks)
    (h_functionCallCallback : σ.functionCallCallback = τ.functionCallCallback)
    (h_commandTextCallback : σ.commandTextCallback = τ.commandTextCallback)
    (h_hashtagCallback : σ.hashtagCallback = τ.hashtagCallback)
    (h_protoCommandStatement : σ.protoCommandStatement = τ.protoCommandStatement)
    : σ = τ := by
  cases σ; cases τ; simp_all

end Ysgo.Listener
