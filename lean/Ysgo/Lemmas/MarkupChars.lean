import Ysgo.Model.Markup
/-!
# Character facts used by the scanner lemmas

Facts about the generated Unicode tables are proved by kernel evaluation (`decide +kernel`: no axiom beyond the kernel's
own computation rules).
-/
namespace Ysgo.Markup
open Ysgo.Unicode Ysgo.Generated.Unicode

/-- the 25 code points of `unicode.IsSpace` -/
def spaceList : List Nat :=
  [9, 10, 11, 12, 13, 32, 0x85, 0xA0, 0x1680, 0x2000, 0x2001, 0x2002, 0x2003, 0x2004, 0x2005, 0x2006, 0x2007, 0x2008,
   0x2009, 0x200A, 0x2028, 0x2029, 0x202F, 0x205F, 0x3000]

theorem space_mem (n : Nat) (h : inRangesLin spaceRanges.toList n = true) : n ∈ spaceList := by
  simp only [inRangesLin, spaceRanges, List.any_cons, List.any_nil, Bool.or_false, Bool.or_eq_true, Bool.and_eq_true,
    decide_eq_true_eq] at h
  simp only [spaceList, List.mem_cons, List.not_mem_nil, or_false]
  omega

theorem spaceList_not_id : ∀ n ∈ spaceList, (inRanges letterRanges n || inRanges digitRanges n || n == 95) = false := by
  decide +kernel

/-- an identifier character (letter, digit, `_`) is not white space -/
theorem isIdChar_not_space (c : Char) (h : isIdChar c = true) : isSpace c = false := by
  cases hs : isSpace c with
  | false => rfl
  | true =>
    exfalso
    have := spaceList_not_id c.toNat (space_mem _ hs)
    unfold isIdChar isLetter isDigit at h
    have h95 : (c = '_') → c.toNat = 95 := by intro h; subst h; rfl
    simp only [Bool.or_eq_true, Bool.or_eq_false_iff, decide_eq_true_eq, beq_eq_false_iff_ne] at h this
    rcases h with (h | h) | h
    · simp [h] at this
    · simp [h] at this
    · exact this.2 (h95 h)

theorem isSpace_not_id (c : Char) (h : isSpace c = true) : isIdChar c = false := by
  cases hi : isIdChar c with
  | false => rfl
  | true => rw [isIdChar_not_space c hi] at h; exact absurd h (by simp)

theorem isIdChar_rbracket : isIdChar ']' = false := by decide +kernel
theorem isIdChar_slash : isIdChar '/' = false := by decide +kernel
theorem isIdChar_eq : isIdChar '=' = false := by decide +kernel
theorem isSpace_rbracket : isSpace ']' = false := by decide +kernel
theorem isSpace_lbracket : isSpace '[' = false := by decide +kernel
theorem isSpace_slash : isSpace '/' = false := by decide +kernel
theorem isSpace_backslash : isSpace '\\' = false := by decide +kernel
theorem isSpace_nul : isSpace (Char.ofNat 0) = false := by decide +kernel

theorem ofList_inj {a b : List Char} : String.ofList a = String.ofList b ↔ a = b := by
  constructor
  · intro h
    have := congrArg String.toList h
    simpa [String.toList_ofList] using this
  · intro h; rw [h]

theorem ofList_eq_lit (a : List Char) (s : String) : String.ofList a = s ↔ a = s.toList := by
  constructor
  · intro h; rw [← h, String.toList_ofList]
  · intro h; rw [h, String.ofList_toList]

end Ysgo.Markup
