import Ysgo.Model.Fmt
/-!
# F64 lemma library, part 1 (core only): fields of `pack`, shape of `decode`, `neg`, `zero`

Big constants stay behind the names `P52 P53 P63`; they are unfolded only immediately before `omega`.
-/
namespace Ysgo
namespace F64

theorem pow52 : 2 ^ 52 = P52 := by rfl
theorem pow53 : 2 ^ 53 = P53 := by rfl
theorem P53_eq : P53 = 2 * P52 := by rfl

/-- a double is finite: neither NaN nor an infinity (decidable on the bits) -/
def Finite (x : F64) : Prop := expField x ≠ 2047
instance (x : F64) : Decidable (Finite x) := by unfold Finite; infer_instance

/-- `|x| < 2^52` for a finite double, as a decidable predicate on the exponent field
(biased exponent 1075 = 1023 + 52 is the binade `[2^52, 2^53)`); see `lt52_iff_val` in `F64Val`. -/
def Lt52 (x : F64) : Prop := expField x < 1075
instance (x : F64) : Decidable (Lt52 x) := by unfold Lt52; infer_instance

theorem Lt52.finite {x : F64} (h : Lt52 x) : Finite x := by
  unfold Lt52 at h; unfold Finite; omega

theorem fields_pack (neg : Bool) (e f : Nat) (he : e < 2048) (hf : f < P52) :
    expField (pack neg e f) = e ∧ fracField (pack neg e f) = f ∧ signBit (pack neg e f) = neg := by
  unfold expField fracField signBit pack P52 P63 at *
  cases neg <;> simp <;> omega

/-- decoding a packed subnormal (or zero) -/
theorem decode_pack_sub (neg : Bool) (f : Nat) (hf : f < P52) :
    decode (pack neg 0 f) = .fin neg f (-1074) := by
  obtain ⟨he, hfr, hs⟩ := fields_pack neg 0 f (by omega) hf
  unfold decode
  rw [he, hfr, hs]
  simp

/-- decoding a packed normal number -/
theorem decode_pack_norm (neg : Bool) (E f : Nat) (h0 : 0 < E) (hE : E < 2047) (hf : f < P52) :
    decode (pack neg E f) = .fin neg (f + P52) ((E : Int) - 1075) := by
  obtain ⟨he, hfr, hs⟩ := fields_pack neg E f (by omega) hf
  unfold decode
  rw [he, hfr, hs, if_neg (by omega), if_neg (by omega)]

theorem decode_zero (neg : Bool) : decode (zero neg) = .fin neg 0 (-1074) :=
  decode_pack_sub neg 0 (by unfold P52; omega)

/-- shape of the decoded form of a finite double -/
theorem decode_finite {x : F64} (h : Finite x) :
    ∃ neg m e, decode x = .fin neg m e ∧ m < P53 ∧ -1074 ≤ e ∧ e ≤ 971 ∧ (P52 ≤ m ∨ e = -1074) := by
  unfold Finite at h
  have hfr : fracField x < P52 := by unfold fracField; exact Nat.mod_lt _ (by unfold P52; omega)
  have hex : expField x < 2048 := by unfold expField; exact Nat.mod_lt _ (by omega)
  unfold decode
  rw [if_neg h]
  by_cases h0 : expField x = 0
  · rw [if_pos h0]
    exact ⟨_, _, _, rfl, by unfold P53 P52 at *; omega, by omega, by omega, Or.inr rfl⟩
  · rw [if_neg h0]
    exact ⟨_, _, _, rfl, by unfold P53 P52 at *; omega, by omega, by omega, Or.inl (by omega)⟩

/-- shape of the decoded form of a double of magnitude below 2^52: `±m / 2^k`, `k ≥ 1` -/
theorem decode_lt52 {x : F64} (h : Lt52 x) :
    ∃ neg m k, decode x = .fin neg m (-((k : Nat) : Int)) ∧ m < P53 ∧ 1 ≤ k ∧ k ≤ 1074 := by
  unfold Lt52 at h
  have hfr : fracField x < P52 := by unfold fracField; exact Nat.mod_lt _ (by unfold P52; omega)
  unfold decode
  rw [if_neg (by omega)]
  by_cases h0 : expField x = 0
  · rw [if_pos h0]
    exact ⟨_, _, 1074, rfl, by unfold P53 P52 at *; omega, by omega, by omega⟩
  · rw [if_neg h0]
    have : ((expField x : Nat) : Int) - 1075 = -((1075 - expField x : Nat) : Int) := by omega
    rw [this]
    exact ⟨signBit x, fracField x + P52, 1075 - expField x, rfl, by unfold P53 P52 at *; omega, by omega, by omega⟩

/-- the converse: a finite double with a negative exponent is below 2^52 -/
theorem lt52_of_decode {x : F64} {neg m e} (h : decode x = .fin neg m e) (he : e < 0) : Lt52 x := by
  unfold Lt52
  unfold decode at h
  split at h
  · split at h <;> cases h
  · split at h
    · omega
    · cases h; omega

/-- a finite double that is not below 2^52 has a non-negative exponent and a normalised mantissa -/
theorem decode_ge52 {x : F64} (hf : Finite x) (h : ¬ Lt52 x) :
    ∃ neg m e, decode x = .fin neg m e ∧ P52 ≤ m ∧ m < P53 ∧ 0 ≤ e ∧ e ≤ 971 := by
  unfold Lt52 at h; unfold Finite at hf
  have hfr : fracField x < P52 := by unfold fracField; exact Nat.mod_lt _ (by unfold P52; omega)
  have hex : expField x < 2048 := by unfold expField; exact Nat.mod_lt _ (by omega)
  unfold decode
  rw [if_neg hf, if_neg (by omega)]
  exact ⟨_, _, _, rfl, by omega, by unfold P53 P52 at *; omega, by omega, by omega⟩

theorem finite_of_decode {x : F64} {neg m e} (h : decode x = .fin neg m e) : Finite x := by
  unfold Finite
  unfold decode at h
  split at h
  · split at h <;> cases h
  · omega

/-! ### negation flips the sign bit and nothing else -/

theorem fields_neg (x : F64) :
    expField (neg x) = expField x ∧ fracField (neg x) = fracField x ∧ signBit (neg x) = !signBit x := by
  obtain ⟨b⟩ := x
  unfold neg expField fracField signBit
  dsimp only
  split
  · rename_i h
    dsimp only
    unfold P52 P63 at *
    refine ⟨by omega, by omega, ?_⟩
    by_cases hs : b / 9223372036854775808 % 2 = 1
    · simp [hs]; omega
    · simp [hs]; omega
  · rename_i h
    dsimp only
    unfold P52 P63 at *
    refine ⟨by omega, by omega, ?_⟩
    by_cases hs : b / 9223372036854775808 % 2 = 1
    · simp [hs]; omega
    · simp [hs]; omega

theorem decode_neg {x : F64} {s m e} (h : decode x = .fin s m e) : decode (neg x) = .fin (!s) m e := by
  obtain ⟨he, hf, hs⟩ := fields_neg x
  unfold decode at h ⊢
  rw [he, hf, hs]
  split at h
  · split at h <;> cases h
  · rename_i h1
    rw [if_neg h1]
    split at h
    · rename_i h2; rw [if_pos h2]; cases h; rfl
    · rename_i h2; rw [if_neg h2]; cases h; rfl

end F64
end Ysgo
