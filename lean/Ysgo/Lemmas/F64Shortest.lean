import Ysgo.Lemmas.F64Display
/-!
# F64 lemma library, part 16: the digits returned by `shortest` denote a decimal inside the rounding interval

`shortest` searches, for `nd = 1 … 17`, the `nd`-digit decimals adjacent to the exact value and returns the first one that
passes the test `inside`. `shortest_inside`: whatever it returns passed that test — the decimal lies between the midpoints
to the neighbouring doubles (bounds included exactly when the mantissa is even, as round-half-even requires).
-/
namespace Ysgo
namespace F64

/-- invariant rule for `for … in list` loops in the `Id` monad -/
theorem forIn_list_inv {α σ : Type} (l : List α) (b : α → σ → Id (ForInStep σ)) (Q : σ → Prop)
    (hstep : ∀ a ∈ l, ∀ s, Q s → ∀ s', ((b a s).run = .done s' ∨ (b a s).run = .yield s') → Q s') :
    ∀ init, Q init → Q (forIn l init b).run := by
  induction l with
  | nil => intro init h; simpa using h
  | cons a l ih =>
    intro init h
    rw [List.forIn_cons]
    have ih' := ih (fun a' ha' => hstep a' (List.mem_cons_of_mem _ ha'))
    cases hb : (b a init).run with
    | done s' =>
      have := hstep a (List.mem_cons_self) init h s' (Or.inl hb)
      have e : b a init = pure (ForInStep.done s') := hb
      rw [e]
      simpa using this
    | yield s' =>
      have := hstep a (List.mem_cons_self) init h s' (Or.inr hb)
      have e : b a init = pure (ForInStep.yield s') := hb
      rw [e]
      simpa using ih' s' this

/-- the same, for a loop followed by a continuation (the shape `do let s ← for …; k s` of desugared `do` blocks) -/
theorem forIn_bind_elim {α σ τ : Type} {l : List α} {b : α → σ → Id (ForInStep σ)} {init : σ} {k : σ → Id τ} {t : τ}
    (h : (forIn l init b >>= k).run = t) (Q : σ → Prop) (hinit : Q init)
    (hstep : ∀ a ∈ l, ∀ s, Q s → ∀ s', ((b a s).run = .done s' ∨ (b a s).run = .yield s') → Q s') :
    ∃ s, Q s ∧ (k s).run = t :=
  ⟨(forIn l init b).run, forIn_list_inv l b Q hstep init hinit, h⟩

theorem pow10Rat_eq (j : ℤ) : pow10Rat j = (10 : ℚ) ^ j := by
  unfold pow10Rat
  split
  · rename_i h
    push_cast
    rw [← zpow_natCast, Int.toNat_of_nonneg h]
  · rename_i h
    push_cast
    rw [← zpow_natCast, Int.toNat_of_nonneg (by omega), zpow_neg, one_div, inv_inv]

/-- `c` lies in the rounding interval of the finite non-zero double `x = ±m·2^e`: between the midpoints to the
neighbouring doubles (the lower gap is halved at a power of two), bounds included iff `m` is even -/
def InsideRounding (x : F64) (m : ℕ) (e : ℤ) (c : ℚ) : Prop :=
  (if m % 2 = 0
    then (m : ℚ) * 2 ^ e - (if m = P52 ∧ expField x > 1 then (2 : ℚ) ^ (e - 1) else 2 ^ e) / 2 ≤ c
          ∧ c ≤ (m : ℚ) * 2 ^ e + 2 ^ e / 2
    else (m : ℚ) * 2 ^ e - (if m = P52 ∧ expField x > 1 then (2 : ℚ) ^ (e - 1) else 2 ^ e) / 2 < c
          ∧ c < (m : ℚ) * 2 ^ e + 2 ^ e / 2)

/-- **What `shortest` returns passed its own test**: the `nd`-digit number `d` with decimal exponent `k`
(value `d·10^(k-(nd-1))`, i.e. `d.ddd × 10^k`) is inside the rounding interval of `|x|` -/
theorem shortest_inside {x : F64} {d nd : ℕ} {k : ℤ} (h : shortest x = some (d, nd, k)) :
    ∃ s m e, decode x = .fin s m e ∧ m ≠ 0 ∧ 1 ≤ nd ∧ nd ≤ 17
      ∧ InsideRounding x m e ((d : ℚ) * 10 ^ (k - ((nd : ℤ) - 1))) := by
  unfold shortest at h
  cases hd : decode x with
  | nan => rw [hd] at h; simp at h
  | inf s => rw [hd] at h; simp at h
  | fin s m e =>
    rw [hd] at h
    dsimp -zeta only at h
    split at h
    · simp at h
    · rename_i hm0
      refine ⟨s, m, e, rfl, hm0, ?_⟩
      extract_lets v ulp lowGap lo hi incl inside k0 at h
      rw [Std.Legacy.Range.forIn_eq_forIn_range'] at h
      -- the invariant: a result stored in the loop state passed `inside`
      let Good : ℕ × ℕ × ℤ → Prop := fun r =>
        1 ≤ r.2.1 ∧ r.2.1 ≤ 17 ∧ inside ((r.1 : ℚ) / pow10Rat ((r.2.1 : ℤ) - 1 - r.2.2)) = true
      let Q : Option (Option (ℕ × ℕ × ℤ)) × Unit → Prop := fun st => ∀ r, st.1 = some (some r) → Good r
      have hres := forIn_bind_elim h Q ?hinit ?hstep
      case hinit => intro r hr; simp at hr
      case hstep =>
        intro a ha st _ st' hst'
        have ha' : 1 ≤ a ∧ a ≤ 17 := by
          have : a ∈ List.range' 1 17 1 := ha
          rw [List.mem_range'_1] at this
          omega
        extract_lets scale t dlo dhi clo chi okLo okHi pick at hst'
        split at hst'
        · rename_i hor
          have hpick : inside ((pick : ℚ) / scale) = true := by
            have hclo : okLo = true → inside ((dlo : ℚ) / scale) = true := by
              intro h1
              have : (decide (dlo ≥ 10 ^ (a - 1)) && inside clo) = true := h1
              rw [Bool.and_eq_true] at this
              exact this.2
            have hchi : okHi = true → inside ((dhi : ℚ) / scale) = true := fun h1 => h1
            by_cases hLo : okLo = true
            · by_cases hHi : okHi = true
              · have hp : pick = (if v - clo < chi - v then dlo
                    else if chi - v < v - clo then dhi else if dlo % 2 = 0 then dlo else dhi) := by
                  show (if (okLo && okHi) = true then _ else _) = _
                  rw [hLo, hHi]; rfl
                rw [hp]
                split
                · exact hclo hLo
                · split
                  · exact hchi hHi
                  · split
                    · exact hclo hLo
                    · exact hchi hHi
              · have hp : pick = dlo := by
                  show (if (okLo && okHi) = true then _ else _) = _
                  rw [Bool.not_eq_true] at hHi
                  rw [hLo, hHi]; rfl
                rw [hp]; exact hclo hLo
            · have hHi : okHi = true := by
                rw [Bool.not_eq_true] at hLo
                rw [hLo] at hor
                simpa using hor
              have hp : pick = dhi := by
                show (if (okLo && okHi) = true then _ else _) = _
                rw [Bool.not_eq_true] at hLo
                rw [hLo, hHi]; rfl
              rw [hp]; exact hchi hHi
          split at hst'
          · rename_i hp10
            have hs : st' = (some (some (10 ^ (a - 1), a, k0 + 1)), ()) := by
              rcases hst' with h1 | h1
              · exact (ForInStep.done.inj h1).symm
              · cases h1
            intro r hr
            rw [hs] at hr
            simp only [Option.some.injEq] at hr
            subst hr
            refine ⟨ha'.1, ha'.2, ?_⟩
            show inside (((10 ^ (a - 1) : ℕ) : ℚ) / pow10Rat ((a : ℤ) - 1 - (k0 + 1))) = true
            have : ((10 ^ (a - 1) : ℕ) : ℚ) / pow10Rat ((a : ℤ) - 1 - (k0 + 1)) = (pick : ℚ) / scale := by
              rw [hp10]
              show _ = ((10 ^ a : ℕ) : ℚ) / pow10Rat ((a : ℤ) - 1 - k0)
              rw [pow10Rat_eq, pow10Rat_eq]
              push_cast
              rw [← zpow_natCast, ← zpow_natCast, ← zpow_sub₀ (by norm_num), ← zpow_sub₀ (by norm_num)]
              congr 1
              have : ((a - 1 : ℕ) : ℤ) = (a : ℤ) - 1 := by omega
              rw [this]; ring
            rw [this]; exact hpick
          · have hs : st' = (some (some (pick, a, k0)), ()) := by
              rcases hst' with h1 | h1
              · exact (ForInStep.done.inj h1).symm
              · cases h1
            intro r hr
            rw [hs] at hr
            simp only [Option.some.injEq] at hr
            subst hr
            exact ⟨ha'.1, ha'.2, hpick⟩
        · have hs : st' = (none, ()) := by
            rcases hst' with h1 | h1
            · cases h1
            · exact (ForInStep.yield.inj h1).symm
          intro r hr
          rw [hs] at hr
          simp at hr
      -- read the result off the final state
      obtain ⟨fin, hQ, hk⟩ := hres
      have hfin : fin.1 = some (some (d, nd, k)) := by
        cases hf : fin.1 with
        | none => simp [hf] at hk
        | some r => simp [hf] at hk; rw [hk]
      obtain ⟨g1, g2, g3⟩ := hQ (d, nd, k) hfin
      refine ⟨g1, g2, ?_⟩
      have g3' : inside ((d : ℚ) / pow10Rat ((nd : ℤ) - 1 - k)) = true := g3
      have hc : (d : ℚ) / pow10Rat ((nd : ℤ) - 1 - k) = (d : ℚ) * 10 ^ (k - ((nd : ℤ) - 1)) := by
        rw [pow10Rat_eq, div_eq_mul_inv, ← zpow_neg]
        congr 2; ring
      rw [hc] at g3'
      generalize (d : ℚ) * 10 ^ (k - ((nd : ℤ) - 1)) = c at *
      unfold InsideRounding
      have hv : v = (m : ℚ) * 2 ^ e := by show magRat m e = _; unfold magRat; rw [pow2Rat_eq]
      have hlg : lowGap = (if m = P52 ∧ expField x > 1 then (2 : ℚ) ^ (e - 1) else 2 ^ e) := by
        show (if m = P52 ∧ expField x > 1 then pow2Rat (e - 1) else pow2Rat e) = _
        rw [pow2Rat_eq, pow2Rat_eq]
      have hu : ulp = (2 : ℚ) ^ e := pow2Rat_eq e
      rw [← hv, ← hlg, ← hu]
      have g4 : (if incl then decide (lo ≤ c) && decide (c ≤ hi) else decide (lo < c) && decide (c < hi)) = true := g3'
      by_cases hi2 : m % 2 = 0
      · rw [if_pos hi2]
        rw [if_pos (show incl from hi2)] at g4
        simp only [Bool.and_eq_true, decide_eq_true_eq] at g4
        exact g4
      · rw [if_neg hi2]
        rw [if_neg (show ¬ incl from hi2)] at g4
        simp only [Bool.and_eq_true, decide_eq_true_eq] at g4
        exact g4

end F64
end Ysgo
