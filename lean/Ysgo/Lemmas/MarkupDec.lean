import Ysgo.Lemmas.MarkupVal
import Ysgo.Lemmas.F64Parse
import Ysgo.Lemmas.F64Mono
/-!
# Decimal property values (`[a=1.05]`, C13.2)

The parser assembles `<int>.<digits>` from the parsed integer and the fraction digits as written and hands it to
`strconv.ParseFloat` (`F64.parseFloat`); the specification says: the double nearest to `i.ds`
(`MarkupSpec.nearest` = `F64.roundQuot false (i·10^k + ds) (10^k)`, the correctly rounded quotient). Both sides meet in
`F64.roundQuot`: `parseFloat` on a string of that shape *is* `roundQuot` of the digits over the power of ten
(`parseFloat_intfrac`), so what has to be shown is (1) string assembly — the digit string of the integer followed by the
fraction digits has the value `i·10^k + ds` — and (2) that the quotient does not overflow (it is below `2^63`), because
`parseFloat` reports an overflow as an error.
-/
namespace Ysgo
namespace F64

theorem takeWhile_append_stop {α} (p : α → Bool) (l : List α) (c : α) (t : List α) (hl : ∀ x ∈ l, p x = true)
    (hc : p c = false) : (l ++ c :: t).takeWhile p = l := by
  induction l with
  | nil => simp [hc]
  | cons a l ih =>
    rw [List.cons_append, List.takeWhile_cons, if_pos (hl a (by simp)), ih (fun x hx => hl x (by simp [hx]))]

theorem dropWhile_append_stop {α} (p : α → Bool) (l : List α) (c : α) (t : List α) (hl : ∀ x ∈ l, p x = true)
    (hc : p c = false) : (l ++ c :: t).dropWhile p = c :: t := by
  induction l with
  | nil => simp [hc]
  | cons a l ih =>
    rw [List.cons_append, List.dropWhile_cons, if_pos (hl a (by simp)), ih (fun x hx => hl x (by simp [hx]))]

theorem lowerAscii_dot : lowerAscii '.' = '.' := by decide

/-- `<digits>.<digits>` goes to the digit loop of `parseFloat` -/
theorem parseFloat_intfrac_go (ds fr : List Char) (hd : ∀ c ∈ ds, isDigitC c = true) (hne : ds ≠ [])
    (hf : ∀ c ∈ fr, isDigitC c = true) :
    parseFloat (String.ofList (ds ++ '.' :: fr)) = parseFloat.go false (ds ++ '.' :: fr) := by
  obtain ⟨c, t, rfl⟩ := List.exists_cons_of_ne_nil hne
  have hc : isDigitC c = true := hd c (by simp)
  obtain ⟨h1, h2, h3, h4, h5, h6, h7⟩ := digit_facts hc
  have hany : ((c :: t) ++ '.' :: fr).any (fun c => decide (c = '_')) = false := by
    rw [List.any_eq_false]
    intro x hx
    simp only [List.mem_append, List.mem_cons] at hx
    rcases hx with hx | rfl | hx
    · have := (digit_facts (hd x (by simpa using hx))).2.2.1
      simpa using this
    · decide
    · have := (digit_facts (hf x hx)).2.2.1
      simpa using this
  -- the second character is a digit or the dot
  obtain ⟨y, rest, hrest, hy⟩ : ∃ y rest, t ++ '.' :: fr = y :: rest ∧ lowerAscii y ≠ 'x' := by
    cases t with
    | nil => exact ⟨'.', fr, rfl, by rw [lowerAscii_dot]; decide⟩
    | cons y t' =>
      refine ⟨y, t' ++ '.' :: fr, rfl, ?_⟩
      obtain ⟨-, -, -, g4, -, -, g7⟩ := digit_facts (hd y (by simp))
      rw [g7]; exact g4
  unfold parseFloat
  simp only [String.toList_ofList]
  rw [if_neg (by rw [hany]; simp)]
  rw [List.cons_append, parseSpecial_digits c _ hc, hrest]
  simp only []
  split
  · rename_i x tail heq
    split at heq
    · rename_i h; cases h; exact absurd rfl h1
    · rename_i h; cases h; exact absurd rfl h2
    · simp only [] at heq
      cases heq
      rw [if_neg hy]
  · split
    · rename_i h; cases h; exact absurd rfl h1
    · rename_i h; cases h; exact absurd rfl h2
    · rfl

theorem isDigitC_dot : isDigitC '.' = false := by decide

/-- **`strconv.ParseFloat` on `<digits>.<digits>`** (no sign, no exponent): the correctly rounded quotient of the digits
read as one number over the power of ten, an error when that overflows -/
theorem parseFloat_intfrac (ds fr : List Char) (hd : ∀ c ∈ ds, isDigitC c = true) (hne : ds ≠ [])
    (hf : ∀ c ∈ fr, isDigitC c = true) (hfne : fr ≠ []) (hl : ds.length ≤ 400) :
    parseFloat (String.ofList (ds ++ '.' :: fr)) =
      if digitsVal (ds ++ fr) = 0 then .val (zero false)
      else match decode (roundQuot false (digitsVal (ds ++ fr)) (10 ^ fr.length)) with
        | .inf _ => .err
        | _ => .val (roundQuot false (digitsVal (ds ++ fr)) (10 ^ fr.length)) := by
  rw [parseFloat_intfrac_go ds fr hd hne hf]
  have h1 : (ds ++ '.' :: fr).takeWhile isDigitC = ds := takeWhile_append_stop _ _ _ _ hd isDigitC_dot
  have h2 : (ds ++ '.' :: fr).dropWhile isDigitC = '.' :: fr := dropWhile_append_stop _ _ _ _ hd isDigitC_dot
  have h3 : fr.takeWhile isDigitC = fr := takeWhile_all _ _ hf
  have h4 : fr.dropWhile isDigitC = [] := dropWhile_all _ _ hf
  unfold parseFloat.go
  simp only [h1, h2, h3, h4]
  have hemp : ¬ (ds.isEmpty = true ∧ fr.isEmpty = true) := by
    intro h; exact hne (List.isEmpty_iff.mp h.1)
  rw [if_neg hemp]
  by_cases h0 : digitsVal (ds ++ fr) = 0
  · rw [if_pos h0, if_pos h0]
  · rw [if_neg h0, if_neg h0]
    have hflen : 0 < fr.length := List.length_pos_iff.mpr hfne
    have hnd : ((ds ++ fr).length : Int) = ds.length + fr.length := by simp
    rw [if_neg (by omega), if_neg (by omega), if_neg (by omega)]
    have : (-((0 : Int) - (fr.length : Int))).toNat = fr.length := by omega
    rw [this]
    rfl

/-- the digits of the fraction continue the number -/
theorem digitsVal_append (ds fr : List Char) :
    digitsVal (ds ++ fr) = fr.foldl (fun a c => a * 10 + (c.toNat - 48)) (digitsVal ds) := by
  unfold digitsVal
  rw [List.foldl_append]

theorem digit_le_nine {c : Char} (h : isDigitC c = true) : c.toNat - 48 ≤ 9 := by
  unfold isDigitC at h
  simp only [Bool.and_eq_true, decide_eq_true_eq] at h
  have h2 : c.toNat ≤ 57 := h.2
  omega

/-- `i.ds` is below `i + 1` -/
theorem foldl_digits_lt (fr : List Char) (hf : ∀ c ∈ fr, isDigitC c = true) (n : Nat) :
    fr.foldl (fun a c => a * 10 + (c.toNat - 48)) n < (n + 1) * 10 ^ fr.length := by
  induction fr generalizing n with
  | nil => simp
  | cons c cs ih =>
    have hc := digit_le_nine (hf c (by simp))
    have := ih (fun x hx => hf x (by simp [hx])) (n * 10 + (c.toNat - 48))
    simp only [List.foldl_cons, List.length_cons]
    calc _ < (n * 10 + (c.toNat - 48) + 1) * 10 ^ cs.length := this
      _ ≤ ((n + 1) * 10) * 10 ^ cs.length := Nat.mul_le_mul_right _ (by omega)
      _ = (n + 1) * 10 ^ (cs.length + 1) := by rw [Nat.pow_succ, Nat.mul_assoc, Nat.mul_comm 10]

/-- a quotient below `2^63` does not overflow -/
theorem roundQuot_finite (num d bound : Nat) (hn : 0 < num) (hd : 0 < d) (hb : num < bound * d) (hbb : bound ≤ P63) :
    Finite (roundQuot false num d) := by
  rcases roundQuot_total false num d hn hd with ⟨_, hbig⟩ | ⟨_, hfa⟩
  · exfalso
    have hdq : (0 : ℚ) < d := by exact_mod_cast hd
    have h1 : (num : ℚ) / d < (bound : ℚ) := by
      rw [div_lt_iff₀ hdq]
      exact_mod_cast hb
    have h2 : (bound : ℚ) ≤ 2 ^ (63 : ℕ) := by
      have : ((P63 : ℕ) : ℚ) = 2 ^ (63 : ℕ) := by norm_num [P63]
      rw [← this]; exact_mod_cast hbb
    have h3 : (2 : ℚ) ^ (63 : ℕ) < 2 ^ (1023 : ℤ) := by
      rw [← zpow_natCast]
      exact (two_zpow_lt_iff _ _).mpr (by norm_num)
    exact absurd (lt_of_le_of_lt hbig (lt_trans h1 (lt_of_le_of_lt h2 h3))) (lt_irrefl _)
  · exact hfa.finite

end F64

namespace Markup
open Ysgo.Unicode Ysgo.MarkupSpec
attribute [local irreducible] Unicode.isLetter Unicode.isDigit Unicode.isSpace Unicode.toLower

/-- **the decimal value the parser computes is the one the specification prescribes**: `strconv.ParseFloat` on the decimal
digits of the integer part, a dot and the fraction digits as written is the double nearest to `n.frac` -/
theorem parseFloat_dec (n : Nat) (frac : List Char) (hn : n < P63) (hf : ∀ c ∈ frac, F64.isDigitC c = true)
    (hfne : frac ≠ []) :
    F64.parseFloat (F64.itoa (n : Int) ++ "." ++ String.ofList frac) = .val (nearest n frac) := by
  have hd : ∀ c ∈ Nat.toDigits 10 n, F64.isDigitC c = true := by
    intro c hc
    rw [F64.isDigitC_eq]
    exact Nat.isDigit_of_mem_toDigits (by decide) (by decide) hc
  have hne : Nat.toDigits 10 n ≠ [] := Nat.toDigits_ne_nil
  have hl : (Nat.toDigits 10 n).length ≤ 400 := by
    have : (Nat.toDigits 10 n).length ≤ 19 :=
      (Nat.length_toDigits_le_iff (by decide) (by decide)).mpr (by unfold P63 at hn; omega)
    omega
  have hstr : F64.itoa (n : Int) ++ "." ++ String.ofList frac = String.ofList (Nat.toDigits 10 n ++ '.' :: frac) := by
    rw [F64.itoa_eq]
    have : ¬ ((n : Int) < 0) := by omega
    simp only [this, decide_false, Bool.false_eq_true, if_false, Int.natAbs_natCast]
    rw [show ("." : String) = String.ofList ['.'] from rfl, ← String.ofList_append, ← String.ofList_append]
    simp
  rw [hstr, F64.parseFloat_intfrac _ _ hd hne hf hfne hl, F64.digitsVal_append, F64.digitsVal_toDigits]
  unfold nearest
  simp only []
  split
  · rfl
  · rename_i h0
    have hfin : F64.Finite (F64.roundQuot false (frac.foldl (fun a c => a * 10 + (c.toNat - 48)) n) (10 ^ frac.length)) :=
      F64.roundQuot_finite _ _ (n + 1) (by omega) (Nat.pow_pos (by omega)) (F64.foldl_digits_lt frac hf n) (by omega)
    obtain ⟨neg, m, e, hdec, -⟩ := F64.decode_finite hfin
    rw [hdec]

theorem isSpace_dot : isSpace '.' = false := by decide +kernel

/-- `parseValue` on a rendered decimal -/
theorem parseValue_dec (w0 : List Char) (lz n : Nat) (frac post : List Char) (k p : Nat) (hw0 : AllSpace w0)
    (hn : n < P63) (hf : AllDigitC frac) (hfne : frac ≠ []) (hpost : ∀ x, post.head? = some x → isIdChar x = false) :
    parseValue { rest := w0 ++ renderVal (.dec lz n frac) ++ post, src := k, pos := p } =
      .ok (.float (nearest n frac))
        { rest := post, src := k + w0.length + (renderVal (.dec lz n frac)).length, pos := p } := by
  obtain ⟨hds, hval, hne⟩ := intDigits lz n
  simp only [renderVal]
  generalize List.replicate lz '0' ++ natDigits n = ds at hds hval hne
  cases ds with
  | nil => exact absurd rfl hne
  | cons a t =>
    obtain ⟨b, u, rfl⟩ := List.exists_cons_of_ne_nil hfne
    have ha : isDigit a = true := isDigit_of_isDigitC a (hds a List.mem_cons_self)
    have hsp : isSpace a = false := isIdChar_not_space a (isIdChar_of_isDigit a ha)
    have hb : isDigit b = true := isDigit_of_isDigitC b (hf b List.mem_cons_self)
    have hspb : isSpace b = false := isIdChar_not_space b (isIdChar_of_isDigit b hb)
    have e1 : w0 ++ ((a :: t) ++ '.' :: (b :: u)) ++ post = w0 ++ a :: (t ++ '.' :: ((b :: u) ++ post)) := by simp
    have e2 : a :: (t ++ '.' :: ((b :: u) ++ post)) = [] ++ a :: (t ++ '.' :: ((b :: u) ++ post)) := by simp
    have e3 : a :: (t ++ '.' :: ((b :: u) ++ post)) = (a :: t) ++ '.' :: ((b :: u) ++ post) := by simp
    have hatoi : atoi (a :: t) = some n := by
      unfold atoi
      have : (a :: t).all F64.isDigitC = true := List.all_eq_true.mpr hds
      simp [this, hval, hn]
    have hdot : ∀ x, ('.' :: ((b :: u) ++ post)).head? = some x → isIdChar x = false := by
      intro x hx; simp at hx; subst hx; exact isIdChar_dot
    simp only [parseValue, bind, P.bind]
    rw [e1, consumeWhitespace_eq w0 a _ k p hw0 hsp]
    simp only [peekRune, List.headD_cons, ha, if_true, parseInteger, parseDigits, bind, P.bind]
    rw [e2, consumeWhitespace_eq [] a _ _ p AllSpace.nil hsp]
    simp only [P.bind]
    rw [e3, takeDigitsAux_eq (a :: t) _ [] _ hds hdot]
    simp only [List.nil_append, hatoi, pure, P.pure, P.bind]
    rw [show ('.' :: ((b :: u) ++ post)) = [] ++ '.' :: ((b :: u) ++ post) by simp,
      expectPeek_eq '.' '.' [] _ _ p AllSpace.nil isSpace_dot]
    simp only [beq_self_eq_true, if_true, P.bind]
    rw [show ('.' :: ((b :: u) ++ post)) = [] ++ '.' :: ((b :: u) ++ post) by simp,
      parseRune_eq '.' [] _ _ p AllSpace.nil isSpace_dot]
    simp only [P.bind]
    rw [show (b :: u) ++ post = [] ++ b :: (u ++ post) by simp, consumeWhitespace_eq [] b _ _ p AllSpace.nil hspb]
    simp only [P.bind]
    rw [show b :: (u ++ post) = (b :: u) ++ post by simp, takeDigitsAux_eq (b :: u) post [] _ hf hpost]
    simp only [List.nil_append, List.isEmpty_cons, Bool.false_eq_true, if_false,
      parseFloat_dec n (b :: u) hn hf (by simp), pure, P.pure, List.length_nil, Nat.add_zero, List.length_append,
      List.length_cons]
    congr 2; omega

/-- `parseValue` on a rendered value of any kind: the typed value the specification prescribes; the reader stands at the
white space (or a part of it) before the next non-space character -/
theorem parseValue_render_all (v : SVal) (val : PVal) (hok : valOk v = true)
    (hval : valOf v = some val) (w0 post w : List Char) (d : Char) (l : List Char) (k p : Nat) (hw0 : AllSpace w0)
    (hf : Follow post w d l) :
    ∃ w2 k2, AllSpace w2 ∧
      parseValue { rest := w0 ++ renderVal v ++ post, src := k, pos := p } =
        .ok val { rest := w2 ++ d :: l, src := k2, pos := p } := by
  by_cases hnd : notDec v = true
  · exact parseValue_render v val hok hnd hval w0 post w d l k p hw0 hf
  · cases v with
    | dec lz n fr =>
      simp only [valOf, P63_eq] at hval
      split at hval
      · rename_i hn
        simp only [Option.some.injEq] at hval; subst hval
        simp only [valOk, Bool.and_eq_true, Bool.not_eq_true', List.isEmpty_eq_false_iff, List.all_eq_true] at hok
        refine ⟨w, k + w0.length + (renderVal (.dec lz n fr)).length, hf.ws, ?_⟩
        rw [parseValue_dec w0 lz n fr post k p hw0 hn hok.2 hok.1 hf.head_not_id, hf.eq]
      · simp at hval
    | int _ _ => simp [notDec] at hnd
    | bool _ _ => simp [notDec] at hnd
    | quoted _ => simp [notDec] at hnd
    | bare _ => simp [notDec] at hnd

end Markup
end Ysgo
