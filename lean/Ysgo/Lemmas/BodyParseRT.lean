import Ysgo.Lemmas.BodyParseLex
import Ysgo.Lemmas.BodyParseFuel
/-!
# The parser reads the canonical token sequence of a well-formed tree back (second half of the round trip)

Stop conditions of the three loops, the bracketed-block and clause lemmas, and a four-way mutual structural induction.
`NoAdjacentOpts` is used exactly where the greedy option loop could swallow a following group, `OptsNonEmpty` exactly
where a block must start with a line.
-/
namespace Ysgo.BodyParse
variable (L : Layout)

def isTerm : Tok → Bool
  | .dedent | .t .elseifT | .t .elseT | .t .endifT | .t .bodyEnd => true
  | _ => false

/-- the statement-list parser stops here -/
def Stop (rest : List Tok) : Prop := ∀ t r, rest = t :: r → isTerm t = true
/-- the option parser stops here, and no stray block follows -/
def NoArrowIndent (X : List Tok) : Prop := ∀ t r, X = t :: r → t ≠ .indent ∧ ∀ n, t ≠ .t (.arrow n)
/-- after the elseif clauses: else or endif -/
def ElseOrEndif (Y : List Tok) : Prop := ∃ r, Y = .t .elseT :: r ∨ Y = .t .endifT :: r

theorem qStmts_stop {rest : List Tok} (h : Stop rest) : qStmts 1 rest = some ([], rest) := by
  cases rest with
  | nil => simp [qStmts]
  | cons t r =>
    have := h t r rfl
    cases t with
    | dedent => simp [qStmts]
    | indent => simp [isTerm] at this
    | t l => cases l <;> simp [isTerm] at this <;> simp [qStmts]

theorem qOpts_stop {X : List Tok} (h : NoArrowIndent X) : qOpts 1 X = some ([], X) := by
  cases X with
  | nil => simp [qOpts]
  | cons t r =>
    have := (h t r rfl).2
    cases t with
    | dedent => simp [qOpts]
    | indent => simp [qOpts]
    | t l =>
      cases l with
      | arrow n => exact absurd rfl (this n)
      | _ => simp [qOpts]

theorem Stop.noArrowIndent {rest : List Tok} (h : Stop rest) : NoArrowIndent rest := by
  intro t r e
  have := h t r e
  constructor
  · intro e'; subst e'; simp [isTerm] at this
  · intro n e'; subst e'; simp [isTerm] at this

theorem stop_dedent (Y : List Tok) : Stop (.dedent :: Y) := by
  intro t r e; cases e; rfl
theorem ElseOrEndif.stop {Y : List Tok} (h : ElseOrEndif Y) : Stop Y := by
  obtain ⟨r, h | h⟩ := h <;> (subst h; intro t r' e; cases e; rfl)

/-- first token of a well-formed statement -/
inductive Head : Tok → Prop
  | line (n) : Head (.t (.line n)) | single (n) : Head (.t (.single n)) | ifT : Head (.t .ifT)

theorem head_nonopts : ∀ s : Stmt, wfS s = true → (∀ os, s ≠ .opts os) → ∃ t r, tStmt L s = t :: r ∧ Head t
  | .line n, _, _ => by unfold tStmt; exact ⟨_, _, rfl, .line n⟩
  | .single n, _, _ => by unfold tStmt; exact ⟨_, _, rfl, .single n⟩
  | .ifs f es el, _, _ => by unfold tStmt; exact ⟨_, _, rfl, .ifT⟩
  | .opts os, _, h => absurd rfl (h os)

theorem Head.noArrowIndent {t : Tok} {r : List Tok} (h : Head t) : NoArrowIndent (t :: r) := by
  intro t' r' e
  cases e
  cases h <;> exact ⟨by simp, by simp⟩


theorem tStmts_nil_imp : ∀ (b : List Stmt), wfL b = true → tStmts L b = [] → b = []
  | [], _, _ => rfl
  | s :: ss, hw, h => by
    obtain ⟨hs, _⟩ := wfL_cons hw
    unfold tStmts at h
    have := tStmt_ne_nil L s hs
    cases hts : tStmt L s with
    | nil => exact absurd hts this
    | cons a t => rw [hts] at h; simp at h

/-- a bracketed block followed by a stop token parses to the block's statements, flattened into the enclosing
list (here: alone) -/
theorem q_brk (b : List Stmt) (hb : wfL b = true)
    (ih : ∀ rest, Stop rest → ∃ f, qStmts f (tStmts L b ++ rest) = some (b, rest))
    (Y : List Tok) (hY : Stop Y) :
    ∃ f, qStmts f (brk (tStmts L b) ++ Y) = some (b, Y) := by
  cases hts : tStmts L b with
  | nil =>
    have hb0 := tStmts_nil_imp L b hb hts
    subst hb0
    exact ⟨1, by simpa [brk] using qStmts_stop hY⟩
  | cons a t =>
    obtain ⟨f, hf⟩ := ih (.dedent :: Y) (stop_dedent Y)
    rw [hts] at hf
    have hf0 : 0 < f := by
      cases f with
      | zero => simp [qStmts] at hf
      | succ _ => omega
    have hstop : qStmts f Y = some ([], Y) := qmono_S (qStmts_stop hY) hf0
    refine ⟨f + 1, ?_⟩
    simp only [brk, List.isEmpty_cons, Bool.false_eq_true, ↓reduceIte, List.cons_append, List.append_assoc,
      List.nil_append]
    simp only [qStmts]
    simp only [List.cons_append] at hf
    rw [hf]
    simp only
    rw [hstop]
    simp [appR]

/-- an if-clause body (indented or not) followed by elseif/else/endif -/
theorem q_clause (b : List Stmt) (hb : wfL b = true)
    (ih : ∀ rest, Stop rest → ∃ f, qStmts f (tStmts L b ++ rest) = some (b, rest))
    (Y : List Tok) (hY : Stop Y) :
    ∃ f, qStmts f ((if L.ifIndent then brk (tStmts L b) else tStmts L b) ++ Y) = some (b, Y) := by
  cases hi : L.ifIndent with
  | false => simpa using ih Y hY
  | true => simpa using q_brk L b hb ih Y hY

theorem wfS_opts {os : List (Nat × List Stmt)} (h : wfS (.opts os) = true) : os ≠ [] ∧ wfO os = true := by
  unfold wfS at h
  simp only [Bool.and_eq_true, Bool.not_eq_true', List.isEmpty_eq_false_iff] at h
  exact h

theorem wfL_adj {s s' : Stmt} {r : List Stmt} (h : wfL (s :: s' :: r) = true) :
    (∃ os, s = .opts os) → ∀ os', s' ≠ .opts os' := by
  intro ⟨os, e⟩ os' e'
  subst e e'
  simp [wfL] at h

mutual
theorem rtStmt : ∀ (s : Stmt), wfS s = true → ∀ X ss' r' f,
    ((∃ os, s = .opts os) → NoArrowIndent X) → qStmts f X = some (ss', r') →
    ∃ f', qStmts f' (tStmt L s ++ X) = some (s :: ss', r')
  | .line n, _, X, ss', r', f, _, h => ⟨f + 1, by unfold tStmt; simp [qStmts, h, consR]⟩
  | .single n, _, X, ss', r', f, _, h => ⟨f + 1, by unfold tStmt; simp [qStmts, h, consR]⟩
  | .opts os, hw, X, ss', r', f, hX, h => by
    obtain ⟨hne, hwo⟩ := wfS_opts hw
    obtain ⟨f1, hf1⟩ := rtOpts os hwo X (hX ⟨os, rfl⟩)
    cases os with
    | nil => exact absurd rfl hne
    | cons o os' =>
      obtain ⟨n, b⟩ := o
      refine ⟨max f1 f + 1, ?_⟩
      unfold tStmt
      unfold tOpts at hf1 ⊢
      simp only [List.cons_append] at hf1 ⊢
      simp only [qStmts]
      rw [qmono_O hf1 (Nat.le_max_left _ _)]
      simp only
      rw [qmono_S h (Nat.le_max_right _ _)]
      simp [consR]
  | .ifs f0 es none, hw, X, ss', r', f, _, h => by
    have hw' : wfL f0 = true ∧ wfE es = true := by
      unfold wfS at hw; simpa [Bool.and_eq_true] using hw
    obtain ⟨hwf, hwe⟩ := hw'
    have hY : ElseOrEndif (.t .endifT :: X) := ⟨X, Or.inr rfl⟩
    obtain ⟨f2, hf2⟩ := rtElifs es hwe _ hY
    have hstopI : Stop (tElifs L es ++ .t .endifT :: X) := by
      cases es with
      | nil => unfold tElifs; simpa using hY.stop
      | cons b bs => unfold tElifs; intro t r e; simp only [List.cons_append] at e; cases e; rfl
    obtain ⟨f1, hf1⟩ := q_clause L f0 hwf (fun rest hr => rtStmts f0 hwf rest hr) _ hstopI
    refine ⟨max (max f1 f2) f + 1, ?_⟩
    unfold tStmt
    simp only [List.cons_append, List.append_assoc, List.nil_append, List.append_nil]
    simp only [qStmts]
    rw [qmono_S hf1 (Nat.le_trans (Nat.le_max_left _ _) (Nat.le_max_left _ _))]
    simp only
    rw [qmono_E hf2 (Nat.le_trans (Nat.le_max_right _ _) (Nat.le_max_left _ _))]
    simp only
    rw [qmono_S h (Nat.le_max_right _ _)]
    simp [consR]
  | .ifs f0 es (some b), hw, X, ss', r', f, _, h => by
    have hw' : wfL f0 = true ∧ wfE es = true ∧ wfL b = true := by
      unfold wfS at hw; simpa [Bool.and_eq_true, and_assoc] using hw
    obtain ⟨hwf, hwe, hwb⟩ := hw'
    have hYend : Stop (.t .endifT :: X) := ElseOrEndif.stop (⟨X, Or.inr rfl⟩ : ElseOrEndif (.t .endifT :: X))
    obtain ⟨f3, hf3⟩ := q_clause L b hwb (fun rest hr => rtStmts b hwb rest hr) _ hYend
    have hY : ElseOrEndif (.t .elseT :: ((if L.ifIndent then brk (tStmts L b) else tStmts L b) ++ .t .endifT :: X)) :=
      ⟨_, Or.inl rfl⟩
    obtain ⟨f2, hf2⟩ := rtElifs es hwe _ hY
    have hstopI : Stop (tElifs L es ++ .t .elseT :: ((if L.ifIndent then brk (tStmts L b) else tStmts L b) ++ .t .endifT :: X)) := by
      cases es with
      | nil => unfold tElifs; simpa using hY.stop
      | cons b' bs => unfold tElifs; intro t r e; simp only [List.cons_append] at e; cases e; rfl
    obtain ⟨f1, hf1⟩ := q_clause L f0 hwf (fun rest hr => rtStmts f0 hwf rest hr) _ hstopI
    refine ⟨max (max f1 f2) (max f3 f) + 1, ?_⟩
    unfold tStmt
    simp only [List.cons_append, List.append_assoc, List.nil_append]
    simp only [qStmts]
    rw [qmono_S hf1 (Nat.le_trans (Nat.le_max_left _ _) (Nat.le_max_left _ _))]
    simp only
    rw [qmono_E hf2 (Nat.le_trans (Nat.le_max_right _ _) (Nat.le_max_left _ _))]
    simp only
    rw [qmono_S hf3 (Nat.le_trans (Nat.le_max_left _ _) (Nat.le_max_right _ _))]
    simp only
    rw [qmono_S h (Nat.le_trans (Nat.le_max_right _ _) (Nat.le_max_right _ _))]
    simp [consR]
theorem rtStmts : ∀ (ss : List Stmt), wfL ss = true → ∀ rest, Stop rest →
    ∃ f, qStmts f (tStmts L ss ++ rest) = some (ss, rest)
  | [], _, rest, hr => ⟨1, by unfold tStmts; simpa using qStmts_stop hr⟩
  | s :: ss, hw, rest, hr => by
    obtain ⟨hs, hss⟩ := wfL_cons hw
    obtain ⟨f, hf⟩ := rtStmts ss hss rest hr
    have hX : (∃ os, s = .opts os) → NoArrowIndent (tStmts L ss ++ rest) := by
      intro hso
      cases ss with
      | nil => unfold tStmts; simpa using hr.noArrowIndent
      | cons s' r =>
        obtain ⟨hs', _⟩ := wfL_cons hss
        obtain ⟨t, tr, e, hh⟩ := head_nonopts L s' hs' (wfL_adj hw hso)
        unfold tStmts
        rw [e]
        simpa using hh.noArrowIndent
    obtain ⟨f', hf'⟩ := rtStmt s hs _ ss rest f hX hf
    exact ⟨f', by unfold tStmts; simpa [List.append_assoc] using hf'⟩
theorem rtOpts : ∀ (os : List (Nat × List Stmt)), wfO os = true → ∀ X, NoArrowIndent X →
    ∃ f, qOpts f (tOpts L os ++ X) = some (os, X)
  | [], _, X, hX => ⟨1, by unfold tOpts; simpa using qOpts_stop hX⟩
  | (n, b) :: os, hw, X, hX => by
    obtain ⟨hb, hos⟩ := wfL_of_opts_body hw
    obtain ⟨f2, hf2⟩ := rtOpts os hos X hX
    cases hts : tStmts L b with
    | nil =>
      have hb0 := tStmts_nil_imp L b hb hts
      subst hb0
      refine ⟨f2 + 1, ?_⟩
      unfold tOpts
      simp only [hts, brk, List.isEmpty_nil, ↓reduceIte, List.nil_append, List.cons_append]
      -- the token after the arrow is not INDENT
      have hni : ∀ r, tOpts L os ++ X ≠ .indent :: r := by
        intro r e
        cases os with
        | nil => unfold tOpts at e; simp only [List.nil_append] at e; exact (hX _ _ e).1 rfl
        | cons o os' => obtain ⟨n', b'⟩ := o; unfold tOpts at e; simp at e
      cases hrest : tOpts L os ++ X with
      | nil => simp only [qOpts]; rw [hrest] at hf2; rw [hf2]
      | cons t r =>
        cases t with
        | indent => exact absurd hrest (hni r)
        | dedent => simp only [qOpts]; rw [hrest] at hf2; rw [hf2]
        | t l => simp only [qOpts]; rw [hrest] at hf2; rw [hf2]
    | cons a t =>
      obtain ⟨f1, hf1⟩ := rtStmts b hb (.dedent :: (tOpts L os ++ X)) (stop_dedent _)
      rw [hts] at hf1
      refine ⟨max f1 f2 + 1, ?_⟩
      unfold tOpts
      simp only [hts, brk, List.isEmpty_cons, Bool.false_eq_true, ↓reduceIte, List.cons_append,
        List.append_assoc, List.nil_append]
      simp only [qOpts]
      simp only [List.cons_append] at hf1
      rw [qmono_S hf1 (Nat.le_max_left _ _)]
      simp only
      rw [qmono_O hf2 (Nat.le_max_right _ _)]
theorem rtElifs : ∀ (es : List (List Stmt)), wfE es = true → ∀ Y, ElseOrEndif Y →
    ∃ f, qElifs f (tElifs L es ++ Y) = some (es, Y)
  | [], _, Y, hY => by
    refine ⟨1, ?_⟩
    unfold tElifs
    obtain ⟨r, h | h⟩ := hY <;> (subst h; simp [qElifs])
  | b :: bs, hw, Y, hY => by
    obtain ⟨hb, hbs⟩ := wfE_cons hw
    obtain ⟨f2, hf2⟩ := rtElifs bs hbs Y hY
    have hstop : Stop (tElifs L bs ++ Y) := by
      cases bs with
      | nil => unfold tElifs; simpa using hY.stop
      | cons b' bs' => unfold tElifs; intro t r e; simp only [List.cons_append] at e; cases e; rfl
    obtain ⟨f1, hf1⟩ := q_clause L b hb (fun rest hr => rtStmts b hb rest hr) _ hstop
    refine ⟨max f1 f2 + 1, ?_⟩
    unfold tElifs
    simp only [List.cons_append, List.append_assoc]
    simp only [qElifs]
    rw [qmono_S hf1 (Nat.le_max_left _ _)]
    simp only
    rw [qmono_E hf2 (Nat.le_max_right _ _)]
end

/-- the canonical token sequence of a well-formed body parses back to the body -/
theorem parse_bodyToks (body : List Stmt) (hw : wfL body = true) : parse (bodyToks L body) = some body := by
  have hs : Stop [Tok.t LTok.bodyEnd] := by intro t r e; cases e; rfl
  have ih := fun rest hr => rtStmts L body hw rest hr
  unfold bodyToks
  cases ht : L.topIndent with
  | false =>
    obtain ⟨f, hf⟩ := ih _ hs
    exact parse_of_qStmts (by simpa using hf)
  | true =>
    obtain ⟨f, hf⟩ := q_brk L body hw ih _ hs
    exact parse_of_qStmts (by simpa using hf)

end Ysgo.BodyParse
