import Ysgo.Model.Indent
/-!
# Lemmas about the indentation logic (C20.3, C08.1, C08.2)
-/
namespace Ysgo.Indent

/-! ## the executable balance check and what it means -/

/-- what `balancedAux d ts = true` says, declaratively -/
theorem balancedAux_spec : ∀ (ts : List Tok) (d : Nat), balancedAux d ts = true →
    (∃ body, ts = body ++ [.eof] ∧ .eof ∉ body) ∧
    (∀ p, p <+: ts → p.count .dedent ≤ p.count .indent + d) ∧
    ts.count .dedent = ts.count .indent + d := by
  intro ts
  induction ts with
  | nil => intro d h; simp [balancedAux] at h
  | cons t ts ih =>
    intro d h
    cases t with
    | eof =>
      simp only [balancedAux, Bool.and_eq_true, List.isEmpty_iff, beq_iff_eq] at h
      obtain ⟨rfl, rfl⟩ := h
      refine ⟨⟨[], rfl, by simp⟩, ?_, by simp⟩
      intro p hp
      have := hp.sublist.count_le Tok.dedent
      simp at this
      omega
    | nl =>
      simp only [balancedAux] at h
      obtain ⟨⟨body, hb, hne⟩, hp, hc⟩ := ih d h
      refine ⟨⟨.nl :: body, by simp [hb], by simp [hne]⟩, ?_, by simpa using hc⟩
      intro p hpre
      cases p with
      | nil => simp
      | cons a p' =>
        obtain ⟨rfl, hp'⟩ := List.cons_prefix_cons.mp hpre
        simpa using hp p' hp'
    | indent =>
      simp only [balancedAux] at h
      obtain ⟨⟨body, hb, hne⟩, hp, hc⟩ := ih (d + 1) h
      refine ⟨⟨.indent :: body, by simp [hb], by simp [hne]⟩, ?_, by simp; omega⟩
      intro p hpre
      cases p with
      | nil => simp
      | cons a p' =>
        obtain ⟨rfl, hp'⟩ := List.cons_prefix_cons.mp hpre
        have := hp p' hp'
        simp; omega
    | dedent =>
      simp only [balancedAux, Bool.and_eq_true, decide_eq_true_eq] at h
      obtain ⟨hd, h⟩ := h
      obtain ⟨⟨body, hb, hne⟩, hp, hc⟩ := ih (d - 1) h
      refine ⟨⟨.dedent :: body, by simp [hb], by simp [hne]⟩, ?_, by simp; omega⟩
      intro p hpre
      cases p with
      | nil => simp
      | cons a p' =>
        obtain ⟨rfl, hp'⟩ := List.cons_prefix_cons.mp hpre
        have := hp p' hp'
        simp; omega

theorem balancedAux_popWhile (w : Nat) (st : List Nat) (rest : List Tok) :
    balancedAux st.length ((popWhile w st).2 ++ rest) = balancedAux (popWhile w st).1.length rest := by
  induction st with
  | nil => simp [popWhile]
  | cons top st ih =>
    unfold popWhile
    split
    · simp [balancedAux, ih]
    · simp

theorem balancedAux_handleEOF (st : List Nat) : balancedAux st.length (handleEOF st) = true := by
  induction st with
  | nil => simp [handleEOF, balancedAux]
  | cons a st ih =>
    simp only [handleEOF, List.map_cons, List.cons_append, List.length_cons] at ih ⊢
    simpa [balancedAux] using ih

/-- C20.3, executable form, from any stack: the check started at the stack depth succeeds -/
theorem balancedAux_lexFrom (ls : List LineInfo) : ∀ st : List Nat,
    balancedAux st.length (lexFrom st ls) = true := by
  induction ls with
  | nil => intro st; exact balancedAux_handleEOF st
  | cons li ls ih =>
    intro st
    simp only [lexFrom, handleNewline]
    split
    · simpa [balancedAux] using ih st
    · split
      · simpa [balancedAux] using ih (li.width :: st)
      · split
        · simp only [List.cons_append, balancedAux, balancedAux_popWhile]
          exact ih _
        · simpa [balancedAux] using ih st

/-! ## monotone re-indentation (C08.1) -/

/-- re-indent one line -/
def LineInfo.mapWidth (f : Nat → Nat) (li : LineInfo) : LineInfo := { li with width := f li.width }

theorem lt_iff_of_strictMono {f : Nat → Nat} (hf : ∀ a b, a < b → f a < f b) (a b : Nat) :
    a < b ↔ f a < f b := by
  constructor
  · exact hf a b
  · intro h
    rcases Nat.lt_or_ge a b with hlt | hge
    · exact hlt
    · rcases Nat.eq_or_lt_of_le hge with heq | hlt
      · subst heq; omega
      · have := hf b a hlt; omega

theorem popWhile_mono (f : Nat → Nat) (hf : ∀ a b, a < b ↔ f a < f b) (w : Nat) (st : List Nat) :
    popWhile (f w) (st.map f) = ((popWhile w st).1.map f, (popWhile w st).2) := by
  induction st with
  | nil => simp [popWhile]
  | cons top st ih =>
    simp only [List.map, popWhile, ← hf]
    split <;> simp [ih]

theorem handleNewline_mono (f : Nat → Nat) (hf : ∀ a b, a < b ↔ f a < f b) (h0 : f 0 = 0)
    (st : List Nat) (li : LineInfo) :
    handleNewline (st.map f) (li.mapWidth f) = ((handleNewline st li).1.map f, (handleNewline st li).2) := by
  have hd : (st.map f).headD 0 = f (st.headD 0) := by cases st <;> simp [h0]
  simp only [handleNewline, LineInfo.mapWidth, hd, gt_iff_lt, ← hf]
  split
  · rfl
  · split
    · simp
    · split
      · rw [popWhile_mono f hf]
      · rfl

theorem lexFrom_mono (f : Nat → Nat) (hf : ∀ a b, a < b ↔ f a < f b) (h0 : f 0 = 0)
    (ls : List LineInfo) : ∀ st : List Nat,
    lexFrom (st.map f) (ls.map (LineInfo.mapWidth f)) = lexFrom st ls := by
  induction ls with
  | nil => intro st; simp [lexFrom, handleEOF]
  | cons li ls ih =>
    intro st
    simp only [List.map_cons, lexFrom, handleNewline_mono f hf h0, ih]

/-! ## noise lines (C08.2) -/

theorem handleNewline_noise (st : List Nat) (li : LineInfo) (h : li.noise = true) :
    handleNewline st li = (st, [.nl]) := by
  simp [handleNewline, h]

/-- the NEWLINE-driven part of the token sequence (everything but the end-of-file part) -/
def toksFrom : List Nat → List LineInfo → List Tok
  | _, [] => []
  | st, li :: ls => (handleNewline st li).2 ++ toksFrom (handleNewline st li).1 ls

theorem lexFrom_append (a b : List LineInfo) : ∀ st : List Nat,
    lexFrom st (a ++ b) = toksFrom st a ++ lexFrom (stackAfter st a) b := by
  induction a with
  | nil => intro st; simp [toksFrom, stackAfter]
  | cons li a ih => intro st; simp [lexFrom, toksFrom, stackAfter, ih]

theorem toksFrom_noise (ns : List LineInfo) (h : ∀ l ∈ ns, l.noise = true) : ∀ st : List Nat,
    toksFrom st ns = List.replicate ns.length .nl ∧ stackAfter st ns = st := by
  induction ns with
  | nil => intro st; simp [toksFrom, stackAfter]
  | cons li ns ih =>
    intro st
    have h1 : li.noise = true := h li (by simp)
    have h2 := ih (fun l hl => h l (by simp [hl])) st
    simp [toksFrom, stackAfter, handleNewline_noise st li h1, h2.1, h2.2, List.replicate_succ]

/-- a run of noise lines only contributes its own NEWLINE tokens -/
theorem lexFrom_noise_run (ns ls : List LineInfo) (h : ∀ l ∈ ns, l.noise = true) (st : List Nat) :
    lexFrom st (ns ++ ls) = List.replicate ns.length .nl ++ lexFrom st ls := by
  rw [lexFrom_append, (toksFrom_noise ns h st).1, (toksFrom_noise ns h st).2]

/-- the INDENT / DEDENT / EOF structure: the token sequence without the NEWLINE tokens -/
def skeleton (ts : List Tok) : List Tok := ts.filter (· ≠ .nl)

theorem skeleton_append (a b : List Tok) : skeleton (a ++ b) = skeleton a ++ skeleton b := by
  simp [skeleton]

/-- deleting every noise line does not change the structure -/
theorem skeleton_lexFrom_filter (ls : List LineInfo) : ∀ st : List Nat,
    skeleton (lexFrom st (ls.filter (fun l => !l.noise))) = skeleton (lexFrom st ls) := by
  induction ls with
  | nil => intro st; rfl
  | cons li ls ih =>
    intro st
    cases hn : li.noise with
    | true =>
      simp only [List.filter_cons, hn, Bool.not_true, Bool.false_eq_true, ↓reduceIte, lexFrom,
        handleNewline_noise st li hn, skeleton_append, ih]
      simp [skeleton]
    | false =>
      simp only [List.filter_cons, hn, Bool.not_false, ↓reduceIte, lexFrom, skeleton_append, ih]

end Ysgo.Indent
