import Ysgo.Model.Ranked
import Ysgo.Lemmas.FuelWf
/-!
# Ranked programs: what a silent statement can be, and the syntactic predicate along one iteration of `Next`
-/
namespace Ysgo.Ranked
open Ysgo Ysgo.Fuel
set_option linter.unusedSimpArgs false

/-! ### the syntactic predicate -/

theorem safeStmts_nil (p : Program) (rk : String → Nat) (k : Nat) : safeStmts p rk k [] = true := by
  simp [safeStmts]

theorem safeStmts_cons (p : Program) (rk : String → Nat) (k : Nat) (s : Stmt) (ss : List Stmt) :
    safeStmts p rk k (s :: ss) = (safeStmt p rk k s && (stops s || safeStmts p rk k ss)) := by
  simp [safeStmts]

/-- a body that starts with a line or an option group is safe at every rank -/
theorem safeStmts_of_startsYielding (p : Program) (rk : String → Nat) (k : Nat) (b : List Stmt)
    (h : startsYielding b = true) : safeStmts p rk k b = true := by
  cases b with
  | nil => simp [startsYielding] at h
  | cons s ss =>
    cases s <;> simp [startsYielding, yields] at h <;> simp [safeStmts, safeStmt, stops]

theorem safeClauses_mem {p : Program} {rk : String → Nat} {k : Nat} {cs : List (Expr × List Stmt)}
    (h : safeClauses p rk k cs = true) {cb : Expr × List Stmt} (hm : cb ∈ cs) : safeStmts p rk k cb.2 = true := by
  induction cs with
  | nil => cases hm
  | cons c cs ih =>
    simp only [safeClauses, Bool.and_eq_true] at h
    rcases List.mem_cons.1 hm with h' | h'
    · subst h'; exact h.1
    · exact ih h.2 h'

/-- the predicate is monotone in the rank -/
theorem jumpOk_mono {p : Program} {rk : String → Nat} {k k' : Nat} (hk : k ≤ k') {e : Expr}
    (h : jumpOk p rk k e = true) : jumpOk p rk k' e = true := by
  unfold jumpOk at h ⊢
  split
  · rename_i t
    simp only at h
    split
    · rename_i n hf
      simp only [hf, decide_eq_true_eq] at h
      simp only [decide_eq_true_eq]
      omega
    · rfl
  · rfl
  · rename_i h1 h2
    split at h
    · exact absurd rfl (h1 _)
    · rename_i v hv; exact absurd rfl (h2 v)
    · cases h

theorem maxRank_mem {rk : String → Nat} {p : Program} {n : Node} (h : n ∈ p) : rk n.title ≤ maxRank rk p := by
  induction p with
  | nil => cases h
  | cons a p ih =>
    simp only [maxRank]
    rcases List.mem_cons.1 h with h | h
    · subst h; exact Nat.le_max_left _ _
    · exact Nat.le_trans (ih h) (Nat.le_max_right _ _)

theorem maxRank_zero (p : Program) : maxRank (fun _ => 0) p = 0 := by
  induction p with
  | nil => rfl
  | cons a l ih => simp only [maxRank, ih]; rfl

theorem Ranked.of_mem {p : Program} {rk : String → Nat} (h : Ranked p rk = true) {n : Node} (hn : n ∈ p) :
    safeStmts p rk (rk n.title) n.body = true := by
  unfold Ranked at h
  rw [List.all_eq_true] at h
  exact h n hn

/-- `Productive` is the special case "all ranks are 0" -/
theorem ranked_of_productive {p : Program} (h : Productive p = true) : Ranked p (fun _ => 0) = true := by
  unfold Ranked
  rw [List.all_eq_true]
  intro n hn
  exact safeStmts_of_startsYielding p _ _ _ (Productive.of_mem h hn)

/-! ### silent statements -/

/-- the statements that can be executed without output and without leaving the body -/
def quiet : Stmt → Bool
  | .set _ _ _ => true
  | .ifs _ => true
  | .cmd _ => true
  | .call _ _ => true
  | _ => false

section
variable {σ π μ : Type}

/-- what a statement executed without output asks the control part to do -/
inductive Silent (env : Env σ) (p : Program) (d : Data σ π) (st : Stmt) : Ctl → Prop
  | next (hq : quiet st = true) : Silent env p d st .next
  | push (cs : List (Expr × List Stmt)) (c : Expr) (b : List Stmt) (hst : st = .ifs cs) (hm : (c, b) ∈ cs) :
      Silent env p d st (.push b)
  | goto (e : Expr) (t : String) (n : Node) (w' : W σ) (hst : st = .jump e)
      (he : eval env d.store d.visited e d.w = (.ok (.str t), w')) (hf : p.find t = some n) : Silent env p d st (.goto n.body)

theorem exec_silent (env : Env σ) (mk : Markup π μ) (p : Program) (d d' : Data σ π) (st : Stmt) (ctl : Ctl)
    (h : exec env mk p d st = (d', ctl, none)) : Silent env p d st ctl := by
  cases st with
  | line l =>
    simp only [exec] at h
    split at h <;> simp at h
  | opts os =>
    simp only [exec] at h
    split at h <;> simp at h
  | set v op e =>
    simp only [exec] at h
    split at h
    · split at h <;> simp only [Prod.mk.injEq] at h
      · rw [← h.2.1]; exact .next rfl
      · simp at h
      · simp at h
    · simp at h
    · simp at h
  | jump e =>
    simp only [exec] at h
    split at h
    · rename_i t w' hev
      split at h
      · rename_i n hf
        simp only [Prod.mk.injEq] at h
        rw [← h.2.1]
        exact .goto e t n w' rfl hev hf
      · simp at h
    · simp at h
    · simp at h
    · simp at h
  | ifs cs =>
    simp only [exec] at h
    split at h
    · rename_i b w hft
      obtain ⟨c, hc⟩ := firstTrue_mem env _ _ cs _ _ b hft
      simp only [Prod.mk.injEq] at h
      rw [← h.2.1]
      exact .push cs c b rfl hc
    · simp only [Prod.mk.injEq] at h; rw [← h.2.1]; exact .next rfl
    · simp at h
    · simp at h
  | cmd elems =>
    simp only [exec] at h
    split at h
    · simp at h
    · split at h
      · split at h
        · simp at h
        · split at h <;> simp only [Prod.mk.injEq] at h
          · rw [← h.2.1]; exact .next rfl
          · simp at h
          · simp at h
          · simp at h
          · simp at h
      · simp at h
      · simp at h
      · simp at h
  | call f args =>
    simp only [exec] at h
    split at h
    · split at h <;> simp only [Prod.mk.injEq] at h
      · rw [← h.2.1]; exact .next rfl
      · simp at h
      · simp at h
    · simp at h
    · simp at h
  | empty =>
    simp [exec] at h

end

/-! ### the predicate along the control requests -/

theorem find_title {p : Program} {t : String} {n : Node} (h : p.find t = some n) : n.title = t := by
  have := List.find?_some h
  simpa using this

/-- an admissible early jump that is taken enters a node of smaller rank -/
theorem jumpOk_taken {σ : Type} {env : Env σ} {p : Program} {rk : String → Nat} {k : Nat} {e : Expr} {st : Store}
    {vis : Map Nat} {w w' : W σ} {t : String} {n : Node} (hk : jumpOk p rk k e = true)
    (he : eval env st vis e w = (.ok (.str t), w')) (hf : p.find t = some n) : rk n.title < k := by
  unfold jumpOk at hk
  split at hk
  · rename_i t'
    simp only [eval, Prod.mk.injEq, Outcome.ok.injEq, Value.str.injEq] at he
    rw [he.1, hf] at hk
    simpa using hk
  · rename_i v hv
    simp only [eval, Prod.mk.injEq, Outcome.ok.injEq] at he
    exact absurd he.1.symm (by intro h; exact hv t h.symm)
  · cases hk

theorem safeStmts_quiet {p : Program} {rk : String → Nat} {k : Nat} {s : Stmt} {ss : List Stmt} (hq : quiet s = true)
    (h : safeStmts p rk k (s :: ss) = true) : safeStmts p rk k ss = true := by
  rw [safeStmts_cons] at h
  simp only [Bool.and_eq_true, Bool.or_eq_true] at h
  cases s <;> simp [quiet] at hq <;> simpa [stops] using h.2

theorem safeStmts_ifs {p : Program} {rk : String → Nat} {k : Nat} {cs : List (Expr × List Stmt)} {ss : List Stmt}
    (h : safeStmts p rk k (.ifs cs :: ss) = true) : safeClauses p rk k cs = true ∧ safeStmts p rk k ss = true := by
  rw [safeStmts_cons] at h
  simpa [safeStmt, stops] using h

theorem safeStmts_jump {p : Program} {rk : String → Nat} {k : Nat} {e : Expr} {ss : List Stmt}
    (h : safeStmts p rk k (.jump e :: ss) = true) : jumpOk p rk k e = true := by
  rw [safeStmts_cons] at h
  simpa [safeStmt, stops] using h

/-! ### the early size -/

theorem earlyStmt_pos (s : Stmt) : 1 ≤ earlyStmt s := by
  cases s <;> simp [earlyStmt] <;> omega

theorem earlyBody_cons (s : Stmt) (ss : List Stmt) :
    earlyBody (s :: ss) = if yields s then 0 else if stops s then 1 else earlyStmt s + earlyBody ss := by
  simp [earlyBody]

theorem earlyBody_quiet {s : Stmt} (hq : quiet s = true) (ss : List Stmt) :
    earlyBody (s :: ss) = earlyStmt s + earlyBody ss := by
  rw [earlyBody_cons]
  cases s <;> simp [quiet] at hq <;> simp [yields, stops]

theorem earlyBody_jump (e : Expr) (ss : List Stmt) : earlyBody (.jump e :: ss) = 1 := by
  rw [earlyBody_cons]; simp [yields, stops]

theorem earlyClauses_mem {cs : List (Expr × List Stmt)} {cb : Expr × List Stmt} (h : cb ∈ cs) :
    1 + earlyBody cb.2 ≤ earlyClauses cs := by
  induction cs with
  | nil => cases h
  | cons c cs ih =>
    simp only [earlyClauses]
    rcases List.mem_cons.1 h with h | h
    · subst h; omega
    · have := ih h; omega

theorem maxEarly_mem {p : Program} {n : Node} (h : n ∈ p) : 1 + earlyBody n.body ≤ maxEarly p := by
  induction p with
  | nil => cases h
  | cons a p ih =>
    simp only [maxEarly]
    rcases List.mem_cons.1 h with h | h
    · subst h; exact Nat.le_max_left _ _
    · exact Nat.le_trans (ih h) (Nat.le_max_right _ _)

theorem earlyBody_of_startsYielding {b : List Stmt} (h : startsYielding b = true) : earlyBody b = 0 := by
  cases b with
  | nil => simp [startsYielding] at h
  | cons s ss => rw [earlyBody_cons]; simp only [startsYielding] at h; simp [h]

/-- a productive program has early size at most 1 (exactly 1 unless it is empty) -/
theorem maxEarly_of_productive {p : Program} (h : Productive p = true) : maxEarly p ≤ 1 := by
  induction p with
  | nil => simp [maxEarly]
  | cons n ns ih =>
    simp only [Productive, List.all_cons, Bool.and_eq_true] at h
    have h1 := earlyBody_of_startsYielding h.1
    have h2 := ih (by simpa [Productive] using h.2)
    simp only [maxEarly, h1]
    exact Nat.max_le.2 ⟨Nat.le_refl _, h2⟩

end Ysgo.Ranked
