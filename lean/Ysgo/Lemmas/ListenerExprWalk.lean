import Ysgo.Lemmas.ListenerExpr
import Ysgo.Lemmas.ListenerOps
namespace Ysgo.Listener
open Ysgo

theorem ghost_self_of_sameCtl {σ τ : State} (h : SameCtl σ τ) : τ.ghost σ.next σ.functionCallCallback = τ := by
  have h1 := h.next
  have h2 := h.fnCb
  rcases τ with ⟨nx, al, ns, nd, ln, gs, so, sc, tc, ec, lc, vc, cc, fc, ctc, hc, pc⟩
  simp only at h1 h2
  simp [State.ghost, h1, h2]

theorem deliverE_map_ghost_self (e : PExpr) (σ : State) :
    (deliverE e σ).map (·.ghost σ.next σ.functionCallCallback) = deliverE e σ := by
  cases h : deliverE e σ with
  | ok τ => simp [ghost_self_of_sameCtl (deliverE_ok h)]
  | panic => rfl
  | unmodelled => rfl

theorem pushE_alive (cb : ExprCb) (σ : State) (ha : σ.alive = true) :
    pushE cb σ = .ok (σ.withE (cb :: σ.expressionCallbacks)) := by
  unfold pushE
  rw [if_pos ha]
  rfl

theorem visitTerminal_op (k : BinKind) (t : Tk) (s : String) (σ : State) (h : (k.op t).isSome) :
    visitTerminal t s σ = .ok σ := by
  cases k <;> cases t <;> simp_all [BinKind.op, Translate.mulOp, Translate.addOp, Translate.cmpOp, Translate.eqOp,
    Translate.logOp, visitTerminal]

theorem binaryOperator_of_op (k : BinKind) (t : Tk) (op : BinOp) (h : k.op t = some op) : binaryOperator t = some op := by
  cases k <;> cases t <;> simp_all [BinKind.op, Translate.mulOp, Translate.addOp, Translate.cmpOp, Translate.eqOp,
    Translate.logOp, binaryOperator]

theorem ExprCb.setLeft_of_not_mem (c : Nat) (e : PExpr) (cb : ExprCb) (h : c ∉ cb.ids) : cb.setLeft c e = cb := by
  cases cb <;> simp [ExprCb.setLeft]
  next op c' l =>
    simp only [ExprCb.ids, List.mem_cons, not_or] at h
    intro hc
    exact absurd hc.symm h.1

theorem Bounded.withE {σ : State} {n : Nat} (hb : Bounded σ n) (stk : List ExprCb)
    (h : ∀ cb ∈ stk, Below n cb.ids) : Bounded (σ.withE stk) n := hb.setExprCbs stk h

theorem Bounded.pushE {σ : State} {n : Nat} (hb : Bounded σ n) (cb : ExprCb) (h : Below n cb.ids) :
    Bounded (σ.withE (cb :: σ.expressionCallbacks)) n :=
  hb.withE _ fun x hx => by
    rcases List.mem_cons.1 hx with rfl | hx
    · exact h
    · exact hb.exprCbs x hx

theorem Bounded.ghost {σ : State} {n : Nat} (hb : Bounded σ n) (n' : Nat) (f : Option FnCb) : Bounded (σ.ghost n' f) n :=
  ⟨hb.nodes, hb.node, hb.line, hb.groups, hb.options, hb.stmtCbs, hb.exprCbs, hb.lineCbs, hb.clauseCbs, hb.textCb,
   hb.varCb, hb.cmdTextCb, hb.proto⟩

theorem callE_notE (rest : List ExprCb) (e : PExpr) (σ : State) :
    callE (.notE :: rest) e σ = callE rest (.not e) (σ.withE rest) := rfl
theorem callE_negE (rest : List ExprCb) (e : PExpr) (σ : State) :
    callE (.negE :: rest) e σ = callE rest (.neg e) (σ.withE rest) := rfl
theorem callE_binR (op : BinOp) (c : Nat) (l : PExpr) (rest : List ExprCb) (e : PExpr) (σ : State) :
    callE (.binR op c l :: rest) e σ = callE rest (.bin op l e) (σ.withE rest) := rfl
theorem callE_binL (c : Nat) (rest : List ExprCb) (e : PExpr) (σ : State) :
    callE (.binL c :: rest) e σ = .ok (σ.withE (rest.map (ExprCb.setLeft c e))) := rfl
theorem callE_fnArg (k : Nat) (rest : List ExprCb) (e : PExpr) (σ : State) :
    callE (.fnArg k :: rest) e σ = .ok (σ.modify k (.callArg e)) := rfl

theorem ctxText_single (ty : Tk) (s : String) : ctxText [.tok ty s] = .ok s := by
  simp [ctxText, getText.go, getText]

theorem numberOf_of_numberText {s : String} (h : numberText s = true) : numberOf s = .ok (numberValue s) := by
  unfold numberText at h
  unfold numberOf numberValue
  cases hp : F64.parseFloat s <;> simp_all

theorem dropFirstByte_of_asciiHead {s : String} (h : asciiHead s = true) : dropFirstByte s = .ok (Translate.tail1 s) := by
  unfold asciiHead at h
  unfold dropFirstByte Translate.tail1
  cases hs : s.toList with
  | nil => simp [hs] at h
  | cons c r => simp_all

theorem stripQuotes_of_quoted {s : String} (h : quoted s = true) : stripQuotes s = .ok (Translate.middle s) := by
  unfold quoted at h
  unfold stripQuotes Translate.middle
  cases hs : s.toList with
  | nil => simp [hs] at h
  | cons c r =>
    cases r with
    | nil => simp [hs] at h
    | cons d r' =>
      simp only [hs] at h
      cases hl : (d :: r').getLast? with
      | none => simp [hl] at h
      | some z => simp_all

/-- the function-call slot after an expression: the closure of EnterValueFunc clears it -/
def clearIf : Bool → Option FnCb → Option FnCb
  | true, _ => none
  | false, f => f

/-- the claim of this file for one expression -/
def CExpr.Spec (e : CExpr) : Prop :=
  ∀ σ : State, σ.alive = true → σ.variableCallback = none → Bounded σ σ.next →
    walk e.toPT σ = (deliverE (e.pE σ.next) σ).map
      (·.ghost (σ.next + e.cnt) (clearIf e.hasCall σ.functionCallCallback))

theorem Outcome.bind_id_of {α} (x : Outcome α) (f : α → Outcome α) (h : ∀ a, f a = .ok a) : x.bind f = x := by
  cases x <;> simp [h]

theorem deliverE_alive (e : PExpr) (σ : State) (ha : σ.alive = true) :
    deliverE e σ = callE σ.expressionCallbacks e σ := by
  unfold deliverE
  rw [if_pos ha]


theorem enter_expParens (cs : List PT) (σ : State) : enter .expParens cs σ = .ok σ := rfl
theorem enter_expValue (cs : List PT) (σ : State) : enter .expValue cs σ = .ok σ := rfl
theorem enter_expNot (cs : List PT) (σ : State) : enter .expNot cs σ = pushE .notE σ := rfl
theorem enter_expNegative (cs : List PT) (σ : State) : enter .expNegative cs σ = pushE .negE σ := rfl
theorem exit_expParens (σ : State) : exit .expParens σ = .ok σ := rfl
theorem exit_expValue (σ : State) : exit .expValue σ = .ok σ := rfl
theorem exit_expNot (σ : State) : exit .expNot σ = .ok σ := rfl
theorem exit_expNegative (σ : State) : exit .expNegative σ = .ok σ := rfl

theorem CExpr.spec_parens (tx : Tx) (e : CExpr) (ih : e.Spec) : (CExpr.parens tx e).Spec := by
  intro σ ha hv hb
  simp only [CExpr.toPT, walk_rule, walkList_cons, walk_tok, visitTerminal, enter_expParens, Outcome.bind_ok,
    ih σ ha hv hb, CExpr.pE, CExpr.cnt, CExpr.hasCall]
  rw [Outcome.bind_id_of _ (walkList _) (fun a => by simp [walkList_cons, walk_tok, visitTerminal]),
    Outcome.bind_id_of _ _ exit_expParens]

theorem CExpr.spec_not (tx : Tx) (e : CExpr) (ih : e.Spec) : (CExpr.not tx e).Spec := by
  intro σ ha hv hb
  simp only [CExpr.toPT, walk_rule, walkList_cons, walk_tok, visitTerminal, enter_expNot, Outcome.bind_ok,
    pushE_alive _ σ ha, CExpr.pE, CExpr.cnt, CExpr.hasCall]
  rw [ih (σ.withE (.notE :: σ.expressionCallbacks)) ha hv (hb.pushE .notE (Below.nil _))]
  rw [Outcome.bind_id_of _ (walkList _) (fun a => by simp), Outcome.bind_id_of _ _ exit_expNot]
  rw [deliverE_alive _ σ ha, deliverE_alive _ (σ.withE (.notE :: σ.expressionCallbacks)) ha]
  simp [callE_notE]



theorem CExpr.spec_neg (tx : Tx) (e : CExpr) (ih : e.Spec) : (CExpr.neg tx e).Spec := by
  intro σ ha hv hb
  simp only [CExpr.toPT, walk_rule, walkList_cons, walk_tok, visitTerminal, enter_expNegative, Outcome.bind_ok,
    pushE_alive _ σ ha, CExpr.pE, CExpr.cnt, CExpr.hasCall]
  rw [ih (σ.withE (.negE :: σ.expressionCallbacks)) ha hv (hb.pushE .negE (Below.nil _))]
  rw [Outcome.bind_id_of _ (walkList _) (fun a => by simp), Outcome.bind_id_of _ _ exit_expNegative]
  rw [deliverE_alive _ σ ha, deliverE_alive _ (σ.withE (.negE :: σ.expressionCallbacks)) ha]
  simp [callE_negE]



theorem enter_bin (k : BinKind) (cs : List PT) (σ : State) : enter k.ctx cs σ = enterBinary cs σ := by
  cases k <;> rfl
theorem exit_bin (k : BinKind) (σ : State) : exit k.ctx σ = .ok σ := by cases k <;> rfl

theorem enterBinary_eq (a b : PT) (t : Tk) (s : String) (op : BinOp) (σ : State) (ha : σ.alive = true)
    (hop : binaryOperator t = some op) :
    enterBinary [a, .tok t s, b] σ
      = .ok ((σ.withNext (σ.next + 1)).withE (.binL σ.next :: .binR op σ.next .hole :: σ.expressionCallbacks)) := by
  simp only [enterBinary, hop, State.alloc, Outcome.bind_eq]
  rw [show (pushE (.binR op σ.next .hole) { σ with next := σ.next + 1 })
      = pushE (.binR op σ.next .hole) (σ.withNext (σ.next + 1)) from rfl]
  rw [pushE_alive _ (σ.withNext (σ.next + 1)) ha]
  simp only [Outcome.bind_ok]
  rw [pushE_alive _ ((σ.withNext (σ.next + 1)).withE _) ha]
  rfl

theorem clearIf_clearIf (a b : Bool) (f : Option FnCb) : clearIf b (clearIf a f) = clearIf (a || b) f := by
  cases a <;> cases b <;> rfl

theorem map_setLeft_of_bounded {n c : Nat} (e : PExpr) (stk : List ExprCb) (h : ∀ cb ∈ stk, Below n cb.ids) (hc : n ≤ c) :
    stk.map (ExprCb.setLeft c e) = stk :=
  map_eq_self _ _ fun cb hcb => ExprCb.setLeft_of_not_mem c e cb ((h cb hcb).not_mem hc)

theorem Bounded.withNext {σ : State} {n : Nat} (hb : Bounded σ n) (x : Nat) : Bounded (σ.withNext x) n :=
  ⟨hb.nodes, hb.node, hb.line, hb.groups, hb.options, hb.stmtCbs, hb.exprCbs, hb.lineCbs, hb.clauseCbs, hb.textCb,
   hb.varCb, hb.cmdTextCb, hb.proto⟩

theorem Bounded.withFn {σ : State} {n : Nat} (hb : Bounded σ n) (x : Option FnCb) : Bounded (σ.withFn x) n :=
  ⟨hb.nodes, hb.node, hb.line, hb.groups, hb.options, hb.stmtCbs, hb.exprCbs, hb.lineCbs, hb.clauseCbs, hb.textCb,
   hb.varCb, hb.cmdTextCb, hb.proto⟩

theorem CExpr.spec_bin (k : BinKind) (t : Tk) (tx : Tx) (l r : CExpr) (hop : (k.op t).isSome) (ihl : l.Spec)
    (ihr : r.Spec) : (CExpr.bin k t tx l r).Spec := by
  intro σ ha hv hb
  obtain ⟨op, hop'⟩ := Option.isSome_iff_exists.1 hop
  let c := σ.next
  let S := σ.expressionCallbacks
  let σ₁ := (σ.withNext (c + 1)).withE (.binL c :: .binR op c .hole :: S)
  have hb1 : Bounded σ₁ (c + 1) := by
    refine ((hb.mono (Nat.le_succ _)).withNext (c + 1)).withE _ ?_
    intro cb hcb
    simp only [List.mem_cons] at hcb
    rcases hcb with rfl | rfl | hcb
    · exact Below.cons (Nat.lt_succ_self _) (Below.nil _)
    · exact Below.cons (Nat.lt_succ_self _) (Below.nil _)
    · exact (hb.exprCbs cb hcb).mono (Nat.le_succ _)
  have hl := ihl σ₁ ha hv hb1
  let lP := l.pE (c + 1)
  let σ₂ := (σ₁.withE (.binR op c lP :: S)).ghost (c + 1 + l.cnt) (clearIf l.hasCall σ.functionCallCallback)
  have hl' : walk l.toPT σ₁ = .ok σ₂ := by
    rw [hl, deliverE_alive _ σ₁ ha]
    show (callE (.binL c :: .binR op c .hole :: S) lP σ₁).map _ = _
    rw [callE_binL]
    simp only [Outcome.map_ok, List.map, ExprCb.setLeft, if_true]
    rw [map_setLeft_of_bounded lP S hb.exprCbs (Nat.le_refl _)]
    rfl
  have hlids := CExpr.ids_pE l (c + 1)
  have hb2 : Bounded σ₂ (c + 1 + l.cnt) := by
    refine Bounded.ghost ?_ _ _
    refine (hb1.mono (by omega)).withE _ ?_
    intro cb hcb
    simp only [List.mem_cons] at hcb
    rcases hcb with rfl | hcb
    · exact Below.cons (by omega) hlids.below
    · exact (hb.exprCbs cb hcb).mono (by omega)
  have hr := ihr σ₂ ha hv hb2
  simp only [CExpr.toPT, walk_rule, walkList_cons, walk_tok, enter_bin,
    enterBinary_eq _ _ _ _ op σ ha (binaryOperator_of_op k t op hop'), Outcome.bind_ok,
    visitTerminal_op k t _ _ hop, CExpr.pE, CExpr.cnt, CExpr.hasCall, hop', Option.getD_some]
  show ((walk l.toPT σ₁).bind _).bind _ = _
  rw [hl']
  simp only [Outcome.bind_ok, walkList_cons, walk_tok, visitTerminal_op k t _ _ hop]
  rw [hr, Outcome.bind_id_of _ (walkList _) (fun a => by simp), Outcome.bind_id_of _ _ (exit_bin k)]
  rw [deliverE_alive _ σ₂ ha, deliverE_alive _ σ ha]
  show (callE (.binR op c lP :: S) _ σ₂).map _ = _
  rw [callE_binR]
  have : σ₂.withE S = σ.ghost (c + 1 + l.cnt) (clearIf l.hasCall σ.functionCallCallback) := rfl
  rw [this, callE_ghost, Outcome.map_map]
  congr 1
  funext τ
  simp only [Function.comp, State.ghost_ghost, clearIf_clearIf]
  show τ.ghost (c + 1 + l.cnt + r.cnt) _ = τ.ghost (c + (1 + l.cnt + r.cnt)) _
  rw [show c + 1 + l.cnt + r.cnt = c + (1 + l.cnt + r.cnt) by omega]
  show τ.ghost _ (clearIf r.hasCall (clearIf l.hasCall σ.functionCallCallback)) = _
  rw [clearIf_clearIf]



/-- filling in the arguments of a call that has already been handed on = handing on the call with its arguments -/
theorem deliverE_call_args {σ : State} {n k : Nat} (f : String) (hb : Bounded σ n) (hk : n ≤ k) :
    ∀ (as done : List PExpr), k ∉ PExpr.idsList done → k ∉ PExpr.idsList as →
      (deliverE (.call k f done) σ).map (fun τ => as.foldl (fun τ a => τ.modify k (.callArg a)) τ)
        = deliverE (.call k f (done ++ as)) σ
  | [], done, _, _ => by simp [Outcome.map_id']
  | a :: rest, done, hd, ha => by
    simp only [PExpr.idsList, List.mem_append, not_or] at ha
    have h1 : (fun τ : State => (a :: rest).foldl (fun τ a => τ.modify k (.callArg a)) τ)
        = (fun τ => rest.foldl (fun τ a => τ.modify k (.callArg a)) τ) ∘ (fun τ => τ.modify k (.callArg a)) := rfl
    rw [h1, ← Outcome.map_map, deliverE_modify (.callArg a) (.call k f done) hb hk]
    have h2 : (PExpr.call k f done).modify k (.callArg a) = .call k f (done ++ [a]) := by
      simp [PExpr.modify, PExpr.modifyList_of_not_mem k _ done hd]
    rw [h2, deliverE_call_args f hb hk rest (done ++ [a])
      (by simp [PExpr.idsList_append, PExpr.idsList, hd, ha.1]) ha.2]
    simp

theorem clearIf_none (b : Bool) : clearIf b none = none := by cases b <;> rfl

/-- the state while the arguments of call `k` are walked -/
def argState (τ : State) (k n : Nat) (fcb : Option FnCb) : State :=
  (τ.withE (.fnArg k :: τ.expressionCallbacks)).ghost n fcb

theorem walk_arg (a : CExpr) (ih : a.Spec) (τ : State) (k n : Nat) (fcb : Option FnCb) (hal : τ.alive = true)
    (hv : τ.variableCallback = none) (hb : Bounded τ n) (hk : k < n) :
    walk a.toPT (argState τ k n fcb)
      = .ok (argState (τ.modify k (.callArg (a.pE n))) k (n + a.cnt) (clearIf a.hasCall fcb)) := by
  have hb' : Bounded (argState τ k n fcb) n :=
    Bounded.ghost (hb.pushE (.fnArg k) (Below.cons hk (Below.nil _))) _ _
  rw [ih (argState τ k n fcb) hal hv hb', deliverE_alive _ (argState τ k n fcb) hal]
  rfl

theorem walk_moreArgs (tx : Tx) (k : Nat) : ∀ (args : List CExpr), (∀ a ∈ args, a.Spec) →
    ∀ (j : Nat) (τ : State) (n : Nat) (fcb : Option FnCb), τ.alive = true → τ.variableCallback = none → Bounded τ n →
      k < n →
      walkList (CExpr.moreArgsPT tx j args) (argState τ k n fcb)
        = .ok (argState ((CExpr.pEList args n).foldl (fun τ a => τ.modify k (.callArg a)) τ) k
            (n + CExpr.cntList args) (clearIf (CExpr.hasCallList args) fcb))
  | [], _, j, τ, n, fcb, _, _, _, _ => by
    simp [CExpr.moreArgsPT, walkList_cons, walk_tok, visitTerminal, CExpr.pEList, CExpr.cntList, CExpr.hasCallList,
      clearIf]
  | a :: rest, ih, j, τ, n, fcb, hal, hv, hb, hk => by
    simp only [CExpr.moreArgsPT, walkList_cons, walk_tok, visitTerminal, Outcome.bind_ok]
    rw [walk_arg a (ih a (by simp)) τ k n fcb hal hv hb hk]
    simp only [Outcome.bind_ok]
    rw [walk_moreArgs tx k rest (fun b hb' => ih b (by simp [hb'])) (j + 1)
      (τ.modify k (.callArg (a.pE n))) (n + a.cnt) (clearIf a.hasCall fcb) hal hv
      ((hb.mono (by omega)).modify k _ rfl ((CExpr.ids_pE a n).below)) (by omega)]
    simp only [CExpr.pEList, CExpr.cntList, CExpr.hasCallList, List.foldl, clearIf_clearIf, Nat.add_assoc]


def CValue.Spec (v : CValue) : Prop :=
  ∀ σ : State, σ.alive = true → σ.variableCallback = none → Bounded σ σ.next →
    walk v.toPT σ = (deliverE (v.pE σ.next) σ).map
      (·.ghost (σ.next + v.cnt) (clearIf v.hasCall σ.functionCallCallback))

theorem enter_valueFunc (cs : List PT) (σ : State) : enter .valueFunc cs σ = .ok (σ.withFn (some .valueFunc)) := rfl
theorem exit_valueFunc (σ : State) : exit .valueFunc σ = .ok σ := rfl
theorem exit_functionCall (σ : State) : exit .functionCall σ = popE σ := rfl

theorem foldl_modify_alive (k : Nat) : ∀ (as : List PExpr) (τ : State),
    (as.foldl (fun τ a => τ.modify k (.callArg a)) τ).alive = τ.alive
  | [], _ => rfl
  | a :: rest, τ => by simp [List.foldl, foldl_modify_alive k rest]

theorem clearIf_true (f : Option FnCb) : clearIf true f = none := rfl

theorem popE_argState (τ : State) (k n : Nat) (fcb : Option FnCb) (hal : τ.alive = true) :
    popE (argState τ k n fcb) = .ok (τ.ghost n fcb) := by
  unfold popE
  rw [if_pos (show (argState τ k n fcb).alive = true from hal)]
  rfl

/-- the children of a `function_call` context, from a state in which the call has been handed on -/
theorem walk_callChildren (f : String) (tx : Tx) (lead : Bool) (args : List CExpr) (ih : ∀ a ∈ args, a.Spec)
    (k : Nat) (τ : State) (n : Nat) (fcb : Option FnCb) (hal : τ.alive = true) (hv : τ.variableCallback = none)
    (hb : Bounded τ n) (hk : k < n) (cs : List PT)
    (hcs : (CCall.mk f tx lead args).toPT = .rule .functionCall cs) :
    walkList cs (argState τ k n fcb)
      = .ok (argState ((CExpr.pEList args n).foldl (fun τ a => τ.modify k (.callArg a)) τ) k
          (n + CExpr.cntList args) (clearIf (CExpr.hasCallList args) fcb)) := by
  cases lead with
  | false =>
    simp only [CCall.toPT, PT.rule.injEq, true_and] at hcs
    subst hcs
    simp only [walkList_cons, walk_tok, visitTerminal, Outcome.bind_ok]
    exact walk_moreArgs tx k args ih 2 τ n fcb hal hv hb hk
  | true =>
    cases args with
    | nil =>
      simp only [CCall.toPT, PT.rule.injEq, true_and] at hcs
      subst hcs
      simp only [walkList_cons, walk_tok, visitTerminal, Outcome.bind_ok]
      exact walk_moreArgs tx k [] ih 2 τ n fcb hal hv hb hk
    | cons a rest =>
      simp only [CCall.toPT, PT.rule.injEq, true_and] at hcs
      subst hcs
      simp only [walkList_cons, walk_tok, visitTerminal, Outcome.bind_ok]
      rw [walk_arg a (ih a (by simp)) τ k n fcb hal hv hb hk]
      simp only [Outcome.bind_ok]
      rw [walk_moreArgs tx k rest (fun b hb' => ih b (by simp [hb'])) 2
        (τ.modify k (.callArg (a.pE n))) (n + a.cnt) (clearIf a.hasCall fcb) hal hv
        ((hb.mono (by omega)).modify k _ rfl ((CExpr.ids_pE a n).below)) (by omega)]
      simp only [CExpr.pEList, CExpr.cntList, CExpr.hasCallList, List.foldl, clearIf_clearIf, Nat.add_assoc]

theorem funcId_toPT (f : String) (tx : Tx) (lead : Bool) (args : List CExpr) :
    ∃ cs, (CCall.mk f tx lead args).toPT = .rule .functionCall cs ∧ funcId cs = .ok (some f) := by
  cases lead <;> cases args <;> exact ⟨_, rfl, rfl⟩

theorem enter_functionCall (cs : List PT) (f : String) (σ : State) (h : funcId cs = .ok (some f)) :
    enter .functionCall cs σ = (deliverF σ.next f (σ.withNext (σ.next + 1))).bind (pushE (.fnArg σ.next)) := by
  simp only [enter, h, State.alloc, Outcome.bind_eq, Outcome.bind_ok]
  rfl

theorem CCall.spec_valueFunc (f : String) (tx : Tx) (lead : Bool) (args : List CExpr) (ih : ∀ a ∈ args, a.Spec) :
    (CValue.call (.mk f tx lead args)).Spec := by
  intro σ ha hv hb
  obtain ⟨cs, hcs, hf⟩ := funcId_toPT f tx lead args
  let k := σ.next
  simp only [CValue.toPT, walk_rule, hcs, walkList_cons, enter_valueFunc, Outcome.bind_ok, walkList_nil,
    enter_functionCall cs f _ hf, exit_functionCall, CValue.pE, CCall.pE, CValue.cnt, CCall.cnt, CValue.hasCall,
    State.withFn_next]
  have hD : deliverF k f ((σ.withFn (some .valueFunc)).withNext (k + 1))
      = (deliverE (.call k f []) σ).map (·.ghost (k + 1) none) := by
    rw [← deliverE_ghost]
    rfl
  show ((((deliverF k f ((σ.withFn (some .valueFunc)).withNext (k + 1))).bind _).bind _).bind _).bind _ = _
  rw [hD]
  have hchain := deliverE_call_args (σ := σ) (n := k) (k := k) f hb (Nat.le_refl _) (CExpr.pEList args (k + 1)) []
    (by simp [PExpr.idsList]) ((CExpr.ids_pEList args (k + 1)).not_mem (Nat.lt_succ_self _))
  rw [List.nil_append] at hchain
  rw [← hchain]
  cases hD' : deliverE (.call k f []) σ with
  | panic => rfl
  | unmodelled => rfl
  | ok τ₀ =>
    have hs := deliverE_ok hD'
    have hal : τ₀.alive = true := hs.alive.trans ha
    have hv0 : τ₀.variableCallback = none := hs.varCb.trans hv
    have hb0 : Bounded τ₀ (k + 1) :=
      deliverE_bounded hD' (hb.mono (Nat.le_succ _)) (by simp [PExpr.ids, PExpr.idsList, Below.cons, Below.nil])
    simp only [Outcome.map_ok, Outcome.bind_ok]
    rw [pushE_alive _ (τ₀.ghost (k + 1) none) hal]
    simp only [Outcome.bind_ok]
    rw [show (τ₀.ghost (k + 1) none).withE (ExprCb.fnArg σ.next :: (τ₀.ghost (k + 1) none).expressionCallbacks)
        = argState τ₀ k (k + 1) none from rfl]
    rw [walk_callChildren f tx lead args ih k τ₀ (k + 1) none hal hv0 hb0 (Nat.lt_succ_self _) cs hcs]
    simp only [Outcome.bind_ok, exit_functionCall]
    rw [popE_argState _ _ _ _ (by rw [foldl_modify_alive]; exact hal)]
    simp only [Outcome.bind_ok, walkList_nil, exit_valueFunc, clearIf_none, clearIf_true]
    rw [show k + 1 + CExpr.cntList args = σ.next + (1 + CExpr.cntList args) by omega]


/-! ### the other values -/

theorem bind_deliverE_of_sameCtl (e : PExpr) (σ : State) (g : State → Outcome State)
    (h : ∀ τ, SameCtl σ τ → g τ = .ok τ) : (deliverE e σ).bind g = deliverE e σ := by
  cases hD : deliverE e σ with
  | ok τ => simpa using h τ (deliverE_ok hD)
  | panic => rfl
  | unmodelled => rfl

theorem enter_variable_none (cs : List PT) (σ : State) (h : σ.variableCallback = none) : enter .variable cs σ = .ok σ := by
  simp [enter, h]

theorem ctxText_variable (s : String) : ctxText [.rule .variable [.tok .varId s]] = .ok s := by
  simp [ctxText, getText.go, getText]

/-- a value that is delivered on entering its context and has no further effect -/
theorem CValue.spec_leaf (v : CValue) (c : Ctx) (cs : List PT) (e : PExpr) (hpt : v.toPT = .rule c cs)
    (hpe : ∀ n, v.pE n = e) (hc : v.cnt = 0) (hh : v.hasCall = false)
    (hen : ∀ σ, enter c cs σ = deliverE e σ)
    (hch : ∀ τ : State, τ.variableCallback = none → walkList cs τ = .ok τ) (hex : ∀ τ, exit c τ = .ok τ) : v.Spec := by
  intro σ _ hv _
  rw [hpt, walk_rule, hen, hpe, hc, hh]
  rw [bind_deliverE_of_sameCtl e σ _ (fun τ hτ => by rw [hch τ (hτ.varCb.trans hv)]; exact hex τ)]
  exact (deliverE_map_ghost_self e σ).symm

theorem CValue.spec_num (s : String) (h : numberText s = true) : (CValue.num s).Spec :=
  CValue.spec_leaf _ .valueNumber _ (.lit (.num (numberValue s))) rfl (fun _ => rfl) rfl rfl
    (fun σ => by simp [enter, ctxText_single, numberOf_of_numberText h])
    (fun τ _ => by simp [walkList_cons, walk_tok, visitTerminal]) (fun _ => rfl)

theorem CValue.spec_tru (tx : Tx) : (CValue.tru tx).Spec :=
  CValue.spec_leaf _ .valueTrue _ (.lit (.bool true)) rfl (fun _ => rfl) rfl rfl (fun σ => rfl)
    (fun τ _ => by simp [walkList_cons, walk_tok, visitTerminal]) (fun _ => rfl)

theorem CValue.spec_fls (tx : Tx) : (CValue.fls tx).Spec :=
  CValue.spec_leaf _ .valueFalse _ (.lit (.bool false)) rfl (fun _ => rfl) rfl rfl (fun σ => rfl)
    (fun τ _ => by simp [walkList_cons, walk_tok, visitTerminal]) (fun _ => rfl)

theorem CValue.spec_null (tx : Tx) : (CValue.null tx).Spec :=
  CValue.spec_leaf _ .valueNull _ .null rfl (fun _ => rfl) rfl rfl (fun σ => rfl)
    (fun τ _ => by simp [walkList_cons, walk_tok, visitTerminal]) (fun _ => rfl)

theorem CValue.spec_str (s : String) (h : quoted s = true) : (CValue.str s).Spec :=
  CValue.spec_leaf _ .valueString _ (.lit (.str (Translate.middle s))) rfl (fun _ => rfl) rfl rfl
    (fun σ => by simp [enter, ctxText_single, stripQuotes_of_quoted h])
    (fun τ _ => by simp [walkList_cons, walk_tok, visitTerminal]) (fun _ => rfl)

theorem CValue.spec_var (s : String) (h : asciiHead s = true) : (CValue.var s).Spec :=
  CValue.spec_leaf _ .valueVar _ (.var (Translate.tail1 s)) rfl (fun _ => rfl) rfl rfl
    (fun σ => by simp [enter, ctxText_variable, dropFirstByte_of_asciiHead h])
    (fun τ hτ => by
      simp [walkList_cons, walk_rule, enter_variable_none _ _ hτ, walk_tok, visitTerminal, exit])
    (fun _ => rfl)

theorem CExpr.spec_value (v : CValue) (ih : v.Spec) : (CExpr.value v).Spec := by
  intro σ ha hv hb
  simp only [CExpr.toPT, walk_rule, walkList_cons, enter_expValue, Outcome.bind_ok, ih σ ha hv hb, CExpr.pE, CExpr.cnt,
    CExpr.hasCall]
  rw [Outcome.bind_id_of _ (walkList _) (fun a => by simp), Outcome.bind_id_of _ _ exit_expValue]

/-! ### all expressions -/

mutual
theorem CExpr.spec : ∀ e : CExpr, e.WF → e.Spec
  | .parens tx e, h => CExpr.spec_parens tx e (CExpr.spec e (by simpa [CExpr.WF] using h))
  | .neg tx e, h => CExpr.spec_neg tx e (CExpr.spec e (by simpa [CExpr.WF] using h))
  | .not tx e, h => CExpr.spec_not tx e (CExpr.spec e (by simpa [CExpr.WF] using h))
  | .bin k t tx l r, h => by
    simp only [CExpr.WF] at h
    exact CExpr.spec_bin k t tx l r h.1 (CExpr.spec l h.2.1) (CExpr.spec r h.2.2)
  | .value v, h => CExpr.spec_value v (CValue.spec v (by simpa [CExpr.WF] using h))
theorem CValue.spec : ∀ v : CValue, v.WF → v.Spec
  | .num s, h => CValue.spec_num s (by simpa [CValue.WF] using h)
  | .tru tx, _ => CValue.spec_tru tx
  | .fls tx, _ => CValue.spec_fls tx
  | .var s, h => CValue.spec_var s (by simpa [CValue.WF] using h)
  | .str s, h => CValue.spec_str s (by simpa [CValue.WF] using h)
  | .null tx, _ => CValue.spec_null tx
  | .call (.mk f tx lead args), h =>
    CCall.spec_valueFunc f tx lead args (CExpr.specList args (by simpa [CValue.WF, CCall.WF] using h))
theorem CExpr.specList : ∀ args : List CExpr, CExpr.WFList args → ∀ a ∈ args, a.Spec
  | [], _, a, ha => by simp at ha
  | b :: rest, h, a, ha =>
    (List.mem_cons.1 ha).elim (fun e => e ▸ CExpr.spec b ((by simpa [CExpr.WFList] using h : b.WF ∧ CExpr.WFList rest).1))
      (fun ha' => CExpr.specList rest ((by simpa [CExpr.WFList] using h : b.WF ∧ CExpr.WFList rest).2) a ha')
end

end Ysgo.Listener
