import Ysgo.Lemmas.MarkupLoop
/-!
# Markup model: what follows the main loop

`buildAttrs` neither panics nor yields a negative length when the marker positions are ordered; sorting keeps the
attributes; the slices at the regexp match indices are in range; clipping puts every attribute inside the trimmed text.
-/
namespace Ysgo.Markup
attribute [local irreducible] Unicode.isLetter Unicode.isDigit Unicode.isSpace Unicode.toLower

def Outcome.Sat {α : Type} (r : Outcome α) (Q : α → Prop) : Prop :=
  match r with
  | .ok a => Q a
  | .err => True
  | .panic => False

/-- position and length are not negative -/
def AttrOk (a : Attr) : Prop := 0 ≤ a.position ∧ 0 ≤ a.length

theorem lastIndexNamed_bound (name : String) (l : List Marker) (k i : Nat) (h : lastIndexNamed name l k = some i) :
    k ≤ i ∧ i < k + l.length := by
  induction l generalizing k with
  | nil => simp [lastIndexNamed] at h
  | cons m ms ih =>
    unfold lastIndexNamed at h
    split at h
    · rename_i j hj
      simp only [Option.some.injEq] at h; subst h
      have := ih (k + 1) hj
      simp only [List.length_cons]; omega
    · split at h
      · simp only [Option.some.injEq] at h; subst h; simp
      · simp at h

theorem attrOf_ok (o : Marker) (name : String) (p : Nat) (h : o.position ≤ p) : AttrOk (attrOf o name p) := by
  unfold attrOf AttrOk
  simp only
  omega

theorem buildAttrs_ok : ∀ (ms unclosed : List Marker) (acc : List Attr),
    ms.Pairwise (fun a b => a.position ≤ b.position) →
    (∀ u ∈ unclosed, ∀ m ∈ ms, u.position ≤ m.position) →
    (∀ a ∈ acc, AttrOk a) →
    (buildAttrs ms unclosed acc).Sat (fun r => ∀ a ∈ r, AttrOk a) := by
  intro ms
  induction ms with
  | nil => intro unclosed acc _ _ hacc; simpa [buildAttrs, Outcome.Sat] using hacc
  | cons m ms ih =>
    intro unclosed acc hpw hun hacc
    have hpw' := (List.pairwise_cons.mp hpw)
    have hun' : ∀ u ∈ unclosed, ∀ m' ∈ ms, u.position ≤ m'.position :=
      fun u hu m' hm' => hun u hu m' (List.mem_cons_of_mem _ hm')
    unfold buildAttrs
    split
    · -- open
      refine ih _ _ hpw'.2 (fun u hu m' hm' => ?_) hacc
      simp only [List.mem_append, List.mem_singleton] at hu
      rcases hu with hu | hu
      · exact hun' u hu m' hm'
      · subst hu; exact hpw'.1 m' hm'
    · -- close
      split
      · trivial
      · rename_i i hi
        have hb := lastIndexNamed_bound _ _ _ _ hi
        have hlt : i < unclosed.length := by omega
        rw [List.getElem?_eq_getElem hlt]
        simp only
        refine ih _ _ hpw'.2 (fun u hu m' hm' => hun' u (List.mem_of_mem_eraseIdx hu) m' hm') ?_
        intro a ha
        simp only [List.mem_append, List.mem_singleton] at ha
        rcases ha with ha | ha
        · exact hacc a ha
        · subst ha
          exact attrOf_ok _ _ _ (hun _ (List.getElem_mem hlt) m (List.mem_cons_self))
    · -- self-closing
      refine ih _ _ hpw'.2 hun' ?_
      intro a ha
      simp only [List.mem_append, List.mem_singleton] at ha
      rcases ha with ha | ha
      · exact hacc a ha
      · subst ha; unfold AttrOk; simp only; omega
    · -- close all
      refine ih _ _ hpw'.2 (fun u hu => absurd hu List.not_mem_nil) ?_
      intro a ha
      simp only [List.mem_append, List.mem_map] at ha
      rcases ha with ha | ⟨o, ho, rfl⟩
      · exact hacc a ha
      · exact attrOf_ok _ _ _ (hun o ho m List.mem_cons_self)

theorem mem_insertSorted (a x : Attr) (l : List Attr) : x ∈ insertSorted a l ↔ x = a ∨ x ∈ l := by
  induction l with
  | nil => simp [insertSorted]
  | cons b bs ih =>
    unfold insertSorted
    split
    · simp
    · simp only [List.mem_cons, ih]
      constructor
      · rintro (h | h | h) <;> simp [h]
      · rintro (h | h | h) <;> simp [h]

theorem mem_sortStable_aux (x : Attr) (l acc : List Attr) :
    x ∈ l.foldl (fun acc a => insertSorted a acc) acc ↔ x ∈ l ∨ x ∈ acc := by
  induction l generalizing acc with
  | nil => simp
  | cons a l ih =>
    simp only [List.foldl_cons, ih, mem_insertSorted, List.mem_cons]
    constructor
    · rintro (h | h | h) <;> simp [h]
    · rintro ((h | h) | h) <;> simp [h]

theorem mem_sortStable (x : Attr) (l : List Attr) : x ∈ sortStable l ↔ x ∈ l := by
  unfold sortStable
  simp [mem_sortStable_aux]

theorem findColon_bound (l : List Char) (k i e : Nat) (h : findColon l k = some (i, e)) :
    k ≤ i ∧ i < e ∧ e ≤ k + l.length := by
  induction l generalizing k with
  | nil => simp [findColon] at h
  | cons c cs ih =>
    unfold findColon at h
    split at h
    · simp only [Option.some.injEq, Prod.mk.injEq] at h
      obtain ⟨rfl, rfl⟩ := h
      have := (List.takeWhile_prefix (l := cs) Unicode.isPerlSpace).length_le
      simp only [List.length_cons]; omega
    · have := ih (k + 1) h
      simp only [List.length_cons]; omega

/-- every attribute lies inside the text: the statement of C15.2 on a result -/
def InRange (r : ParseResult) : Prop :=
  ∀ a ∈ r.attrs, 0 ≤ a.position ∧ 0 ≤ a.length ∧ a.position + a.length ≤ (r.text.length : Int)

theorem clipAttr_range (lead n : Nat) (a : Attr) (h : AttrOk a) :
    0 ≤ (clipAttr lead n a).position ∧ 0 ≤ (clipAttr lead n a).length ∧
      (clipAttr lead n a).position + (clipAttr lead n a).length ≤ (n : Int) := by
  unfold AttrOk at h
  unfold clipAttr
  simp only
  omega

theorem addCharacter_safe (input : List Char) (attrs : List Attr) (s : PS) (h : ∀ a ∈ attrs, AttrOk a) :
    (addCharacter input attrs s).Sat (fun r _ => ∀ a ∈ r, AttrOk a) := by
  unfold addCharacter
  split
  · simpa [pure, P.pure, Res.Sat] using h
  · cases hfc : findColon input 0 with
    | none => simpa [pure, P.pure, Res.Sat] using h
    | some p =>
      obtain ⟨i, e⟩ := p
      have hfb := findColon_bound _ _ _ _ hfc
      have h1 : 0 ≤ i ∧ i ≤ input.length := by omega
      have h2 : 0 ≤ e ∧ e ≤ input.length := by omega
      simp only [sliceP, h1, h2, and_self, if_true, bind, P.bind, pure, P.pure, Res.Sat]
      intro a ha
      simp only [List.mem_append, List.mem_singleton] at ha
      rcases ha with ha | ha
      · exact h a ha
      · subst ha; unfold AttrOk; simp only; omega

theorem finish_safe (input : List Char) (st : LoopSt) (s : PS) (hok : MarkersOk st) :
    (finish input st s).Sat (fun r _ => InRange r) := by
  unfold finish
  have hb := buildAttrs_ok st.markers [] [] hok.1 (fun u hu => absurd hu List.not_mem_nil)
    (fun a ha => absurd ha List.not_mem_nil)
  cases hbuild : buildAttrs st.markers [] [] with
  | err => simp [fail, Res.Sat]
  | panic => simp [hbuild, Outcome.Sat] at hb
  | ok attrs =>
    simp only [hbuild, Outcome.Sat] at hb
    simp only [bind, P.bind]
    have hsorted : ∀ a ∈ sortStable attrs, AttrOk a := fun a ha => hb a ((mem_sortStable a attrs).mp ha)
    have hc := addCharacter_safe input (sortStable attrs) s hsorted
    cases hch : addCharacter input (sortStable attrs) s with
    | ok as s' =>
      simp only [hch, Res.Sat] at hc
      simp only [pure, P.pure, Res.Sat]
      intro a ha
      simp only [List.mem_map] at ha
      obtain ⟨b, hb', rfl⟩ := ha
      have := clipAttr_range (trimLeftLen st.out) (trimSpace st.out).length b (hc b hb')
      simpa [String.length_ofList] using this
    | err _ => simp only [Res.Sat]
    | panic _ => simp only [hch, Res.Sat] at hc
    | oof _ => simp only [hch, Res.Sat] at hc

/-- with enough fuel `parseCore` does not panic, does not run out of fuel, and its results are in range -/
theorem parseCore_sat (fuel pfuel : Nat) (st : ParserState) (input : List Char)
    (hf : input.length < fuel) (hp : input.length < pfuel) :
    (parseCore fuel pfuel st input).Sat (fun r _ => InRange r) := by
  unfold parseCore
  simp only [bind, P.bind]
  have hm := mainLoop_safe pfuel fuel {} { rest := input, src := 0, pos := 0 } hf hp
    ⟨List.Pairwise.nil, fun m hm => absurd hm List.not_mem_nil⟩
  cases hml : mainLoop pfuel fuel {} { rest := input, src := 0, pos := 0 } with
  | ok st' s' =>
    simp only [hml, Res.Sat] at hm
    exact finish_safe input st' s' hm
  | err _ => simp only [Res.Sat]
  | panic _ => simp only [hml, Res.Sat] at hm
  | oof _ => simp only [hml, Res.Sat] at hm

end Ysgo.Markup
