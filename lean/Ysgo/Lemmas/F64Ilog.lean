import Ysgo.Lemmas.F64Layout
/-!
# F64 lemma library, part 19: `ilog10`, and what `shortest` returns

* `ilog10_spec`: `ilog10 q = ⌊log10 q⌋` for `2^-1098 ≤ q ≤ 2^1098` (all finite non-zero doubles): the estimate
  `⌊(log2 num − log2 den)·0.30103⌋ − 1` is at most 6 below the floor of the decimal logarithm, so the first correction
  loop reaches it and the second does nothing. The estimate is checked for all 2201 possible binary exponents by
  evaluation in the kernel.
* `shortest_digits`: the digits `d` returned by `shortest` form an `nd`-digit number and the decimal exponent is in range.
* `shortest_some`: `shortest x ≠ none` for every finite non-zero double — at 17 digits one of the two candidates is inside
  the rounding interval, because the spacing `10^(k-16)` of 17-digit decimals is smaller than the gap between midpoints.
-/
namespace Ysgo
namespace F64

/-! ### `ilog10` as two iterated corrections -/

def ilogStart (q : ℚ) : ℤ := ((Nat.log2 q.num.toNat : Int) - (Nat.log2 q.den : Int)) * 30103 / 100000 - 1
def ilogUp (q : ℚ) (k : ℤ) : ℤ := if pow10Rat (k + 1) ≤ q then k + 1 else k
def ilogDn (q : ℚ) (k : ℤ) : ℤ := if q < pow10Rat k then k - 1 else k

theorem forIn_yield_iterate {α σ : Type} (l : List α) (f : σ → σ) (b : α → σ → Id (ForInStep σ))
    (hb : ∀ a s, b a s = pure (ForInStep.yield (f s))) (init : σ) :
    (forIn l init b : Id σ) = pure (f^[l.length] init) := by
  induction l generalizing init with
  | nil => rfl
  | cons a l ih =>
    rw [List.forIn_cons, hb]
    simp only [pure_bind, List.length_cons, Function.iterate_succ_apply]
    exact ih (f init)

theorem ilog10_unfold (q : ℚ) :
    ilog10 q = (ilogDn q)^[6] ((ilogUp q)^[6] (ilogStart q)) := by
  unfold ilog10
  simp only [Std.Legacy.Range.forIn_eq_forIn_range']
  rw [forIn_yield_iterate _ (ilogUp q) _ (by intro a s; unfold ilogUp; split <;> rfl)]
  simp only [pure_bind]
  rw [forIn_yield_iterate _ (ilogDn q) _ (by intro a s; unfold ilogDn; split <;> rfl)]
  rfl

theorem ten_zpow_le_iff (a b : ℤ) : (10 : ℚ) ^ a ≤ 10 ^ b ↔ a ≤ b :=
  zpow_le_zpow_iff_right₀ (by norm_num : (1 : ℚ) < 10)
theorem ten_zpow_lt_iff (a b : ℤ) : (10 : ℚ) ^ a < 10 ^ b ↔ a < b :=
  zpow_lt_zpow_iff_right₀ (by norm_num : (1 : ℚ) < 10)

/-- the upward loop finds the decade when it starts at most `n` below it -/
theorem ilogUp_iterate (q : ℚ) (n : ℕ) : ∀ k : ℤ, (10 : ℚ) ^ k ≤ q → q < 10 ^ (k + n + 1) →
    (10 : ℚ) ^ ((ilogUp q)^[n] k) ≤ q ∧ q < 10 ^ ((ilogUp q)^[n] k + 1) := by
  induction n with
  | zero =>
    intro k h1 h2
    simp only [Function.iterate_zero, id_eq]
    exact ⟨h1, by simpa using h2⟩
  | succ n ih =>
    intro k h1 h2
    rw [Function.iterate_succ_apply]
    unfold ilogUp
    rw [pow10Rat_eq]
    split
    · rename_i hc
      apply ih (k + 1) hc
      have : k + 1 + (n : ℤ) + 1 = k + ((n + 1 : ℕ) : ℤ) + 1 := by push_cast; ring
      rw [this]; exact h2
    · rename_i hc
      apply ih k h1
      refine lt_of_lt_of_le (not_le.mp hc) ?_
      rw [ten_zpow_le_iff]; omega

theorem ilogDn_iterate (q : ℚ) (n : ℕ) (k : ℤ) (h : (10 : ℚ) ^ k ≤ q) : (ilogDn q)^[n] k = k := by
  apply Function.iterate_fixed
  unfold ilogDn
  rw [pow10Rat_eq, if_neg (not_lt.mpr h)]

/-! ### the starting estimate -/

/-- `10^k0 ≤ 2^(L-1)` and `2^(L+1) ≤ 10^(k0+7)` for `k0 = ⌊L·0.30103⌋ - 1`, cross-multiplied into ℕ -/
def startOK (L : ℤ) : Bool :=
  let k0 := L * 30103 / 100000 - 1
  decide (10 ^ k0.toNat * 2 ^ (-(L - 1)).toNat ≤ 2 ^ (L - 1).toNat * 10 ^ (-k0).toNat)
    && decide (2 ^ (L + 1).toNat * 10 ^ (-(k0 + 7)).toNat ≤ 10 ^ (k0 + 7).toNat * 2 ^ (-(L + 1)).toNat)

set_option exponentiation.threshold 2000 in
theorem startOK_all : (List.range 2201).all (fun i => startOK ((i : ℤ) - 1100)) = true := by
  decide +kernel

theorem startOK_range (L : ℤ) (h1 : -1100 ≤ L) (h2 : L ≤ 1100) : startOK L = true := by
  have h := List.all_eq_true.mp startOK_all (L + 1100).toNat (List.mem_range.mpr (by omega))
  have : (((L + 1100).toNat : ℕ) : ℤ) - 1100 = L := by omega
  rw [this] at h
  exact h

theorem zpow_split (c : ℚ) (hc : c ≠ 0) (a : ℤ) : c ^ a = c ^ a.toNat / c ^ (-a).toNat := by
  conv_lhs => rw [show a = (a.toNat : ℤ) - ((-a).toNat : ℤ) by omega]
  rw [zpow_sub₀ hc, zpow_natCast, zpow_natCast]

theorem ten_le_two_of_nat (a b : ℤ) (h : 10 ^ a.toNat * 2 ^ (-b).toNat ≤ 2 ^ b.toNat * 10 ^ (-a).toNat) :
    (10 : ℚ) ^ a ≤ 2 ^ b := by
  rw [zpow_split 10 (by norm_num) a, zpow_split 2 (by norm_num) b, div_le_div_iff₀ (by positivity) (by positivity)]
  exact_mod_cast h

theorem two_le_ten_of_nat (a b : ℤ) (h : 2 ^ a.toNat * 10 ^ (-b).toNat ≤ 10 ^ b.toNat * 2 ^ (-a).toNat) :
    (2 : ℚ) ^ a ≤ 10 ^ b := by
  rw [zpow_split 10 (by norm_num) b, zpow_split 2 (by norm_num) a, div_le_div_iff₀ (by positivity) (by positivity)]
  exact_mod_cast h

theorem start_bounds (L : ℤ) (h1 : -1100 ≤ L) (h2 : L ≤ 1100) :
    (10 : ℚ) ^ (L * 30103 / 100000 - 1) ≤ 2 ^ (L - 1) ∧ (2 : ℚ) ^ (L + 1) ≤ 10 ^ (L * 30103 / 100000 - 1 + 7) := by
  have h := startOK_range L h1 h2
  unfold startOK at h
  simp only [Bool.and_eq_true, decide_eq_true_eq] at h
  exact ⟨ten_le_two_of_nat _ _ h.1, two_le_ten_of_nat _ _ h.2⟩

/-- a positive rational lies within a factor 2 of `2^(log2 num - log2 den)` -/
theorem rat_log2_bounds (q : ℚ) (hq : 0 < q) :
    (2 : ℚ) ^ ((Nat.log2 q.num.toNat : ℤ) - (Nat.log2 q.den : ℤ) - 1) ≤ q
      ∧ q < 2 ^ ((Nat.log2 q.num.toNat : ℤ) - (Nat.log2 q.den : ℤ) + 1) := by
  have hnum : 0 < q.num := Rat.num_pos.mpr hq
  have hn : 0 < q.num.toNat := by omega
  have hd : 0 < q.den := q.den_pos
  have hqe : q = (q.num.toNat : ℚ) / (q.den : ℚ) := by
    have h1 : ((q.num.toNat : ℕ) : ℚ) = (q.num : ℚ) := by
      rw [← Int.cast_natCast, Int.toNat_of_nonneg (le_of_lt hnum)]
    rw [h1, Rat.num_div_den]
  generalize q.num.toNat = n at *
  generalize q.den = d at *
  obtain ⟨a1, a2⟩ := log2_bounds_rat n hn
  obtain ⟨b1, b2⟩ := log2_bounds_rat d hd
  have hdq : (0 : ℚ) < d := by exact_mod_cast hd
  rw [hqe]
  constructor
  · rw [le_div_iff₀ hdq]
    calc (2 : ℚ) ^ ((Nat.log2 n : ℤ) - (Nat.log2 d : ℤ) - 1) * d
        ≤ 2 ^ ((Nat.log2 n : ℤ) - (Nat.log2 d : ℤ) - 1) * 2 ^ (Nat.log2 d + 1) :=
          mul_le_mul_of_nonneg_left (le_of_lt b2) (le_of_lt (two_zpow_pos _))
      _ = 2 ^ (Nat.log2 n) := by
          rw [← zpow_natCast, ← zpow_natCast, ← two_zpow_add]; congr 1; push_cast; ring
      _ ≤ n := a1
  · rw [div_lt_iff₀ hdq]
    calc (n : ℚ) < 2 ^ (Nat.log2 n + 1) := a2
      _ = 2 ^ ((Nat.log2 n : ℤ) - (Nat.log2 d : ℤ) + 1) * 2 ^ (Nat.log2 d) := by
          rw [← zpow_natCast, ← zpow_natCast, ← two_zpow_add]; congr 1; push_cast; ring
      _ ≤ 2 ^ ((Nat.log2 n : ℤ) - (Nat.log2 d : ℤ) + 1) * d :=
          mul_le_mul_of_nonneg_left b1 (le_of_lt (two_zpow_pos _))

/-- **`ilog10 q = ⌊log10 q⌋`** on the range of the finite non-zero doubles -/
theorem ilog10_spec (q : ℚ) (h1 : (2 : ℚ) ^ (-1098 : ℤ) ≤ q) (h2 : q ≤ 2 ^ (1098 : ℤ)) :
    (10 : ℚ) ^ (ilog10 q) ≤ q ∧ q < 10 ^ (ilog10 q + 1) := by
  have hq : 0 < q := lt_of_lt_of_le (two_zpow_pos _) h1
  obtain ⟨b1, b2⟩ := rat_log2_bounds q hq
  rw [ilog10_unfold]
  unfold ilogStart
  generalize (Nat.log2 q.num.toNat : ℤ) - (Nat.log2 q.den : ℤ) = L at *
  have hL1 : -1100 ≤ L := by
    have := lt_of_le_of_lt h1 b2
    rw [two_zpow_lt_iff] at this
    omega
  have hL2 : L ≤ 1100 := by
    have := le_trans b1 h2
    rw [two_zpow_le_iff] at this
    omega
  obtain ⟨s1, s2⟩ := start_bounds L hL1 hL2
  generalize L * 30103 / 100000 - 1 = k0 at *
  have hk1 : (10 : ℚ) ^ k0 ≤ q := le_trans s1 b1
  have hk2 : q < 10 ^ (k0 + ((6 : ℕ) : ℤ) + 1) := by
    have : k0 + ((6 : ℕ) : ℤ) + 1 = k0 + 7 := by push_cast; ring
    rw [this]
    exact lt_of_lt_of_le b2 s2
  obtain ⟨u1, u2⟩ := ilogUp_iterate q 6 k0 hk1 hk2
  rw [ilogDn_iterate q 6 _ u1]
  exact ⟨u1, u2⟩

/-! ### the magnitude of a finite non-zero double and its decade -/

theorem mag_range {x : F64} {s : Bool} {m : ℕ} {e : ℤ} (hd : decode x = .fin s m e) (hm : m ≠ 0) :
    (2 : ℚ) ^ (-1074 : ℤ) ≤ (m : ℚ) * 2 ^ e ∧ (m : ℚ) * 2 ^ e < 2 ^ (1024 : ℤ) ∧ m < P53 := by
  obtain ⟨s', m', e', hd', hm53, he1, he2, -⟩ := decode_finite (finite_of_decode hd)
  rw [hd] at hd'
  cases hd'
  have h2e : (0 : ℚ) < 2 ^ e := two_zpow_pos e
  refine ⟨?_, ?_, hm53⟩
  · have h1 : (1 : ℚ) ≤ m := by
      have : 1 ≤ m := by omega
      exact_mod_cast this
    calc (2 : ℚ) ^ (-1074 : ℤ) ≤ 2 ^ e := (two_zpow_le_iff _ _).mpr he1
      _ = 1 * 2 ^ e := (one_mul _).symm
      _ ≤ (m : ℚ) * 2 ^ e := mul_le_mul_of_nonneg_right h1 (le_of_lt h2e)
  · have h1 : (m : ℚ) < (P53 : ℚ) := by exact_mod_cast hm53
    calc (m : ℚ) * 2 ^ e < (P53 : ℚ) * 2 ^ e := mul_lt_mul_of_pos_right h1 h2e
      _ = 2 ^ (53 + e) := (two_zpow_53 e).symm
      _ ≤ 2 ^ (1024 : ℤ) := (two_zpow_le_iff _ _).mpr (by omega)

theorem two_1024_le : (2 : ℚ) ^ (1024 : ℤ) ≤ 10 ^ (309 : ℤ) :=
  two_le_ten_of_nat 1024 309 (by decide +kernel)
theorem ten_m324_le : (10 : ℚ) ^ (-324 : ℤ) ≤ 2 ^ (-1074 : ℤ) :=
  ten_le_two_of_nat (-324) (-1074) (by decide +kernel)

/-- the decade of a finite non-zero double -/
theorem decade_range (v : ℚ) (k0 : ℤ) (h1 : (2 : ℚ) ^ (-1074 : ℤ) ≤ v) (h2 : v < 2 ^ (1024 : ℤ))
    (h3 : (10 : ℚ) ^ k0 ≤ v) (h4 : v < 10 ^ (k0 + 1)) : -325 ≤ k0 ∧ k0 ≤ 308 := by
  constructor
  · have := lt_of_le_of_lt (le_trans ten_m324_le h1) h4
    rw [ten_zpow_lt_iff] at this
    omega
  · have := lt_of_le_of_lt h3 (lt_of_lt_of_le h2 two_1024_le)
    rw [ten_zpow_lt_iff] at this
    omega

theorem mag_ilog10 {x : F64} {s : Bool} {m : ℕ} {e : ℤ} (hd : decode x = .fin s m e) (hm : m ≠ 0) :
    (10 : ℚ) ^ (ilog10 (magRat m e)) ≤ (m : ℚ) * 2 ^ e ∧ (m : ℚ) * 2 ^ e < 10 ^ (ilog10 (magRat m e) + 1)
      ∧ -325 ≤ ilog10 (magRat m e) ∧ ilog10 (magRat m e) ≤ 308 := by
  obtain ⟨r1, r2, -⟩ := mag_range hd hm
  have hv : magRat m e = (m : ℚ) * 2 ^ e := by unfold magRat; rw [pow2Rat_eq]
  rw [hv]
  have a1 : (2 : ℚ) ^ (-1098 : ℤ) ≤ (m : ℚ) * 2 ^ e :=
    le_trans ((two_zpow_le_iff _ _).mpr (by omega)) r1
  have a2 : (m : ℚ) * 2 ^ e ≤ 2 ^ (1098 : ℤ) :=
    le_trans (le_of_lt r2) ((two_zpow_le_iff _ _).mpr (by omega))
  obtain ⟨i1, i2⟩ := ilog10_spec _ a1 a2
  obtain ⟨d1, d2⟩ := decade_range _ _ r1 r2 i1 i2
  exact ⟨i1, i2, d1, d2⟩

/-! ### the two `nd`-digit candidates -/

/-- the candidates `⌊t⌋` and `⌊t⌋+1` for `t = v·10^(nd-1-k0)` are `nd`-digit numbers (the upper one may be `10^nd`)
and bracket `v` -/
theorem candidates (v : ℚ) (k0 : ℤ) (a : ℕ) (ha : 1 ≤ a) (h3 : (10 : ℚ) ^ k0 ≤ v) (h4 : v < 10 ^ (k0 + 1)) :
    10 ^ (a - 1) ≤ (v * pow10Rat ((a : ℤ) - 1 - k0)).floor.toNat
      ∧ (v * pow10Rat ((a : ℤ) - 1 - k0)).floor.toNat < 10 ^ a
      ∧ (((v * pow10Rat ((a : ℤ) - 1 - k0)).floor.toNat : ℕ) : ℚ) / pow10Rat ((a : ℤ) - 1 - k0) ≤ v
      ∧ v < ((((v * pow10Rat ((a : ℤ) - 1 - k0)).floor.toNat + 1 : ℕ) : ℕ) : ℚ) / pow10Rat ((a : ℤ) - 1 - k0) := by
  rw [pow10Rat_eq]
  have hsc : (0 : ℚ) < 10 ^ ((a : ℤ) - 1 - k0) := by positivity
  generalize hsce : (10 : ℚ) ^ ((a : ℤ) - 1 - k0) = scale at *
  have hT1 : (((10 ^ (a - 1) : ℕ) : ℤ) : ℚ) ≤ v * scale := by
    have : (((10 ^ (a - 1) : ℕ) : ℤ) : ℚ) = 10 ^ k0 * scale := by
      rw [← hsce, ← zpow_add₀ (by norm_num : (10 : ℚ) ≠ 0)]
      push_cast
      rw [← zpow_natCast]
      congr 1
      have : ((a - 1 : ℕ) : ℤ) = (a : ℤ) - 1 := by omega
      rw [this]; ring
    rw [this]
    exact mul_le_mul_of_nonneg_right h3 (le_of_lt hsc)
  have hT2 : v * scale < (((10 ^ a : ℕ) : ℤ) : ℚ) := by
    have : (((10 ^ a : ℕ) : ℤ) : ℚ) = 10 ^ (k0 + 1) * scale := by
      rw [← hsce, ← zpow_add₀ (by norm_num : (10 : ℚ) ≠ 0)]
      push_cast
      rw [← zpow_natCast]
      congr 1
      ring
    rw [this]
    exact mul_lt_mul_of_pos_right h4 hsc
  generalize ht : v * scale = t at *
  have hf1 : ((10 ^ (a - 1) : ℕ) : ℤ) ≤ t.floor := Rat.le_floor_iff.mpr hT1
  have hf2 : t.floor < ((10 ^ a : ℕ) : ℤ) := Rat.floor_lt_iff.mpr hT2
  have hf0 : 0 ≤ t.floor := le_trans (Int.natCast_nonneg _) hf1
  have hcast : ((t.floor.toNat : ℕ) : ℚ) = ((t.floor : ℤ) : ℚ) := by
    rw [← Int.cast_natCast, Int.toNat_of_nonneg hf0]
  refine ⟨by omega, by omega, ?_, ?_⟩
  · rw [hcast, div_le_iff₀ hsc, ht]
    exact Rat.floor_le t
  · rw [lt_div_iff₀ hsc, ht]
    have := Rat.lt_floor_add_one t
    push_cast at this ⊢
    rw [hcast]
    exact this

/-! ### the digit search -/

/-- a loop that certainly stops at `a0`: whatever it stops with satisfies `P` -/
theorem forIn_list_done {α σ : Type} (l : List α) (b : α → σ → Id (ForInStep σ)) (P : σ → Prop)
    (hdone : ∀ a ∈ l, ∀ s s', (b a s).run = .done s' → P s')
    (a0 : α) (ha0 : a0 ∈ l) (hfin : ∀ s, ∃ s', (b a0 s).run = .done s') :
    ∀ init, P (forIn l init b).run := by
  induction l with
  | nil => exact absurd ha0 (by simp)
  | cons a l ih =>
    intro init
    rw [List.forIn_cons]
    cases hb : (b a init).run with
    | done s' =>
      have e : b a init = pure (ForInStep.done s') := hb
      rw [e]
      simpa using hdone a (List.mem_cons_self) init s' hb
    | yield s' =>
      have e : b a init = pure (ForInStep.yield s') := hb
      rw [e]
      have hne : a0 ≠ a := by
        rintro rfl
        obtain ⟨s'', hs''⟩ := hfin init
        rw [hb] at hs''
        cases hs''
      have ha0' : a0 ∈ l := by
        rcases List.mem_cons.mp ha0 with h | h
        · exact absurd h hne
        · exact h
      simpa using ih (fun a' ha' => hdone a' (List.mem_cons_of_mem _ ha')) ha0' s'

theorem forIn_bind_done {α σ τ : Type} {l : List α} {b : α → σ → Id (ForInStep σ)} {init : σ} {k : σ → Id τ}
    (P : σ → Prop) (hdone : ∀ a ∈ l, ∀ s s', (b a s).run = .done s' → P s')
    (a0 : α) (ha0 : a0 ∈ l) (hfin : ∀ s, ∃ s', (b a0 s).run = .done s') :
    ∃ s, P s ∧ (forIn l init b >>= k).run = (k s).run :=
  ⟨(forIn l init b).run, forIn_list_done l b P hdone a0 ha0 hfin init, rfl⟩

theorem pick_cases {α : Type} (c1 c2 c3 c4 c5 : Prop) [Decidable c1] [Decidable c2] [Decidable c3] [Decidable c4]
    [Decidable c5] (a b : α) :
    (if c1 then (if c2 then a else if c3 then b else if c4 then a else b) else if c5 then a else b) = a ∨
    (if c1 then (if c2 then a else if c3 then b else if c4 then a else b) else if c5 then a else b) = b := by
  split_ifs <;> simp

/-- **The digits returned by `shortest`** form an `nd`-digit number, and the decimal exponent is that of a double -/
theorem shortest_digits {x : F64} {d nd : ℕ} {k : ℤ} (h : shortest x = some (d, nd, k)) :
    1 ≤ nd ∧ 10 ^ (nd - 1) ≤ d ∧ d < 10 ^ nd ∧ -400 ≤ k + 1 ∧ k + 1 ≤ 400 := by
  unfold shortest at h
  cases hd : decode x with
  | nan => rw [hd] at h; simp at h
  | inf s => rw [hd] at h; simp at h
  | fin s m e =>
    rw [hd] at h
    dsimp -zeta only at h
    split at h
    · simp at h
    · rename_i hm0
      obtain ⟨i1, i2, i3, i4⟩ := mag_ilog10 hd hm0
      have hv : magRat m e = (m : ℚ) * 2 ^ e := by unfold magRat; rw [pow2Rat_eq]
      rw [← hv] at i1 i2
      extract_lets v ulp lowGap lo hi incl inside k0 at h
      rw [Std.Legacy.Range.forIn_eq_forIn_range'] at h
      let Good : ℕ × ℕ × ℤ → Prop := fun r =>
        1 ≤ r.2.1 ∧ 10 ^ (r.2.1 - 1) ≤ r.1 ∧ r.1 < 10 ^ r.2.1 ∧ (r.2.2 = k0 ∨ r.2.2 = k0 + 1)
      let Q : Option (Option (ℕ × ℕ × ℤ)) × Unit → Prop := fun st => ∀ r, st.1 = some (some r) → Good r
      have hres := forIn_bind_elim h Q ?hinit ?hstep
      case hinit => intro r hr; simp at hr
      case hstep =>
        intro a ha st _ st' hst'
        have ha' : 1 ≤ a ∧ a ≤ 17 := by
          have : a ∈ List.range' 1 17 1 := ha
          rw [List.mem_range'_1] at this
          omega
        obtain ⟨c1, c2, -, -⟩ := candidates v k0 a ha'.1 i1 i2
        extract_lets scale t dlo dhi clo chi okLo okHi pick at hst'
        have c1' : 10 ^ (a - 1) ≤ dlo := c1
        have c2' : dlo < 10 ^ a := c2
        have hpick : pick = dlo ∨ pick = dhi := by
          exact pick_cases _ _ _ _ _ dlo dhi
        have hdhi : dhi = dlo + 1 := rfl
        split at hst'
        · split at hst'
          · rename_i hp10
            have hs : st' = (some (some (10 ^ (a - 1), a, k0 + 1)), ()) := by
              rcases hst' with h1 | h1
              · exact (ForInStep.done.inj h1).symm
              · cases h1
            intro r hr
            rw [hs] at hr
            simp only [Option.some.injEq] at hr
            subst hr
            refine ⟨ha'.1, le_refl _, ?_, Or.inr rfl⟩
            show 10 ^ (a - 1) < 10 ^ a
            exact Nat.pow_lt_pow_right (by omega) (by omega)
          · rename_i hp10
            have hs : st' = (some (some (pick, a, k0)), ()) := by
              rcases hst' with h1 | h1
              · exact (ForInStep.done.inj h1).symm
              · cases h1
            intro r hr
            rw [hs] at hr
            simp only [Option.some.injEq] at hr
            subst hr
            refine ⟨ha'.1, ?_, ?_, Or.inl rfl⟩
            · show 10 ^ (a - 1) ≤ pick
              rcases hpick with hp | hp <;> rw [hp] <;> omega
            · show pick < 10 ^ a
              have : pick ≠ 10 ^ a := hp10
              rcases hpick with hp | hp
              · rw [hp]; exact c2'
              · rw [hp] at this ⊢; omega
        · have hs : st' = (none, ()) := by
            rcases hst' with h1 | h1
            · cases h1
            · exact (ForInStep.yield.inj h1).symm
          intro r hr
          rw [hs] at hr
          simp at hr
      obtain ⟨fin, hQ, hk⟩ := hres
      have hfin : fin.1 = some (some (d, nd, k)) := by
        cases hf : fin.1 with
        | none => simp [hf] at hk
        | some r => simp [hf] at hk; rw [hk]
      obtain ⟨g1, g2, g3, g4⟩ := hQ (d, nd, k) hfin
      refine ⟨g1, g2, g3, ?_⟩
      have g4' : k = k0 ∨ k = k0 + 1 := g4
      have hk0 : k0 = ilog10 v := rfl
      rw [← hk0] at i3 i4
      omega

/-! ### seventeen digits always suffice -/

theorem forIn_bind_done_elim {α σ τ : Type} {l : List α} {b : α → σ → Id (ForInStep σ)} {init : σ} {k : σ → Id τ}
    {t : τ} (h : (forIn l init b >>= k).run = t) (P : σ → Prop)
    (hdone : ∀ a ∈ l, ∀ s s', (b a s).run = .done s' → P s')
    (a0 : α) (ha0 : a0 ∈ l) (hfin : ∀ s, ∃ s', (b a0 s).run = .done s') :
    ∃ s, P s ∧ (k s).run = t :=
  ⟨(forIn l init b).run, forIn_list_done l b P hdone a0 ha0 hfin init, h⟩

/-- of two decimals bracketing `v` whose distance is less than the distance between the midpoints, one lies strictly
between the midpoints -/
theorem inside17 (incl : Prop) [Decidable incl] (v lowGap ulp clo chi : ℚ)
    (h1 : clo ≤ v) (h2 : v < chi) (hlg : 0 < lowGap) (hu : 0 < ulp) (h3 : chi - clo < lowGap / 2 + ulp / 2) :
    (if incl then decide (v - lowGap / 2 ≤ clo) && decide (clo ≤ v + ulp / 2)
        else decide (v - lowGap / 2 < clo) && decide (clo < v + ulp / 2)) = true ∨
    (if incl then decide (v - lowGap / 2 ≤ chi) && decide (chi ≤ v + ulp / 2)
        else decide (v - lowGap / 2 < chi) && decide (chi < v + ulp / 2)) = true := by
  by_cases hc : v - lowGap / 2 < clo
  · left
    split
    · simp only [Bool.and_eq_true, decide_eq_true_eq]
      constructor <;> linarith
    · simp only [Bool.and_eq_true, decide_eq_true_eq]
      constructor <;> linarith
  · right
    have hc' := not_lt.mp hc
    split
    · simp only [Bool.and_eq_true, decide_eq_true_eq]
      constructor <;> linarith
    · simp only [Bool.and_eq_true, decide_eq_true_eq]
      constructor <;> linarith

/-- the spacing `10^(k0-16)` of 17-digit decimals in the decade of `v = m·2^e` is smaller than the distance between the
midpoints to the neighbouring doubles (`2^53 < 10^16`, and `2^54 < 3·10^16` at a power of two) -/
theorem delta_lt_gap (m : ℕ) (e k0 : ℤ) (c : Prop) (hm : m < P53) (h3 : (10 : ℚ) ^ k0 ≤ (m : ℚ) * 2 ^ e)
    [Decidable (m = P52 ∧ c)] :
    1 / (10 : ℚ) ^ (16 - k0) < (if m = P52 ∧ c then (2 : ℚ) ^ (e - 1) else 2 ^ e) / 2 + 2 ^ e / 2 := by
  have hT : (0 : ℚ) < 2 ^ e := two_zpow_pos e
  have hδ : 1 / (10 : ℚ) ^ (16 - k0) = 10 ^ k0 / 10 ^ (16 : ℕ) := by
    rw [zpow_sub₀ (by norm_num : (10 : ℚ) ≠ 0), one_div_div]
    norm_num
  rw [hδ]
  have h16 : (0 : ℚ) < 10 ^ (16 : ℕ) := by positivity
  have hle : (10 : ℚ) ^ k0 / 10 ^ (16 : ℕ) ≤ (m : ℚ) * 2 ^ e / 10 ^ (16 : ℕ) :=
    div_le_div_of_nonneg_right h3 (le_of_lt h16)
  refine lt_of_le_of_lt hle ?_
  rw [div_lt_iff₀ h16]
  split
  · rename_i hsp
    rw [hsp.1, two_zpow_sub, zpow_one]
    have : ((P52 : ℕ) : ℚ) = 4503599627370496 := by norm_num [P52]
    rw [this]
    nlinarith
  · have h1 : (m : ℚ) < (P53 : ℚ) := by exact_mod_cast hm
    have : ((P53 : ℕ) : ℚ) = 9007199254740992 := by norm_num [P53]
    rw [this] at h1
    nlinarith

/-- **Totality** (`shortest_some`): the digit search succeeds for every finite non-zero double — at the latest with
17 digits -/
theorem shortest_ne_none {x : F64} {s : Bool} {m : ℕ} {e : ℤ} (hd : decode x = .fin s m e) (hm0 : m ≠ 0) :
    shortest x ≠ none := by
  intro h
  obtain ⟨i1, i2, i3, i4⟩ := mag_ilog10 hd hm0
  obtain ⟨-, -, hm53⟩ := mag_range hd hm0
  have hv : magRat m e = (m : ℚ) * 2 ^ e := by unfold magRat; rw [pow2Rat_eq]
  have hgap := delta_lt_gap m e (ilog10 (magRat m e)) (expField x > 1) hm53 i1
  rw [← pow2Rat_eq e, ← pow2Rat_eq (e - 1)] at hgap
  rw [← hv] at i1 i2
  unfold shortest at h
  rw [hd] at h
  dsimp -zeta only at h
  rw [if_neg hm0] at h
  extract_lets v ulp lowGap lo hi incl inside k0 at h
  rw [Std.Legacy.Range.forIn_eq_forIn_range'] at h
  let P : Option (Option (ℕ × ℕ × ℤ)) × Unit → Prop := fun st => ∃ r, st.1 = some (some r)
  have hres := forIn_bind_done_elim h P ?hdone 17 ?hmem ?hfin
  case hmem => decide
  case hdone =>
    intro a ha st st' hst'
    extract_lets scale t dlo dhi clo chi okLo okHi pick at hst'
    split at hst'
    · split at hst'
      · exact ⟨_, by rw [← ForInStep.done.inj hst']⟩
      · exact ⟨_, by rw [← ForInStep.done.inj hst']⟩
    · cases hst'
  case hfin =>
    intro st
    obtain ⟨c1, c2, c3, c4⟩ := candidates v k0 17 (by omega) i1 i2
    extract_lets scale t dlo dhi clo chi okLo okHi pick
    have hor : (okLo || okHi) = true := by
      have hlg : 0 < lowGap := by
        show 0 < (if m = P52 ∧ expField x > 1 then pow2Rat (e - 1) else pow2Rat e)
        split <;> (rw [pow2Rat_eq]; exact two_zpow_pos _)
      have hu : 0 < ulp := by
        show 0 < pow2Rat e
        rw [pow2Rat_eq]; exact two_zpow_pos _
      have hsc : scale = (10 : ℚ) ^ (16 - k0) := by
        show pow10Rat (((17 : ℕ) : ℤ) - 1 - k0) = _
        rw [pow10Rat_eq]; congr 1
      have hdiff : chi - clo < lowGap / 2 + ulp / 2 := by
        have : chi - clo = 1 / scale := by
          show ((dlo + 1 : ℕ) : ℚ) / scale - (dlo : ℚ) / scale = 1 / scale
          push_cast; ring
        rw [this, hsc]
        exact hgap
      have hins := inside17 incl v lowGap ulp clo chi c3 c4 hlg hu hdiff
      have hlo16 : decide (dlo ≥ 10 ^ (17 - 1)) = true := by
        rw [decide_eq_true_eq]; exact c1
      rcases hins with hin | hin
      · have : okLo = true := by
          show (decide (dlo ≥ 10 ^ (17 - 1)) && inside clo) = true
          rw [hlo16, Bool.true_and]; exact hin
        rw [this]; rfl
      · have : okHi = true := hin
        rw [this, Bool.or_true]
    rw [if_pos hor]
    split
    · exact ⟨_, rfl⟩
    · exact ⟨_, rfl⟩
  obtain ⟨fin, ⟨r, hr⟩, hk⟩ := hres
  simp [hr] at hk

theorem shortest_some {x : F64} {s : Bool} {m : ℕ} {e : ℤ} (hd : decode x = .fin s m e) (hm0 : m ≠ 0) :
    ∃ d nd k, shortest x = some (d, nd, k) := by
  cases h : shortest x with
  | none => exact absurd h (shortest_ne_none hd hm0)
  | some r => exact ⟨r.1, r.2.1, r.2.2, rfl⟩

end F64
end Ysgo
