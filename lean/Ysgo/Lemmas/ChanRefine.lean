import Ysgo.Lemmas.ChanThm
import Ysgo.Model.Runner
/-!
# Channel-level mailbox: refinement to the abstract mailbox `pending : Option (Option Bool)` of `Ysgo.Model.Runner`

`abs` reads the abstract mailbox off the channel-level state: nothing pending when `commandErrChan` is nil; otherwise
what a non-blocking receive on that channel would deliver now — nothing (the command is running) or a value (its
completion has arrived, with the failed flag). Every operation of the channel-level system is the corresponding
operation of the abstract runner (`Ysgo.poll`, the `.cmd` case of `Ysgo.exec`, `R.restore`), and a goroutine step is a
stutter or the arrival of the completion, which the abstract model leaves to the environment.
-/
namespace Ysgo.Chan
open Sys

def abs (s : Sys) : Option (Option Bool) :=
  match s.errChan with
  | none => none
  | some ch =>
    match s.heap[ch]? with
    | none => some none
    | some c => some c.avail

/-- the answers of the poll at the top of `Next` in the vocabulary of the abstract runner -/
def Obs.toOutcome {μ : Type} : Obs → Outcome (Elem μ)
  | .waiting => .ok .waiting
  | _ => .err .cmdFailed

/-- the poll at the top of `Next` is `Ysgo.poll` on the abstract mailbox -/
theorem refine_poll {cfg : Cfg} (hg : cfg.Good) {s : Sys} (hi : Inv s) {σ π μ : Type} (d : Data σ π)
    (hd : d.pending = abs s) :
    Ysgo.poll (μ := μ) d = ({ d with pending := abs (s.pollTop cfg).1 }, (s.pollTop cfg).2.map Obs.toOutcome) := by
  cases he : s.errChan with
  | none =>
    have ha : abs s = none := by simp [abs, he]
    rw [ha] at hd
    simp only [Sys.pollTop, he, ha, Ysgo.poll, hd, Option.map]
    cases d; simp_all
  | some ch =>
    obtain ⟨c, hc⟩ : ∃ c, s.heap[ch]? = some c := ⟨s.heap[ch]'(hi.errLt ch he), List.getElem?_eq_getElem _⟩
    have ha : abs s = some c.avail := by simp [abs, he, hc]
    rw [ha] at hd
    rw [pollTop_good hg s he hc]
    cases hv : c.avail with
    | none =>
      rw [hv] at hd
      simp only [Ysgo.poll, hd, ha, hv, Option.map, Obs.toOutcome]
      cases d; simp_all
    | some v =>
      rw [hv] at hd
      cases v with
      | true => simp [Ysgo.poll, hd, abs, Obs.toOutcome]
      | false => simp [Ysgo.poll, hd, abs]

/-- a goroutine step is a stutter of the abstract mailbox, or the arrival of the completion of the running command
(`some none ↦ some (some failed)`: the move the abstract model leaves to the environment) — unless the host crashes
the process by misusing a channel of its own -/
theorem refine_go {s : Sys} (hwf : HeapWF s) (g : Nat) :
    abs (s.goStep g) = abs s ∨ (abs s = some none ∧ ∃ v, abs (s.goStep g) = some (some v))
    ∨ (s.goStep g).status = .crashed := by
  obtain ⟨h1, -, -, -, -, -, h7, -⟩ := goStep_fields s g
  cases he : s.errChan with
  | none => left; simp [abs, h1, he]
  | some ch =>
    cases hc : s.heap[ch]? with
    | none =>
      left
      have : (s.goStep g).heap[ch]? = none := by
        apply List.getElem?_eq_none
        rw [h7]
        rcases Nat.lt_or_ge ch s.heap.length with h | h
        · rw [List.getElem?_eq_getElem h] at hc; cases hc
        · exact h
      simp [abs, h1, he, hc, this]
    | some c =>
      have hlt := lt_of_get hc
      obtain ⟨c', hc'⟩ : ∃ c', (s.goStep g).heap[ch]? = some c' :=
        ⟨(s.goStep g).heap[ch]'(by rw [h7]; exact hlt), List.getElem?_eq_getElem _⟩
      have ha : abs s = some c.avail := by simp [abs, he, hc]
      have ha' : abs (s.goStep g) = some c'.avail := by simp [abs, h1, he, hc']
      cases hv : c.avail with
      | some v =>
        rcases avail_stable hwf hc hv g with h | ⟨c'', hc'', hv''⟩
        · right; right; exact h
        · left
          rw [hc'] at hc''; injection hc'' with hc''; subst hc''
          rw [ha, ha', hv, hv'']
      | none =>
        cases hv' : c'.avail with
        | none => left; rw [ha, ha', hv, hv']
        | some v => right; left; exact ⟨by rw [ha, hv], v, by rw [ha', hv']⟩

/-- `RestoreAt` empties the abstract mailbox (as `R.restore` does) -/
theorem refine_restore {cfg : Cfg} (hg : cfg.Good) (s : Sys) (hst : s.status = .ok) : abs (s.restore cfg) = none := by
  simp [abs, restore_errChan hg s hst]

/-- the outcome of a dispatch in the vocabulary of the abstract runner (`Env.cmd`) -/
def absOutcome (sh : Shape) (r : ExecRes) (pending : Bool) : CmdOutcome :=
  match r with
  | .stuck => .panicked
  | .failed => if sh = .unknown then .unknown else .failed
  | .ok => if pending then .pending else .done

/-- after `executeCommandStatement` the abstract mailbox is empty, or holds a running command exactly when the channel was
kept -/
theorem refine_execCmd {cfg : Cfg} (hg : cfg.Good) (i : Nat) (sh : Shape) (s : Sys) (hst : s.status = .ok)
    (he : s.errChan = none) :
    (s.execCmd cfg i sh).2 ≠ .stuck ∧
    abs (s.execCmd cfg i sh).1 = (if (s.execCmd cfg i sh).1.errChan.isSome then some none else none) ∧
    ((s.execCmd cfg i sh).2 = .failed → (s.execCmd cfg i sh).1.errChan = none) := by
  rcases execCmd_good hg i sh s hst with ⟨-, h⟩ | ⟨pre, c, ys, -, -, -, -, h⟩
  · rw [h]; simp [abs]
  · rw [h]
    cases hv : c.avail with
    | none => simp [abs, afterDispatch, hv]
    | some v => cases v <;> simp [abs, afterDispatch, he]

/-- the `.cmd` case of the abstract `Ysgo.exec`, with a host whose command answers what the channel-level dispatch
produced, leaves the abstract mailbox and the output of `Next` that the channel-level system has -/
theorem refine_exec {cfg : Cfg} (hg : cfg.Good) (i : Nat) (sh : Shape) (s : Sys) (hst : s.status = .ok)
    (he : s.errChan = none) {σ π μ : Type} (env : Env σ) (mk : Markup π μ) (p : Program) (d : Data σ π)
    (hd : d.pending = abs s) (e : Expr) (es : List Expr) (name : String) (args : List Value) (w : W σ) (h : σ)
    (hargs : evalArgs env d.store d.visited (e :: es) d.w = (.ok (.str name :: args), w)) (hs : name ≠ "stop")
    (hc : env.cmd name args w.host =
      (absOutcome sh (s.execCmd cfg i sh).2 (s.execCmd cfg i sh).1.errChan.isSome, h)) :
    (Ysgo.exec env mk p d (.cmd (e :: es))).1.pending = abs (s.execCmd cfg i sh).1 ∧
    (Ysgo.exec env mk p d (.cmd (e :: es))).2.2 =
      (match (s.execCmd cfg i sh).2, (s.execCmd cfg i sh).1.errChan.isSome with
       | .failed, _ => some (.err (if sh = .unknown then .unknownCmd else .cmdFailed))
       | .ok, true => some (.ok .waiting)
       | .ok, false => none
       | .stuck, _ => some (.panic .host)) := by
  have ha : abs s = none := by simp [abs, he]
  rw [ha] at hd
  obtain ⟨h1, h2, h3⟩ := refine_execCmd hg i sh s hst he
  rw [h2]
  generalize s.execCmd cfg i sh = r at *
  obtain ⟨s', res⟩ := r
  simp only at *
  cases res with
  | stuck => exact absurd rfl h1
  | failed =>
    have := h3 rfl
    by_cases hu : sh = .unknown
    · simp [Ysgo.exec, hargs, hs, hc, absOutcome, hu, this, hd]
    · simp [Ysgo.exec, hargs, hs, hc, absOutcome, hu, this, hd]
  | ok =>
    cases hp : s'.errChan.isSome with
    | true => simp [Ysgo.exec, hargs, hs, hc, absOutcome, hp]
    | false => simp [Ysgo.exec, hargs, hs, hc, absOutcome, hp, hd]

end Ysgo.Chan
