import Ysgo.Lemmas.F64Err
/-!
# F64 lemma library, part 10: `ilog2q`, `roundQuot` and floating-point division
-/
namespace Ysgo
namespace F64

theorem two_zpow_lt_iff (a b : ℤ) : (2 : ℚ) ^ a < 2 ^ b ↔ a < b :=
  zpow_lt_zpow_iff_right₀ (by norm_num : (1 : ℚ) < 2)
theorem two_zpow_le_iff (a b : ℤ) : (2 : ℚ) ^ a ≤ 2 ^ b ↔ a ≤ b :=
  zpow_le_zpow_iff_right₀ (by norm_num : (1 : ℚ) < 2)

private theorem ge_iff (n d : ℕ) (hd : 0 < d) (j : ℤ) :
    (if j ≥ 0 then decide (n ≥ d * 2 ^ j.toNat) else decide (n * 2 ^ (-j).toNat ≥ d)) = true
      ↔ (2 : ℚ) ^ j ≤ (n : ℚ) / d := by
  have hdq : (0 : ℚ) < d := by exact_mod_cast hd
  rw [le_div_iff₀ hdq]
  split
  · rename_i hj
    rw [decide_eq_true_eq, ← two_zpow_toNat j hj]
    constructor
    · intro h
      have : ((d * 2 ^ j.toNat : ℕ) : ℚ) ≤ n := by exact_mod_cast h
      push_cast at this; linarith
    · intro h
      have : ((d * 2 ^ j.toNat : ℕ) : ℚ) ≤ n := by push_cast; linarith
      exact_mod_cast this
  · rename_i hj
    rw [decide_eq_true_eq]
    have hpow : (2 : ℚ) ^ (-j).toNat * 2 ^ j = 1 := by
      rw [two_zpow_toNat (-j) (by omega), ← two_zpow_add]; simp
    have hp : (0 : ℚ) < 2 ^ (-j).toNat := by positivity
    constructor
    · intro h
      have h1 : (d : ℚ) ≤ ((n * 2 ^ (-j).toNat : ℕ) : ℚ) := by exact_mod_cast h
      push_cast at h1
      have h2 := mul_le_mul_of_nonneg_right h1 (le_of_lt (two_zpow_pos j))
      rw [mul_assoc, hpow, mul_one] at h2
      linarith
    · intro h
      have h2 := mul_le_mul_of_nonneg_right h (le_of_lt hp)
      rw [mul_comm ((2 : ℚ) ^ j), mul_assoc, mul_comm ((2 : ℚ) ^ j), hpow, mul_one] at h2
      have : (d : ℚ) ≤ ((n * 2 ^ (-j).toNat : ℕ) : ℚ) := by push_cast; exact h2
      exact_mod_cast this

/-- `ilog2q n d = ⌊log2 (n/d)⌋` -/
theorem ilog2q_spec (n d : ℕ) (hn : 0 < n) (hd : 0 < d) :
    (2 : ℚ) ^ (ilog2q n d) ≤ (n : ℚ) / d ∧ (n : ℚ) / d < 2 ^ (ilog2q n d + 1) := by
  obtain ⟨a1, a2⟩ := log2_bounds_rat n hn
  obtain ⟨b1, b2⟩ := log2_bounds_rat d hd
  have hdq : (0 : ℚ) < d := by exact_mod_cast hd
  have hnq : (0 : ℚ) < n := by exact_mod_cast hn
  -- 2^(k-1) < n/d < 2^(k+1) with k = log2 n - log2 d
  have hup : (n : ℚ) / d < 2 ^ ((Nat.log2 n : ℤ) - (Nat.log2 d : ℤ) + 1) := by
    rw [div_lt_iff₀ hdq]
    calc (n : ℚ) < 2 ^ (Nat.log2 n + 1) := a2
      _ = 2 ^ ((Nat.log2 n : ℤ) - (Nat.log2 d : ℤ) + 1) * 2 ^ (Nat.log2 d) := by
          rw [← zpow_natCast, ← zpow_natCast, ← two_zpow_add]; congr 1; push_cast; ring
      _ ≤ 2 ^ ((Nat.log2 n : ℤ) - (Nat.log2 d : ℤ) + 1) * d :=
          mul_le_mul_of_nonneg_left b1 (le_of_lt (two_zpow_pos _))
  have hlow : (2 : ℚ) ^ ((Nat.log2 n : ℤ) - (Nat.log2 d : ℤ) - 1) ≤ (n : ℚ) / d := by
    rw [le_div_iff₀ hdq]
    calc (2 : ℚ) ^ ((Nat.log2 n : ℤ) - (Nat.log2 d : ℤ) - 1) * d
        ≤ 2 ^ ((Nat.log2 n : ℤ) - (Nat.log2 d : ℤ) - 1) * 2 ^ (Nat.log2 d + 1) :=
          mul_le_mul_of_nonneg_left (le_of_lt b2) (le_of_lt (two_zpow_pos _))
      _ = 2 ^ (Nat.log2 n) := by
          rw [← zpow_natCast, ← zpow_natCast, ← two_zpow_add]; congr 1; push_cast; ring
      _ ≤ n := a1
  unfold ilog2q
  simp only []
  have hge := ge_iff n d hd ((Nat.log2 n : ℤ) - (Nat.log2 d : ℤ))
  by_cases hc : (2 : ℚ) ^ ((Nat.log2 n : ℤ) - (Nat.log2 d : ℤ)) ≤ (n : ℚ) / d
  · rw [if_pos (hge.mpr hc)]
    exact ⟨hc, hup⟩
  · rw [if_neg (fun h => hc (hge.mp h))]
    refine ⟨hlow, ?_⟩
    rw [show (Nat.log2 n : ℤ) - (Nat.log2 d : ℤ) - 1 + 1 = (Nat.log2 n : ℤ) - (Nat.log2 d : ℤ) by ring]
    exact not_le.mp hc

/-- rounding `A / B` to an integer mantissa at exponent `e`, where `(A/B)·2^e = q` lies in the binade `[2^L, 2^(L+1))`
and `e = max (L - 52) (-1074)`: the packed result is within half a unit `2^e / 2` of `q` -/
theorem finish_rne_err (s : Bool) (A B : ℕ) (e L : ℤ) (q : ℚ) (hB : 0 < B)
    (hq : (A : ℚ) * 2 ^ e = q * B) (hL1 : (2 : ℚ) ^ L ≤ q) (hL2 : q < 2 ^ (L + 1))
    (he : e = max (L - 52) (-1074)) (hov : L ≤ 1022) :
    Finite (finish s (rne A B) e) ∧ |val (finish s (rne A B) e) - sgn s * q| ≤ 2 ^ e / 2 := by
  have hBq : (0 : ℚ) < B := by exact_mod_cast hB
  have h2e : (0 : ℚ) < 2 ^ e := two_zpow_pos e
  have hA : (A : ℚ) = q * B / 2 ^ e := by rw [← hq]; field_simp
  have hmle : rne A B ≤ P53 := by
    apply rne_le _ _ _ hB
    have : (A : ℚ) ≤ ((P53 * B : ℕ) : ℚ) := by
      push_cast
      rw [hA, P53_cast, div_le_iff₀ h2e]
      have : q ≤ 2 ^ (53 : ℕ) * 2 ^ e := by
        apply le_trans (le_of_lt hL2)
        rw [← zpow_natCast, ← two_zpow_add, two_zpow_le_iff]
        push_cast; omega
      calc q * B ≤ (2 ^ (53 : ℕ) * 2 ^ e) * B := mul_le_mul_of_nonneg_right this (le_of_lt hBq)
        _ = 2 ^ 53 * B * 2 ^ e := by ring
    exact_mod_cast this
  have hlo : P52 ≤ rne A B ∨ e = -1074 := by
    by_cases hn : e = -1074
    · exact Or.inr hn
    · left
      apply rne_ge _ _ _ hB
      have : ((P52 * B : ℕ) : ℚ) ≤ (A : ℚ) := by
        push_cast
        rw [hA, P52_cast, le_div_iff₀ h2e]
        have : (2 : ℚ) ^ (52 : ℕ) * 2 ^ e ≤ q := by
          apply le_trans _ hL1
          rw [← zpow_natCast, ← two_zpow_add, two_zpow_le_iff]
          push_cast; omega
        calc (2 : ℚ) ^ 52 * B * 2 ^ e = (2 ^ (52 : ℕ) * 2 ^ e) * B := by ring
          _ ≤ q * B := mul_le_mul_of_nonneg_right this (le_of_lt hBq)
      exact_mod_cast this
  obtain ⟨hf, hv⟩ := val_finish s (rne A B) e hmle hlo (by omega) (by omega)
  refine ⟨hf, ?_⟩
  rw [hv]
  obtain ⟨b1, b2⟩ := rne_bound A B hB
  have b1' : 2 * ((rne A B : ℚ) * B) ≤ 2 * A + B := by exact_mod_cast b1
  have b2' : 2 * (A : ℚ) ≤ 2 * ((rne A B : ℚ) * B) + B := by exact_mod_cast b2
  have : sgn s * (rne A B : ℚ) * 2 ^ e - sgn s * q = sgn s * (((rne A B : ℚ) * B - A) * (2 ^ e / B)) := by
    rw [hA]; field_simp
  rw [this, abs_mul, abs_sgn, one_mul, abs_mul, abs_of_pos (div_pos h2e hBq)]
  have habs : |(rne A B : ℚ) * B - A| ≤ B / 2 := by
    rw [abs_le]; constructor <;> linarith
  calc |(rne A B : ℚ) * B - A| * (2 ^ e / B) ≤ (B / 2) * (2 ^ e / B) :=
        mul_le_mul_of_nonneg_right habs (le_of_lt (div_pos h2e hBq))
    _ = 2 ^ e / 2 := by field_simp

/-- **Rounding error of `roundQuot`**: half a unit in the last place -/
theorem roundQuot_err (s : Bool) (n d : ℕ) (hn : 0 < n) (hd : 0 < d) (hov : ilog2q n d ≤ 1022) :
    Finite (roundQuot s n d) ∧
      |val (roundQuot s n d) - sgn s * ((n : ℚ) / d)| ≤ 2 ^ (max (ilog2q n d - 52) (-1074)) / 2 := by
  obtain ⟨hL1, hL2⟩ := ilog2q_spec n d hn hd
  have hdq : (0 : ℚ) < d := by exact_mod_cast hd
  rw [roundQuot_eq_finish]
  generalize ilog2q n d = L at *
  have he : (if L - 52 < -1074 then -1074 else L - 52) = max (L - 52) (-1074) := by
    split <;> omega
  rw [he]
  generalize hee : max (L - 52) (-1074) = e
  by_cases hc : e ≥ 0
  · rw [if_pos hc]
    apply finish_rne_err s n (d * 2 ^ e.toNat) e L _ (Nat.mul_pos hd (Nat.pow_pos (by omega)))
      _ hL1 hL2 hee.symm hov
    push_cast
    rw [two_zpow_toNat e hc]
    field_simp
  · rw [if_neg hc]
    apply finish_rne_err s (n * 2 ^ (-e).toNat) d e L _ hd _ hL1 hL2 hee.symm hov
    push_cast
    rw [two_zpow_toNat (-e) (by omega), mul_assoc, ← two_zpow_add]
    simp only [neg_add_cancel, zpow_zero, mul_one]
    field_simp

theorem half_ulp_quot_le (q : ℚ) (L : ℤ) (hL1 : (2 : ℚ) ^ L ≤ q) :
    (2 : ℚ) ^ (max (L - 52) (-1074)) / 2 ≤ max (q * 2 ^ (-53 : ℤ)) (2 ^ (-1075 : ℤ)) := by
  have hhalf : ∀ a : ℤ, (2 : ℚ) ^ a / 2 = 2 ^ (a - 1) := by
    intro a; rw [two_zpow_sub, zpow_one]
  rw [hhalf]
  rcases le_total (L - 52) (-1074) with hc | hc
  · rw [max_eq_right hc]; exact le_max_right _ _
  · rw [max_eq_left hc]
    apply le_trans _ (le_max_left _ _)
    rw [show L - 52 - 1 = L + (-53) by ring, two_zpow_add]
    exact mul_le_mul_of_nonneg_right hL1 (le_of_lt (two_zpow_pos _))

theorem fval_eq_zero_iff (s : Bool) (m : ℕ) (e : ℤ) : fval s m e = 0 ↔ m = 0 := by
  unfold fval
  have h2 := two_zpow_pos e
  have hs : sgn s ≠ 0 := by cases s <;> simp [sgn]
  constructor
  · intro h
    rcases mul_eq_zero.mp h with h' | h'
    · rcases mul_eq_zero.mp h' with h'' | h''
      · exact absurd h'' hs
      · exact_mod_cast h''
    · exact absurd h' (ne_of_gt h2)
  · intro h; rw [h]; simp

/-- division of a zero by a non-zero finite number is a zero -/
theorem div_zero_num {x y : F64} (hx : Finite x) (hy : Finite y) (hx0 : val x = 0) (hy0 : val y ≠ 0) :
    Finite (div x y) ∧ val (div x y) = 0 := by
  obtain ⟨a, m1, e1, hdx, -⟩ := decode_finite hx
  obtain ⟨b, m2, e2, hdy, -⟩ := decode_finite hy
  rw [val_of_decode hdx, fval_eq_zero_iff] at hx0
  rw [val_of_decode hdy, Ne, fval_eq_zero_iff] at hy0
  unfold div
  rw [hdx, hdy]
  simp only []
  rw [if_neg hy0, if_pos hx0]
  exact ⟨finite_zero _, val_zero _⟩

/-- **Floating-point division**: relative error at most `2^-53` (absolute `2^-1075` in the subnormal range),
when the exact quotient is below 2^1023 -/
theorem div_err {x y : F64} (hx : Finite x) (hy : Finite y) (hx0 : val x ≠ 0) (hy0 : val y ≠ 0)
    (hov : |val x / val y| < 2 ^ (1023 : ℤ)) :
    Finite (div x y) ∧
      |val (div x y) - val x / val y| ≤ max (|val x / val y| * 2 ^ (-53 : ℤ)) (2 ^ (-1075 : ℤ)) := by
  obtain ⟨a, m1, e1, hdx, -⟩ := decode_finite hx
  obtain ⟨b, m2, e2, hdy, -⟩ := decode_finite hy
  have hm1 : m1 ≠ 0 := by rw [val_of_decode hdx, Ne, fval_eq_zero_iff] at hx0; exact hx0
  have hm2 : m2 ≠ 0 := by rw [val_of_decode hdy, Ne, fval_eq_zero_iff] at hy0; exact hy0
  have hm1q : (0 : ℚ) < m1 := by exact_mod_cast Nat.pos_of_ne_zero hm1
  have hm2q : (0 : ℚ) < m2 := by exact_mod_cast Nat.pos_of_ne_zero hm2
  generalize hn : m1 * 2 ^ (e1 - min e1 e2).toNat = n
  generalize hd : m2 * 2 ^ (e2 - min e1 e2).toNat = d
  have hn0 : 0 < n := by rw [← hn]; exact Nat.mul_pos (Nat.pos_of_ne_zero hm1) (Nat.pow_pos (by omega))
  have hd0 : 0 < d := by rw [← hd]; exact Nat.mul_pos (Nat.pos_of_ne_zero hm2) (Nat.pow_pos (by omega))
  have hquot : (n : ℚ) / d = (m1 : ℚ) * 2 ^ e1 / (m2 * 2 ^ e2) := by
    rw [← hn, ← hd]
    push_cast
    rw [two_zpow_toNat _ (by omega), two_zpow_toNat _ (by omega), two_zpow_sub, two_zpow_sub]
    have := two_zpow_pos (min e1 e2)
    field_simp
  have hval : val x / val y = sgn (a != b) * ((n : ℚ) / d) := by
    rw [hquot, val_of_decode hdx, val_of_decode hdy, sgn_xor]
    unfold fval
    have hs : sgn b ≠ 0 := by cases b <;> simp [sgn]
    have h1 : sgn b * sgn b = 1 := sgn_sq b
    have := two_zpow_pos e2
    field_simp
    rw [pow_two, h1, mul_one]
  have habs : |val x / val y| = (n : ℚ) / d := by
    rw [hval, abs_mul, abs_sgn, one_mul, abs_of_pos (div_pos (by exact_mod_cast hn0) (by exact_mod_cast hd0))]
  obtain ⟨hL1, hL2⟩ := ilog2q_spec n d hn0 hd0
  have hLov : ilog2q n d ≤ 1022 := by
    rw [habs] at hov
    have := lt_of_le_of_lt hL1 hov
    rw [two_zpow_lt_iff] at this
    omega
  obtain ⟨hf, he⟩ := roundQuot_err (a != b) n d hn0 hd0 hLov
  unfold div
  rw [hdx, hdy]
  simp only []
  rw [if_neg hm2, if_neg hm1, hn, hd]
  refine ⟨hf, ?_⟩
  rw [habs, hval]
  exact le_trans he (half_ulp_quot_le _ _ hL1)

end F64
end Ysgo
