import Ysgo.Model.Indent
import Ysgo.Lemmas.Stack
/-!
# The indentation logic replayed literally over the `Stack` model: no `Pop`/`Peek` on an empty stack

`Ysgo.Indent.handleNewline` / `handleEOF` work on a `List Nat` with the top first and reach the Go `Pop()` by pattern
matching. Here the same Go statements are replayed call by call over `Ysgo.Stack` (`Size`, `Peek`, `Push`, `Pop`
with their explicit panic outcome; the slice is the reversed list). The theorems say that the replay never panics
(nor runs out of the loop fuel `Size()+1`) and computes exactly what the list version computes: inside
`IndentAwareLexer` the container contract "Pop/Peek panic on empty" is never triggered, for any input.
-/
namespace Ysgo.Indent
open Ysgo.Container

/-- `previousIndent := 0; if ial.indents.Size() > 0 { previousIndent = ial.indents.Peek() }` -/
def peekOr0 (s : Stack.Stack Nat) : Outcome Nat :=
  if Stack.size s > 0 then Stack.peek s else .ok 0

/-- the `for currentIndentationLength < previousIndent { … }` loop; `panic` also stands for "out of fuel" -/
def popLoopLit : Nat → Nat → Nat → Stack.Stack Nat → Outcome (Stack.Stack Nat × List Tok)
  | 0, _, _, _ => .panic
  | fuel + 1, cur, prev, s =>
    if cur < prev then
      match Stack.pop s with
      | .panic => .panic
      | .ok (_, s') =>
        match peekOr0 s' with
        | .panic => .panic
        | .ok prev' =>
          match popLoopLit fuel cur prev' s' with
          | .panic => .panic
          | .ok (s'', ts) => .ok (s'', .dedent :: ts)
    else .ok (s, [])

def handleNewlineLit (s : Stack.Stack Nat) (li : LineInfo) : Outcome (Stack.Stack Nat × List Tok) :=
  if li.noise then .ok (s, [.nl])
  else
    match peekOr0 s with
    | .panic => .panic
    | .ok prev =>
      if li.width > prev then .ok (Stack.push s li.width, [.nl, .indent])
      else if li.width < prev then
        match popLoopLit (Stack.size s + 1) li.width prev s with
        | .panic => .panic
        | .ok (s', ts) => .ok (s', .nl :: ts)
      else .ok (s, [.nl])

/-- `for ial.indents.Size() > 0 { ial.indents.Pop(); DEDENT }; enqueue EOF` -/
def handleEOFLit : Nat → Stack.Stack Nat → Outcome (List Tok)
  | 0, _ => .panic
  | fuel + 1, s =>
    if Stack.size s > 0 then
      match Stack.pop s with
      | .panic => .panic
      | .ok (_, s') =>
        match handleEOFLit fuel s' with
        | .panic => .panic
        | .ok ts => .ok (.dedent :: ts)
    else .ok [.eof]

theorem pop_reverse_cons (top : Nat) (st : List Nat) :
    Stack.pop ((top :: st).reverse : Stack.Stack Nat) = .ok (top, st.reverse) := by
  have h0 : (st.reverse ++ [top]).length ≠ 0 := by simp
  simp only [List.reverse_cons, Stack.pop, h0, ↓reduceIte, Stack.getD_concat_last, Stack.take_concat_last]

theorem peekOr0_reverse (st : List Nat) : peekOr0 (st.reverse : Stack.Stack Nat) = .ok (st.headD 0) := by
  cases st with
  | nil => simp [peekOr0, Stack.size]
  | cons top st =>
    have h0 : (st.reverse ++ [top]).length ≠ 0 := by simp
    have h1 : Stack.size (st.reverse ++ [top] : Stack.Stack Nat) > 0 := by simp [Stack.size]
    simp only [peekOr0, List.reverse_cons, h1, ↓reduceIte, Stack.peek, h0, Stack.getD_concat_last,
      List.headD_cons]

theorem popLoopLit_eq (cur : Nat) (st : List Nat) : ∀ fuel, st.length + 1 ≤ fuel →
    popLoopLit fuel cur (st.headD 0) (st.reverse : Stack.Stack Nat)
      = .ok ((popWhile cur st).1.reverse, (popWhile cur st).2) := by
  induction st with
  | nil =>
    intro fuel hf
    cases fuel with
    | zero => omega
    | succ fuel => simp [popLoopLit, popWhile]
  | cons top st ih =>
    intro fuel hf
    cases fuel with
    | zero => omega
    | succ fuel =>
      simp only [List.length_cons] at hf
      simp only [popLoopLit, List.headD_cons, popWhile]
      by_cases hlt : cur < top
      · simp only [hlt, ↓reduceIte, pop_reverse_cons, peekOr0_reverse, ih fuel (by omega)]
      · simp only [hlt, ↓reduceIte]

/-- the literal replay of `handleNewLineToken` never panics and agrees with `handleNewline` -/
theorem handleNewlineLit_eq (st : List Nat) (li : LineInfo) :
    handleNewlineLit (st.reverse : Stack.Stack Nat) li
      = .ok ((handleNewline st li).1.reverse, (handleNewline st li).2) := by
  unfold handleNewlineLit handleNewline
  by_cases hn : li.noise = true
  · simp [hn]
  · simp only [hn, Bool.false_eq_true, ↓reduceIte, peekOr0_reverse]
    by_cases hgt : li.width > st.headD 0
    · simp only [hgt, ↓reduceIte, Stack.push, List.reverse_cons]
    · simp only [hgt, ↓reduceIte]
      by_cases hlt : li.width < st.headD 0
      · simp only [hlt, ↓reduceIte]
        rw [popLoopLit_eq li.width st _ (by simp [Stack.size])]
      · simp only [hlt, ↓reduceIte]

/-- the literal replay of `handleEndOfFileToken` never panics and agrees with `handleEOF` -/
theorem handleEOFLit_eq (st : List Nat) : ∀ fuel, st.length + 1 ≤ fuel →
    handleEOFLit fuel (st.reverse : Stack.Stack Nat) = .ok (handleEOF st) := by
  induction st with
  | nil =>
    intro fuel hf
    cases fuel with
    | zero => omega
    | succ fuel => simp [handleEOFLit, handleEOF, Stack.size]
  | cons top st ih =>
    intro fuel hf
    cases fuel with
    | zero => omega
    | succ fuel =>
      simp only [List.length_cons] at hf
      have h1 : 0 < Stack.size ((top :: st).reverse : Stack.Stack Nat) := by simp [Stack.size]
      simp only [handleEOFLit, h1, ↓reduceIte, pop_reverse_cons, ih fuel (by omega)]
      simp [handleEOF]

end Ysgo.Indent
