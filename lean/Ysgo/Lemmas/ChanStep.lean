import Ysgo.Lemmas.ChanInv
/-!
# Channel-level mailbox: what `executeCommandStatement`, the poll at the top of `Next`, and `Next` itself do, in closed
form under the facts of the code, and induction principles over the statement loop and over schedules
-/
namespace Ysgo.Chan
open Sys

theorem Inv.of_eq {s s' : Sys} (hi : Inv s) (h1 : s'.heap = s.heap) (h2 : s'.gs = s.gs) (h3 : s'.errChan = s.errChan)
    (h4 : s'.status = s.status) (h5 : s'.shared = s.shared) : Inv s' := by
  obtain ⟨a, b, c, d, e, f, g⟩ := hi
  constructor
  · rw [h1, h2]; exact a
  · rw [h1, h2]; exact b
  · rw [h2]; exact c
  · rw [h2]; exact d
  · rw [h1, h3]; exact e
  · rw [h4]; exact f
  · rw [h5]; exact g

theorem Inv.setErr {s : Sys} (hi : Inv s) (e : Option Nat) (he : ∀ ch, e = some ch → ch < s.heap.length) :
    Inv { s with errChan := e } := by
  obtain ⟨a, b, c, d, _, f, g⟩ := hi
  exact ⟨a, b, c, d, he, f, g⟩

theorem Chan.recvNB_woken_nil {c : Chan} (h : c.sendq = []) : c.recvNB.woken = none := by
  unfold Chan.recvNB
  split <;> simp_all
  split <;> rfl

/-- the poll of `executeCommandStatement` on the channel just made -/
theorem recv_last (s1 : Sys) (H : List Chan) (c : Chan) (hq : c.sendq = []) (hh : s1.heap = H ++ [c]) :
    s1.recv .selectDefault H.length = match c.avail with
      | none => (s1, none)
      | some v => ({ s1 with heap := H ++ [c.recvNB.chan], recvLog := s1.recvLog ++ [(H.length, v)] }, some v) := by
  have hc : s1.heap[H.length]? = some c := by rw [hh]; exact List.getElem?_concat_length
  unfold Sys.recv
  simp only [hc, Chan.poll_select_val]
  cases hv : c.avail with
  | none => rfl
  | some v =>
    simp only [Chan.poll, Chan.recvNB_woken_nil hq, Sys.wake, hh, set_last]

/-- the state after the dispatch of statement `i` (shape `sh`) and before the poll: channels `pre ++ [c]` appended to the
heap (the last one is handed to the runner), goroutines `ys` started -/
def afterDispatch (s : Sys) (i : Nat) (sh : Shape) (pre : List Chan) (c : Chan) (ys : List G) : Sys :=
  { s with heap := s.heap ++ pre ++ [c], gs := s.gs ++ ys,
           calls := s.calls ++ (if sh.invokes then [i] else []),
           disp := s.disp ++ [{ stmt := i, ch := some (s.heap.length + pre.length), g0 := s.gs.length, ng := ys.length }] }

/-- `executeCommandStatement` in closed form -/
theorem execCmd_good {cfg : Cfg} (hg : cfg.Good) (i : Nat) (sh : Shape) (s : Sys) (hst : s.status = .ok) :
    (sh = .raw none ∧ s.execCmd cfg i sh =
        ({ s with calls := s.calls ++ [i], disp := s.disp ++ [{ stmt := i, ch := none, g0 := s.gs.length, ng := 0 }],
                  errChan := none }, .ok)) ∨
    ∃ (pre : List Chan) (c : Chan) (ys : List G),
      (∀ p ∈ pre, p.sendq = []) ∧ c.sendq = []
      ∧ (∀ y ∈ ys, y.chan = some (s.heap.length + pre.length) ∧ ∀ ch, y ≠ G.libParked ch)
      ∧ ((∀ y ∈ ys, y.libActive = none) ∨ (ys.length = 1 ∧ c.Fresh))
      ∧ s.execCmd cfg i sh = match c.avail with
          | none => ({ afterDispatch s i sh pre c ys with errChan := some (s.heap.length + pre.length) }, .ok)
          | some v => ({ afterDispatch s i sh pre c ys with
                           heap := s.heap ++ pre ++ [c.recvNB.chan],
                           recvLog := s.recvLog ++ [(s.heap.length + pre.length, v)] },
                       if v then .failed else .ok) := by
  rcases dispatch_good hg i sh s with ⟨h1, h2⟩ | ⟨pre, c, ys, h2, hpq, hq, hys, hlib⟩
  · left
    refine ⟨h1, ?_⟩
    simp [Sys.execCmd, h2, hst]
  · right
    refine ⟨pre, c, ys, hpq, hq, hys, hlib, ?_⟩
    have hpe := hg.2.2.2.2.2.2.1
    have hr := recv_last (afterDispatch s i sh pre c ys) (s.heap ++ pre) c hq rfl
    simp only [List.length_append] at hr
    simp only [Sys.execCmd, h2, hpe, List.length_append, Nat.add_sub_cancel_left]
    split
    · rename_i hs; simp only [hst] at hs; cases hs
    · rename_i hs; simp only [hst] at hs; cases hs
    · unfold afterDispatch at hr ⊢
      rw [hr]
      cases c.avail <;> rfl

theorem afterDispatch_inv {s : Sys} (hi : Inv s) (i : Nat) (sh : Shape) (pre : List Chan) (c : Chan) (ys : List G)
    (hys : ∀ y ∈ ys, y.chan = some (s.heap.length + pre.length) ∧ ∀ ch, y ≠ G.libParked ch)
    (hlib : (∀ y ∈ ys, y.libActive = none) ∨ (ys.length = 1 ∧ c.Fresh)) :
    Inv (afterDispatch s i sh pre c ys) := by
  have h1 := hi.allocs pre
  have h2 := h1.extend c ys s.calls (by simpa using hys) hlib
  exact h2.of_eq rfl rfl rfl rfl rfl

theorem Inv.execCmd {cfg : Cfg} (hg : cfg.Good) {s : Sys} (hi : Inv s) (hst : s.status = .ok) (i : Nat) (sh : Shape) :
    Inv (s.execCmd cfg i sh).1 := by
  rcases execCmd_good hg i sh s hst with ⟨-, h⟩ | ⟨pre, c, ys, -, hq, hys, hlib, h⟩
  · rw [h]
    exact (hi.setErr none (by simp)).of_eq rfl rfl rfl rfl rfl
  · rw [h]
    have ha := afterDispatch_inv hi i sh pre c ys hys hlib
    cases hv : c.avail with
    | none =>
      simp only
      apply ha.setErr
      intro ch e
      injection e with e
      subst e
      simp [afterDispatch]
    | some v =>
      simp only
      -- the poll took the value: the same as `recv` on the state after the dispatch
      have hr := recv_last (afterDispatch s i sh pre c ys) (s.heap ++ pre) c hq rfl
      rw [hv] at hr
      simp only at hr
      have := ha.recv .selectDefault (s.heap ++ pre).length
      rw [hr] at this
      exact this.of_eq rfl rfl rfl rfl rfl

theorem execCmd_fields {cfg : Cfg} (hg : cfg.Good) (i : Nat) (sh : Shape) (s : Sys) (hst : s.status = .ok)
    (he : s.errChan = none) :
    (s.execCmd cfg i sh).1.pc = s.pc ∧ (s.execCmd cfg i sh).1.status = .ok ∧ (s.execCmd cfg i sh).2 ≠ .stuck
    ∧ (s.execCmd cfg i sh).1.calls = s.calls ++ (if sh.invokes then [i] else [])
    ∧ (s.execCmd cfg i sh).1.shared = s.shared
    ∧ s.heap.length ≤ (s.execCmd cfg i sh).1.heap.length
    ∧ (∀ ch, (s.execCmd cfg i sh).1.errChan = some ch → s.heap.length ≤ ch)
    ∧ (∃ l, (s.execCmd cfg i sh).1.recvLog = s.recvLog ++ l ∧ ∀ e ∈ l, s.heap.length ≤ e.1)
    ∧ (∀ ch, ch < s.heap.length → (s.execCmd cfg i sh).1.heap[ch]? = s.heap[ch]?) := by
  rcases execCmd_good hg i sh s hst with ⟨h0, h⟩ | ⟨pre, c, ys, -, hq, hys, hlib, h⟩
  · rw [h]
    subst h0
    simp [hst, Shape.invokes]
  · rw [h]
    have hget : ∀ (x : Chan) (ch : Nat), ch < s.heap.length → (s.heap ++ pre ++ [x])[ch]? = s.heap[ch]? := by
      intro x ch hlt
      rw [List.append_assoc, List.getElem?_append_left hlt]
    have hlen : ∀ x : Chan, (s.heap ++ pre ++ [x]).length = s.heap.length + pre.length + 1 := by
      intro x; simp; omega
    cases hv : c.avail with
    | none =>
      refine ⟨rfl, hst, by simp, rfl, rfl, ?_, ?_, ⟨[], by simp [afterDispatch], by simp⟩, hget c⟩
      · show s.heap.length ≤ (s.heap ++ pre ++ [c]).length
        rw [hlen]; omega
      · intro ch e
        have e' : some (s.heap.length + pre.length) = some ch := e
        injection e' with e'; omega
    | some v =>
      refine ⟨rfl, hst, by cases v <;> simp, rfl, rfl, ?_, ?_, ⟨[(s.heap.length + pre.length, v)], rfl, by simp⟩, hget _⟩
      · show s.heap.length ≤ (s.heap ++ pre ++ [c.recvNB.chan]).length
        rw [hlen]; omega
      · intro ch e
        have e' : s.errChan = some ch := e
        rw [he] at e'; cases e'

/-! ### the poll at the top of `Next` -/

/-- in closed form: nothing available — `waiting` and nothing changes; a value — it is taken, the channel forgotten -/
theorem pollTop_good {cfg : Cfg} (hg : cfg.Good) (s : Sys) {ch : Nat} {c : Chan} (he : s.errChan = some ch)
    (hc : s.heap[ch]? = some c) :
    s.pollTop cfg = match c.avail with
      | none => (s, some .waiting)
      | some v => ({ s with heap := s.heap.set ch c.recvNB.chan, gs := wake s.gs c.recvNB.woken,
                            recvLog := s.recvLog ++ [(ch, v)], errChan := none },
                   if v then some .err else none) := by
  obtain ⟨-, -, -, -, -, hpn, -, hclr, -⟩ := hg
  unfold Sys.pollTop Sys.recv
  simp only [he, hc, hpn, Chan.poll_select_val, hclr]
  cases hv : c.avail with
  | none => rfl
  | some v => simp [Chan.poll]

theorem pollTop_fields {cfg : Cfg} (hg : cfg.Good) (s : Sys) :
    (s.pollTop cfg).1.status = s.status ∧ (s.pollTop cfg).1.pc = s.pc ∧ (s.pollTop cfg).1.calls = s.calls
    ∧ (s.pollTop cfg).1.disp = s.disp ∧ (s.pollTop cfg).1.shared = s.shared
    ∧ (s.pollTop cfg).1.heap.length = s.heap.length
    ∧ ((s.pollTop cfg).2 = none → (s.pollTop cfg).1.errChan = none)
    ∧ ((s.pollTop cfg).1.errChan = none ∨ (s.pollTop cfg).1 = s) := by
  cases he : s.errChan with
  | none => simp [Sys.pollTop, he]
  | some ch =>
    cases hc : s.heap[ch]? with
    | none => simp [Sys.pollTop, Sys.recv, he, hc]
    | some c =>
      rw [pollTop_good hg s he hc]
      cases c.avail with
      | none => simp
      | some v => simp

theorem Inv.pollTop {cfg : Cfg} (hg : cfg.Good) {s : Sys} (hi : Inv s) : Inv (s.pollTop cfg).1 := by
  unfold Sys.pollTop
  split
  · exact hi
  · rename_i ch he
    have hr := hi.recv cfg.pollNext ch
    split
    · exact hi
    · rename_i s' v hs
      rw [hs] at hr
      simp only [hg.2.2.2.2.2.2.2.1, if_true]
      exact hr.setErr none (by simp)

/-! ### induction over the statement loop of `Next`, over `Next`, over schedules -/

theorem runFrom_induct {cfg : Cfg} (hg : cfg.Good) (script : List Stmt) (P : Sys → Prop)
    (hpc : ∀ (s : Sys) (n : Nat), P s → P { s with pc := n })
    (hexec : ∀ (s : Sys) (i : Nat) (sh : Shape), script[i]? = some (.cmd sh) → Inv s → s.status = .ok →
      s.errChan = none → P s → P (s.execCmd cfg i sh).1) :
    ∀ (rest : List Stmt) (s : Sys), rest = script.drop s.pc → Inv s → s.status = .ok → s.errChan = none → P s →
      P (runFrom cfg rest s).1 ∧ Inv (runFrom cfg rest s).1 ∧ (runFrom cfg rest s).1.status = .ok := by
  intro rest
  induction rest with
  | nil => intro s _ hi hst _ hp; exact ⟨hp, hi, hst⟩
  | cons st rest ih =>
    intro s hrest hi hst he hp
    obtain ⟨hget, hdrop⟩ := drop_cons hrest.symm
    cases st with
    | line => exact ⟨hpc s _ hp, hi.of_eq rfl rfl rfl rfl rfl, hst⟩
    | cmd sh =>
      have hi0 : Inv { s with pc := s.pc + 1 } := hi.of_eq rfl rfl rfl rfl rfl
      have hp0 := hpc s (s.pc + 1) hp
      have hf := execCmd_fields hg s.pc sh { s with pc := s.pc + 1 } hst he
      have hie := hi0.execCmd hg hst s.pc sh
      have hpe := hexec _ s.pc sh hget hi0 hst he hp0
      unfold Sys.runFrom
      generalize hr : Sys.execCmd cfg s.pc sh { s with pc := s.pc + 1 } = r at *
      obtain ⟨s', res⟩ := r
      cases res with
      | stuck => exact absurd rfl hf.2.2.1
      | failed => exact ⟨hpe, hie, hf.2.1⟩
      | ok =>
        simp only
        cases hec : s'.errChan with
        | some k => exact ⟨hpe, hie, hf.2.1⟩
        | none =>
          have hpc' : s'.pc = s.pc + 1 := hf.1
          exact ih s' (by rw [hpc']; exact hdrop.symm) hie hf.2.1 hec hpe

theorem next_induct {cfg : Cfg} (hg : cfg.Good) (script : List Stmt) (P : Sys → Prop)
    (hpc : ∀ (s : Sys) (n : Nat), P s → P { s with pc := n })
    (hexec : ∀ (s : Sys) (i : Nat) (sh : Shape), script[i]? = some (.cmd sh) → Inv s → s.status = .ok →
      s.errChan = none → P s → P (s.execCmd cfg i sh).1)
    (hpoll : ∀ s : Sys, Inv s → s.status = .ok → P s → P (s.pollTop cfg).1)
    (s : Sys) (hi : Inv s) (hp : P s) : P (s.next cfg script).1 ∧ Inv (s.next cfg script).1 := by
  unfold Sys.next
  cases hst : s.status with
  | blocked => exact ⟨hp, hi⟩
  | crashed => exact ⟨hp, hi⟩
  | ok =>
    simp only
    have hf := pollTop_fields hg s
    have hip := hi.pollTop hg
    have hpp := hpoll s hi hst hp
    generalize hr : s.pollTop cfg = r at *
    obtain ⟨s', o⟩ := r
    cases o with
    | some o => exact ⟨hpp, hip⟩
    | none =>
      simp only
      have := runFrom_induct hg script P hpc hexec (script.drop s'.pc) s' rfl hip (hf.1.trans hst)
        (hf.2.2.2.2.2.2.1 rfl) hpp
      exact ⟨this.1, this.2.1⟩

theorem Inv.restore {cfg : Cfg} {s : Sys} (hi : Inv s) : Inv (s.restore cfg) := by
  unfold Sys.restore
  split
  · have := hi.setErr (if cfg.restoreClears then none else s.errChan) (by
      intro ch e
      split at e
      · cases e
      · exact hi.errLt ch e)
    exact this.of_eq rfl rfl rfl rfl rfl
  · exact hi

theorem exec_nil (cfg : Cfg) (script : List Stmt) (s : Sys) : Sys.exec cfg script s [] = s := rfl

theorem exec_cons (cfg : Cfg) (script : List Stmt) (s : Sys) (e : Ev) (es : List Ev) :
    Sys.exec cfg script s (e :: es) = Sys.exec cfg script (s.step cfg script e).1 es := by
  simp only [Sys.exec, Sys.run]

theorem exec_append (cfg : Cfg) (script : List Stmt) (s : Sys) (es fs : List Ev) :
    Sys.exec cfg script s (es ++ fs) = Sys.exec cfg script (Sys.exec cfg script s es) fs := by
  induction es generalizing s with
  | nil => rfl
  | cons e es ih => rw [List.cons_append, exec_cons, exec_cons, ih]

/-- a property of the states kept by every operation is kept by every schedule -/
theorem exec_induct {cfg : Cfg} (hg : cfg.Good) (script : List Stmt) (P : Sys → Prop)
    (hpc : ∀ (s : Sys) (n : Nat), P s → P { s with pc := n })
    (hexec : ∀ (s : Sys) (i : Nat) (sh : Shape), script[i]? = some (.cmd sh) → Inv s → s.status = .ok →
      s.errChan = none → P s → P (s.execCmd cfg i sh).1)
    (hpoll : ∀ s : Sys, Inv s → s.status = .ok → P s → P (s.pollTop cfg).1)
    (hgo : ∀ (s : Sys) (g : Nat), Inv s → P s → P (s.goStep g))
    (hrestore : ∀ s : Sys, Inv s → P s → P (s.restore cfg)) :
    ∀ (es : List Ev) (s : Sys), Inv s → P s → P (Sys.exec cfg script s es) ∧ Inv (Sys.exec cfg script s es) := by
  intro es
  induction es with
  | nil => intro s hi hp; exact ⟨hp, hi⟩
  | cons e es ih =>
    intro s hi hp
    have hstep : P (s.step cfg script e).1 ∧ Inv (s.step cfg script e).1 := by
      cases e with
      | next => exact next_induct hg script P hpc hexec hpoll s hi hp
      | restore => exact ⟨hrestore s hi hp, hi.restore⟩
      | go g => exact ⟨hgo s g hi hp, hi.goStep g⟩
    rw [exec_cons]
    exact ih (s.step cfg script e).1 hstep.2 hstep.1

/-- every reachable state satisfies the invariant -/
theorem Inv.exec {cfg : Cfg} (hg : cfg.Good) (script : List Stmt) (es : List Ev) {s : Sys} (hi : Inv s) :
    Inv (Sys.exec cfg script s es) :=
  (exec_induct hg script (fun _ => True) (fun _ _ _ => trivial) (fun _ _ _ _ _ _ _ _ => trivial)
    (fun _ _ _ _ => trivial) (fun _ _ _ _ => trivial) (fun _ _ _ => trivial) es s hi trivial).2

end Ysgo.Chan
