import Ysgo.Lemmas.MarkupSim
import Ysgo.Lemmas.MarkupRange
/-!
# The part of `parseMarkup` after the main loop agrees with the tail of `MarkupSpec.expected`
-/
namespace Ysgo.Markup
open Ysgo.Unicode Ysgo.MarkupSpec
attribute [local irreducible] Unicode.isLetter Unicode.isDigit Unicode.isSpace Unicode.toLower

theorem insertSorted_eq (a : Attr) (l : List Attr) : insertSorted a l = insertByPosition a l := by
  induction l with
  | nil => rfl
  | cons b bs ih => simp only [insertSorted, insertByPosition, ih]

theorem sortStable_eq (l : List Attr) : sortStable l = sortByPosition l := by
  unfold sortStable sortByPosition
  congr 1
  funext acc a
  exact insertSorted_eq a acc

theorem characterPrefix_colon (cs : List Char) :
    characterPrefix (':' :: cs) = some ([], 1 + (cs.takeWhile isPerlSpace).length) := by
  simp [characterPrefix]

theorem characterPrefix_cons (c : Char) (cs : List Char) (h : c ≠ ':') :
    characterPrefix (c :: cs) = (characterPrefix cs).map (fun p => (c :: p.1, p.2 + 1)) := by
  simp only [characterPrefix, List.takeWhile_cons, ne_eq, h, not_false_eq_true, decide_true, if_true,
    List.length_cons, List.drop_succ_cons]
  cases List.drop (List.takeWhile (fun x => decide ¬x = ':') cs).length cs with
  | nil => simp
  | cons d ds => simp; omega

theorem findColon_spec (l : List Char) (k : Nat) :
    findColon l k = (characterPrefix l).map (fun p => (k + p.1.length, k + p.2)) := by
  induction l generalizing k with
  | nil => simp [findColon, characterPrefix]
  | cons c cs ih =>
    unfold findColon
    split
    · rename_i hc; subst hc
      simp [characterPrefix_colon]; omega
    · rename_i hc
      rw [ih, characterPrefix_cons c cs hc]
      cases characterPrefix cs with
      | none => simp
      | some p => simp; omega

theorem characterPrefix_name (l name : List Char) (len : Nat) (h : characterPrefix l = some (name, len)) :
    l.take name.length = name ∧ len ≤ l.length := by
  induction l generalizing name len with
  | nil => simp [characterPrefix] at h
  | cons c cs ih =>
    by_cases hc : c = ':'
    · subst hc
      rw [characterPrefix_colon] at h
      simp only [Option.some.injEq, Prod.mk.injEq] at h
      obtain ⟨rfl, rfl⟩ := h
      have := (List.takeWhile_prefix (l := cs) isPerlSpace).length_le
      simp only [List.length_nil, List.take_zero, List.length_cons, true_and]; omega
    · rw [characterPrefix_cons c cs hc] at h
      cases hp : characterPrefix cs with
      | none => simp [hp] at h
      | some p =>
        obtain ⟨nm, ln⟩ := p
        simp only [hp, Option.map_some, Option.some.injEq, Prod.mk.injEq] at h
        obtain ⟨rfl, rfl⟩ := h
        have := ih nm ln hp
        simp only [List.length_cons, List.take_succ_cons, this.1, true_and]; omega

/-- the implicit character attribute as the specification words it -/
def specCharacter (input : List Char) (attrs : List Attr) : List Attr :=
  if attrs.any (·.name == "character") then attrs else
    match characterPrefix input with
    | some (name, len) => attrs ++ [{ name := "character", position := 0, length := len, sourcePosition := 0,
                                       props := [("name", .str (String.ofList name))] }]
    | none => attrs

theorem addCharacter_eq (input : List Char) (attrs : List Attr) (s : PS) :
    addCharacter input attrs s = .ok (specCharacter input attrs) s := by
  unfold addCharacter specCharacter
  split
  · rfl
  · rw [findColon_spec]
    cases hp : characterPrefix input with
    | none => rfl
    | some p =>
      obtain ⟨name, len⟩ := p
      obtain ⟨hname, hlen⟩ := characterPrefix_name input name len hp
      have h1 : 0 ≤ name.length ∧ name.length ≤ input.length := by
        have := congrArg List.length hname
        simp only [List.length_take] at this
        omega
      have h2 : 0 ≤ len ∧ len ≤ input.length := by omega
      simp only [Option.map_some, sliceP, bind, P.bind, Nat.zero_add, h1, h2, and_self, if_true, pure, P.pure,
        List.drop_zero, Nat.sub_zero, hname, List.length_take, Nat.min_eq_left hlen]

theorem clipAttr_eq (lead n : Nat) (a : Attr) : clipAttr lead n a = clip lead n a := rfl

theorem trimSpace_eq (t : List Char) : trimSpace t = trimEnds t := rfl

/-! ## When the specification prescribes an error -/

/-- the loop ends in an error, at once or when the attributes are built -/
def BadEnd (r : Res LoopSt) : Prop :=
  match r with
  | .ok st' _ => buildAttrs st'.markers [] [] = .err
  | .err _ => True
  | .panic _ => False
  | .oof _ => False

/-- among the core chunks only a close marker without a matching open marker is rejected by the specification -/
theorem core_step_none (c : Chunk) (hc : isCore c = true) (S : St) (h : stepChunk S c = none) :
    ∃ n ws, c = .close n ws ∧ removeLast (String.ofList n) S.opens = none := by
  unfold isCore at hc
  cases c with
  | text t => cases t <;> simp [stepChunk] at h
  | escOpen => simp [stepChunk] at h
  | escClose => simp [stepChunk] at h
  | opn n sh ps ws =>
    cases sh with
    | some v => simp at hc
    | none =>
      cases ps with
      | cons p r => simp at hc
      | nil => simp [stepChunk, resolve, resolveProps, trimRule, lookup] at h
  | selfClose n sh ps ws =>
    cases sh with
    | some v => simp at hc
    | none =>
      cases ps with
      | cons p r => simp at hc
      | nil =>
        simp only [Bool.and_eq_true, Bool.not_eq_true'] at hc
        simp [stepChunk, resolve, resolveProps, trimRule, lookup, hc.2] at h
        have := h.1 h.2.1; rw [h.2.2] at this; exact absurd this (by simp)
  | close n ws =>
    refine ⟨n, ws, rfl, ?_⟩
    simp only [stepChunk, bind, Option.bind] at h
    cases hr : removeLast (String.ofList n) S.opens with
    | none => rfl
    | some p => simp [hr, pure] at h
  | closeAll ws => simp [stepChunk, pure] at h
  | repl n sh ps ws raw byName cws => simp at hc


/-- the parser's step on a close marker, whatever the specification thinks of it -/
theorem close_marker_run (pfuel : Nat) (n : List Char) (ws : List (List Char)) (hn : isIdent n = true)
    (hws : wsOk ws = true) (S : St) (R : List Char) (st : LoopSt) (s : PS)
    (hinv : Inv S (renderChunk (.close n ws) ++ R) st s) :
    ∃ (st1 : LoopSt) (s1 : PS) (m : Marker), (∀ fuel, mainLoop pfuel (fuel + 1) st s = mainLoop pfuel fuel st1 s1) ∧
      st1.markers = st.markers ++ [m] ∧ m.tag = .close ∧ m.name = String.ofList n ∧ s1.rest.length < s.rest.length := by
  obtain ⟨a, t, rfl, hid⟩ := ident_cases hn
  have hw0 := allSpace_slot ws 0 hws
  have hw1 := allSpace_slot ws 1 hws
  have hw2 := allSpace_slot ws 2 hws
  have hrender : renderChunk (.close (a :: t) ws) ++ R =
      '[' :: (slot ws 0 ++ '/' :: (slot ws 1 ++ (a :: t) ++ slot ws 2 ++ ']' :: R)) := by
    simp [renderChunk, renderCloseTag]
  obtain ⟨rest, src, pos⟩ := s
  have hrest := hinv.rest
  rw [hrender] at hrest
  simp only [startsWithSpace, isSpace_lbracket, Bool.and_false, Bool.false_eq_true, if_false] at hrest
  subst hrest
  have hm := marker_close (slot ws 0) (slot ws 1) a t (slot ws 2) R src st.out.length pfuel hw0 hw1 hw2 hid
  have hms := markerStep_close pfuel st _ _ _ hm rfl rfl
  refine ⟨_, _, _, fun fuel => mainLoop_marker pfuel _ fuel st _ src pos _ hms, rfl, rfl, rfl, ?_⟩
  simp only [List.length_cons, List.length_append]; omega

theorem sim_fold_none (pfuel : Nat) : ∀ (cs : List Chunk) (S : St) (st : LoopSt) (s : PS),
    (∀ c ∈ cs, isCore c = true) → Inv S (render cs) st s → cs.foldlM stepChunk S = none →
    s.rest.length < pfuel + 1 → ∀ fuel, s.rest.length < fuel → BadEnd (mainLoop (pfuel + 1) fuel st s) := by
  intro cs
  induction cs with
  | nil => intro S st s _ _ h; simp [pure] at h
  | cons c cs ih =>
    intro S st s hcore hinv hfold hp fuel hf
    simp only [List.foldlM_cons, bind, Option.bind] at hfold
    rw [render_cons] at hinv
    have hc := hcore c List.mem_cons_self
    cases hstep : stepChunk S c with
    | some S1 =>
      simp only [hstep] at hfold
      obtain ⟨n1, st1, s1, hinv1, hlen1, hrun1⟩ := stepSim_core pfuel c hc S S1 (render cs) st s hp hinv hstep
      have := ih S1 st1 s1 (fun d hd => hcore d (List.mem_cons_of_mem _ hd)) hinv1 hfold (by omega) (fuel - n1) (by omega)
      rw [show fuel = (fuel - n1) + n1 by omega, hrun1]
      exact this
    | none =>
      obtain ⟨n, ws, rfl, hrl⟩ := core_step_none c hc S hstep
      unfold isCore at hc
      simp only [chunkOk, Bool.and_eq_true, Bool.not_eq_true'] at hc
      obtain ⟨st1, s1, m, hrun, hmk, htag, hname, hlen⟩ :=
        close_marker_run (pfuel + 1) n ws hc.1.1 hc.1.2 S (render cs) st s hinv
      cases fuel with
      | zero => omega
      | succ f =>
        rw [hrun]
        have hpre := mainLoop_prefix (pfuel + 1) (st.markers ++ [m]) f st1 s1 (by omega) (by omega) ⟨[], by simp [hmk]⟩
        cases hml : mainLoop (pfuel + 1) f st1 s1 with
        | ok st' s' =>
          simp only [hml, Res.Sat] at hpre
          obtain ⟨more, hmore⟩ := hpre
          obtain ⟨opensM, hop, hb⟩ := hinv.build
          simp only [BadEnd, hmore]
          rw [List.append_assoc, hb]
          have hli : lastIndexNamed m.name opensM 0 = none := by
            cases hli : lastIndexNamed m.name opensM 0 with
            | none => rfl
            | some j =>
              obtain ⟨i, hi, _, hre⟩ := (removeLast_map m.name opensM 0).2 j hli
              rw [hname, hop, hrl] at hre
              simp at hre
          simp [buildAttrs, htag, hli]
        | err _ => simp [BadEnd]
        | panic _ => simp only [hml, Res.Sat] at hpre
        | oof _ => simp only [hml, Res.Sat] at hpre

end Ysgo.Markup
