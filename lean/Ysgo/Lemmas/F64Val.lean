import Ysgo.Lemmas.F64Int
import Mathlib.Tactic.Ring
import Mathlib.Tactic.Linarith
import Mathlib.Tactic.Positivity
import Mathlib.Tactic.FieldSimp
import Mathlib.Tactic.NormNum
import Mathlib.Algebra.Order.Field.Power
import Mathlib.Algebra.Order.Field.Rat
import Mathlib.Algebra.Order.Ring.Abs
/-!
# F64 lemma library, part 4: exact values (`val : F64 → ℚ`) and the semantic lemmas

* `val x` is the exact rational value of a finite double (0 for NaN / infinities), `toRat?_eq_val` links it to the
  model's own `toRat?`.
* `Representable q`: `|q| = n·2^g` with `n < 2^53`, `g ≥ -1074`, below the overflow threshold.
* `roundDyadic_val`: rounding a representable value returns it. `add_val`, `sub_val`: floating-point `+`/`-` are exact
  when the exact result is representable. `eq_iff_val`, `lt_iff_val`: comparisons are exact.
* `integral_val`: `floor/ceil/trunc/round` return the double whose value is the corresponding integer.
-/
namespace Ysgo
namespace F64

def sgn (neg : Bool) : ℚ := if neg then -1 else 1
/-- exact value of the decoded form `(-1)^neg · m · 2^e` -/
def fval (neg : Bool) (m : Nat) (e : Int) : ℚ := sgn neg * (m : ℚ) * (2 : ℚ) ^ e
/-- exact value of a finite double; 0 for NaN and the infinities (always used together with `Finite`) -/
def val (x : F64) : ℚ := match decode x with | .fin neg m e => fval neg m e | _ => 0

theorem two_zpow_add (a b : ℤ) : (2 : ℚ) ^ (a + b) = 2 ^ a * 2 ^ b := zpow_add₀ (by norm_num) a b
theorem two_zpow_sub (a b : ℤ) : (2 : ℚ) ^ (a - b) = 2 ^ a / 2 ^ b := zpow_sub₀ (by norm_num) a b
theorem two_zpow_pos (a : ℤ) : (0 : ℚ) < 2 ^ a := by positivity
theorem two_zpow_toNat (a : ℤ) (h : 0 ≤ a) : (2 : ℚ) ^ a.toNat = 2 ^ a := by
  rw [← zpow_natCast, Int.toNat_of_nonneg h]
theorem two_zpow_neg_nat (k : ℕ) : (2 : ℚ) ^ (-(k : ℤ)) = 1 / 2 ^ k := by
  rw [zpow_neg, zpow_natCast, one_div]

theorem val_of_decode {x : F64} {s m e} (h : decode x = .fin s m e) : val x = fval s m e := by
  unfold val; rw [h]

theorem sgn_sq (s : Bool) : sgn s * sgn s = 1 := by cases s <;> simp [sgn]
theorem abs_sgn (s : Bool) : |sgn s| = 1 := by cases s <;> simp [sgn]
theorem sgn_not (s : Bool) : sgn (!s) = - sgn s := by cases s <;> simp [sgn]

theorem abs_fval (s : Bool) (m : Nat) (e : Int) : |fval s m e| = (m : ℚ) * 2 ^ e := by
  unfold fval
  rw [abs_mul, abs_mul, abs_sgn, one_mul, abs_of_nonneg (by positivity), abs_of_pos (two_zpow_pos e)]

theorem fval_zero (s : Bool) (e : Int) : fval s 0 e = 0 := by simp [fval]

theorem val_zero (s : Bool) : val (zero s) = 0 := by
  rw [val_of_decode (decode_zero s), fval_zero]

theorem finite_zero (s : Bool) : Finite (zero s) := finite_of_decode (decode_zero s)

theorem val_neg {x : F64} (h : Finite x) : val (neg x) = - val x := by
  obtain ⟨s, m, e, hd, -⟩ := decode_finite h
  rw [val_of_decode (decode_neg hd), val_of_decode hd]
  unfold fval; rw [sgn_not]; ring

theorem finite_neg {x : F64} (h : Finite x) : Finite (neg x) := by
  obtain ⟨s, m, e, hd, -⟩ := decode_finite h
  exact finite_of_decode (decode_neg hd)

/-! ### link to the model's `toRat?` -/

theorem pow2Rat_eq (e : Int) : pow2Rat e = (2 : ℚ) ^ e := by
  unfold pow2Rat
  split
  · rename_i h
    push_cast
    exact two_zpow_toNat e h
  · rename_i h
    push_cast
    rw [two_zpow_toNat (-e) (by omega), zpow_neg, one_div, inv_inv]

theorem toRat?_eq_val {x : F64} (h : Finite x) : toRat? x = some (val x) := by
  obtain ⟨s, m, e, hd, -⟩ := decode_finite h
  unfold toRat?
  rw [val_of_decode hd, hd]
  simp only [magRat, pow2Rat_eq, fval, sgn]
  cases s <;> simp

/-! ### representable rationals and exactness of rounding -/

/-- `q` is the value of some finite double -/
def Representable (q : ℚ) : Prop :=
  ∃ (n : ℕ) (g : ℤ), n < P53 ∧ -1074 ≤ g ∧ g + (Nat.log2 n : ℤ) < 1024 ∧ |q| = (n : ℚ) * 2 ^ g

theorem Representable.neg {q : ℚ} (h : Representable q) : Representable (-q) := by
  obtain ⟨n, g, h1, h2, h3, h4⟩ := h
  exact ⟨n, g, h1, h2, h3, by rw [abs_neg, h4]⟩

theorem Representable.of_abs_eq {q r : ℚ} (h : Representable q) (hr : |r| = |q|) : Representable r := by
  obtain ⟨n, g, h1, h2, h3, h4⟩ := h
  exact ⟨n, g, h1, h2, h3, by rw [hr, h4]⟩

theorem representable_zero : Representable 0 :=
  ⟨0, 0, by unfold P53; omega, by omega, by simp [Nat.log2_zero], by simp⟩

theorem representable_int (i : ℤ) (h : i.natAbs < P53) : Representable (i : ℚ) := by
  refine ⟨i.natAbs, 0, h, by omega, ?_, ?_⟩
  · have := log2_le_52 h; omega
  · rw [zpow_zero, mul_one, Nat.cast_natAbs, Int.cast_abs]

theorem representable_val {x : F64} (h : Finite x) : Representable (val x) := by
  obtain ⟨s, m, e, hd, hm, he1, he2, -⟩ := decode_finite h
  refine ⟨m, e, hm, he1, ?_, by rw [val_of_decode hd, abs_fval]⟩
  have := log2_le_52 hm; omega

/-- a dyadic `n / 2^k` with `n < 2^53` and `k ≤ 1074` is representable -/
theorem representable_dyadic (q : ℚ) (n k : ℕ) (hn : n < P53) (hk : k ≤ 1074) (hq : |q| = (n : ℚ) / 2 ^ k) :
    Representable q := by
  refine ⟨n, -(k : ℤ), hn, by omega, ?_, ?_⟩
  · have := log2_le_52 hn; omega
  · rw [hq, two_zpow_neg_nat]; ring

/-- **Rounding a representable value is the identity** (value level) -/
theorem roundDyadic_val (s : Bool) (N : ℕ) (e : ℤ) (hN : 0 < N) (hr : Representable ((N : ℚ) * 2 ^ e)) :
    Finite (roundDyadic s N e) ∧ val (roundDyadic s N e) = sgn s * (N : ℚ) * 2 ^ e := by
  obtain ⟨n, g, hn, hg, hhi, habs⟩ := hr
  have hpos : (0 : ℚ) < (N : ℚ) * 2 ^ e := by positivity
  rw [abs_of_pos hpos] at habs
  have hn0 : 0 < n := by
    rcases Nat.eq_zero_or_pos n with h | h
    · subst h; rw [habs] at hpos; simp at hpos
    · exact h
  rcases le_or_gt e g with hc | hc
  · -- N = n·2^(g-e)
    obtain ⟨d, hd⟩ : ∃ d : ℕ, g = e + d := ⟨(g - e).toNat, by omega⟩
    have hNd : N = n * 2 ^ d := by
      have : (N : ℚ) = (n : ℚ) * 2 ^ d := by
        have h2 := two_zpow_pos e
        rw [hd, two_zpow_add, zpow_natCast] at habs
        have : (N : ℚ) * 2 ^ e = ((n : ℚ) * 2 ^ d) * 2 ^ e := by rw [habs]; ring
        exact mul_right_cancel₀ (ne_of_gt h2) this
      exact_mod_cast this
    obtain ⟨u, hu, -, -⟩ := roundDyadic_exact s n d e hn0 hn (by omega) (by omega)
    rw [hNd]
    refine ⟨finite_of_decode hu, ?_⟩
    rw [val_of_decode hu]
    unfold fval
    push_cast
    rw [two_zpow_sub, two_zpow_add, zpow_natCast, zpow_natCast]
    field_simp
  · -- n = N·2^(e-g)
    obtain ⟨d, hd⟩ : ∃ d : ℕ, e = g + d := ⟨(e - g).toNat, by omega⟩
    have hnd : n = N * 2 ^ d := by
      have : (n : ℚ) = (N : ℚ) * 2 ^ d := by
        have h2 := two_zpow_pos g
        rw [hd, two_zpow_add, zpow_natCast] at habs
        have : (n : ℚ) * 2 ^ g = ((N : ℚ) * 2 ^ d) * 2 ^ g := by rw [← habs]; ring
        exact mul_right_cancel₀ (ne_of_gt h2) this
      exact_mod_cast this
    have hNle : N ≤ n := by
      rw [hnd]; exact Nat.le_mul_of_pos_right _ (Nat.pow_pos (by omega))
    have hlog : Nat.log2 n = Nat.log2 N + d := by rw [hnd]; exact log2_mul_pow N d (by omega)
    obtain ⟨u, hu, -, -⟩ := roundDyadic_exact s N 0 e hN (by omega) (by omega) (by omega)
    simp only [Nat.pow_zero, Nat.mul_one] at hu
    refine ⟨finite_of_decode hu, ?_⟩
    rw [val_of_decode hu]
    unfold fval
    push_cast
    rw [two_zpow_sub, two_zpow_add, zpow_natCast]
    simp only [zpow_zero]
    field_simp

/-- integers of magnitude below 2^53 convert exactly -/
theorem ofInt_val (i : ℤ) (h : i.natAbs < P53) : Finite (ofInt i) ∧ val (ofInt i) = (i : ℚ) := by
  by_cases hi : i = 0
  · subst hi
    have : ofInt 0 = zero false := by unfold ofInt; simp
    rw [this]; exact ⟨finite_zero _, by simp [val_zero]⟩
  · unfold ofInt
    rw [if_neg hi]
    have hr : Representable ((i.natAbs : ℚ) * 2 ^ (0 : ℤ)) := by
      apply (representable_int i h).of_abs_eq
      rw [zpow_zero, mul_one, Nat.cast_natAbs, Int.cast_abs, abs_abs]
    obtain ⟨hf, hv⟩ := roundDyadic_val (decide (i < 0)) i.natAbs 0 (by omega) hr
    refine ⟨hf, ?_⟩
    rw [hv, zpow_zero, mul_one, Nat.cast_natAbs, Int.cast_abs]
    unfold sgn
    by_cases hneg : i < 0
    · simp only [hneg, decide_true, ↓reduceIte]
      rw [abs_of_neg (by exact_mod_cast hneg)]; ring
    · simp only [hneg, decide_false, Bool.false_eq_true, ↓reduceIte]
      rw [abs_of_nonneg (by exact_mod_cast (not_lt.mp hneg))]; ring

/-! ### exact addition, subtraction, comparison -/

theorem numAt_val (s : Bool) (m : ℕ) (ex e : ℤ) (h : e ≤ ex) :
    ((numAt s m ex e : ℤ) : ℚ) * 2 ^ e = fval s m ex := by
  unfold numAt fval sgn
  have h2 : (2 : ℚ) ^ (ex - e).toNat * 2 ^ e = 2 ^ ex := by
    rw [two_zpow_toNat _ (by omega), ← two_zpow_add]; congr 1; omega
  cases s
  · simp only [Bool.false_eq_true, ↓reduceIte]; push_cast; rw [mul_assoc, h2]; ring
  · simp only [↓reduceIte]; push_cast; rw [neg_mul, mul_assoc, h2]; ring

theorem sgn_natAbs (i : ℤ) : sgn (decide (i < 0)) * ((i.natAbs : ℕ) : ℚ) = (i : ℚ) := by
  rw [Nat.cast_natAbs, Int.cast_abs]
  unfold sgn
  by_cases hneg : i < 0
  · simp only [hneg, decide_true, ↓reduceIte]
    rw [abs_of_neg (by exact_mod_cast hneg)]; ring
  · simp only [hneg, decide_false, Bool.false_eq_true, ↓reduceIte]
    rw [abs_of_nonneg (by exact_mod_cast (not_lt.mp hneg))]; ring

/-- **Floating-point addition is exact when the exact sum is representable.** -/
theorem add_val {x y : F64} (hx : Finite x) (hy : Finite y) (hr : Representable (val x + val y)) :
    Finite (add x y) ∧ val (add x y) = val x + val y := by
  obtain ⟨a, m1, e1, hdx, -⟩ := decode_finite hx
  obtain ⟨b, m2, e2, hdy, -⟩ := decode_finite hy
  have hsum : ((numAt a m1 e1 (min e1 e2) + numAt b m2 e2 (min e1 e2) : ℤ) : ℚ) * 2 ^ (min e1 e2)
      = val x + val y := by
    push_cast
    rw [add_mul, numAt_val _ _ _ _ (min_le_left _ _), numAt_val _ _ _ _ (min_le_right _ _),
      val_of_decode hdx, val_of_decode hdy]
  unfold add
  rw [hdx, hdy]
  simp only []
  generalize numAt a m1 e1 (min e1 e2) + numAt b m2 e2 (min e1 e2) = S at *
  by_cases hS : S = 0
  · rw [if_pos hS]
    subst hS
    refine ⟨finite_zero _, ?_⟩
    rw [val_zero, ← hsum]; simp
  · rw [if_neg hS]
    have habs : |(S.natAbs : ℚ) * 2 ^ (min e1 e2)| = |val x + val y| := by
      rw [← hsum, abs_mul, abs_mul, Nat.cast_natAbs, Int.cast_abs, abs_abs]
    obtain ⟨hf, hv⟩ := roundDyadic_val (decide (S < 0)) S.natAbs (min e1 e2) (by omega) (hr.of_abs_eq habs)
    exact ⟨hf, by rw [hv, sgn_natAbs, hsum]⟩

/-- **Floating-point subtraction is exact when the exact difference is representable.** -/
theorem sub_val {x y : F64} (hx : Finite x) (hy : Finite y) (hr : Representable (val x - val y)) :
    Finite (sub x y) ∧ val (sub x y) = val x - val y := by
  unfold sub
  have := add_val hx (finite_neg hy) (by rw [val_neg hy, ← sub_eq_add_neg]; exact hr)
  rw [val_neg hy, ← sub_eq_add_neg] at this
  exact this

theorem cmpFin_val (a : Bool) (m1 : ℕ) (e1 : ℤ) (b : Bool) (m2 : ℕ) (e2 : ℤ) :
    ((cmpFin a m1 e1 b m2 e2 : ℤ) : ℚ) * 2 ^ (min e1 e2) = fval a m1 e1 - fval b m2 e2 := by
  unfold cmpFin
  simp only []
  push_cast
  rw [sub_mul, numAt_val _ _ _ _ (min_le_left _ _), numAt_val _ _ _ _ (min_le_right _ _)]

/-- `==` on finite doubles is equality of exact values -/
theorem eq_iff_val {x y : F64} (hx : Finite x) (hy : Finite y) : eq x y = true ↔ val x = val y := by
  obtain ⟨a, m1, e1, hdx, -⟩ := decode_finite hx
  obtain ⟨b, m2, e2, hdy, -⟩ := decode_finite hy
  have hc := cmpFin_val a m1 e1 b m2 e2
  have h2 := two_zpow_pos (min e1 e2)
  unfold eq
  rw [hdx, hdy, val_of_decode hdx, val_of_decode hdy]
  simp only [decide_eq_true_eq]
  constructor
  · intro h; rw [h] at hc; simp at hc; linarith
  · intro h
    rw [h, sub_self] at hc
    have : ((cmpFin a m1 e1 b m2 e2 : ℤ) : ℚ) = 0 := by
      rcases mul_eq_zero.mp hc with h' | h'
      · exact h'
      · exact absurd h' (ne_of_gt h2)
    exact_mod_cast this

/-- `<` on finite doubles is `<` of exact values -/
theorem lt_iff_val {x y : F64} (hx : Finite x) (hy : Finite y) : lt x y = true ↔ val x < val y := by
  obtain ⟨a, m1, e1, hdx, -⟩ := decode_finite hx
  obtain ⟨b, m2, e2, hdy, -⟩ := decode_finite hy
  have hc := cmpFin_val a m1 e1 b m2 e2
  have h2 := two_zpow_pos (min e1 e2)
  unfold lt
  rw [hdx, hdy, val_of_decode hdx, val_of_decode hdy]
  simp only [decide_eq_true_eq]
  constructor
  · intro h
    have : ((cmpFin a m1 e1 b m2 e2 : ℤ) : ℚ) < 0 := by exact_mod_cast h
    have := mul_neg_of_neg_of_pos this h2
    linarith
  · intro h
    have h3 : ((cmpFin a m1 e1 b m2 e2 : ℤ) : ℚ) * 2 ^ (min e1 e2) < 0 := by rw [hc]; linarith
    have : ((cmpFin a m1 e1 b m2 e2 : ℤ) : ℚ) < 0 := by
      by_contra hn
      have := mul_nonneg (not_lt.mp hn) (le_of_lt h2)
      linarith
    exact_mod_cast this

theorem le_iff_val {x y : F64} (hx : Finite x) (hy : Finite y) : le x y = true ↔ val x ≤ val y := by
  unfold le
  rw [Bool.or_eq_true, lt_iff_val hx hy, eq_iff_val hx hy, le_iff_lt_or_eq]

/-! ### the integer-part functions -/

/-- value of a double of magnitude below 2^52 as a fraction with denominator `2^k` -/
theorem val_eq_snum_div {x : F64} {s m} {k : ℕ} (hd : decode x = .fin s m (-(k : ℤ))) :
    val x = ((snum s m : ℤ) : ℚ) / 2 ^ k := by
  rw [val_of_decode hd]
  unfold fval sgn snum
  rw [two_zpow_neg_nat]
  cases s <;> simp <;> ring

/-- `floor/ceil/trunc/round` on `±m/2^k`: when the integer `f neg m k` is below 2^53 in magnitude the result is
the double with exactly that value -/
theorem integral_val (f : Bool → Nat → Nat → Int) {x : F64} {s m} {k : ℕ} (hk : 0 < k)
    (hd : decode x = .fin s m (-(k : ℤ))) (hsmall : (f s m k).natAbs < P53) :
    Finite (integral f x) ∧ val (integral f x) = ((f s m k : ℤ) : ℚ) := by
  unfold integral
  rw [hd]
  simp only []
  rw [if_neg (by omega)]
  have hk' : (-(-(k : ℤ))).toNat = k := by omega
  rw [hk']
  by_cases h0 : f s m k = 0
  · rw [if_pos h0, h0]
    exact ⟨finite_zero _, by simp [val_zero]⟩
  · rw [if_neg h0]
    exact ofInt_val _ hsmall

/-! ### `Lt52` is `|x| < 2^52` -/

theorem lt52_iff_val {x : F64} (hf : Finite x) : Lt52 x ↔ |val x| < 2 ^ 52 := by
  constructor
  · intro h
    obtain ⟨s, m, k, hd, hm, hk1, hk2⟩ := decode_lt52 h
    rw [val_of_decode hd, abs_fval, two_zpow_neg_nat]
    have h1 : (m : ℚ) < 2 ^ 53 := by
      have : m < 2 ^ 53 := by rw [pow53]; exact hm
      exact_mod_cast this
    have h2 : (2 : ℚ) ^ 1 ≤ 2 ^ k := pow_le_pow_right₀ (by norm_num) hk1
    have h3 : (0 : ℚ) < 2 ^ k := by positivity
    rw [mul_one_div, div_lt_iff₀ h3]
    calc (m : ℚ) < 2 ^ 53 := h1
      _ = 2 ^ 52 * 2 ^ 1 := by norm_num
      _ ≤ 2 ^ 52 * 2 ^ k := by apply mul_le_mul_of_nonneg_left h2; positivity
  · intro h
    by_contra hn
    obtain ⟨s, m, e, hd, hm, -, he, -⟩ := decode_ge52 hf hn
    rw [val_of_decode hd, abs_fval] at h
    have h1 : (2 : ℚ) ^ 52 ≤ m := by
      have : 2 ^ 52 ≤ m := by rw [pow52]; exact hm
      exact_mod_cast this
    have h2 : (1 : ℚ) ≤ 2 ^ e := one_le_zpow₀ (by norm_num) he
    have : (2 : ℚ) ^ 52 * 1 ≤ m * 2 ^ e := mul_le_mul h1 h2 (by norm_num) (by positivity)
    linarith

end F64
end Ysgo
