import Ysgo.Lemmas.FuelSize
/-!
# Fuel: what `exec` can ask the control part to do, and how one iteration of `Next` changes the measure
-/
namespace Ysgo.Fuel
open Ysgo
set_option linter.unusedSimpArgs false

/-! ### size lemmas -/

theorem stmtSize_pos (s : Stmt) : 1 ≤ stmtSize s := by
  cases s <;> simp [stmtSize] <;> omega

theorem ifsSize_mem {cs : List (Expr × List Stmt)} {cb : Expr × List Stmt} (h : cb ∈ cs) :
    1 + bodySize cb.2 ≤ ifsSize cs := by
  induction cs with
  | nil => cases h
  | cons c cs ih =>
    simp only [ifsSize]
    rcases List.mem_cons.1 h with h | h
    · subst h; omega
    · have := ih h; omega

theorem optsSize_mem {os : List (LineSpec × List Stmt)} {ob : LineSpec × List Stmt} (h : ob ∈ os) :
    1 + bodySize ob.2 ≤ optsSize os := by
  induction os with
  | nil => cases h
  | cons o os ih =>
    simp only [optsSize]
    rcases List.mem_cons.1 h with h | h
    · subst h; omega
    · have := ih h; omega

theorem bodiesSize_mem {bs : List (List Stmt)} {b : List Stmt} (h : b ∈ bs) : 1 + bodySize b ≤ bodiesSize bs := by
  induction bs with
  | nil => cases h
  | cons o os ih =>
    simp only [bodiesSize]
    rcases List.mem_cons.1 h with h | h
    · subst h; omega
    · have := ih h; omega

theorem bodiesSize_map (os : List (LineSpec × List Stmt)) : bodiesSize (os.map (·.2)) = optsSize os := by
  induction os with
  | nil => rfl
  | cons o os ih => simp only [List.map_cons, bodiesSize, optsSize, ih]

theorem bodySize_mem {l : List Stmt} {s : Stmt} (h : s ∈ l) : stmtSize s ≤ bodySize l := by
  induction l with
  | nil => cases h
  | cons a l ih =>
    simp only [bodySize]
    rcases List.mem_cons.1 h with h | h
    · subst h; omega
    · have := ih h; omega

theorem bodySize_drop_le (l : List Stmt) (i : Nat) : bodySize (l.drop i) ≤ bodySize l := by
  induction l generalizing i with
  | nil => simp [bodySize]
  | cons a l ih =>
    cases i with
    | zero => simp
    | succ i => simp only [List.drop_succ_cons, bodySize]; have := ih i; omega

theorem maxNode_mem {p : Program} {n : Node} (h : n ∈ p) : 1 + bodySize n.body ≤ maxNode p := by
  induction p with
  | nil => cases h
  | cons a p ih =>
    simp only [maxNode]
    rcases List.mem_cons.1 h with h | h
    · subst h; exact Nat.le_max_left _ _
    · exact Nat.le_trans (ih h) (Nat.le_max_right _ _)

/-! ### the predicate -/

theorem Productive.of_mem {p : Program} (h : Productive p = true) {n : Node} (hn : n ∈ p) : startsYielding n.body = true := by
  unfold Productive at h
  rw [List.all_eq_true] at h
  exact h n hn

theorem productive_of_nodesStartWithLine {p : Program} (h : NodesStartWithLine p) : Productive p = true := by
  unfold Productive
  rw [List.all_eq_true]
  intro n hn
  obtain ⟨l, rest, hb⟩ := h n hn
  rw [hb]
  rfl

theorem find_mem {p : Program} {t : String} {n : Node} (h : p.find t = some n) : n ∈ p :=
  List.mem_of_find?_eq_some h

/-! ### the control request of `exec` -/
section
variable {σ π μ : Type}

theorem firstTrue_mem (env : Env σ) (st : Store) (vis : Map Nat) :
    ∀ (cs : List (Expr × List Stmt)) (w w' : W σ) (b : List Stmt),
      firstTrue env st vis cs w = (.ok (some b), w') → ∃ c, (c, b) ∈ cs
  | [], w, w', b, h => by simp [firstTrue] at h
  | (c, b0) :: cs, w, w', b, h => by
    unfold firstTrue at h
    split at h
    · simp only [Prod.mk.injEq, Outcome.ok.injEq, Option.some.injEq] at h
      exact ⟨c, by rw [← h.1]; exact List.mem_cons_self⟩
    · obtain ⟨c', hc'⟩ := firstTrue_mem env st vis cs _ w' b h
      exact ⟨c', List.mem_cons_of_mem _ hc'⟩
    · simp at h
    · simp at h
    · simp at h

/-- the admissible control requests of a statement `st` of a program `p` -/
inductive CtlOf (p : Program) (st : Stmt) : Ctl → Bool → Prop
  | next (o : Bool) : CtlOf p st .next o
  | halt : CtlOf p st .halt true
  | push (cs : List (Expr × List Stmt)) (c : Expr) (b : List Stmt) (hst : st = .ifs cs) (hm : (c, b) ∈ cs) :
      CtlOf p st (.push b) false
  | goto (n : Node) (hn : n ∈ p) : CtlOf p st (.goto n.body) false

/-- `exec` asks for: nothing; a halt (only together with the output `ended`); the push of a clause body of the `if`
just executed (silently); the replacement of the stack by the body of a node of the program (silently) -/
theorem exec_ctl (env : Env σ) (mk : Markup π μ) (p : Program) (d d' : Data σ π) (st : Stmt) (ctl : Ctl)
    (out : Option (Outcome (Elem μ))) (h : exec env mk p d st = (d', ctl, out)) : CtlOf p st ctl out.isSome := by
  cases st with
  | line l =>
    simp only [exec] at h
    split at h <;> (simp only [Prod.mk.injEq] at h; rw [← h.2.1]; exact .next _)
  | opts os =>
    simp only [exec] at h
    split at h <;> (simp only [Prod.mk.injEq] at h; rw [← h.2.1]; exact .next _)
  | set v op e =>
    simp only [exec] at h
    split at h
    · split at h <;> (simp only [Prod.mk.injEq] at h; rw [← h.2.1]; exact .next _)
    · simp only [Prod.mk.injEq] at h; rw [← h.2.1]; exact .next _
    · simp only [Prod.mk.injEq] at h; rw [← h.2.1]; exact .next _
  | jump e =>
    simp only [exec] at h
    split at h
    · split at h
      · rename_i n hf
        simp only [Prod.mk.injEq] at h
        rw [← h.2.1, ← h.2.2]
        exact .goto n (find_mem hf)
      · simp only [Prod.mk.injEq] at h; rw [← h.2.1]; exact .next _
    · simp only [Prod.mk.injEq] at h; rw [← h.2.1]; exact .next _
    · simp only [Prod.mk.injEq] at h; rw [← h.2.1]; exact .next _
    · simp only [Prod.mk.injEq] at h; rw [← h.2.1]; exact .next _
  | ifs cs =>
    simp only [exec] at h
    split at h
    · rename_i b w hft
      obtain ⟨c, hc⟩ := firstTrue_mem env _ _ cs _ _ b hft
      simp only [Prod.mk.injEq] at h
      rw [← h.2.1, ← h.2.2]
      exact .push cs c b rfl hc
    · simp only [Prod.mk.injEq] at h; rw [← h.2.1]; exact .next _
    · simp only [Prod.mk.injEq] at h; rw [← h.2.1]; exact .next _
    · simp only [Prod.mk.injEq] at h; rw [← h.2.1]; exact .next _
  | cmd elems =>
    simp only [exec] at h
    split at h
    · simp only [Prod.mk.injEq] at h; rw [← h.2.1]; exact .next _
    · split at h
      · split at h
        · simp only [Prod.mk.injEq] at h; rw [← h.2.1, ← h.2.2]; exact .halt
        · split at h <;> (simp only [Prod.mk.injEq] at h; rw [← h.2.1]; exact .next _)
      · simp only [Prod.mk.injEq] at h; rw [← h.2.1]; exact .next _
      · simp only [Prod.mk.injEq] at h; rw [← h.2.1]; exact .next _
      · simp only [Prod.mk.injEq] at h; rw [← h.2.1]; exact .next _
  | call f args =>
    simp only [exec] at h
    split at h
    · split at h <;> (simp only [Prod.mk.injEq] at h; rw [← h.2.1]; exact .next _)
    · simp only [Prod.mk.injEq] at h; rw [← h.2.1]; exact .next _
    · simp only [Prod.mk.injEq] at h; rw [← h.2.1]; exact .next _
  | empty =>
    simp only [exec, Prod.mk.injEq] at h; rw [← h.2.1]; exact .next _

/-- a yielding statement (line, option group) always produces an output -/
theorem exec_yields (env : Env σ) (mk : Markup π μ) (p : Program) (d : Data σ π) (st : Stmt) (hy : yields st = true) :
    (exec env mk p d st).2.2 ≠ none := by
  cases st with
  | line l => simp only [exec]; split <;> simp
  | opts os => simp only [exec]; split <;> simp
  | _ => simp [yields] at hy

end
end Ysgo.Fuel
