import Ysgo.Model.Indent
/-!
# The NEWLINE scanner and line-end styles (C08.3)

A text is a first line followed by lines, each written as `<line break><indentation><content>`. Whatever the line
break style (`\n`, `\r\n`, `\r` — the three alternatives of the rule `NEWLINE`), `Indent.scan` reads the same
`LineInfo`s off the text: the one computed from the indentation and the content alone.
-/
namespace Ysgo.Indent

inductive Eol where
  | lf | crlf | cr
deriving DecidableEq, Repr

def Eol.chars : Eol → List Char
  | .lf => ['\n']
  | .crlf => ['\r', '\n']
  | .cr => ['\r']

/-- a line as written: indentation (spaces and tabs) and the rest (no line break, not starting with a blank) -/
structure SrcLine where
  indent : List Char
  content : List Char
deriving Repr

structure SrcLine.Ok (l : SrcLine) : Prop where
  indent_blank : ∀ c ∈ l.indent, isBlank c = true
  content_nobreak : ∀ c ∈ l.content, c ≠ '\r' ∧ c ≠ '\n'
  content_head : ∀ c r, l.content = c :: r → isBlank c = false

/-- what the indentation logic reads for the line: independent of the line-break style -/
def SrcLine.info (l : SrcLine) : LineInfo := infoOf l.indent l.content

def renderLines (e : Eol) : List SrcLine → List Char
  | [] => []
  | l :: ls => e.chars ++ l.indent ++ l.content ++ renderLines e ls

/-- the text: the first line (no line break in front of it) and the following lines -/
def render (e : Eol) (first : List Char) (ls : List SrcLine) : List Char := first ++ renderLines e ls

/-! ### scanner steps -/

theorem scanGo_skip (a X : List Char) (h : ∀ c ∈ a, c ≠ '\r' ∧ c ≠ '\n') :
    scanGo none (a ++ X) = scanGo none X := by
  induction a with
  | nil => rfl
  | cons c a ih =>
    have hc := h c (by simp)
    simp only [List.cons_append, scanGo, scanStart, hc.1, hc.2, ↓reduceIte]
    exact ih (fun c hc' => h c (by simp [hc']))

theorem isBlank_ne_nl {c : Char} (h : isBlank c = true) : c ≠ '\n' := by
  intro e; subst e; simp [isBlank] at h

theorem scanGo_flag (t Z : List Char) (h : ∀ c r, Z = c :: r → c ≠ '\n') :
    scanGo (some (t, true)) Z = scanGo (some (t, false)) Z := by
  cases Z with
  | nil => rfl
  | cons c cs => simp [scanGo, h c cs rfl]

theorem scanGo_blanks (ws Z : List Char) (h : ∀ c ∈ ws, isBlank c = true) : ∀ t : List Char,
    scanGo (some (t, false)) (ws ++ Z) = scanGo (some (t ++ ws, false)) Z := by
  induction ws with
  | nil => intro t; simp
  | cons c ws ih =>
    intro t
    have hc := h c (by simp)
    simp only [List.cons_append, scanGo, Bool.false_and, Bool.false_eq_true, ↓reduceIte, hc]
    rw [ih (fun c hc' => h c (by simp [hc']))]
    simp

theorem scanGo_emit (t Z : List Char) (h : ∀ c r, Z = c :: r → isBlank c = false) :
    scanGo (some (t, false)) Z = infoOf t Z :: scanGo none Z := by
  cases Z with
  | nil => rfl
  | cons c cs => simp [scanGo, h c cs rfl]

/-! ### the `LineInfo` does not depend on the line break characters nor on what follows the line -/

theorem newlineWidthAux_skip (a : List Char) (h : ∀ c ∈ a, c ≠ ' ' ∧ c ≠ '\t') (b : List Char) :
    ∀ n s t, newlineWidthAux n s t (a ++ b) = newlineWidthAux n s t b := by
  induction a with
  | nil => intros; rfl
  | cons c a ih =>
    intro n s t
    have hc := h c (by simp)
    simp only [List.cons_append, newlineWidthAux, hc.1, hc.2, ↓reduceIte]
    exact ih (fun c hc' => h c (by simp [hc'])) n s t

theorem newlineWidth_eol (e : Eol) (ws : List Char) : newlineWidth (e.chars ++ ws) = newlineWidth ws := by
  unfold newlineWidth
  apply newlineWidthAux_skip
  cases e <;> simp [Eol.chars]

/-- `R` is empty or starts with a line break character -/
def StartsWithBreak (R : List Char) : Prop := R = [] ∨ ∃ c r, R = c :: r ∧ (c = '\r' ∨ c = '\n')

theorem nextLine_append (content R : List Char) (hc : ∀ c ∈ content, c ≠ '\r' ∧ c ≠ '\n')
    (hR : StartsWithBreak R) :
    nextLineIsBlankOrComment (content ++ R) = nextLineIsBlankOrComment content := by
  match content, hc with
  | [], _ =>
    rcases hR with rfl | ⟨c, r, rfl, rfl | rfl⟩ <;> simp [nextLineIsBlankOrComment]
  | [c], hc =>
    have h1 := hc c (by simp)
    rcases hR with rfl | ⟨d, r, rfl, rfl | rfl⟩
    · simp
    · by_cases hs : c = '/'
      · subst hs; simp [nextLineIsBlankOrComment]
      · simp only [List.cons_append, List.nil_append]
        rw [nextLineIsBlankOrComment.eq_def, nextLineIsBlankOrComment.eq_def]
        split <;> simp_all
    · by_cases hs : c = '/'
      · subst hs; simp [nextLineIsBlankOrComment]
      · simp only [List.cons_append, List.nil_append]
        rw [nextLineIsBlankOrComment.eq_def, nextLineIsBlankOrComment.eq_def]
        split <;> simp_all
  | c :: d :: rest, _ =>
    simp only [List.cons_append]
    rw [nextLineIsBlankOrComment.eq_def, nextLineIsBlankOrComment.eq_def]
    split <;> simp_all

theorem infoOf_line (e : Eol) (l : SrcLine) (hl : l.Ok) (R : List Char) (hR : StartsWithBreak R) :
    infoOf (e.chars ++ l.indent) (l.content ++ R) = l.info := by
  simp only [infoOf, SrcLine.info, newlineWidth_eol, nextLine_append _ _ hl.content_nobreak hR]

theorem renderLines_startsWithBreak (e : Eol) (ls : List SrcLine) : StartsWithBreak (renderLines e ls) := by
  cases ls with
  | nil => exact .inl rfl
  | cons l ls => cases e <;> simp [renderLines, Eol.chars, StartsWithBreak]

theorem renderLines_cr_head (ls : List SrcLine) : ∀ c r, renderLines .cr ls = c :: r → c ≠ '\n' := by
  intro c r h
  cases ls with
  | nil => simp [renderLines] at h
  | cons l ls =>
    simp only [renderLines, Eol.chars, List.cons_append, List.nil_append, List.cons.injEq] at h
    rw [← h.1]; decide

theorem head_not_blank_of_break {R : List Char} (hR : StartsWithBreak R) :
    ∀ c r, R = c :: r → isBlank c = false := by
  intro c r h
  rcases hR with rfl | ⟨d, r', rfl, rfl | rfl⟩
  · simp at h
  · simp only [List.cons.injEq] at h; rw [← h.1]; decide
  · simp only [List.cons.injEq] at h; rw [← h.1]; decide

/-- after the line break characters the scanner is inside the NEWLINE token -/
theorem scanGo_eol (e : Eol) (Y : List Char) (hY : e = .cr → ∀ c r, Y = c :: r → c ≠ '\n') :
    scanGo none (e.chars ++ Y) = scanGo (some (e.chars, false)) Y := by
  cases e with
  | lf => simp [Eol.chars, scanGo, scanStart]
  | crlf => simp [Eol.chars, scanGo, scanStart]
  | cr =>
    simp only [Eol.chars, List.cons_append, List.nil_append, scanGo, scanStart]
    simp only [show ¬ ('\r' = '\n') by decide, ↓reduceIte]
    exact scanGo_flag _ _ (hY rfl)

theorem scan_render_aux (e : Eol) (ls : List SrcLine) (hok : ∀ l ∈ ls, l.Ok) :
    ∀ pre : List Char, (∀ c ∈ pre, c ≠ '\r' ∧ c ≠ '\n') →
      scanGo none (pre ++ renderLines e ls) = ls.map SrcLine.info := by
  induction ls with
  | nil => intro pre hpre; simpa [renderLines, scanGo] using scanGo_skip pre [] hpre
  | cons l ls ih =>
    intro pre hpre
    have hl := hok l (by simp)
    have hR := renderLines_startsWithBreak e ls
    rw [scanGo_skip pre _ hpre]
    simp only [renderLines, List.append_assoc]
    -- the line break
    have hY : e = .cr → ∀ c r, l.indent ++ (l.content ++ renderLines e ls) = c :: r → c ≠ '\n' := by
      intro he c r h
      subst he
      match hi : l.indent, h with
      | ci :: ri, h =>
        simp only [List.cons_append, List.cons.injEq] at h
        rw [← h.1]
        exact isBlank_ne_nl (hl.indent_blank ci (by simp [hi]))
      | [], h =>
        simp only [List.nil_append] at h
        match hc : l.content, h with
        | cc :: rc, h =>
          simp only [List.cons_append, List.cons.injEq] at h
          rw [← h.1]
          exact (hl.content_nobreak cc (by simp [hc])).2
        | [], h =>
          simp only [List.nil_append] at h
          exact renderLines_cr_head ls c r h
    rw [scanGo_eol e _ hY, scanGo_blanks _ _ hl.indent_blank]
    -- the end of the NEWLINE token
    have hZ : ∀ c r, l.content ++ renderLines e ls = c :: r → isBlank c = false := by
      intro c r h
      match hc : l.content, h with
      | cc :: rc, h =>
        simp only [List.cons_append, List.cons.injEq] at h
        rw [← h.1]
        exact hl.content_head cc rc hc
      | [], h =>
        simp only [List.nil_append] at h
        exact head_not_blank_of_break hR c r h
    rw [scanGo_emit _ _ hZ, infoOf_line e l hl _ hR,
      ih (fun l hl' => hok l (by simp [hl'])) l.content hl.content_nobreak]
    simp

theorem scan_render (e : Eol) (first : List Char) (ls : List SrcLine)
    (hfirst : ∀ c ∈ first, c ≠ '\r' ∧ c ≠ '\n') (hok : ∀ l ∈ ls, l.Ok) :
    scan (render e first ls) = ls.map SrcLine.info :=
  scan_render_aux e ls hok first hfirst

end Ysgo.Indent
