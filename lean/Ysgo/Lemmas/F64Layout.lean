import Ysgo.Lemmas.F64RoundBack
/-!
# F64 lemma library, part 18: the layouts of `fmtG` are read back by `parseFloat` as the decimal `shortest` chose

`fmtG` lays the digits `d` (an `nd`-digit number) and the decimal exponent `k` found by `shortest` out in one of three
forms — `d.ddde±XX`, `0.000ddd`, `ddd.ddd` / `ddd000` — after stripping trailing zeros. `parseFloat_fmtG_layout`:
`parseFloat` reads each of them as a mantissa `mant > 0` and a decimal exponent `e10` with
`mant · 10^e10 = d · 10^(k-(nd-1))`, and returns the correctly rounded double of that decimal (`decRound`).
-/
namespace Ysgo
namespace F64

/-! ### lists of digits -/

theorem tw_stop (l rest : List Char) (hl : ∀ x ∈ l, isDigitC x = true)
    (hr : rest = [] ∨ ∃ c t, rest = c :: t ∧ isDigitC c = false) :
    (l ++ rest).takeWhile isDigitC = l ∧ (l ++ rest).dropWhile isDigitC = rest := by
  induction l with
  | nil =>
    rcases hr with rfl | ⟨c, t, rfl, hc⟩
    · exact ⟨rfl, rfl⟩
    · simp [hc]
  | cons a l ih =>
    obtain ⟨i1, i2⟩ := ih (fun x hx => hl x (by simp [hx]))
    have ha := hl a (by simp)
    rw [List.cons_append, List.takeWhile_cons, List.dropWhile_cons, if_pos ha, if_pos ha, i1, i2]
    exact ⟨rfl, rfl⟩

theorem digitsVal_nil : digitsVal [] = 0 := rfl

theorem digitsVal_snoc (l : List Char) (c : Char) : digitsVal (l ++ [c]) = digitsVal l * 10 + (c.toNat - 48) := by
  unfold digitsVal
  rw [List.foldl_append]
  rfl

theorem digitsVal_cons_zero (l : List Char) : digitsVal ('0' :: l) = digitsVal l := by
  unfold digitsVal
  rw [List.foldl_cons]
  rfl

theorem digitsVal_append_zeros (l : List Char) (z : ℕ) :
    digitsVal (l ++ List.replicate z '0') = digitsVal l * 10 ^ z := by
  induction z with
  | zero => simp
  | succ z ih =>
    rw [List.replicate_succ', ← List.append_assoc, digitsVal_snoc, ih, Nat.pow_succ]
    have : '0'.toNat - 48 = 0 := by decide
    rw [this, Nat.add_zero, Nat.mul_assoc]

theorem digitsVal_zeros_append (z : ℕ) (l : List Char) : digitsVal (List.replicate z '0' ++ l) = digitsVal l := by
  induction z with
  | zero => simp
  | succ z ih => rw [List.replicate_succ, List.cons_append, digitsVal_cons_zero, ih]

theorem takeWhile_zero_replicate (r : List Char) :
    ∃ z, r.takeWhile (fun c => decide (c = '0')) = List.replicate z '0' := by
  induction r with
  | nil => exact ⟨0, rfl⟩
  | cons a r ih =>
    obtain ⟨z, hz⟩ := ih
    rw [List.takeWhile_cons]
    by_cases ha : a = '0'
    · subst ha
      exact ⟨z + 1, by simp [hz, List.replicate_succ]⟩
    · exact ⟨0, by simp [ha]⟩

/-- `stripZeros` removes a block of trailing zeros -/
theorem stripZeros_spec (l : List Char) : ∃ z, l = stripZeros l ++ List.replicate z '0' := by
  obtain ⟨z, hz⟩ := takeWhile_zero_replicate l.reverse
  refine ⟨z, ?_⟩
  have h := List.takeWhile_append_dropWhile (p := fun c => decide (c = '0')) (l := l.reverse)
  have h2 := congrArg List.reverse h
  rw [List.reverse_append, List.reverse_reverse, hz, List.reverse_replicate] at h2
  exact h2.symm

theorem stripZeros_subset (l : List Char) : ∀ c ∈ stripZeros l, c ∈ l := by
  obtain ⟨z, hz⟩ := stripZeros_spec l
  intro c hc
  rw [hz]
  exact List.mem_append_left _ hc

theorem toDigits_digits (n : ℕ) : ∀ c ∈ Nat.toDigits 10 n, isDigitC c = true := by
  intro c hc
  rw [isDigitC_eq]
  exact Nat.isDigit_of_mem_toDigits (by decide) (by decide) hc

/-- a number with exactly `nd` digits -/
theorem toDigits_length (d nd : ℕ) (hnd : 1 ≤ nd) (h1 : 10 ^ (nd - 1) ≤ d) (h2 : d < 10 ^ nd) :
    (Nat.toDigits 10 d).length = nd := by
  have a : (Nat.toDigits 10 d).length ≤ nd := (Nat.length_toDigits_le_iff (by decide) (by omega)).mpr h2
  by_cases h : nd = 1
  · have := @Nat.length_toDigits_pos 10 d
    omega
  · have b : ¬ ((Nat.toDigits 10 d).length ≤ nd - 1) := by
      rw [Nat.length_toDigits_le_iff (by decide) (by omega)]
      omega
    omega

/-! ### `parseFloat.go`, restated with named parts -/

/-- the correctly rounded double of `±mant·10^e10` -/
def decRound (neg : Bool) (mant : ℕ) (e10 : ℤ) : F64 :=
  if e10 ≥ 0 then roundDyadic neg (mant * 10 ^ e10.toNat) 0 else roundQuot neg mant (10 ^ (-e10).toNat)

/-- what `parseFloat.go` does once mantissa `mant`, decimal exponent `e10` and digit count `nd` are known -/
def parseTail (neg : Bool) (mant : ℕ) (e10 nd : ℤ) : ParseRes :=
  if mant = 0 then .val (zero neg)
  else if e10 + nd > 400 then .err
  else if e10 + nd < -400 then .val (zero neg)
  else match decode (decRound neg mant e10) with
    | .inf _ => .err
    | _ => .val (decRound neg mant e10)

def dotSplit (r1 : List Char) : List Char × List Char × Bool := match r1 with
  | '.' :: t => (t.takeWhile isDigitC, t.dropWhile isDigitC, true)
  | t => ([], t, false)

def expSign (t : List Char) : Bool × List Char :=
  match t with | '+' :: t => (false, t) | '-' :: t => (true, t) | t => (false, t)

def expPartOf (r2 : List Char) : Option Int := match r2 with
  | [] => some 0
  | c :: t =>
    if lowerAscii c = 'e' then
      if (expSign t).2.isEmpty ∨ !((expSign t).2.all isDigitC) then none
      else
        let ev : Nat := if (expSign t).2.length > 6 then 1000000 else digitsVal (expSign t).2
        some (if (expSign t).1 then -(ev : Int) else ev)
    else none

/-- `parseFloat.go` with its local definitions named -/
def goSpec (neg : Bool) (r : List Char) : ParseRes :=
  let ip := r.takeWhile isDigitC
  let p := dotSplit (r.dropWhile isDigitC)
  if ip.isEmpty ∧ p.1.isEmpty then .err else
  match expPartOf p.2.1 with
  | none => .err
  | some ex => parseTail neg (digitsVal (ip ++ p.1)) (ex - p.1.length) ((ip ++ p.1).length)

theorem go_eq_spec (neg : Bool) (r : List Char) : parseFloat.go neg r = goSpec neg r := by
  rfl

theorem dotSplit_e (t : List Char) : dotSplit ('e' :: t) = ([], 'e' :: t, false) := rfl
theorem dotSplit_nil : dotSplit [] = ([], [], false) := rfl
theorem dotSplit_dot (t : List Char) :
    dotSplit ('.' :: t) = (t.takeWhile isDigitC, t.dropWhile isDigitC, true) := rfl
theorem expSign_plus (t : List Char) : expSign ('+' :: t) = (false, t) := rfl
theorem expSign_minus (t : List Char) : expSign ('-' :: t) = (true, t) := rfl
theorem expPartOf_nil : expPartOf [] = some 0 := rfl

theorem isDigitC_dot' : isDigitC '.' = false := by decide
theorem isDigitC_e : isDigitC 'e' = false := by decide

/-- a digit string followed by nothing or a non-digit: integer part `ip`, then what `dotSplit` and `expPartOf` find -/
theorem go_of_parts (neg : Bool) (ip rest fp r2 : List Char) (b : Bool) (ex : ℤ)
    (hip : ∀ c ∈ ip, isDigitC c = true) (hne : ip ≠ [])
    (hrest : rest = [] ∨ ∃ c t, rest = c :: t ∧ isDigitC c = false)
    (hdot : dotSplit rest = (fp, r2, b)) (hex : expPartOf r2 = some ex) :
    parseFloat.go neg (ip ++ rest) = parseTail neg (digitsVal (ip ++ fp)) (ex - fp.length) (ip ++ fp).length := by
  obtain ⟨h1, h2⟩ := tw_stop ip rest hip hrest
  rw [go_eq_spec]
  unfold goSpec
  simp only [h1, h2, hdot]
  rw [if_neg (fun h => hne (List.isEmpty_iff.mp h.1))]
  simp only [hex]

/-- the exponent part `e±dd` denoting `ex` -/
def ExpTail (et : List Char) (ex : ℤ) : Prop :=
  ∃ ed : List Char, ed ≠ [] ∧ (∀ c ∈ ed, isDigitC c = true) ∧ ed.length ≤ 6 ∧
    ((et = 'e' :: '+' :: ed ∧ ex = (digitsVal ed : ℤ)) ∨ (et = 'e' :: '-' :: ed ∧ ex = -(digitsVal ed : ℤ)))

theorem expPartOf_tail {et : List Char} {ex : ℤ} (h : ExpTail et ex) : expPartOf et = some ex := by
  obtain ⟨ed, hed, hdig, hlen, hc⟩ := h
  have hall : ed.all isDigitC = true := List.all_eq_true.mpr hdig
  have hemp : ed.isEmpty = false := by
    cases ed with
    | nil => exact absurd rfl hed
    | cons a t => rfl
  have hl6 : ¬ (ed.length > 6) := by omega
  have he : lowerAscii 'e' = 'e' := by decide
  rcases hc with ⟨rfl, rfl⟩ | ⟨rfl, rfl⟩
  · unfold expPartOf
    simp only [he, ↓reduceIte, expSign_plus, hemp, hall, hl6, Bool.not_true, Bool.false_eq_true, or_self]
  · unfold expPartOf
    simp only [he, ↓reduceIte, expSign_minus, hemp, hall, hl6, Bool.not_true, Bool.false_eq_true, or_self]

theorem expTail_head {et : List Char} {ex : ℤ} (h : ExpTail et ex) : ∃ t, et = 'e' :: t := by
  obtain ⟨ed, -, -, -, hc⟩ := h
  rcases hc with ⟨rfl, -⟩ | ⟨rfl, -⟩ <;> exact ⟨_, rfl⟩

/-- shape `ddd` -/
theorem go_int (neg : Bool) (ip : List Char) (hip : ∀ c ∈ ip, isDigitC c = true) (hne : ip ≠ []) :
    parseFloat.go neg ip = parseTail neg (digitsVal ip) 0 ip.length := by
  have := go_of_parts neg ip [] [] [] false 0 hip hne (Or.inl rfl) dotSplit_nil expPartOf_nil
  simpa using this

/-- shape `ddd.ddd` -/
theorem go_frac (neg : Bool) (ip fp : List Char) (hip : ∀ c ∈ ip, isDigitC c = true) (hne : ip ≠ [])
    (hfp : ∀ c ∈ fp, isDigitC c = true) :
    parseFloat.go neg (ip ++ '.' :: fp) = parseTail neg (digitsVal (ip ++ fp)) (0 - fp.length) (ip ++ fp).length := by
  obtain ⟨h3, h4⟩ := tw_stop fp [] hfp (Or.inl rfl)
  rw [List.append_nil] at h3 h4
  exact go_of_parts neg ip ('.' :: fp) fp [] true 0 hip hne (Or.inr ⟨_, _, rfl, isDigitC_dot'⟩)
    (by rw [dotSplit_dot, h3, h4]) expPartOf_nil

/-- shape `ddde±dd` -/
theorem go_int_exp (neg : Bool) (ip et : List Char) (ex : ℤ) (hip : ∀ c ∈ ip, isDigitC c = true) (hne : ip ≠ [])
    (het : ExpTail et ex) :
    parseFloat.go neg (ip ++ et) = parseTail neg (digitsVal ip) ex ip.length := by
  obtain ⟨t, rfl⟩ := expTail_head het
  have := go_of_parts neg ip ('e' :: t) [] ('e' :: t) false ex hip hne (Or.inr ⟨_, _, rfl, isDigitC_e⟩)
    (dotSplit_e t) (expPartOf_tail het)
  simpa using this

/-- shape `ddd.ddde±dd` -/
theorem go_frac_exp (neg : Bool) (ip fp et : List Char) (ex : ℤ) (hip : ∀ c ∈ ip, isDigitC c = true) (hne : ip ≠ [])
    (hfp : ∀ c ∈ fp, isDigitC c = true) (het : ExpTail et ex) :
    parseFloat.go neg (ip ++ '.' :: (fp ++ et)) =
      parseTail neg (digitsVal (ip ++ fp)) (ex - fp.length) (ip ++ fp).length := by
  obtain ⟨t, rfl⟩ := expTail_head het
  obtain ⟨h3, h4⟩ := tw_stop fp ('e' :: t) hfp (Or.inr ⟨_, _, rfl, isDigitC_e⟩)
  exact go_of_parts neg ip ('.' :: (fp ++ 'e' :: t)) fp ('e' :: t) true ex hip hne
    (Or.inr ⟨_, _, rfl, isDigitC_dot'⟩) (by rw [dotSplit_dot, h3, h4]) (expPartOf_tail het)

/-! ### from `parseFloat` to `parseFloat.go` -/

theorem ok_char {y : Char} (h : isDigitC y = true ∨ y = '.' ∨ y = 'e' ∨ y = '+' ∨ y = '-') :
    y ≠ '_' ∧ lowerAscii y ≠ 'x' := by
  rcases h with h | rfl | rfl | rfl | rfl
  · obtain ⟨-, -, g3, g4, -, -, g7⟩ := digit_facts h
    exact ⟨g3, by rw [g7]; exact g4⟩
  · decide
  · decide
  · decide
  · decide

/-- an optional `-`, a digit, and then only characters `parseFloat` does not treat specially: the digit loop -/
theorem parseFloat_body (sign : Bool) (c : Char) (t : List Char) (hc : isDigitC c = true)
    (ht : ∀ y ∈ t, y ≠ '_' ∧ lowerAscii y ≠ 'x') :
    parseFloat (String.ofList (if sign then '-' :: c :: t else c :: t)) = parseFloat.go sign (c :: t) := by
  obtain ⟨h1, h2, h3, h4, h5, h6, h7⟩ := digit_facts hc
  have hany : (c :: t).any (fun c => decide (c = '_')) = false := by
    rw [List.any_eq_false]
    intro x hx
    rcases List.mem_cons.mp hx with rfl | hx
    · simpa using h3
    · simpa using (ht x hx).1
  unfold parseFloat
  simp only [String.toList_ofList]
  cases sign
  · simp only [Bool.false_eq_true, ↓reduceIte]
    rw [if_neg (by rw [hany]; simp), parseSpecial_digits c t hc]
    simp only []
    split
    · rename_i x tail heq
      split at heq
      · rename_i h; cases h; exact absurd rfl h1
      · rename_i h; cases h; exact absurd rfl h2
      · simp only [] at heq
        cases heq
        rw [if_neg (ht x (by simp)).2]
    · split
      · rename_i h; cases h; exact absurd rfl h1
      · rename_i h; cases h; exact absurd rfl h2
      · rfl
  · simp only [↓reduceIte]
    have hany' : ('-' :: c :: t).any (fun c => decide (c = '_')) = false := by
      rw [List.any_cons, hany]; decide
    rw [if_neg (by rw [hany']; simp), parseSpecial_digits_neg c t hc]
    simp only []
    split
    · rename_i x tail heq
      cases heq
      rw [if_neg (ht x (by simp)).2]
    · rfl

theorem parseFloat_of_toList {str : String} {l : List Char} (h : str.toList = l) :
    parseFloat str = parseFloat (String.ofList l) := by
  rw [← h, String.ofList_toList]

/-! ### the characters `fmtG` prints -/

def mantChars (ds : List Char) : List Char :=
  match ds with | [a] => [a] | a :: r => a :: '.' :: r | [] => ['0']

def expChars (k : ℤ) : List Char :=
  'e' :: (if k < 0 then '-' else '+') :: ((if k.natAbs < 10 then ['0'] else []) ++ Nat.toDigits 10 k.natAbs)

def bodyChars (ds : List Char) (k : ℤ) : List Char :=
  if k < -4 ∨ k ≥ 6 then mantChars ds ++ expChars k
  else if k < 0 then '0' :: '.' :: (List.replicate (-k - 1).toNat '0' ++ ds)
  else if ds.length ≤ (k + 1).toNat then ds ++ List.replicate ((k + 1).toNat - ds.length) '0'
  else ds.take (k + 1).toNat ++ '.' :: ds.drop (k + 1).toNat

theorem fmtG_toList {x : F64} {s : Bool} {m : ℕ} {e : ℤ} {d nd : ℕ} {k : ℤ} (hdec : decode x = .fin s m e)
    (hm : m ≠ 0) (hsh : shortest x = some (d, nd, k)) (hne : stripZeros (Nat.toDigits 10 d) ≠ []) :
    (fmtG x).toList = (if s then ['-'] else []) ++ bodyChars (stripZeros (Nat.toDigits 10 d)) k := by
  unfold fmtG
  rw [hdec]
  simp only []
  rw [if_neg hm, hsh]
  simp only []
  have hemp : (stripZeros (Nat.toDigits 10 d)).isEmpty = false := by
    cases h : stripZeros (Nat.toDigits 10 d) with
    | nil => exact absurd h hne
    | cons a t => rfl
  simp only [hemp, Bool.false_eq_true, ↓reduceIte]
  generalize stripZeros (Nat.toDigits 10 d) = ds at *
  have t1 : ("e" : String).toList = ['e'] := rfl
  have t2 : ("-" : String).toList = ['-'] := rfl
  have t3 : ("+" : String).toList = ['+'] := rfl
  have t4 : ("0" : String).toList = ['0'] := rfl
  have t5 : ("0." : String).toList = ['0', '.'] := rfl
  have t6 : ("." : String).toList = ['.'] := rfl
  have t7 : ("" : String).toList = [] := rfl
  unfold bodyChars
  by_cases hE : k < -4 ∨ k ≥ 6
  · have hE' : (decide (k < -4) || decide (k ≥ 6)) = true := by simpa using hE
    rw [if_pos hE', if_pos hE]
    unfold mantChars expChars
    rcases ds with _ | ⟨a, _ | ⟨b, r⟩⟩
    · exact absurd rfl hne
    · simp only [String.toList_append, String.toList_ofList, Nat.toString_eq_ofList_toDigits,
        apply_ite String.toList, t1, t2, t3, t4, t7]
      simp
      split <;> rfl
    · simp only [String.toList_append, String.toList_ofList, Nat.toString_eq_ofList_toDigits,
        apply_ite String.toList, t1, t2, t3, t4, t7]
      simp
      split <;> rfl
  · have hE' : ¬ ((decide (k < -4) || decide (k ≥ 6)) = true) := by simpa using hE
    rw [if_neg hE', if_neg hE]
    by_cases hk : k < 0
    · rw [if_pos hk, if_pos hk]
      simp only [String.toList_append, String.toList_ofList, apply_ite String.toList, t2, t5, t7]
      simp
    · rw [if_neg hk, if_neg hk]
      by_cases hl : ds.length ≤ (k + 1).toNat
      · rw [if_pos hl, if_pos hl]
        simp only [String.toList_append, String.toList_ofList, apply_ite String.toList, t2, t7]
        rw [List.append_assoc]
      · rw [if_neg hl, if_neg hl]
        simp only [String.toList_append, String.toList_ofList, apply_ite String.toList, t2, t6, t7]
        simp

/-! ### reading the printed characters back -/

/-- the characters `fmtG` prints after the sign -/
def OkChar (y : Char) : Prop := isDigitC y = true ∨ y = '.' ∨ y = 'e' ∨ y = '+' ∨ y = '-'

theorem parseFloat_signed (s : Bool) (body : List Char) (c : Char) (t : List Char) (hb : body = c :: t)
    (hc : isDigitC c = true) (hok : ∀ y ∈ body, OkChar y) :
    parseFloat (String.ofList ((if s then ['-'] else []) ++ body)) = parseFloat.go s body := by
  subst hb
  have : (if s then ['-'] else []) ++ c :: t = (if s then '-' :: c :: t else c :: t) := by cases s <;> rfl
  rw [this]
  exact parseFloat_body s c t hc (fun y hy => ok_char (hok y (List.mem_cons_of_mem _ hy)))

theorem expChars_ed_val (n : ℕ) :
    digitsVal ((if n < 10 then ['0'] else []) ++ Nat.toDigits 10 n) = n := by
  split
  · rw [List.singleton_append, digitsVal_cons_zero, digitsVal_toDigits]
  · rw [List.nil_append, digitsVal_toDigits]

theorem expTail_expChars (k : ℤ) (hk : k.natAbs < 100000) : ExpTail (expChars k) k := by
  unfold expChars
  refine ⟨(if k.natAbs < 10 then ['0'] else []) ++ Nat.toDigits 10 k.natAbs, ?_, ?_, ?_, ?_⟩
  · intro h
    have := List.append_eq_nil_iff.mp h
    exact Nat.toDigits_ne_nil this.2
  · intro c hc
    rcases List.mem_append.mp hc with h | h
    · split at h
      · have : c = '0' := by simpa using h
        subst this; decide
      · simp at h
    · exact toDigits_digits _ c h
  · rw [List.length_append]
    by_cases h10 : k.natAbs < 10
    · rw [if_pos h10]
      have : (Nat.toDigits 10 k.natAbs).length ≤ 1 :=
        (Nat.length_toDigits_le_iff (by decide) (by decide)).mpr (by omega)
      simp only [List.length_cons, List.length_nil]
      omega
    · rw [if_neg h10]
      have : (Nat.toDigits 10 k.natAbs).length ≤ 5 :=
        (Nat.length_toDigits_le_iff (by decide) (by decide)).mpr (by omega)
      simp only [List.length_nil]
      omega
  · rw [expChars_ed_val]
    by_cases hk0 : k < 0
    · right
      rw [if_pos hk0]
      exact ⟨rfl, by omega⟩
    · left
      rw [if_neg hk0]
      exact ⟨rfl, by omega⟩

theorem expChars_ok (k : ℤ) : ∀ y ∈ expChars k, OkChar y := by
  intro y hy
  unfold expChars at hy
  rcases List.mem_cons.mp hy with rfl | hy
  · exact Or.inr (Or.inr (Or.inl rfl))
  rcases List.mem_cons.mp hy with rfl | hy
  · split
    · exact Or.inr (Or.inr (Or.inr (Or.inr rfl)))
    · exact Or.inr (Or.inr (Or.inr (Or.inl rfl)))
  rcases List.mem_append.mp hy with h | h
  · split at h
    · have : y = '0' := by simpa using h
      subst this; exact Or.inl (by decide)
    · simp at h
  · exact Or.inl (toDigits_digits _ y h)

theorem single_digit {a : Char} (ha : isDigitC a = true) : ∀ c ∈ [a], isDigitC c = true := by
  intro c hc
  have : c = a := by simpa using hc
  rw [this]; exact ha

theorem ten_zpow_natCast (z : ℕ) : (10 : ℚ) ^ ((z : ℕ) : ℤ) = ((10 ^ z : ℕ) : ℚ) := by
  rw [zpow_natCast]; push_cast; rfl

/-- **The layouts of `fmtG`, read by `parseFloat`**: for a non-empty digit string `ds` and decimal exponent `k`, the
printed characters are parsed as a mantissa and a decimal exponent denoting `ds × 10^(k-(|ds|-1))` (`d.ddd × 10^k`) -/
theorem parseFloat_bodyChars (s : Bool) (ds : List Char) (k : ℤ) (hds : ∀ c ∈ ds, isDigitC c = true) (hne : ds ≠ [])
    (hk1 : -400 ≤ k + 1) (hk2 : k + 1 ≤ 400) :
    ∃ (mant : ℕ) (e10 nd : ℤ),
      parseFloat (String.ofList ((if s then ['-'] else []) ++ bodyChars ds k)) = parseTail s mant e10 nd
        ∧ (-400 ≤ e10 + nd ∧ e10 + nd ≤ 400)
        ∧ (mant : ℚ) * 10 ^ e10 = (digitsVal ds : ℚ) * 10 ^ (k - ((ds.length : ℤ) - 1)) := by
  obtain ⟨a, r, rfl⟩ := List.exists_cons_of_ne_nil hne
  have ha : isDigitC a = true := hds a (by simp)
  have hr : ∀ c ∈ r, isDigitC c = true := fun c hc => hds c (by simp [hc])
  have hdsok : ∀ y ∈ a :: r, OkChar y := fun y hy => Or.inl (hds y hy)
  unfold bodyChars
  by_cases hE : k < -4 ∨ k ≥ 6
  · -- d.ddde±XX
    rw [if_pos hE]
    have het := expTail_expChars k (by omega)
    cases r with
    | nil =>
      refine ⟨digitsVal [a], k, 1, ?_, ⟨by omega, by omega⟩, ?_⟩
      · have hb : mantChars [a] ++ expChars k = a :: expChars k := rfl
        rw [parseFloat_signed s _ a _ hb ha]
        · exact go_int_exp s [a] (expChars k) k (single_digit ha) (by simp) het
        · intro y hy
          rw [hb] at hy
          rcases List.mem_cons.mp hy with rfl | hy
          · exact Or.inl ha
          · exact expChars_ok k y hy
      · simp
    | cons b r' =>
      refine ⟨digitsVal ([a] ++ (b :: r')), k - ((b :: r').length : ℤ), (([a] ++ (b :: r')).length : ℤ), ?_, ?_, ?_⟩
      · have hb : mantChars (a :: b :: r') ++ expChars k = a :: ('.' :: ((b :: r') ++ expChars k)) := rfl
        rw [parseFloat_signed s _ a _ hb ha]
        · exact go_frac_exp s [a] (b :: r') (expChars k) k (single_digit ha)
            (by simp) hr het
        · intro y hy
          rw [hb] at hy
          rcases List.mem_cons.mp hy with rfl | hy
          · exact Or.inl ha
          rcases List.mem_cons.mp hy with rfl | hy
          · exact Or.inr (Or.inl rfl)
          rcases List.mem_append.mp hy with h | h
          · exact Or.inl (hr y h)
          · exact expChars_ok k y h
      · simp only [List.length_append, List.length_cons, List.length_nil]; push_cast; omega
      · simp only [List.singleton_append, List.length_cons]
        congr 2; push_cast; ring
  · rw [if_neg hE]
    by_cases hk0 : k < 0
    · -- 0.000ddd
      rw [if_pos hk0]
      generalize hn0 : (-k - 1).toNat = n0
      have hfp : ∀ c ∈ List.replicate n0 '0' ++ (a :: r), isDigitC c = true := by
        intro c hc
        rcases List.mem_append.mp hc with h | h
        · have : c = '0' := (List.mem_replicate.mp h).2
          subst this; decide
        · exact hds c h
      refine ⟨digitsVal (['0'] ++ (List.replicate n0 '0' ++ (a :: r))),
        0 - ((List.replicate n0 '0' ++ (a :: r)).length : ℤ),
        ((['0'] ++ (List.replicate n0 '0' ++ (a :: r))).length : ℤ), ?_, ?_, ?_⟩
      · rw [parseFloat_signed s _ '0' _ rfl (by decide)]
        · exact go_frac s ['0'] _ (single_digit (by decide)) (by simp) hfp
        · intro y hy
          rcases List.mem_cons.mp hy with rfl | hy
          · exact Or.inl (by decide)
          rcases List.mem_cons.mp hy with rfl | hy
          · exact Or.inr (Or.inl rfl)
          · exact Or.inl (hfp y hy)
      · simp only [List.length_append, List.length_cons, List.length_nil, List.length_replicate]
        push_cast; omega
      · rw [List.singleton_append, digitsVal_cons_zero, digitsVal_zeros_append]
        congr 2
        simp only [List.length_append, List.length_cons, List.length_replicate]
        push_cast; omega
    · rw [if_neg hk0]
      generalize hp : (k + 1).toNat = p
      have hpk : (p : ℤ) = k + 1 := by omega
      by_cases hl : (a :: r).length ≤ p
      · -- ddd000
        rw [if_pos hl]
        generalize hz : p - (a :: r).length = z
        have hall : ∀ c ∈ (a :: r) ++ List.replicate z '0', isDigitC c = true := by
          intro c hc
          rcases List.mem_append.mp hc with h | h
          · exact hds c h
          · have : c = '0' := (List.mem_replicate.mp h).2
            subst this; decide
        refine ⟨digitsVal ((a :: r) ++ List.replicate z '0'), 0, (((a :: r) ++ List.replicate z '0').length : ℤ),
          ?_, ?_, ?_⟩
        · rw [parseFloat_signed s _ a (r ++ List.replicate z '0') (List.cons_append ..) ha
            (fun y hy => Or.inl (hall y hy))]
          exact go_int s _ hall (by simp)
        · simp only [List.length_append, List.length_replicate]
          push_cast; omega
        · rw [digitsVal_append_zeros, zpow_zero, mul_one]
          push_cast
          have : k - (((a :: r).length : ℤ) - 1) = ((z : ℕ) : ℤ) := by omega
          rw [this, zpow_natCast]
      · -- ddd.ddd
        rw [if_neg hl]
        have hp1 : 1 ≤ p := by omega
        obtain ⟨p', rfl⟩ : ∃ p', p = p' + 1 := ⟨p - 1, by omega⟩
        have htake : ∀ c ∈ List.take (p' + 1) (a :: r), isDigitC c = true :=
          fun c hc => hds c (List.mem_of_mem_take hc)
        have hdrop : ∀ c ∈ List.drop (p' + 1) (a :: r), isDigitC c = true :=
          fun c hc => hds c (List.mem_of_mem_drop hc)
        refine ⟨digitsVal (List.take (p' + 1) (a :: r) ++ List.drop (p' + 1) (a :: r)),
          0 - ((List.drop (p' + 1) (a :: r)).length : ℤ),
          ((List.take (p' + 1) (a :: r) ++ List.drop (p' + 1) (a :: r)).length : ℤ), ?_, ?_, ?_⟩
        · have hb : List.take (p' + 1) (a :: r) ++ '.' :: List.drop (p' + 1) (a :: r)
              = a :: (List.take p' r ++ '.' :: List.drop (p' + 1) (a :: r)) := rfl
          rw [parseFloat_signed s _ a _ hb ha]
          · exact go_frac s _ _ htake (by simp) hdrop
          · intro y hy
            rcases List.mem_append.mp hy with h | h
            · exact Or.inl (htake y h)
            rcases List.mem_cons.mp h with rfl | h
            · exact Or.inr (Or.inl rfl)
            · exact Or.inl (hdrop y h)
        · rw [List.take_append_drop]
          simp only [List.length_drop]
          have : p' + 1 < (a :: r).length := by omega
          push_cast [Nat.cast_sub (le_of_lt this)]
          omega
        · rw [List.take_append_drop]
          congr 2
          simp only [List.length_drop]
          have : p' + 1 < (a :: r).length := by omega
          push_cast [Nat.cast_sub (le_of_lt this)]
          omega

/-- **Layout** (`parseFloat_fmtG_layout`): when `shortest x` returns the `nd`-digit number `d` and the decimal exponent
`k` (in the range where `parseFloat` neither overflows nor underflows by its magnitude estimate), `parseFloat (fmtG x)`
is the tail of the parser on a mantissa `mant > 0` and decimal exponent `e10` with
`mant·10^e10 = d·10^(k-(nd-1))` — the decimal `shortest` chose, with the sign of `x` -/
theorem parseFloat_fmtG_layout {x : F64} {s : Bool} {m : ℕ} {e : ℤ} {d nd : ℕ} {k : ℤ}
    (hdec : decode x = .fin s m e) (hm : m ≠ 0) (hsh : shortest x = some (d, nd, k))
    (hnd : 1 ≤ nd) (hd1 : 10 ^ (nd - 1) ≤ d) (hd2 : d < 10 ^ nd) (hk1 : -400 ≤ k + 1) (hk2 : k + 1 ≤ 400) :
    ∃ (mant : ℕ) (e10 ndp : ℤ), 0 < mant
      ∧ parseFloat (fmtG x) = parseTail s mant e10 ndp
      ∧ (-400 ≤ e10 + ndp ∧ e10 + ndp ≤ 400)
      ∧ (mant : ℚ) * 10 ^ e10 = (d : ℚ) * 10 ^ (k - ((nd : ℤ) - 1)) := by
  obtain ⟨z, hz⟩ := stripZeros_spec (Nat.toDigits 10 d)
  have hlen := toDigits_length d nd hnd hd1 hd2
  have hval : d = digitsVal (stripZeros (Nat.toDigits 10 d)) * 10 ^ z := by
    have := digitsVal_toDigits d
    rw [hz, digitsVal_append_zeros] at this
    exact this.symm
  have hdpos : 0 < d := lt_of_lt_of_le (Nat.pow_pos (by omega)) hd1
  generalize hds : stripZeros (Nat.toDigits 10 d) = ds at *
  have hdig : ∀ c ∈ ds, isDigitC c = true := by
    intro c hc
    apply toDigits_digits d
    rw [hz]
    exact List.mem_append_left _ hc
  have hne : ds ≠ [] := by
    rintro rfl
    rw [digitsVal_nil, Nat.zero_mul] at hval
    omega
  have hlen2 : (nd : ℤ) = (ds.length : ℤ) + z := by
    have := congrArg List.length hz
    rw [List.length_append, List.length_replicate, hlen] at this
    omega
  obtain ⟨mant, e10, ndp, hp, hb, hv⟩ := parseFloat_bodyChars s ds k hdig hne hk1 hk2
  have htl : (fmtG x).toList = (if s then ['-'] else []) ++ bodyChars ds k := by
    have := fmtG_toList hdec hm hsh (by rw [hds]; exact hne)
    rw [hds] at this
    exact this
  have hv2 : (mant : ℚ) * 10 ^ e10 = (d : ℚ) * 10 ^ (k - ((nd : ℤ) - 1)) := by
    rw [hv, hval, hlen2]
    push_cast
    rw [mul_assoc, ← zpow_natCast, ← zpow_add₀ (by norm_num : (10 : ℚ) ≠ 0)]
    congr 2; ring
  refine ⟨mant, e10, ndp, ?_, ?_, hb, hv2⟩
  · rcases Nat.eq_zero_or_pos mant with h0 | h0
    · exfalso
      rw [h0] at hv2
      have : (0 : ℚ) < (d : ℚ) * 10 ^ (k - ((nd : ℤ) - 1)) := by
        have : (0 : ℚ) < d := by exact_mod_cast hdpos
        positivity
      rw [← hv2] at this
      simp at this
    · exact h0
  · rw [parseFloat_of_toList htl, hp]

/-! ### rounding the parsed decimal back -/

theorem decRound_back {x : F64} {s : Bool} {m : ℕ} {e : ℤ} (hdec : decode x = .fin s m e) (hm : m ≠ 0)
    (mant : ℕ) (e10 : ℤ) (hmant : 0 < mant) (hin : InsideRounding x m e ((mant : ℚ) * 10 ^ e10)) :
    decRound s mant e10 = canon x := by
  unfold decRound
  by_cases h : e10 ≥ 0
  · rw [if_pos h]
    apply roundDyadic_back hdec hm _ 0 (Nat.mul_pos hmant (Nat.pow_pos (by omega)))
    have : (((mant * 10 ^ e10.toNat : ℕ) : ℚ)) * 2 ^ (0 : ℤ) = (mant : ℚ) * 10 ^ e10 := by
      push_cast
      rw [mul_one, ← zpow_natCast, Int.toNat_of_nonneg h]
    rw [this]; exact hin
  · rw [if_neg h]
    apply roundQuot_back hdec hm _ _ hmant (Nat.pow_pos (by omega))
    have : (mant : ℚ) / ((10 ^ (-e10).toNat : ℕ) : ℚ) = (mant : ℚ) * 10 ^ e10 := by
      push_cast
      rw [← zpow_natCast, Int.toNat_of_nonneg (by omega), zpow_neg, div_eq_mul_inv, inv_inv]
    rw [this]; exact hin

/-- the tail of the parser on a decimal inside the rounding interval of `x` returns (the canonical pattern of) `x` -/
theorem parseTail_back {x : F64} {s : Bool} {m : ℕ} {e : ℤ} (hdec : decode x = .fin s m e) (hm : m ≠ 0)
    (mant : ℕ) (e10 ndp : ℤ) (hmant : 0 < mant) (hb : -400 ≤ e10 + ndp ∧ e10 + ndp ≤ 400)
    (hin : InsideRounding x m e ((mant : ℚ) * 10 ^ e10)) :
    parseTail s mant e10 ndp = .val (canon x) := by
  unfold parseTail
  rw [if_neg (by omega), if_neg (by omega), if_neg (by omega), decRound_back hdec hm mant e10 hmant hin,
    decode_canon, hdec]

end F64
end Ysgo
