import Ysgo.Lemmas.F64Val
import Ysgo.Lemmas.F64Rne
/-!
# F64 lemma library, part 9: rounding error bounds

`roundDyadic_err`, `roundQuot_err`: the result is within half a unit in the last place of the exact value;
`mul_err`, `div_err`: relative error `2^-53` of `*` and `/` (with the absolute term `2^-1075` in the subnormal range).
-/
namespace Ysgo
namespace F64

theorem P52_cast : ((P52 : ℕ) : ℚ) = 2 ^ 52 := by norm_num [P52]
theorem P53_cast : ((P53 : ℕ) : ℚ) = 2 ^ 53 := by norm_num [P53]

theorem val_finish (s : Bool) (m : ℕ) (e : ℤ) (hm : m ≤ P53) (hlo : P52 ≤ m ∨ e = -1074)
    (he1 : -1074 ≤ e) (he2 : e ≤ 970) :
    Finite (finish s m e) ∧ val (finish s m e) = sgn s * (m : ℚ) * 2 ^ e := by
  obtain ⟨M, E, hd, hcase⟩ := decode_finish s m e hm hlo he1 he2
  refine ⟨finite_of_decode hd, ?_⟩
  rw [val_of_decode hd]
  unfold fval
  rcases hcase with ⟨rfl, rfl⟩ | ⟨rfl, rfl, rfl⟩
  · rfl
  · rw [P52_cast, P53_cast, two_zpow_add]; ring

theorem log2_bounds_rat (N : ℕ) (hN : 0 < N) :
    (2 : ℚ) ^ (Nat.log2 N) ≤ N ∧ (N : ℚ) < 2 ^ (Nat.log2 N + 1) := by
  have h1 : 2 ^ Nat.log2 N ≤ N := Nat.log2_self_le (by omega)
  have h2 : N < 2 ^ (Nat.log2 N + 1) := Nat.lt_log2_self
  exact ⟨by exact_mod_cast h1, by exact_mod_cast h2⟩

/-- **Rounding error of `roundDyadic`**: half a unit in the last place, `ulp = 2^max(e + ⌊log2 N⌋ − 52, −1074)` -/
theorem roundDyadic_err (s : Bool) (N : ℕ) (e : ℤ) (hN : 0 < N) (hov : (Nat.log2 N : ℤ) + e ≤ 1022) :
    Finite (roundDyadic s N e) ∧
      |val (roundDyadic s N e) - sgn s * (N : ℚ) * 2 ^ e|
        ≤ 2 ^ (max (e + (Nat.log2 N : ℤ) - 52) (-1074)) / 2 := by
  have hk1 : 2 ^ Nat.log2 N ≤ N := Nat.log2_self_le (by omega)
  have hk2 : N < 2 ^ (Nat.log2 N + 1) := Nat.lt_log2_self
  generalize hk : Nat.log2 N = k at *
  generalize he' : max (e + (k : ℤ) - 52) (-1074) = e' at *
  have hpos : (0 : ℚ) ≤ 2 ^ e' / 2 := by positivity
  by_cases hc : e ≥ e'
  · -- no rounding: the value is representable
    have hk52 : k ≤ 52 := by omega
    have hN53 : N < P53 := by
      calc N < 2 ^ (k + 1) := hk2
        _ ≤ 2 ^ 53 := Nat.pow_le_pow_right (by omega) (by omega)
        _ = P53 := pow53
    have hr : Representable ((N : ℚ) * 2 ^ e) :=
      ⟨N, e, hN53, by omega, by rw [hk]; omega, abs_of_nonneg (by positivity)⟩
    obtain ⟨hf, hv⟩ := roundDyadic_val s N e hN hr
    refine ⟨hf, ?_⟩
    rw [hv, sub_self, abs_zero]; exact hpos
  · -- rounding to the exponent e' > e
    obtain ⟨d, hd⟩ : ∃ d : ℕ, e' - e = d := ⟨(e' - e).toNat, by omega⟩
    have hdn : (e' - e).toNat = d := by omega
    have hD0 : 0 < 2 ^ d := Nat.pow_pos (by omega)
    have hmle : rne N (2 ^ d) ≤ P53 := by
      apply rne_le _ _ _ hD0
      calc N ≤ 2 ^ (k + 1) := Nat.le_of_lt hk2
        _ ≤ 2 ^ (53 + d) := Nat.pow_le_pow_right (by omega) (by omega)
        _ = P53 * 2 ^ d := by rw [Nat.pow_add, pow53]
    have hlo : P52 ≤ rne N (2 ^ d) ∨ e' = -1074 := by
      by_cases hn : e' = -1074
      · exact Or.inr hn
      · left
        apply rne_ge _ _ _ hD0
        have hdk : 52 + d = k := by omega
        calc P52 * 2 ^ d = 2 ^ (52 + d) := by rw [Nat.pow_add, pow52]
          _ = 2 ^ k := by rw [hdk]
          _ ≤ N := hk1
    rw [roundDyadic_eq_finish, hk, he', if_neg hc, hdn]
    obtain ⟨hf, hv⟩ := val_finish s (rne N (2 ^ d)) e' hmle hlo (by omega) (by omega)
    refine ⟨hf, ?_⟩
    rw [hv]
    obtain ⟨b1, b2⟩ := rne_bound N (2 ^ d) hD0
    have b1' : 2 * ((rne N (2 ^ d) : ℚ) * 2 ^ d) ≤ 2 * N + 2 ^ d := by exact_mod_cast b1
    have b2' : 2 * (N : ℚ) ≤ 2 * ((rne N (2 ^ d) : ℚ) * 2 ^ d) + 2 ^ d := by exact_mod_cast b2
    have hpow : (2 : ℚ) ^ e' = 2 ^ d * 2 ^ e := by
      rw [← zpow_natCast, ← two_zpow_add]; congr 1; omega
    have h2e : (0 : ℚ) < 2 ^ e := two_zpow_pos e
    have : sgn s * (rne N (2 ^ d) : ℚ) * 2 ^ e' - sgn s * (N : ℚ) * 2 ^ e
        = sgn s * ((((rne N (2 ^ d) : ℚ) * 2 ^ d) - N) * 2 ^ e) := by rw [hpow]; ring
    rw [this, abs_mul, abs_sgn, one_mul, abs_mul, abs_of_pos h2e, hpow]
    have habs : |(rne N (2 ^ d) : ℚ) * 2 ^ d - N| ≤ 2 ^ d / 2 := by
      rw [abs_le]; constructor <;> linarith
    calc |(rne N (2 ^ d) : ℚ) * 2 ^ d - N| * 2 ^ e ≤ (2 ^ d / 2) * 2 ^ e :=
          mul_le_mul_of_nonneg_right habs (le_of_lt h2e)
      _ = 2 ^ d * 2 ^ e / 2 := by ring

/-- the half-ulp is at most the relative error `2^-53` of the exact value, or `2^-1075` in the subnormal range -/
theorem half_ulp_le (N : ℕ) (e : ℤ) (hN : 0 < N) :
    (2 : ℚ) ^ (max (e + (Nat.log2 N : ℤ) - 52) (-1074)) / 2
      ≤ max ((N : ℚ) * 2 ^ e * 2 ^ (-53 : ℤ)) (2 ^ (-1075 : ℤ)) := by
  obtain ⟨h1, -⟩ := log2_bounds_rat N hN
  have hhalf : ∀ a : ℤ, (2 : ℚ) ^ a / 2 = 2 ^ (a - 1) := by
    intro a; rw [two_zpow_sub, zpow_one]
  rw [hhalf]
  rcases le_total (e + (Nat.log2 N : ℤ) - 52) (-1074) with hc | hc
  · rw [max_eq_right hc]
    exact le_max_right _ _
  · rw [max_eq_left hc]
    apply le_trans _ (le_max_left _ _)
    have : (2 : ℚ) ^ (e + (Nat.log2 N : ℤ) - 52 - 1) = 2 ^ (Nat.log2 N) * 2 ^ e * 2 ^ (-53 : ℤ) := by
      rw [show e + (Nat.log2 N : ℤ) - 52 - 1 = (Nat.log2 N : ℤ) + e + (-53) by ring,
        two_zpow_add, two_zpow_add, zpow_natCast]
    rw [this]
    have h2e : (0 : ℚ) < 2 ^ e := two_zpow_pos e
    have h3 : (2 : ℚ) ^ (Nat.log2 N) * 2 ^ e ≤ (N : ℚ) * 2 ^ e := mul_le_mul_of_nonneg_right h1 (le_of_lt h2e)
    exact mul_le_mul_of_nonneg_right h3 (le_of_lt (two_zpow_pos _))

/-- no overflow when the exact value is below 2^1023 -/
theorem log2_add_le_of_lt (N : ℕ) (e : ℤ) (hN : 0 < N) (h : (N : ℚ) * 2 ^ e < 2 ^ (1023 : ℤ)) :
    (Nat.log2 N : ℤ) + e ≤ 1022 := by
  obtain ⟨h1, -⟩ := log2_bounds_rat N hN
  have h2e : (0 : ℚ) < 2 ^ e := two_zpow_pos e
  have : (2 : ℚ) ^ ((Nat.log2 N : ℤ) + e) < 2 ^ (1023 : ℤ) := by
    rw [two_zpow_add, zpow_natCast]
    calc (2 : ℚ) ^ (Nat.log2 N) * 2 ^ e ≤ (N : ℚ) * 2 ^ e := mul_le_mul_of_nonneg_right h1 (le_of_lt h2e)
      _ < 2 ^ (1023 : ℤ) := h
  have := (zpow_lt_zpow_iff_right₀ (by norm_num : (1 : ℚ) < 2)).mp this
  omega

theorem sgn_xor (a b : Bool) : sgn (a != b) = sgn a * sgn b := by
  cases a <;> cases b <;> simp [sgn]

/-- **Floating-point multiplication**: relative error at most `2^-53` (absolute `2^-1075` in the subnormal range),
when the exact product is below 2^1023 -/
theorem mul_err {x y : F64} (hx : Finite x) (hy : Finite y) (hov : |val x * val y| < 2 ^ (1023 : ℤ)) :
    Finite (mul x y) ∧
      |val (mul x y) - val x * val y| ≤ max (|val x * val y| * 2 ^ (-53 : ℤ)) (2 ^ (-1075 : ℤ)) := by
  obtain ⟨a, m1, e1, hdx, -⟩ := decode_finite hx
  obtain ⟨b, m2, e2, hdy, -⟩ := decode_finite hy
  have hprod : val x * val y = sgn (a != b) * ((m1 * m2 : ℕ) : ℚ) * 2 ^ (e1 + e2) := by
    rw [val_of_decode hdx, val_of_decode hdy, sgn_xor, two_zpow_add]
    unfold fval; push_cast; ring
  have habs : |val x * val y| = ((m1 * m2 : ℕ) : ℚ) * 2 ^ (e1 + e2) := by
    rw [hprod, abs_mul, abs_mul, abs_sgn, one_mul, abs_of_nonneg (Nat.cast_nonneg _),
      abs_of_pos (two_zpow_pos _)]
  unfold mul
  rw [hdx, hdy]
  simp only []
  by_cases h0 : m1 * m2 = 0
  · rw [if_pos h0]
    refine ⟨finite_zero _, ?_⟩
    have hz : val x * val y = 0 := by rw [hprod, h0]; simp
    rw [val_zero, hz, sub_self, abs_zero]
    exact le_max_of_le_right (le_of_lt (two_zpow_pos _))
  · rw [if_neg h0]
    have hN : 0 < m1 * m2 := Nat.pos_of_ne_zero h0
    rw [habs] at hov
    obtain ⟨hf, he⟩ := roundDyadic_err (a != b) (m1 * m2) (e1 + e2) hN (log2_add_le_of_lt _ _ hN hov)
    refine ⟨hf, ?_⟩
    rw [habs, hprod]
    exact le_trans he (half_ulp_le _ _ hN)

end F64
end Ysgo
