import Ysgo.Model.Queue
import Ysgo.Spec.Fifo
/-!
# Lemmas for C20.1: the ring buffer refines the list

`abs q` is the list of the `size q` elements starting at `first`, wrapping around the end of `base`. `Shape q` is the
invariant: the zero value, a drained buffer (`first = -1`, `next = 0`) or a live one (`0 ≤ first < cap`, `next < cap`).
Only `2 ≤ cap` is needed ("8 is arbitrary, any value > 2 would do" says the Go comment; 2 already works), so the
invariant does not depend on the initial capacity.
-/
namespace Ysgo.Queue
open Ysgo.Container

/-! ## list facts -/


theorem take_succ_drop_set {α} (l : List α) (f k : Nat) (x : α) (h : f + k < l.length) :
    ((l.set (f + k) x).drop f).take (k + 1) = (l.drop f).take k ++ [x] := by
  induction l generalizing f k with
  | nil => simp at h
  | cons a l ih =>
    cases f with
    | zero =>
      simp only [Nat.zero_add, List.drop_zero]
      cases k with
      | zero => simp
      | succ k =>
        simp only [List.set_cons_succ, List.take_succ_cons, List.cons_append, List.cons.injEq, true_and]
        have := ih 0 k (by simp at h ⊢; omega)
        simpa using this
    | succ f =>
      have e : f + 1 + k = (f + k) + 1 := by omega
      simp only [e, List.set_cons_succ, List.drop_succ_cons]
      exact ih f k (by simp at h; omega)

theorem drop_set_lt {α} (l : List α) (i f : Nat) (x : α) (h : i < f) : (l.set i x).drop f = l.drop f := by
  induction l generalizing i f with
  | nil => simp
  | cons a l ih =>
    cases f with
    | zero => omega
    | succ f =>
      cases i with
      | zero => simp
      | succ i => simp only [List.set_cons_succ, List.drop_succ_cons]; exact ih i f (by omega)

theorem take_set_succ {α} (l : List α) (i : Nat) (x : α) (h : i < l.length) :
    (l.set i x).take (i + 1) = l.take i ++ [x] := by
  have := take_succ_drop_set l 0 i x (by simpa using h)
  simpa using this

theorem take_all {α} (l : List α) (n : Nat) (h : l.length ≤ n) : l.take n = l := List.take_of_length_le h

theorem grow_take {α} (A B : List α) (n : Nat) (d x : α) (h : (A ++ B).length = n) (hn : 0 < n) :
    ((A ++ B ++ List.replicate n d).set n x).take (n + 1) = A ++ B ++ [x] := by
  have h1 : n < (A ++ B ++ List.replicate n d).length := by
    rw [List.length_append, h, List.length_replicate]; omega
  rw [take_set_succ _ _ _ h1]
  congr 1
  rw [List.take_append_of_le_length (by omega)]
  exact List.take_of_length_le (by omega)


variable {α : Type} [Inhabited α]

def abs (q : Queue α) : List α :=
  if q.base.length = 0 ∨ q.first = -1 then []
  else
    let f := q.first.toNat
    if f < q.next then (q.base.drop f).take (q.next - f)
    else q.base.drop f ++ q.base.take q.next

/-- the three shapes of a reachable queue -/
inductive Shape (q : Queue α) : Prop
  | fresh (h0 : q.base = []) (hf : q.first = 0) (hn : q.next = 0)
  | drained (hl : 2 ≤ q.base.length) (hf : q.first = -1) (hn : q.next = 0)
  | live (f : Nat) (hl : 2 ≤ q.base.length) (hf : q.first = (f : Int)) (hfl : f < q.base.length) (hn : q.next < q.base.length)

theorem enqueue_abs (q : Queue α) (x : α) (h : Shape q) :
    abs (enqueue q x) = abs q ++ [x] ∧ Shape (enqueue q x) := by
  obtain ⟨base, first, next⟩ := q
  cases h with
  | fresh h0 hf hn =>
    simp only at h0 hf hn
    subst h0 hf hn
    refine ⟨by simp [enqueue, abs, List.replicate], ?_⟩
    exact .live 0 (by simp [enqueue]) (by simp [enqueue]) (by simp [enqueue]) (by simp [enqueue])
  | drained hl hf hn =>
    simp only at hl hf hn
    subst hf hn
    have hb : base.length ≠ 0 := by omega
    have h1 : 1 % base.length = 1 := Nat.mod_eq_of_lt (by omega)
    have hset : (base.set 0 x).take 1 = [x] := by
      have := take_set_succ base 0 x (by omega); simpa using this
    refine ⟨?_, ?_⟩
    · simp [enqueue, abs, hb, h1, hset]
    · exact .live 0 (by simp [enqueue, hb]; omega) (by simp [enqueue, hb]) (by simp [enqueue, hb]; omega)
        (by simp [enqueue, hb, h1]; omega)
  | live f hl hf hfl hn =>
    simp only at hl hf hfl hn
    subst hf
    have hb : base.length ≠ 0 := by omega
    have hne1 : ¬ ((f : Int) = -1) := by omega
    by_cases hfull : next = f
    · -- full: grow
      subst hfull
      have hlen : (List.drop next base ++ List.take next base).length = base.length := by
        simp; omega
      refine ⟨?_, ?_⟩
      · have hg := grow_take (List.drop next base) (List.take next base) base.length default x hlen (by omega)
        simp only [enqueue, abs, hb, ↓reduceIte, ne_eq, not_true_eq_false, Int.toNat_natCast,
          List.length_set, List.length_append, List.length_drop, List.length_take, List.length_replicate]
        simp only [show ¬ (base.length - next + min next base.length + base.length = 0) by omega,
          show ¬ ((0:Int) = -1) by omega, false_or, ↓reduceIte, Int.toNat_zero, List.drop_zero, Nat.sub_zero,
          show 0 < base.length + 1 by omega, hne1]
        rw [hg]
        simp [Nat.lt_irrefl]
      · refine .live 0 ?_ ?_ ?_ ?_ <;> simp [enqueue, hb] <;> omega
    · have hnf : ¬ ((next : Int) = (f : Int)) := by omega
      by_cases hcont : f < next
      · -- contiguous block [f, next)
        by_cases hwrap : next + 1 = base.length
        · -- the new element lands in the last slot, next wraps to 0
          have hmod : (next + 1) % base.length = 0 := by rw [hwrap]; exact Nat.mod_self _
          refine ⟨?_, ?_⟩
          · have hk := take_succ_drop_set base f (next - f) x (by omega)
            have e : f + (next - f) = next := by omega
            rw [e] at hk
            have hlen : ((base.set next x).drop f).length = next - f + 1 := by simp; omega
            rw [take_all _ _ (by omega)] at hk
            simp only [enqueue, abs, hb, ↓reduceIte, ne_eq, hnf, not_false_eq_true, hne1, Int.toNat_natCast,
              List.length_set, false_or, hmod, hcont, List.take_zero, List.append_nil,
              show ¬ f < 0 by omega]
            exact hk
          · exact .live f (by simp [enqueue, hb, hnf]; omega) (by simp [enqueue, hb, hnf, hne1])
              (by simp [enqueue, hb, hnf]; omega) (by simp [enqueue, hb, hnf, hmod]; omega)
        · have hmod : (next + 1) % base.length = next + 1 := Nat.mod_eq_of_lt (by omega)
          refine ⟨?_, ?_⟩
          · have hk := take_succ_drop_set base f (next - f) x (by omega)
            have e : f + (next - f) = next := by omega
            rw [e] at hk
            have e2 : next + 1 - f = next - f + 1 := by omega
            simp only [enqueue, abs, hb, ↓reduceIte, ne_eq, hnf, not_false_eq_true, hne1, Int.toNat_natCast,
              List.length_set, false_or, hmod, hcont, show f < next + 1 by omega, e2]
            exact hk
          · exact .live f (by simp [enqueue, hb, hnf]; omega) (by simp [enqueue, hb, hnf, hne1])
              (by simp [enqueue, hb, hnf]; omega) (by simp [enqueue, hb, hnf, hmod]; omega)
      · -- wrapped: next < f
        have hlt : next < f := by omega
        have hmod : (next + 1) % base.length = next + 1 := Nat.mod_eq_of_lt (by omega)
        refine ⟨?_, ?_⟩
        · simp only [enqueue, abs, hb, ↓reduceIte, ne_eq, hnf, not_false_eq_true, hne1, Int.toNat_natCast,
            List.length_set, false_or, hmod, hcont, show ¬ f < next + 1 by omega,
            drop_set_lt base next f x hlt, take_set_succ base next x (by omega), List.append_assoc]
        · exact .live f (by simp [enqueue, hb, hnf]; omega) (by simp [enqueue, hb, hnf, hne1])
            (by simp [enqueue, hb, hnf]; omega) (by simp [enqueue, hb, hnf, hmod]; omega)


theorem drop_cons_getD (l : List α) (f : Nat) (h : f < l.length) :
    l.drop f = l.getD f default :: l.drop (f + 1) := by
  rw [List.drop_eq_getElem_cons h]
  simp [List.getD, List.getElem?_eq_getElem h]

omit [Inhabited α] in
theorem size_eq (q : Queue α) (h : Shape q) : size q = (abs q).length := by
  obtain ⟨base, first, next⟩ := q
  cases h with
  | fresh h0 hf hn => simp only at h0; subst h0; simp [size, abs]
  | drained hl hf hn => simp only at hf; subst hf; simp [size, abs]
  | live f hl hf hfl hn =>
    simp only at hl hf hfl hn
    subst hf
    have hb : base.length ≠ 0 := by omega
    have hne1 : ¬ ((f : Int) = -1) := by omega
    unfold size abs
    simp only [hb, hne1, or_self, ↓reduceIte, Int.toNat_natCast]
    by_cases e : next = f
    · subst e
      simp only [↓reduceIte, Nat.lt_irrefl, List.length_append, List.length_drop, List.length_take]
      omega
    · have e' : ¬ ((next : Int) = (f : Int)) := by omega
      simp only [e', ↓reduceIte]
      by_cases hc : f < next
      · have : ((next : Int) - f + base.length) % base.length = (next : Int) - f := by
          rw [← Int.emod_eq_add_self_emod]; exact Int.emod_eq_of_lt (by omega) (by omega)
        simp only [this, hc, ↓reduceIte, List.length_take, List.length_drop]
        omega
      · have : ((next : Int) - f + base.length) % base.length = (next : Int) - f + base.length :=
          Int.emod_eq_of_lt (by omega) (by omega)
        simp only [this, hc, ↓reduceIte, List.length_append, List.length_take, List.length_drop]
        omega


theorem natCast_succ_mod (f c : Nat) (_hc : 0 < c) : ((f : Int) + 1) % (c : Int) = (((f + 1) % c : Nat) : Int) := by
  have : ((f : Int) + 1) = ((f + 1 : Nat) : Int) := by omega
  rw [this]
  exact Int.ofNat_mod_ofNat (f + 1) c

/-- dequeue returns the head of the abstraction and leaves the tail; it fails exactly on the empty queue -/
theorem dequeue_abs (q : Queue α) (h : Shape q) :
    match dequeue q with
    | .panic => abs q = []
    | .ok (r, q') => abs q = r :: abs q' ∧ Shape q' := by
  have hsz := size_eq q h
  obtain ⟨base, first, next⟩ := q
  cases h with
  | fresh h0 hf hn => simp only at h0; subst h0; simp [dequeue, size, abs]
  | drained hl hf hn => simp only at hf; subst hf; simp [dequeue, size, abs]
  | live f hl hf hfl hn =>
    simp only at hl hf hfl hn
    subst hf
    have hb : base.length ≠ 0 := by omega
    have hne1 : ¬ ((f : Int) = -1) := by omega
    have hd := drop_cons_getD base f hfl
    -- the abstraction is non-empty
    have habs : abs (⟨base, (f : Int), next⟩ : Queue α) ≠ [] := by
      unfold abs
      simp only [hb, hne1, or_self, ↓reduceIte, Int.toNat_natCast]
      by_cases hc : f < next
      · simp only [hc, ↓reduceIte, hd]; have : next - f = (next - f - 1) + 1 := by omega
        rw [this]; simp
      · simp only [hc, ↓reduceIte, hd]; simp
    have hsz0 : size (⟨base, (f : Int), next⟩ : Queue α) ≠ 0 := by
      rw [hsz]; intro e; exact habs (List.eq_nil_of_length_eq_zero e)
    clear hsz habs
    unfold dequeue
    simp only [hsz0, ↓reduceIte, Int.toNat_natCast]
    rw [natCast_succ_mod f base.length (by omega)]
    clear hsz0
    by_cases hw : f + 1 = base.length
    · -- head index wraps to 0
      have hmod : (f + 1) % base.length = 0 := by rw [hw]; exact Nat.mod_self _
      have hdrop : base.drop (f + 1) = [] := List.drop_of_length_le (by omega)
      simp only [hmod]
      by_cases hn0 : next = 0
      · subst hn0
        simp only [Int.natCast_zero, ↓reduceIte]
        refine ⟨?_, .drained hl rfl rfl⟩
        simp [abs, hb, hne1, hd, hdrop]
      · have : ¬ ((0 : Int) = (next : Int)) := by omega
        simp only [Int.natCast_zero, this, ↓reduceIte]
        refine ⟨?_, .live 0 hl rfl (show 0 < base.length by omega) hn⟩
        have hcf : ¬ f < next := by omega
        simp [abs, hb, hne1, hd, hdrop, hcf, show 0 < next by omega]
    · have hmod : (f + 1) % base.length = f + 1 := Nat.mod_eq_of_lt (by omega)
      simp only [hmod]
      by_cases he : f + 1 = next
      · -- last element leaves
        have : ((f + 1 : Nat) : Int) = (next : Int) := by omega
        simp only [this, ↓reduceIte]
        refine ⟨?_, .drained hl rfl rfl⟩
        have hc : f < next := by omega
        have e1 : next - f = 1 := by omega
        simp [abs, hb, hne1, hd, hc, e1]
      · have : ¬ (((f + 1 : Nat) : Int) = (next : Int)) := by omega
        simp only [this, ↓reduceIte]
        refine ⟨?_, .live (f + 1) hl rfl (show f + 1 < base.length by omega) hn⟩
        have hne1' : ¬ (((f + 1 : Nat) : Int) = -1) := by omega
        have hne1'' : ¬ ((f : Int) + 1 = -1) := by omega
        by_cases hc : f < next
        · have hc' : f + 1 < next := by omega
          have e1 : next - f = (next - (f + 1)) + 1 := by omega
          simp [abs, hb, hne1, hne1'', hd, hc, hc', e1]
        · have hc' : ¬ f + 1 < next := by omega
          simp [abs, hb, hne1, hne1'', hd, hc, hc']


/-- peek returns the head of the abstraction; it panics exactly on the empty queue -/
theorem peek_abs (q : Queue α) (h : Shape q) :
    match peek q with
    | .panic => abs q = []
    | .ok r => ∃ t, abs q = r :: t := by
  have hd := dequeue_abs q h
  by_cases hs : size q = 0
  · have e : dequeue q = .panic := by simp [dequeue, hs]
    rw [e] at hd
    simpa [peek, hs] using hd
  · by_cases hf : (q.first + 1) % (q.base.length : Int) = (q.next : Int)
    · have e : dequeue q = .ok (q.base.getD q.first.toNat default, { q with first := -1, next := 0 }) := by
        simp [dequeue, hs, hf]
      rw [e] at hd
      simp only [peek, hs, ↓reduceIte]
      exact ⟨_, hd.1⟩
    · have e : dequeue q = .ok (q.base.getD q.first.toNat default,
          { q with first := (q.first + 1) % (q.base.length : Int) }) := by
        simp [dequeue, hs, hf]
      rw [e] at hd
      simp only [peek, hs, ↓reduceIte]
      exact ⟨_, hd.1⟩

omit [Inhabited α] in
theorem empty_shape : Shape (empty : Queue α) := .fresh rfl rfl rfl

omit [Inhabited α] in
theorem abs_empty : abs (empty : Queue α) = [] := by simp [abs, empty]

/-- one operation on the ring buffer = the same operation on the list -/
theorem step_sim (q : Queue α) (h : Shape q) (op : Op α) :
    (step q op).1 = (Fifo.step (abs q) op).1 ∧ abs (step q op).2 = (Fifo.step (abs q) op).2 ∧ Shape (step q op).2 := by
  cases op with
  | enq x =>
    obtain ⟨ha, hs⟩ := enqueue_abs q x h
    exact ⟨rfl, ha, hs⟩
  | deq =>
    have hd := dequeue_abs q h
    cases hq : dequeue q with
    | panic =>
      rw [hq] at hd
      simp only at hd
      simp [step, Fifo.step, hq, hd, h]
    | ok p =>
      obtain ⟨r, q1⟩ := p
      rw [hq] at hd
      obtain ⟨ha, hs⟩ := hd
      simp [step, Fifo.step, hq, ha, hs]
  | peek =>
    have hp := peek_abs q h
    cases hq : peek q with
    | panic =>
      rw [hq] at hp
      simp only at hp
      simp [step, Fifo.step, hq, hp, h]
    | ok r =>
      rw [hq] at hp
      obtain ⟨t, ht⟩ := hp
      simp [step, Fifo.step, hq, ht, h]
  | size =>
    simp [step, Fifo.step, size_eq q h, h]

/-- every operation sequence, from every state satisfying the invariant -/
theorem run_sim (ops : List (Op α)) : ∀ (q : Queue α), Shape q →
    run q ops = Fifo.run (abs q) ops := by
  induction ops with
  | nil => intro q _; rfl
  | cons op ops ih =>
    intro q h
    obtain ⟨h1, h2, h3⟩ := step_sim q h op
    simp only [run, Fifo.run]
    rw [ih _ h3, h1, ← h2, size_eq _ h3]

/-- the invariant and the abstraction after an operation sequence -/
theorem final_sim (ops : List (Op α)) : ∀ (q : Queue α), Shape q →
    ∃ q', (runStates q ops).getLast?.map (·.2) = (if ops = [] then none else some q') ∧
      (ops ≠ [] → Shape q' ∧ abs q' = Fifo.final (abs q) ops) := by
  induction ops with
  | nil => intro q _; exact ⟨q, by simp [runStates], fun h => absurd rfl h⟩
  | cons op ops ih =>
    intro q h
    obtain ⟨_, h2, h3⟩ := step_sim q h op
    obtain ⟨q', e, hq'⟩ := ih _ h3
    cases ops with
    | nil =>
      refine ⟨(step q op).2, by simp [runStates], fun _ => ⟨h3, ?_⟩⟩
      simp [Fifo.final, h2]
    | cons op2 ops2 =>
      refine ⟨q', ?_, fun _ => ?_⟩
      · simp only [runStates, reduceCtorEq, ↓reduceIte] at e ⊢
        rw [List.getLast?_cons_cons]
        exact e
      · have := hq' (by simp)
        refine ⟨this.1, ?_⟩
        rw [this.2, h2]
        rfl

theorem run_eq_runStates (ops : List (Op α)) : ∀ q : Queue α,
    run q ops = (runStates q ops).map fun r => (r.1, size r.2) := by
  induction ops with
  | nil => intro q; rfl
  | cons op ops ih => intro q; simp [run, runStates, ih]

end Ysgo.Queue
