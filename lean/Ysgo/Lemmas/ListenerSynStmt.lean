import Ysgo.Lemmas.ListenerSynLine
/-!
# Typed syntax of grammar-conforming statements, nodes and dialogues

The productions `statement`, `if_statement` (with its clause chain), `shortcut_option_statement`, `shortcut_option`,
`set_statement`, `call_statement`, `command_statement`, `declare_statement`, `jump_statement`, `node`, `header`, `dialogue`
of YarnSpinnerParser.g4 as data, their parse trees, and the structural translation on the typed syntax.

`command_statement` is the production WITHOUT trailing hashtags: the parser grammar allows `<<cmd>> #tag`, but the lexer
stays in a mode that ends with a NEWLINE token after a hashtag, and only `line_statement` accepts that token — no
error-free parse contains a command with hashtags (and on such a tree the listener would call the nil
`hashtagCallback`; see `Props/C01Listener.lean`).
-/
namespace Ysgo.Listener
open Ysgo

inductive CCmdEl where
  | text (s : String)                -- COMMAND_TEXT
  | expr (tx : Tx) (e : CExpr)       -- '{' expression '}'

mutual
inductive CStmt where
  | line (l : CLine)
  | ifs (tx : Tx) (c : CExpr) (body : List CStmt) (rest : CClauses)
  | opts (os : List COpt) (blank : Option String)               -- the optional BLANK_LINE_FOLLOWING_OPTION
  | block (tx : Tx) (ss : List CStmt)                           -- INDENT statement* DEDENT
  | set (tx : Tx) (v : String) (t : Tk) (e : CExpr)
  | call (tx : Tx) (c : CCall)
  | cmd (tx : Tx) (els : List CCmdEl)
  | declare (tx : Tx) (v : String) (x : CValue) (as : Bool)     -- `as`: followed by 'as' FUNC_ID
  | jumpId (tx : Tx) (dest : String)
  | jumpExpr (tx : Tx) (e : CExpr)
/-- `else_if_clause* else_clause? '<<' 'endif' '>>'` -/
inductive CClauses where
  | endif (tx : Tx)
  | elseif (tx : Tx) (c : CExpr) (body : List CStmt) (rest : CClauses)
  | else_ (tx : Tx) (body : List CStmt)
/-- `'->' line_statement (INDENT statement* DEDENT)?` -/
inductive COpt where
  | plain (tx : Tx) (l : CLine)
  | withBody (tx : Tx) (l : CLine) (ss : List CStmt)
end

def CCmdEl.toPTs : CCmdEl → List PT
  | .text s => [.tok .commandText s]
  | .expr tx e => [.tok .commandExpressionStart (tx 0), e.toPT, .tok .expressionEnd (tx 1)]

def CCmdEl.toPTsList : List CCmdEl → List PT
  | [] => []
  | e :: es => e.toPTs ++ CCmdEl.toPTsList es

def declareTail (tx : Tx) : Bool → List PT
  | true => [.tok .expressionAs (tx 4), .tok .funcId (tx 5), .tok .commandEnd (tx 6)]
  | false => [.tok .commandEnd (tx 6)]

def blankPT : Option String → List PT
  | none => []
  | some s => [.tok .blankLineFollowingOption s]

mutual
def CStmt.toPT : CStmt → PT
  | .line l => .rule .statement [l.toPT]
  | .ifs tx c body rest =>
    .rule .statement [.rule .ifStatement
      (.rule .ifClause (.tok .commandStart (tx 0) :: .tok .commandIf (tx 1) :: c.toPT :: .tok .commandEnd (tx 2) ::
        CStmt.toPTs body) :: rest.toPTs)]
  | .opts os blank => .rule .statement [.rule .shortcutOptionStatement (COpt.toPTs os ++ blankPT blank)]
  | .block tx ss => .rule .statement (.tok .indent (tx 0) :: (CStmt.toPTs ss ++ [.tok .dedent (tx 1)]))
  | .set tx v t e =>
    .rule .statement [.rule .setStatement [.tok .commandStart (tx 0), .tok .commandSet (tx 1),
      .rule .variable [.tok .varId v], .tok t (tx 2), e.toPT, .tok .commandEnd (tx 3)]]
  | .call tx c =>
    .rule .statement [.rule .callStatement [.tok .commandStart (tx 0), .tok .commandCall (tx 1), c.toPT,
      .tok .commandEnd (tx 2)]]
  | .cmd tx els =>
    .rule .statement [.rule .commandStatement [.tok .commandStart (tx 0),
      .rule .commandFormattedText (CCmdEl.toPTsList els), .tok .commandTextEnd (tx 1)]]
  | .declare tx v x as =>
    .rule .statement [.rule .declareStatement (.tok .commandStart (tx 0) :: .tok .commandDeclare (tx 1) ::
      .rule .variable [.tok .varId v] :: .tok .opAssign (tx 2) :: x.toPT :: declareTail tx as)]
  | .jumpId tx dest =>
    .rule .statement [.rule .jumpToNodeName [.tok .commandStart (tx 0), .tok .commandJump (tx 1), .tok .id dest,
      .tok .commandEnd (tx 2)]]
  | .jumpExpr tx e =>
    .rule .statement [.rule .jumpToExpression [.tok .commandStart (tx 0), .tok .commandJump (tx 1),
      .tok .expressionStart (tx 2), e.toPT, .tok .expressionEnd (tx 3), .tok .commandEnd (tx 4)]]
def CStmt.toPTs : List CStmt → List PT
  | [] => []
  | s :: ss => s.toPT :: CStmt.toPTs ss
def CClauses.toPTs : CClauses → List PT
  | .endif tx => [.tok .commandStart (tx 0), .tok .commandEndif (tx 1), .tok .commandEnd (tx 2)]
  | .elseif tx c body rest =>
    .rule .elseIfClause (.tok .commandStart (tx 0) :: .tok .commandElseif (tx 1) :: c.toPT :: .tok .commandEnd (tx 2) ::
      CStmt.toPTs body) :: rest.toPTs
  | .else_ tx body =>
    [.rule .elseClause (.tok .commandStart (tx 0) :: .tok .commandElse (tx 1) :: .tok .commandEnd (tx 2) ::
      CStmt.toPTs body), .tok .commandStart (tx 3), .tok .commandEndif (tx 4), .tok .commandEnd (tx 5)]
def COpt.toPT : COpt → PT
  | .plain tx l => .rule .shortcutOption [.tok .shortcutArrow (tx 0), l.toPT]
  | .withBody tx l ss =>
    .rule .shortcutOption (.tok .shortcutArrow (tx 0) :: l.toPT :: .tok .indent (tx 1) ::
      (CStmt.toPTs ss ++ [.tok .dedent (tx 2)]))
def COpt.toPTs : List COpt → List PT
  | [] => []
  | o :: os => o.toPT :: COpt.toPTs os
end

/-! ### well-formedness: token texts and operator tokens as the lexer and the grammar guarantee them -/

def CCmdEl.WF : CCmdEl → Prop
  | .text s => s ≠ ""
  | .expr _ e => e.WF

def CCmdEl.WFList : List CCmdEl → Prop
  | [] => True
  | e :: es => e.WF ∧ CCmdEl.WFList es

mutual
def CStmt.WF : CStmt → Prop
  | .line l => l.WF
  | .ifs _ c body rest => c.WF ∧ CStmt.WFList body ∧ rest.WF
  | .opts os _ => os ≠ [] ∧ COpt.WFList os
  | .block _ ss => CStmt.WFList ss
  | .set _ v t e => asciiHead v = true ∧ (Translate.setOp t).isSome ∧ e.WF
  | .call _ c => c.WF
  | .cmd _ els => CCmdEl.WFList els
  | .declare _ v x _ => asciiHead v = true ∧ x.WF
  | .jumpId _ _ => True
  | .jumpExpr _ e => e.WF
def CStmt.WFList : List CStmt → Prop
  | [] => True
  | s :: ss => s.WF ∧ CStmt.WFList ss
def CClauses.WF : CClauses → Prop
  | .endif _ => True
  | .elseif _ c body rest => c.WF ∧ CStmt.WFList body ∧ rest.WF
  | .else_ _ body => CStmt.WFList body
def COpt.WF : COpt → Prop
  | .plain _ l => l.WF
  | .withBody _ l ss => l.WF ∧ CStmt.WFList ss
def COpt.WFList : List COpt → Prop
  | [] => True
  | o :: os => o.WF ∧ COpt.WFList os
end

/-! ### the structural translation on the typed syntax -/

def CCmdEl.trList : List CCmdEl → List (CmdArgs.Elem Expr)
  | [] => []
  | .text s :: es => .text s.toList :: CCmdEl.trList es
  | .expr _ e :: es => .expr e.tr :: CCmdEl.trList es

/-- the rearranged command elements as expressions; a hole (impossible for non-empty texts) reads as null -/
def argsExprs : List (CmdArgs.Arg Expr) → List Expr
  | [] => []
  | .word v :: r => .lit v :: argsExprs r
  | .expr e :: r => e :: argsExprs r
  | .hole :: r => .null :: argsExprs r

mutual
def CStmt.tr : CStmt → List DStmt
  | .line l => [.line l.tr]
  | .ifs _ c body rest => [.ifs ((c.tr, CStmt.trList body) :: rest.tr)]
  | .opts os _ => [.opts (COpt.trList os)]
  | .block _ ss => CStmt.trList ss
  | .set _ v t e => [.set (Translate.tail1 v) ((Translate.setOp t).getD .set) e.tr]
  | .call _ (.mk f _ _ args) => [.call f (CExpr.trList args)]
  | .cmd _ els => [.cmd (argsExprs (CmdArgs.rearrange (CCmdEl.trList els)))]
  | .declare _ v x _ => [.declare (Translate.tail1 v) x.tr]
  | .jumpId _ dest => [.jump (.lit (.str dest))]
  | .jumpExpr _ e => [.jump e.tr]
def CStmt.trList : List CStmt → List DStmt
  | [] => []
  | s :: ss => s.tr ++ CStmt.trList ss
def CClauses.tr : CClauses → List (Expr × List DStmt)
  | .endif _ => []
  | .elseif _ c body rest => (c.tr, CStmt.trList body) :: rest.tr
  | .else_ _ body => [(.lit (.bool true), CStmt.trList body)]
def COpt.trList : List COpt → List (LineSpec × List DStmt)
  | [] => []
  | .plain _ l :: os => (l.tr, []) :: COpt.trList os
  | .withBody _ l ss :: os => (l.tr, CStmt.trList ss) :: COpt.trList os
end


def noHole {α} : List (CmdArgs.Arg α) → Prop
  | [] => True
  | .hole :: _ => False
  | _ :: r => noHole r

theorem noHole_append {α} : ∀ (a b : List (CmdArgs.Arg α)), noHole a → noHole b → noHole (a ++ b)
  | [], b, _, hb => hb
  | .word _ :: a, b, ha, hb => noHole_append a b ha hb
  | .expr _ :: a, b, ha, hb => noHole_append a b ha hb
  | .hole :: _, _, ha, _ => ha.elim

theorem noHole_split {α} (acc : List Char) : noHole (CmdArgs.split (α := α) acc) := by
  unfold CmdArgs.split
  induction CmdArgs.fields acc with
  | nil => trivial
  | cons w ws ih => exact ih

def ElemTextsNonempty {α} : List (CmdArgs.Elem α) → Prop
  | [] => True
  | .text s :: r => s ≠ [] ∧ ElemTextsNonempty r
  | .expr _ :: r => ElemTextsNonempty r

theorem noHole_rearrangeAux {α} : ∀ (els : List (CmdArgs.Elem α)) (acc : List Char), ElemTextsNonempty els →
    noHole (CmdArgs.rearrangeAux els acc)
  | [], acc, _ => noHole_split acc
  | .text s :: rest, acc, h => by
    simp only [ElemTextsNonempty] at h
    have : s.isEmpty = false := by cases s <;> simp_all
    simp only [CmdArgs.rearrangeAux, this]
    exact noHole_rearrangeAux rest _ h.2
  | .expr e :: rest, acc, h => by
    simp only [ElemTextsNonempty] at h
    simp only [CmdArgs.rearrangeAux]
    exact noHole_append _ _ (noHole_split acc) (noHole_rearrangeAux rest [] h)

theorem cmdArgs_of_noHole : ∀ (l : List (CmdArgs.Arg Expr)), noHole l → Translate.cmdArgs l = some (argsExprs l)
  | [], _ => rfl
  | .word v :: r, h => by simp [Translate.cmdArgs, argsExprs, cmdArgs_of_noHole r h]
  | .expr e :: r, h => by simp [Translate.cmdArgs, argsExprs, cmdArgs_of_noHole r h]
  | .hole :: _, h => h.elim

theorem toList_ne_nil {s : String} (h : s ≠ "") : s.toList ≠ [] := by
  intro hs
  apply h
  have : s.length = 0 := by simp [← String.length_toList, hs]
  exact String.length_eq_zero_iff.1 this

theorem CCmdEl.textsNonempty : ∀ els : List CCmdEl, CCmdEl.WFList els → ElemTextsNonempty (CCmdEl.trList els)
  | [], _ => trivial
  | .text s :: es, h => by
    simp only [CCmdEl.WFList, CCmdEl.WF] at h
    exact ⟨toList_ne_nil h.1, CCmdEl.textsNonempty es h.2⟩
  | .expr _ e :: es, h => by
    simp only [CCmdEl.WFList] at h
    exact CCmdEl.textsNonempty es h.2

theorem CCmdEl.translate_list : ∀ els : List CCmdEl, CCmdEl.WFList els →
    Translate.cmdElems (CCmdEl.toPTsList els) = some (CCmdEl.trList els)
  | [], _ => by simp [CCmdEl.toPTsList, Translate.cmdElems, CCmdEl.trList]
  | .text s :: es, h => by
    simp only [CCmdEl.WFList] at h
    simp [CCmdEl.toPTsList, CCmdEl.toPTs, Translate.cmdElems, CCmdEl.trList, CCmdEl.translate_list es h.2]
  | .expr tx e :: es, h => by
    simp only [CCmdEl.WFList, CCmdEl.WF] at h
    simp [CCmdEl.toPTsList, CCmdEl.toPTs, Translate.cmdElems, CCmdEl.trList, CCmdEl.translate_list es h.2,
      CExpr.translate e h.1, Translate.ocons]



theorem CStmt.isRule_toPT (s : CStmt) : s.toPT.isRule = true := by
  cases s <;> simp [CStmt.toPT, PT.isRule]

theorem Translate.block_rule (t : PT) (rest : List PT) (h : t.isRule = true) :
    Translate.block (t :: rest) = Translate.oapp (Translate.statement t) (Translate.block rest) := by
  cases t with
  | rule c cs => cases rest <;> simp [Translate.block]
  | tok _ _ => simp [PT.isRule] at h
  | err => simp [PT.isRule] at h

theorem CLine.toPT_eq (l : CLine) : ∃ cs, l.toPT = .rule .lineStatement cs := ⟨_, rfl⟩

mutual
theorem CStmt.translate : ∀ s : CStmt, s.WF → Translate.statement s.toPT = some s.tr
  | .line l, h => by
    simp only [CStmt.WF] at h
    have := CLine.translate l h
    simp only [CLine.toPT] at this
    simp [CStmt.toPT, CLine.toPT, Translate.statement, this, CStmt.tr]
  | .ifs tx c body rest, h => by
    simp only [CStmt.WF] at h
    simp [CStmt.toPT, Translate.statement, CExpr.translate c h.1, CStmt.translateList body h.2.1,
      CClauses.translate rest h.2.2, Translate.ocons, Translate.opair, CStmt.tr]
  | .opts os blank, h => by
    simp only [CStmt.WF] at h
    simp [CStmt.toPT, Translate.statement, COpt.translateList os blank h.1 h.2, CStmt.tr]
  | .block tx ss, h => by
    simp only [CStmt.WF] at h
    simp [CStmt.toPT, Translate.statement, CStmt.translateBlock ss (tx 1) h, CStmt.tr]
  | .set tx v t e, h => by
    simp only [CStmt.WF] at h
    obtain ⟨op, hop⟩ := Option.isSome_iff_exists.1 h.2.1
    simp [CStmt.toPT, Translate.statement, Translate.simpleStatement, CExpr.translate e h.2.2, hop, CStmt.tr]
  | .call tx (.mk f tx' lead args), h => by
    simp only [CStmt.WF] at h
    have := CCall.translate (.mk f tx' lead args) h
    cases lead <;> cases args <;>
      simp_all [CStmt.toPT, CCall.toPT, Translate.statement, Translate.simpleStatement, CStmt.tr]
  | .cmd tx els, h => by
    simp only [CStmt.WF] at h
    simp [CStmt.toPT, Translate.statement, Translate.simpleStatement, CCmdEl.translate_list els h,
      cmdArgs_of_noHole _ (noHole_rearrangeAux _ [] (CCmdEl.textsNonempty els h)), CmdArgs.rearrange, CStmt.tr]
  | .declare tx v x as, h => by
    simp only [CStmt.WF] at h
    have hx := CValue.translate x h.2
    cases as <;> simp [CStmt.toPT, declareTail, Translate.statement, Translate.simpleStatement, hx, CStmt.tr]
  | .jumpId tx dest, _ => by
    simp [CStmt.toPT, Translate.statement, Translate.simpleStatement, CStmt.tr]
  | .jumpExpr tx e, h => by
    simp only [CStmt.WF] at h
    simp [CStmt.toPT, Translate.statement, Translate.simpleStatement, CExpr.translate e h, CStmt.tr]
theorem CStmt.translateList : ∀ ss : List CStmt, CStmt.WFList ss →
    Translate.statements (CStmt.toPTs ss) = some (CStmt.trList ss)
  | [], _ => by simp [CStmt.toPTs, Translate.statements, CStmt.trList]
  | s :: ss, h => by
    simp only [CStmt.WFList] at h
    simp [CStmt.toPTs, Translate.statements, CStmt.translate s h.1, CStmt.translateList ss h.2, Translate.oapp,
      CStmt.trList]
theorem CStmt.translateBlock : ∀ (ss : List CStmt) (d : String), CStmt.WFList ss →
    Translate.block (CStmt.toPTs ss ++ [.tok .dedent d]) = some (CStmt.trList ss)
  | [], d, _ => by simp [CStmt.toPTs, Translate.block, CStmt.trList]
  | s :: ss, d, h => by
    simp only [CStmt.WFList] at h
    simp [CStmt.toPTs, Translate.block_rule _ _ s.isRule_toPT, CStmt.translate s h.1,
      CStmt.translateBlock ss d h.2, Translate.oapp, CStmt.trList]
theorem CClauses.translate : ∀ r : CClauses, r.WF → Translate.clauses r.toPTs = some r.tr
  | .endif tx, _ => by simp [CClauses.toPTs, Translate.clauses, CClauses.tr]
  | .elseif tx c body rest, h => by
    simp only [CClauses.WF] at h
    simp [CClauses.toPTs, Translate.clauses, CExpr.translate c h.1, CStmt.translateList body h.2.1,
      CClauses.translate rest h.2.2, Translate.ocons, Translate.opair, CClauses.tr]
  | .else_ tx body, h => by
    simp only [CClauses.WF] at h
    simp [CClauses.toPTs, Translate.clauses, CStmt.translateList body h, CClauses.tr]
theorem COpt.translateList : ∀ (os : List COpt) (blank : Option String), os ≠ [] → COpt.WFList os →
    Translate.options (COpt.toPTs os ++ blankPT blank) = some (COpt.trList os)
  | [], _, hne, _ => absurd rfl hne
  | [.plain tx l], blank, _, h => by
    simp only [COpt.WFList, COpt.WF] at h
    cases blank <;>
      simp [COpt.toPTs, COpt.toPT, blankPT, Translate.options, Translate.optionBody, CLine.translate l h.1,
        Translate.ocons, Translate.opair, COpt.trList]
  | [.withBody tx l ss], blank, _, h => by
    simp only [COpt.WFList, COpt.WF] at h
    cases blank <;>
      simp [COpt.toPTs, COpt.toPT, blankPT, Translate.options, Translate.optionBody, CLine.translate l h.1.1,
        CStmt.translateBlock ss (tx 2) h.1.2, Translate.ocons, Translate.opair, COpt.trList]
  | .plain tx l :: o2 :: os, blank, _, h => by
    simp only [COpt.WFList, COpt.WF] at h
    have ih := COpt.translateList (o2 :: os) blank (by simp) h.2
    simp only [COpt.toPTs, List.cons_append] at ih ⊢
    have hstep : ∀ (r : List PT),
        Translate.options (COpt.toPT (.plain tx l) :: o2.toPT :: r)
          = Translate.ocons (Translate.opair (Translate.lineStatement l.toPT) (Translate.optionBody []))
              (Translate.options (o2.toPT :: r)) := by
      intro r
      cases o2 <;> simp [COpt.toPT, Translate.options]
    rw [hstep, ih]
    simp [Translate.optionBody, CLine.translate l h.1, Translate.ocons, Translate.opair, COpt.trList]
  | .withBody tx l ss :: o2 :: os, blank, _, h => by
    simp only [COpt.WFList, COpt.WF] at h
    have ih := COpt.translateList (o2 :: os) blank (by simp) h.2
    simp only [COpt.toPTs, List.cons_append] at ih ⊢
    have hstep : ∀ (r : List PT),
        Translate.options (COpt.toPT (.withBody tx l ss) :: o2.toPT :: r)
          = Translate.ocons (Translate.opair (Translate.lineStatement l.toPT)
              (Translate.optionBody (.tok .indent (tx 1) :: (CStmt.toPTs ss ++ [.tok .dedent (tx 2)]))))
              (Translate.options (o2.toPT :: r)) := by
      intro r
      cases o2 <;> simp [COpt.toPT, Translate.options]
    rw [hstep, ih]
    simp [Translate.optionBody, CLine.translate l h.1.1, CStmt.translateBlock ss (tx 2) h.1.2, Translate.ocons,
      Translate.opair, COpt.trList]
end


/-! ### nodes and dialogues -/

structure CHeader where
  key : String
  /-- the text of HEADER_DELIMITER -/
  delim : String
  value : Option String

structure CNode where
  headers : List CHeader
  tx : Tx
  body : List CStmt

structure CDialogue where
  /-- `file_hashtag*`: the texts of HASHTAG and HASHTAG_TEXT -/
  fileTags : List (String × String)
  nodes : List CNode

def CHeader.toPT (h : CHeader) : PT :=
  match h.value with
  | none => .rule .header [.tok .id h.key, .tok .headerDelimiter h.delim]
  | some v => .rule .header [.tok .id h.key, .tok .headerDelimiter h.delim, .tok .restOfLine v]

def CNode.toPT (n : CNode) : PT :=
  .rule .node (n.headers.map CHeader.toPT ++
    [.tok .bodyStart (n.tx 0), .rule .body (CStmt.toPTs n.body), .tok .bodyEnd (n.tx 1)])

def fileTagPT (t : String × String) : PT := .rule .fileHashtag [.tok .hashtag t.1, .tok .hashtagText t.2]

def CDialogue.toPT (d : CDialogue) : PT := .rule .dialogue (d.fileTags.map fileTagPT ++ d.nodes.map CNode.toPT)

structure CNode.WF (n : CNode) : Prop where
  headers : n.headers ≠ []
  body : CStmt.WFList n.body

structure CDialogue.WF (d : CDialogue) : Prop where
  nodes : d.nodes ≠ []
  each : ∀ n ∈ d.nodes, n.WF

/-- the headers as written: key and value (the empty string when the value is absent) -/
def CHeader.kv (h : CHeader) : String × String := (h.key, h.value.getD "")

def CNode.tr (n : CNode) : DNode :=
  { title := Translate.headerValue (n.headers.map CHeader.kv) "title"
    tracking := Translate.headerValue (n.headers.map CHeader.kv) "tracking"
    body := CStmt.trList n.body }

def CDialogue.tr (d : CDialogue) : Dialogue := d.nodes.map CNode.tr

theorem translate_headers (tx : Tx) (body : List CStmt) (hb : CStmt.WFList body) : ∀ hs : List CHeader,
    Translate.headers (hs.map CHeader.toPT ++ [.tok .bodyStart (tx 0), .rule .body (CStmt.toPTs body), .tok .bodyEnd (tx 1)])
      = some (hs.map CHeader.kv, CStmt.trList body)
  | [] => by simp [Translate.headers, CStmt.translateList body hb]
  | h :: hs => by
    have ih := translate_headers tx body hb hs
    rcases h with ⟨k, d, v⟩
    cases v <;> simp [CHeader.toPT, Translate.headers, ih, CHeader.kv]

theorem CNode.translate (n : CNode) (h : n.WF) : Translate.node n.toPT = some n.tr := by
  rcases n with ⟨hs, tx, body⟩
  have hh := translate_headers tx body h.body hs
  cases hs with
  | nil => exact absurd rfl h.headers
  | cons h0 hs =>
    rcases h0 with ⟨k, d, v⟩
    cases v <;> simp_all [CNode.toPT, CHeader.toPT, Translate.node, CNode.tr]

theorem CNode.isRule_toPT (n : CNode) : ∃ cs, n.toPT = .rule .node cs := ⟨_, rfl⟩

theorem translate_nodes : ∀ ns : List CNode, ns ≠ [] → (∀ n ∈ ns, n.WF) →
    Translate.nodes (ns.map CNode.toPT) = some (ns.map CNode.tr)
  | [], h, _ => absurd rfl h
  | [n], _, h => by simp [Translate.nodes, CNode.translate n (h n (by simp))]
  | n :: n2 :: ns, _, h => by
    have ih := translate_nodes (n2 :: ns) (by simp) (fun m hm => h m (by simp [hm]))
    simp only [List.map] at ih ⊢
    simp [Translate.nodes, CNode.translate n (h n (by simp)), ih, Translate.ocons]

theorem translate_fileTags (rest : List PT) (hr : ∀ c cs, rest.head? = some (.rule c cs) → c ≠ .fileHashtag) :
    ∀ ts : List (String × String), Translate.fileTagsThenNodes (ts.map fileTagPT ++ rest) = Translate.nodes rest
  | [] => by
    simp only [List.map, List.nil_append]
    cases rest with
    | nil => simp [Translate.fileTagsThenNodes]
    | cons t r =>
      cases t with
      | rule c cs =>
        have := hr c cs rfl
        cases c <;> simp_all [Translate.fileTagsThenNodes]
      | tok _ _ => simp [Translate.fileTagsThenNodes]
      | err => simp [Translate.fileTagsThenNodes]
  | t :: ts => by simp [fileTagPT, Translate.fileTagsThenNodes, translate_fileTags rest hr ts]

theorem CDialogue.translate (d : CDialogue) (h : d.WF) : Translate.translate d.toPT = some d.tr := by
  simp only [CDialogue.toPT, Translate.translate]
  rw [translate_fileTags _ (by
    intro c cs hc
    cases hn : d.nodes with
    | nil => simp [hn] at hc
    | cons n ns =>
      simp [hn, CNode.toPT] at hc
      exact hc.1 ▸ (by decide)) d.fileTags]
  exact translate_nodes d.nodes h.nodes h.each

end Ysgo.Listener
