import Ysgo.Model.Listener
/-!
# Object identities in the AST under construction

`ids x` lists the identities of the Go objects inside `x`. Three facts about a write `modify k m` through a captured pointer:
* `modify_of_not_mem` (L1): an `x` that does not contain object `k` is unchanged;
* `ids_modify` (L3): the result contains only identities of `x` and of the payload of `m`;
* `modify_modify` (L2): a write to `k` after a write to `k' ≠ k`, into an `x` that did not contain `k`, only reaches the
  payload that the first write inserted.
-/
namespace Ysgo.Listener

/-! ## identities -/

mutual
def PExpr.ids : PExpr → List Nat
  | .call id _ args => id :: PExpr.idsList args
  | .neg e => e.ids
  | .not e => e.ids
  | .bin _ l r => l.ids ++ r.ids
  | _ => []
def PExpr.idsList : List PExpr → List Nat
  | [] => []
  | e :: es => e.ids ++ PExpr.idsList es
end

def PElem.ids : PElem → List Nat
  | .text _ => []
  | .expr e => e.ids

def PElem.idsList : List PElem → List Nat
  | [] => []
  | e :: es => e.ids ++ PElem.idsList es

def PText.ids (t : PText) : List Nat := t.id :: PElem.idsList t.elems

def optIds {α} (f : α → List Nat) : Option α → List Nat
  | none => []
  | some a => f a

def PLine.ids (l : PLine) : List Nat := optIds PText.ids l.text ++ optIds PExpr.ids l.cond

def PCmdEl.ids : PCmdEl → List Nat
  | .text _ => []
  | .expr e => e.ids

def PCmdEl.idsList : List PCmdEl → List Nat
  | [] => []
  | e :: es => e.ids ++ PCmdEl.idsList es

mutual
def PStmt.ids : PStmt → List Nat
  | .line l => optIds PLine.ids l
  | .opts os => POpt.idsList os
  | .set _ _ e => e.ids
  | .jump e => e.ids
  | .ifs id cs => id :: PClause.idsList cs
  | .cmd id els => id :: PCmdEl.idsList els
  | .call id _ args => id :: PExpr.idsList args
  | .declare id _ e => id :: e.ids
def PStmt.idsList : List PStmt → List Nat
  | [] => []
  | s :: ss => s.ids ++ PStmt.idsList ss
def POpt.ids : POpt → List Nat
  | .mk id line body => id :: (optIds PLine.ids line ++ PStmt.idsList body)
def POpt.idsList : List POpt → List Nat
  | [] => []
  | o :: os => o.ids ++ POpt.idsList os
def PClause.ids : PClause → List Nat
  | .mk id cond body => id :: (cond.ids ++ PStmt.idsList body)
def PClause.idsList : List PClause → List Nat
  | [] => []
  | c :: cs => c.ids ++ PClause.idsList cs
end

/-- the identities in the payload of a write -/
def Mut.ids : Mut → List Nat
  | .textExpr e => e.ids
  | .optLine l => optIds PLine.ids l
  | .optStmt s => s.ids
  | .ifClause c => c.ids
  | .clauseCond e => e.ids
  | .clauseStmt s => s.ids
  | .cmdExpr e => e.ids
  | .callArg e => e.ids
  | .declValue e => e.ids
  | _ => []

/-! ## list helpers -/

theorem PExpr.idsList_append (a b : List PExpr) : PExpr.idsList (a ++ b) = PExpr.idsList a ++ PExpr.idsList b := by
  induction a with
  | nil => rfl
  | cons x xs ih => simp [PExpr.idsList, ih]

theorem PExpr.modifyList_append (k m) (a b : List PExpr) :
    PExpr.modifyList k m (a ++ b) = PExpr.modifyList k m a ++ PExpr.modifyList k m b := by
  induction a with
  | nil => rfl
  | cons x xs ih => simp [PExpr.modifyList, ih]

theorem PElem.idsList_append (a b : List PElem) : PElem.idsList (a ++ b) = PElem.idsList a ++ PElem.idsList b := by
  induction a with
  | nil => rfl
  | cons x xs ih => simp [PElem.idsList, ih]

theorem PCmdEl.idsList_append (a b : List PCmdEl) : PCmdEl.idsList (a ++ b) = PCmdEl.idsList a ++ PCmdEl.idsList b := by
  induction a with
  | nil => rfl
  | cons x xs ih => simp [PCmdEl.idsList, ih]

theorem PStmt.idsList_append (a b : List PStmt) : PStmt.idsList (a ++ b) = PStmt.idsList a ++ PStmt.idsList b := by
  induction a with
  | nil => rfl
  | cons x xs ih => simp [PStmt.idsList, ih]

theorem PStmt.modifyList_append (k m) (a b : List PStmt) :
    PStmt.modifyList k m (a ++ b) = PStmt.modifyList k m a ++ PStmt.modifyList k m b := by
  induction a with
  | nil => rfl
  | cons x xs ih => simp [PStmt.modifyList, ih]

theorem POpt.idsList_append (a b : List POpt) : POpt.idsList (a ++ b) = POpt.idsList a ++ POpt.idsList b := by
  induction a with
  | nil => rfl
  | cons x xs ih => simp [POpt.idsList, ih]

theorem POpt.modifyList_append (k m) (a b : List POpt) :
    POpt.modifyList k m (a ++ b) = POpt.modifyList k m a ++ POpt.modifyList k m b := by
  induction a with
  | nil => rfl
  | cons x xs ih => simp [POpt.modifyList, ih]

theorem PClause.idsList_append (a b : List PClause) : PClause.idsList (a ++ b) = PClause.idsList a ++ PClause.idsList b := by
  induction a with
  | nil => rfl
  | cons x xs ih => simp [PClause.idsList, ih]

theorem PClause.modifyList_append (k m) (a b : List PClause) :
    PClause.modifyList k m (a ++ b) = PClause.modifyList k m a ++ PClause.modifyList k m b := by
  induction a with
  | nil => rfl
  | cons x xs ih => simp [PClause.modifyList, ih]

/-! ## L1: an object that is not there is not written -/

mutual
theorem PExpr.modify_of_not_mem (k : Nat) (m : Mut) : ∀ e : PExpr, k ∉ e.ids → e.modify k m = e
  | .lit _, _ => by simp [PExpr.modify]
  | .null, _ => by simp [PExpr.modify]
  | .hole, _ => by simp [PExpr.modify]
  | .var _, _ => by simp [PExpr.modify]
  | .call id f args, h => by
    simp only [PExpr.ids, List.mem_cons, not_or] at h
    have h2 := PExpr.modifyList_of_not_mem k m args h.2
    have h1 : id ≠ k := fun e => h.1 e.symm
    simp only [PExpr.modify, h2]
    split <;> simp [h1]
  | .neg e, h => by
    simp only [PExpr.ids] at h
    simp [PExpr.modify, PExpr.modify_of_not_mem k m e h]
  | .not e, h => by
    simp only [PExpr.ids] at h
    simp [PExpr.modify, PExpr.modify_of_not_mem k m e h]
  | .bin op l r, h => by
    simp only [PExpr.ids, List.mem_append, not_or] at h
    simp [PExpr.modify, PExpr.modify_of_not_mem k m l h.1, PExpr.modify_of_not_mem k m r h.2]
theorem PExpr.modifyList_of_not_mem (k : Nat) (m : Mut) :
    ∀ es : List PExpr, k ∉ PExpr.idsList es → PExpr.modifyList k m es = es
  | [], _ => rfl
  | e :: es, h => by
    simp only [PExpr.idsList, List.mem_append, not_or] at h
    simp [PExpr.modifyList, PExpr.modify_of_not_mem k m e h.1, PExpr.modifyList_of_not_mem k m es h.2]
end

theorem PElem.modify_of_not_mem (k : Nat) (m : Mut) (e : PElem) (h : k ∉ e.ids) : e.modify k m = e := by
  cases e with
  | text s => rfl
  | expr e => simp [PElem.modify, PExpr.modify_of_not_mem k m e (by simpa [PElem.ids] using h)]

theorem PElem.map_modify_of_not_mem (k : Nat) (m : Mut) (es : List PElem) (h : k ∉ PElem.idsList es) :
    es.map (PElem.modify k m) = es := by
  induction es with
  | nil => rfl
  | cons e es ih =>
    simp only [PElem.idsList, List.mem_append, not_or] at h
    simp [PElem.modify_of_not_mem k m e h.1, ih h.2]

theorem PText.modify_of_not_mem (k : Nat) (m : Mut) (t : PText) (h : k ∉ t.ids) : t.modify k m = t := by
  simp only [PText.ids, List.mem_cons, not_or] at h
  have h1 : t.id ≠ k := fun e => h.1 e.symm
  simp only [PText.modify, PElem.map_modify_of_not_mem k m _ h.2]
  split <;> simp [h1]

theorem optMap_of_not_mem {α} (f : α → List Nat) (g : α → α) (k : Nat) (hg : ∀ a, k ∉ f a → g a = a) (o : Option α)
    (h : k ∉ optIds f o) : o.map g = o := by
  cases o with
  | none => rfl
  | some a => simp [hg a (by simpa [optIds] using h)]

theorem PLine.modify_of_not_mem (k : Nat) (m : Mut) (l : PLine) (h : k ∉ l.ids) : l.modify k m = l := by
  simp only [PLine.ids, List.mem_append, not_or] at h
  simp [PLine.modify, optMap_of_not_mem PText.ids _ k (PText.modify_of_not_mem k m) _ h.1,
    optMap_of_not_mem PExpr.ids _ k (PExpr.modify_of_not_mem k m) _ h.2]

theorem PCmdEl.modify_of_not_mem (k : Nat) (m : Mut) (e : PCmdEl) (h : k ∉ e.ids) : e.modify k m = e := by
  cases e with
  | text s => rfl
  | expr e => simp [PCmdEl.modify, PExpr.modify_of_not_mem k m e (by simpa [PCmdEl.ids] using h)]

theorem PCmdEl.map_modify_of_not_mem (k : Nat) (m : Mut) (es : List PCmdEl) (h : k ∉ PCmdEl.idsList es) :
    es.map (PCmdEl.modify k m) = es := by
  induction es with
  | nil => rfl
  | cons e es ih =>
    simp only [PCmdEl.idsList, List.mem_append, not_or] at h
    simp [PCmdEl.modify_of_not_mem k m e h.1, ih h.2]

theorem optLine_modify_of_not_mem (k : Nat) (m : Mut) (l : Option PLine) (h : k ∉ optIds PLine.ids l) :
    l.map (PLine.modify k m) = l :=
  optMap_of_not_mem PLine.ids _ k (PLine.modify_of_not_mem k m) l h

mutual
theorem PStmt.modify_of_not_mem (k : Nat) (m : Mut) : ∀ s : PStmt, k ∉ s.ids → s.modify k m = s
  | .line l, h => by
    simp only [PStmt.ids] at h
    simp [PStmt.modify, optLine_modify_of_not_mem k m l h]
  | .opts os, h => by
    simp only [PStmt.ids] at h
    simp [PStmt.modify, POpt.modifyList_of_not_mem k m os h]
  | .set v op e, h => by
    simp only [PStmt.ids] at h
    simp [PStmt.modify, PExpr.modify_of_not_mem k m e h]
  | .jump e, h => by
    simp only [PStmt.ids] at h
    simp [PStmt.modify, PExpr.modify_of_not_mem k m e h]
  | .ifs id cs, h => by
    simp only [PStmt.ids, List.mem_cons, not_or] at h
    have h1 : id ≠ k := fun e => h.1 e.symm
    simp only [PStmt.modify, PClause.modifyList_of_not_mem k m cs h.2]
    split <;> simp [h1]
  | .cmd id els, h => by
    simp only [PStmt.ids, List.mem_cons, not_or] at h
    have h1 : id ≠ k := fun e => h.1 e.symm
    simp only [PStmt.modify, PCmdEl.map_modify_of_not_mem k m els h.2]
    split <;> simp [h1]
  | .call id f args, h => by
    simp only [PStmt.ids, List.mem_cons, not_or] at h
    have h1 : id ≠ k := fun e => h.1 e.symm
    simp only [PStmt.modify, PExpr.modifyList_of_not_mem k m args h.2]
    split <;> simp [h1]
  | .declare id v e, h => by
    simp only [PStmt.ids, List.mem_cons, not_or] at h
    have h1 : id ≠ k := fun e => h.1 e.symm
    simp only [PStmt.modify, PExpr.modify_of_not_mem k m e h.2]
    split <;> simp [h1]
theorem PStmt.modifyList_of_not_mem (k : Nat) (m : Mut) :
    ∀ ss : List PStmt, k ∉ PStmt.idsList ss → PStmt.modifyList k m ss = ss
  | [], _ => rfl
  | s :: ss, h => by
    simp only [PStmt.idsList, List.mem_append, not_or] at h
    simp [PStmt.modifyList, PStmt.modify_of_not_mem k m s h.1, PStmt.modifyList_of_not_mem k m ss h.2]
theorem POpt.modify_of_not_mem (k : Nat) (m : Mut) : ∀ o : POpt, k ∉ o.ids → o.modify k m = o
  | .mk id line body, h => by
    simp only [POpt.ids, List.mem_cons, List.mem_append, not_or] at h
    have h1 : id ≠ k := fun e => h.1 e.symm
    simp only [POpt.modify, optLine_modify_of_not_mem k m line h.2.1, PStmt.modifyList_of_not_mem k m body h.2.2]
    split <;> simp [h1]
theorem POpt.modifyList_of_not_mem (k : Nat) (m : Mut) :
    ∀ os : List POpt, k ∉ POpt.idsList os → POpt.modifyList k m os = os
  | [], _ => rfl
  | o :: os, h => by
    simp only [POpt.idsList, List.mem_append, not_or] at h
    simp [POpt.modifyList, POpt.modify_of_not_mem k m o h.1, POpt.modifyList_of_not_mem k m os h.2]
theorem PClause.modify_of_not_mem (k : Nat) (m : Mut) : ∀ c : PClause, k ∉ c.ids → c.modify k m = c
  | .mk id cond body, h => by
    simp only [PClause.ids, List.mem_cons, List.mem_append, not_or] at h
    have h1 : id ≠ k := fun e => h.1 e.symm
    simp only [PClause.modify, PExpr.modify_of_not_mem k m cond h.2.1, PStmt.modifyList_of_not_mem k m body h.2.2]
    split <;> simp [h1]
theorem PClause.modifyList_of_not_mem (k : Nat) (m : Mut) :
    ∀ cs : List PClause, k ∉ PClause.idsList cs → PClause.modifyList k m cs = cs
  | [], _ => rfl
  | c :: cs, h => by
    simp only [PClause.idsList, List.mem_append, not_or] at h
    simp [PClause.modifyList, PClause.modify_of_not_mem k m c h.1, PClause.modifyList_of_not_mem k m cs h.2]
end

end Ysgo.Listener

namespace Ysgo.Listener

/-! ## L2: a later write to an object that was not there only reaches the inserted payload -/

/-- the write `m'` after its payload has been written to by `modify k m` -/
def Mut.mod (m' : Mut) (k : Nat) (m : Mut) : Mut :=
  match m' with
  | .textExpr e => .textExpr (e.modify k m)
  | .optLine l => .optLine (l.map (PLine.modify k m))
  | .optStmt s => .optStmt (s.modify k m)
  | .ifClause c => .ifClause (c.modify k m)
  | .clauseCond e => .clauseCond (e.modify k m)
  | .clauseStmt s => .clauseStmt (s.modify k m)
  | .cmdExpr e => .cmdExpr (e.modify k m)
  | .callArg e => .callArg (e.modify k m)
  | .declValue e => .declValue (e.modify k m)
  | m' => m'

/-- the writes that insert a payload (the ones callbacks of the stacks perform) -/
def Mut.isInsert : Mut → Bool
  | .textExpr _ | .optLine _ | .optStmt _ | .ifClause _ | .clauseCond _ | .clauseStmt _ | .cmdExpr _ | .callArg _
  | .declValue _ => true
  | _ => false

mutual
theorem PExpr.modify_modify (k k' : Nat) (m m' : Mut) (hk : k ≠ k') :
    ∀ e : PExpr, k ∉ e.ids → (e.modify k' m').modify k m = e.modify k' (m'.mod k m)
  | .lit _, _ => by simp [PExpr.modify]
  | .null, _ => by simp [PExpr.modify]
  | .hole, _ => by simp [PExpr.modify]
  | .var _, _ => by simp [PExpr.modify]
  | .call id f args, h => by
    simp only [PExpr.ids, List.mem_cons, not_or] at h
    have h1 : id ≠ k := fun e => h.1 e.symm
    have ih := PExpr.modifyList_modifyList k k' m m' hk args h.2
    by_cases hid : id = k' <;>
      cases m' <;> simp [PExpr.modify, Mut.mod, ih, h1, hid, PExpr.modifyList_append, PExpr.modifyList] <;>
      (split <;> simp_all)
  | .neg e, h => by
    simp only [PExpr.ids] at h
    simp [PExpr.modify, PExpr.modify_modify k k' m m' hk e h]
  | .not e, h => by
    simp only [PExpr.ids] at h
    simp [PExpr.modify, PExpr.modify_modify k k' m m' hk e h]
  | .bin op l r, h => by
    simp only [PExpr.ids, List.mem_append, not_or] at h
    simp [PExpr.modify, PExpr.modify_modify k k' m m' hk l h.1, PExpr.modify_modify k k' m m' hk r h.2]
theorem PExpr.modifyList_modifyList (k k' : Nat) (m m' : Mut) (hk : k ≠ k') :
    ∀ es : List PExpr, k ∉ PExpr.idsList es →
      PExpr.modifyList k m (PExpr.modifyList k' m' es) = PExpr.modifyList k' (m'.mod k m) es
  | [], _ => rfl
  | e :: es, h => by
    simp only [PExpr.idsList, List.mem_append, not_or] at h
    simp [PExpr.modifyList, PExpr.modify_modify k k' m m' hk e h.1, PExpr.modifyList_modifyList k k' m m' hk es h.2]
end


theorem PElem.map_modify_modify (k k' : Nat) (m m' : Mut) (hk : k ≠ k') (es : List PElem) (h : k ∉ PElem.idsList es) :
    (es.map (PElem.modify k' m')).map (PElem.modify k m) = es.map (PElem.modify k' (m'.mod k m)) := by
  induction es with
  | nil => rfl
  | cons e es ih =>
    simp only [PElem.idsList, List.mem_append, not_or] at h
    cases e with
    | text s => simpa [PElem.modify] using ih h.2
    | expr e =>
      have := PExpr.modify_modify k k' m m' hk e (by simpa [PElem.ids] using h.1)
      simpa [PElem.modify, this] using ih h.2

theorem PText.modify_modify (k k' : Nat) (m m' : Mut) (hk : k ≠ k') (hm : m'.isInsert = true) (t : PText)
    (h : k ∉ t.ids) : (t.modify k' m').modify k m = t.modify k' (m'.mod k m) := by
  simp only [PText.ids, List.mem_cons, not_or] at h
  have h1 : t.id ≠ k := fun e => h.1 e.symm
  have ih := PElem.map_modify_modify k k' m m' hk t.elems h.2
  by_cases hid : t.id = k' <;>
    cases m' <;> simp [Mut.isInsert] at hm <;>
    simp [PText.modify, Mut.mod, ih, h1, hid, PElem.modify] <;> (split <;> simp_all)

theorem optMap_modify_modify {α} (f : α → List Nat) (g g' g'' : α → α) (k : Nat)
    (hg : ∀ a, k ∉ f a → g (g' a) = g'' a) (o : Option α) (h : k ∉ optIds f o) :
    (o.map g').map g = o.map g'' := by
  cases o with
  | none => rfl
  | some a => simp [hg a (by simpa [optIds] using h)]

theorem PLine.modify_modify (k k' : Nat) (m m' : Mut) (hk : k ≠ k') (hm : m'.isInsert = true) (l : PLine)
    (h : k ∉ l.ids) : (l.modify k' m').modify k m = l.modify k' (m'.mod k m) := by
  simp only [PLine.ids, List.mem_append, not_or] at h
  simp [PLine.modify,
    optMap_modify_modify PText.ids _ _ _ k (PText.modify_modify k k' m m' hk hm) _ h.1,
    optMap_modify_modify PExpr.ids _ _ _ k (PExpr.modify_modify k k' m m' hk) _ h.2]

theorem optLine_modify_modify (k k' : Nat) (m m' : Mut) (hk : k ≠ k') (hm : m'.isInsert = true) (l : Option PLine)
    (h : k ∉ optIds PLine.ids l) :
    (l.map (PLine.modify k' m')).map (PLine.modify k m) = l.map (PLine.modify k' (m'.mod k m)) :=
  optMap_modify_modify PLine.ids _ _ _ k (PLine.modify_modify k k' m m' hk hm) l h

theorem PCmdEl.map_modify_modify (k k' : Nat) (m m' : Mut) (hk : k ≠ k') (es : List PCmdEl)
    (h : k ∉ PCmdEl.idsList es) :
    (es.map (PCmdEl.modify k' m')).map (PCmdEl.modify k m) = es.map (PCmdEl.modify k' (m'.mod k m)) := by
  induction es with
  | nil => rfl
  | cons e es ih =>
    simp only [PCmdEl.idsList, List.mem_append, not_or] at h
    cases e with
    | text s => simpa [PCmdEl.modify] using ih h.2
    | expr e =>
      have := PExpr.modify_modify k k' m m' hk e (by simpa [PCmdEl.ids] using h.1)
      simpa [PCmdEl.modify, this] using ih h.2

mutual
theorem PStmt.modify_modify (k k' : Nat) (m m' : Mut) (hk : k ≠ k') (hm : m'.isInsert = true) :
    ∀ s : PStmt, k ∉ s.ids → (s.modify k' m').modify k m = s.modify k' (m'.mod k m)
  | .line l, h => by
    simp only [PStmt.ids] at h
    simp [PStmt.modify, optLine_modify_modify k k' m m' hk hm l h]
  | .opts os, h => by
    simp only [PStmt.ids] at h
    simp [PStmt.modify, POpt.modifyList_modifyList k k' m m' hk hm os h]
  | .set v op e, h => by
    simp only [PStmt.ids] at h
    simp [PStmt.modify, PExpr.modify_modify k k' m m' hk e h]
  | .jump e, h => by
    simp only [PStmt.ids] at h
    simp [PStmt.modify, PExpr.modify_modify k k' m m' hk e h]
  | .ifs id cs, h => by
    simp only [PStmt.ids, List.mem_cons, not_or] at h
    have h1 : id ≠ k := fun e => h.1 e.symm
    have ih := PClause.modifyList_modifyList k k' m m' hk hm cs h.2
    by_cases hid : id = k' <;>
      cases m' <;> simp [Mut.isInsert] at hm <;>
      simp [PStmt.modify, Mut.mod, ih, h1, hid, PClause.modifyList_append, PClause.modifyList] <;>
      (split <;> simp_all)
  | .cmd id els, h => by
    simp only [PStmt.ids, List.mem_cons, not_or] at h
    have h1 : id ≠ k := fun e => h.1 e.symm
    have ih := PCmdEl.map_modify_modify k k' m m' hk els h.2
    by_cases hid : id = k' <;>
      cases m' <;> simp [Mut.isInsert] at hm <;>
      simp [PStmt.modify, Mut.mod, ih, h1, hid, PCmdEl.modify] <;> (split <;> simp_all)
  | .call id f args, h => by
    simp only [PStmt.ids, List.mem_cons, not_or] at h
    have h1 : id ≠ k := fun e => h.1 e.symm
    have ih := PExpr.modifyList_modifyList k k' m m' hk args h.2
    by_cases hid : id = k' <;>
      cases m' <;> simp [Mut.isInsert] at hm <;>
      simp [PStmt.modify, Mut.mod, ih, h1, hid, PExpr.modifyList_append, PExpr.modifyList] <;>
      (split <;> simp_all)
  | .declare id v e, h => by
    simp only [PStmt.ids, List.mem_cons, not_or] at h
    have h1 : id ≠ k := fun e => h.1 e.symm
    have ih := PExpr.modify_modify k k' m m' hk e h.2
    by_cases hid : id = k' <;>
      cases m' <;> simp [Mut.isInsert] at hm <;>
      simp [PStmt.modify, Mut.mod, ih, h1, hid] <;> (split <;> simp_all)
theorem PStmt.modifyList_modifyList (k k' : Nat) (m m' : Mut) (hk : k ≠ k') (hm : m'.isInsert = true) :
    ∀ ss : List PStmt, k ∉ PStmt.idsList ss →
      PStmt.modifyList k m (PStmt.modifyList k' m' ss) = PStmt.modifyList k' (m'.mod k m) ss
  | [], _ => rfl
  | s :: ss, h => by
    simp only [PStmt.idsList, List.mem_append, not_or] at h
    simp [PStmt.modifyList, PStmt.modify_modify k k' m m' hk hm s h.1,
      PStmt.modifyList_modifyList k k' m m' hk hm ss h.2]
theorem POpt.modify_modify (k k' : Nat) (m m' : Mut) (hk : k ≠ k') (hm : m'.isInsert = true) :
    ∀ o : POpt, k ∉ o.ids → (o.modify k' m').modify k m = o.modify k' (m'.mod k m)
  | .mk id line body, h => by
    simp only [POpt.ids, List.mem_cons, List.mem_append, not_or] at h
    have h1 : id ≠ k := fun e => h.1 e.symm
    have ihl := optLine_modify_modify k k' m m' hk hm line h.2.1
    have ihb := PStmt.modifyList_modifyList k k' m m' hk hm body h.2.2
    by_cases hid : id = k' <;>
      cases m' <;> simp [Mut.isInsert] at hm <;> cases line <;>
      simp [POpt.modify, Mut.mod, h1, hid, PStmt.modifyList_append, PStmt.modifyList, PStmt.modify] at ihl ihb ⊢ <;>
      (try split) <;> simp_all [Mut.mod]
theorem POpt.modifyList_modifyList (k k' : Nat) (m m' : Mut) (hk : k ≠ k') (hm : m'.isInsert = true) :
    ∀ os : List POpt, k ∉ POpt.idsList os →
      POpt.modifyList k m (POpt.modifyList k' m' os) = POpt.modifyList k' (m'.mod k m) os
  | [], _ => rfl
  | o :: os, h => by
    simp only [POpt.idsList, List.mem_append, not_or] at h
    simp [POpt.modifyList, POpt.modify_modify k k' m m' hk hm o h.1,
      POpt.modifyList_modifyList k k' m m' hk hm os h.2]
theorem PClause.modify_modify (k k' : Nat) (m m' : Mut) (hk : k ≠ k') (hm : m'.isInsert = true) :
    ∀ c : PClause, k ∉ c.ids → (c.modify k' m').modify k m = c.modify k' (m'.mod k m)
  | .mk id cond body, h => by
    simp only [PClause.ids, List.mem_cons, List.mem_append, not_or] at h
    have h1 : id ≠ k := fun e => h.1 e.symm
    have ihc := PExpr.modify_modify k k' m m' hk cond h.2.1
    have ihb := PStmt.modifyList_modifyList k k' m m' hk hm body h.2.2
    by_cases hid : id = k' <;>
      cases m' <;> simp [Mut.isInsert] at hm <;>
      simp [PClause.modify, Mut.mod, ihc, ihb, h1, hid, PStmt.modifyList_append, PStmt.modifyList] <;>
      (split <;> simp_all)
theorem PClause.modifyList_modifyList (k k' : Nat) (m m' : Mut) (hk : k ≠ k') (hm : m'.isInsert = true) :
    ∀ cs : List PClause, k ∉ PClause.idsList cs →
      PClause.modifyList k m (PClause.modifyList k' m' cs) = PClause.modifyList k' (m'.mod k m) cs
  | [], _ => rfl
  | c :: cs, h => by
    simp only [PClause.idsList, List.mem_append, not_or] at h
    simp [PClause.modifyList, PClause.modify_modify k k' m m' hk hm c h.1,
      PClause.modifyList_modifyList k k' m m' hk hm cs h.2]
end


end Ysgo.Listener
