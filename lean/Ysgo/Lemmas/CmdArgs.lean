import Ysgo.Spec.CmdArgs
import Ysgo.Model.Unicode
/-! helper lemmas for C17 -/
namespace Ysgo.CmdArgs
open Ysgo

/-! ### the white space set is the table dumped from the Go toolchain -/

/-- `isSpaceGo` (the 25 code points written out) is `unicode.IsSpace` as regenerated from the Go toolchain in use
(`Ysgo/Generated/Unicode.lean`): the proof breaks if the table changes -/
theorem isSpaceGo_eq_unicode (c : Char) : isSpaceGo c = Unicode.isSpace c := by
  unfold isSpaceGo Unicode.isSpace Unicode.inRangesLin Ysgo.Generated.Unicode.spaceRanges
  simp only [List.any_cons, List.any_nil, Bool.or_false]
  generalize c.toNat = n
  rw [Bool.eq_iff_iff]
  simp only [Bool.or_eq_true, Bool.and_eq_true, decide_eq_true_eq]
  omega

/-! ### strings.Fields on rendered words -/

theorem aux_spaces (sp : List Char) (h : AllSp sp) (rest : List Char) :
    fieldsAux (sp ++ rest) [] = fieldsAux rest [] := by
  induction sp with
  | nil => rfl
  | cons c cs ih =>
    have hc : isSpaceGo c = true := h c (by simp)
    simp only [List.cons_append, fieldsAux, hc, ↓reduceIte, List.isEmpty_nil]
    exact ih (fun c' hc' => h c' (by simp [hc']))

theorem aux_word (w : List Char) (hw : ∀ c ∈ w, isSpaceGo c = false) (acc rest : List Char) :
    fieldsAux (w ++ rest) acc = fieldsAux rest (w.reverse ++ acc) := by
  induction w generalizing acc with
  | nil => rfl
  | cons c cs ih =>
    have hc : isSpaceGo c = false := hw c (by simp)
    simp only [List.cons_append, fieldsAux, hc, Bool.false_eq_true, ↓reduceIte]
    rw [ih (fun c' hc' => hw c' (by simp [hc']))]
    simp

theorem aux_word_sep (w : List Char) (hw : Word w) (sp : List Char) (hs : AllSp sp) (hne : sp ≠ [])
    (rest : List Char) : fieldsAux (w ++ sp ++ rest) [] = w :: fieldsAux rest [] := by
  rw [List.append_assoc, aux_word w hw.2]
  cases sp with
  | nil => exact absurd rfl hne
  | cons c cs =>
    have hc : isSpaceGo c = true := hs c (by simp)
    have hwne : w.reverse.isEmpty = false := by
      cases w with
      | nil => exact absurd rfl hw.1
      | cons a t => simp
    simp only [List.cons_append, fieldsAux, hc, ↓reduceIte, List.append_nil, hwne, Bool.false_eq_true,
      List.reverse_reverse]
    congr 1
    exact aux_spaces cs (fun c' hc' => hs c' (by simp [hc'])) rest

theorem aux_word_end (w : List Char) (hw : Word w) : fieldsAux w [] = [w] := by
  have := aux_word w hw.2 [] []
  simp only [List.append_nil] at this
  rw [this]
  cases w with
  | nil => exact absurd rfl hw.1
  | cons a t => simp [fieldsAux]

/-- whatever the amount and kind of white space, the fields are exactly the words, in order -/
theorem fields_render (lead : List Char) (hl : AllSp lead) :
    ∀ ws : List (List Char × List Char), GoodWords ws → fields (lead ++ render ws) = ws.map (·.1) := by
  intro ws hg
  unfold fields
  rw [aux_spaces lead hl]
  induction ws with
  | nil => simp [render, fieldsAux]
  | cons p r ih =>
    obtain ⟨w, sp⟩ := p
    cases r with
    | nil =>
      obtain ⟨hw, hs⟩ := hg
      simp only [render, List.append_nil, List.map_cons, List.map_nil]
      cases sp with
      | nil => simpa using aux_word_end w hw
      | cons c cs =>
        have := aux_word_sep w hw (c :: cs) hs (by simp) []
        simpa [fieldsAux] using this
    | cons p' r' =>
      obtain ⟨hw, hs, hne, hr⟩ := hg
      simp only [render, List.map_cons] at ih ⊢
      rw [aux_word_sep w hw sp hs hne]
      congr 1
      exact ih hr

theorem split_seg {α} (g : Seg) (hg : g.Good) :
    (split g.text : List (Arg α)) = g.words.map (fun w => .word (classify w)) := by
  simp [split, Seg.text, Seg.words, fields_render g.lead hg.1 g.ws hg.2.1]

/-! ### rearrange -/

/-- consecutive text chunks only extend the accumulator -/
theorem rearrangeAux_chunks {α} (cs : List (List Char)) (h : ∀ c ∈ cs, c ≠ []) (rest : List (Elem α)) (acc : List Char) :
    rearrangeAux (cs.map .text ++ rest) acc = rearrangeAux rest (acc ++ cs.flatten) := by
  induction cs generalizing acc with
  | nil => simp
  | cons c cs ih =>
    have hc : c.isEmpty = false := by
      cases c with
      | nil => exact absurd rfl (h [] (by simp))
      | cons a t => rfl
    simp only [List.map_cons, List.cons_append, rearrangeAux, hc, Bool.false_eq_true, ↓reduceIte, List.flatten_cons]
    rw [ih (fun c' hc' => h c' (by simp [hc']))]
    simp

theorem rearrangeAux_expr {α} (e : α) (rest : List (Elem α)) (acc : List Char) :
    rearrangeAux (.expr e :: rest) acc = split acc ++ .expr e :: rearrangeAux rest [] := rfl

theorem rearrange_written {α} (segs : List (Seg × α)) (last : Seg)
    (hg : ∀ p ∈ segs, p.1.Good) (hl : last.Good) :
    rearrange (written segs last) = expectedArgs (segs.map fun p => (p.1.words, p.2)) last.words := by
  unfold rearrange written expectedArgs
  induction segs with
  | nil =>
    simp only [List.flatMap_nil, List.nil_append, List.map_nil]
    have := rearrangeAux_chunks (α := α) last.chunks hl.2.2.1 [] []
    simp only [List.append_nil, List.nil_append] at this
    rw [this, hl.2.2.2]
    simp only [rearrangeAux]
    exact split_seg last hl
  | cons p r ih =>
    obtain ⟨g, e⟩ := p
    have hgood := hg (g, e) (by simp)
    simp only [List.flatMap_cons, List.append_assoc, List.map_cons]
    rw [rearrangeAux_chunks g.chunks hgood.2.2.1, List.nil_append, hgood.2.2.2]
    simp only [List.singleton_append, rearrangeAux_expr]
    rw [split_seg g hgood, ih (fun p hp => hg p (by simp [hp]))]

/-! ### number words -/

theorem takeWhile_append_of_all {p : Char → Bool} (a b : List Char) (ha : ∀ c ∈ a, p c = true)
    (hb : ∀ c, b.head? = some c → p c = false) :
    (a ++ b).takeWhile p = a ∧ (a ++ b).dropWhile p = b := by
  induction a with
  | nil =>
    cases b with
    | nil => simp
    | cons c cs =>
      have := hb c rfl
      simp [this]
  | cons x xs ih =>
    have hx := ha x (by simp)
    have := ih (fun c hc => ha c (by simp [hc]))
    simp [hx, this.1, this.2]

theorem takeWhile_all (p : Char → Bool) (l : List Char) : ∀ c ∈ l.takeWhile p, p c = true := by
  induction l with
  | nil => simp
  | cons x xs ih =>
    intro c hc
    simp only [List.takeWhile] at hc
    split at hc
    · rename_i hx
      simp only [List.mem_cons] at hc
      rcases hc with rfl | hc
      · exact hx
      · exact ih c hc
    · simp at hc

theorem dropWhile_head (p : Char → Bool) (l : List Char) : ∀ c, (l.dropWhile p).head? = some c → p c = false := by
  induction l with
  | nil => simp
  | cons x xs ih =>
    intro c hc
    simp only [List.dropWhile] at hc
    split at hc
    · exact ih c hc
    · rename_i hx
      simp only [List.head?_cons, Option.some.injEq] at hc
      subst hc
      simpa using hx

theorem isDigit_minus : isDigit '-' = false := by decide
theorem isDigit_dot : isDigit '.' = false := by decide

theorem all_of_forall (l : List Char) (h : ∀ c ∈ l, isDigit c = true) : l.all isDigit = true := by
  rw [List.all_eq_true]; exact h

theorem numberBody_iff (r : List Char) : numberBody r = true ↔
    ∃ (ip fp : List Char) (frac : Bool), r = ip ++ (if frac then '.' :: fp else []) ∧ ip ≠ [] ∧
      (∀ c ∈ ip, isDigit c = true) ∧ (frac = true → fp ≠ [] ∧ ∀ c ∈ fp, isDigit c = true) := by
  constructor
  · intro hr
    unfold numberBody at hr
    have hsplit : r = r.takeWhile isDigit ++ r.dropWhile isDigit := (List.takeWhile_append_dropWhile).symm
    have hip := takeWhile_all isDigit r
    simp only at hr
    split at hr
    · rename_i hd
      refine ⟨r.takeWhile isDigit, [], false, ?_, ?_, hip, by simp⟩
      · rw [hd] at hsplit; simpa using hsplit
      · intro he; simp [he] at hr
    · rename_i fp hd
      simp only [Bool.and_eq_true, Bool.not_eq_true', List.all_eq_true] at hr
      refine ⟨r.takeWhile isDigit, fp, true, ?_, ?_, hip, ?_⟩
      · rw [hd] at hsplit; simpa using hsplit
      · intro he; simp [he] at hr
      · intro _; refine ⟨?_, hr.2⟩
        intro he; simp [he] at hr
    · simp at hr
  · rintro ⟨ip, fp, frac, rfl, hne, hip, hfp⟩
    have hrest : ∀ c, (if frac then '.' :: fp else []).head? = some c → isDigit c = false := by
      intro c hc
      cases frac
      · simp at hc
      · simp only [↓reduceIte, List.head?_cons, Option.some.injEq] at hc
        subst hc; exact isDigit_dot
    obtain ⟨ht, hd⟩ := takeWhile_append_of_all (p := isDigit) ip (if frac then '.' :: fp else []) hip hrest
    have hipne : ip.isEmpty = false := by cases ip with | nil => exact absurd rfl hne | cons _ _ => rfl
    unfold numberBody
    simp only [ht, hd]
    cases frac
    · simp [hipne]
    · obtain ⟨h1, h2⟩ := hfp rfl
      have : fp.isEmpty = false := by cases fp with | nil => exact absurd rfl h1 | cons _ _ => rfl
      simp [hipne, this, all_of_forall fp h2]

/-- `isNumberWord` decides the shape `-?[0-9]+(\.[0-9]+)?` -/
theorem isNumberWord_iff (w : List Char) : isNumberWord w = true ↔ NumberShape w := by
  unfold isNumberWord NumberShape
  rw [numberBody_iff]
  constructor
  · rintro ⟨ip, fp, frac, h1, h2, h3, h4⟩
    cases w with
    | nil =>
      simp only [stripMinus] at h1
      cases ip with
      | nil => exact absurd rfl h2
      | cons _ _ => simp at h1
    | cons c cs =>
      by_cases hc : c = '-'
      · subst hc
        simp only [stripMinus] at h1
        exact ⟨true, ip, fp, frac, by simp [h1], h2, h3, h4⟩
      · have : stripMinus (c :: cs) = c :: cs := by
          unfold stripMinus
          split
          · rename_i heq; injection heq with h _; exact absurd h hc
          · rfl
        rw [this] at h1
        exact ⟨false, ip, fp, frac, by simp [h1], h2, h3, h4⟩
  · rintro ⟨neg, ip, fp, frac, rfl, h2, h3, h4⟩
    refine ⟨ip, fp, frac, ?_, h2, h3, h4⟩
    cases neg
    · cases hx : ip with
      | nil => exact absurd hx h2
      | cons x xs =>
        have hxd : isDigit x = true := h3 x (by simp [hx])
        have hne : x ≠ '-' := by
          intro hm; rw [hm, isDigit_minus] at hxd; cases hxd
        simp only [Bool.false_eq_true, ↓reduceIte, List.nil_append, List.cons_append]
        unfold stripMinus
        split
        · rename_i heq; injection heq with h _; exact absurd h hne
        · rfl
    · simp [stripMinus]

/-! ### the keyword tables with explicit spellings -/

theorem keywordRules_eq : keywordRules =
    [(.if_, ['i','f'], .required), (.elseif, ['e','l','s','e','i','f'], .required), (.else_, ['e','l','s','e'], .optional),
     (.set, ['s','e','t'], .required), (.endif, ['e','n','d','i','f'], .absent), (.call, ['c','a','l','l'], .required),
     (.declare, ['d','e','c','l','a','r','e'], .required), (.jump, ['j','u','m','p'], .required),
     (.enum, ['e','n','u','m'], .required), (.case_, ['c','a','s','e'], .required),
     (.endenum, ['e','n','d','e','n','u','m'], .optional), (.local_, ['l','o','c','a','l'], .required)] := by
  decide

theorem strictKeywords_eq : strictKeywords =
    [(.if_, ['i','f']), (.set, ['s','e','t']), (.call, ['c','a','l','l']), (.declare, ['d','e','c','l','a','r','e']),
     (.jump, ['j','u','m','p']), (.enum, ['e','n','u','m']), (.case_, ['c','a','s','e']), (.local_, ['l','o','c','a','l'])] := by
  decide

end Ysgo.CmdArgs
