import Ysgo.Lemmas.ListenerSynStmt
import Ysgo.Lemmas.ListenerLineWalk
/-!
# Delivering statements: `deliverItems`

A conforming `statement` hands one statement (or, for an `INDENT … DEDENT` block, several) to the callbacks on top of the
statement stack / line statement stack. `deliverItems` is that sequence of calls; the statement-list lemma
(`walk_stmts_of`) says that walking `statement*` is `deliverItems` of the statements in order.
-/
namespace Ysgo.Listener
open Ysgo

/-- a line statement goes to the line statement callback, everything else to the statement callback -/
def deliverItem (s : PStmt) (σ : State) : Outcome State :=
  match s with
  | .line l => deliverL l σ
  | s => deliverS s σ

def deliverItems : List PStmt → State → Outcome State
  | [], σ => .ok σ
  | s :: ss, σ => (deliverItem s σ).bind (deliverItems ss)

theorem deliverItems_append : ∀ (a b : List PStmt) (σ : State),
    deliverItems (a ++ b) σ = (deliverItems a σ).bind (deliverItems b)
  | [], b, σ => rfl
  | s :: a, b, σ => by
    simp only [List.cons_append, deliverItems, Outcome.bind_assoc]
    congr 1
    funext τ
    exact deliverItems_append a b τ

theorem deliverItem_ghost (s : PStmt) (σ : State) (n : Nat) (f : Option FnCb) :
    deliverItem s (σ.ghost n f) = (deliverItem s σ).map (·.ghost n f) := by
  cases s <;> first | exact deliverL_ghost _ σ n f | exact deliverS_ghost _ σ n f

theorem deliverItems_ghost (n : Nat) (f : Option FnCb) : ∀ (ss : List PStmt) (σ : State),
    deliverItems ss (σ.ghost n f) = (deliverItems ss σ).map (·.ghost n f)
  | [], σ => rfl
  | s :: ss, σ => by
    simp only [deliverItems, deliverItem_ghost, Outcome.bind_map, Outcome.map_bind]
    congr 1
    funext τ
    exact deliverItems_ghost n f ss τ

theorem deliverItem_ok {s : PStmt} {σ τ : State} (h : deliverItem s σ = .ok τ) : SameCtl σ τ := by
  cases s <;> first | exact deliverL_ok h | exact deliverS_ok h

theorem deliverItem_bounded {s : PStmt} {σ τ : State} {n : Nat} (h : deliverItem s σ = .ok τ) (hb : Bounded σ n)
    (hs : Below n s.ids) : Bounded τ n := by
  cases s with
  | line l => exact deliverL_bounded h hb (by simpa [PStmt.ids] using hs)
  | _ => exact deliverS_bounded h hb hs

theorem deliverItems_ok : ∀ {ss : List PStmt} {σ τ : State}, deliverItems ss σ = .ok τ → SameCtl σ τ
  | [], σ, τ, h => by cases h; exact SameCtl.refl _
  | s :: ss, σ, τ, h => by
    simp only [deliverItems] at h
    cases h1 : deliverItem s σ with
    | ok υ =>
      rw [h1] at h
      exact (deliverItem_ok h1).trans (deliverItems_ok h)
    | panic => rw [h1] at h; cases h
    | unmodelled => rw [h1] at h; cases h

theorem deliverItems_bounded {n : Nat} : ∀ {ss : List PStmt} {σ τ : State}, deliverItems ss σ = .ok τ → Bounded σ n →
    Below n (PStmt.idsList ss) → Bounded τ n
  | [], σ, τ, h, hb, _ => by cases h; exact hb
  | s :: ss, σ, τ, h, hb, hs => by
    simp only [deliverItems] at h
    simp only [PStmt.idsList] at hs
    cases h1 : deliverItem s σ with
    | ok υ =>
      rw [h1] at h
      exact deliverItems_bounded h (deliverItem_bounded h1 hb hs.left) hs.right
    | panic => rw [h1] at h; cases h
    | unmodelled => rw [h1] at h; cases h

end Ysgo.Listener
