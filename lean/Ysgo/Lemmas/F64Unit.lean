import Ysgo.Lemmas.F64Mono
import Ysgo.Model.Rng
/-!
# F64 lemma library, part 13: `float64(v) / 2^63` for `v < 2^63` lies in `[0, 1]`; `Int63` is below `2^63`
-/
namespace Ysgo
namespace F64

/-- `float64(1<<63)` is exactly `2^63` -/
theorem ofNat_P63 : Finite (ofNat P63) ∧ signBit (ofNat P63) = false ∧ val (ofNat P63) = 2 ^ 63 := by
  have h := ofNat_val P63 (by rw [P63_cast]; exact representable_two_pow 63 (by omega))
    (by rw [P63_cast]; exact two_pow_lt_big 63 (by omega))
  rw [P63_cast] at h
  exact h

/-- `float64(v)` for `0 ≤ v < 2^63`: finite, sign bit clear, in `[0, 2^63]` (it can round up to `2^63`) -/
theorem ofNat_lt63 (v : ℕ) (hv : v < P63) :
    Finite (ofNat v) ∧ signBit (ofNat v) = false ∧ 0 ≤ val (ofNat v) ∧ val (ofNat v) ≤ 2 ^ 63 := by
  have hvq : (v : ℚ) < 2 ^ 63 := by
    have : (v : ℚ) < ((P63 : ℕ) : ℚ) := by exact_mod_cast hv
    rwa [P63_cast] at this
  obtain ⟨hs, hf⟩ := ofNat_faithful v (lt_trans hvq (two_pow_lt_big 63 (by omega)))
  exact ⟨hf.finite, hs, hf.lower representable_zero (by positivity),
    hf.upper (representable_two_pow 63 (by omega)) (le_of_lt hvq)⟩

/-- the quotient of `Rand.Float64` before the redraw test: finite, sign bit clear, in `[0, 1]` -/
theorem unit_div (v : ℕ) (hv : v < P63) :
    Finite (div (ofNat v) (ofNat P63)) ∧ signBit (div (ofNat v) (ofNat P63)) = false
      ∧ 0 ≤ val (div (ofNat v) (ofNat P63)) ∧ val (div (ofNat v) (ofNat P63)) ≤ 1 := by
  obtain ⟨hxf, hxs, hx0, hx1⟩ := ofNat_lt63 v hv
  obtain ⟨hyf, hys, hyv⟩ := ofNat_P63
  have hy0 : val (ofNat P63) ≠ 0 := by rw [hyv]; positivity
  have hq0 : 0 ≤ val (ofNat v) / val (ofNat P63) := by rw [hyv]; positivity
  have hq1 : val (ofNat v) / val (ofNat P63) ≤ 1 := by
    rw [hyv, div_le_one (by positivity)]; exact hx1
  rcases div_total hxf hyf hy0 with ⟨-, hbig⟩ | ⟨hs, hf⟩
  · exfalso
    rw [abs_of_nonneg hq0] at hbig
    have : (1 : ℚ) < 2 ^ (1023 : ℤ) := by simpa using two_pow_lt_big 0 (by omega)
    exact absurd (lt_of_lt_of_le this (le_trans hbig hq1)) (lt_irrefl _)
  · rw [hxs, hys] at hs
    exact ⟨hf.finite, hs, hf.lower representable_zero hq0, hf.upper representable_one hq1⟩

end F64

namespace Rng
open F64

/-- `Int63` returns a value below `2^63` -/
theorem int63_lt (g : Src) : (int63 g).1 < P63 := by
  unfold int63
  exact Nat.mod_lt _ (by unfold P63; omega)

end Rng
end Ysgo
