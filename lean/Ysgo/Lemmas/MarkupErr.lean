import Ysgo.Lemmas.MarkupRepl
import Ysgo.Lemmas.MarkupTail
/-!
# The error side: when the specification rejects a well-formed chunk list the parser reports an error

The specification rejects a chunk (`stepChunk = none`) when
* a close marker has nothing to close (the parser goes on and fails when the attributes are built),
* an integer (part) does not fit an `int` (`strconv.Atoi` fails inside the marker),
* `trimwhitespace` is not a boolean on a marker at the start of the text or after white space,
* a replacement marker has no `value`, no case for it, or a `value` of the wrong type (the processor fails).
-/
namespace Ysgo.Markup
open Ysgo.Unicode Ysgo.MarkupSpec
attribute [local irreducible] Unicode.isLetter Unicode.isDigit Unicode.isSpace Unicode.toLower

/-! ## Values that do not fit -/

/-- a digit string whose value does not fit an `int`: `parseInteger` (`strconv.Atoi`) fails -/
theorem parseValue_digits_err (w0 ds rest : List Char) (k p : Nat) (hw0 : AllSpace w0) (hds : AllDigitC ds)
    (hne : ds ≠ []) (hbig : ¬ F64.digitsVal ds < P63) (hrest : ∀ x, rest.head? = some x → isIdChar x = false) :
    ∃ s', parseValue { rest := w0 ++ ds ++ rest, src := k, pos := p } = .err s' := by
  cases ds with
  | nil => exact absurd rfl hne
  | cons a t =>
    have ha : isDigit a = true := isDigit_of_isDigitC a (hds a List.mem_cons_self)
    have hsp : isSpace a = false := isIdChar_not_space a (isIdChar_of_isDigit a ha)
    have e1 : w0 ++ (a :: t) ++ rest = w0 ++ a :: (t ++ rest) := by simp
    have e2 : a :: (t ++ rest) = [] ++ a :: (t ++ rest) := by simp
    have e3 : a :: (t ++ rest) = (a :: t) ++ rest := by simp
    have hatoi : atoi (a :: t) = none := by
      unfold atoi
      have : (a :: t).all F64.isDigitC = true := List.all_eq_true.mpr hds
      simp [this, hbig]
    simp only [parseValue, bind, P.bind]
    rw [e1, consumeWhitespace_eq w0 a _ k p hw0 hsp]
    simp only [peekRune, List.headD_cons, ha, if_true, parseInteger, parseDigits, bind, P.bind]
    rw [e2, consumeWhitespace_eq [] a _ _ p AllSpace.nil hsp]
    simp only [P.bind]
    rw [e3, takeDigitsAux_eq (a :: t) rest [] _ hds hrest]
    simp only [List.nil_append, hatoi, fail]
    exact ⟨_, rfl⟩

/-- a value the specification rejects (`valOf = none`: integer (part) ≥ 2^63) makes `parseValue` fail -/
theorem parseValue_err (v : SVal) (hok : valOk v = true) (hval : valOf v = none) (w0 post w : List Char) (d : Char)
    (l : List Char) (k p : Nat) (hw0 : AllSpace w0) (hf : Follow post w d l) :
    ∃ s', parseValue { rest := w0 ++ renderVal v ++ post, src := k, pos := p } = .err s' := by
  cases v with
  | int lz n =>
    simp only [valOf, P63_eq] at hval
    split at hval
    · simp at hval
    · rename_i hn
      obtain ⟨hds, hv, hne⟩ := intDigits lz n
      simp only [renderVal]
      exact parseValue_digits_err w0 _ post k p hw0 hds hne (by rw [hv]; exact hn) hf.head_not_id
  | dec lz n fr =>
    simp only [valOf, P63_eq] at hval
    split at hval
    · simp at hval
    · rename_i hn
      obtain ⟨hds, hv, hne⟩ := intDigits lz n
      simp only [renderVal]
      have e : w0 ++ (List.replicate lz '0' ++ natDigits n ++ '.' :: fr) ++ post =
          w0 ++ (List.replicate lz '0' ++ natDigits n) ++ ('.' :: (fr ++ post)) := by simp
      rw [e]
      exact parseValue_digits_err w0 _ _ k p hw0 hds hne (by rw [hv]; exact hn)
        (by intro x hx; simp at hx; subst hx; exact isIdChar_dot)
  | bool b sp => simp [valOf] at hval
  | quoted s => simp [valOf] at hval
  | bare wd => simp [valOf] at hval

/-! ## The property loop, one property at a time -/

/-- the property loop reads the name of the next property and `=`; the value comes next -/
theorem propsLoop_step (nm : String) (src0 : Nat) (ws : List (List Char)) (hws : wsOk ws = true) (tailW : List Char)
    (d : Char) (l : List Char) (p fuel : Nat) (key : List Char) (v : SVal) (ps : List (List Char × SVal)) (i : Nat)
    (acc : List (String × PVal)) (wAny : List Char) (k : Nat) (hkey : isIdent key = true) (hwa : AllSpace wAny) :
    ∃ k1, propsLoop nm src0 (fuel + 1) acc
        { rest := wAny ++ propsBody ((key, v) :: ps) ws i tailW d l, src := k, pos := p } =
      (parseValue >>= fun pv => propsLoop nm src0 fuel (acc ++ [(String.ofList key, pv)]))
        { rest := slot ws (i + 2) ++ renderVal v ++ (propsLead ps ws (i + 3) tailW ++ propsBody ps ws (i + 3) tailW d l),
          src := k1, pos := p } := by
  obtain ⟨a, t, rfl, hid⟩ := ident_cases hkey
  have ha : isIdChar a = true := hid a List.mem_cons_self
  have hsp : isSpace a = false := isIdChar_not_space a ha
  have e1 : wAny ++ propsBody ((a :: t, v) :: ps) ws i tailW d l =
      wAny ++ a :: (t ++ (slot ws (i + 1) ++ '=' :: (slot ws (i + 2) ++ renderVal v ++
        (propsLead ps ws (i + 3) tailW ++ propsBody ps ws (i + 3) tailW d l)))) := by
    simp [propsBody]
  have e2 : a :: (t ++ (slot ws (i + 1) ++ '=' :: (slot ws (i + 2) ++ renderVal v ++
        (propsLead ps ws (i + 3) tailW ++ propsBody ps ws (i + 3) tailW d l)))) =
      [] ++ (a :: t) ++ (slot ws (i + 1) ++ '=' :: (slot ws (i + 2) ++ renderVal v ++
        (propsLead ps ws (i + 3) tailW ++ propsBody ps ws (i + 3) tailW d l))) := by simp
  refine ⟨?k1, ?h⟩
  case h =>
  simp only [propsLoop, bind, P.bind]
  rw [e1, consumeWhitespace_eq wAny a _ k p hwa hsp]
  simp only [peekRune, List.headD_cons]
  have h1 : ¬ a = ']' := fun e => by subst e; rw [isIdChar_rbracket] at ha; exact absurd ha (by simp)
  have h2 : ¬ a = '/' := fun e => by subst e; rw [isIdChar_slash] at ha; exact absurd ha (by simp)
  simp only [h1, h2, if_false, P.bind]
  rw [e2, parseID_eq [] a t _ _ p AllSpace.nil hid
    (head_ws_then (slot ws (i + 1)) '=' _ (allSpace_slot ws (i + 1) hws) isIdChar_eq)]
  simp only [P.bind]
  rw [parseRune_eq '=' (slot ws (i + 1)) _ _ p (allSpace_slot ws (i + 1) hws) isSpace_equals]

/-- a property list the specification rejects makes the property loop fail -/
theorem propsLoop_props_err (nm : String) (src0 : Nat) (ws : List (List Char)) (hws : wsOk ws = true) (tailW : List Char)
    (htw : AllSpace tailW) (d : Char) (hd : IsEnd d) (l : List Char) (p fuel : Nat) :
    ∀ (ps : List (List Char × SVal)) (i : Nat) (acc : List (String × PVal)) (wAny : List Char) (k : Nat),
      resolveProps ps = none → PropsOk ps → AllSpace wAny →
      ∃ s', propsLoop nm src0 (fuel + 1 + ps.length) acc
          { rest := wAny ++ propsBody ps ws i tailW d l, src := k, pos := p } = .err s' := by
  intro ps
  induction ps with
  | nil => intro i acc wAny k hres; simp [resolveProps] at hres
  | cons q ps ih =>
    intro i acc wAny k hres hps hwa
    obtain ⟨key, v⟩ := q
    have hq := hps (key, v) List.mem_cons_self
    have hps' : PropsOk ps := fun q hq => hps q (List.mem_cons_of_mem _ hq)
    obtain ⟨w, d', l', hfol, hbody⟩ := follow_props ps ws (i + 3) tailW d l hps' hws htw hd
    obtain ⟨k1, hstep⟩ := propsLoop_step nm src0 ws hws tailW d l p (fuel + 1 + ps.length) key v ps i acc wAny k hq.1 hwa
    rw [show fuel + 1 + ((key, v) :: ps).length = (fuel + 1 + ps.length) + 1 by simp only [List.length_cons]; omega, hstep]
    cases hv : valOf v with
    | none =>
      obtain ⟨s', hs'⟩ := parseValue_err v hq.2 hv (slot ws (i + 2)) _ w d' l' k1 p (allSpace_slot ws (i + 2) hws) hfol
      exact ⟨s', by simp only [bind, P.bind, hs']⟩
    | some x =>
      have hr : resolveProps ps = none := by
        cases hr : resolveProps ps with
        | none => rfl
        | some r => simp [resolveProps, hv, hr] at hres
      obtain ⟨w2, k2, hw2, hpv⟩ := parseValue_render_all v x hq.2 hv (slot ws (i + 2)) _ w d' l' k1 p
        (allSpace_slot ws (i + 2) hws) hfol
      obtain ⟨s', hs'⟩ := ih (i + 3) (acc ++ [(String.ofList key, x)]) w2 k2 hr hps' hw2
      refine ⟨s', ?_⟩
      simp only [bind, P.bind, hpv]
      rw [hbody]
      exact hs'

/-- the head of a marker up to the shorthand value / the property loop -/
theorem marker_head_step (n : List Char) (sh : Option SVal) (ps : List (List Char × SVal)) (ws : List (List Char))
    (d : Char) (l : List Char) (k p F : Nat) (hn : isIdent n = true) (hps : PropsOk ps) (hws : wsOk ws = true)
    (hd : IsEnd d) :
    ∃ k1, parseAttributeMarker F { rest := headText n sh ps ws d l, src := k, pos := p } =
      match sh with
      | none => propsLoop (String.ofList n) k F []
          { rest := propsBody ps ws 1 (slot ws (renderProps ps ws 1).2) d l, src := k1, pos := p }
      | some v => (parseValue >>= fun x => propsLoop (String.ofList n) k F [(String.ofList n, x)])
          { rest := slot ws 2 ++ renderVal v ++ (propsLead ps ws 3 (slot ws (renderProps ps ws 3).2) ++
              propsBody ps ws 3 (slot ws (renderProps ps ws 3).2) d l), src := k1, pos := p } := by
  obtain ⟨a, t, rfl, hid⟩ := ident_cases hn
  have ha : isIdChar a = true := hid a List.mem_cons_self
  have hsp : isSpace a = false := isIdChar_not_space a ha
  cases sh with
  | none =>
    have htw := allSpace_slot ws (renderProps ps ws 1).2 hws
    have hsplit := renderProps_split ps ws 1 (slot ws (renderProps ps ws 1).2) d l
    obtain ⟨x, r, hx, hxsp, hxeq⟩ := propsBody_head ps ws 1 (slot ws (renderProps ps ws 1).2) d l hps hd
    have hlead : AllSpace (propsLead ps ws 1 (slot ws (renderProps ps ws 1).2)) := by
      cases ps with
      | nil => exact htw
      | cons q ps =>
        intro c hc
        simp only [propsLead, List.mem_cons] at hc
        rcases hc with rfl | hc
        · exact isSpace_blank
        · exact allSpace_slot ws 1 hws c hc
    have hnotid : ∀ y, (propsLead ps ws 1 (slot ws (renderProps ps ws 1).2) ++
        propsBody ps ws 1 (slot ws (renderProps ps ws 1).2) d l).head? = some y → isIdChar y = false := by
      obtain ⟨w, d', l', hfol, _⟩ := follow_props ps ws 1 (slot ws (renderProps ps ws 1).2) d l hps hws htw hd
      exact hfol.head_not_id
    refine ⟨?k1, ?h⟩
    case h =>
    simp only [headText, hsplit]
    have e1 : slot ws 0 ++ (a :: t) ++ (propsLead ps ws 1 (slot ws (renderProps ps ws 1).2) ++
        propsBody ps ws 1 (slot ws (renderProps ps ws 1).2) d l) =
        slot ws 0 ++ a :: (t ++ (propsLead ps ws 1 (slot ws (renderProps ps ws 1).2) ++
        propsBody ps ws 1 (slot ws (renderProps ps ws 1).2) d l)) := by simp
    have e2 : a :: (t ++ (propsLead ps ws 1 (slot ws (renderProps ps ws 1).2) ++
        propsBody ps ws 1 (slot ws (renderProps ps ws 1).2) d l)) =
        [] ++ (a :: t) ++ (propsLead ps ws 1 (slot ws (renderProps ps ws 1).2) ++
        propsBody ps ws 1 (slot ws (renderProps ps ws 1).2) d l) := by simp
    simp only [parseAttributeMarker, bind, P.bind, getSrc, incSrc]
    rw [e1, expectPeek_eq '/' a (slot ws 0) _ (k + 1) p (allSpace_slot ws 0 hws) hsp]
    simp only [id_ne ha isIdChar_slash, Bool.false_eq_true, if_false, P.bind]
    rw [e2, parseID_eq [] a t _ _ p AllSpace.nil hid hnotid]
    simp only [P.bind, List.length_nil, Nat.add_zero]
    rw [hx, expectPeek_eq '=' x _ r _ p hlead hxsp]
    simp only [hxeq, Bool.false_eq_true, if_false]
    rw [← hx]
  | some v =>
    have hsplit := renderProps_split ps ws 3 (slot ws (renderProps ps ws 3).2) d l
    refine ⟨?k2, ?h2⟩
    case h2 =>
    simp only [headText]
    rw [show (renderProps ps ws 3).1 ++ slot ws (renderProps ps ws 3).2 ++ d :: l =
      propsLead ps ws 3 (slot ws (renderProps ps ws 3).2) ++ propsBody ps ws 3 (slot ws (renderProps ps ws 3).2) d l
      from hsplit]
    generalize hpost : propsLead ps ws 3 (slot ws (renderProps ps ws 3).2) ++
      propsBody ps ws 3 (slot ws (renderProps ps ws 3).2) d l = post
    have e1 : slot ws 0 ++ (a :: t) ++ (slot ws 1 ++ '=' :: (slot ws 2 ++ renderVal v ++ post)) =
        slot ws 0 ++ a :: (t ++ (slot ws 1 ++ '=' :: (slot ws 2 ++ renderVal v ++ post))) := by simp
    have e2 : a :: (t ++ (slot ws 1 ++ '=' :: (slot ws 2 ++ renderVal v ++ post))) =
        [] ++ (a :: t) ++ (slot ws 1 ++ '=' :: (slot ws 2 ++ renderVal v ++ post)) := by simp
    simp only [parseAttributeMarker, bind, P.bind, getSrc, incSrc]
    rw [e1, expectPeek_eq '/' a (slot ws 0) _ (k + 1) p (allSpace_slot ws 0 hws) hsp]
    simp only [id_ne ha isIdChar_slash, Bool.false_eq_true, if_false, P.bind]
    rw [e2, parseID_eq [] a t _ _ p AllSpace.nil hid
      (head_ws_then (slot ws 1) '=' _ (allSpace_slot ws 1 hws) isIdChar_eq)]
    simp only [P.bind, List.length_nil, Nat.add_zero]
    rw [expectPeek_eq '=' '=' (slot ws 1) _ _ p (allSpace_slot ws 1 hws) isSpace_equals]
    simp only [beq_self_eq_true, if_true, P.bind]
    rw [show ('=' :: (slot ws 2 ++ renderVal v ++ post)) = [] ++ '=' :: (slot ws 2 ++ renderVal v ++ post) by simp,
      parseRune_eq '=' [] _ _ p AllSpace.nil isSpace_equals]

/-- a marker head whose shorthand value or properties the specification rejects makes `parseAttributeMarker` fail -/
theorem marker_head_err (n : List Char) (sh : Option SVal) (ps : List (List Char × SVal)) (ws : List (List Char))
    (d : Char) (l : List Char) (k p fuel : Nat)
    (hn : isIdent n = true) (hsh : ∀ v, sh = some v → valOk v = true) (hps : PropsOk ps)
    (hws : wsOk ws = true) (hd : IsEnd d) (hres : resolve n sh ps = none) :
    ∃ s', parseAttributeMarker (fuel + 1 + ps.length) { rest := headText n sh ps ws d l, src := k, pos := p } = .err s' := by
  obtain ⟨k1, hstep⟩ := marker_head_step n sh ps ws d l k p (fuel + 1 + ps.length) hn hps hws hd
  rw [hstep]
  cases sh with
  | none =>
    simp only [resolve, List.nil_append] at hres
    have htw := allSpace_slot ws (renderProps ps ws 1).2 hws
    have := propsLoop_props_err (String.ofList n) k ws hws _ htw d hd l p fuel ps 1 [] [] k1 hres hps AllSpace.nil
    simpa using this
  | some v =>
    have hvok := hsh v rfl
    simp only [resolve, List.singleton_append, resolveProps] at hres
    have htw := allSpace_slot ws (renderProps ps ws 3).2 hws
    obtain ⟨w, d', l', hfol, hbody⟩ := follow_props ps ws 3 (slot ws (renderProps ps ws 3).2) d l hps hws htw hd
    cases hv : valOf v with
    | none =>
      obtain ⟨s', hs'⟩ := parseValue_err v hvok hv (slot ws 2) _ w d' l' k1 p (allSpace_slot ws 2 hws) hfol
      exact ⟨s', by simp only [bind, P.bind, hs']⟩
    | some x =>
      have hr : resolveProps ps = none := by
        cases hr : resolveProps ps with
        | none => rfl
        | some r => simp [hv, hr] at hres
      obtain ⟨w2, k2, hw2, hpv⟩ := parseValue_render_all v x hvok hv (slot ws 2) _ w d' l' k1 p
        (allSpace_slot ws 2 hws) hfol
      obtain ⟨s', hs'⟩ := propsLoop_props_err (String.ofList n) k ws hws _ htw d hd l p fuel ps 3
        [(String.ofList n, x)] w2 k2 hr hps hw2
      refine ⟨s', ?_⟩
      simp only [bind, P.bind, hpv]
      rw [hbody]
      exact hs'

/-! ## `markerStep` failing -/

theorem decideTrimG_none (hadWs isRepl : Bool) (m : Marker) (s1 : PS) (h : trimDecisionG hadWs isRepl m = none) :
    decideTrim hadWs isRepl m s1 = .err s1 := by
  unfold trimDecisionG at h
  unfold decideTrim
  cases hadWs with
  | false => simp at h
  | true =>
    simp only [if_true] at h ⊢
    cases hg : getProp m.props "trimwhitespace" with
    | none => simp [hg] at h
    | some v =>
      cases v with
      | bool b => simp [hg] at h
      | int _ => rfl
      | float _ => rfl
      | str _ => rfl

theorem mainLoop_marker_err (pfuel : Nat) (R : List Char) (fuel : Nat) (st : LoopSt) (k p : Nat) (s' : PS)
    (h : markerStep pfuel st { rest := R, src := k, pos := st.out.length } = .err s') :
    mainLoop pfuel (fuel + 1) st { rest := '[' :: R, src := k, pos := p } = .err s' := by
  simp only [mainLoop, bind, P.bind, readRune, peekRune, show ¬ ('[' = '\\') by decide, false_and, if_false, if_true,
    setPos, h]

theorem markerStep_err_head (pfuel : Nat) (st : LoopSt) (s s' : PS) (h : parseAttributeMarker pfuel s = .err s') :
    markerStep pfuel st s = .err s' := by
  simp only [markerStep, bind, P.bind, h]

/-- a marker without processor whose `trimwhitespace` is not a boolean -/
theorem markerStep_err_trim (pfuel : Nat) (st : LoopSt) (s s1 : PS) (m : Marker)
    (hm : parseAttributeMarker pfuel s = .ok m s1) (hrepl : isReplacement m.name = false)
    (ht : trimDecisionG (s1.pos == 0 || isSpace st.last) false m = none) :
    markerStep pfuel st s = .err s1 := by
  simp only [markerStep, bind, P.bind, hm, getPos, hrepl, Bool.false_eq_true, if_false, pure, P.pure,
    decideTrimG_none _ _ m s1 ht]

/-- a self-closing replacement marker whose processor fails or whose `trimwhitespace` is not a boolean -/
theorem markerStep_err_replSelf (pfuel : Nat) (st : LoopSt) (s s1 : PS) (m : Marker)
    (hm : parseAttributeMarker pfuel s = .ok m s1) (hrepl : isReplacement m.name = true) (htag : m.tag = .selfClose)
    (h : process m.name m.props = none ∨ trimDecisionG (s1.pos == 0 || isSpace st.last) true m = none) :
    markerStep pfuel st s = .err s1 := by
  have hnot : ¬ (m.tag ≠ .opn ∧ m.tag ≠ .selfClose) := by rw [htag]; simp
  have hno : ¬ (m.tag = .opn) := by rw [htag]; decide
  cases hproc : process m.name m.props with
  | none =>
    have hp : processReplacementMarker m s1 = .err s1 := by
      unfold processReplacementMarker
      rw [if_neg hnot]
      simp only [bind, P.bind, if_neg hno, pure, P.pure, hproc, fail]
    simp only [markerStep, bind, P.bind, hm, getPos, hrepl, if_true, hp]
  | some text =>
    have ht : trimDecisionG (s1.pos == 0 || isSpace st.last) true m = none := by
      rcases h with h | h
      · rw [hproc] at h; simp at h
      · exact h
    have hp : processReplacementMarker m s1 = .ok text s1 := by
      unfold processReplacementMarker
      rw [if_neg hnot]
      simp only [bind, P.bind, if_neg hno, pure, P.pure, hproc]
    simp only [markerStep, bind, P.bind, hm, getPos, hrepl, if_true, hp, decideTrimG_none _ _ m s1 ht]

/-- an open replacement marker whose processor fails or whose `trimwhitespace` is not a boolean -/
theorem markerStep_err_replOpen (pfuel : Nat) (st : LoopSt) (s : PS) (m : Marker) (raw tagrest : List Char) (k p : Nat)
    (hm : parseAttributeMarker pfuel s = .ok m { rest := raw ++ '[' :: tagrest, src := k, pos := p })
    (hrepl : isReplacement m.name = true) (htag : m.tag = .opn)
    (hfind : findCloseIdx m.name.toList (raw ++ '[' :: tagrest) 0 = some raw.length)
    (h : process m.name (m.props ++ [("contents", PVal.str (String.ofList raw))]) = none ∨
      trimDecisionG (p == 0 || isSpace st.last) true m = none) :
    markerStep pfuel st s = .err { rest := '[' :: tagrest, src := k, pos := p } := by
  have hnot : ¬ (m.tag ≠ .opn ∧ m.tag ≠ .selfClose) := by rw [htag]; simp
  cases hproc : process m.name (m.props ++ [("contents", PVal.str (String.ofList raw))]) with
  | none =>
    have hp : processReplacementMarker m { rest := raw ++ '[' :: tagrest, src := k, pos := p } =
        .err { rest := '[' :: tagrest, src := k, pos := p } := by
      unfold processReplacementMarker
      rw [if_neg hnot]
      simp only [bind, P.bind, htag, if_true, parseRaw_eq m.name raw tagrest k p hfind, pure, P.pure, hproc, fail]
    simp only [markerStep, bind, P.bind, hm, getPos, hrepl, if_true, hp]
  | some text =>
    have ht : trimDecisionG (p == 0 || isSpace st.last) true m = none := by
      rcases h with h | h
      · rw [hproc] at h; simp at h
      · exact h
    have hp : processReplacementMarker m { rest := raw ++ '[' :: tagrest, src := k, pos := p } =
        .ok text { rest := '[' :: tagrest, src := k, pos := p } := by
      unfold processReplacementMarker
      rw [if_neg hnot]
      simp only [bind, P.bind, htag, if_true, parseRaw_eq m.name raw tagrest k p hfind, pure, P.pure, hproc]
    simp only [markerStep, bind, P.bind, hm, getPos, hrepl, if_true, hp, decideTrimG_none _ _ m _ ht]

/-! ## Markers that parse -/

/-- the head of an open marker (or of an open replacement marker) is read -/
theorem head_parsed_open (pfuel : Nat) (n : List Char) (sh : Option SVal) (ps : List (List Char × SVal))
    (ws : List (List Char)) (L : List Char) (props : List (String × PVal)) (k p : Nat) (hok : HeadOk n sh ps ws)
    (hres : resolve n sh ps = some props) (hp : (headText n sh ps ws ']' L).length + 1 < pfuel) :
    ∃ k', parseAttributeMarker pfuel { rest := headText n sh ps ws ']' L, src := k, pos := p } =
      .ok (Marker.mk (String.ofList n) p k props .opn) { rest := L, src := k', pos := p } := by
  have hlen := headText_length n sh ps ws ']' L
  obtain ⟨f, hf⟩ : ∃ f, pfuel = (f + 1) + ps.length := ⟨pfuel - ps.length - 1, by omega⟩
  obtain ⟨wT, kT, hwT, hhead⟩ := marker_head n sh ps ws ']' L props k p (f + 1) hok.name hok.short
    hok.props hok.ws (Or.inl rfl) hres
  rw [propsLoop_end_open _ _ f props wT L kT _ hwT, ← hf] at hhead
  exact ⟨_, hhead⟩

/-- the head of a self-closing marker is read -/
theorem head_parsed_self (pfuel : Nat) (n : List Char) (sh : Option SVal) (ps : List (List Char × SVal))
    (ws : List (List Char)) (w3 R : List Char) (props : List (String × PVal)) (k p : Nat) (hok : HeadOk n sh ps ws)
    (hw3 : AllSpace w3) (hres : resolve n sh ps = some props)
    (hp : (headText n sh ps ws '/' (w3 ++ ']' :: R)).length + 1 < pfuel) :
    ∃ k', parseAttributeMarker pfuel { rest := headText n sh ps ws '/' (w3 ++ ']' :: R), src := k, pos := p } =
      .ok (Marker.mk (String.ofList n) p k props .selfClose) { rest := R, src := k', pos := p } := by
  have hlen := headText_length n sh ps ws '/' (w3 ++ ']' :: R)
  obtain ⟨f, hf⟩ : ∃ f, pfuel = (f + 1) + ps.length := ⟨pfuel - ps.length - 1, by omega⟩
  obtain ⟨wT, kT, hwT, hhead⟩ := marker_head n sh ps ws '/' (w3 ++ ']' :: R) props k p (f + 1) hok.name hok.short
    hok.props hok.ws (Or.inr rfl) hres
  rw [propsLoop_end_self _ _ f props wT w3 R kT _ hwT hw3, ← hf] at hhead
  exact ⟨_, hhead⟩

/-! ## A rejected chunk -/

/-- the main loop fails at this marker -/
def FailsHere (pfuel : Nat) (st : LoopSt) (s : PS) : Prop := ∀ fuel, ∃ s', mainLoop pfuel (fuel + 1) st s = .err s'

/-- a marker head the specification rejects -/
theorem failsHere_head (pfuel : Nat) (n : List Char) (sh : Option SVal) (ps : List (List Char × SVal))
    (ws : List (List Char)) (d : Char) (l : List Char) (st : LoopSt) (k pos : Nat) (hok : HeadOk n sh ps ws) (hd : IsEnd d)
    (hres : resolve n sh ps = none) (hp : (headText n sh ps ws d l).length + 1 < pfuel) :
    FailsHere pfuel st { rest := '[' :: headText n sh ps ws d l, src := k, pos := pos } := by
  intro fuel
  have hlen := headText_length n sh ps ws d l
  obtain ⟨f, hf⟩ : ∃ f, pfuel = (f + 1) + ps.length := ⟨pfuel - ps.length - 1, by omega⟩
  obtain ⟨s', hs'⟩ := marker_head_err n sh ps ws d l k st.out.length f hok.name hok.short hok.props hok.ws hd hres
  rw [← hf] at hs'
  exact ⟨s', mainLoop_marker_err pfuel _ fuel st k pos s' (markerStep_err_head pfuel st _ s' hs')⟩

/-- among the well-formed chunks: either a close marker without a matching open marker, or the main loop fails at the
chunk's marker -/
theorem step_none_all (pfuel : Nat) (c : Chunk) (hc : chunkOk c = true) (S : St) (R : List Char) (st : LoopSt) (s : PS)
    (hp : s.rest.length < pfuel) (hinv : Inv S (renderChunk c ++ R) st s) (h : stepChunk S c = none) :
    (∃ n ws, c = .close n ws ∧ removeLast (String.ofList n) S.opens = none) ∨ FailsHere pfuel st s := by
  cases c with
  | text t => cases t <;> simp [stepChunk] at h
  | escOpen => simp [stepChunk] at h
  | escClose => simp [stepChunk] at h
  | closeAll ws => simp [stepChunk, pure] at h
  | close n ws =>
    refine Or.inl ⟨n, ws, rfl, ?_⟩
    simp only [stepChunk, bind, Option.bind] at h
    cases hr : removeLast (String.ofList n) S.opens with
    | none => rfl
    | some p => simp [hr, pure] at h
  | opn n sh ps ws =>
    right
    simp only [chunkOk, Bool.and_eq_true, Bool.not_eq_true'] at hc
    have hok := headOk_of n sh ps ws hc.1
    have hrepl : isReplacement (String.ofList n) = false := by rw [isReplacement_ofList]; exact hc.2
    obtain ⟨rest, src, pos⟩ := s
    have hrest := hinv.rest
    rw [render_opn] at hrest
    simp only [startsWithSpace, isSpace_lbracket, Bool.and_false, Bool.false_eq_true, if_false] at hrest
    subst hrest
    simp only [List.length_cons] at hp
    simp only [stepChunk, bind, Option.bind] at h
    cases hres : resolve n sh ps with
    | none => exact failsHere_head pfuel n sh ps ws ']' R st src pos hok (Or.inl rfl) hres hp
    | some props =>
      simp only [hres] at h
      cases htr : trimRule S false false props with
      | some trim => simp [htr, pure] at h
      | none =>
        obtain ⟨k', hhead⟩ := head_parsed_open pfuel n sh ps ws R props src st.out.length hok hres hp
        have htd : trimDecisionG (st.out.length == 0 || isSpace st.last) false
            (Marker.mk (String.ofList n) st.out.length src props .opn) = none := by
          rw [← trimRuleG_eq S st _ false false hinv.out hinv.last (by rfl)]
          exact htr
        intro fuel
        exact ⟨_, mainLoop_marker_err pfuel _ fuel st src pos _ (markerStep_err_trim pfuel st _ _ _ hhead hrepl htd)⟩
  | selfClose n sh ps ws =>
    right
    simp only [chunkOk] at hc
    have hok := headOk_of n sh ps ws hc
    obtain ⟨rest, src, pos⟩ := s
    have hrest := hinv.rest
    rw [render_selfClose] at hrest
    simp only [startsWithSpace, isSpace_lbracket, Bool.and_false, Bool.false_eq_true, if_false] at hrest
    subst hrest
    simp only [List.length_cons] at hp
    have hw3s : AllSpace (slot ws (renderHead n sh ps ws).2) := allSpace_slot ws _ hok.ws
    simp only [stepChunk, bind, Option.bind] at h
    cases hres : resolve n sh ps with
    | none => exact failsHere_head pfuel n sh ps ws '/' _ st src pos hok (Or.inr rfl) hres hp
    | some props =>
      simp only [hres] at h
      obtain ⟨k', hhead⟩ := head_parsed_self pfuel n sh ps ws _ R props src st.out.length hok hw3s hres hp
      cases hr : isReplName n with
      | false =>
        have hrepl : isReplacement (String.ofList n) = false := by rw [isReplacement_ofList]; exact hr
        simp only [hr, Bool.false_eq_true, if_false] at h
        cases htr : trimRule S true false props with
        | some trim => simp [htr, pure] at h
        | none =>
          have htd : trimDecisionG (st.out.length == 0 || isSpace st.last) false
              (Marker.mk (String.ofList n) st.out.length src props .selfClose) = none := by
            rw [← trimRuleG_eq S st _ true false hinv.out hinv.last (by rfl)]
            exact htr
          intro fuel
          exact ⟨_, mainLoop_marker_err pfuel _ fuel st src pos _ (markerStep_err_trim pfuel st _ _ _ hhead hrepl htd)⟩
      | true =>
        have hrepl : isReplacement (String.ofList n) = true := by rw [isReplacement_ofList]; exact hr
        simp only [hr, if_true] at h
        have hbad : process (String.ofList n) props = none ∨
            trimDecisionG (st.out.length == 0 || isSpace st.last) true
              (Marker.mk (String.ofList n) st.out.length src props .selfClose) = none := by
          rw [← trimRuleG_eq S st (Marker.mk (String.ofList n) st.out.length src props .selfClose) true true hinv.out
            hinv.last (by rfl)]
          cases htr : trimRule S true true props with
          | none => exact Or.inr rfl
          | some trim =>
            left
            simp only [htr] at h
            have hpe := process_eq n hr props none
            simp only [contentsProp, List.append_nil] at hpe
            rw [hpe]
            cases hrp : replacement n props none with
            | none => rfl
            | some text => simp [hrp, pure] at h
        intro fuel
        exact ⟨_, mainLoop_marker_err pfuel _ fuel st src pos _
          (markerStep_err_replSelf pfuel st _ _ _ hhead hrepl rfl hbad)⟩
  | repl n sh ps ws raw byName cws =>
    right
    simp only [chunkOk, Bool.and_eq_true] at hc
    obtain ⟨⟨⟨hhd, hr⟩, hraw⟩, hcws⟩ := hc
    have hok := headOk_of n sh ps ws hhd
    have hrepl : isReplacement (String.ofList n) = true := by rw [isReplacement_ofList]; exact hr
    obtain ⟨rest, src, pos⟩ := s
    have hrest := hinv.rest
    rw [render_repl] at hrest
    simp only [startsWithSpace, isSpace_lbracket, Bool.and_false, Bool.false_eq_true, if_false] at hrest
    subst hrest
    simp only [List.length_cons] at hp
    simp only [stepChunk, bind, Option.bind] at h
    cases hres : resolve n sh ps with
    | none => exact failsHere_head pfuel n sh ps ws ']' _ st src pos hok (Or.inl rfl) hres hp
    | some props =>
      simp only [hres] at h
      obtain ⟨k', hhead⟩ := head_parsed_open pfuel n sh ps ws _ props src st.out.length hok hres hp
      have hfind : findCloseIdx (String.ofList n).toList (raw ++ '[' :: closeTagTail n byName cws R) 0 =
          some raw.length := by
        rw [String.toList_ofList, findCloseIdx_raw n raw _ (lbracket_not_in_ident n hok.name) hraw
          (closeMatchesHere_tag n byName cws R hok.name hcws) 0]
        simp
      have hbad : process (String.ofList n) (props ++ [("contents", PVal.str (String.ofList raw))]) = none ∨
          trimDecisionG (st.out.length == 0 || isSpace st.last) true
            (Marker.mk (String.ofList n) st.out.length src props .opn) = none := by
        rw [← trimRuleG_eq S st (Marker.mk (String.ofList n) st.out.length src props .opn) false true hinv.out
          hinv.last (by rfl)]
        cases htr : trimRule S false true props with
        | none => exact Or.inr rfl
        | some trim =>
          left
          simp only [htr] at h
          have hpe := process_eq n hr props (some raw)
          simp only [contentsProp] at hpe
          rw [hpe]
          cases hrp : replacement n props (some raw) with
          | none => rfl
          | some text =>
            simp only [hrp, pure] at h
            cases byName <;> simp at h
      intro fuel
      exact ⟨_, mainLoop_marker_err pfuel _ fuel st src pos _
        (markerStep_err_replOpen pfuel st _ _ raw _ _ _ hhead hrepl rfl hfind hbad)⟩

/-- the main loop on a well-formed chunk list the specification rejects ends in an error, at once or when the attributes
are built -/
theorem sim_fold_none_all (pfuel : Nat) : ∀ (cs : List Chunk) (S : St) (st : LoopSt) (s : PS),
    (∀ c ∈ cs, chunkOk c = true) → Inv S (render cs) st s → cs.foldlM stepChunk S = none →
    s.rest.length < pfuel + 1 → ∀ fuel, s.rest.length < fuel → BadEnd (mainLoop (pfuel + 1) fuel st s) := by
  intro cs
  induction cs with
  | nil => intro S st s _ _ h; simp [pure] at h
  | cons c cs ih =>
    intro S st s hall hinv hfold hp fuel hf
    simp only [List.foldlM_cons, bind, Option.bind] at hfold
    rw [render_cons] at hinv
    have hc := hall c List.mem_cons_self
    cases hstep : stepChunk S c with
    | some S1 =>
      simp only [hstep] at hfold
      obtain ⟨n1, st1, s1, hinv1, hlen1, hrun1⟩ := stepSim_all pfuel c hc S S1 (render cs) st s hp hinv hstep
      have := ih S1 st1 s1 (fun d hd => hall d (List.mem_cons_of_mem _ hd)) hinv1 hfold (by omega) (fuel - n1) (by omega)
      rw [show fuel = (fuel - n1) + n1 by omega, hrun1]
      exact this
    | none =>
      rcases step_none_all (pfuel + 1) c hc S (render cs) st s hp hinv hstep with ⟨n, ws, rfl, hrl⟩ | hfail
      · simp only [chunkOk, Bool.and_eq_true] at hc
        obtain ⟨st1, s1, m, hrun, hmk, htag, hname, hlen⟩ :=
          close_marker_run (pfuel + 1) n ws hc.1 hc.2 S (render cs) st s hinv
        cases fuel with
        | zero => omega
        | succ f =>
          rw [hrun]
          have hpre := mainLoop_prefix (pfuel + 1) (st.markers ++ [m]) f st1 s1 (by omega) (by omega) ⟨[], by simp [hmk]⟩
          cases hml : mainLoop (pfuel + 1) f st1 s1 with
          | ok st' s' =>
            simp only [hml, Res.Sat] at hpre
            obtain ⟨more, hmore⟩ := hpre
            obtain ⟨opensM, hop, hb⟩ := hinv.build
            simp only [BadEnd, hmore]
            rw [List.append_assoc, hb]
            have hli : lastIndexNamed m.name opensM 0 = none := by
              cases hli : lastIndexNamed m.name opensM 0 with
              | none => rfl
              | some j =>
                obtain ⟨i, hi, _, hre⟩ := (removeLast_map m.name opensM 0).2 j hli
                rw [hname, hop, hrl] at hre
                simp at hre
            simp [buildAttrs, htag, hli]
          | err _ => simp [BadEnd]
          | panic _ => simp only [hml, Res.Sat] at hpre
          | oof _ => simp only [hml, Res.Sat] at hpre
      · cases fuel with
        | zero => omega
        | succ f =>
          obtain ⟨s', hs'⟩ := hfail f
          rw [hs']
          simp [BadEnd]

end Ysgo.Markup
