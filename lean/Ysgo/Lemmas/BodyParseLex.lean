import Ysgo.Model.BodyParse
import Ysgo.Lemmas.Indent
/-!
# `lex_layout`: the stack-based indentation logic on a laid-out tree yields the bracketed token sequence

1. `lexBody_eq_lexLines`: running the indentation logic of `Ysgo.Indent` over physical lines (noise lines included)
   gives the same parser tokens as the direct function `lexLines` over the real lines only — the noise-line filter
   in front of the lexer (C08.2 at the level of the parser's input).
2. Three local facts about `lexLines` on the stack `chain L d = [w d, …, w 1]`: a line at the current depth emits no
   indentation token; the first line of a deeper block emits one INDENT; a pending DEDENT comes out in front of
   the next shallower line.
3. A four-way mutual structural induction over statements, statement lists, options and elseif clauses.
-/
namespace Ysgo.BodyParse

/-! ## the direct lexer over real lines -/

def popWhile (w : Nat) : List Nat → List Nat × List Tok
  | [] => ([], [])
  | top :: st => if w < top then let (st', ts) := popWhile w st; (st', .dedent :: ts) else (top :: st, [])

def lexLines : List Nat → List (Nat × LTok) → List Tok
  | st, [] => st.map (fun _ => .dedent)
  | st, (w, t) :: ls =>
    let prev := st.headD 0
    if w > prev then .indent :: .t t :: lexLines (w :: st) ls
    else if w < prev then let (st', ts) := popWhile w st; ts ++ .t t :: lexLines st' ls
    else .t t :: lexLines st ls

theorem convToks_append (a b : List Indent.Tok) : convToks (a ++ b) = convToks a ++ convToks b := by
  induction a with
  | nil => rfl
  | cons t a ih => simp [convToks, ih]

theorem popWhile_bridge (w : Nat) (st : List Nat) :
    (Indent.popWhile w st).1 = (popWhile w st).1 ∧ convToks (Indent.popWhile w st).2 = (popWhile w st).2 := by
  induction st with
  | nil => simp [Indent.popWhile, popWhile, convToks]
  | cons top st ih =>
    unfold Indent.popWhile popWhile
    split
    · simp [convToks, convTok, ih.1, ih.2]
    · simp [convToks]

theorem convToks_handleEOF (st : List Nat) : convToks (Indent.handleEOF st) = st.map (fun _ => .dedent) := by
  induction st with
  | nil => simp [Indent.handleEOF, convToks, convTok]
  | cons a st ih =>
    simp only [Indent.handleEOF, List.map_cons, List.cons_append, convToks, convTok] at ih ⊢
    simp [ih]

/-- the noise-line filter: the parser's input is that of the real lines alone -/
theorem lexBodyFrom_eq_lexLines (ps : List PLine) : ∀ st : List Nat,
    lexBodyFrom st ps = lexLines st (realLines ps) := by
  induction ps with
  | nil => intro st; simp [lexBodyFrom, realLines, lexLines, convToks_handleEOF]
  | cons p ps ih =>
    intro st
    cases p with
    | noise w =>
      simp [lexBodyFrom, realLines, PLine.info, PLine.toks, Indent.handleNewline, convToks, convTok, ih]
    | real w t =>
      obtain ⟨h1, h2⟩ := popWhile_bridge w st
      by_cases hgt : st.head?.getD 0 < w
      · simp [lexBodyFrom, realLines, PLine.info, PLine.toks, Indent.handleNewline, lexLines, hgt,
          convToks, convTok, ih]
      · by_cases hlt : w < st.head?.getD 0
        · simp [lexBodyFrom, realLines, PLine.info, PLine.toks, Indent.handleNewline, lexLines, hgt, hlt,
            convToks, convTok, ih, h1, h2]
        · simp [lexBodyFrom, realLines, PLine.info, PLine.toks, Indent.handleNewline, lexLines, hgt, hlt,
            convToks, convTok, ih]

theorem lexBody_eq_lexLines (ps : List PLine) : lexBody ps = lexLines [] (realLines ps) :=
  lexBodyFrom_eq_lexLines ps []

/-! ## the three local facts -/

variable (L : Layout)

def chain : Nat → List Nat
  | 0 => []
  | d + 1 => L.w (d + 1) :: chain d

theorem headD_chain (h : L.Ok) (d : Nat) : (chain L d).headD 0 = L.w d := by
  cases d <;> simp [chain, h.zero]
theorem head?_chain (h : L.Ok) (d : Nat) : (chain L d).head?.getD 0 = L.w d := by
  cases d <;> simp [chain, h.zero]

/-- `rest` starts with a line that is not deeper than depth `d` -/
def Closes (d : Nat) (rest : List (Nat × LTok)) : Prop :=
  ∃ w t r, rest = (w, t) :: r ∧ w ≤ L.w d

/-- a line at the current depth: no indentation token -/
theorem lex_same (h : L.Ok) (d : Nat) (t : LTok) (r : List (Nat × LTok)) :
    lexLines (chain L d) ((L.w d, t) :: r) = .t t :: lexLines (chain L d) r := by
  rw [lexLines]
  simp [head?_chain L h]

/-- entering a deeper block: one INDENT, then as if we had been at the deeper level -/
theorem lex_enter (h : L.Ok) (d : Nat) (t : LTok) (r : List (Nat × LTok)) :
    lexLines (chain L d) ((L.w (d + 1), t) :: r) = .indent :: lexLines (chain L (d + 1)) ((L.w (d + 1), t) :: r) := by
  rw [lexLines, lex_same L h (d + 1)]
  have := h.mono d
  simp [head?_chain L h, this, chain]

/-- leaving a block lazily: the pending DEDENT comes out in front of the next line -/
theorem lex_leave (h : L.Ok) (d : Nat) (rest : List (Nat × LTok)) (hc : Closes L d rest) :
    lexLines (chain L (d + 1)) rest = .dedent :: lexLines (chain L d) rest := by
  obtain ⟨w, t, r, rfl, hw⟩ := hc
  have hm := h.mono d
  rw [lexLines]
  have h1 : ¬ w > L.w (d + 1) := by omega
  have h2 : w < L.w (d + 1) := by omega
  simp only [chain, List.headD_cons, h1, h2, ↓reduceIte, popWhile]
  rw [lexLines]
  simp only [headD_chain L h]
  have h3 : ¬ w > L.w d := by omega
  simp only [h3, ↓reduceIte]
  by_cases h4 : w < L.w d
  · simp [h4]
  · simp only [h4, ↓reduceIte]
    -- w = L.w d : nothing more to pop
    cases d with
    | zero => simp [chain, popWhile]
    | succ d =>
      have : ¬ w < L.w (d + 1) := h4
      simp [chain, popWhile, this]


theorem wfL_cons {s : Stmt} {ss : List Stmt} (h : wfL (s :: ss) = true) : wfS s = true ∧ wfL ss = true := by
  cases ss with
  | nil => simp_all [wfL]
  | cons t r => simp only [wfL, Bool.and_eq_true] at h; exact ⟨h.1.1, h.2⟩

/-- every well-formed statement starts with a line at its own depth -/
theorem head_stmt (d : Nat) : ∀ s : Stmt, wfS s = true → ∃ t r, layoutStmt L d s = (L.w d, t) :: r
  | .line n, _ => by rw [layoutStmt]; exact ⟨_, _, rfl⟩
  | .single n, _ => by rw [layoutStmt]; exact ⟨_, _, rfl⟩
  | .ifs f es el, _ => by unfold layoutStmt; exact ⟨_, _, rfl⟩
  | .opts os, h => by
    cases os with
    | nil => simp [wfS] at h
    | cons o os => obtain ⟨n, b⟩ := o; rw [layoutStmt, layoutOpts]; exact ⟨_, _, rfl⟩

theorem closes_stmts (d : Nat) (ss : List Stmt) (rest : List (Nat × LTok)) (h : wfL ss = true)
    (hc : Closes L d rest) : Closes L d (layoutStmts L d ss ++ rest) := by
  cases ss with
  | nil => simpa [layoutStmts] using hc
  | cons s ss =>
    obtain ⟨hs, _⟩ := wfL_cons h
    obtain ⟨t, r, e⟩ := head_stmt L d s hs
    refine ⟨L.w d, t, r ++ (layoutStmts L d ss ++ rest), ?_, Nat.le_refl _⟩
    simp [layoutStmts, e]

theorem closes_deeper (h : L.Ok) {d : Nat} {rest : List (Nat × LTok)} (hc : Closes L d rest) :
    Closes L (d + 1) rest := by
  obtain ⟨w, t, r, e, hw⟩ := hc
  exact ⟨w, t, r, e, by have := h.mono d; omega⟩

theorem tStmt_ne_nil : ∀ s : Stmt, wfS s = true → tStmt L s ≠ []
  | .line n, _ => by unfold tStmt; simp
  | .single n, _ => by unfold tStmt; simp
  | .ifs f es el, _ => by unfold tStmt; simp
  | .opts os, h => by
    cases os with
    | nil => simp [wfS] at h
    | cons o os => obtain ⟨n, b⟩ := o; unfold tStmt tOpts; simp

/-- block lemma, from the statement-list lemma for the block's body -/
theorem lex_block (h : L.Ok) (b : List Stmt) (hb : wfL b = true)
    (ih : ∀ d rest, Closes L d rest →
      lexLines (chain L d) (layoutStmts L d b ++ rest) = tStmts L b ++ lexLines (chain L d) rest)
    (d : Nat) (rest : List (Nat × LTok)) (hc : Closes L d rest) :
    lexLines (chain L d) (layoutStmts L (d + 1) b ++ rest) = brk (tStmts L b) ++ lexLines (chain L d) rest := by
  cases b with
  | nil => simp [layoutStmts, tStmts, brk]
  | cons s ss =>
    obtain ⟨hs, _⟩ := wfL_cons hb
    obtain ⟨t, r, e⟩ := head_stmt L (d + 1) s hs
    have hne : tStmts L (s :: ss) ≠ [] := by
      simp [tStmts, tStmt_ne_nil L s hs]
    have hlay : layoutStmts L (d + 1) (s :: ss) ++ rest
        = (L.w (d + 1), t) :: (r ++ (layoutStmts L (d + 1) ss ++ rest)) := by
      simp [layoutStmts, e]
    have step := ih (d + 1) rest (closes_deeper L h hc)
    rw [hlay] at step ⊢
    rw [lex_enter L h, step, lex_leave L h d rest hc]
    have : (tStmts L (s :: ss)).isEmpty = false := by
      cases hts : tStmts L (s :: ss) with
      | nil => exact absurd hts hne
      | cons _ _ => rfl
    simp [brk, this]


theorem closes_cons (d : Nat) (t : LTok) (r : List (Nat × LTok)) : Closes L d ((L.w d, t) :: r) :=
  ⟨_, _, _, rfl, Nat.le_refl _⟩

theorem wfL_of_opts_body {n : Nat} {b : List Stmt} {os : List (Nat × List Stmt)}
    (h : wfO ((n, b) :: os) = true) : wfL b = true ∧ wfO os = true := by
  simpa [wfO] using h
theorem wfE_cons {b : List Stmt} {bs : List (List Stmt)} (h : wfE (b :: bs) = true) : wfL b = true ∧ wfE bs = true := by
  simpa [wfE] using h

/-- if-clause bodies: indented one level or laid out at the same depth -/
theorem lex_clause (h : L.Ok) (b : List Stmt) (hb : wfL b = true)
    (ih : ∀ d rest, Closes L d rest →
      lexLines (chain L d) (layoutStmts L d b ++ rest) = tStmts L b ++ lexLines (chain L d) rest)
    (d : Nat) (rest : List (Nat × LTok)) (hc : Closes L d rest) :
    lexLines (chain L d) (layoutStmts L (if L.ifIndent then d + 1 else d) b ++ rest)
      = (if L.ifIndent then brk (tStmts L b) else tStmts L b) ++ lexLines (chain L d) rest := by
  cases hi : L.ifIndent with
  | true => simpa using lex_block L h b hb ih d rest hc
  | false => simpa using ih d rest hc

mutual
theorem lexStmt (h : L.Ok) : ∀ (s : Stmt), wfS s = true → ∀ d rest, Closes L d rest →
    lexLines (chain L d) (layoutStmt L d s ++ rest) = tStmt L s ++ lexLines (chain L d) rest
  | .line n, _, d, rest, _ => by
    unfold layoutStmt tStmt
    simpa using lex_same L h d (.line n) rest
  | .single n, _, d, rest, _ => by
    unfold layoutStmt tStmt
    simpa using lex_same L h d (.single n) rest
  | .opts os, hw, d, rest, hc => by
    have hwo : wfO os = true := by
      unfold wfS at hw; simp only [Bool.and_eq_true] at hw; exact hw.2
    unfold layoutStmt tStmt
    exact lexOpts h os hwo d rest hc
  | .ifs f es none, hw, d, rest, hc => by
    have hw' : wfL f = true ∧ wfE es = true := by
      unfold wfS at hw; simpa [Bool.and_eq_true] using hw
    obtain ⟨hwf, hwe⟩ := hw'
    have hend : Closes L d ((L.w d, LTok.endifT) :: rest) := ⟨_, _, _, rfl, Nat.le_refl _⟩
    unfold layoutStmt tStmt
    simp only [List.cons_append, List.append_assoc, List.nil_append, List.append_nil]
    rw [lex_same L h]
    have helifs := lexElifs h es hwe d _ hend
    have hcI : Closes L d (layoutElifs L d (if L.ifIndent then d + 1 else d) es ++ ((L.w d, LTok.endifT) :: rest)) := by
      cases es with
      | nil => simpa [layoutElifs] using hend
      | cons b bs => unfold layoutElifs; simp only [List.cons_append]; exact closes_cons L _ _ _
    rw [lex_clause L h f hwf (fun d rest hc => lexStmts h f hwf d rest hc) d _ hcI, helifs, lex_same L h]
    try simp [List.append_assoc]
  | .ifs f es (some b), hw, d, rest, hc => by
    have hw' : wfL f = true ∧ wfE es = true ∧ wfL b = true := by
      unfold wfS at hw; simpa [Bool.and_eq_true, and_assoc] using hw
    obtain ⟨hwf, hwe, hwl⟩ := hw'
    have hend : Closes L d ((L.w d, LTok.endifT) :: rest) := ⟨_, _, _, rfl, Nat.le_refl _⟩
    have hcE : Closes L d ((L.w d, LTok.elseT) :: (layoutStmts L (if L.ifIndent then d + 1 else d) b ++ ((L.w d, LTok.endifT) :: rest))) :=
      ⟨_, _, _, rfl, Nat.le_refl _⟩
    unfold layoutStmt tStmt
    simp only [List.cons_append, List.append_assoc, List.nil_append]
    rw [lex_same L h]
    have helifs := lexElifs h es hwe d _ hcE
    have hcI : Closes L d (layoutElifs L d (if L.ifIndent then d + 1 else d) es ++
        ((L.w d, LTok.elseT) :: (layoutStmts L (if L.ifIndent then d + 1 else d) b ++ ((L.w d, LTok.endifT) :: rest)))) := by
      cases es with
      | nil => simpa [layoutElifs] using hcE
      | cons b' bs => unfold layoutElifs; simp only [List.cons_append]; exact closes_cons L _ _ _
    rw [lex_clause L h f hwf (fun d rest hc => lexStmts h f hwf d rest hc) d _ hcI, helifs, lex_same L h,
      lex_clause L h b hwl (fun d rest hc => lexStmts h b hwl d rest hc) d _ hend, lex_same L h]
    try simp [List.append_assoc]
theorem lexStmts (h : L.Ok) : ∀ (ss : List Stmt), wfL ss = true → ∀ d rest, Closes L d rest →
    lexLines (chain L d) (layoutStmts L d ss ++ rest) = tStmts L ss ++ lexLines (chain L d) rest
  | [], _, d, rest, _ => by simp [layoutStmts, tStmts]
  | s :: ss, hw, d, rest, hc => by
    obtain ⟨hs, hss⟩ := wfL_cons hw
    have hc' := closes_stmts L d ss rest hss hc
    unfold layoutStmts tStmts
    rw [List.append_assoc, lexStmt h s hs d _ hc', lexStmts h ss hss d rest hc, List.append_assoc]
theorem lexOpts (h : L.Ok) : ∀ (os : List (Nat × List Stmt)), wfO os = true → ∀ d rest, Closes L d rest →
    lexLines (chain L d) (layoutOpts L d os ++ rest) = tOpts L os ++ lexLines (chain L d) rest
  | [], _, d, rest, _ => by simp [layoutOpts, tOpts]
  | (n, b) :: os, hw, d, rest, hc => by
    obtain ⟨hb, hos⟩ := wfL_of_opts_body hw
    have hc' : Closes L d (layoutOpts L d os ++ rest) := by
      cases os with
      | nil => simpa [layoutOpts] using hc
      | cons o os => obtain ⟨n', b'⟩ := o; unfold layoutOpts; simp only [List.cons_append]; exact closes_cons L _ _ _
    unfold layoutOpts tOpts
    simp only [List.cons_append, List.append_assoc]
    rw [lex_same L h, lex_block L h b hb (fun d rest hc => lexStmts h b hb d rest hc) d _ hc',
      lexOpts h os hos d rest hc]
theorem lexElifs (h : L.Ok) : ∀ (es : List (List Stmt)), wfE es = true → ∀ d rest, Closes L d rest →
    lexLines (chain L d) (layoutElifs L d (if L.ifIndent then d + 1 else d) es ++ rest)
      = tElifs L es ++ lexLines (chain L d) rest
  | [], _, d, rest, _ => by simp [layoutElifs, tElifs]
  | b :: bs, hw, d, rest, hc => by
    obtain ⟨hb, hbs⟩ := wfE_cons hw
    have hc' : Closes L d (layoutElifs L d (if L.ifIndent then d + 1 else d) bs ++ rest) := by
      cases bs with
      | nil => simpa [layoutElifs] using hc
      | cons b' bs' => unfold layoutElifs; simp only [List.cons_append]; exact closes_cons L _ _ _
    unfold layoutElifs tElifs
    simp only [List.cons_append, List.append_assoc]
    rw [lex_same L h, lex_clause L h b hb (fun d rest hc => lexStmts h b hb d rest hc) d _ hc',
      lexElifs h bs hbs d rest hc]
end

/-- the indentation lexer on any layout of a well-formed body yields the bracketed token sequence:
    the result does not depend on the widths at all -/
theorem lexLines_layoutBody (h : L.Ok) (body : List Stmt) (hw : wfL body = true) :
    lexLines [] (layoutBody L body) = bodyToks L body := by
  have hc : Closes L 0 [(0, LTok.bodyEnd)] := ⟨0, _, [], rfl, Nat.zero_le _⟩
  have hend : lexLines [] [(0, LTok.bodyEnd)] = [.t .bodyEnd] := by simp [lexLines]
  unfold layoutBody bodyToks
  cases ht : L.topIndent with
  | false =>
    have := lexStmts L h body hw 0 _ hc
    simp only [chain] at this
    simp only [Bool.false_eq_true, ↓reduceIte]
    rw [this, hend]
  | true =>
    have := lex_block L h body hw (fun d rest hc => lexStmts L h body hw d rest hc) 0 _ hc
    simp only [chain] at this
    simp only [↓reduceIte]
    rw [this, hend]

end Ysgo.BodyParse
