import Ysgo.Model.Markup
/-!
# Markup model: every scanner is "safe"

`Safe n p V`: started on any state with fewer than `n` unread runes, `p` does not panic, does not run out of fuel, and when
it succeeds it has not lengthened the unread input, has left `position` alone, and its value satisfies `V position`.
-/
namespace Ysgo.Markup

attribute [local irreducible] Unicode.isLetter Unicode.isDigit Unicode.isSpace Unicode.toLower

def Safe {α : Type} (n : Nat) (p : P α) (V : Nat → α → Prop) : Prop :=
  ∀ s : PS, s.rest.length < n →
    match p s with
    | .ok a s' => s'.rest.length ≤ s.rest.length ∧ s'.pos = s.pos ∧ V s.pos a
    | .err _ => True
    | .panic _ => False
    | .oof _ => False

abbrev Triv {α : Type} : Nat → α → Prop := fun _ _ => True

theorem Safe.mono {α n} {p : P α} {V W : Nat → α → Prop} (h : Safe n p V) (hvw : ∀ pos a, V pos a → W pos a) :
    Safe n p W := by
  intro s hs
  have := h s hs
  cases hp : p s <;> simp only [hp] at this ⊢ <;> try exact this
  exact ⟨this.1, this.2.1, hvw _ _ this.2.2⟩

theorem Safe.bind {α β n} {p : P α} {f : α → P β} {V1 : Nat → α → Prop} {V2 : Nat → β → Prop}
    (hp : Safe n p V1) (hf : ∀ a, Safe n (f a) (fun pos b => V1 pos a → V2 pos b)) : Safe n (p >>= f) V2 := by
  intro s hs
  have h1 := hp s hs
  show match P.bind p f s with | .ok a s' => _ | .err _ => _ | .panic _ => _ | .oof _ => _
  unfold P.bind
  cases hps : p s with
  | ok a s' =>
    simp only [hps] at h1 ⊢
    have h2 := hf a s' (by omega)
    cases hfs : f a s' with
    | ok b s'' =>
      simp only [hfs] at h2 ⊢
      refine ⟨by omega, by rw [h2.2.1, h1.2.1], ?_⟩
      have := h2.2.2
      rw [h1.2.1] at this
      exact this h1.2.2
    | err _ => trivial
    | panic _ => simp only [hfs] at h2
    | oof _ => simp only [hfs] at h2
  | err _ => trivial
  | panic _ => simp only [hps] at h1
  | oof _ => simp only [hps] at h1

/-- bind after a step whose value carries no information -/
theorem Safe.bind' {α β n} {p : P α} {f : α → P β} {V1 : Nat → α → Prop} {V2 : Nat → β → Prop}
    (hp : Safe n p V1) (hf : ∀ a, Safe n (f a) V2) : Safe n (p >>= f) V2 :=
  Safe.bind hp (fun a => (hf a).mono (fun _ _ h _ => h))

theorem Safe.pure {α n} {V : Nat → α → Prop} (a : α) (h : ∀ pos, V pos a) : Safe n (pure a : P α) V := by
  intro s _
  exact ⟨Nat.le_refl _, rfl, h _⟩

theorem Safe.fail {α n} {V : Nat → α → Prop} : Safe n (fail : P α) V := by
  intro s _; trivial

theorem safe_readRune {n} : Safe n readRune Triv := by
  intro s _
  unfold readRune
  cases h : s.rest <;> simp [h]

theorem safe_peekRune {n} : Safe n peekRune Triv := by
  intro s _; simp [peekRune]

theorem safe_incSrc {n} : Safe n incSrc Triv := by
  intro s _; simp [incSrc]

theorem safe_getSrc {n} : Safe n getSrc Triv := by
  intro s _; simp [getSrc]

theorem safe_getPos {n} : Safe n getPos (fun pos a => a = pos) := by
  intro s _; simp [getPos]

theorem skipWsAux_length (l : List Char) (k : Nat) : (skipWsAux l k).1.length ≤ l.length := by
  induction l generalizing k with
  | nil => simp [skipWsAux]
  | cons c cs ih =>
    unfold skipWsAux
    split
    · have := ih (k + 1); simp only [List.length_cons]; omega
    · simp

theorem safe_consumeWhitespace {n} : Safe n consumeWhitespace Triv := by
  intro s _
  exact ⟨skipWsAux_length _ _, rfl, trivial⟩

theorem safe_parseRune {n} (r : Char) : Safe n (parseRune r) Triv := by
  unfold parseRune
  refine Safe.bind' safe_consumeWhitespace fun _ => ?_
  refine Safe.bind' safe_readRune fun o => ?_
  split
  · exact Safe.fail
  · split
    · exact Safe.fail
    · exact safe_incSrc

theorem safe_expectPeek {n} (r : Char) : Safe n (expectPeek r) Triv := by
  unfold expectPeek
  refine Safe.bind' safe_consumeWhitespace fun _ => ?_
  refine Safe.bind' safe_peekRune fun c => ?_
  exact Safe.pure _ (fun _ => trivial)

theorem takeIdAux_length (l acc : List Char) (k : Nat) : (takeIdAux l acc k).2.1.length ≤ l.length := by
  induction l generalizing acc k with
  | nil => simp [takeIdAux]
  | cons c cs ih =>
    unfold takeIdAux
    split
    · have := ih (acc ++ [c]) (k + 1); simp only [List.length_cons]; omega
    · simp

theorem safe_takeId {n} : Safe n takeId Triv := by
  intro s _
  exact ⟨takeIdAux_length _ _ _, rfl, trivial⟩

theorem safe_parseID {n} : Safe n parseID Triv := by
  unfold parseID
  refine Safe.bind' safe_consumeWhitespace fun _ => ?_
  refine Safe.bind' safe_readRune fun o => ?_
  split
  · exact Safe.fail
  · refine Safe.bind' safe_incSrc fun _ => ?_
    split
    · refine Safe.bind' safe_takeId fun _ => ?_
      exact Safe.pure _ (fun _ => trivial)
    · exact Safe.fail

/-- `parseID` consumes at least one rune when it succeeds -/
theorem parseID_strict (s : PS) (a : String) (s' : PS) (h : parseID s = .ok a s') :
    s'.rest.length < s.rest.length := by
  simp only [parseID, bind, P.bind, consumeWhitespace, readRune] at h
  have h1 := skipWsAux_length s.rest s.src
  cases hr : (skipWsAux s.rest s.src).1 with
  | nil => simp [hr, fail] at h
  | cons c cs =>
    rw [hr] at h1
    simp only [hr, P.bind, incSrc] at h
    by_cases hc : isIdChar c = true
    · simp only [hc, if_true, P.bind, takeId, pure, P.pure, Res.ok.injEq] at h
      have h2 := takeIdAux_length cs [] ((skipWsAux s.rest s.src).2 + 1)
      simp only [List.length_cons] at h1
      rw [← h.2]
      simp only []
      omega
    · simp [hc, fail] at h

/-- bind after a step that consumes at least one rune: the continuation only needs to be safe one level below -/
theorem Safe.bindStrict {α β n} {p : P α} {f : α → P β} {V1 : Nat → α → Prop} {V2 : Nat → β → Prop}
    (hp : Safe (n + 1) p V1)
    (hs : ∀ s a s', p s = .ok a s' → s'.rest.length < s.rest.length)
    (hf : ∀ a, Safe n (f a) V2) : Safe (n + 1) (p >>= f) V2 := by
  intro s hlt
  have h1 := hp s hlt
  have h0 := hs s
  show match P.bind p f s with | .ok a s' => _ | .err _ => _ | .panic _ => _ | .oof _ => _
  unfold P.bind
  cases hps : p s with
  | ok a s' =>
    simp only [hps] at h1 ⊢
    have h0 := h0 a s' hps
    have h2 := hf a s' (by omega)
    cases hfs : f a s' with
    | ok b s'' =>
      simp only [hfs] at h2 ⊢
      refine ⟨by omega, by rw [h2.2.1, h1.2.1], ?_⟩
      have := h2.2.2
      rw [h1.2.1] at this
      exact this
    | err _ => trivial
    | panic _ => simp only [hfs] at h2
    | oof _ => simp only [hfs] at h2
  | err _ => trivial
  | panic _ => simp only [hps] at h1
  | oof _ => simp only [hps] at h1

theorem takeDigitsAux_length (l acc : List Char) (k : Nat) : (takeDigitsAux l acc k).2.1.length ≤ l.length := by
  induction l generalizing acc k with
  | nil => simp [takeDigitsAux]
  | cons c cs ih =>
    unfold takeDigitsAux
    split
    · have := ih (acc ++ [c]) (k + 1); simp only [List.length_cons]; omega
    · simp

theorem safe_parseDigits {n} : Safe n parseDigits Triv := by
  unfold parseDigits
  refine Safe.bind' safe_consumeWhitespace fun _ => ?_
  intro s _
  exact ⟨takeDigitsAux_length _ _ _, rfl, trivial⟩

theorem safe_parseInteger {n} : Safe n parseInteger Triv := by
  unfold parseInteger
  refine Safe.bind' safe_parseDigits fun ds => ?_
  split
  · exact Safe.pure _ (fun _ => trivial)
  · exact Safe.fail

theorem strBody_length (l acc : List Char) (k : Nat) :
    ∀ r, strBody l acc k = some r → r.2.1.length ≤ l.length := by
  fun_induction strBody l acc k <;> intro r h
  · simp at h
  · simp at h; subst h; simp
  · simp at h
  · rename_i ih
    have := ih r h
    simp only [List.length_cons]; omega
  · rename_i ih
    have := ih r h
    simp only [List.length_cons]; omega

theorem safe_parseString {n} : Safe n parseString Triv := by
  unfold parseString
  refine Safe.bind' safe_consumeWhitespace fun _ => ?_
  refine Safe.bind' safe_readRune fun o => ?_
  split
  · exact Safe.fail
  · split
    · exact Safe.fail
    · refine Safe.bind' safe_incSrc fun _ => ?_
      intro s _
      cases h : strBody s.rest [] s.src with
      | none => simp only [h]
      | some r =>
        obtain ⟨body, rest, m⟩ := r
        have hl := strBody_length _ _ _ _ h
        simp only [h]
        exact ⟨hl, trivial, trivial⟩

theorem safe_parseValue {n} : Safe n parseValue Triv := by
  unfold parseValue
  refine Safe.bind' safe_consumeWhitespace fun _ => ?_
  refine Safe.bind' safe_peekRune fun c => ?_
  split
  · refine Safe.bind' safe_parseInteger fun i => ?_
    refine Safe.bind' (safe_expectPeek _) fun b => ?_
    split
    · refine Safe.bind' (safe_parseRune _) fun _ => ?_
      refine Safe.bind' safe_parseDigits fun fr => ?_
      split
      · exact Safe.fail
      · split
        · exact Safe.pure _ (fun _ => trivial)
        · exact Safe.fail
    · exact Safe.pure _ (fun _ => trivial)
  · refine Safe.bind' (safe_expectPeek _) fun b => ?_
    split
    · refine Safe.bind' safe_parseString fun _ => ?_
      exact Safe.pure _ (fun _ => trivial)
    · refine Safe.bind' safe_parseID fun w => ?_
      dsimp only
      split
      · exact Safe.pure _ (fun _ => trivial)
      · split
        · exact Safe.pure _ (fun _ => trivial)
        · exact Safe.pure _ (fun _ => trivial)

theorem safe_propsLoop (name : String) (src0 : Nat) :
    ∀ fuel props, Safe fuel (propsLoop name src0 fuel props) (fun pos m => m.position = pos) := by
  intro fuel
  induction fuel with
  | zero => intro props s hs; exact absurd hs (Nat.not_lt_zero _)
  | succ f ih =>
    intro props
    unfold propsLoop
    refine Safe.bind' safe_consumeWhitespace fun _ => ?_
    refine Safe.bind' safe_peekRune fun c => ?_
    split
    · refine Safe.bind' (safe_parseRune _) fun _ => ?_
      refine Safe.bind safe_getPos fun x => ?_
      exact Safe.pure _ (fun pos h => h)
    · split
      · refine Safe.bind' (safe_parseRune _) fun _ => ?_
        refine Safe.bind' (safe_parseRune _) fun _ => ?_
        refine Safe.bind safe_getPos fun x => ?_
        exact Safe.pure _ (fun pos h => h)
      · refine Safe.bindStrict safe_parseID parseID_strict fun pn => ?_
        refine Safe.bind' (safe_parseRune _) fun _ => ?_
        refine Safe.bind' safe_parseValue fun pv => ?_
        exact ih _

theorem safe_parseAttributeMarker (fuel : Nat) :
    Safe fuel (parseAttributeMarker fuel) (fun pos m => m.position = pos) := by
  unfold parseAttributeMarker
  refine Safe.bind' safe_getSrc fun src0 => ?_
  refine Safe.bind' safe_incSrc fun _ => ?_
  refine Safe.bind' (safe_expectPeek _) fun b => ?_
  split
  · refine Safe.bind' (safe_parseRune _) fun _ => ?_
    refine Safe.bind' (safe_expectPeek _) fun b => ?_
    split
    · refine Safe.bind' (safe_parseRune _) fun _ => ?_
      refine Safe.bind safe_getPos fun x => ?_
      exact Safe.pure _ (fun pos h => h)
    · refine Safe.bind' safe_parseID fun nm => ?_
      refine Safe.bind' (safe_parseRune _) fun _ => ?_
      refine Safe.bind safe_getPos fun x => ?_
      exact Safe.pure _ (fun pos h => h)
  · refine Safe.bind' safe_parseID fun nm => ?_
    refine Safe.bind' (safe_expectPeek _) fun b => ?_
    split
    · refine Safe.bind' (safe_parseRune _) fun _ => ?_
      refine Safe.bind' safe_parseValue fun v => ?_
      exact safe_propsLoop _ _ _ _
    · exact safe_propsLoop _ _ _ _

theorem findCloseIdx_bound (name l : List Char) (k i : Nat) (h : findCloseIdx name l k = some i) :
    k ≤ i ∧ i < k + l.length := by
  induction l generalizing k with
  | nil => simp [findCloseIdx] at h
  | cons c cs ih =>
    unfold findCloseIdx at h
    split at h
    · simp only [Option.some.injEq] at h; subst h; simp
    · have := ih (k + 1) h
      simp only [List.length_cons]; omega

theorem safe_parseRaw {n} (name : String) : Safe n (parseRawTextUpToAttributeClose name) Triv := by
  intro s _
  simp only [parseRawTextUpToAttributeClose, bind, P.bind, readAll]
  cases h : findCloseIdx name.toList s.rest 0 with
  | none => simp [fail]
  | some i =>
    have hb := findCloseIdx_bound _ _ _ _ h
    have h1 : 0 ≤ i ∧ i ≤ s.rest.length := by omega
    have h2 : i ≤ s.rest.length ∧ s.rest.length ≤ s.rest.length := by omega
    simp only [sliceP, h1, h2, and_self, if_true, pure, P.pure, P.bind, setReader]
    refine ⟨?_, trivial⟩
    simp only [List.length_take, List.length_drop]
    omega

theorem safe_processReplacementMarker {n} (m : Marker) : Safe n (processReplacementMarker m) Triv := by
  unfold processReplacementMarker
  split
  · exact Safe.pure _ (fun _ => trivial)
  · refine Safe.bind' (V1 := Triv) ?_ fun props => ?_
    · split
      · refine Safe.bind' (safe_parseRaw _) fun raw => ?_
        exact Safe.pure _ (fun _ => trivial)
      · exact Safe.pure _ (fun _ => trivial)
    · split
      · exact Safe.fail
      · exact Safe.pure _ (fun _ => trivial)

/-- what `markerStep` does to the loop state: one marker, positioned at `pos`, and some text are appended -/
def StepPost (st : LoopSt) (pos : Nat) (st' : LoopSt) : Prop :=
  ∃ (m : Marker) (t : List Char), m.position = pos ∧ st' = { out := st.out ++ t, markers := st.markers ++ [m], last := '[' }

theorem safe_decideTrim {n} (hadWs isRepl : Bool) (m : Marker) : Safe n (decideTrim hadWs isRepl m) Triv := by
  unfold decideTrim
  split
  · split
    · exact Safe.pure _ (fun _ => trivial)
    · exact Safe.fail
    · exact Safe.pure _ (fun _ => trivial)
  · exact Safe.pure _ (fun _ => trivial)

theorem safe_trimOne {n} (trim : Bool) : Safe n (trimOne trim) Triv := by
  unfold trimOne
  refine Safe.bind' safe_peekRune fun c => ?_
  split
  · refine Safe.bind' safe_readRune fun o => ?_
    split
    · exact Safe.pure _ (fun _ => trivial)
    · exact safe_incSrc
  · exact Safe.pure _ (fun _ => trivial)

theorem safe_markerStep (pfuel : Nat) (st : LoopSt) : Safe pfuel (markerStep pfuel st) (StepPost st) := by
  unfold markerStep
  refine Safe.bind (safe_parseAttributeMarker pfuel) fun m => ?_
  refine Safe.bind' safe_getPos fun p => ?_
  dsimp only
  refine Safe.bind' (V1 := Triv) ?_ fun replText => ?_
  · split
    · exact safe_processReplacementMarker _
    · exact Safe.pure _ (fun _ => trivial)
  refine Safe.bind' (safe_decideTrim _ _ _) fun trim => ?_
  refine Safe.bind' (safe_trimOne _) fun _ => ?_
  exact Safe.pure _ (fun pos h => ⟨m, replText.toList, h, rfl⟩)

end Ysgo.Markup
