import Ysgo.Lemmas.F64Num
import Ysgo.Lemmas.F64Parse
/-!
# F64 lemma library, part 7: `display` (Value.ToString on numbers) and `parseFloat` on doubles below 2^52
-/
namespace Ysgo
namespace F64

/-- the parsed double, if any (for stating concrete instances decidably) -/
def ParseRes.val? : ParseRes → Option F64
  | .val x => some x
  | _ => none

/-- `int(x)` of a double below 2^52 is its truncation, without saturation -/
theorem toInt64_spec {x : F64} (h : Lt52 x) :
    (toInt64 x).natAbs ≤ P52 ∧ Finite (trunc x) ∧ val (trunc x) = ((toInt64 x : ℤ) : ℚ) := by
  obtain ⟨s, m, k, hd, hm, hk1, hk2⟩ := decode_lt52 h
  have hsm := truncInt_small s m k hm (by omega)
  obtain ⟨hf, hv⟩ := integral_val truncInt (by omega) hd (by unfold P52 P53 at *; omega)
  have ht : toInt64 x = truncInt s m k := by
    unfold toInt64
    rw [hd]
    have he : ¬ (-(k : ℤ) ≥ 0) := by omega
    have hk' : (-(-(k : ℤ))).toNat = k := by omega
    simp only [he, ↓reduceIte, hk']
    rw [if_neg]
    unfold P52 P63 at *
    omega
  rw [ht]
  exact ⟨hsm, hf, hv⟩

/-- an integer-valued double below 2^52 equals its truncation -/
theorem val_trunc_of_isInt {x : F64} (h : Lt52 x) (hint : IsInt (val x)) : val (trunc x) = val x := by
  obtain ⟨s, q, r, k, hf, hv, hx, hr, -, -, -⟩ := trunc_spec h
  obtain ⟨z, hz⟩ := hint
  have hfr0 : (0 : ℚ) ≤ (r : ℚ) / 2 ^ k := by positivity
  have hfr1 : (r : ℚ) / 2 ^ k < 1 := by rw [div_lt_one (by positivity)]; exact hr
  -- the fractional part is an integer in [0,1)
  have hfz : ∃ j : ℤ, (r : ℚ) / 2 ^ k = (j : ℚ) := by
    have h1 : sgn s * val x = (q : ℚ) + (r : ℚ) / 2 ^ k := by
      rw [hx, ← mul_assoc, sgn_sq, one_mul]
    cases s
    · refine ⟨z - q, ?_⟩
      simp only [sgn, Bool.false_eq_true, ↓reduceIte, one_mul] at h1
      push_cast; linarith
    · refine ⟨-z - q, ?_⟩
      simp only [sgn, ↓reduceIte] at h1
      push_cast; linarith
  obtain ⟨j, hj⟩ := hfz
  rw [hj] at hfr0 hfr1
  have j0 : (0 : ℤ) ≤ j := by exact_mod_cast hfr0
  have j1 : j < 1 := by exact_mod_cast hfr1
  have : j = 0 := by omega
  rw [hv, hx, hj, this]; simp

/-- `Value.ToString` of an integer-valued double is the decimal notation of that integer -/
theorem display_of_isInt {x : F64} (h : Lt52 x) (hint : IsInt (val x)) :
    display x = itoa (toInt64 x) ∧ Finite (ofInt (toInt64 x)) ∧ val (ofInt (toInt64 x)) = val x := by
  obtain ⟨hs, hf, hv⟩ := toInt64_spec h
  obtain ⟨of, ov⟩ := ofInt_val (toInt64 x) (by unfold P52 P53 at *; omega)
  have hvx : val (ofInt (toInt64 x)) = val x := by rw [ov, ← hv, val_trunc_of_isInt h hint]
  refine ⟨?_, of, hvx⟩
  have : eq x (ofInt (toInt64 x)) = true := (eq_iff_val h.finite of).mpr hvx.symm
  unfold display
  simp only [this, ↓reduceIte]

/-- `Value.ToString` of a double that is not integer-valued is `fmt.Sprint` -/
theorem display_of_not_isInt {x : F64} (h : Lt52 x) (hnint : ¬ IsInt (val x)) : display x = fmtG x := by
  obtain ⟨hs, hf, hv⟩ := toInt64_spec h
  obtain ⟨of, ov⟩ := ofInt_val (toInt64 x) (by unfold P52 P53 at *; omega)
  have : ¬ (eq x (ofInt (toInt64 x)) = true) := by
    intro he
    have := (eq_iff_val h.finite of).mp he
    exact hnint ⟨toInt64 x, by rw [this, ov]⟩
  unfold display
  simp only [this, Bool.false_eq_true, ↓reduceIte]

end F64
end Ysgo
