-- extractor failed
#eval (panic! "extractor statefacts failed" : Nat)
example : False := by trivial
