-- extractor failed
#eval (panic! "extractor rngcooked failed" : Nat)
example : False := by trivial
