-- extractor failed
#eval (panic! "extractor numfacts failed" : Nat)
example : False := by trivial
