-- extractor failed
#eval (panic! "extractor chanfacts failed" : Nat)
example : False := by trivial
