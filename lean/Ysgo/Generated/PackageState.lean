-- extractor failed
#eval (panic! "extractor pkgstate failed" : Nat)
example : False := by trivial
