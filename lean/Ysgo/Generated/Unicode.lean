-- extractor failed
#eval (panic! "extractor unicode failed" : Nat)
example : False := by trivial
