-- extractor failed
#eval (panic! "extractor evalfacts failed" : Nat)
example : False := by trivial
