import Ysgo.Generated.NumFacts
import Ysgo.Model.Markup
/-!
# C13 — translated fact: the plural case an `ordinal` marker picks

`tools/numfacts` translates the tagless switch of `processOrdinal` (markup/processors.go) — conditions over the integer
value `n` in order, the plural case each selects, and the case when none applies — into `FE` terms. Interpreted with Go's
integer remainder they select, for every `n ≥ 0` (integer property values carry no sign), exactly the case of the model's
`Markup.ordinalCase`, about which C13 proves `ordinal_table`.
-/
namespace Ysgo.C13Facts
open Ysgo Generated

/-- run the translated switch: the first case whose condition holds, else the default -/
def interpOrdinal (n : Int) : Option String :=
  let rec go : List (FE × String) → Option String
    | [] => some ordinalDefault
    | (c, name) :: rest =>
      match FE.eval (fun _ _ => none) [("n", .i n)] c with
      | some (.b true) => some name
      | some (.b false) => go rest
      | _ => none
  go ordinalSwitch

theorem tmod_nonneg (n k : Int) (h : 0 ≤ n) : Int.tmod n k = n % k := Int.tmod_eq_emod_of_nonneg h

theorem ordinal_switch_is_model (n : Int) (h : 0 ≤ n) : interpOrdinal n = some (Markup.ordinalCase n) := by
  unfold interpOrdinal Markup.ordinalCase
  simp only [ordinalSwitch, ordinalDefault, interpOrdinal.go, FE.eval, FE.lookupVar, FE.arith, FE.cmpOp, List.find?,
    tmod_nonneg n _ h, beq_self_eq_true, Option.map]
  by_cases h1 : n % 10 = 1 <;> by_cases h2 : n % 100 = 11 <;> by_cases h3 : n % 10 = 2 <;> by_cases h4 : n % 100 = 12 <;>
    by_cases h5 : n % 10 = 3 <;> by_cases h6 : n % 100 = 13 <;> simp [h1, h2, h3, h4, h5, h6] <;> omega

/-- non-vacuity: 1st 2nd 3rd 4th 11th 12th 13th 21st 111th 112th 1013th -/
example : [1, 2, 3, 4, 11, 12, 13, 21, 111, 112, 1013].map interpOrdinal =
    [some "one", some "two", some "few", some "other", some "other", some "other", some "other", some "one", some "other",
     some "other", some "other"] := by decide

end Ysgo.C13Facts
