import Ysgo.Generated.NumFacts
import Ysgo.Model.Command
/-!
# C10 — translated fact: the duration arithmetic of `<<wait n>>`, regenerated from the source on every run

`tools/numfacts` translates `secondsToDuration` (command_storer.go) into an `FE` term. Interpreted over the `F64` model
(float multiplication, `>=`, `float64(int)` rounding to nearest, `time.Duration(float)` truncating like `int64(f)` on
amd64) it is the model's `Command.waitNanos` — about which `C10Wait` proves: never negative, saturating, within one
nanosecond plus one rounding error of `n` seconds — for every double.
-/
namespace Ysgo.C10Facts
open Ysgo

abbrev src := Generated.durationSrc

theorem second_const : F64.ofInt 1000000000 = Command.nanosPerSecond := by decide +kernel
theorem maxInt64_const : F64.ofInt 9223372036854775807 = F64.ofNat P63 := by decide +kernel

theorem secondsToDuration_is_model (x : F64) :
    FE.run src "secondsToDuration" [.f x] = some (FV.i (Command.waitNanos x)) := by
  unfold Command.waitNanos
  simp only [FE.run, FE.step, FE.lookupDef, src, Generated.durationSrc, FE.bindParams, FE.eval, FE.lookupVar, FE.cmpOp,
    FE.arith, FE.constant, FE.convert, FE.asF, List.find?, Option.map, Option.bind, second_const, maxInt64_const, beq_self_eq_true]
  cases h : (x.mul Command.nanosPerSecond).ge (F64.ofNat P63) <;> simp [h, Command.maxInt64]

/-- non-vacuity: 1.5 s is 1 500 000 000 ns; 1e10 s saturates -/
example : Command.waitNanos ⟨4609434218613702656⟩ = 1500000000 ∧ Command.waitNanos ⟨4756540486875873280⟩ = 9223372036854775807 := by
  decide +kernel

end Ysgo.C10Facts
