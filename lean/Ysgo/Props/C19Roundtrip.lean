import Ysgo.Lemmas.F64Ilog
import Ysgo.Props.C19
import Ysgo.Props.C04Display
/-!
# C19.6, premise discharged — `strconv.ParseFloat(fmt.Sprint(x), 64) == x` for every finite double

`C19.number_string_roundtrip_nonintegral` carries the named premise `strconv_roundtrip : parseFloat (fmtG x) = .val x`.
This file proves it over the model:
* `shortest x` succeeds for every finite non-zero double (`F64.shortest_ne_none`, 17 digits always suffice),
* the digits it returns denote a decimal inside the rounding interval of `x` (`F64.shortest_inside`) and form an `nd`-digit
  number (`F64.shortest_digits`),
* each of the three layouts of `fmtG` is read back by `parseFloat` as exactly that decimal (`F64.parseFloat_fmtG_layout`),
* and every decimal inside the rounding interval is rounded to `x` (`F64.round_back`).

`F64.bits` is an unbounded `Nat` while `decode` reads the low 64 bits only, so the literal statement
`parseFloat (fmtG x) = .val x` needs `Canonical x` (`x.bits < 2^64`, true of every pattern the driver reads; without it
the premise of C19 is false, e.g. for `⟨2^64 + bits of 0.1⟩`). The unconditional statements return `canon x`, the 64-bit
pattern with the fields of `x`, which is `==` to `x`.

Minimality of the digit string ("no shorter digit string round-trips") is not part of these statements.
-/
namespace Ysgo
namespace C19
open F64

/-- the zeros: `0` and `-0` -/
theorem fmtG_zero_roundtrip {x : F64} {s : Bool} {e : ℤ} (hdec : decode x = .fin s 0 e) :
    parseFloat (fmtG x) = .val (canon x) := by
  obtain ⟨hs, hfr, hex, hc⟩ := decode_fin_fields hdec
  have hcan : canon x = zero s := by
    unfold canon zero
    rcases hc with ⟨h0, hm, -⟩ | ⟨-, hm, -⟩
    · rw [hs, h0, ← hm]
    · unfold P52 at hm; omega
  have hfmt : (fmtG x).toList = (if s then ['-'] else []) ++ ['0'] := by
    unfold fmtG
    rw [hdec]
    simp only [↓reduceIte]
    cases s <;> rfl
  rw [parseFloat_of_toList hfmt, parseFloat_signed s ['0'] '0' [] rfl (by decide)
    (fun y hy => Or.inl (by have : y = '0' := by simpa using hy
                            rw [this]; decide)),
    go_int s ['0'] (single_digit (by decide)) (by simp), hcan]
  rfl

/-- the digits found by `shortest` are read back as `x` -/
theorem strconv_roundtrip_of_shortest {x : F64} {d nd : ℕ} {k : ℤ} (hsh : shortest x = some (d, nd, k)) :
    parseFloat (fmtG x) = .val (canon x) := by
  obtain ⟨s, m, e, hdec, hm, -, -, hin⟩ := shortest_inside hsh
  obtain ⟨g1, g2, g3, g4, g5⟩ := shortest_digits hsh
  obtain ⟨mant, e10, ndp, hpos, hp, hb, hv⟩ := parseFloat_fmtG_layout hdec hm hsh g1 g2 g3 g4 g5
  rw [hp]
  exact parseTail_back hdec hm mant e10 ndp hpos hb (by rw [hv]; exact hin)

/-- **`strconv.ParseFloat(fmt.Sprint(x), 64)` returns the 64-bit pattern of `x`**, for every finite `x` (zeros included),
without any hypothesis on the representation -/
theorem strconv_roundtrip_canon (x : F64) (hf : Finite x) : parseFloat (fmtG x) = .val (canon x) := by
  obtain ⟨s, m, e, hdec, -⟩ := decode_finite hf
  by_cases hm : m = 0
  · subst hm; exact fmtG_zero_roundtrip hdec
  · obtain ⟨d, nd, k, hsh⟩ := shortest_some hdec hm
    exact strconv_roundtrip_of_shortest hsh

/-- **The premise of `C19.number_string_roundtrip_nonintegral`, proved**: `parseFloat (fmtG x) = .val x` for every
finite double given as a 64-bit pattern — integral or not, zeros and subnormals included -/
theorem strconv_roundtrip (x : F64) (hc : Canonical x) (hf : Finite x) : parseFloat (fmtG x) = .val x := by
  rw [strconv_roundtrip_canon x hf, canon_eq hc]

/-- the form of the premise in C19 -/
theorem strconv_roundtrip_nonintegral (x : F64) (hc : Canonical x) (hf : Finite x) (_h : ¬ IsInt (val x)) :
    parseFloat (fmtG x) = .val x :=
  strconv_roundtrip x hc hf

theorem finite_canon {x : F64} (hf : Finite x) : Finite (canon x) := by
  obtain ⟨s, m, e, hdec, -⟩ := decode_finite hf
  exact finite_of_decode (by rw [decode_canon]; exact hdec)

theorem val_eq_of_decode_eq {x y : F64} (h : decode x = decode y) : val x = val y := by
  unfold val; rw [h]

theorem val_canon (x : F64) : val (canon x) = val x := val_eq_of_decode_eq (decode_canon x)

/-- without `Canonical`: what comes back is a 64-bit pattern with the same sign, exponent and mantissa, `==` to `x` -/
theorem strconv_roundtrip_eq (x : F64) (hf : Finite x) :
    ∃ y, parseFloat (fmtG x) = .val y ∧ Canonical y ∧ decode y = decode x ∧ Finite y ∧ val y = val x
      ∧ F64.eq y x = true :=
  ⟨canon x, strconv_roundtrip_canon x hf, canonical_canon x, decode_canon x, finite_canon hf, val_canon x,
    (eq_iff_val (finite_canon hf) hf).mpr (val_canon x)⟩

/-- **C19.6 `number (string x) == x`, premise-free**, for every `|x| < 2^52` -/
theorem number_string_roundtrip_full (x : F64) (h : Lt52 x) :
    ∃ y, parseFloat (display x) = .val y ∧ Finite y ∧ val y = val x ∧ F64.eq y x = true := by
  by_cases hint : IsInt (val x)
  · exact number_string_roundtrip_integral x h hint
  · obtain ⟨y, h1, -, -, h4, h5, h6⟩ := strconv_roundtrip_eq x h.finite
    exact ⟨y, by rw [display_of_not_isInt h hint]; exact h1, h4, h5, h6⟩

/-- the statement of the assignment (`Finite x` follows from `Lt52 x`) -/
theorem number_string_roundtrip_full' (x : F64) (_hf : Finite x) (h : Lt52 x) :
    ∃ y, parseFloat (display x) = .val y ∧ F64.eq y x = true := by
  obtain ⟨y, h1, -, -, h4⟩ := number_string_roundtrip_full x h
  exact ⟨y, h1, h4⟩

/-- on the `fmt.Sprint` branch of `Value.ToString` (non-integral numbers, and integral ones outside the int64 range) the
round trip is the identity on 64-bit patterns — no bound on `|x|` -/
theorem number_string_roundtrip_sprint (x : F64) (hc : Canonical x) (hf : Finite x)
    (h : ¬ IsInt (val x) ∨ val x < -(2 : ℚ) ^ 63 ∨ 2 ^ 63 ≤ val x) :
    parseFloat (display x) = .val x := by
  rw [(C04.display_forms x).2.1 hf h]
  exact strconv_roundtrip x hc hf

/-! ### all finite doubles: also the integers between 2^53 and 2^63, which `Value.ToString` prints with `Itoa` -/

/-- the exact magnitude of a double is inside its own rounding interval -/
theorem inside_self (x : F64) (m : ℕ) (e : ℤ) : InsideRounding x m e ((m : ℚ) * 2 ^ e) := by
  have hT : (0 : ℚ) < 2 ^ e := two_zpow_pos e
  have hT1 : (0 : ℚ) < 2 ^ (e - 1) := two_zpow_pos (e - 1)
  have hg : (0 : ℚ) < (if m = P52 ∧ expField x > 1 then (2 : ℚ) ^ (e - 1) else 2 ^ e) := by
    split <;> assumption
  unfold InsideRounding
  split
  · constructor <;> linarith
  · constructor <;> linarith

/-- the decimal digits of the integer value of a non-zero double parse back to that double (any magnitude) -/
theorem parseFloat_itoa_of_val {x : F64} (hf : Finite x) (z : ℤ) (hz : (z : ℚ) = val x) (hz0 : z ≠ 0) :
    parseFloat (itoa z) = .val (canon x) := by
  obtain ⟨s, m, e, hdec, -⟩ := decode_finite hf
  have hm : m ≠ 0 := by
    rintro rfl
    rw [val_of_decode hdec, fval_zero] at hz
    exact hz0 (by exact_mod_cast hz)
  obtain ⟨-, r2, -⟩ := mag_range hdec hm
  have hpos : (0 : ℚ) < (m : ℚ) * 2 ^ e := by
    have : (0 : ℚ) < m := by exact_mod_cast Nat.pos_of_ne_zero hm
    positivity
  have habs : ((z.natAbs : ℕ) : ℚ) = (m : ℚ) * 2 ^ e := by
    rw [Nat.cast_natAbs, Int.cast_abs, hz, val_of_decode hdec, abs_fval]
  have hsign : decide (z < 0) = s := by
    have hv : (z : ℚ) = sgn s * ((m : ℚ) * 2 ^ e) := by rw [hz, val_of_decode hdec]; unfold fval; ring
    cases s
    · have : (0 : ℚ) < z := by rw [hv]; simpa [sgn] using hpos
      have : 0 < z := by exact_mod_cast this
      simp only [decide_eq_false_iff_not]; omega
    · have : (z : ℚ) < 0 := by rw [hv]; simp only [sgn, ↓reduceIte]; linarith
      have : z < 0 := by exact_mod_cast this
      simp only [decide_eq_true_eq]; exact this
  have hlen : (Nat.toDigits 10 z.natAbs).length ≤ 309 := by
    apply (Nat.length_toDigits_le_iff (by decide) (by decide)).mpr
    have h1 : ((z.natAbs : ℕ) : ℚ) < ((10 ^ 309 : ℕ) : ℚ) := by
      rw [habs]
      refine lt_of_lt_of_le r2 (le_trans two_1024_le (le_of_eq ?_))
      rw [Nat.cast_pow, Nat.cast_ofNat, ← zpow_natCast]
      rfl
    exact_mod_cast h1
  have hne : Nat.toDigits 10 z.natAbs ≠ [] := Nat.toDigits_ne_nil
  rw [itoa_eq, parseFloat_digits _ _ (toDigits_digits _) hne, go_int _ _ (toDigits_digits _) hne,
    digitsVal_toDigits, hsign]
  apply parseTail_back hdec hm z.natAbs 0 _ (by omega) (by omega)
  rw [zpow_zero, mul_one, habs]
  exact inside_self x m e

/-- **C19.6 `number (string x) == x` for every finite double** — no premise, no bound on the magnitude: integers in the
int64 range go through `Itoa`, everything else through `fmt.Sprint`, and both parse back to a double `==` to `x` -/
theorem number_string_roundtrip_all (x : F64) (hf : Finite x) :
    ∃ y, parseFloat (display x) = .val y ∧ Finite y ∧ val y = val x ∧ F64.eq y x = true := by
  by_cases h52 : Lt52 x
  · exact number_string_roundtrip_full x h52
  · obtain ⟨z, hz⟩ := isInt_of_not_lt52 hf h52
    have hcanon : ∀ str, parseFloat str = .val (canon x) →
        ∃ y, parseFloat str = .val y ∧ Finite y ∧ val y = val x ∧ F64.eq y x = true :=
      fun str h => ⟨canon x, h, finite_canon hf, val_canon x, (eq_iff_val (finite_canon hf) hf).mpr (val_canon x)⟩
    by_cases hr : -(2 : ℚ) ^ 63 ≤ val x ∧ val x < 2 ^ 63
    · rw [C04.display_integral x hf z hz.symm hr.1 hr.2]
      apply hcanon
      apply parseFloat_itoa_of_val hf z hz.symm
      rintro rfl
      have : ¬ (|val x| < 2 ^ 52) := fun h => h52 ((lt52_iff_val hf).mpr h)
      rw [hz] at this
      norm_num at this
    · rw [C04.display_integral_big x hf z hz.symm (by
        by_cases h1 : -(2 : ℚ) ^ 63 ≤ val x
        · exact Or.inr (not_lt.mp (fun h2 => hr ⟨h1, h2⟩))
        · exact Or.inl (not_le.mp h1))]
      exact hcanon _ (strconv_roundtrip_canon x hf)

/-- on 64-bit patterns other than `-0` the round trip through `Value.ToString` is the identity -/
theorem number_string_roundtrip_exact (x : F64) (hc : Canonical x) (hf : Finite x) (hnz : val x ≠ 0) :
    parseFloat (display x) = .val x := by
  by_cases hs : ¬ IsInt (val x) ∨ val x < -(2 : ℚ) ^ 63 ∨ 2 ^ 63 ≤ val x
  · exact number_string_roundtrip_sprint x hc hf hs
  · have hint : IsInt (val x) := by
      by_contra h; exact hs (Or.inl h)
    obtain ⟨z, hz⟩ := hint
    have h1 : -(2 : ℚ) ^ 63 ≤ val x := not_lt.mp (fun h => hs (Or.inr (Or.inl h)))
    have h2 : val x < 2 ^ 63 := not_le.mp (fun h => hs (Or.inr (Or.inr h)))
    rw [C04.display_integral x hf z hz.symm h1 h2, parseFloat_itoa_of_val hf z hz.symm
      (by rintro rfl; exact hnz (by rw [hz]; simp)), canon_eq hc]

/-! ### instances -/

/-- 0.1 -/ def x0_1 : F64 := ⟨4591870180066957722⟩
/-- 1234567.5 (printed in `%e` form) -/ def x1234567_5 : F64 := ⟨4698053238757261312⟩
/-- 1e-7 -/ def x1em7 : F64 := ⟨4502148214488346440⟩
/-- 5e-324, the smallest subnormal -/ def xmin : F64 := ⟨1⟩
/-- 2.2250738585072014e-308, the smallest normal number (a power of two with `expField = 1`) -/
def xminNormal : F64 := ⟨4503599627370496⟩
/-- 1.7976931348623157e308, the largest double -/ def xmax : F64 := ⟨9218868437227405311⟩
/-- 2^-1021: a power of two with the halved lower gap -/ def xpow : F64 := ⟨9007199254740992⟩

-- the hypotheses are satisfiable by these doubles
example : Canonical x0_1 ∧ Finite x0_1 ∧ Canonical x1234567_5 ∧ Finite x1234567_5 ∧ Canonical xmin ∧ Finite xmin
    ∧ Canonical xminNormal ∧ Finite xminNormal ∧ Canonical xmax ∧ Finite xmax ∧ Canonical xm3_75 ∧ Finite xm3_75 := by
  decide
example : ¬ Canonical ⟨18446744073709551616 + 4591870180066957722⟩ := by decide
example : Lt52 x0_1 ∧ Lt52 x2_5 ∧ Lt52 xmin := by decide

-- what is printed
example : fmtG x0_1 = "0.1" := by decide +kernel
example : fmtG x1234567_5 = "1.2345675e+06" := by decide +kernel
example : fmtG x1em7 = "1e-07" := by decide +kernel
example : fmtG xmin = "5e-324" := by decide +kernel
example : fmtG xminNormal = "2.2250738585072014e-308" := by decide +kernel
example : fmtG xmax = "1.7976931348623157e+308" := by decide +kernel
example : fmtG xm3_75 = "-3.75" := by decide +kernel

-- and read back, by evaluation (independent of the theorems)
example : (parseFloat (fmtG x0_1)).val? = some x0_1 := by decide +kernel
example : (parseFloat (fmtG x1234567_5)).val? = some x1234567_5 := by decide +kernel
example : (parseFloat (fmtG x1em7)).val? = some x1em7 := by decide +kernel
example : (parseFloat (fmtG xmin)).val? = some xmin := by decide +kernel
example : (parseFloat (fmtG xminNormal)).val? = some xminNormal := by decide +kernel
example : (parseFloat (fmtG xmax)).val? = some xmax := by decide +kernel
example : (parseFloat (fmtG xpow)).val? = some xpow := by decide +kernel

-- the theorems applied
example : parseFloat (fmtG x0_1) = .val x0_1 := strconv_roundtrip x0_1 (by decide) (by decide)
example : parseFloat (fmtG xmax) = .val xmax := strconv_roundtrip xmax (by decide) (by decide)
example : parseFloat (fmtG xmin) = .val xmin := strconv_roundtrip xmin (by decide) (by decide)
example : parseFloat (fmtG (zero true)) = .val (zero true) := strconv_roundtrip _ (by decide) (by decide)

-- an integer between 2^53 and 2^63 (printed by `Itoa`), and 2^63 itself (printed by `fmt.Sprint`)
example : display ⟨4845873199050653697⟩ = "9007199254740994"
    ∧ (parseFloat (display ⟨4845873199050653697⟩)).val? = some ⟨4845873199050653697⟩ := by decide +kernel
example : display ⟨4890909195324358656⟩ = "9.223372036854776e+18"
    ∧ (parseFloat (display ⟨4890909195324358656⟩)).val? = some ⟨4890909195324358656⟩ := by decide +kernel
example : ¬ Lt52 ⟨4845873199050653697⟩ ∧ Finite (⟨4845873199050653697⟩ : F64) := by decide

-- the hypothesis of `round_back` and `InsideRounding`: 0.1 = 7205759403792794·2^-56, and the decimal 1/10 is inside
example : decode x0_1 = .fin false 7205759403792794 (-56) := by decide
example : shortest x0_1 = some (1, 1, -1) ∧ shortest xmax = some (17976931348623157, 17, 308)
    ∧ shortest xmin = some (5, 1, -324) := by decide +kernel
example : InsideRounding x0_1 7205759403792794 (-56) ((1 : ℚ) / 10) := by
  have := (shortest_inside (x := x0_1) (d := 1) (nd := 1) (k := -1) (by decide +kernel))
  obtain ⟨s, m, e, hd, -, -, -, hin⟩ := this
  have hd' : decode x0_1 = .fin false 7205759403792794 (-56) := by decide
  rw [hd'] at hd
  cases hd
  have : ((1 : ℕ) : ℚ) * 10 ^ ((-1 : ℤ) - (((1 : ℕ) : ℤ) - 1)) = 1 / 10 := by norm_num
  rw [this] at hin
  exact hin
example : roundQuot false 1 10 = x0_1 := by decide +kernel

-- `ilog10` on sample magnitudes
example : ilog10 (magRat 7205759403792794 (-56)) = -1 := by decide +kernel
example : ilog10 (magRat 1 (-1074)) = -324 := by decide +kernel

end C19
end Ysgo

#print axioms Ysgo.C19.fmtG_zero_roundtrip
#print axioms Ysgo.C19.strconv_roundtrip_of_shortest
#print axioms Ysgo.C19.strconv_roundtrip_canon
#print axioms Ysgo.C19.strconv_roundtrip
#print axioms Ysgo.C19.strconv_roundtrip_nonintegral
#print axioms Ysgo.C19.strconv_roundtrip_eq
#print axioms Ysgo.C19.number_string_roundtrip_full
#print axioms Ysgo.C19.number_string_roundtrip_full'
#print axioms Ysgo.C19.number_string_roundtrip_sprint
#print axioms Ysgo.C19.parseFloat_itoa_of_val
#print axioms Ysgo.C19.number_string_roundtrip_all
#print axioms Ysgo.C19.number_string_roundtrip_exact
