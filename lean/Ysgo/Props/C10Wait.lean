import Ysgo.Lemmas.F64ToInt
import Ysgo.Lemmas.F64Unit
import Ysgo.Model.Command
import Mathlib.Data.Rat.Floor
/-!
# C10 — the clause "`<<wait n>>` reports completion no earlier than n seconds": the duration arithmetic

`Command.waitNanos` is `secondsToDuration` of command_storer.go: `ns := seconds * 1e9` (one rounding), saturated at
`math.MaxInt64` when `ns ≥ 2^63`, otherwise truncated by `int64(ns)`. For every finite non-negative number of seconds
the duration is never negative (no overflow into the "integer indefinite" value `-2^63`), and it is short of the exact
`n·10^9` nanoseconds by less than one nanosecond plus one rounding error (relative `2^-53`); it is exactly
`⌊n·10^9⌋` whenever that product is a double (all `n = k/2^j` with `k·10^9 < 2^53`, in particular whole seconds up
to 104 days). That `time.Sleep d` sleeps at least `d` is the trusted runtime contract (DESIGN.md §7).

Observation recorded for the property text: "no earlier than n seconds" holds only up to that sub-nanosecond slack —
e.g. for `n = 0.1` (the double `0.1000000000000000055…`) the duration is `100000000 ns`, `5.5·10^-9 ns` short.
-/
namespace Ysgo.C10
open Ysgo F64 Command

theorem nanos_val : Finite nanosPerSecond ∧ signBit nanosPerSecond = false ∧ val nanosPerSecond = 10 ^ 9 := by
  have := ofNat_small 1000000000 (by unfold P53; omega)
  unfold nanosPerSecond
  refine ⟨this.1, this.2.1, ?_⟩
  rw [this.2.2]; norm_num

theorem maxInt64_cast : ((maxInt64 : ℤ) : ℚ) = 2 ^ 63 - 1 := by norm_num [maxInt64]

theorem big_gt_63 : (2 : ℚ) ^ 63 < 2 ^ (1023 : ℤ) := two_pow_lt_big 63 (by omega)

/-- the three cases of the computation: overflow of the product to `+Inf` or a rounded product of at least `2^63`
(both saturate), or truncation of the rounded product -/
theorem waitNanos_cases (x : F64) (hx : Finite x) (h0 : 0 ≤ val x) :
    (waitNanos x = maxInt64 ∧
        ((2 : ℚ) ^ (1023 : ℤ) ≤ val x * 10 ^ 9 ∨
         (Faithful (val x * 10 ^ 9) (mul x nanosPerSecond) ∧ 2 ^ 63 ≤ val (mul x nanosPerSecond)))) ∨
    (Faithful (val x * 10 ^ 9) (mul x nanosPerSecond) ∧ 0 ≤ val (mul x nanosPerSecond)
        ∧ val (mul x nanosPerSecond) < 2 ^ 63 ∧ 0 ≤ waitNanos x
        ∧ ((waitNanos x : ℤ) : ℚ) ≤ val (mul x nanosPerSecond)
        ∧ val (mul x nanosPerSecond) < ((waitNanos x : ℤ) : ℚ) + 1) := by
  obtain ⟨hyf, hys, hyv⟩ := nanos_val
  obtain ⟨hpf, -, hpv⟩ := ofNat_P63
  have hp0 : 0 ≤ val x * 10 ^ 9 := by positivity
  rcases mul_total hx hyf with ⟨hinf, hbig⟩ | ⟨-, hfa⟩
  · -- overflow: the product is +Inf
    rw [hyv, abs_of_nonneg hp0] at hbig
    have hxpos : 0 < val x := by
      rcases lt_or_eq_of_le h0 with h | h
      · exact h
      · exfalso
        rw [← h, zero_mul] at hbig
        exact absurd hbig (not_le.mpr (two_zpow_pos _))
    rw [signBit_of_pos hx hxpos, hys] at hinf
    have hff : (false != false) = false := rfl
    rw [hff] at hinf
    left
    refine ⟨?_, Or.inl hbig⟩
    unfold waitNanos
    simp only [hinf]
    rw [if_pos (ge_inf hpf)]
  · rw [hyv] at hfa
    have hnf := hfa.finite
    by_cases hge : ge (mul x nanosPerSecond) (ofNat P63) = true
    · left
      refine ⟨?_, Or.inr ⟨hfa, ?_⟩⟩
      · unfold waitNanos
        simp only [hge, ↓reduceIte]
      · rw [ge_iff_val hnf hpf, hpv] at hge; exact hge
    · right
      have hlt : val (mul x nanosPerSecond) < 2 ^ 63 := by
        rw [ge_iff_val hnf hpf, hpv] at hge; exact not_le.mp hge
      have hn0 : 0 ≤ val (mul x nanosPerSecond) := hfa.lower representable_zero hp0
      have hw : waitNanos x = toInt64 (mul x nanosPerSecond) := by
        unfold waitNanos
        simp only [hge, Bool.false_eq_true, ↓reduceIte]
      obtain ⟨t0, t1, t2⟩ := toInt64_floor_nonneg hnf hn0 hlt
      rw [hw]
      exact ⟨hfa, hn0, hlt, t0, t1, t2⟩

/-- **C10, duration clause.** For every finite `n ≥ 0`: the duration handed to `time.Sleep` is a valid non-negative
`int64` number of nanoseconds; below the saturation threshold it exceeds `n·10^9·(1 − 2^-53) − 1`; from `n·10^9 ≥ 2^63`
(292 years) on it is `math.MaxInt64`. -/
theorem wait_duration (x : F64) (hx : Finite x) (h0 : 0 ≤ val x) :
    0 ≤ waitNanos x ∧ waitNanos x ≤ maxInt64
    ∧ (val x * 10 ^ 9 < 2 ^ 63 →
        ((waitNanos x : ℤ) : ℚ) > val x * 10 ^ 9 * (1 - 2 ^ (-53 : ℤ)) - 1)
    ∧ (2 ^ 63 ≤ val x * 10 ^ 9 → waitNanos x = maxInt64) := by
  obtain ⟨hyf, hys, hyv⟩ := nanos_val
  have hp0 : 0 ≤ val x * 10 ^ 9 := by positivity
  have heps : (0 : ℚ) < 2 ^ (-53 : ℤ) := two_zpow_pos _
  have hpe : 0 ≤ val x * 10 ^ 9 * 2 ^ (-53 : ℤ) := by positivity
  have hr63 : Representable ((2 : ℚ) ^ 63) := representable_two_pow 63 (by omega)
  generalize hp : val x * 10 ^ 9 = p at *
  rcases waitNanos_cases x hx h0 with ⟨hw, hc⟩ | ⟨hfa, hn0, hlt, t0, t1, t2⟩
  · rw [hp] at hc
    refine ⟨by rw [hw]; decide, le_of_eq hw, ?_, fun _ => hw⟩
    intro hp63
    rw [hw, maxInt64_cast]
    rcases hc with hbig | ⟨hfa, -⟩
    · exact absurd (lt_of_lt_of_le big_gt_63 hbig) (not_lt.mpr (le_of_lt hp63))
    · have : p * (1 - 2 ^ (-53 : ℤ)) = p - p * 2 ^ (-53 : ℤ) := by ring
      rw [this]; linarith
  · rw [hp] at hfa
    refine ⟨t0, ?_, ?_, ?_⟩
    · have : ((waitNanos x : ℤ) : ℚ) < ((maxInt64 : ℤ) : ℚ) + 1 := by rw [maxInt64_cast]; linarith
      have : waitNanos x < maxInt64 + 1 := by exact_mod_cast this
      omega
    · intro hp63
      have hexp : p * (1 - 2 ^ (-53 : ℤ)) = p - p * 2 ^ (-53 : ℤ) := by ring
      rw [hexp]
      by_cases hp1 : p < 1
      · have : (0 : ℚ) ≤ ((waitNanos x : ℤ) : ℚ) := by exact_mod_cast t0
        linarith
      · have hp1' : 1 ≤ p := not_lt.mp hp1
        have hov : |val x * val nanosPerSecond| < 2 ^ (1023 : ℤ) := by
          rw [hyv, hp, abs_of_nonneg hp0]; exact lt_trans hp63 big_gt_63
        obtain ⟨-, herr⟩ := mul_err hx hyf hov
        rw [hyv, hp, abs_of_nonneg hp0] at herr
        have hmax : max (p * 2 ^ (-53 : ℤ)) (2 ^ (-1075 : ℤ)) = p * 2 ^ (-53 : ℤ) := by
          apply max_eq_left
          have h1 : (2 : ℚ) ^ (-1075 : ℤ) ≤ 2 ^ (-53 : ℤ) := by rw [two_zpow_le_iff]; omega
          have h2 : (2 : ℚ) ^ (-53 : ℤ) ≤ p * 2 ^ (-53 : ℤ) := le_mul_of_one_le_left (le_of_lt heps) hp1'
          exact le_trans h1 h2
        rw [hmax] at herr
        have := (abs_le.mp herr).1
        linarith
    · intro hp63
      exact absurd (hfa.lower hr63 hp63) (not_le.mpr hlt)

/-- the duration never exceeds the exact number of nanoseconds by more than one rounding error -/
theorem wait_duration_upper (x : F64) (hx : Finite x) (h0 : 0 ≤ val x) :
    ((waitNanos x : ℤ) : ℚ) ≤ val x * 10 ^ 9 * (1 + 2 ^ (-53 : ℤ)) := by
  obtain ⟨hyf, hys, hyv⟩ := nanos_val
  have hp0 : 0 ≤ val x * 10 ^ 9 := by positivity
  have heps : (0 : ℚ) < 2 ^ (-53 : ℤ) := two_zpow_pos _
  have hpe : 0 ≤ val x * 10 ^ 9 * 2 ^ (-53 : ℤ) := by positivity
  generalize hp : val x * 10 ^ 9 = p at *
  have hexp : p * (1 + 2 ^ (-53 : ℤ)) = p + p * 2 ^ (-53 : ℤ) := by ring
  rw [hexp]
  -- bound on the rounded product when it is finite and at least 1
  have key : Faithful p (mul x nanosPerSecond) → 1 ≤ val (mul x nanosPerSecond) →
      val (mul x nanosPerSecond) ≤ p + p * 2 ^ (-53 : ℤ) ∨ (2 : ℚ) ^ (1023 : ℤ) ≤ p := by
    intro hfa h1
    by_cases hbig : (2 : ℚ) ^ (1023 : ℤ) ≤ p
    · exact Or.inr hbig
    left
    have hov : |val x * val nanosPerSecond| < 2 ^ (1023 : ℤ) := by
      rw [hyv, hp, abs_of_nonneg hp0]; exact not_le.mp hbig
    obtain ⟨-, herr⟩ := mul_err hx hyf hov
    rw [hyv, hp, abs_of_nonneg hp0] at herr
    have hub := (abs_le.mp herr).2
    rcases le_total (2 ^ (-1075 : ℤ)) (p * 2 ^ (-53 : ℤ)) with hm | hm
    · rw [max_eq_left hm] at hub; linarith
    · -- p is tiny, so the rounded product is below 1: excluded
      exfalso
      rw [max_eq_right hm] at hub
      have h1075 : (2 : ℚ) ^ (-1075 : ℤ) ≤ 2 ^ (-2 : ℤ) := by rw [two_zpow_le_iff]; omega
      have h53 : (2 : ℚ) ^ (-53 : ℤ) ≤ 2 ^ (-2 : ℤ) := by rw [two_zpow_le_iff]; omega
      have hquarter : (2 : ℚ) ^ (-2 : ℤ) = 1 / 4 := by norm_num
      -- p = (p·2^-53)·2^53 ≤ 2^-1075·2^53 = 2^-1022
      have hpsmall : p ≤ 2 ^ (-2 : ℤ) := by
        have : p = p * 2 ^ (-53 : ℤ) * 2 ^ (53 : ℤ) := by
          rw [mul_assoc, ← two_zpow_add]; simp
        rw [this]
        calc p * 2 ^ (-53 : ℤ) * 2 ^ (53 : ℤ) ≤ 2 ^ (-1075 : ℤ) * 2 ^ (53 : ℤ) :=
              mul_le_mul_of_nonneg_right hm (le_of_lt (two_zpow_pos _))
          _ = 2 ^ (-1022 : ℤ) := by rw [← two_zpow_add]; norm_num
          _ ≤ 2 ^ (-2 : ℤ) := by rw [two_zpow_le_iff]; omega
      rw [hquarter] at h1075 hpsmall
      generalize (2 : ℚ) ^ (-1075 : ℤ) = d at *
      linarith
  have hbigcase : (2 : ℚ) ^ (1023 : ℤ) ≤ p → ((waitNanos x : ℤ) : ℚ) ≤ p + p * 2 ^ (-53 : ℤ) := by
    intro hbig
    have h1 := (wait_duration x hx h0).2.1
    have h2 : ((waitNanos x : ℤ) : ℚ) ≤ ((maxInt64 : ℤ) : ℚ) := by exact_mod_cast h1
    rw [maxInt64_cast] at h2
    have := lt_of_lt_of_le big_gt_63 hbig
    clear hbig key
    linarith
  rcases waitNanos_cases x hx h0 with ⟨hw, hc⟩ | ⟨hfa, hn0, hlt, t0, t1, t2⟩
  · rw [hp] at hc
    rcases hc with hbig | ⟨hfa, h63⟩
    · exact hbigcase hbig
    · rcases key hfa (le_trans (by norm_num) h63) with h | h
      · rw [hw, maxInt64_cast]; linarith
      · exact hbigcase h
  · rw [hp] at hfa
    by_cases h1 : 1 ≤ val (mul x nanosPerSecond)
    · rcases key hfa h1 with h | h
      · linarith
      · exact hbigcase h
    · -- the rounded product is below 1: the duration is 0
      have : ((waitNanos x : ℤ) : ℚ) < 1 := by linarith
      have : waitNanos x < 1 := by exact_mod_cast this
      have : waitNanos x = 0 := by omega
      rw [this]; push_cast; linarith

/-- when the exact product `n·10^9` is a double (and below `2^63`) the duration is exactly its integer part -/
theorem wait_duration_exact (x : F64) (hx : Finite x) (h0 : 0 ≤ val x)
    (hr : Representable (val x * 10 ^ 9)) (hlt : val x * 10 ^ 9 < 2 ^ 63) :
    waitNanos x = ⌊val x * 10 ^ 9⌋ := by
  symm
  rw [Int.floor_eq_iff]
  rcases waitNanos_cases x hx h0 with ⟨hw, hc⟩ | ⟨hfa, hn0, hl, t0, t1, t2⟩
  · exfalso
    rcases hc with hbig | ⟨hfa, h63⟩
    · exact absurd (lt_of_lt_of_le big_gt_63 hbig) (not_lt.mpr (le_of_lt hlt))
    · rw [hfa.exact hr] at h63
      exact absurd h63 (not_le.mpr hlt)
  · rw [hfa.exact hr] at t1 t2
    exact ⟨t1, t2⟩

/-- dyadic numbers of seconds `k / 2^j` with `k·10^9 < 2^53`: no rounding at all -/
theorem wait_duration_dyadic (x : F64) (hx : Finite x) (k j : ℕ) (hv : val x = (k : ℚ) / 2 ^ j)
    (hk : k * 1000000000 < P53) (hj : j ≤ 1074) :
    waitNanos x = ⌊((k * 1000000000 : ℕ) : ℚ) / 2 ^ j⌋ := by
  have hp : val x * 10 ^ 9 = ((k * 1000000000 : ℕ) : ℚ) / 2 ^ j := by
    rw [hv]; push_cast; ring
  have h0 : 0 ≤ val x := by rw [hv]; positivity
  have hnn : (0 : ℚ) ≤ ((k * 1000000000 : ℕ) : ℚ) / 2 ^ j := by positivity
  have hr : Representable (val x * 10 ^ 9) := by
    apply representable_dyadic _ (k * 1000000000) j hk hj
    rw [hp, abs_of_nonneg hnn]
  have hlt : val x * 10 ^ 9 < 2 ^ 63 := by
    rw [hp]
    have h1 : ((k * 1000000000 : ℕ) : ℚ) < ((P53 : ℕ) : ℚ) := by exact_mod_cast hk
    rw [P53_cast] at h1
    have h2 : ((k * 1000000000 : ℕ) : ℚ) / 2 ^ j ≤ ((k * 1000000000 : ℕ) : ℚ) :=
      div_le_self (by positivity) (one_le_pow₀ (by norm_num))
    have h3 : (2 : ℚ) ^ 53 < 2 ^ 63 := by norm_num
    linarith
  rw [wait_duration_exact x hx h0 hr hlt, hp]

/-! ### instances -/

/-- 1.5 s, 0.1 s (the double just above 1/10: the duration is short by 5.5·10^-9 ns), -0, 2^-1074 s, 10^300 s, 2^54 s -/
example : waitNanos ⟨4609434218613702656⟩ = 1500000000 := by decide
example : waitNanos ⟨4591870180066957722⟩ = 100000000 := by decide
set_option exponentiation.threshold 2200 in
example : waitNanos (zero true) = 0 := by decide
set_option exponentiation.threshold 2200 in
example : waitNanos ⟨1⟩ = 0 := by decide
set_option exponentiation.threshold 2200 in
example : waitNanos ⟨9094988921128908188⟩ = maxInt64 := by decide
example : waitNanos ⟨4850376798678024192⟩ = maxInt64 := by decide
/-- the hypotheses of `wait_duration` / `wait_duration_dyadic` hold for 1.5 = 3/2 -/
example : Finite (⟨4609434218613702656⟩ : F64) ∧ val ⟨4609434218613702656⟩ = (3 : ℕ) / 2 ^ 1 := by
  refine ⟨by decide, ?_⟩
  have hd : decode ⟨4609434218613702656⟩ = .fin false 6755399441055744 (-52) := by decide
  rw [val_of_decode hd]; norm_num [fval, sgn]
/-- without the hypothesis `0 ≤ n` the duration is negative (`time.Sleep` then returns at once): -1 s -/
example : waitNanos ⟨13830554455654793216⟩ = -1000000000 := by decide

end Ysgo.C10

#print axioms Ysgo.C10.waitNanos_cases
#print axioms Ysgo.C10.wait_duration
#print axioms Ysgo.C10.wait_duration_upper
#print axioms Ysgo.C10.wait_duration_exact
#print axioms Ysgo.C10.wait_duration_dyadic
