import Ysgo.Lemmas.ChanRefine
import Ysgo.Generated.ChanFacts
/-!
# C10 — "whatever the timing of completion relative to the calls to Next and for handlers of every supported shape":
the pending-command mailbox at the level of Go channels and goroutines

Model: `Ysgo/Model/Chan.lean` (`Chan`, `Sys`, `Sys.step`, `Sys.run`). A schedule is any list of events — the host calls
`Next`, the host calls `RestoreAt`, goroutine `g` takes a step — so a theorem quantified over schedules holds for every
interleaving of the host's calls with the goroutines of the library (the wrapper of a converted handler, `<<wait>>`)
and with the goroutines of the host working on the channel a chan-returning or raw handler returned. No bound on the
length of schedules, scripts, or host programs.

The theorems assume `Cfg.Good`: the channel of a converted command is made per call with room for one value, the
polls are `select` with `default`, the value branch of the poll and `RestoreAt` forget the channel. The code has these
properties (`code_meets_hypotheses`, by `decide` over the facts regenerated from the source by `tools/chanfacts`); the
counterexamples at the end show each hypothesis is needed.

Modelling decisions (see also the header of the model): the handler of a converted command is counted as invoked when
its goroutine is created; a panic of a goroutine is the end of the process (`status = crashed`) and only the host's
misuse of a channel of its own (close of a closed channel, send on a closed channel, close under a parked sender) can
cause one; a handler returning a channel returns a channel of its own making at each invocation. Not exhibitable here:
data races in the sense of the Go memory model (the race detector runs on the `wait` stream).
-/
namespace Ysgo.C10
open Ysgo Ysgo.Chan Ysgo.Chan.Sys Ysgo.Generated

/-! ### the facts of the code -/

/-- the configuration of the model read off the source -/
def codeCfg : Cfg :=
  { perCall := ChanFacts.perCall, cap := ChanFacts.cap, waitCap := ChanFacts.waitCap, immCap := ChanFacts.immCap,
    unknownCap := ChanFacts.unknownCap,
    pollNext := if ChanFacts.nextPollIsSelectDefault then .selectDefault else .lenCheck,
    pollExec := if ChanFacts.execPollIsSelectDefault then .selectDefault else .lenCheck,
    pollClears := ChanFacts.pollValueBranchClears, restoreClears := ChanFacts.restoreClears }

/-- the code meets the hypotheses of the theorems below, and has the structure the model mirrors: every goroutine of the
library sends exactly once on every path, on the channel made for the call; the goroutine's switch covers every accepted
signature; `<<wait>>`, immediate values and the unknown command make their channel per call; the library never closes
a channel; the poll at the top of `Next` is guarded by `commandErrChan != nil` and its `default` returns the waiting
error; the `default` of the poll in `executeCommandStatement` keeps the channel. (Capacity 2 would pass, 0 would not.) -/
theorem code_meets_hypotheses :
    codeCfg.Good
    ∧ ChanFacts.wrapperSends = [1] ∧ (ChanFacts.wrapperSendsPerCase.all fun c => c.2 == [1]) = true
    ∧ ChanFacts.signaturesCovered = true ∧ ChanFacts.chanBranchReturns = true ∧ ChanFacts.closureSendsOnMade = true
    ∧ ChanFacts.waitPerCall = true ∧ ChanFacts.waitSends = [1]
    ∧ ChanFacts.immPerCall = true ∧ ChanFacts.immSends = [1] ∧ ChanFacts.unknownPerCall = true
    ∧ ChanFacts.libraryCloses = false
    ∧ ChanFacts.nextPollGuarded = true ∧ ChanFacts.nextPollDefaultReturnsWaiting = true
    ∧ ChanFacts.execDefaultKeepsChannel = true := by decide

/-- the states a schedule can reach from a fresh runner -/
abbrev reach (cfg : Cfg) (script : List Chan.Stmt) (es : List Ev) : Sys := Sys.exec cfg script Sys.init es

/-! ### (a) a `Next` that answers "waiting" -/

/-- `waiting_next_is_noop`: while nothing can be received from the channel of the pending command, `Next` answers
`waiting` and the whole state — heap of channels, goroutines, invocation log, dispatch log, script position, the
runner's reference to the channel — is exactly what it was: no side effect, nothing started. (`Next` cannot block in
this model by construction: the poll is a total function; the runner's own sends are covered by
`wrapper_send_never_blocks`.) -/
theorem waiting_next_is_noop {cfg : Cfg} (hg : cfg.Good) (script : List Chan.Stmt) (s : Sys) {ch : Nat} {c : Chan}
    (hst : s.status = .ok) (he : s.errChan = some ch) (hc : s.heap[ch]? = some c) (hv : c.avail = none) :
    s.next cfg script = (s, .waiting) :=
  next_waiting hg script s hst he hc hv

/-- conversely, in a reachable state with a command pending, a `Next` that answers `waiting` either found nothing and
changed nothing, or found a successful completion, went on with the script, and is now waiting for a command statement
it dispatched itself (on a channel made by this very call) -/
theorem waiting_answer_cases {cfg : Cfg} (hg : cfg.Good) (script : List Chan.Stmt) (es : List Ev) {ch : Nat} {c : Chan}
    (hst : (reach cfg script es).status = .ok) (he : (reach cfg script es).errChan = some ch)
    (hc : (reach cfg script es).heap[ch]? = some c) (hw : ((reach cfg script es).next cfg script).2 = .waiting) :
    (c.avail = none ∧ ((reach cfg script es).next cfg script).1 = reach cfg script es) ∨
    (c.avail = some false ∧ ∃ k, ((reach cfg script es).next cfg script).1.errChan = some k
      ∧ (reach cfg script es).heap.length ≤ k) :=
  next_waiting_cases hg script (Inv.init.exec hg script es) hst he hc hw

/-! ### (b) the send of a goroutine of the library is always enabled -/

/-- `wrapper_send_never_blocks`: in every reachable state — after any polls, restores (abandoned commands included) and
steps of other goroutines — no goroutine of the library is parked in its send, the runner is not blocked inside
`Next` by a send of its own, and a goroutine of the library standing before its single send completes it at its next
step: the value is in the buffer of its channel, which is open (no send on a closed channel, no panic), and the
goroutine is done. A step of a goroutine of the library never crashes the process. -/
theorem wrapper_send_never_blocks {cfg : Cfg} (hg : cfg.Good) (script : List Chan.Stmt) (es : List Ev) :
    (∀ (g ch : Nat), (reach cfg script es).gs[g]? ≠ some (G.libParked ch))
    ∧ (reach cfg script es).status ≠ .blocked
    ∧ (∀ (g ch : Nat) (v : Val), (reach cfg script es).gs[g]? = some (G.atSend ch v) → (reach cfg script es).status = .ok →
        ((reach cfg script es).goStep g).gs[g]? = some G.libDone ∧ ((reach cfg script es).goStep g).status = .ok ∧
        ∃ c, ((reach cfg script es).goStep g).heap[ch]? = some c ∧ c.buf = [v] ∧ c.sendq = [] ∧ c.closed = false)
    ∧ (∀ (g : Nat) (x : G), (reach cfg script es).gs[g]? = some x → x.isLib = true →
        ((reach cfg script es).goStep g).status = (reach cfg script es).status) := by
  have hi := Inv.init.exec hg script es
  exact ⟨hi.noLibParked, hi.notBlocked, fun g ch v hx hst => lib_send_enabled hi hst hx,
    fun g x hx hl => lib_step_no_crash hi hx hl⟩

/-! ### (c) handlers run exactly once -/

/-- `exactly_once`, per dispatch: dispatching statement `i` appends exactly `[i]` to the invocation log when its shape
has a handler of the host whose arguments convert, and nothing otherwise (unknown command, conversion error,
the built-in `<<wait>>`) -/
theorem dispatch_invokes_exactly_once {cfg : Cfg} (hg : cfg.Good) (i : Nat) (sh : Shape) (s : Sys) :
    (s.dispatch cfg i sh).1.calls = s.calls ++ (if sh.invokes then [i] else []) := by
  rcases dispatch_good hg i sh s with ⟨h1, h2⟩ | ⟨pre, c, ys, h2, -⟩
  · subst h1; rw [h2]; rfl
  · rw [h2]

/-- … and never otherwise: goroutine steps and `RestoreAt` leave the invocation log (and the dispatch log) alone; a
`Next` that finds nothing does too (`waiting_next_is_noop`) -/
theorem log_untouched_otherwise (cfg : Cfg) (s : Sys) (g : Nat) :
    (s.goStep g).calls = s.calls ∧ (s.goStep g).disp = s.disp
    ∧ (s.restore cfg).calls = s.calls ∧ (s.restore cfg).disp = s.disp :=
  ⟨(goStep_fields s g).2.2.1, (goStep_fields s g).2.2.2.1, (restore_fields cfg s).2.2.1, (restore_fields cfg s).2.2.2.1⟩

/-- `exactly_once`, over whole schedules: after any schedule the invocation log is the dispatch log restricted to the
statements that have a handler — one invocation per executed command statement, in order, no other invocation — and
every dispatch is the dispatch of a command statement of the script -/
theorem exactly_once {cfg : Cfg} (hg : cfg.Good) (script : List Chan.Stmt) (es : List Ev) :
    (reach cfg script es).calls = ((reach cfg script es).disp.filter (handlerAt script)).map (·.stmt)
    ∧ ∀ d ∈ (reach cfg script es).disp, ∃ sh, script[d.stmt]? = some (.cmd sh) :=
  consistent_exec hg script es

/-! ### (d) completion of a command run by a goroutine of the library: not early, prompt, once -/

/-- `completion_not_early`: a command is pending on channel `ch` and its goroutine `g` has not sent yet (the handler is
running, `<<wait>>` is sleeping, or it stands before the send). Whatever happens that is not a `RestoreAt` and not a step
of `g` itself — any number of calls of `Next`, any steps of other goroutines, abandoned ones included — every `Next`
answers `waiting` (or the process was crashed by the host's misuse of a channel of its own), the script position and
the invocation log do not move, and the command is still pending on `g`. -/
theorem completion_not_early {cfg : Cfg} (hg : cfg.Good) (script : List Chan.Stmt) (es0 : List Ev) {g ch : Nat} {x : G}
    (he : (reach cfg script es0).errChan = some ch) (hx : (reach cfg script es0).gs[g]? = some x)
    (ha : x.libActive = some ch) (es : List Ev) (hes : ∀ e ∈ es, e ≠ .restore ∧ e ≠ .go g) :
    (Sys.run cfg script (reach cfg script es0) es).1.errChan = some ch
    ∧ (Sys.run cfg script (reach cfg script es0) es).1.gs[g]? = some x
    ∧ (Sys.run cfg script (reach cfg script es0) es).1.pc = (reach cfg script es0).pc
    ∧ (Sys.run cfg script (reach cfg script es0) es).1.calls = (reach cfg script es0).calls
    ∧ ∀ o ∈ (Sys.run cfg script (reach cfg script es0) es).2, o = .waiting ∨ o = .crashed := by
  obtain ⟨a, b, c, d, e, -⟩ := pending_lib_waits hg script ha es hes (Inv.init.exec hg script es0) he hx
  exact ⟨a, b, c, d, e⟩

/-- `completion_not_early`, from the dispatch up to the send: the handler of the pending command is running (or
`<<wait>>` is sleeping); `es1`, then the return of the handler (the end of the sleep), then `es2` — neither containing a
`RestoreAt` or a further step of `g`, i.e. everything up to but not including the send of `g` — every `Next` answers
`waiting` (or the host crashed the process), nothing moves, and the command is still pending on `g` -/
theorem completion_not_early_through_return {cfg : Cfg} (hg : cfg.Good) (script : List Chan.Stmt) (es0 : List Ev)
    {g ch : Nat} {x : G} (hxs : (∃ res, x = .running ch res) ∨ x = .sleeping ch)
    (he : (reach cfg script es0).errChan = some ch) (hx : (reach cfg script es0).gs[g]? = some x)
    (es1 es2 : List Ev) (h1 : ∀ e ∈ es1, e ≠ .restore ∧ e ≠ .go g) (h2 : ∀ e ∈ es2, e ≠ .restore ∧ e ≠ .go g) :
    (Sys.run cfg script (reach cfg script es0) (es1 ++ [.go g] ++ es2)).1.errChan = some ch
    ∧ (∃ y, (Sys.run cfg script (reach cfg script es0) (es1 ++ [.go g] ++ es2)).1.gs[g]? = some y ∧ y.libActive = some ch)
    ∧ (Sys.run cfg script (reach cfg script es0) (es1 ++ [.go g] ++ es2)).1.pc = (reach cfg script es0).pc
    ∧ (Sys.run cfg script (reach cfg script es0) (es1 ++ [.go g] ++ es2)).1.calls = (reach cfg script es0).calls
    ∧ ∀ o ∈ (Sys.run cfg script (reach cfg script es0) (es1 ++ [.go g] ++ es2)).2, o = .waiting ∨ o = .crashed :=
  pending_lib_waits_through_return hg script hxs es1 es2 h1 h2 (Inv.init.exec hg script es0) he hx

/-- the return of the handler (the end of the sleep) is not the completion yet: the goroutine then stands before its
send, with the handler's result (nil for `<<wait>>`) -/
theorem handler_return_is_not_completion {s : Sys} {g ch : Nat} (hst : s.status ≠ .crashed) :
    (∀ res, s.gs[g]? = some (.running ch res) → (s.goStep g).gs[g]? = some (.atSend ch res))
    ∧ (s.gs[g]? = some (.sleeping ch) → (s.goStep g).gs[g]? = some (.atSend ch false)) :=
  ⟨fun _ hx => running_returns hst hx, fun hx => sleeping_returns hst hx⟩

/-- `completion_prompt`: when the goroutine of the pending command executes its send, the completion has arrived
(`Arrived`); it stays there whatever other goroutines do (`later`: any steps of any goroutines); the first poll
afterwards takes it and reports exactly the handler's result — `some err`: `Next` returns the error; `none`: the call
goes on with the script (`runFrom` from the unchanged position) — with the invocation log and the script position
untouched; the runner then holds no channel, and whatever happens afterwards (`es`: any schedule) nothing is ever
received from that channel again: reported exactly once -/
theorem completion_prompt {cfg : Cfg} (hg : cfg.Good) (script : List Chan.Stmt) (es0 : List Ev) {g ch : Nat} {v : Val}
    (hst : (reach cfg script es0).status = .ok) (he : (reach cfg script es0).errChan = some ch)
    (hx : (reach cfg script es0).gs[g]? = some (.atSend ch v)) (later : List Nat) :
    let s2 := Sys.exec cfg script ((reach cfg script es0).goStep g) (later.map Ev.go)
    ∃ s3, s2.pollTop cfg = (s3, if v then some .err else none) ∧ s3.errChan = none
      ∧ s3.pc = (reach cfg script es0).pc ∧ s3.calls = (reach cfg script es0).calls
      ∧ receivedFrom ch s3 = receivedFrom ch (reach cfg script es0) ++ [v]
      ∧ (s2.status = .ok → s2.next cfg script =
          if v then (s3, .err) else s3.runFrom cfg (script.drop s3.pc))
      ∧ ∀ es, receivedFrom ch (Sys.exec cfg script s3 es) = receivedFrom ch s3 := by
  intro s2
  have hi := Inv.init.exec hg script es0
  have hi1 := hi.goStep g
  have harr := arrives hi hst he hx
  -- the arrival survives the steps of other goroutines
  have hmany : ∀ (l : List Nat) (t : Sys), Inv t → Arrived t ch v →
      Arrived (Sys.exec cfg script t (l.map Ev.go)) ch v ∧ Inv (Sys.exec cfg script t (l.map Ev.go)) := by
    intro l
    induction l with
    | nil => intro t ht ha; exact ⟨ha, ht⟩
    | cons g' l ih =>
      intro t ht ha
      rw [List.map_cons, exec_cons]
      exact ih _ (ht.goStep g') (ha.goStep ht g')
  obtain ⟨harr2, hi2⟩ := hmany later _ hi1 harr
  obtain ⟨s3, hp, h1, h2, h3, -, h5, h6, h7⟩ := harr2.pollTop hg
  obtain ⟨f1, f2, f3, f4⟩ := exec_go_fields (cfg := cfg) script later ((reach cfg script es0).goStep g)
  obtain ⟨g1, g2, g3, -, g5, -⟩ := goStep_fields (reach cfg script es0) g
  have hi3 : Inv s3 := by have := hi2.pollTop hg; rw [hp] at this; exact this
  refine ⟨s3, hp, h1, h2.trans (f2.trans g2), h3.trans (f3.trans g3), ?_, ?_, ?_⟩
  · rw [h6]
    unfold receivedFrom
    rw [f4, g5]
  · intro hst2
    unfold Sys.next
    simp only [hst2]
    rw [show s2.pollTop cfg = (s3, if v then some .err else none) from hp]
    cases v <;> simp
  · intro es
    exact (forgotten_never_polled hg script hi3 h7 es).2

/-! ### (e) a fresh channel per dispatch isolates abandoned invocations -/

/-- `fresh_channel_isolation`: a command is pending on channel `ch` when `RestoreAt` abandons it. Whatever happens
afterwards — the abandoned goroutine completing at any moment, the same command statement being dispatched again, any
number of polls — nothing is ever received from `ch` again: the result of an abandoned invocation cannot surface in a
later `Next`, because every dispatch polls only the channel it made itself -/
theorem fresh_channel_isolation {cfg : Cfg} (hg : cfg.Good) (script : List Chan.Stmt) (es0 : List Ev) {ch : Nat}
    (hst : (reach cfg script es0).status = .ok) (he : (reach cfg script es0).errChan = some ch) (es : List Ev) :
    receivedFrom ch (Sys.exec cfg script ((reach cfg script es0).restore cfg) es)
      = receivedFrom ch (reach cfg script es0)
    ∧ (Sys.exec cfg script ((reach cfg script es0).restore cfg) es).errChan ≠ some ch := by
  have hi := Inv.init.exec hg script es0
  have hf : Forgot ch ((reach cfg script es0).restore cfg) :=
    ⟨by rw [(restore_fields cfg _).1]; exact hi.errLt ch he, by rw [restore_errChan hg _ hst]; simp⟩
  obtain ⟨h1, h2⟩ := forgotten_never_polled hg script hi.restore hf es
  refine ⟨?_, h1.2⟩
  rw [h2]
  unfold receivedFrom
  rw [(restore_fields cfg _).2.2.2.2.1]

/-! ### (f) channels owned by the host -/

/-- `host_channel_first_event_resumes`: a command is pending on a channel `ch` of the host (chan-returning or raw
handler) on which nothing is available yet; goroutine `g` of the host performs the first action on it — a send
(buffered, or parked on an unbuffered channel until the poll takes it) or a close. Then, whatever the host's goroutines
do next (`later`: further sends, closes, on this or other channels, any number), either the host has crashed the
process, or the first poll afterwards reports exactly that first action — the error sent, success for nil or for a
close — lets go of the channel, leaves the script position and the invocation log alone, and nothing is ever received
from that channel again: further sends of the host stay in its buffer or leave the host's goroutine parked for ever
(the host's business — see the example below), they never reach the runner -/
theorem host_channel_first_event_resumes {cfg : Cfg} (hg : cfg.Good) (script : List Chan.Stmt) (es0 : List Ev)
    {g ch : Nat} {c : Chan} {a : HostAct} {acts : List HostAct}
    (hst : (reach cfg script es0).status = .ok) (he : (reach cfg script es0).errChan = some ch)
    (hc : (reach cfg script es0).heap[ch]? = some c) (hv : c.avail = none)
    (hx : (reach cfg script es0).gs[g]? = some (.host ch (a :: acts))) (later : List Nat) :
    let s2 := Sys.exec cfg script ((reach cfg script es0).goStep g) (later.map Ev.go)
    s2.status = .crashed ∨
    ∃ s3, s2.pollTop cfg = (s3, if a.val then some .err else none) ∧ s3.errChan = none
      ∧ s3.pc = (reach cfg script es0).pc ∧ s3.calls = (reach cfg script es0).calls
      ∧ receivedFrom ch s3 = receivedFrom ch (reach cfg script es0) ++ [a.val]
      ∧ ∀ es, receivedFrom ch (Sys.exec cfg script s3 es) = receivedFrom ch s3 := by
  intro s2
  have hi := Inv.init.exec hg script es0
  have hwf : HeapWF (reach cfg script es0) := HeapWF.init.exec hg script es0 Inv.init
  obtain ⟨-, c1, hc1, hv1⟩ := host_first_event hst hc hv hx
  rcases avail_stable_many (cfg := cfg) script later (hwf.goStep g) hc1 hv1 with h | ⟨c2, hc2, hv2⟩
  · exact Or.inl h
  · right
    obtain ⟨f1, f2, f3, f4⟩ := exec_go_fields (cfg := cfg) script later ((reach cfg script es0).goStep g)
    obtain ⟨g1, g2, g3, -, g5, -⟩ := goStep_fields (reach cfg script es0) g
    have he2 : s2.errChan = some ch := f1.trans (g1.trans he)
    obtain ⟨s3, hp, h1, h2, h3, -, h6, h7⟩ := pollTop_avail hg he2 hc2 hv2
    have hi2 : Inv s2 := by
      have := (hi.goStep g).exec hg script (later.map Ev.go)
      exact this
    have hi3 : Inv s3 := by have := hi2.pollTop hg; rw [hp] at this; exact this
    refine ⟨s3, hp, h1, h2.trans (f2.trans g2), h3.trans (f3.trans g3), ?_, fun es => (forgotten_never_polled hg script hi3 h7 es).2⟩
    rw [h6]
    unfold receivedFrom
    rw [f4, g5]

/-- what is available first on any channel stays what a poll would deliver, whatever goroutine steps come next, unless
the host crashes the process: the runner sees the host's FIRST event -/
theorem first_event_is_stable {cfg : Cfg} (hg : cfg.Good) (script : List Chan.Stmt) (es0 : List Ev) {ch : Nat} {c : Chan}
    {v : Val} (hc : (reach cfg script es0).heap[ch]? = some c) (hv : c.avail = some v) (later : List Nat) :
    (Sys.exec cfg script (reach cfg script es0) (later.map Ev.go)).status = .crashed ∨
    ∃ c', (Sys.exec cfg script (reach cfg script es0) (later.map Ev.go)).heap[ch]? = some c' ∧ c'.avail = some v :=
  avail_stable_many script later (HeapWF.init.exec hg script es0 Inv.init) hc hv

/-! ### (g) refinement to the abstract mailbox of `Ysgo.Model.Runner` -/

/-- `refines_abstract_mailbox`: read through `abs` (nothing pending / running / completion arrived with its failed flag),
every event of the channel-level system is the corresponding move of the abstract runner, for handlers of every shape:
1. the poll at the top of `Next` IS `Ysgo.poll` on the abstract mailbox, with the same answer;
2. a goroutine step is a stutter or the arrival of the completion of the running command — the move `some none ↦ some
   (some failed)` that the abstract model leaves to the environment — unless the host crashes the process;
3. `RestoreAt` empties the mailbox, as `R.restore` does;
4. after `executeCommandStatement` from an empty mailbox, the mailbox holds a running command exactly when the channel was
   kept, and is empty otherwise (the `.cmd` case of `Ysgo.exec`: see `refines_exec`).
Hence the theorems of `Props/C10.lean` over `pending` (`pending_next_is_noop`, `resumes_after_completion`,
`error_surfaced`, …) speak about the channel-level system in every reachable state. -/
theorem refines_abstract_mailbox {cfg : Cfg} (hg : cfg.Good) (script : List Chan.Stmt) (es : List Ev) :
    (∀ {σ π μ : Type} (d : Data σ π), d.pending = abs (reach cfg script es) →
      Ysgo.poll (μ := μ) d = ({ d with pending := abs ((reach cfg script es).pollTop cfg).1 },
                               ((reach cfg script es).pollTop cfg).2.map Obs.toOutcome))
    ∧ (∀ g, abs ((reach cfg script es).goStep g) = abs (reach cfg script es)
        ∨ (abs (reach cfg script es) = some none ∧ ∃ v, abs ((reach cfg script es).goStep g) = some (some v))
        ∨ ((reach cfg script es).goStep g).status = .crashed)
    ∧ ((reach cfg script es).status = .ok → abs ((reach cfg script es).restore cfg) = none)
    ∧ (∀ i sh, (reach cfg script es).status = .ok → (reach cfg script es).errChan = none →
        ((reach cfg script es).execCmd cfg i sh).2 ≠ .stuck ∧
        abs ((reach cfg script es).execCmd cfg i sh).1 =
          (if ((reach cfg script es).execCmd cfg i sh).1.errChan.isSome then some none else none)) := by
  have hi := Inv.init.exec hg script es
  have hwf : HeapWF (reach cfg script es) := HeapWF.init.exec hg script es Inv.init
  refine ⟨fun d hd => refine_poll hg hi d hd, fun g => refine_go hwf g, fun hst => refine_restore hg _ hst, ?_⟩
  intro i sh hst he
  obtain ⟨a, b, -⟩ := refine_execCmd hg i sh _ hst he
  exact ⟨a, b⟩

/-- the dispatch against the abstract runner's own `exec`: when the abstract host answers what the channel-level dispatch
produced (`absOutcome`: done / failed / unknown / pending), the `.cmd` case of `Ysgo.exec` leaves exactly the abstract
mailbox and the output of `Next` that the channel-level system has -/
theorem refines_exec {cfg : Cfg} (hg : cfg.Good) (i : Nat) (sh : Shape) (s : Sys) (hst : s.status = .ok)
    (he : s.errChan = none) {σ π μ : Type} (env : Env σ) (mk : Markup π μ) (p : Program) (d : Data σ π)
    (hd : d.pending = abs s) (e : Expr) (es : List Expr) (name : String) (args : List Value) (w : W σ) (h : σ)
    (hargs : evalArgs env d.store d.visited (e :: es) d.w = (.ok (.str name :: args), w)) (hs : name ≠ "stop")
    (hc : env.cmd name args w.host =
      (absOutcome sh (s.execCmd cfg i sh).2 (s.execCmd cfg i sh).1.errChan.isSome, h)) :
    (Ysgo.exec env mk p d (.cmd (e :: es))).1.pending = abs (s.execCmd cfg i sh).1 ∧
    (Ysgo.exec env mk p d (.cmd (e :: es))).2.2 =
      (match (s.execCmd cfg i sh).2, (s.execCmd cfg i sh).1.errChan.isSome with
       | .failed, _ => some (.err (if sh = .unknown then .unknownCmd else .cmdFailed))
       | .ok, true => some (.ok .waiting)
       | .ok, false => none
       | .stuck, _ => some (.panic .host)) :=
  refine_exec hg i sh s hst he env mk p d hd e es name args w h hargs hs hc

/-! ### non-vacuity: concrete scripts and schedules satisfying the hypotheses above -/
section examples

/-- a converted handler returning an error (it fails), then a line -/
def exWrap : List Chan.Stmt := [.cmd (.errRet true true), .line]
/-- a raw handler returning an unbuffered channel; one goroutine of the host sends an error, then nil -/
def exHost : List Chan.Stmt := [.cmd (.raw (some { cap := 0, procs := [[.send true, .send false]] })), .line]
/-- a raw handler returning a buffered channel that the host closes without sending -/
def exClose : List Chan.Stmt := [.cmd (.raw (some { cap := 1, procs := [[.close]] })), .line]

/-- (a) a pending command: after the first `Next` the runner holds channel 0, on which nothing is available -/
example : (reach {} exWrap [.next]).status = .ok ∧ (reach {} exWrap [.next]).errChan = some 0
    ∧ (reach {} exWrap [.next]).heap[0]? = some { cap := 1 } ∧ ({ cap := 1 } : Chan).avail = none := by decide

/-- (a) the second case of `waiting_answer_cases`: `<<wait>>` completed, the next command statement is pending now -/
example : (Sys.run {} [.cmd (.wait true), .cmd (.noRet true)] Sys.init [.next, .go 0, .go 0, .next]).2
    = [.waiting, .waiting] := by decide

/-- (b) an abandoned invocation reaches its send after the `RestoreAt` that abandoned it … -/
example : (reach {} exWrap [.next, .restore, .go 0]).gs[0]? = some (.atSend 0 true)
    ∧ (reach {} exWrap [.next, .restore, .go 0]).status = .ok := by decide
/-- … and completes it: the goroutine is done, the value sits in the buffer of the abandoned channel for ever -/
example : (reach {} exWrap [.next, .restore, .go 0, .go 0, .next, .next]).gs[0]? = some .libDone
    ∧ (reach {} exWrap [.next, .restore, .go 0, .go 0, .next, .next]).heap[0]? = some { cap := 1, buf := [true] } := by
  decide

/-- (c) the statement is executed twice (a restore in between): two dispatches, two invocations -/
example : (reach {} exWrap [.next, .restore, .next, .next]).calls = [0, 0]
    ∧ ((reach {} exWrap [.next, .restore, .next, .next]).disp.map (·.stmt)) = [0, 0] := by decide

/-- (d) hypotheses of `completion_not_early` (handler running) and of `completion_prompt` (before the send) -/
example : (reach {} exWrap [.next]).errChan = some 0 ∧ (reach {} exWrap [.next]).gs[0]? = some (.running 0 true)
    ∧ (G.running 0 true).libActive = some 0 := by decide
example : (reach {} exWrap [.next, .go 0]).status = .ok ∧ (reach {} exWrap [.next, .go 0]).errChan = some 0
    ∧ (reach {} exWrap [.next, .go 0]).gs[0]? = some (.atSend 0 true) := by decide
example : (∃ res, G.running 0 true = .running 0 res) ∨ G.running 0 true = .sleeping 0 := Or.inl ⟨true, rfl⟩
/-- a late completion: waiting while the handler runs and after it returned, the error exactly once after the send,
then the script goes on -/
example : (Sys.run {} exWrap Sys.init [.next, .next, .go 0, .next, .go 0, .next, .next, .next]).2
    = [.waiting, .waiting, .waiting, .err, .line 1, .ended] := by decide

/-- (e) hypotheses of `fresh_channel_isolation`, and its effect: the abandoned invocation completes (with an error)
while the second invocation of the same statement runs; the runner keeps waiting for the second one and then reports
the second one's result -/
example : (reach {} exWrap [.next]).status = .ok ∧ (reach {} exWrap [.next]).errChan = some 0 := by decide
example : (Sys.run {} exWrap Sys.init [.next, .restore, .next, .go 0, .go 0, .next, .next, .go 1, .go 1, .next, .next]).2
    = [.waiting, .waiting, .waiting, .waiting, .err, .line 1] := by decide

/-- (f) hypotheses of `host_channel_first_event_resumes` -/
example : (reach {} exHost [.next]).status = .ok ∧ (reach {} exHost [.next]).errChan = some 0
    ∧ (reach {} exHost [.next]).heap[0]? = some { cap := 0 } ∧ ({ cap := 0 } : Chan).avail = none
    ∧ (reach {} exHost [.next]).gs[0]? = some (.host 0 [.send true, .send false]) := by decide
/-- the unbuffered send parks the host's goroutine; the poll takes its value (rendezvous): the error is reported; the
host's second send is never received — its goroutine stays parked for ever, the runner goes on -/
example : (Sys.run {} exHost Sys.init [.next, .next, .go 0, .go 0, .next, .go 0, .next, .next, .next]).2
    = [.waiting, .waiting, .err, .line 1, .ended, .ended] := by decide
example : (reach {} exHost [.next, .next, .go 0, .go 0, .next, .go 0, .next, .next, .next]).gs[0]?
    = some (.hostParked 0 []) := by decide
/-- a close is a success -/
example : (Sys.run {} exClose Sys.init [.next, .next, .go 0, .next]).2 = [.waiting, .waiting, .line 1] := by decide
/-- the host crashing the process: a close under its own parked sender -/
example : (reach {} [.cmd (.raw (some { cap := 0, procs := [[.send true], [.close]] }))] [.next, .go 0, .go 1]).status
    = .crashed := by decide

/-- (g) the abstract mailbox along a schedule: running, completion arrived (failed), empty -/
example : abs (reach {} exWrap [.next]) = some none ∧ abs (reach {} exWrap [.next, .go 0]) = some none
    ∧ abs (reach {} exWrap [.next, .go 0, .go 0]) = some (some true)
    ∧ abs (reach {} exWrap [.next, .go 0, .go 0, .next]) = none := by decide

end examples

/-! ### why the hypotheses are needed: counterexamples under other facts -/
section counterexamples

/-- `perCall = false` (the `make` hoisted out of the closure): the result of the abandoned invocation is taken for the
result of the second one — `Next` reports an error although the second handler is still running; under the facts of
the code the same schedule keeps waiting -/
example : (Sys.run { perCall := false } exWrap Sys.init [.next, .restore, .go 0, .go 0, .next]).2 = [.waiting, .err]
    ∧ (Sys.run {} exWrap Sys.init [.next, .restore, .go 0, .go 0, .next]).2 = [.waiting, .waiting] := by decide
/-- … and the value received was sent on the channel of the abandoned invocation (channel 0 is the hoisted one) -/
example : receivedFrom 0 (Sys.exec { perCall := false } exWrap Sys.init [.next, .restore, .go 0, .go 0, .next]) = [true]
    ∧ receivedFrom 0 (Sys.exec {} exWrap Sys.init [.next, .restore, .go 0, .go 0, .next]) = [] := by decide

/-- `cap = 0` (unbuffered): the wrapper's send parks; if the command was abandoned nobody will ever take the value: the
goroutine is leaked for ever — `wrapper_send_never_blocks` fails -/
example : (reach { cap := 0 } exWrap [.next, .restore, .go 0, .go 0, .next, .next, .next]).gs[0]?
    = some (.libParked 0) := by decide

/-- `cap = 0` with a poll of the `len(ch) == 0` style: the parked sender is never seen, the command never completes -/
example : (Sys.run { cap := 0, pollNext := .lenCheck } exWrap Sys.init [.next, .go 0, .go 0, .next, .next, .next]).2
    = [.waiting, .waiting, .waiting, .waiting] := by decide

/-- the `len(ch) == 0` style poll alone (capacity 1): invisible for the library's own channels, but a host that closes its
channel, or sends on an unbuffered one, is never heard — `host_channel_first_event_resumes` fails -/
example : (Sys.run { pollNext := .lenCheck } exClose Sys.init [.next, .go 0, .next, .next]).2
    = [.waiting, .waiting, .waiting]
    ∧ (Sys.run { pollNext := .lenCheck } exHost Sys.init [.next, .go 0, .next, .next]).2
    = [.waiting, .waiting, .waiting] := by decide

/-- immediate values need room: with capacity 0 the runner's own send blocks `Next` for ever -/
example : (Sys.run { immCap := 0 } [.cmd (.wait false)] Sys.init [.next, .next]).2 = [.blocked, .blocked]
    ∧ (Sys.run { unknownCap := 0 } [.cmd .unknown] Sys.init [.next]).2 = [.blocked] := by decide

/-- `RestoreAt` must forget the channel: otherwise the abandoned invocation's result surfaces after the restore -/
example : (Sys.run { restoreClears := false } exWrap Sys.init [.next, .restore, .go 0, .go 0, .next]).2
    = [.waiting, .err] := by decide

/-- the value branch of the poll must forget the channel: otherwise the runner polls the emptied channel for ever -/
example : (Sys.run { pollClears := false } exWrap Sys.init [.next, .go 0, .go 0, .next, .next, .next]).2
    = [.waiting, .err, .waiting, .waiting]
    ∧ (Sys.run {} exWrap Sys.init [.next, .go 0, .go 0, .next, .next, .next]).2
    = [.waiting, .err, .line 1, .ended] := by decide

end counterexamples

/-- the theorems instantiated at the configuration of the code -/
example (script : List Chan.Stmt) (es : List Ev) := wrapper_send_never_blocks code_meets_hypotheses.1 script es
example (script : List Chan.Stmt) (es : List Ev) := exactly_once code_meets_hypotheses.1 script es

end Ysgo.C10

#print axioms Ysgo.C10.code_meets_hypotheses
#print axioms Ysgo.C10.waiting_next_is_noop
#print axioms Ysgo.C10.waiting_answer_cases
#print axioms Ysgo.C10.wrapper_send_never_blocks
#print axioms Ysgo.C10.dispatch_invokes_exactly_once
#print axioms Ysgo.C10.log_untouched_otherwise
#print axioms Ysgo.C10.exactly_once
#print axioms Ysgo.C10.completion_not_early
#print axioms Ysgo.C10.completion_not_early_through_return
#print axioms Ysgo.C10.handler_return_is_not_completion
#print axioms Ysgo.C10.completion_prompt
#print axioms Ysgo.C10.fresh_channel_isolation
#print axioms Ysgo.C10.host_channel_first_event_resumes
#print axioms Ysgo.C10.first_event_is_stable
#print axioms Ysgo.C10.refines_abstract_mailbox
#print axioms Ysgo.C10.refines_exec
