import Ysgo.Lemmas.ExprSyntaxParse
import Ysgo.Lemmas.ExprSyntaxLex
/-!
# C02 (syntactic half) and C08.4: grouping follows the grammar's precedence; parentheses and spellings are layout

DESIGN §5 C02 theorems 5 and 6 (the hand-written part of 6), §5 C08 theorem 4.
All statements are about `ExprSyntax.parseExpr` / `lexExpr` — the executable definitions the `exprsyn`
correspondence stream runs against the ANTLR lexer + parser + listener of /repo.

* `parse_anyParens` — for EVERY tree with explicit parenthesis nodes (any number of redundant pairs around any
  sub-expression, on top of the pairs precedence requires) the parser returns the tree without the parenthesis nodes.
  `parse_printMin`, `parse_printFull`, `parse_printRedundant` are its instances for the three printers.
* `spell_all_same_token` — every spelling in the lexer grammar's operator/keyword table lexes to its token (finite).
* `lex_print` / `parseText_print` — tokens written in ANY spelling, single spaces between them, lex back to the same
  tokens; hence text → tree is independent of the spelling chosen (`spelling_invisible`);
  `parseText_anyLayout` — text → tree for any parenthesisation and any spellings of a lexable tree.
* `parseExpr_fuel_free`, `lexExpr_fuel_free` — the fuel of parser and scanner is never the reason for a failure.
-/
namespace Ysgo
namespace C02Syntax
open ExprSyntax

/-- C02.5 in its general form: redundant parentheses, in any number, around any sub-expressions, are harmless, and
    grouping follows precedence and left associativity (the tree comes back exactly) -/
theorem parse_anyParens (p : PExpr) : parseExpr (prP 1 p) = some p.erase := parse_prP p

/-- C02.5 `parse_printMin`: for ALL expression trees (any nesting of unary operators, calls with any number of
    arguments) the parser inverts the minimal-parenthesis printer -/
theorem parse_printMin (e : Expr) : parseExpr (printMin e) = some e := by
  have := parse_prP (embed e)
  rwa [prP_embed, erase_embed] at this

/-- C02.5 `parse_printFull` -/
theorem parse_printFull (e : Expr) : parseExpr (printFull e) = some e := by
  have := parse_prP (fullP e)
  rwa [prP_fullP, erase_fullP] at this

/-- C02.5 `parse_printRedundant`: `pol s` extra pairs around every sub-expression `s`, for every policy -/
theorem parse_printRedundant (pol : Policy) (e : Expr) : parseExpr (printRedundant pol e) = some e := by
  have := parse_prP (decorate pol e)
  rwa [erase_decorate] at this

/-- C08.4 `redundant_parens_invisible`: two parenthesisations of the same tree parse to the same tree -/
theorem redundant_parens_invisible (p q : PExpr) (h : p.erase = q.erase) :
    parseExpr (prP 1 p) = parseExpr (prP 1 q) := by
  rw [parse_prP, parse_prP, h]

/-- the fuel of `parseExpr` is irrelevant: it succeeds iff SOME fuel lets the level-1 parser consume all tokens -/
theorem parseExpr_fuel_free (ts : List Tok) (e : Expr) :
    parseExpr ts = some e ↔ ∃ f, pLevel f 1 ts = some (e, []) := parseExpr_iff ts e

/-- the fuel of `lexExpr` (one unit per character, plus one) is irrelevant as well: more fuel gives the same answer,
    so `lexExpr cs = none` always is a lexer error -/
theorem lexExpr_fuel_free (cs : List Char) (f : Nat) (hf : cs.length + 1 ≤ f) :
    lexTo f cs = lexTo (cs.length + 1) cs := ExprSyntax.lexExpr_fuel_free cs f hf

/-- C02.5 `spell_all_same_token` (finite): every spelling of every fixed token — `==`/`is`/`eq`, `!=`/`neq`,
    `<=`/`lte`, `>=`/`gte`, `<`/`lt`, `>`/`gt`, `and`/`&&`, `or`/`||`, `xor`/`^`, `not`/`!`, `=`/`to`, `+ - * / %`,
    the compound assignments, `true false null as ( ) , .` — lexes to exactly that token -/
theorem spell_all_same_token : ∀ t ∈ fixedToks, ∀ s ∈ spell t, lexExpr s = some [t] := by decide

/-- no two different fixed tokens share a spelling -/
theorem spell_injective : ∀ t ∈ fixedToks, ∀ u ∈ fixedToks, ∀ s, s ∈ spell t → s ∈ spell u → t = u := by
  intro t ht u hu s hst hsu
  have h1 := spell_all_same_token t ht s hst
  have h2 := spell_all_same_token u hu s hsu
  rw [h1] at h2
  simpa using h2

/-- C02.5 `lex_print`: well-formed tokens in ANY spelling, single spaces between them, lex back to the tokens -/
theorem lex_print (l : List (Tok × Str)) (h : ∀ p ∈ l, p.1.wf = true ∧ p.2 ∈ spell p.1) :
    lexExpr (joinSp (l.map (·.2))) = some (l.map (·.1)) := ExprSyntax.lex_print l h

/-- text → tree of a printed token list does not depend on the spellings chosen -/
theorem parseText_print (l : List (Tok × Str)) (h : ∀ p ∈ l, p.1.wf = true ∧ p.2 ∈ spell p.1) :
    parseText (joinSp (l.map (·.2))) = parseExpr (l.map (·.1)) := by
  simp [parseText, ExprSyntax.lex_print l h]

/-- C08.4 `spelling_invisible`: two writings of the same token list, each token in any of its spellings, are read
    as the same tree (or both rejected) -/
theorem spelling_invisible (l l' : List (Tok × Str))
    (h : ∀ p ∈ l, p.1.wf = true ∧ p.2 ∈ spell p.1) (h' : ∀ p ∈ l', p.1.wf = true ∧ p.2 ∈ spell p.1)
    (hsame : l.map (·.1) = l'.map (·.1)) :
    parseText (joinSp (l.map (·.2))) = parseText (joinSp (l'.map (·.2))) := by
  rw [parseText_print l h, parseText_print l' h', hsame]

/-- text round trip: a tree whose minimal printing consists of well-formed tokens, written with any spelling of
    every operator, is read back as itself -/
theorem parseText_printMin (e : Expr) (l : List (Tok × Str)) (hl : l.map (·.1) = printMin e)
    (h : ∀ p ∈ l, p.1.wf = true ∧ p.2 ∈ spell p.1) : parseText (joinSp (l.map (·.2))) = some e := by
  rw [parseText_print l h, hl, parse_printMin]

/-- C02.5 + C08.4 end to end, text → tree: ANY parenthesisation `p` of a tree whose literals and names are
    lexable (`Expr.wf`), written with ANY spelling of every token, is read back as that tree -/
theorem parseText_anyLayout (p : PExpr) (hwf : p.erase.wf = true) (l : List (Tok × Str))
    (hl : l.map (·.1) = prP 1 p) (hsp : ∀ q ∈ l, q.2 ∈ spell q.1) :
    parseText (joinSp (l.map (·.2))) = some p.erase := by
  have h : ∀ q ∈ l, q.1.wf = true ∧ q.2 ∈ spell q.1 := fun q hq =>
    ⟨wf_prP 1 p hwf q.1 (by rw [← hl]; exact List.mem_map_of_mem hq), hsp q hq⟩
  rw [parseText_print l h, hl, parse_prP]

/-! ## Non-vacuity: the theorems talk about the trees one expects -/

section Examples
open Expr BinOp

private def n1 : Expr := .num ['1']
private def n2 : Expr := .num ['2']
private def n3 : Expr := .num ['3']
private def fa : Expr := .fn ['a'] []
private def fb : Expr := .fn ['b'] []

/-- `1 - 2 - 3` is `(1 - 2) - 3` and prints without parentheses; `1 - (2 - 3)` keeps its pair -/
example : parseText "1 - 2 - 3".toList = some (bin sub (bin sub n1 n2) n3) := rfl
example : printMin (bin sub (bin sub n1 n2) n3) = [.num ['1'], .op sub, .num ['2'], .op sub, .num ['3']] := rfl
example : printMin (bin sub n1 (bin sub n2 n3)) =
    [.num ['1'], .op sub, .lp, .num ['2'], .op sub, .num ['3'], .rp] := rfl
/-- `-1 * 2` is `(-1) * 2`: prefix operators bind tightest -/
example : parseText "-1 * 2".toList = some (bin mul (neg n1) n2) := rfl
example : printMin (neg (bin mul n1 n2)) = [.op sub, .lp, .num ['1'], .op mul, .num ['2'], .rp] := rfl
/-- `not (a() and b())` keeps its pair; without it `not` applies to `a()` only -/
example : parseText "not (a() and b())".toList = some (Expr.not (bin and fa fb)) := rfl
example : parseText "not a() and b()".toList = some (bin and (Expr.not fa) fb) := rfl
/-- `and`, `or`, `xor` share one level and associate to the left -/
example : parseText "a() or b() and a() xor b()".toList = some (bin xor (bin and (bin or fa fb) fa) fb) := rfl
/-- calls with nested calls and several arguments -/
example : parseText "f(1, g(2)) + 3".toList = some (bin add (.fn ['f'] [n1, .fn ['g'] [n2]]) n3) := rfl
example : printMin (bin add (.fn ['f'] [n1, .fn ['g'] [n2]]) n3) =
    [.fid ['f'], .lp, .num ['1'], .comma, .fid ['g'], .lp, .num ['2'], .rp, .rp, .op add, .num ['3']] := rfl
/-- the full and a redundant printing of `1 - 2 - 3` -/
example : printFull (bin sub (bin sub n1 n2) n3) =
    [.lp, .lp, .num ['1'], .op sub, .num ['2'], .rp, .op sub, .num ['3'], .rp] := rfl
example : printRedundant (fun s => match s with | .num _ => 2 | _ => 0) (bin sub n1 n2) =
    [.lp, .lp, .num ['1'], .rp, .rp, .op sub, .lp, .lp, .num ['2'], .rp, .rp] := rfl
/-- keyword versus identifier: `lte` is the operator, `ltex` a function name -/
example : lexExpr "1 lte ltex(2)".toList = some [.num ['1'], .op le, .fid ['l', 't', 'e', 'x'], .lp, .num ['2'], .rp] := rfl
/-- `lex_print` / `spelling_invisible` applied: `1 <= 2` and `1 lte 2` -/
example : parseText "1 lte 2".toList = parseText "1 <= 2".toList :=
  spelling_invisible [(.num ['1'], ['1']), (.op le, ['l', 't', 'e']), (.num ['2'], ['2'])]
    [(.num ['1'], ['1']), (.op le, ['<', '=']), (.num ['2'], ['2'])] (by decide) (by decide) rfl
/-- `parseText_anyLayout` applied: `((1)) lte 2` written with a redundant double pair and the word spelling -/
example : parseText "( ( 1 ) ) lte 2".toList = some (bin le n1 n2) :=
  parseText_anyLayout (.bin le (.paren (.paren (.num ['1']))) (.num ['2'])) rfl
    [(.lp, ['(']), (.lp, ['(']), (.num ['1'], ['1']), (.rp, [')']), (.rp, [')']), (.op le, ['l', 't', 'e']),
     (.num ['2'], ['2'])] rfl (by decide)
/-- malformed input is rejected -/
example : parseText "1 +".toList = none := rfl
example : parseText "a b".toList = none := rfl
example : parseText "(1".toList = none := rfl
example : parseText "1 & 2".toList = none := rfl
/-- a quirk of the grammar (`expression? (COMMA expression)*`) the model shares with ANTLR: `f(, 1)` is a call with
    one argument -/
example : parseText "f(, 1)".toList = some (.fn ['f'] [n1]) := rfl

end Examples

end C02Syntax
end Ysgo
